import LexgenModel.Spec.BisimSpec
/-!
# Soundness of the product exploration (`bisim`)

If `bisim a b (· == ·) starts` reports `ok = true`, the two automata agree (`EquivFrom`) on every
word over code points `≤ charMax`, from every start pair.

* class lemma: `Auto.step d c` is constant between two consecutive boundary points of `c`
  (`step_class`), so every code point `≤ charMax` has a representative in the list `repPts` the
  exploration iterates over (`exists_rep_step`);
* `bisimLoop_closed`: a successful exploration yields a set of pairs closed under the step relation
  (on representatives) and the end-of-input step, all of whose members have equal accept lists;
* `closed_equiv`: a closed set gives agreement on every word;
* `bisim_go_ok`: `bisim` succeeds only if every per-start-pair loop does.
-/
namespace Lexgen
namespace BisimSound

/-! ## The class lemma -/

theorem lookupChar_class {τ : Type} (l : List (Nat × τ)) (p q : Nat) (hpq : p ≤ q)
    (h : ∀ e ∈ l, (e.1 ≤ p ∨ q < e.1) ∧ (e.1 + 1 ≤ p ∨ q < e.1 + 1)) :
    lookupChar l p = lookupChar l q := by
  induction l with
  | nil => rfl
  | cons e rest ih =>
    obtain ⟨k, t⟩ := e
    have hk : (k ≤ p ∨ q < k) ∧ (k + 1 ≤ p ∨ q < k + 1) := h (k, t) (List.mem_cons_self ..)
    have ih' := ih (fun e he => h e (List.mem_cons_of_mem _ he))
    by_cases hpq' : p = q
    · subst hpq'; rfl
    · have h1 : ¬ k = p := by omega
      have h2 : ¬ k = q := by omega
      simp only [lookupChar]
      rw [if_neg h1, if_neg h2]
      exact ih'

theorem rangeLookup_class {τ : Type} (l : RangeMap τ) (p q : Nat) (hpq : p ≤ q)
    (h : ∀ r ∈ l, (r.1 ≤ p ∨ q < r.1) ∧ (r.2.1 + 1 ≤ p ∨ q < r.2.1 + 1)) :
    RangeMap.lookup l p = RangeMap.lookup l q := by
  induction l with
  | nil => rfl
  | cons r rest ih =>
    obtain ⟨s, e, v⟩ := r
    have hk : (s ≤ p ∨ q < s) ∧ (e + 1 ≤ p ∨ q < e + 1) := h (s, e, v) (List.mem_cons_self ..)
    have ih' := ih (fun r hr => h r (List.mem_cons_of_mem _ hr))
    simp only [RangeMap.lookup]
    by_cases hin : s ≤ p ∧ p ≤ e
    · have hin' : s ≤ q ∧ q ≤ e := by omega
      rw [if_pos hin, if_pos hin']
    · have hin' : ¬ (s ≤ q ∧ q ≤ e) := by omega
      rw [if_neg hin, if_neg hin']
      exact ih'

/-- Membership in the lists `Auto.points` builds. -/
theorem mem_foldl_pts {α : Type} (f g : α → Nat) (l : List α) (acc : List Nat) :
    (∀ z ∈ acc, z ∈ l.foldl (fun acc e => f e :: g e :: acc) acc) ∧
    (∀ e ∈ l, f e ∈ l.foldl (fun acc e => f e :: g e :: acc) acc ∧
      g e ∈ l.foldl (fun acc e => f e :: g e :: acc) acc) := by
  induction l generalizing acc with
  | nil =>
    refine ⟨fun z hz => hz, fun e he => ?_⟩
    cases he
  | cons a rest ih =>
    have ih' := ih (f a :: g a :: acc)
    simp only [List.foldl_cons]
    refine ⟨fun z hz => ih'.1 z ?_, fun e he => ?_⟩
    · exact List.mem_cons_of_mem _ (List.mem_cons_of_mem _ hz)
    · rcases List.mem_cons.1 he with rfl | he'
      · exact ⟨ih'.1 _ (List.mem_cons_self ..),
          ih'.1 _ (List.mem_cons_of_mem _ (List.mem_cons_self ..))⟩
      · exact ih'.2 e he'

theorem chars_points {τ : Type} [Target τ] (d : DFA τ) (s : Nat) (e : Nat × τ)
    (he : e ∈ (d.st s).chars) :
    e.1 ∈ Auto.points d (.st s) ∧ e.1 + 1 ∈ Auto.points d (.st s) := by
  have h := (mem_foldl_pts (fun e : Nat × τ => e.1) (fun e => e.1 + 1) (d.st s).chars []).2 e he
  simp only [Auto.points]
  exact ⟨List.mem_append.2 (Or.inl h.1), List.mem_append.2 (Or.inl h.2)⟩

theorem ranges_points {τ : Type} [Target τ] (d : DFA τ) (s : Nat) (r : Nat × Nat × τ)
    (hr : r ∈ (d.st s).ranges) :
    r.1 ∈ Auto.points d (.st s) ∧ r.2.1 + 1 ∈ Auto.points d (.st s) := by
  have h := (mem_foldl_pts (fun r : Nat × Nat × τ => r.1) (fun r => r.2.1 + 1)
    (d.st s).ranges []).2 r hr
  simp only [Auto.points]
  exact ⟨List.mem_append.2 (Or.inr h.1), List.mem_append.2 (Or.inr h.2)⟩

/-- `Auto.step d c` takes the same value on `p` and `q` when no boundary point of `c` lies in
`(p, q]`. -/
theorem step_class {τ : Type} [Target τ] (d : DFA τ) (c : Cfg) (p q : Nat) (hpq : p ≤ q)
    (h : ∀ z ∈ Auto.points d c, z ≤ p ∨ q < z) : Auto.step d c p = Auto.step d c q := by
  cases c with
  | term accs => rfl
  | st s =>
    have h1 : lookupChar (d.st s).chars p = lookupChar (d.st s).chars q :=
      lookupChar_class _ p q hpq (fun e he =>
        ⟨h _ (chars_points d s e he).1, h _ (chars_points d s e he).2⟩)
    have h2 : RangeMap.lookup (d.st s).ranges p = RangeMap.lookup (d.st s).ranges q :=
      rangeLookup_class _ p q hpq (fun r hr =>
        ⟨h _ (ranges_points d s r hr).1, h _ (ranges_points d s r hr).2⟩)
    simp only [Auto.step, lookupTrans]
    rw [h1, h2]

/-- The greatest element of `l` below `c`. -/
theorem exists_rep (l : List Nat) (h0 : 0 ∈ l) (c : Nat) :
    ∃ p ∈ l, p ≤ c ∧ ∀ z ∈ l, z ≤ p ∨ c < z := by
  induction c with
  | zero => exact ⟨0, h0, Nat.le_refl _, fun z _ => by omega⟩
  | succ c ih =>
    by_cases hc : c + 1 ∈ l
    · exact ⟨c + 1, hc, Nat.le_refl _, fun z _ => by omega⟩
    · obtain ⟨p, hp, hpc, hz⟩ := ih
      refine ⟨p, hp, by omega, fun z hzl => ?_⟩
      rcases hz z hzl with h | h
      · exact Or.inl h
      · by_cases hzc : z = c + 1
        · subst hzc; exact absurd hzl hc
        · exact Or.inr (by omega)

/-- The representatives `bisimLoop` compares two configurations on. -/
def repPts {τ₁ τ₂ : Type} [Target τ₁] [Target τ₂] (a : DFA τ₁) (b : DFA τ₂) (x y : Cfg) : List Nat :=
  (List.filter (fun z => decide (z ≤ charMax))
    (0 :: charMax :: (Auto.points a x ++ Auto.points b y))).eraseDups

theorem mem_repPts {τ₁ τ₂ : Type} [Target τ₁] [Target τ₂] (a : DFA τ₁) (b : DFA τ₂) (x y : Cfg)
    (z : Nat) :
    z ∈ repPts a b x y ↔
      (z = 0 ∨ z = charMax ∨ z ∈ Auto.points a x ∨ z ∈ Auto.points b y) ∧ z ≤ charMax := by
  unfold repPts
  rw [List.mem_eraseDups, List.mem_filter, List.mem_cons, List.mem_cons, List.mem_append,
    decide_eq_true_iff]

/-- Every code point has a representative on which both configurations step as on it. -/
theorem exists_rep_step {τ₁ τ₂ : Type} [Target τ₁] [Target τ₂] (a : DFA τ₁) (b : DFA τ₂)
    (x y : Cfg) (c : Nat) (hc : c ≤ charMax) :
    ∃ p ∈ repPts a b x y, Auto.step a x c = Auto.step a x p ∧ Auto.step b y c = Auto.step b y p := by
  have h0 : 0 ∈ repPts a b x y := (mem_repPts a b x y 0).2 ⟨Or.inl rfl, Nat.zero_le _⟩
  obtain ⟨p, hp, hpc, hz⟩ := exists_rep (repPts a b x y) h0 c
  refine ⟨p, hp, ?_, ?_⟩
  · refine (step_class a x p c hpc (fun z hzp => ?_)).symm
    by_cases hzc : z ≤ c
    · exact hz z ((mem_repPts a b x y z).2 ⟨Or.inr (Or.inr (Or.inl hzp)), by omega⟩)
    · exact Or.inr (by omega)
  · refine (step_class b y p c hpc (fun z hzp => ?_)).symm
    by_cases hzc : z ≤ c
    · exact hz z ((mem_repPts a b x y z).2 ⟨Or.inr (Or.inr (Or.inr hzp)), by omega⟩)
    · exact Or.inr (by omega)

/-! ## The closed set a successful exploration yields -/

/-- Both sides lack the transition, or both have it and the target pair satisfies `T`. -/
def StepOK (T : Cfg × Cfg → Prop) (o1 o2 : Option Cfg) : Prop :=
  (o1 = none ∧ o2 = none) ∨ ∃ x' y', o1 = some x' ∧ o2 = some y' ∧ T (x', y')

theorem StepOK.mono {T T' : Cfg × Cfg → Prop} {o1 o2 : Option Cfg} (h : StepOK T o1 o2)
    (hT : ∀ p, T p → T' p) : StepOK T' o1 o2 := by
  rcases h with h | ⟨x', y', h1, h2, h3⟩
  · exact Or.inl h
  · exact Or.inr ⟨x', y', h1, h2, hT _ h3⟩

structure ClosedAt {τ₁ τ₂ : Type} [Target τ₁] [Target τ₂] (a : DFA τ₁) (b : DFA τ₂)
    (S : List (Cfg × Cfg)) (p : Cfg × Cfg) : Prop where
  acc : Auto.acc a p.1 = Auto.acc b p.2
  step : ∀ c ∈ repPts a b p.1 p.2, StepOK (· ∈ S) (Auto.step a p.1 c) (Auto.step b p.2 c)
  eoi : StepOK (· ∈ S) (Auto.eoi a p.1) (Auto.eoi b p.2)

/-- The inner loop over the representatives. -/
theorem go_ok {τ₁ τ₂ : Type} [Target τ₁] [Target τ₂] (a : DFA τ₁) (b : DFA τ₂) (x y : Cfg)
    (w : List Nat) (seen : List (Cfg × Cfg)) (cs : List Nat)
    (acc next : List (Cfg × Cfg × List Nat))
    (h : bisimLoop.go a b x y w seen cs acc = .ok next) :
    (∀ q ∈ acc, q ∈ next) ∧
    ∀ c ∈ cs, StepOK (fun p => p ∈ seen ∨ ∃ q ∈ next, (q.1, q.2.1) = p)
      (Auto.step a x c) (Auto.step b y c) := by
  induction cs generalizing acc with
  | nil =>
    rw [bisimLoop.go.eq_1] at h
    cases h
    exact ⟨fun q hq => hq, fun c hc => by cases hc⟩
  | cons c cs ih =>
    rw [bisimLoop.go.eq_2] at h
    split at h
    · rename_i hx hy
      obtain ⟨h1, h2⟩ := ih acc h
      refine ⟨h1, fun c' hc' => ?_⟩
      rcases List.mem_cons.1 hc' with rfl | hc'
      · exact Or.inl ⟨hx, hy⟩
      · exact h2 c' hc'
    · rename_i x' y' hx hy
      split at h
      · rename_i hcond
        obtain ⟨h1, h2⟩ := ih acc h
        refine ⟨h1, fun c' hc' => ?_⟩
        rcases List.mem_cons.1 hc' with rfl | hc'
        · refine Or.inr ⟨x', y', hx, hy, ?_⟩
          rcases (Bool.or_eq_true _ _).mp hcond with hs | ha
          · exact Or.inl (List.contains_iff_mem.1 hs)
          · obtain ⟨q, hq, hqe⟩ := List.any_eq_true.1 ha
            have hqe' := (Bool.and_eq_true _ _).mp hqe
            have e1 : q.1 = x' := beq_iff_eq.1 hqe'.1
            have e2 : q.2.1 = y' := beq_iff_eq.1 hqe'.2
            exact Or.inr ⟨q, h1 q hq, by rw [e1, e2]⟩
        · exact h2 c' hc'
      · obtain ⟨h1, h2⟩ := ih _ h
        refine ⟨fun q hq => h1 q (List.mem_cons_of_mem _ hq), fun c' hc' => ?_⟩
        rcases List.mem_cons.1 hc' with rfl | hc'
        · exact Or.inr ⟨x', y', hx, hy, Or.inr ⟨_, h1 _ (List.mem_cons_self ..), rfl⟩⟩
        · exact h2 c' hc'
    · cases h
    · cases h

/-- Invariant of the exploration: on success there is a set containing `seen` and the queued
pairs, every member of which outside `seen` is closed. -/
theorem bisimLoop_closed {τ₁ τ₂ : Type} [Target τ₁] [Target τ₂] (a : DFA τ₁) (b : DFA τ₂)
    (fuel : Nat) (queue : List (Cfg × Cfg × List Nat)) (seen : List (Cfg × Cfg))
    (h : (bisimLoop a b (fun l1 l2 => l1 == l2) fuel queue seen).ok = true) :
    ∃ S : List (Cfg × Cfg), (∀ p ∈ seen, p ∈ S) ∧ (∀ q ∈ queue, (q.1, q.2.1) ∈ S) ∧
      ∀ p ∈ S, p ∉ seen → ClosedAt a b S p := by
  induction fuel generalizing queue seen with
  | zero =>
    rw [bisimLoop.eq_1] at h
    cases h
  | succ fuel ih =>
    cases queue with
    | nil =>
      exact ⟨seen, fun p hp => hp, fun q hq => (by cases hq), fun p hp hn => absurd hp hn⟩
    | cons q queue =>
      obtain ⟨x, y, w⟩ := q
      rw [bisimLoop.eq_3] at h
      split at h
      · rename_i hseen
        obtain ⟨S, h1, h2, h3⟩ := ih queue seen h
        refine ⟨S, h1, fun q hq => ?_, h3⟩
        rcases List.mem_cons.1 hq with rfl | hq
        · exact h1 _ (List.contains_iff_mem.1 hseen)
        · exact h2 q hq
      · rename_i hseen
        simp only at h
        split at h
        · cases h
        · rename_i hacc
          have hacc' : Auto.acc a x = Auto.acc b y := by
            cases hb : (Auto.acc a x == Auto.acc b y) with
            | true => exact beq_iff_eq.1 hb
            | false => rw [hb] at hacc; exact absurd rfl hacc
          split at h
          · cases h
          · rename_i next hgo
            obtain ⟨_, hsteps⟩ := go_ok a b x y w ((x, y) :: seen) _ [] next hgo
            -- what remains once the recursive call is known to succeed
            have key : ∀ (queue' : List (Cfg × Cfg × List Nat)),
                (∀ q ∈ queue, q ∈ queue') → (∀ q ∈ next, q ∈ queue') →
                (bisimLoop a b (fun l1 l2 => l1 == l2) fuel queue' ((x, y) :: seen)).ok = true →
                (∀ S : List (Cfg × Cfg), (∀ q ∈ queue', (q.1, q.2.1) ∈ S) →
                  StepOK (· ∈ S) (Auto.eoi a x) (Auto.eoi b y)) →
                ∃ S : List (Cfg × Cfg), (∀ p ∈ seen, p ∈ S) ∧
                  (∀ q ∈ (x, y, w) :: queue, (q.1, q.2.1) ∈ S) ∧
                  ∀ p ∈ S, p ∉ seen → ClosedAt a b S p := by
              intro queue' hq1 hq2 hrec heoi
              obtain ⟨S, h1, h2, h3⟩ := ih queue' ((x, y) :: seen) hrec
              refine ⟨S, fun p hp => h1 p (List.mem_cons_of_mem _ hp), fun q hq => ?_,
                fun p hp hn => ?_⟩
              · rcases List.mem_cons.1 hq with rfl | hq
                · exact h1 _ (List.mem_cons_self ..)
                · exact h2 q (hq1 q hq)
              · by_cases hpx : p = (x, y)
                · subst hpx
                  refine ⟨hacc', fun c hc => ?_, heoi S h2⟩
                  refine (hsteps c hc).mono (fun p hp => ?_)
                  rcases hp with hp | ⟨q, hq, rfl⟩
                  · exact h1 p hp
                  · exact h2 q (hq2 q hq)
                · refine h3 p hp (fun hmem => ?_)
                  rcases List.mem_cons.1 hmem with e | hmem
                  · exact hpx e
                  · exact hn hmem
            split at h
            · rename_i hx hy
              refine key (queue ++ next) (fun q hq => List.mem_append.2 (Or.inl hq))
                (fun q hq => List.mem_append.2 (Or.inr hq)) h (fun S _ => Or.inl ⟨hx, hy⟩)
            · rename_i x' y' hx hy
              refine key (queue ++ (x', y', eoiSym :: w) :: next)
                (fun q hq => List.mem_append.2 (Or.inl hq))
                (fun q hq => List.mem_append.2 (Or.inr (List.mem_cons_of_mem _ hq))) h
                (fun S hS => Or.inr ⟨x', y', hx, hy, ?_⟩)
              exact hS (x', y', eoiSym :: w) (List.mem_append.2 (Or.inr (List.mem_cons_self ..)))
            · cases h
            · cases h

/-! ## From a closed set to agreement on every word -/

theorem closed_equiv {τ₁ τ₂ : Type} [Target τ₁] [Target τ₂] (a : DFA τ₁) (b : DFA τ₂)
    (S : List (Cfg × Cfg)) (hS : ∀ p ∈ S, ClosedAt a b S p) (w : List Nat)
    (hw : ∀ c ∈ w, c ≤ charMax) (cx cy : Cfg) (hxy : (cx, cy) ∈ S) :
    match runCfg a cx w, runCfg b cy w with
    | some cx', some cy' => CfgAgree a b cx' cy'
    | none, none => True
    | _, _ => False := by
  induction w generalizing cx cy with
  | nil =>
    have hc := hS _ hxy
    simp only [runCfg]
    refine ⟨hc.acc, ?_⟩
    rcases hc.eoi with ⟨h1, h2⟩ | ⟨ex, ey, h1, h2, h3⟩
    · simp only at h1 h2
      rw [h1, h2]
      trivial
    · simp only at h1 h2
      rw [h1, h2]
      exact (hS _ h3).acc
  | cons c w ih =>
    have hc := hS _ hxy
    obtain ⟨p, hp, ha, hb⟩ := exists_rep_step a b cx cy c (hw c (List.mem_cons_self ..))
    have hw' : ∀ c ∈ w, c ≤ charMax := fun c' hc' => hw c' (List.mem_cons_of_mem _ hc')
    simp only [runCfg]
    rcases hc.step p hp with ⟨h1, h2⟩ | ⟨x', y', h1, h2, h3⟩
    · simp only at h1 h2
      rw [ha, hb, h1, h2]
      trivial
    · simp only at h1 h2
      rw [ha, hb, h1, h2]
      exact ih hw' x' y' h3

/-! ## The driver -/

theorem bisim_go_ok {τ₁ τ₂ : Type} [Target τ₁] [Target τ₂] (a : DFA τ₁) (b : DFA τ₂)
    (accEq : List Acc → List Acc → Bool) (fuel : Nat) (starts : List (Nat × Nat)) (idx pairs : Nat)
    (h : (bisim.go a b accEq fuel starts idx pairs).1.ok = true) (x y : Nat)
    (hxy : (x, y) ∈ starts) :
    (bisimLoop a b accEq fuel [(Cfg.st x, Cfg.st y, [])] []).ok = true := by
  induction starts generalizing idx pairs with
  | nil => cases hxy
  | cons s rest ih =>
    obtain ⟨x0, y0⟩ := s
    rw [bisim.go.eq_2] at h
    split at h
    · rename_i hr
      rcases List.mem_cons.1 hxy with e | hxy'
      · cases e; exact hr
      · exact ih _ _ h hxy'
    · rename_i hr
      exact absurd h hr

end BisimSound

open BisimSound in
/-- When the exploration succeeds, the two automata agree on every word from every start pair. -/
theorem bisim_sound {τ₁ τ₂ : Type} [Target τ₁] [Target τ₂] (a : DFA τ₁) (b : DFA τ₂) (starts : List (Nat × Nat))
    (h : (bisim a b (fun l1 l2 => l1 == l2) starts).1.ok = true) (x y : Nat) (hxy : (x, y) ∈ starts) :
    EquivFrom a b x y := by
  have hloop := bisim_go_ok a b _ _ starts 0 0 h x y hxy
  obtain ⟨S, _, h2, h3⟩ := bisimLoop_closed a b _ _ _ hloop
  have hmem : (Cfg.st x, Cfg.st y) ∈ S := h2 _ (List.mem_cons_self ..)
  have hS : ∀ p ∈ S, ClosedAt a b S p := fun p hp => h3 p hp (fun hn => by cases hn)
  intro w hw
  exact closed_equiv a b S hS w hw _ _ hmem

end Lexgen
