import LexgenModel.Proofs.RangeMap
/-!
# S1 (continued) — `RangeMap::insert_ranges` and `RangeMap::remove_ranges` specifications

Both operations preserve well-formedness, and their result is characterised point-wise through
`lookup`.
-/

set_option linter.unusedSimpArgs false
set_option linter.unusedVariables false
namespace Lexgen.RangeMap
variable {α β : Type}

/-- merge of the values of two maps at a point -/
def mergeOpt2 (merge : α → α → α) : Option α → Option α → Option α
  | some x, some y => some (merge x y)
  | some x, none => some x
  | none, some y => some y
  | none, none => none

theorem mergeOpt2_none_right (merge : α → α → α) (a : Option α) : mergeOpt2 merge a none = a := by
  cases a <;> rfl

theorem mergeOpt2_none_left (merge : α → α → α) (a : Option α) : mergeOpt2 merge none a = a := by
  cases a <;> rfl

/-- Point-wise case analysis: locate `c` relative to the four end points of the two heads, then
decide every interval test with `omega`; `r1`/`r2` say that the tails are `none` up to the head's
end. Contradictory positions are closed by `omega` directly. -/
local macro "lk_cases " c:ident s1:ident e1:ident s2:ident e2:ident " with " r1:ident r2:ident : tactic =>
  `(tactic|
    (by_cases q1 : $s1 ≤ $c <;> by_cases q2 : $c ≤ $e1 <;> by_cases q3 : $s2 ≤ $c <;> by_cases q4 : $c ≤ $e2 <;>
      first
        | omega
        | simp (disch := omega) only [if_pos, if_neg, $r1:ident, $r2:ident, mergeOpt2, Option.isSome,
            mergeOpt2_none_left, mergeOpt2_none_right]))

theorem insertRanges_spec (merge : α → α → α) (l1 l2 : RangeMap α) (lo : Nat)
    (h1 : WFFrom lo l1) (h2 : WFFrom lo l2) :
    WFFrom lo (insertRanges merge l1 l2) ∧
    ∀ c, lookup (insertRanges merge l1 l2) c = mergeOpt2 merge (lookup l1 c) (lookup l2 c) := by
  fun_induction insertRanges merge l1 l2 generalizing lo
  case case1 => exact ⟨trivial, fun c => rfl⟩
  case case2 r1 rest1 =>
    exact ⟨h1, fun c => by simp only [lookup, mergeOpt2_none_right]⟩
  case case3 r2 rest2 =>
    exact ⟨h2, fun c => by simp only [lookup, mergeOpt2_none_left]⟩
  case case4 s1 e1 v1 rest1 s2 e2 v2 rest2 hA ih =>
    obtain ⟨a1, a2, a3⟩ := h1
    obtain ⟨b1, b2, b3⟩ := h2
    have r1 : ∀ c, c ≤ e1 → lookup rest1 c = none := fun c hc => lookup_none_of_lt a3 (by omega)
    have r2 : ∀ c, c ≤ e2 → lookup rest2 c = none := fun c hc => lookup_none_of_lt b3 (by omega)
    have ⟨ihw, ihl⟩ := ih (e1 + 1) a3 ⟨by omega, b2, b3⟩
    refine ⟨⟨a1, a2, ihw⟩, fun c => ?_⟩
    simp only [lookup, ihl c]
    lk_cases c s1 e1 s2 e2 with r1 r2
  case case5 s1 e1 v1 rest1 s2 e2 v2 rest2 hA hB ih =>
    obtain ⟨a1, a2, a3⟩ := h1
    obtain ⟨b1, b2, b3⟩ := h2
    have r1 : ∀ c, c ≤ e1 → lookup rest1 c = none := fun c hc => lookup_none_of_lt a3 (by omega)
    have r2 : ∀ c, c ≤ e2 → lookup rest2 c = none := fun c hc => lookup_none_of_lt b3 (by omega)
    have ⟨ihw, ihl⟩ := ih (e2 + 1) ⟨by omega, a2, a3⟩ b3
    refine ⟨⟨b1, b2, ihw⟩, fun c => ?_⟩
    simp only [lookup, ihl c]
    lk_cases c s1 e1 s2 e2 with r1 r2
  case case6 s1 e1 v1 rest1 s2 e2 v2 rest2 hA hB os hC ih =>
    obtain ⟨a1, a2, a3⟩ := h1
    obtain ⟨b1, b2, b3⟩ := h2
    have hos : os = s2 := Nat.max_eq_right (Nat.le_of_lt hC)
    clear_value os; subst hos
    have r1 : ∀ c, c ≤ e1 → lookup rest1 c = none := fun c hc => lookup_none_of_lt a3 (by omega)
    have r2 : ∀ c, c ≤ e2 → lookup rest2 c = none := fun c hc => lookup_none_of_lt b3 (by omega)
    have ⟨ihw, ihl⟩ := ih os ⟨Nat.le_refl _, by omega, a3⟩ ⟨Nat.le_refl _, b2, b3⟩
    have hs : os - 1 + 1 = os := by omega
    refine ⟨⟨a1, by omega, by rw [hs]; exact ihw⟩, fun c => ?_⟩
    simp only [lookup, ihl c]
    lk_cases c s1 e1 os e2 with r1 r2
  case case7 s1 e1 v1 rest1 s2 e2 v2 rest2 hA hB os hC hD ih =>
    obtain ⟨a1, a2, a3⟩ := h1
    obtain ⟨b1, b2, b3⟩ := h2
    have hos : os = s1 := Nat.max_eq_left (Nat.le_of_lt hD)
    clear_value os; subst hos
    have r1 : ∀ c, c ≤ e1 → lookup rest1 c = none := fun c hc => lookup_none_of_lt a3 (by omega)
    have r2 : ∀ c, c ≤ e2 → lookup rest2 c = none := fun c hc => lookup_none_of_lt b3 (by omega)
    have ⟨ihw, ihl⟩ := ih os ⟨Nat.le_refl _, a2, a3⟩ ⟨Nat.le_refl _, by omega, b3⟩
    have hs : os - 1 + 1 = os := by omega
    refine ⟨⟨b1, by omega, by rw [hs]; exact ihw⟩, fun c => ?_⟩
    simp only [lookup, ihl c]
    lk_cases c os e1 s2 e2 with r1 r2
  case case8 s1 e1 v1 rest1 s2 e2 v2 rest2 hA hB os oe hC hD merged hE ih =>
    obtain ⟨a1, a2, a3⟩ := h1
    obtain ⟨b1, b2, b3⟩ := h2
    have hm : merged = (os, oe, merge v1 v2) := rfl
    clear_value merged; subst hm
    have hos : os = s1 := Nat.max_eq_left (Nat.le_of_not_lt hC)
    clear_value os; subst hos
    have hoe : oe = e1 := Nat.min_eq_left (Nat.le_of_lt hE)
    clear_value oe; subst hoe
    have hss : s2 = os := by omega
    subst hss
    have r1 : ∀ c, c ≤ oe → lookup rest1 c = none := fun c hc => lookup_none_of_lt a3 (by omega)
    have r2 : ∀ c, c ≤ e2 → lookup rest2 c = none := fun c hc => lookup_none_of_lt b3 (by omega)
    have ⟨ihw, ihl⟩ := ih (oe + 1) a3 ⟨Nat.le_refl _, by omega, b3⟩
    refine ⟨⟨a1, a2, ihw⟩, fun c => ?_⟩
    simp only [lookup, ihl c]
    lk_cases c s2 oe s2 e2 with r1 r2
  case case9 s1 e1 v1 rest1 s2 e2 v2 rest2 hA hB os oe hC hD merged hE hF ih =>
    obtain ⟨a1, a2, a3⟩ := h1
    obtain ⟨b1, b2, b3⟩ := h2
    have hm : merged = (os, oe, merge v1 v2) := rfl
    clear_value merged; subst hm
    have hos : os = s1 := Nat.max_eq_left (Nat.le_of_not_lt hC)
    clear_value os; subst hos
    have hoe : oe = e2 := Nat.min_eq_right (Nat.le_of_lt hF)
    clear_value oe; subst hoe
    have hss : s2 = os := by omega
    subst hss
    have r1 : ∀ c, c ≤ e1 → lookup rest1 c = none := fun c hc => lookup_none_of_lt a3 (by omega)
    have r2 : ∀ c, c ≤ oe → lookup rest2 c = none := fun c hc => lookup_none_of_lt b3 (by omega)
    have ⟨ihw, ihl⟩ := ih (oe + 1) ⟨Nat.le_refl _, by omega, a3⟩ b3
    refine ⟨⟨a1, b2, ihw⟩, fun c => ?_⟩
    simp only [lookup, ihl c]
    lk_cases c s2 e1 s2 oe with r1 r2
  case case10 s1 e1 v1 rest1 s2 e2 v2 rest2 hA hB os oe hC hD merged hE hF ih =>
    obtain ⟨a1, a2, a3⟩ := h1
    obtain ⟨b1, b2, b3⟩ := h2
    have hm : merged = (os, oe, merge v1 v2) := rfl
    clear_value merged; subst hm
    have hos : os = s1 := Nat.max_eq_left (Nat.le_of_not_lt hC)
    clear_value os; subst hos
    have hoe : oe = e1 := Nat.min_eq_left (Nat.le_of_not_lt hF)
    clear_value oe; subst hoe
    have hss : s2 = os := by omega
    subst hss
    have hee : e2 = oe := by omega
    subst hee
    have r1 : ∀ c, c ≤ e2 → lookup rest1 c = none := fun c hc => lookup_none_of_lt a3 (by omega)
    have r2 : ∀ c, c ≤ e2 → lookup rest2 c = none := fun c hc => lookup_none_of_lt b3 (by omega)
    have ⟨ihw, ihl⟩ := ih (e2 + 1) a3 b3
    refine ⟨⟨a1, a2, ihw⟩, fun c => ?_⟩
    simp only [lookup, ihl c]
    lk_cases c s2 e2 s2 e2 with r1 r2

theorem max_cases (a b : Nat) : (a ≤ b ∧ max a b = b) ∨ (b ≤ a ∧ max a b = a) := by
  rcases Nat.le_total a b with h | h
  · exact Or.inl ⟨h, Nat.max_eq_right h⟩
  · exact Or.inr ⟨h, Nat.max_eq_left h⟩

theorem min_cases (a b : Nat) : (a ≤ b ∧ min a b = a) ∨ (b ≤ a ∧ min a b = b) := by
  rcases Nat.le_total a b with h | h
  · exact Or.inl ⟨h, Nat.min_eq_left h⟩
  · exact Or.inr ⟨h, Nat.min_eq_right h⟩

/-- Same as `lk_cases`, for the `removeRanges` goals. -/
local macro "rm_cases " c:ident s1:ident e1:ident s2:ident e2:ident " with " r1:ident r2:ident : tactic =>
  `(tactic|
    (by_cases q1 : $s1 ≤ $c <;> by_cases q2 : $c ≤ $e1 <;> by_cases q3 : $s2 ≤ $c <;> by_cases q4 : $c ≤ $e2 <;>
      first
        | omega
        | simp (disch := omega) only [if_pos, if_neg, $r1:ident, $r2:ident, Option.isSome_some, Option.isSome_none,
            if_true, if_false, Bool.false_eq_true, ite_self]))

theorem removeRanges_spec (l1 : RangeMap α) (l2 : RangeMap β) (lo lo2 : Nat)
    (h1 : WFFrom lo l1) (h2 : WFFrom lo2 l2) :
    WFFrom lo (removeRanges l1 l2) ∧
    ∀ c, lookup (removeRanges l1 l2) c = if (lookup l2 c).isSome then none else lookup l1 c := by
  fun_induction removeRanges l1 l2 generalizing lo lo2
  case case1 l2 => exact ⟨trivial, fun c => by simp only [lookup, ite_self]⟩
  case case2 r rest =>
    exact ⟨h1, fun c => by simp only [lookup, Option.isSome_none, Bool.false_eq_true, if_false]⟩
  case case3 s e v rest rs re rv rrest hA ih =>
    have h2' := h2
    obtain ⟨a1, a2, a3⟩ := h1
    obtain ⟨b1, b2, b3⟩ := h2
    have r1 : ∀ c, c ≤ e → lookup rest c = none := fun c hc => lookup_none_of_lt a3 (by omega)
    have r2 : ∀ c, c ≤ re → lookup rrest c = none := fun c hc => lookup_none_of_lt b3 (by omega)
    have ⟨ihw, ihl⟩ := ih (e + 1) lo2 a3 h2'
    refine ⟨⟨a1, a2, ihw⟩, fun c => ?_⟩
    simp only [lookup, ihl c]
    rm_cases c s e rs re with r1 r2
  case case4 s e v rest rs re rv rrest hA hB ih =>
    have h1' := h1
    obtain ⟨a1, a2, a3⟩ := h1
    obtain ⟨b1, b2, b3⟩ := h2
    have r1 : ∀ c, c ≤ e → lookup rest c = none := fun c hc => lookup_none_of_lt a3 (by omega)
    have r2 : ∀ c, c ≤ re → lookup rrest c = none := fun c hc => lookup_none_of_lt b3 (by omega)
    have ⟨ihw, ihl⟩ := ih lo (re + 1) h1' b3
    refine ⟨ihw, fun c => ?_⟩
    simp only [lookup, ihl c]
    rm_cases c s e rs re with r1 r2
  case case5 s e v rest rs re rv rrest hA hB os oe hC hD ih =>
    have h2' := h2
    obtain ⟨a1, a2, a3⟩ := h1
    obtain ⟨b1, b2, b3⟩ := h2
    have hos : (s ≤ rs ∧ os = rs) ∨ (rs ≤ s ∧ os = s) := max_cases s rs
    have hoe : (e ≤ re ∧ oe = e) ∨ (re ≤ e ∧ oe = re) := min_cases e re
    clear_value os oe
    have r1 : ∀ c, c ≤ e → lookup rest c = none := fun c hc => lookup_none_of_lt a3 (by omega)
    have r2 : ∀ c, c ≤ re → lookup rrest c = none := fun c hc => lookup_none_of_lt b3 (by omega)
    have ⟨ihw, ihl⟩ := ih (e + 1) lo2 a3 h2'
    refine ⟨ihw.mono (by omega), fun c => ?_⟩
    simp only [lookup, ihl c]
    rm_cases c s e rs re with r1 r2
  case case6 s e v rest rs re rv rrest hA hB os oe hC hD ih =>
    obtain ⟨a1, a2, a3⟩ := h1
    obtain ⟨b1, b2, b3⟩ := h2
    have hos : (s ≤ rs ∧ os = rs) ∨ (rs ≤ s ∧ os = s) := max_cases s rs
    have hoe : (e ≤ re ∧ oe = e) ∨ (re ≤ e ∧ oe = re) := min_cases e re
    clear_value os oe
    have r1 : ∀ c, c ≤ e → lookup rest c = none := fun c hc => lookup_none_of_lt a3 (by omega)
    have r2 : ∀ c, c ≤ re → lookup rrest c = none := fun c hc => lookup_none_of_lt b3 (by omega)
    have ⟨ihw, ihl⟩ := ih (oe + 1) (re + 1) ⟨Nat.le_refl _, by omega, a3⟩ b3
    refine ⟨ihw.mono (by omega), fun c => ?_⟩
    simp only [lookup, ihl c]
    rm_cases c s e rs re with r1 r2
  case case7 s e v rest rs re rv rrest hA hB os oe hC hD ih =>
    have h2' := h2
    obtain ⟨a1, a2, a3⟩ := h1
    obtain ⟨b1, b2, b3⟩ := h2
    have hos : (s ≤ rs ∧ os = rs) ∨ (rs ≤ s ∧ os = s) := max_cases s rs
    have hoe : (e ≤ re ∧ oe = e) ∨ (re ≤ e ∧ oe = re) := min_cases e re
    clear_value os oe
    have r1 : ∀ c, c ≤ e → lookup rest c = none := fun c hc => lookup_none_of_lt a3 (by omega)
    have r2 : ∀ c, c ≤ re → lookup rrest c = none := fun c hc => lookup_none_of_lt b3 (by omega)
    have ⟨ihw, ihl⟩ := ih (e + 1) lo2 a3 h2'
    refine ⟨⟨a1, by omega, ihw.mono (by omega)⟩, fun c => ?_⟩
    simp only [lookup, ihl c]
    rm_cases c s e rs re with r1 r2
  case case8 s e v rest rs re rv rrest hA hB os oe hC hD ih =>
    have h2' := h2
    obtain ⟨a1, a2, a3⟩ := h1
    obtain ⟨b1, b2, b3⟩ := h2
    have hos : (s ≤ rs ∧ os = rs) ∨ (rs ≤ s ∧ os = s) := max_cases s rs
    have hoe : (e ≤ re ∧ oe = e) ∨ (re ≤ e ∧ oe = re) := min_cases e re
    clear_value os oe
    have r1 : ∀ c, c ≤ e → lookup rest c = none := fun c hc => lookup_none_of_lt a3 (by omega)
    have r2 : ∀ c, c ≤ re → lookup rrest c = none := fun c hc => lookup_none_of_lt b3 (by omega)
    have ⟨ihw, ihl⟩ := ih os lo2 ⟨by omega, by omega, a3⟩ h2'
    refine ⟨⟨a1, by omega, ihw.mono (by omega)⟩, fun c => ?_⟩
    simp only [lookup, ihl c]
    rm_cases c s e rs re with r1 r2

end Lexgen.RangeMap
