import LexgenModel.Spec.WellFormed
import LexgenModel.Proofs.CompileLang
/-!
# End to end through `lexer()` for a definition WITHOUT named rule sets

`compileLexer_lang` is vacuous for a definition that has no `rule X { .. }` block. For such a
definition the macro folds `compile_single_rule` over the top-level rules into one unnamed NFA,
determinises it, and runs `update_backtracks` and `simplify` with an empty entry map. The fold of
`lexStep` over such a definition is the fold of `RuleSetLang.step` over `topRules items`.
-/

set_option linter.unusedSimpArgs false
set_option linter.unusedVariables false
namespace Lexgen
namespace CompileUnnamed
open Lexgen.Subset Lexgen.Simplify Lexgen.Static Lexgen.CompileLang

/-! ## `hasRuleSets` and `topRules` along the list -/

theorem hasRuleSets_cons_errorType (rest : LexerDef) :
    hasRuleSets (.errorType :: rest) = hasRuleSets rest := by
  simp only [hasRuleSets, List.any_cons, Bool.false_or]

theorem hasRuleSets_cons_rb (x : RuleOrBinding) (rest : LexerDef) :
    hasRuleSets (.rb x :: rest) = hasRuleSets rest := by
  simp only [hasRuleSets, List.any_cons, Bool.false_or]

theorem hasRuleSets_cons_ruleSet (name : String) (rs : List RuleOrBinding) (rest : LexerDef) :
    hasRuleSets (.ruleSet name rs :: rest) = true := by
  simp only [hasRuleSets, List.any_cons, Bool.true_or]

theorem topRules_cons_errorType (rest : LexerDef) : topRules (.errorType :: rest) = topRules rest := by
  simp only [topRules, List.filterMap_cons]

theorem topRules_cons_rb (x : RuleOrBinding) (rest : LexerDef) :
    topRules (.rb x :: rest) = x :: topRules rest := by
  simp only [topRules, List.filterMap_cons]

/-! ## The fold of `lexStep` over a definition without rule sets -/

/-- without rule sets the fold of `lexer()` leaves `entries` and `initDfa` alone, and what it does to
`unnamed`, `bindings` and `ctxs` is the fold of `compile_rule_set` over the top-level rules -/
theorem fold_unnamed (items : LexerDef) : ∀ (g g' : GlueState),
    hasRuleSets items = false → items.foldlM lexStep g = .ok g' →
    g'.entries = g.entries ∧ g'.initDfa = g.initDfa ∧
    (topRules items).foldlM RuleSetLang.step (g.unnamed, g.bindings, g.ctxs) =
      .ok (g'.unnamed, g'.bindings, g'.ctxs) := by
  induction items with
  | nil =>
    intro g g' _ h
    rw [List.foldlM_nil] at h
    cases h
    exact ⟨rfl, rfl, rfl⟩
  | cons item rest ih =>
    intro g g' hno h
    rw [List.foldlM_cons] at h
    obtain ⟨g1, h1, h2⟩ := Thompson.bind_ok h
    cases item with
    | errorType =>
      rw [hasRuleSets_cons_errorType] at hno
      rw [lexStep_errorType] at h1
      by_cases he : g.errorType = true
      · rw [if_pos he] at h1; cases h1
      · rw [if_neg he] at h1
        cases h1
        rw [topRules_cons_errorType]
        exact ih { g with errorType := true } g' hno h2
    | rb x =>
      rw [hasRuleSets_cons_rb] at hno
      rw [topRules_cons_rb, List.foldlM_cons]
      cases x with
      | binding n re =>
        rw [lexStep_binding] at h1
        by_cases hb : (g.bindings.find? n).isSome = true
        · rw [if_pos hb] at h1; cases h1
        · rw [if_neg hb] at h1
          cases h1
          obtain ⟨e1, e2, e3⟩ := ih { g with bindings := g.bindings ++ [(n, re)] } g' hno h2
          refine ⟨e1, e2, ?_⟩
          have hs : RuleSetLang.step (g.unnamed, g.bindings, g.ctxs) (.binding n re) =
              .ok (g.unnamed, g.bindings ++ [(n, re)], g.ctxs) := by
            simp only [RuleSetLang.step, hb, if_false]
            rfl
          rw [hs]
          exact e3
      | rule r =>
        rw [lexStep_rule] at h1
        cases hc : compileSingleRule g.unnamed r g.bindings g.ctxs with
        | error e => rw [hc] at h1; cases h1
        | ok p =>
          obtain ⟨n1, c1⟩ := p
          rw [hc] at h1
          cases h1
          obtain ⟨e1, e2, e3⟩ := ih { g with unnamed := n1, ctxs := c1 } g' hno h2
          refine ⟨e1, e2, ?_⟩
          have hs : RuleSetLang.step (g.unnamed, g.bindings, g.ctxs) (.rule r) =
              .ok (n1, g.bindings, c1) := by
            simp only [RuleSetLang.step, hc]
            rfl
          rw [hs]
          exact e3
    | ruleSet name rs =>
      rw [hasRuleSets_cons_ruleSet] at hno
      cases hno

/-! ## `lexPost` when there is no `Init` automaton -/

theorem lexPost_none (g : GlueState) (c : Compiled) (h : lexPost g = .ok c) (hd : g.initDfa = none) :
    ∃ d0 full simp entries, nfaToDfa g.unnamed = some d0 ∧ updateBacktracks d0 = some full ∧
      simplify full g.entries = .ok (simp, entries) ∧
      c = { full := full, entries0 := g.entries, dfa := simp, entries := entries, ctxs := g.ctxs } := by
  unfold lexPost at h
  simp only [hd] at h
  cases hn : nfaToDfa g.unnamed with
  | none =>
    simp only [hn] at h
    cases h
  | some d0 =>
    simp only [hn, pure_bind] at h
    cases hu : updateBacktracks d0 with
    | none =>
      simp only [hu] at h
      cases h
    | some full =>
      simp only [hu, pure_bind] at h
      obtain ⟨⟨simp, entries⟩, h3, h⟩ := Thompson.bind_ok h
      cases h
      exact ⟨d0, full, simp, entries, rfl, hu, h3, rfl⟩

theorem newIdx_zero (d : DFA Nat) : newIdx d 0 = 0 := by
  unfold newIdx
  exact Nat.zero_sub _

end CompileUnnamed

open CompileLang CompileUnnamed Static in
/-- a definition without `rule X {..}` blocks: the macro compiles the top-level rules as one unnamed rule set -/
theorem compileLexer_unnamed_core (items : LexerDef) (c : Compiled) (h : compileLexer items = .ok c)
    (hno : hasRuleSets items = false) :
    c.entries0 = [] ∧ c.entries = [] ∧
    ∃ rules nfa d0, coreRules (topRules items) [] 0 = some rules ∧ buildNfa rules = .ok nfa ∧
      nfaToDfa nfa = some d0 ∧ updateBacktracks d0 = some c.full ∧ simplify c.full [] = .ok (c.dfa, c.entries) := by
  rw [compileLexer_eq] at h
  by_cases hm : mixedRules items = true
  · rw [if_pos hm] at h; cases h
  · rw [if_neg hm] at h
    obtain ⟨g, hfold, hpost⟩ := Thompson.bind_ok h
    obtain ⟨he, hi, hf⟩ := fold_unnamed items {} g hno hfold
    have he' : g.entries = [] := he
    have hi' : g.initDfa = none := hi
    have hf' : (topRules items).foldlM RuleSetLang.step (NFA.new, [], []) =
        .ok (g.unnamed, g.bindings, g.ctxs) := hf
    obtain ⟨rules, hr, hb⟩ := RuleSetLang.fold_core (topRules items) _ _ _ _ _ _ hf'
    obtain ⟨d0, full, simp, entries, hn, hu, hs, rfl⟩ := lexPost_none g c hpost hi'
    rw [he'] at hs
    have hent : entries = [] := by
      rw [(Simplify.simplify_ok full [] simp entries hs).2]
      rfl
    refine ⟨he', hent, rules, g.unnamed, d0, hr, hb, hn, hu, hs⟩

open CompileLang CompileUnnamed Static in
theorem compileLexer_lang_unnamed (items : LexerDef) (c : Compiled) (h : compileLexer items = .ok c)
    (hno : hasRuleSets items = false) :
    0 < c.dfa.length ∧ ∃ rules, coreRules (topRules items) [] 0 = some rules ∧
      ((∀ r ∈ rules, regexPiecesOK r.re) → RealisesRules c.dfa 0 rules) := by
  obtain ⟨_, _, rules, nfa, d0, hr, hb, hn, hu, hs⟩ := compileLexer_unnamed_core items c h hno
  obtain ⟨hT0, hI0⟩ := nfaToDfa_ok nfa d0 hn
  obtain ⟨hA, hlen⟩ := updateBacktracks_agree d0 c.full hT0 hu
  have hT := targets_agree hT0 hA hlen
  have h0 : 0 < d0.length := st_initial_lt hI0
  have hI : (c.full.st 0).initial = true := by
    rw [(hA 0 h0).2]
    exact hI0
  constructor
  · have := newIdx_entry_lt c.full [] c.dfa c.entries hs hT 0 hI
    rw [newIdx_zero] at this
    exact this
  · refine ⟨rules, hr, fun hre => ?_⟩
    have hR0 := realisesN_of_ruleSet rules hre nfa hb d0 hn
    have hR := realisesN_agree hT0 hA h0 hR0
    have := realises_simplify c.full [] c.dfa c.entries hs hT 0 hI rules hR
    rw [newIdx_zero] at this
    exact this

end Lexgen
