import LexgenModel.Spec.ParserDef
import LexgenModel.Proofs.Parser
/-!
# The parser of lexer definitions inverts printing

* `ParserDefProofs.parseRegex_of_parse0`: the fuel of `parseRegex` (`4 * length + 8`) is enough — whatever
  `parse0` finds with some fuel it finds with `4 * (consumed tokens) + 8` (`adequate_all`: the bounds
  `4n+1 … 4n+8` for the eight mutually recursive functions). This turns the `∃ fuel` of `parse_print`
  into a statement about the executable `parseRegex`.
* `parseRegexD_print`, `parseRegexCtx_print`, `parseRhs_print`, `parseRuleOrBinding_print`,
  `parseRuleSetBody_print`, `parseItems_print`, `parseHeader_print`: each parser function on the
  printing of its construct, followed by anything; the table is threaded (`renumItems`, `itemsRhs`
  say what the parser builds for arbitrary indices; `renumItems_eq`, `itemsRhs_eq` + `map_getD_range`
  say that this is the definition itself when its indices are `0, 1, 2, …`).
* `balanced_printDef`: a printed definition is a sequence of token trees; `cleanGroups_printItemsD`:
  none of its groups has unconsumed content.
* `parseDef_printDef : WFDef d → parseDef (printDef d) = .ok d`.
* `parseDef_indices`: on every input, the parser numbers the rules `0, 1, 2, …` in source order.
* examples at the end.
-/
namespace Lexgen
namespace ParserDefProofs
open ParserProofs

/-! ## The fuel of `parseRegex` is enough: `4 * (consumed tokens) + 8` -/

theorem parse2Loop_len (r : Regex) (ts : List Tok) :
    ∃ k, ts.length = k + (parse2Loop r ts).2.length := by
  fun_induction parse2Loop r ts with
  | case1 r ts ih => obtain ⟨k, hk⟩ := ih; exact ⟨k + 1, by simp [hk]; omega⟩
  | case2 r ts ih => obtain ⟨k, hk⟩ := ih; exact ⟨k + 1, by simp [hk]; omega⟩
  | case3 r ts ih => obtain ⟨k, hk⟩ := ih; exact ⟨k + 1, by simp [hk]; omega⟩
  | case4 r ts => exact ⟨0, by simp⟩

theorem parseCharset_bound (f : Nat) (ts : List Tok) (items : List CharOrRange) (rest : List Tok)
    (h : parseCharset f ts = some (items, rest)) :
    ∃ n, 1 ≤ n ∧ ts.length = n + rest.length ∧ parseCharset n ts = some (items, rest) := by
  fun_induction parseCharset f ts generalizing items rest with
  | case1 => simp at h
  | case2 n ts =>
    simp at h
    obtain ⟨rfl, rfl⟩ := h
    exact ⟨1, by omega, by simp; omega, rfl⟩
  | case3 f c c2 ts ih =>
    cases hc : parseCharset f ts with
    | none => rw [hc] at h; simp at h
    | some p =>
      obtain ⟨its, rst⟩ := p
      rw [hc] at h
      simp at h
      obtain ⟨rfl, rfl⟩ := h
      obtain ⟨n, hn1, hlen, hp⟩ := ih _ _ hc
      refine ⟨n + 3, by omega, by simp [hlen]; omega, ?_⟩
      rw [parseCharset.eq_3, parseCharset_mono _ _ _ hp (n + 2) (by omega)]
      rfl
  | case4 => simp at h
  | case5 f c ts h1 h2 ih =>
    cases hc : parseCharset f ts with
    | none => rw [hc] at h; simp at h
    | some p =>
      obtain ⟨its, rst⟩ := p
      rw [hc] at h
      simp at h
      obtain ⟨rfl, rfl⟩ := h
      obtain ⟨n, hn1, hlen, hp⟩ := ih _ _ hc
      refine ⟨n + 1, by omega, by simp [hlen]; omega, ?_⟩
      rw [parseCharset.eq_5 _ _ _ h1 h2, hp]
      rfl
  | case6 => simp at h


theorem parse4_other_len (f : Nat) (ts : List Tok) (r : Regex) (rest : List Tok)
    (h1 : ∀ l, ts ≠ .lparen :: l) (h2 : ∀ l, ts ≠ .lbracket :: l)
    (h : parse4 (f + 1) ts = some (r, rest)) : ∃ n, 1 ≤ n ∧ ts.length = n + rest.length := by
  cases ts with
  | nil => simp [parse4] at h
  | cons t l =>
    cases t with
    | lparen => exact absurd rfl (h1 l)
    | lbracket => exact absurd rfl (h2 l)
    | dollar =>
      cases l with
      | nil =>
        simp [parse4] at h
        obtain ⟨_, rfl⟩ := h
        exact ⟨1, by omega, by simp⟩
      | cons t2 l2 =>
        cases t2 with
        | dollar =>
          cases l2 with
          | nil => simp [parse4] at h
          | cons t3 l3 =>
            cases t3 <;> simp [parse4] at h
            obtain ⟨_, rfl⟩ := h
            exact ⟨3, by omega, by simp; omega⟩
        | ident n =>
          simp [parse4] at h
          obtain ⟨_, rfl⟩ := h
          exact ⟨2, by omega, by simp; omega⟩
        | _ =>
          simp [parse4] at h
          obtain ⟨_, rfl⟩ := h
          exact ⟨1, by omega, by simp; omega⟩
    | chr c =>
      simp [parse4] at h
      obtain ⟨_, rfl⟩ := h
      exact ⟨1, by omega, by simp; omega⟩
    | str cs =>
      simp [parse4] at h
      obtain ⟨_, rfl⟩ := h
      exact ⟨1, by omega, by simp; omega⟩
    | underscore =>
      simp [parse4] at h
      obtain ⟨_, rfl⟩ := h
      exact ⟨1, by omega, by simp; omega⟩
    | _ => simp [parse4] at h

def A0 (f : Nat) : Prop := ∀ ts r rest, parse0 f ts = some (r, rest) →
  ∃ n, 1 ≤ n ∧ ts.length = n + rest.length ∧ parse0 (4 * n + 8) ts = some (r, rest)
def AL0 (f : Nat) : Prop := ∀ acc ts r rest, parse0Loop f acc ts = some (r, rest) →
  ∃ n, ts.length = n + rest.length ∧ parse0Loop (4 * n + 7) acc ts = some (r, rest)
def A1 (f : Nat) : Prop := ∀ ts r rest, parse1 f ts = some (r, rest) →
  ∃ n, 1 ≤ n ∧ ts.length = n + rest.length ∧ parse1 (4 * n + 6) ts = some (r, rest)
def AL1 (f : Nat) : Prop := ∀ acc ts r rest, parse1Loop f acc ts = some (r, rest) →
  ∃ n, ts.length = n + rest.length ∧ parse1Loop (4 * n + 5) acc ts = some (r, rest)
def A2 (f : Nat) : Prop := ∀ ts r rest, parse2 f ts = some (r, rest) →
  ∃ n, 1 ≤ n ∧ ts.length = n + rest.length ∧ parse2 (4 * n + 4) ts = some (r, rest)
def A3 (f : Nat) : Prop := ∀ ts r rest, parse3 f ts = some (r, rest) →
  ∃ n, 1 ≤ n ∧ ts.length = n + rest.length ∧ parse3 (4 * n + 3) ts = some (r, rest)
def AL3 (f : Nat) : Prop := ∀ acc ts r rest, parse3Loop f acc ts = some (r, rest) →
  ∃ n, ts.length = n + rest.length ∧ parse3Loop (4 * n + 2) acc ts = some (r, rest)
def A4 (f : Nat) : Prop := ∀ ts r rest, parse4 f ts = some (r, rest) →
  ∃ n, 1 ≤ n ∧ ts.length = n + rest.length ∧ parse4 (4 * n + 1) ts = some (r, rest)

theorem a0_step (f : Nat) (ih1 : A1 f) (ihl : AL0 f) : A0 (f + 1) := by
  intro ts r rest h
  rw [parse0.eq_2] at h
  cases h1 : parse1 f ts with
  | none => rw [h1] at h; simp at h
  | some p =>
    obtain ⟨r1, rest1⟩ := p
    rw [h1] at h
    obtain ⟨n1, hn1, hl1, hp1⟩ := ih1 _ _ _ h1
    obtain ⟨m, hlm, hpm⟩ := ihl _ _ _ _ h
    refine ⟨n1 + m, by omega, by omega, ?_⟩
    have e : 4 * (n1 + m) + 8 = (4 * (n1 + m) + 7) + 1 := by omega
    rw [e, parse0.eq_2, mono1 hp1 (by omega)]
    exact monoL0 hpm (by omega)

theorem al0_step (f : Nat) (ih1 : A1 f) (ihl : AL0 f) : AL0 (f + 1) := by
  intro acc ts r rest h
  by_cases hb : ∃ l, ts = .bar :: l
  · obtain ⟨l, rfl⟩ := hb
    rw [parse0Loop.eq_2] at h
    cases h1 : parse1 f l with
    | none => rw [h1] at h; simp at h
    | some p =>
      obtain ⟨r1, rest1⟩ := p
      rw [h1] at h
      obtain ⟨n1, hn1, hl1, hp1⟩ := ih1 _ _ _ h1
      obtain ⟨m, hlm, hpm⟩ := ihl _ _ _ _ h
      refine ⟨1 + n1 + m, by simp; omega, ?_⟩
      have e : 4 * (1 + n1 + m) + 7 = (4 * (1 + n1 + m) + 6) + 1 := by omega
      rw [e, parse0Loop.eq_2, mono1 hp1 (by omega)]
      exact monoL0 hpm (by omega)
  · have hb' : ∀ l, ts = .bar :: l → False := fun l hl => hb ⟨l, hl⟩
    rw [parse0Loop.eq_3 _ _ _ hb'] at h
    simp at h
    obtain ⟨rfl, rfl⟩ := h
    exact ⟨0, by simp, by rw [show 4 * 0 + 7 = 6 + 1 from rfl, parse0Loop.eq_3 _ _ _ hb']⟩

theorem a1_step (f : Nat) (ih2 : A2 f) (ihl : AL1 f) : A1 (f + 1) := by
  intro ts r rest h
  rw [parse1.eq_2] at h
  cases h1 : parse2 f ts with
  | none => rw [h1] at h; simp at h
  | some p =>
    obtain ⟨r1, rest1⟩ := p
    rw [h1] at h
    obtain ⟨n1, hn1, hl1, hp1⟩ := ih2 _ _ _ h1
    obtain ⟨m, hlm, hpm⟩ := ihl _ _ _ _ h
    refine ⟨n1 + m, by omega, by omega, ?_⟩
    have e : 4 * (n1 + m) + 6 = (4 * (n1 + m) + 5) + 1 := by omega
    rw [e, parse1.eq_2, mono2 hp1 (by omega)]
    exact monoL1 hpm (by omega)

theorem al1_step (f : Nat) (ih2 : A2 f) (ihl : AL1 f) : AL1 (f + 1) := by
  intro acc ts r rest h
  rw [parse1Loop.eq_2] at h
  by_cases hs : startsAtom ts = true
  · rw [if_pos hs] at h
    cases h1 : parse2 f ts with
    | none => rw [h1] at h; simp at h
    | some p =>
      obtain ⟨r1, rest1⟩ := p
      rw [h1] at h
      obtain ⟨n1, hn1, hl1, hp1⟩ := ih2 _ _ _ h1
      obtain ⟨m, hlm, hpm⟩ := ihl _ _ _ _ h
      refine ⟨n1 + m, by omega, ?_⟩
      have e : 4 * (n1 + m) + 5 = (4 * (n1 + m) + 4) + 1 := by omega
      rw [e, parse1Loop.eq_2, if_pos hs, mono2 hp1 (by omega)]
      exact monoL1 hpm (by omega)
  · rw [if_neg hs] at h
    simp at h
    obtain ⟨rfl, rfl⟩ := h
    exact ⟨0, by simp, by rw [show 4 * 0 + 5 = 4 + 1 from rfl, parse1Loop.eq_2, if_neg hs]⟩

theorem a2_step (f : Nat) (ih3 : A3 f) : A2 (f + 1) := by
  intro ts r rest h
  rw [parse2.eq_2] at h
  cases h1 : parse3 f ts with
  | none => rw [h1] at h; simp at h
  | some p =>
    obtain ⟨r1, rest1⟩ := p
    rw [h1] at h
    obtain ⟨n1, hn1, hl1, hp1⟩ := ih3 _ _ _ h1
    obtain ⟨k, hk⟩ := parse2Loop_len r1 rest1
    simp at h
    rw [h] at hk
    simp at hk
    refine ⟨n1 + k, by omega, by omega, ?_⟩
    have e : 4 * (n1 + k) + 4 = (4 * (n1 + k) + 3) + 1 := by omega
    rw [e, parse2.eq_2, mono3 hp1 (by omega)]
    simp [h]

theorem a3_step (f : Nat) (ih4 : A4 f) (ihl : AL3 f) : A3 (f + 1) := by
  intro ts r rest h
  rw [parse3.eq_2] at h
  cases h1 : parse4 f ts with
  | none => rw [h1] at h; simp at h
  | some p =>
    obtain ⟨r1, rest1⟩ := p
    rw [h1] at h
    obtain ⟨n1, hn1, hl1, hp1⟩ := ih4 _ _ _ h1
    obtain ⟨m, hlm, hpm⟩ := ihl _ _ _ _ h
    refine ⟨n1 + m, by omega, by omega, ?_⟩
    have e : 4 * (n1 + m) + 3 = (4 * (n1 + m) + 2) + 1 := by omega
    rw [e, parse3.eq_2, mono4 hp1 (by omega)]
    exact monoL3 hpm (by omega)

theorem al3_step (f : Nat) (ih4 : A4 f) (ihl : AL3 f) : AL3 (f + 1) := by
  intro acc ts r rest h
  by_cases hb : ∃ l, ts = .pound :: l
  · obtain ⟨l, rfl⟩ := hb
    rw [parse3Loop.eq_2] at h
    cases h1 : parse4 f l with
    | none => rw [h1] at h; simp at h
    | some p =>
      obtain ⟨r1, rest1⟩ := p
      rw [h1] at h
      obtain ⟨n1, hn1, hl1, hp1⟩ := ih4 _ _ _ h1
      obtain ⟨m, hlm, hpm⟩ := ihl _ _ _ _ h
      refine ⟨1 + n1 + m, by simp; omega, ?_⟩
      have e : 4 * (1 + n1 + m) + 2 = (4 * (1 + n1 + m) + 1) + 1 := by omega
      rw [e, parse3Loop.eq_2, mono4 hp1 (by omega)]
      exact monoL3 hpm (by omega)
  · have hb' : ∀ l, ts = .pound :: l → False := fun l hl => hb ⟨l, hl⟩
    rw [parse3Loop.eq_3 _ _ _ hb'] at h
    simp at h
    obtain ⟨rfl, rfl⟩ := h
    exact ⟨0, by simp, by rw [show 4 * 0 + 2 = 1 + 1 from rfl, parse3Loop.eq_3 _ _ _ hb']⟩

theorem a4_step (f : Nat) (ih0 : A0 f) : A4 (f + 1) := by
  intro ts r rest h
  by_cases hp : ∃ l, ts = .lparen :: l
  · obtain ⟨l, rfl⟩ := hp
    rw [parse4.eq_2] at h
    cases h1 : parse0 f l with
    | none => rw [h1] at h; simp at h
    | some p =>
      obtain ⟨r1, rest1⟩ := p
      rw [h1] at h
      cases rest1 with
      | nil => simp at h
      | cons t rest2 =>
        cases t <;> simp at h
        obtain ⟨rfl, rfl⟩ := h
        obtain ⟨n0, hn0, hl0, hp0⟩ := ih0 _ _ _ h1
        refine ⟨n0 + 2, by omega, by simp at hl0 ⊢; omega, ?_⟩
        have e : 4 * (n0 + 2) + 1 = (4 * n0 + 8) + 1 := by omega
        rw [e, parse4.eq_2, hp0]
  · by_cases hb : ∃ l, ts = .lbracket :: l
    · obtain ⟨l, rfl⟩ := hb
      rw [parse4.eq_9] at h
      cases h1 : parseCharset f l with
      | none => rw [h1] at h; simp at h
      | some p =>
        obtain ⟨items, rest1⟩ := p
        rw [h1] at h
        simp at h
        obtain ⟨rfl, rfl⟩ := h
        obtain ⟨n, hn, hl, hpc⟩ := parseCharset_bound _ _ _ _ h1
        refine ⟨n + 1, by omega, by simp; omega, ?_⟩
        have e : 4 * (n + 1) + 1 = (4 * n + 4) + 1 := by omega
        rw [e, parse4.eq_9, parseCharset_mono _ _ _ hpc (4 * n + 4) (by omega)]
        rfl
    · obtain ⟨n, hn, hl⟩ := parse4_other_len f ts r rest (fun l hl => hp ⟨l, hl⟩) (fun l hl => hb ⟨l, hl⟩) h
      refine ⟨n, hn, hl, ?_⟩
      rw [← parse4_nonrec f (4 * n) ts (fun l hl => hp ⟨l, hl⟩) (fun l hl => hb ⟨l, hl⟩)]
      exact h

theorem adequate_all (f : Nat) : A0 f ∧ AL0 f ∧ A1 f ∧ AL1 f ∧ A2 f ∧ A3 f ∧ AL3 f ∧ A4 f := by
  induction f with
  | zero =>
    refine ⟨?_, ?_, ?_, ?_, ?_, ?_, ?_, ?_⟩
    · intro ts r rest h; simp [parse0] at h
    · intro acc ts r rest h; simp [parse0Loop] at h
    · intro ts r rest h; simp [parse1] at h
    · intro acc ts r rest h; simp [parse1Loop] at h
    · intro ts r rest h; simp [parse2] at h
    · intro ts r rest h; simp [parse3] at h
    · intro acc ts r rest h; simp [parse3Loop] at h
    · intro ts r rest h; simp [parse4] at h
  | succ f ih =>
    obtain ⟨i0, il0, i1, il1, i2, i3, il3, i4⟩ := ih
    exact ⟨a0_step f i1 il0, al0_step f i1 il0, a1_step f i2 il1, al1_step f i2 il1,
      a2_step f i3, a3_step f i4 il3, al3_step f i4 il3, a4_step f i0⟩

/-- whatever `parse0` finds with some fuel, `parseRegex` finds with its own fuel; the rest is a
suffix of the input -/
theorem parseRegex_of_parse0 {f : Nat} {ts : List Tok} {r : Regex} {rest : List Tok}
    (h : parse0 f ts = some (r, rest)) : parseRegex ts = some (r, rest) := by
  obtain ⟨n, _, hl, hp⟩ := (adequate_all f).1 _ _ _ h
  exact mono0 hp (by omega)


/-! ## Regexes inside a definition -/

theorem map_toTok_re (l : List Tok) : (l.map DTok.re).map DTok.toTok = l := by
  induction l with
  | nil => rfl
  | cons t l ih => simp only [List.map_cons, ih]; rfl

/-- the list starts with a token that is not a regex token -/
def Ends (rest : List DTok) : Prop := ∃ t l s, rest = t :: l ∧ t.toTok = .other s

theorem parseRegexD_print (r : Regex) (hp : Printable r) (rest : List DTok) (hrest : Ends rest) :
    parseRegexD (printRegexD r ++ rest) = some (r, rest) := by
  obtain ⟨t, l, s, rfl, ht⟩ := hrest
  obtain ⟨f, hf⟩ := parse_print r hp ((t :: l).map DTok.toTok) (Or.inr ⟨s, l.map DTok.toTok, by simp [ht]⟩)
  have h0 := parseRegex_of_parse0 (hf f (Nat.le_refl _))
  unfold parseRegexD printRegexD
  rw [List.map_append, map_toTok_re, h0]
  simp

example : parseRegexD (printRegexD (.cat (.chr 97) .eoi) ++ [.comma]) = some (.cat (.chr 97) .eoi, [.comma]) := by
  decide


theorem printRegexD_first (r : Regex) (hp : Printable r) :
    ∃ a l, printRegexD r = .re a :: l ∧ AtomTok a := by
  obtain ⟨a, l, h, ha⟩ := printsAs_first (printRe_printsAs r hp 0)
  exact ⟨a, l.map DTok.re, by simp [printRegexD, h], ha⟩

theorem ends_printRhs (rhs : RuleRhs) (rest : List DTok) : Ends (printRhs rhs ++ rest) := by
  cases rhs
  · exact ⟨.comma, _, _, rfl, rfl⟩
  · exact ⟨.eq, _, _, rfl, rfl⟩
  · exact ⟨.eq, _, _, rfl, rfl⟩
  · exact ⟨.fatArrow, _, _, rfl, rfl⟩

theorem printRhs_ne_gt (rhs : RuleRhs) (rest l : List DTok) : printRhs rhs ++ rest ≠ .gt :: l := by
  cases rhs <;> simp [printRhs]

theorem parseRhs_print (rhs : RuleRhs) (rest : List DTok) :
    parseRhs (printRhs rhs ++ rest) = .ok (rhs, rest) := by
  cases rhs <;> rfl

theorem parseRegexCtx_print (re : Regex) (ctx : Option Regex) (hre : Printable re)
    (hctx : ∀ c, ctx = some c → Printable c) (rest : List DTok) (hrest : Ends rest)
    (hgt : ∀ l, rest ≠ .gt :: l) :
    parseRegexCtx (printRegexD re ++ printCtx ctx ++ rest) = some (re, ctx, rest) := by
  cases ctx with
  | none =>
    unfold parseRegexCtx
    simp only [printCtx, List.append_nil]
    rw [parseRegexD_print re hre rest hrest]
    split
    · rename_i h; simp at h
    · rename_i h; simp at h; obtain ⟨_, h⟩ := h; exact absurd h (hgt _)
    · rename_i h; simp at h; obtain ⟨rfl, rfl⟩ := h; rfl
  | some c =>
    unfold parseRegexCtx
    simp only [printCtx, List.append_assoc, List.cons_append]
    rw [parseRegexD_print re hre _ ⟨.gt, _, _, rfl, rfl⟩]
    simp only []
    rw [parseRegexD_print c (hctx c rfl) rest hrest]

/-- the input starts like a rule or a binding: with `let` or with a token that starts a regex -/
def RobStart (ts : List DTok) : Prop :=
  ∃ t l, ts = t :: l ∧ (t = .kwLet ∨ ∃ a, t = .re a ∧ AtomTok a)

theorem atomTok_ne_ident {a : Tok} (h : AtomTok a) (s : String) : a ≠ .ident s := by
  rintro rfl
  have := h []
  simp [startsAtom] at this

theorem parseRuleOrBinding_rule (T : List RuleRhs) (ts : List DTok) (h : ∀ l, ts ≠ .kwLet :: l) :
    parseRuleOrBinding T ts =
      match parseRegexCtx ts with
      | none => .error .syn
      | some (re, ctx, ts1) =>
        match parseRhs ts1 with
        | .error e => .error e
        | .ok (rhs, rest) => .ok (.rule { re := re, ctx := ctx, rhs := T.length }, T ++ [rhs], rest) := by
  unfold parseRuleOrBinding
  split
  · exact absurd rfl (h _)
  · exact absurd rfl (h _)
  · rfl

/-- the item the parser builds for a printed rule or binding -/
def renumRob (n : Nat) : RuleOrBinding → RuleOrBinding
  | .rule r => .rule { r with rhs := n }
  | .binding x re => .binding x re

/-- the table entries the parser adds for it -/
def robRhs (tbl : List RuleRhs) : RuleOrBinding → List RuleRhs
  | .rule r => [tbl.getD r.rhs .none]
  | .binding _ _ => []

theorem parseRuleOrBinding_print (tbl : List RuleRhs) (x : RuleOrBinding) (hp : RobPrintable x)
    (T : List RuleRhs) (rest : List DTok) :
    parseRuleOrBinding T (printRob tbl x ++ rest) = .ok (renumRob T.length x, T ++ robRhs tbl x, rest) := by
  cases x with
  | binding x re =>
    have hre : Printable re := hp
    simp only [printRob, List.append_assoc, List.cons_append, List.nil_append, parseRuleOrBinding]
    rw [parseRegexD_print re hre _ ⟨.semi, _, _, rfl, rfl⟩]
    simp [renumRob, robRhs]
  | rule r =>
    obtain ⟨hre, hctx⟩ : Printable r.re ∧ ∀ c, r.ctx = some c → Printable c := hp
    obtain ⟨a, l, hfirst, ha⟩ := printRegexD_first r.re hre
    rw [parseRuleOrBinding_rule]
    · simp only [printRob, List.append_assoc]
      rw [← List.append_assoc, parseRegexCtx_print r.re r.ctx hre hctx _ (ends_printRhs _ _)
        (printRhs_ne_gt _ _)]
      simp only []
      rw [parseRhs_print]
      rfl
    · intro l'
      simp [printRob, hfirst]

theorem printRob_start (tbl : List RuleRhs) (x : RuleOrBinding) (hp : RobPrintable x) (rest : List DTok) :
    RobStart (printRob tbl x ++ rest) := by
  cases x with
  | binding x re => exact ⟨.kwLet, _, rfl, Or.inl rfl⟩
  | rule r =>
    obtain ⟨a, l, hfirst, ha⟩ := printRegexD_first r.re hp.1
    exact ⟨.re a, l ++ (printCtx r.ctx ++ printRhs (tbl.getD r.rhs .none)) ++ rest,
      by simp [printRob, hfirst], Or.inr ⟨a, rfl, ha⟩⟩


/-! ## Rule sets -/

def renumRobs : Nat → List RuleOrBinding → List RuleOrBinding
  | _, [] => []
  | n, x :: xs => renumRob n x :: renumRobs (n + (robIndices [x]).length) xs

def robsRhs (tbl : List RuleRhs) : List RuleOrBinding → List RuleRhs
  | [] => []
  | x :: xs => robRhs tbl x ++ robsRhs tbl xs

theorem robRhs_length (tbl : List RuleRhs) (x : RuleOrBinding) :
    (robRhs tbl x).length = (robIndices [x]).length := by
  cases x <;> rfl

theorem parseRuleSetBody_step (fuel : Nat) (T : List RuleRhs) (ts : List DTok) (h : RobStart ts) :
    parseRuleSetBody (fuel + 1) T ts =
      match parseRuleOrBinding T ts with
      | .error e => .error e
      | .ok (x, tbl1, ts1) =>
        match parseRuleSetBody fuel tbl1 ts1 with
        | .error e => .error e
        | .ok (xs, tbl2, ts2) => .ok (x :: xs, tbl2, ts2) := by
  obtain ⟨t, l, rfl, ht⟩ := h
  apply parseRuleSetBody.eq_3
  intro ts' hts
  rcases ht with rfl | ⟨a, rfl, _⟩ <;> simp at hts

theorem printRob_length_pos (tbl : List RuleRhs) (x : RuleOrBinding) : 1 ≤ (printRob tbl x).length := by
  cases x with
  | binding x re => simp [printRob]
  | rule r =>
    have : 1 ≤ (printRhs (tbl.getD r.rhs .none)).length := by
      cases tbl.getD r.rhs .none <;> simp [printRhs]
    simp only [printRob, List.length_append]; omega

theorem printRobs_length (tbl : List RuleRhs) (rules : List RuleOrBinding) :
    rules.length ≤ (printRobs tbl rules).length := by
  induction rules with
  | nil => simp
  | cons x xs ih =>
    have := printRob_length_pos tbl x
    simp [printRobs]; omega

theorem parseRuleSetBody_print (tbl : List RuleRhs) (rules : List RuleOrBinding)
    (hp : ∀ x ∈ rules, RobPrintable x) (T : List RuleRhs) (rest : List DTok) (fuel : Nat)
    (hf : rules.length < fuel) :
    parseRuleSetBody fuel T (printRobs tbl rules ++ .rbrace :: rest) =
      .ok (renumRobs T.length rules, T ++ robsRhs tbl rules, rest) := by
  induction rules generalizing T fuel with
  | nil =>
    obtain ⟨f, rfl⟩ : ∃ f, fuel = f + 1 := ⟨fuel - 1, by simp at hf; omega⟩
    simp [printRobs, parseRuleSetBody, renumRobs, robsRhs]
  | cons x xs ih =>
    obtain ⟨f, rfl⟩ : ∃ f, fuel = f + 1 := ⟨fuel - 1, by simp at hf; omega⟩
    have hx : RobPrintable x := hp x (by simp)
    simp only [printRobs, List.append_assoc]
    rw [parseRuleSetBody_step _ _ _ (printRob_start tbl x hx _), parseRuleOrBinding_print tbl x hx]
    simp only []
    rw [ih (fun y hy => hp y (by simp [hy])) _ f (by simp at hf; omega)]
    simp only [renumRobs, robsRhs, List.length_append, robRhs_length, List.append_assoc]

/-! ## Items -/

def renumItems : Nat → LexerDef → LexerDef
  | _, [] => []
  | n, .errorType :: is => .errorType :: renumItems n is
  | n, .rb x :: is => .rb (renumRob n x) :: renumItems (n + (robIndices [x]).length) is
  | n, .ruleSet name rules :: is =>
    .ruleSet name (renumRobs n rules) :: renumItems (n + (robIndices rules).length) is

def itemsRhs (tbl : List RuleRhs) : LexerDef → List RuleRhs
  | [] => []
  | .errorType :: is => itemsRhs tbl is
  | .rb x :: is => robRhs tbl x ++ itemsRhs tbl is
  | .ruleSet _ rules :: is => robsRhs tbl rules ++ itemsRhs tbl is

theorem robsRhs_length (tbl : List RuleRhs) (rules : List RuleOrBinding) :
    (robsRhs tbl rules).length = (robIndices rules).length := by
  induction rules with
  | nil => rfl
  | cons x xs ih => cases x <;> simp [robsRhs, robRhs, robIndices, ih]

theorem parseItems_step (fuel : Nat) (T : List RuleRhs) (ts : List DTok) (h : ts ≠ []) :
    parseItems (fuel + 1) T ts =
      match parseTopItem T ts with
      | .error e => .error e
      | .ok (x, ty, tbl1, ts1) =>
        match parseItems fuel tbl1 ts1 with
        | .error e => .error e
        | .ok (xs, tbl2, tys) => .ok (x :: xs, tbl2, ty.toList ++ tys) := by
  apply parseItems.eq_3
  intro hts
  exact h hts

theorem parseTopItem_rb (T : List RuleRhs) (ts : List DTok) (h : RobStart ts) :
    parseTopItem T ts =
      match parseRuleOrBinding T ts with
      | .error e => .error e
      | .ok (x, tbl1, rest) => .ok (.rb x, none, tbl1, rest) := by
  obtain ⟨t, l, rfl, ht⟩ := h
  apply parseTopItem.eq_6
  · intro s ts' hts
    rcases ht with rfl | ⟨a, rfl, ha⟩
    · simp at hts
    · simp at hts
      exact atomTok_ne_ident ha s hts.1
  · intro s ts' hts
    rcases ht with rfl | ⟨a, rfl, ha⟩ <;> simp at hts
  · intro ts' hts
    rcases ht with rfl | ⟨a, rfl, ha⟩ <;> simp at hts

theorem printItemsD_ne_comma (tbl : List RuleRhs) (items : LexerDef)
    (hp : ∀ it ∈ items, ItemPrintable it) (tys : List Nat) (l : List DTok) :
    printItemsD tbl items tys ≠ .comma :: l := by
  cases items with
  | nil => simp [printItemsD]
  | cons it is =>
    cases it with
    | errorType => simp [printItemsD]
    | ruleSet name rules => simp [printItemsD]
    | rb x =>
      have hx : RobPrintable x := hp (.rb x) (by simp)
      obtain ⟨t, l', h, ht⟩ := printRob_start tbl x hx (printItemsD tbl is tys)
      simp only [printItemsD, h]
      rcases ht with rfl | ⟨a, rfl, _⟩ <;> simp

theorem skipComma_printItemsD (tbl : List RuleRhs) (items : LexerDef)
    (hp : ∀ it ∈ items, ItemPrintable it) (tys : List Nat) :
    skipComma (printItemsD tbl items tys) = printItemsD tbl items tys := by
  unfold skipComma
  split
  · rename_i h; exact absurd h (printItemsD_ne_comma tbl items hp tys _)
  · rfl

theorem printItemsD_length (tbl : List RuleRhs) (items : LexerDef) (tys : List Nat) :
    items.length ≤ (printItemsD tbl items tys).length := by
  induction items generalizing tys with
  | nil => simp
  | cons it is ih =>
    cases it with
    | errorType => have := ih tys.tail; simp [printItemsD]; omega
    | rb x =>
      have := ih tys
      have := printRob_length_pos tbl x
      simp [printItemsD]; omega
    | ruleSet name rules => have := ih tys; simp [printItemsD]; omega

theorem parseItems_print (tbl : List RuleRhs) (items : LexerDef)
    (hp : ∀ it ∈ items, ItemPrintable it) (tys : List Nat) (hty : errorTypeCount items ≤ tys.length)
    (T : List RuleRhs) (fuel : Nat) (hf : items.length < fuel) :
    parseItems fuel T (printItemsD tbl items tys) =
      .ok (renumItems T.length items, T ++ itemsRhs tbl items, tys.take (errorTypeCount items)) := by
  induction items generalizing tys T fuel with
  | nil =>
    obtain ⟨f, rfl⟩ : ∃ f, fuel = f + 1 := ⟨fuel - 1, by simp at hf; omega⟩
    simp [printItemsD, parseItems, renumItems, itemsRhs, errorTypeCount]
  | cons it is ih =>
    obtain ⟨f, rfl⟩ : ∃ f, fuel = f + 1 := ⟨fuel - 1, by simp at hf; omega⟩
    have his : ∀ it ∈ is, ItemPrintable it := fun y hy => hp y (by simp [hy])
    have hf' : is.length < f := by simp at hf; omega
    cases it with
    | errorType =>
      cases tys with
      | nil => simp [errorTypeCount] at hty
      | cons ty tys =>
        have hty' : errorTypeCount is ≤ tys.length := by simp [errorTypeCount] at hty; omega
        simp only [printItemsD, List.headD_cons, List.tail_cons, List.cons_append, List.nil_append]
        rw [parseItems_step _ _ _ (by simp)]
        simp only [parseTopItem, if_true]
        rw [ih his tys hty' T f hf']
        simp [renumItems, itemsRhs, errorTypeCount]
    | rb x =>
      have hx : RobPrintable x := hp (.rb x) (by simp)
      have hty' : errorTypeCount is ≤ tys.length := by simpa [errorTypeCount] using hty
      simp only [printItemsD]
      have hstart := printRob_start tbl x hx (printItemsD tbl is tys)
      rw [parseItems_step _ _ _ (by obtain ⟨t, l, h, _⟩ := hstart; simp [h]),
        parseTopItem_rb _ _ hstart, parseRuleOrBinding_print tbl x hx]
      simp only []
      rw [ih his tys hty' _ f hf']
      simp [renumItems, itemsRhs, errorTypeCount, robRhs_length]
    | ruleSet name rules =>
      have hr : ∀ x ∈ rules, RobPrintable x := hp (.ruleSet name rules) (by simp)
      have hty' : errorTypeCount is ≤ tys.length := by simpa [errorTypeCount] using hty
      simp only [printItemsD, List.append_assoc, List.cons_append, List.nil_append]
      rw [parseItems_step _ _ _ (by simp)]
      simp only [parseTopItem, if_true]
      rw [parseRuleSetBody_print tbl rules hr T _ _ (by
        have := printRobs_length tbl rules
        simp; omega)]
      simp only [skipComma_printItemsD tbl is his]
      rw [ih his tys hty' _ f hf']
      simp [renumItems, itemsRhs, errorTypeCount, robsRhs_length]


/-! ## Sequential indices: the parser's numbering is the one the definition already has -/

theorem renumRob_self (x : RuleOrBinding) (n : Nat) (h : robIndices [x] = List.range' n (robIndices [x]).length) :
    renumRob n x = x := by
  cases x with
  | binding x re => rfl
  | rule r =>
    simp [robIndices] at h
    subst h
    rfl

theorem renumRobs_eq (rules : List RuleOrBinding) (n : Nat) (tail : List Nat)
    (h : robIndices rules ++ tail = List.range' n (robIndices rules ++ tail).length) :
    renumRobs n rules = rules ∧ tail = List.range' (n + (robIndices rules).length) tail.length := by
  induction rules generalizing n with
  | nil => simpa [renumRobs, robIndices] using h
  | cons x xs ih =>
    cases x with
    | binding x re =>
      obtain ⟨h1, h2⟩ := ih n (by simpa [robIndices] using h)
      exact ⟨by simp [renumRobs, renumRob, robIndices, h1], by simpa [robIndices] using h2⟩
    | rule r =>
      simp only [robIndices, List.cons_append, List.length_cons, List.range'_succ, List.cons.injEq] at h
      obtain ⟨hr, h⟩ := h
      obtain ⟨h1, h2⟩ := ih (n + 1) h
      refine ⟨?_, ?_⟩
      · simp only [renumRobs, renumRob, robIndices, List.length_cons, List.length_nil, h1]
        subst hr
        rfl
      · rw [h2]
        simp only [robIndices, List.length_cons, List.length_range']
        congr 1
        omega

theorem renumItems_eq (items : LexerDef) (n : Nat)
    (h : itemIndices items = List.range' n (itemIndices items).length) : renumItems n items = items := by
  induction items generalizing n with
  | nil => rfl
  | cons it is ih =>
    cases it with
    | errorType =>
      simp only [renumItems, ih n (by simpa [itemIndices] using h)]
    | rb x =>
      have h' : robIndices [x] ++ itemIndices is =
          List.range' n (robIndices [x] ++ itemIndices is).length := by simpa [itemIndices] using h
      obtain ⟨h1, h2⟩ := renumRobs_eq [x] n _ h'
      have hx : renumRob n x = x := by
        simp only [renumRobs, List.cons.injEq, and_true] at h1
        exact h1
      simp only [renumItems, hx, ih _ h2]
    | ruleSet name rules =>
      have h' : robIndices rules ++ itemIndices is =
          List.range' n (robIndices rules ++ itemIndices is).length := by simpa [itemIndices] using h
      obtain ⟨h1, h2⟩ := renumRobs_eq rules n _ h'
      simp only [renumItems, h1, ih _ h2]

theorem robsRhs_eq (tbl : List RuleRhs) (rules : List RuleOrBinding) :
    robsRhs tbl rules = (robIndices rules).map (fun i => tbl.getD i .none) := by
  induction rules with
  | nil => rfl
  | cons x xs ih => cases x <;> simp [robsRhs, robRhs, robIndices, ih]

theorem itemsRhs_eq (tbl : List RuleRhs) (items : LexerDef) :
    itemsRhs tbl items = (itemIndices items).map (fun i => tbl.getD i .none) := by
  induction items with
  | nil => rfl
  | cons it is ih =>
    cases it with
    | errorType => simp [itemsRhs, itemIndices, ih]
    | rb x => cases x <;> simp [itemsRhs, itemIndices, robRhs, robIndices, ih]
    | ruleSet name rules => simp [itemsRhs, itemIndices, robsRhs_eq, ih]

theorem map_getD_range (tbl : List RuleRhs) :
    (List.range tbl.length).map (fun i => tbl.getD i .none) = tbl := by
  apply List.ext_getElem
  · simp
  · intro i h1 h2
    simp at h1
    simp [h1]

/-! ## The header -/

theorem parseAttrs_print (as : List Nat) (X : List DTok) (h : ∀ n l, X ≠ .attr n :: l) :
    parseAttrs (as.map DTok.attr ++ X) = (as, X) := by
  induction as with
  | nil =>
    simp only [List.map_nil, List.nil_append]
    unfold parseAttrs
    split
    · exact absurd rfl (h _ _)
    · rfl
  | cons a as ih => simp [parseAttrs, ih]

theorem parseHeader_print (h : Header) (rest : List DTok) :
    parseHeader (printHeader h ++ rest) = some (h, false, rest) := by
  obtain ⟨attrs, vis, name, stateTy, tokenTy⟩ := h
  unfold parseHeader printHeader
  simp only [List.append_assoc]
  rw [parseAttrs_print attrs _ (by cases vis <;> simp [printVis])]
  cases vis <;> cases stateTy <;>
    simp [printVis, parseVis, printStateTy, parseStateTy, splitClose, DTok.isClose]

/-! ## Printed definitions are token trees -/

/-- the piece leaves every delimiter stack as it found it -/
def Neutral (a : List DTok) : Prop := ∀ stk rest, balanced stk (a ++ rest) = balanced stk rest

/-- not a delimiter -/
def Plain (t : DTok) : Prop := ∀ stk, delimStep stk t = some stk

theorem neutral_nil : Neutral [] := fun _ _ => rfl

theorem neutral_append {a b : List DTok} (ha : Neutral a) (hb : Neutral b) : Neutral (a ++ b) := by
  intro stk rest
  rw [List.append_assoc, ha, hb]

theorem neutral_cons {t : DTok} {a : List DTok} (ht : Plain t) (ha : Neutral a) : Neutral (t :: a) := by
  intro stk rest
  simp only [List.cons_append, balanced, ht stk]
  exact ha stk rest

theorem neutral_plain (a : List DTok) (h : ∀ t ∈ a, Plain t) : Neutral a := by
  induction a with
  | nil => exact neutral_nil
  | cons t a ih => exact neutral_cons (h t (by simp)) (ih fun u hu => h u (by simp [hu]))

theorem neutral_paren {a : List DTok} (ha : Neutral a) : Neutral (.re .lparen :: a ++ [.re .rparen]) := by
  intro stk rest
  simp only [List.cons_append, List.append_assoc, balanced, delimStep]
  rw [ha]
  simp [balanced, delimStep]

theorem neutral_bracket {a : List DTok} (ha : Neutral a) :
    Neutral (.re .lbracket :: a ++ [.re .rbracket]) := by
  intro stk rest
  simp only [List.cons_append, List.append_assoc, balanced, delimStep]
  rw [ha]
  simp [balanced, delimStep]

theorem neutral_brace {a : List DTok} (ha : Neutral a) : Neutral (.lbrace :: a ++ [.rbrace]) := by
  intro stk rest
  simp only [List.cons_append, List.append_assoc, balanced, delimStep]
  rw [ha]
  simp [balanced, delimStep]

theorem neutral_printItems (items : List CharOrRange) : Neutral ((printItems items).map DTok.re) := by
  induction items with
  | nil => exact neutral_nil
  | cons i items ih =>
    cases i with
    | chr c => exact neutral_cons (fun _ => rfl) ih
    | rng s e =>
      exact neutral_cons (fun _ => rfl) (neutral_cons (fun _ => rfl) (neutral_cons (fun _ => rfl) ih))

theorem neutral_wrap (body : List Tok) (c : Prop) [Decidable c] (h : Neutral (body.map DTok.re)) :
    Neutral ((if c then Tok.lparen :: body ++ [Tok.rparen] else body).map DTok.re) := by
  split
  · simpa using neutral_paren h
  · exact h

theorem neutral_printRe (r : Regex) (k : Nat) : Neutral ((printRe r k).map DTok.re) := by
  induction r generalizing k with
  | builtin n => rw [printRe]; exact neutral_wrap _ _ (neutral_plain _ (by simp [Plain, delimStep]))
  | var n => rw [printRe]; exact neutral_wrap _ _ (neutral_plain _ (by simp [Plain, delimStep]))
  | chr c => rw [printRe]; exact neutral_wrap _ _ (neutral_plain _ (by simp [Plain, delimStep]))
  | str cs => rw [printRe]; exact neutral_wrap _ _ (neutral_plain _ (by simp [Plain, delimStep]))
  | any => rw [printRe]; exact neutral_wrap _ _ (neutral_plain _ (by simp [Plain, delimStep]))
  | eoi => rw [printRe]; exact neutral_wrap _ _ (neutral_plain _ (by simp [Plain, delimStep]))
  | set items =>
    rw [printRe]
    apply neutral_wrap
    simpa using neutral_bracket (neutral_printItems items)
  | star x ih =>
    rw [printRe]
    apply neutral_wrap
    simpa using neutral_append (ih 2) (neutral_plain [.re .star] (by simp [Plain, delimStep]))
  | plus x ih =>
    rw [printRe]
    apply neutral_wrap
    simpa using neutral_append (ih 2) (neutral_plain [.re .plus] (by simp [Plain, delimStep]))
  | opt x ih =>
    rw [printRe]
    apply neutral_wrap
    simpa using neutral_append (ih 2) (neutral_plain [.re .question] (by simp [Plain, delimStep]))
  | cat a b iha ihb =>
    rw [printRe]
    apply neutral_wrap
    simpa using neutral_append (iha 1) (ihb 2)
  | alt a b iha ihb =>
    rw [printRe]
    apply neutral_wrap
    simpa using neutral_append (iha 0) (neutral_cons (t := .re .bar) (fun _ => rfl) (ihb 1))
  | diff a b iha ihb =>
    rw [printRe]
    apply neutral_wrap
    simpa using neutral_append (iha 3) (neutral_cons (t := .re .pound) (fun _ => rfl) (ihb 4))

theorem neutral_printRegexD (r : Regex) : Neutral (printRegexD r) := neutral_printRe r 0

theorem neutral_printRhs (rhs : RuleRhs) : Neutral (printRhs rhs) := by
  cases rhs <;> exact neutral_plain _ (by simp [printRhs, Plain, delimStep])

theorem neutral_printCtx (c : Option Regex) : Neutral (printCtx c) := by
  cases c with
  | none => exact neutral_nil
  | some c => exact neutral_cons (fun _ => rfl) (neutral_printRegexD c)

theorem neutral_printRob (tbl : List RuleRhs) (x : RuleOrBinding) : Neutral (printRob tbl x) := by
  cases x with
  | binding x re =>
    exact neutral_append (neutral_append (neutral_plain _ (by simp [Plain, delimStep])) (neutral_printRegexD re))
      (neutral_plain _ (by simp [Plain, delimStep]))
  | rule r =>
    exact neutral_append (neutral_append (neutral_printRegexD _) (neutral_printCtx _)) (neutral_printRhs _)

theorem neutral_printRobs (tbl : List RuleRhs) (rules : List RuleOrBinding) :
    Neutral (printRobs tbl rules) := by
  induction rules with
  | nil => exact neutral_nil
  | cons x xs ih => exact neutral_append (neutral_printRob tbl x) ih

theorem neutral_printItemsD (tbl : List RuleRhs) (items : LexerDef) (tys : List Nat) :
    Neutral (printItemsD tbl items tys) := by
  induction items generalizing tys with
  | nil => exact neutral_nil
  | cons it is ih =>
    cases it with
    | errorType => exact neutral_append (neutral_plain _ (by simp [Plain, delimStep])) (ih _)
    | rb x => exact neutral_append (neutral_printRob tbl x) (ih _)
    | ruleSet name rules =>
      have h1 : Neutral (.re (.ident "rule") :: .re (.ident name) :: (.lbrace :: printRobs tbl rules ++ [.rbrace])) :=
        neutral_cons (fun _ => rfl) (neutral_cons (fun _ => rfl) (neutral_brace (neutral_printRobs tbl rules)))
      have := neutral_append h1 (ih tys)
      simpa [printItemsD] using this

theorem neutral_printHeader (h : Header) : Neutral (printHeader h) := by
  obtain ⟨attrs, vis, name, stateTy, tokenTy⟩ := h
  unfold printHeader
  refine neutral_append (neutral_append (neutral_append (neutral_append ?_ ?_) ?_) ?_) ?_
  · exact neutral_plain _ (by simp [Plain, delimStep])
  · cases vis <;> exact neutral_plain _ (by simp [printVis, Plain, delimStep])
  · exact neutral_plain _ (by simp [Plain, delimStep])
  · cases stateTy with
    | none => exact neutral_nil
    | some t => exact neutral_paren (a := [.expr t]) (neutral_plain _ (by simp [Plain, delimStep]))
  · exact neutral_plain _ (by simp [Plain, delimStep])

theorem balanced_printDef (d : ParsedDef) : balanced [] (printDef d) = true := by
  have := neutral_append (neutral_printHeader d.header) (neutral_printItemsD d.table d.items d.errorTypes) [] []
  simpa [printDef, balanced] using this

/-! ## Printed definitions have no group with unconsumed content -/

theorem printRe_eq (r : Regex) (k : Nat) :
    printRe r k = if r.level < k then .lparen :: printRe r 0 ++ [.rparen] else printRe r 0 := by
  cases r <;> (rw [printRe]; conv => rhs; rw [printRe]) <;> (try simp [Regex.level]) <;>
    (try (by_cases h : 4 < k <;> simp [h]))

/-- `splitClose` walks through the piece -/
def SplitN (a : List DTok) : Prop :=
  ∀ d rest, splitClose d (a ++ rest) = (a ++ (splitClose d rest).1, (splitClose d rest).2)

/-- neither an opening nor a closing delimiter -/
def Plain2 (t : DTok) : Prop := t.isOpen = false ∧ t.isClose = false

theorem splitN_nil : SplitN [] := fun _ _ => rfl

theorem splitN_append {a b : List DTok} (ha : SplitN a) (hb : SplitN b) : SplitN (a ++ b) := by
  intro d rest
  rw [List.append_assoc, ha, hb]
  simp

theorem splitN_cons {t : DTok} {a : List DTok} (ht : Plain2 t) (ha : SplitN a) : SplitN (t :: a) := by
  intro d rest
  simp only [List.cons_append, splitClose, ht.1, ht.2, ha d rest]
  simp

theorem splitN_plain (a : List DTok) (h : ∀ t ∈ a, Plain2 t) : SplitN a := by
  induction a with
  | nil => exact splitN_nil
  | cons t a ih => exact splitN_cons (h t (by simp)) (ih fun u hu => h u (by simp [hu]))

theorem splitN_group {o c : DTok} {a : List DTok} (ho : o.isOpen = true) (hoc : o.isClose = false)
    (hc : c.isClose = true) (ha : SplitN a) : SplitN (o :: a ++ [c]) := by
  intro d rest
  simp only [List.cons_append, List.append_assoc, List.nil_append, splitClose, ho, hoc, ha (d + 1) (c :: rest), hc]
  simp

theorem splitN_printItems (items : List CharOrRange) : SplitN ((printItems items).map DTok.re) := by
  induction items with
  | nil => exact splitN_nil
  | cons i items ih =>
    cases i with
    | chr c => exact splitN_cons ⟨rfl, rfl⟩ ih
    | rng s e => exact splitN_cons ⟨rfl, rfl⟩ (splitN_cons ⟨rfl, rfl⟩ (splitN_cons ⟨rfl, rfl⟩ ih))

theorem splitN_wrap (body : List Tok) (c : Prop) [Decidable c] (h : SplitN (body.map DTok.re)) :
    SplitN ((if c then Tok.lparen :: body ++ [Tok.rparen] else body).map DTok.re) := by
  split
  · simpa using splitN_group (o := .re .lparen) (c := .re .rparen) rfl rfl rfl h
  · exact h

theorem splitN_printRe (r : Regex) (k : Nat) : SplitN ((printRe r k).map DTok.re) := by
  induction r generalizing k with
  | builtin n => rw [printRe]; exact splitN_wrap _ _ (splitN_plain _ (by simp [Plain2, DTok.isOpen, DTok.isClose]))
  | var n => rw [printRe]; exact splitN_wrap _ _ (splitN_plain _ (by simp [Plain2, DTok.isOpen, DTok.isClose]))
  | chr c => rw [printRe]; exact splitN_wrap _ _ (splitN_plain _ (by simp [Plain2, DTok.isOpen, DTok.isClose]))
  | str cs => rw [printRe]; exact splitN_wrap _ _ (splitN_plain _ (by simp [Plain2, DTok.isOpen, DTok.isClose]))
  | any => rw [printRe]; exact splitN_wrap _ _ (splitN_plain _ (by simp [Plain2, DTok.isOpen, DTok.isClose]))
  | eoi => rw [printRe]; exact splitN_wrap _ _ (splitN_plain _ (by simp [Plain2, DTok.isOpen, DTok.isClose]))
  | set items =>
    rw [printRe]
    apply splitN_wrap
    simpa using splitN_group (o := .re .lbracket) (c := .re .rbracket) rfl rfl rfl (splitN_printItems items)
  | star x ih =>
    rw [printRe]
    apply splitN_wrap
    simpa using splitN_append (ih 2) (splitN_plain [.re .star] (by simp [Plain2, DTok.isOpen, DTok.isClose]))
  | plus x ih =>
    rw [printRe]
    apply splitN_wrap
    simpa using splitN_append (ih 2) (splitN_plain [.re .plus] (by simp [Plain2, DTok.isOpen, DTok.isClose]))
  | opt x ih =>
    rw [printRe]
    apply splitN_wrap
    simpa using splitN_append (ih 2) (splitN_plain [.re .question] (by simp [Plain2, DTok.isOpen, DTok.isClose]))
  | cat a b iha ihb =>
    rw [printRe]
    apply splitN_wrap
    simpa using splitN_append (iha 1) (ihb 2)
  | alt a b iha ihb =>
    rw [printRe]
    apply splitN_wrap
    simpa using splitN_append (iha 0) (splitN_cons (t := .re .bar) ⟨rfl, rfl⟩ (ihb 1))
  | diff a b iha ihb =>
    rw [printRe]
    apply splitN_wrap
    simpa using splitN_append (iha 3) (splitN_cons (t := .re .pound) ⟨rfl, rfl⟩ (ihb 4))

/-- `cleanGroups` (with fuel for every token) leaves the list alone and reports nothing -/
def Stable (ts : List DTok) : Prop := ∀ fuel, ts.length ≤ fuel → cleanGroups fuel ts = (ts, false)

/-- … and so it does with the piece in front of any such list -/
def CleanN (a : List DTok) : Prop := ∀ rest, Stable rest → Stable (a ++ rest)

theorem stable_nil : Stable [] := by
  intro fuel _
  cases fuel <;> rfl

theorem cleanN_nil : CleanN [] := fun _ h => h

theorem cleanN_append {a b : List DTok} (ha : CleanN a) (hb : CleanN b) : CleanN (a ++ b) := by
  intro rest h
  rw [List.append_assoc]
  exact ha _ (hb _ h)

theorem cleanN_cons {t : DTok} {a : List DTok} (ht : t ≠ .re .lparen) (ha : CleanN a) : CleanN (t :: a) := by
  intro rest h fuel hf
  obtain ⟨f, rfl⟩ : ∃ f, fuel = f + 1 := ⟨fuel - 1, by simp at hf; omega⟩
  rw [List.cons_append, cleanGroups.eq_4 _ _ _ (fun h' => ht h'), ha rest h f (by simp at hf ⊢; omega)]

theorem cleanN_tokens (a : List DTok) (h : ∀ t ∈ a, t ≠ .re .lparen) : CleanN a := by
  induction a with
  | nil => exact cleanN_nil
  | cons t a ih => exact cleanN_cons (h t (by simp)) (ih fun u hu => h u (by simp [hu]))

theorem cleanN_paren {a : List DTok} (hs : SplitN a) (ha : CleanN a)
    (hp : ∀ r junk, parseRegexD a = some (r, junk) → junk = []) :
    CleanN (.re .lparen :: a ++ [.re .rparen]) := by
  intro rest h fuel hf
  obtain ⟨f, rfl⟩ : ∃ f, fuel = f + 1 := ⟨fuel - 1, by simp at hf; omega⟩
  have hsplit : splitClose 0 (a ++ .re .rparen :: rest) = (a, rest) := by
    rw [hs]
    simp [splitClose, DTok.isClose]
  have h1 : cleanGroups f a = (a, false) := by
    have := ha [] stable_nil f (by simp at hf ⊢; omega)
    simpa using this
  have h2 : cleanGroups f rest = (rest, false) := h f (by simp at hf; omega)
  simp only [List.cons_append, List.append_assoc, List.nil_append]
  rw [cleanGroups.eq_3, hsplit]
  simp only [h1, h2]
  cases hpr : parseRegexD a with
  | none => simp
  | some p =>
    obtain ⟨r, junk⟩ := p
    have := hp r junk hpr
    subst this
    simp

theorem parseRegexD_print_nil (r : Regex) (hp : Printable r) :
    parseRegexD (printRegexD r) = some (r, []) := by
  obtain ⟨f, hf⟩ := parse_print r hp [] (Or.inl rfl)
  have h0 := parseRegex_of_parse0 (hf f (Nat.le_refl _))
  unfold parseRegexD printRegexD
  simp only [List.append_nil] at h0
  rw [map_toTok_re, h0]
  simp

theorem cleanN_printItems (items : List CharOrRange) : CleanN ((printItems items).map DTok.re) := by
  induction items with
  | nil => exact cleanN_nil
  | cons i items ih =>
    cases i with
    | chr c => exact cleanN_cons (by simp) ih
    | rng s e => exact cleanN_cons (by simp) (cleanN_cons (by simp) (cleanN_cons (by simp) ih))

/-- a printing at any level is the printing at level 0, possibly in parentheses -/
theorem cleanN_of_zero (r : Regex) (hp : Printable r) (k : Nat)
    (h0 : CleanN ((printRe r 0).map DTok.re)) : CleanN ((printRe r k).map DTok.re) := by
  rw [printRe_eq]
  split
  · have := cleanN_paren (splitN_printRe r 0) h0 (fun r' junk hj => by
      have h := parseRegexD_print_nil r hp
      unfold printRegexD at h
      rw [h] at hj
      simp at hj
      exact hj.2)
    simpa using this
  · exact h0

theorem cleanN_printRe (r : Regex) (hp : Printable r) (k : Nat) : CleanN ((printRe r k).map DTok.re) := by
  induction r generalizing k with
  | builtin n => exact cleanN_of_zero _ hp k (by rw [printRe]; exact cleanN_tokens _ (by simp [Regex.level]))
  | var n => exact cleanN_of_zero _ hp k (by rw [printRe]; exact cleanN_tokens _ (by simp [Regex.level]))
  | chr c => exact cleanN_of_zero _ hp k (by rw [printRe]; exact cleanN_tokens _ (by simp [Regex.level]))
  | str cs => exact cleanN_of_zero _ hp k (by rw [printRe]; exact cleanN_tokens _ (by simp [Regex.level]))
  | any => exact cleanN_of_zero _ hp k (by rw [printRe]; exact cleanN_tokens _ (by simp [Regex.level]))
  | eoi => exact cleanN_of_zero _ hp k (by rw [printRe]; exact cleanN_tokens _ (by simp [Regex.level]))
  | set items =>
    refine cleanN_of_zero _ hp k ?_
    rw [printRe]
    have := cleanN_cons (t := .re .lbracket) (by simp)
      (cleanN_append (cleanN_printItems items) (cleanN_tokens [.re .rbracket] (by simp)))
    simpa [Regex.level] using this
  | star x ih =>
    have hx : Printable x := hp
    refine cleanN_of_zero _ hp k ?_
    rw [printRe]
    simpa [Regex.level] using cleanN_append (ih hx 2) (cleanN_tokens [.re .star] (by simp))
  | plus x ih =>
    have hx : Printable x := hp
    refine cleanN_of_zero _ hp k ?_
    rw [printRe]
    simpa [Regex.level] using cleanN_append (ih hx 2) (cleanN_tokens [.re .plus] (by simp))
  | opt x ih =>
    have hx : Printable x := hp
    refine cleanN_of_zero _ hp k ?_
    rw [printRe]
    simpa [Regex.level] using cleanN_append (ih hx 2) (cleanN_tokens [.re .question] (by simp))
  | cat a b iha ihb =>
    have hab : Printable a ∧ Printable b ∧ ¬ DollarClash (printRe a 1) (printRe b 2) := hp
    refine cleanN_of_zero _ hp k ?_
    rw [printRe]
    simpa [Regex.level] using cleanN_append (iha hab.1 1) (ihb hab.2.1 2)
  | alt a b iha ihb =>
    have hab : Printable a ∧ Printable b := hp
    refine cleanN_of_zero _ hp k ?_
    rw [printRe]
    simpa [Regex.level] using cleanN_append (iha hab.1 0) (cleanN_cons (t := .re .bar) (by simp) (ihb hab.2 1))
  | diff a b iha ihb =>
    have hab : Printable a ∧ Printable b := hp
    refine cleanN_of_zero _ hp k ?_
    rw [printRe]
    simpa [Regex.level] using cleanN_append (iha hab.1 3) (cleanN_cons (t := .re .pound) (by simp) (ihb hab.2 4))

theorem cleanN_printRegexD (r : Regex) (hp : Printable r) : CleanN (printRegexD r) := cleanN_printRe r hp 0

theorem cleanN_printRob (tbl : List RuleRhs) (x : RuleOrBinding) (hp : RobPrintable x) :
    CleanN (printRob tbl x) := by
  cases x with
  | binding x re =>
    exact cleanN_append (cleanN_append (cleanN_tokens _ (by simp)) (cleanN_printRegexD re hp))
      (cleanN_tokens _ (by simp))
  | rule r =>
    obtain ⟨hre, hctx⟩ : Printable r.re ∧ ∀ c, r.ctx = some c → Printable c := hp
    refine cleanN_append (cleanN_append (cleanN_printRegexD _ hre) ?_) ?_
    · cases hc : r.ctx with
      | none => exact cleanN_nil
      | some c => exact cleanN_cons (by simp) (cleanN_printRegexD c (hctx c hc))
    · cases tbl.getD r.rhs .none <;> exact cleanN_tokens _ (by simp [printRhs])

theorem cleanN_printRobs (tbl : List RuleRhs) (rules : List RuleOrBinding)
    (hp : ∀ x ∈ rules, RobPrintable x) : CleanN (printRobs tbl rules) := by
  induction rules with
  | nil => exact cleanN_nil
  | cons x xs ih =>
    exact cleanN_append (cleanN_printRob tbl x (hp x (by simp))) (ih fun y hy => hp y (by simp [hy]))

theorem cleanN_printItemsD (tbl : List RuleRhs) (items : LexerDef)
    (hp : ∀ it ∈ items, ItemPrintable it) (tys : List Nat) : CleanN (printItemsD tbl items tys) := by
  induction items generalizing tys with
  | nil => exact cleanN_nil
  | cons it is ih =>
    have his : ∀ it ∈ is, ItemPrintable it := fun y hy => hp y (by simp [hy])
    cases it with
    | errorType => exact cleanN_append (cleanN_tokens _ (by simp)) (ih his _)
    | rb x => exact cleanN_append (cleanN_printRob tbl x (hp (.rb x) (by simp))) (ih his _)
    | ruleSet name rules =>
      have hr : ∀ x ∈ rules, RobPrintable x := hp (.ruleSet name rules) (by simp)
      exact cleanN_append (cleanN_append (cleanN_append (cleanN_tokens _ (by simp))
        (cleanN_printRobs tbl rules hr)) (cleanN_tokens _ (by simp))) (ih his _)

theorem cleanGroups_printItemsD (tbl : List RuleRhs) (items : LexerDef)
    (hp : ∀ it ∈ items, ItemPrintable it) (tys : List Nat) :
    cleanGroups (printItemsD tbl items tys).length (printItemsD tbl items tys) =
      (printItemsD tbl items tys, false) := by
  have := cleanN_printItemsD tbl items hp tys [] stable_nil (printItemsD tbl items tys).length (by simp)
  simpa using this

/-! ## On every input: the k-th rule gets index k -/

theorem robIndices_append (a b : List RuleOrBinding) : robIndices (a ++ b) = robIndices a ++ robIndices b := by
  induction a with
  | nil => rfl
  | cons x xs ih => cases x <;> simp [robIndices, ih]

theorem parseRuleOrBinding_indices {T : List RuleRhs} {ts : List DTok} {x : RuleOrBinding}
    {T' : List RuleRhs} {rest : List DTok} (h : parseRuleOrBinding T ts = .ok (x, T', rest)) :
    ∃ k, T'.length = T.length + k ∧ robIndices [x] = List.range' T.length k := by
  unfold parseRuleOrBinding at h
  split at h
  · split at h
    · simp at h
      obtain ⟨rfl, rfl, _⟩ := h
      exact ⟨0, rfl, rfl⟩
    · simp at h
  · simp at h
  · split at h
    · simp at h
    · split at h
      · simp at h
      · simp at h
        obtain ⟨rfl, rfl, _⟩ := h
        exact ⟨1, by simp, by simp [robIndices, List.range']⟩

theorem parseRuleSetBody_indices (fuel : Nat) {T : List RuleRhs} {ts : List DTok}
    {xs : List RuleOrBinding} {T' : List RuleRhs} {rest : List DTok}
    (h : parseRuleSetBody fuel T ts = .ok (xs, T', rest)) :
    ∃ k, T'.length = T.length + k ∧ robIndices xs = List.range' T.length k := by
  induction fuel generalizing T ts xs T' rest with
  | zero => simp [parseRuleSetBody] at h
  | succ f ih =>
    by_cases hb : ∃ l, ts = .rbrace :: l
    · obtain ⟨l, rfl⟩ := hb
      rw [parseRuleSetBody.eq_2] at h
      simp at h
      obtain ⟨rfl, rfl, _⟩ := h
      exact ⟨0, rfl, rfl⟩
    · rw [parseRuleSetBody.eq_3 _ _ _ (fun l hl => hb ⟨l, hl⟩)] at h
      cases h1 : parseRuleOrBinding T ts with
      | error e => rw [h1] at h; simp at h
      | ok p =>
        obtain ⟨x, T1, ts1⟩ := p
        rw [h1] at h
        simp only at h
        cases h2 : parseRuleSetBody f T1 ts1 with
        | error e => rw [h2] at h; simp at h
        | ok q =>
          obtain ⟨ys, T2, ts2⟩ := q
          rw [h2] at h
          simp at h
          obtain ⟨rfl, rfl, _⟩ := h
          obtain ⟨k1, hl1, hi1⟩ := parseRuleOrBinding_indices h1
          obtain ⟨k2, hl2, hi2⟩ := ih h2
          refine ⟨k1 + k2, by omega, ?_⟩
          have : robIndices (x :: ys) = robIndices [x] ++ robIndices ys := robIndices_append [x] ys
          rw [this, hi1, hi2, hl1, List.range'_append_1]

theorem parseTopItem_indices {T : List RuleRhs} {ts : List DTok} {x : TopItem} {ty : Option Nat}
    {T' : List RuleRhs} {rest : List DTok} (h : parseTopItem T ts = .ok (x, ty, T', rest)) :
    ∃ k, T'.length = T.length + k ∧ itemIndices [x] = List.range' T.length k ∧
      errorTypeCount [x] = ty.toList.length := by
  unfold parseTopItem at h
  split at h
  · split at h
    · split at h
      · split at h
        · simp at h
        · rename_i h2
          simp at h
          obtain ⟨rfl, rfl, rfl, _⟩ := h
          obtain ⟨k, hl, hi⟩ := parseRuleSetBody_indices _ h2
          exact ⟨k, hl, by simp [itemIndices, hi], by simp [errorTypeCount]⟩
      · simp at h
    · simp at h
  · split at h
    · split at h
      · simp at h
        obtain ⟨rfl, rfl, rfl, _⟩ := h
        exact ⟨0, rfl, rfl, rfl⟩
      · simp at h
    · simp at h
  · simp at h
  · split at h
    · simp at h
    · rename_i h1
      simp at h
      obtain ⟨rfl, rfl, rfl, _⟩ := h
      obtain ⟨k, hl, hi⟩ := parseRuleOrBinding_indices h1
      exact ⟨k, hl, by simp [itemIndices, hi], by simp [errorTypeCount]⟩

theorem itemIndices_cons (x : TopItem) (xs : LexerDef) :
    itemIndices (x :: xs) = itemIndices [x] ++ itemIndices xs := by
  cases x <;> simp [itemIndices]

theorem errorTypeCount_cons (x : TopItem) (xs : LexerDef) :
    errorTypeCount (x :: xs) = errorTypeCount [x] + errorTypeCount xs := by
  cases x <;> simp [errorTypeCount] <;> omega

theorem parseItems_indices (fuel : Nat) {T : List RuleRhs} {ts : List DTok} {xs : LexerDef}
    {T' : List RuleRhs} {tys : List Nat} (h : parseItems fuel T ts = .ok (xs, T', tys)) :
    ∃ k, T'.length = T.length + k ∧ itemIndices xs = List.range' T.length k ∧
      errorTypeCount xs = tys.length := by
  induction fuel generalizing T ts xs T' tys with
  | zero => simp [parseItems] at h
  | succ f ih =>
    by_cases hb : ts = []
    · subst hb
      rw [parseItems.eq_2] at h
      simp at h
      obtain ⟨rfl, rfl, rfl⟩ := h
      exact ⟨0, rfl, rfl, rfl⟩
    · rw [parseItems.eq_3 _ _ _ hb] at h
      cases h1 : parseTopItem T ts with
      | error e => rw [h1] at h; simp at h
      | ok p =>
        obtain ⟨x, ty, T1, ts1⟩ := p
        rw [h1] at h
        simp only at h
        cases h2 : parseItems f T1 ts1 with
        | error e => rw [h2] at h; simp at h
        | ok q =>
          obtain ⟨ys, T2, tys2⟩ := q
          rw [h2] at h
          simp at h
          obtain ⟨rfl, rfl, rfl⟩ := h
          obtain ⟨k1, hl1, hi1, he1⟩ := parseTopItem_indices h1
          obtain ⟨k2, hl2, hi2, he2⟩ := ih h2
          refine ⟨k1 + k2, by omega, ?_, ?_⟩
          · rw [itemIndices_cons, hi1, hi2, hl1, List.range'_append_1]
          · rw [errorTypeCount_cons, he1, he2]; simp

end ParserDefProofs

/-! ## The round trip -/

/-- Printing a well-formed definition and parsing the tokens gives the definition back: header,
items with their action-table indices, the table (hence every rule's kind) and the error types. -/
theorem parseDef_printDef (d : ParsedDef) (h : WFDef d) : parseDef (printDef d) = .ok d := by
  obtain ⟨hdr, items, tbl, tys⟩ := d
  obtain ⟨hp, hidx, hty⟩ := h
  simp only at hp hidx hty
  unfold parseDef
  rw [if_pos (ParserDefProofs.balanced_printDef _)]
  simp only [printDef]
  rw [ParserDefProofs.parseHeader_print]
  simp only [ParserDefProofs.cleanGroups_printItemsD tbl items hp tys]
  rw [ParserDefProofs.parseItems_print tbl items hp tys (by omega) [] _ (by
    have : items.length ≤ (printItemsD tbl items tys).length := ParserDefProofs.printItemsD_length tbl items tys
    omega)]
  have h1 : ParserDefProofs.renumItems 0 items = items :=
    ParserDefProofs.renumItems_eq items 0 (by rw [hidx, List.range_eq_range']; simp)
  have h2 : ParserDefProofs.itemsRhs tbl items = tbl := by
    rw [ParserDefProofs.itemsRhs_eq, hidx, ParserDefProofs.map_getD_range]
  simp [h1, h2, hty]

/-- What the parser returns — on any input — has the rules numbered `0, 1, 2, …` in source order, one
table entry per rule, and one error type per `type Error` item: `WFDef` up to printability. -/
theorem parseDef_indices {ts : List DTok} {d : ParsedDef} (h : parseDef ts = .ok d) :
    itemIndices d.items = List.range d.table.length ∧ errorTypeCount d.items = d.errorTypes.length := by
  unfold parseDef at h
  split at h
  · split at h
    · simp at h
    · simp only at h
      split at h
      · simp at h
      · rename_i h1
        split at h
        · simp at h
        · simp at h
          subst h
          obtain ⟨k, hl, hi, he⟩ := ParserDefProofs.parseItems_indices _ h1
          simp only [List.length_nil, Nat.zero_add] at hl hi
          exact ⟨by rw [hi, hl, List.range_eq_range'], he⟩
  · simp at h

/-! ## Examples -/

/-- ```
#[a7] pub Lexer(S0) -> T1;
let x = 'a';
type Error = T2;
rule Init {
    $x 'b'* > 'c' = e3,
    let y = 'd' | _;
    'd',
}
"ef" =? e4,
_ > $ => e5,
``` -/
def parserExDef : ParsedDef where
  header := { attrs := [7], vis := some 0, name := "Lexer", stateTy := some 0, tokenTy := 1 }
  items := [
    .rb (.binding "x" (.chr 97)),
    .errorType,
    .ruleSet "Init" [
      .rule { re := .cat (.var "x") (.star (.chr 98)), ctx := some (.chr 99), rhs := 0 },
      .binding "y" (.alt (.chr 100) .any),
      .rule { re := .chr 100, ctx := none, rhs := 1 }],
    .rb (.rule { re := .str [101, 102], ctx := none, rhs := 2 }),
    .rb (.rule { re := .any, ctx := some .eoi, rhs := 3 })]
  table := [.simple 3, .none, .fallible 4, .infallible 5]
  errorTypes := [2]

/-- a rule set, a right context, all four rule kinds: the printing … -/
example : printDef parserExDef =
    [.attr 7, .vis 0, .re (.ident "Lexer"), .re .lparen, .expr 0, .re .rparen, .rarrow, .expr 1, .semi,
     .kwLet, .re (.ident "x"), .eq, .re (.chr 97), .semi,
     .kwType, .re (.ident "Error"), .eq, .expr 2, .semi,
     .re (.ident "rule"), .re (.ident "Init"), .lbrace,
       .re .dollar, .re (.ident "x"), .re (.chr 98), .re .star, .gt, .re (.chr 99), .eq, .expr 3, .comma,
       .kwLet, .re (.ident "y"), .eq, .re (.chr 100), .re .bar, .re .underscore, .semi,
       .re (.chr 100), .comma,
     .rbrace,
     .re (.str [101, 102]), .eq, .re .question, .expr 4, .comma,
     .re .underscore, .gt, .re .dollar, .fatArrow, .expr 5, .comma] := by decide

/-- … parses back (by evaluation) … -/
example : parseDef (printDef parserExDef) = .ok parserExDef := by rfl

/-- … and the kinds, in rule order -/
example : parserExDef.kinds = [.simple, .none, .fallible, .infallible] := by decide

/-- the same by the theorem -/
theorem parserExDef_wf : WFDef parserExDef where
  printable := by
    intro it hit
    simp only [parserExDef, List.mem_cons, List.not_mem_nil, or_false] at hit
    rcases hit with rfl | rfl | rfl | rfl | rfl <;>
      simp [ItemPrintable, RobPrintable, Printable, DollarClash, printRe, Regex.level]
  indices := by decide
  errorTypes := by decide

example : parseDef (printDef parserExDef) = .ok parserExDef := parseDef_printDef parserExDef parserExDef_wf

/-- the trailing comma after a rule set is optional; indices continue across rule sets -/
example : parseDef [.re (.ident "L"), .rarrow, .expr 0, .semi,
      .re (.ident "rule"), .re (.ident "A"), .lbrace, .re (.chr 97), .comma, .rbrace, .comma,
      .re (.chr 98), .fatArrow, .expr 1, .comma] =
    .ok { header := { attrs := [], vis := none, name := "L", stateTy := none, tokenTy := 0 },
          items := [.ruleSet "A" [.rule { re := .chr 97, ctx := none, rhs := 0 }],
                    .rb (.rule { re := .chr 98, ctx := none, rhs := 1 })],
          table := [.none, .infallible 1], errorTypes := [] } := by rfl

/-- `syn` errors: `let x 'a';` (no `=`), an identifier that is not `rule`, a rule inside a rule set
without its comma, unbalanced delimiters -/
example : parseDef [.re (.ident "L"), .rarrow, .expr 0, .semi,
    .kwLet, .re (.ident "x"), .re (.chr 97), .semi] = .error .syn := by rfl
example : parseDef [.re (.ident "L"), .rarrow, .expr 0, .semi,
    .re (.ident "rules"), .re (.ident "A"), .lbrace, .rbrace] = .error .syn := by rfl
example : parseDef [.re (.ident "L"), .rarrow, .expr 0, .semi,
    .re (.ident "rule"), .re (.ident "A"), .lbrace, .re (.chr 97), .eq, .expr 1, .rbrace] = .error .syn := by rfl
example : parseDef [.re (.ident "L"), .rarrow, .expr 0, .semi, .re (.chr 97), .re .rparen] = .error .syn := by rfl

/-- panics: a regex followed by none of `,` `=>` `=` (here `;`, and the end of the input), and
`type Foo` -/
example : parseDef [.re (.ident "L"), .rarrow, .expr 0, .semi, .re (.chr 97), .semi] = .error .panic := by rfl
example : parseDef [.re (.ident "L"), .rarrow, .expr 0, .semi, .re (.chr 97)] = .error .panic := by rfl
example : parseDef [.re (.ident "L"), .rarrow, .expr 0, .semi,
    .kwType, .re (.ident "Foo"), .eq, .expr 1, .semi] = .error .panic := by rfl

/-- a group whose content is not consumed entirely is an error only at the end: `('a' -),` is a `syn`
error, but in `('a' -);` the panic comes first -/
example : parseDef [.re (.ident "L"), .rarrow, .expr 0, .semi,
    .re .lparen, .re (.chr 97), .re .minus, .re .rparen, .comma] = .error .syn := by rfl
example : parseDef [.re (.ident "L"), .rarrow, .expr 0, .semi,
    .re .lparen, .re (.chr 97), .re .minus, .re .rparen, .semi] = .error .panic := by rfl

end Lexgen
