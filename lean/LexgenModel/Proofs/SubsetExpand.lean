import LexgenModel.Proofs.SubsetCollect
/-!
# Subset construction, part 4: `expandState` — the transition table it writes for one DFA state
-/
set_option linter.unusedSimpArgs false
set_option linter.unusedVariables false
namespace Lexgen.Subset
open Lexgen

/-! ## DFA state access -/

/-- equality of the transition table and accept list (everything but `initial`, `preds`,
`backtrack`) -/
structure TEq (s s' : DState Nat) : Prop where
  chars : s.chars = s'.chars
  ranges : s.ranges = s'.ranges
  any : s.any = s'.any
  eoi : s.eoi = s'.eoi
  acc : s.accepting = s'.accepting

theorem TEq.rfl' (s : DState Nat) : TEq s s := ⟨rfl, rfl, rfl, rfl, rfl⟩
theorem TEq.of_eq {s s' : DState Nat} (h : s = s') : TEq s s' := h ▸ TEq.rfl' s
theorem TEq.trans {a b c : DState Nat} (h1 : TEq a b) (h2 : TEq b c) : TEq a c :=
  ⟨h1.chars.trans h2.chars, h1.ranges.trans h2.ranges, h1.any.trans h2.any, h1.eoi.trans h2.eoi,
    h1.acc.trans h2.acc⟩
theorem TEq.symm {a b : DState Nat} (h : TEq a b) : TEq b a :=
  ⟨h.chars.symm, h.ranges.symm, h.any.symm, h.eoi.symm, h.acc.symm⟩

theorem dst_append_empty (D : DFA Nat) (i : Nat) : DFA.st (D ++ [DState.empty]) i = DFA.st D i := by
  unfold DFA.st
  rw [List.getD_eq_getElem?_getD, List.getD_eq_getElem?_getD, List.getElem?_append]
  by_cases h : i < D.length
  · simp [h]
  · simp only [h, if_false]
    rw [List.getElem?_eq_none (Nat.le_of_not_lt h)]
    cases hi : i - D.length with
    | zero => simp
    | succ k => simp

theorem dst_modify (D : DFA Nat) (k i : Nat) (f : DState Nat → DState Nat) :
    DFA.st (D.modify k f) i = if k = i ∧ i < D.length then f (DFA.st D i) else DFA.st D i := by
  unfold DFA.st
  rw [List.getD_eq_getElem?_getD, List.getD_eq_getElem?_getD, List.getElem?_modify]
  by_cases hk : k = i
  · by_cases hi : i < D.length
    · simp [hk, hi, List.getElem?_eq_getElem hi]
    · simp [hk, hi, List.getElem?_eq_none (Nat.le_of_not_lt hi)]
  · cases D[i]? <;> simp [hk]

theorem dst_modify_ne (D : DFA Nat) {k i : Nat} (f : DState Nat → DState Nat) (h : k ≠ i) :
    DFA.st (D.modify k f) i = DFA.st D i := by
  rw [dst_modify]; simp [h]

theorem dst_modify_eq (D : DFA Nat) {k : Nat} (f : DState Nat → DState Nat) (h : k < D.length) :
    DFA.st (D.modify k f) k = f (DFA.st D k) := by
  rw [dst_modify]; simp [h]

theorem length_addPred (D : DFA Nat) (t p : Nat) : (DFA.addPred D t p).length = D.length := by
  unfold DFA.addPred; exact List.length_modify _ _ _

theorem teq_addPred (D : DFA Nat) (t p i : Nat) : TEq ((DFA.addPred D t p).st i) (D.st i) := by
  unfold DFA.addPred
  rw [dst_modify]
  by_cases h : t = i ∧ i < D.length
  · rw [if_pos h]; exact ⟨rfl, rfl, rfl, rfl, rfl⟩
  · rw [if_neg h]; exact TEq.rfl' _

theorem predsFold_spec (d : Nat) (rng : RangeMap Nat) (D : DFA Nat) :
    (rng.foldl (fun dfa r => DFA.addPred dfa r.2.2 d) D).length = D.length ∧
    ∀ i, TEq ((rng.foldl (fun dfa r => DFA.addPred dfa r.2.2 d) D).st i) (D.st i) := by
  induction rng generalizing D with
  | nil => exact ⟨rfl, fun i => TEq.rfl' _⟩
  | cons r rng ih =>
    rw [List.foldl_cons]
    obtain ⟨h1, h2⟩ := ih (DFA.addPred D r.2.2 d)
    exact ⟨h1.trans (length_addPred _ _ _), fun i => (h2 i).trans (teq_addPred _ _ _ _)⟩

/-! ## builder well-formedness and `stateOf` -/

def WFB (b : Builder) : Prop :=
  (b.stateMap.map (·.1)).Nodup ∧ b.stateMap.map (·.2) = List.range b.dfa.length

def KeyOK (k : List Nat) : Prop := Ascending k ∧ k ≠ []

theorem wfb_idx_lt {b : Builder} (h : WFB b) {e : List Nat × Nat} (he : e ∈ b.stateMap) :
    e.2 < b.dfa.length := by
  have : e.2 ∈ b.stateMap.map (·.2) := List.mem_map_of_mem he
  rw [h.2] at this
  exact List.mem_range.mp this

theorem wfb_key_inj {b : Builder} (h : WFB b) {k : List Nat} {i j : Nat} (hi : (k, i) ∈ b.stateMap)
    (hj : (k, j) ∈ b.stateMap) : i = j := by
  have := inj_of_nodup_map (·.1) h.1 hi hj rfl
  exact congrArg Prod.snd this

theorem wfb_idx_inj {b : Builder} (h : WFB b) {k k' : List Nat} {i : Nat} (hi : (k, i) ∈ b.stateMap)
    (hj : (k', i) ∈ b.stateMap) : k = k' := by
  have hn : (b.stateMap.map (·.2)).Nodup := by rw [h.2]; exact List.nodup_range
  have := inj_of_nodup_map (·.2) hn hi hj rfl
  exact congrArg Prod.fst this

theorem stateOf_spec (b : Builder) (k : List Nat) (hb : WFB b) :
    WFB (b.stateOf k).1 ∧ (∀ e ∈ b.stateMap, e ∈ (b.stateOf k).1.stateMap) ∧
    (∀ e ∈ (b.stateOf k).1.stateMap, e ∈ b.stateMap ∨ e.1 = k) ∧
    (k, (b.stateOf k).2) ∈ (b.stateOf k).1.stateMap ∧
    (∀ i, (b.stateOf k).1.dfa.st i = b.dfa.st i) ∧ b.dfa.length ≤ (b.stateOf k).1.dfa.length := by
  unfold Builder.stateOf
  cases hf : b.stateMap.find? (fun e => e.1 = k) with
  | some e =>
    obtain ⟨k', i⟩ := e
    have hk : k' = k := by simpa using List.find?_some hf
    subst hk
    exact ⟨hb, fun e he => he, fun e he => Or.inl he, List.mem_of_find?_eq_some hf, fun i => rfl,
      Nat.le_refl _⟩
  | none =>
    have hnone : ∀ e ∈ b.stateMap, e.1 ≠ k := by
      intro e he
      have := List.find?_eq_none.mp hf e he
      simpa using this
    refine ⟨⟨?_, ?_⟩, fun e he => List.mem_append_left _ he, fun e he => ?_,
      List.mem_append_right _ (List.mem_singleton.mpr rfl), fun i => dst_append_empty _ _, ?_⟩
    · show ((b.stateMap ++ [(k, b.dfa.length)]).map (·.1)).Nodup
      rw [List.map_append, List.nodup_append]
      refine ⟨hb.1, by simp, ?_⟩
      intro a ha c hc hac
      simp only [List.map_cons, List.map_nil, List.mem_singleton] at hc
      obtain ⟨e, he, rfl⟩ := List.mem_map.mp ha
      exact hnone e he (hac.trans hc)
    · show (b.stateMap ++ [(k, b.dfa.length)]).map (·.2) = List.range (b.dfa ++ [DState.empty]).length
      rw [List.map_append, hb.2, List.length_append]
      simp [List.range_succ]
    · rcases List.mem_append.mp he with h | h
      · exact Or.inl h
      · rw [List.mem_singleton] at h; subst h; exact Or.inr rfl
    · show b.dfa.length ≤ (b.dfa ++ [DState.empty]).length
      simp

/-! ## the invariant carried through one `expandState` -/

structure Mid (b0 : Builder) (d : Nat) (b : Builder) (pushed : List (List Nat)) : Prop where
  wf : WFB b
  old : ∀ e ∈ b0.stateMap, e ∈ b.stateMap
  new : ∀ e ∈ b.stateMap, e ∈ b0.stateMap ∨ e.1 ∈ pushed
  len : b0.dfa.length ≤ b.dfa.length
  other : ∀ i, i ≠ d → TEq (b.dfa.st i) (b0.dfa.st i)
  pk : ∀ k ∈ pushed, KeyOK k

theorem mid_refl (b : Builder) (d : Nat) (hb : WFB b) : Mid b d b [] :=
  ⟨hb, fun _ h => h, fun _ h => Or.inl h, Nat.le_refl _, fun _ _ => TEq.rfl' _, fun _ h => by cases h⟩

theorem mid_setdfa {b0 b : Builder} {d : Nat} {pushed : List (List Nat)} (h : Mid b0 d b pushed)
    (D : DFA Nat) (hl : D.length = b.dfa.length) (ho : ∀ i, i ≠ d → TEq (D.st i) (b.dfa.st i)) :
    Mid b0 d { b with dfa := D } pushed :=
  ⟨⟨h.wf.1, by show b.stateMap.map (·.2) = List.range D.length; rw [hl]; exact h.wf.2⟩, h.old, h.new,
    by show b0.dfa.length ≤ D.length; rw [hl]; exact h.len,
    fun i hi => (ho i hi).trans (h.other i hi), h.pk⟩

theorem mid_stateOf {b0 b : Builder} {d : Nat} {pushed : List (List Nat)} (h : Mid b0 d b pushed)
    {k : List Nat} (hk : KeyOK k) :
    Mid b0 d (b.stateOf k).1 (k :: pushed) ∧ (k, (b.stateOf k).2) ∈ (b.stateOf k).1.stateMap ∧
    (∀ e ∈ b.stateMap, e ∈ (b.stateOf k).1.stateMap) ∧ (∀ i, (b.stateOf k).1.dfa.st i = b.dfa.st i) := by
  obtain ⟨s1, s2, s3, s4, s5, s6⟩ := stateOf_spec b k h.wf
  refine ⟨⟨s1, fun e he => s2 e (h.old e he), fun e he => ?_, Nat.le_trans h.len s6,
    fun i hi => by rw [s5 i]; exact h.other i hi, fun k' hk' => ?_⟩, s4, s2, s5⟩
  · rcases s3 e he with h1 | h1
    · rcases h.new e h1 with h2 | h2
      · exact Or.inl h2
      · exact Or.inr (List.mem_cons_of_mem _ h2)
    · exact Or.inr (h1 ▸ List.mem_cons_self)
  · rcases List.mem_cons.mp hk' with rfl | h1
    · exact hk
    · exact h.pk k' h1

/-- `stateOf`, then update state `d` with the target, then record the predecessor -/
def link (b : Builder) (d : Nat) (k : List Nat) (upd : Nat → DState Nat → DState Nat) : Builder :=
  { (b.stateOf k).1 with
    dfa := DFA.addPred ((b.stateOf k).1.dfa.modify d (upd (b.stateOf k).2)) (b.stateOf k).2 d }

theorem mid_link {b0 b : Builder} {d : Nat} {pushed : List (List Nat)} (h : Mid b0 d b pushed)
    (hd : d < b0.dfa.length) {k : List Nat} (hk : KeyOK k) (upd : Nat → DState Nat → DState Nat) :
    Mid b0 d (link b d k upd) (k :: pushed) ∧ (k, (b.stateOf k).2) ∈ (link b d k upd).stateMap ∧
    (∀ e ∈ b.stateMap, e ∈ (link b d k upd).stateMap) ∧
    TEq ((link b d k upd).dfa.st d) (upd (b.stateOf k).2 (b.dfa.st d)) := by
  obtain ⟨m1, m2, m3, m4⟩ := mid_stateOf h hk
  have hlen : d < (b.stateOf k).1.dfa.length := Nat.lt_of_lt_of_le hd m1.len
  refine ⟨mid_setdfa m1 _ ?_ ?_, m2, m3, ?_⟩
  · rw [length_addPred, List.length_modify]
  · intro i hi
    refine (teq_addPred _ _ _ _).trans ?_
    rw [dst_modify_ne _ _ (Ne.symm hi)]
    exact TEq.rfl' _
  · show TEq ((DFA.addPred _ _ _).st d) _
    refine (teq_addPred _ _ _ _).trans ?_
    rw [dst_modify_eq _ _ hlen, m4 d]
    exact TEq.rfl' _

/-! ## the stages of `expandState` -/

/-- NFA targets merged into the char transition on `e.1` -/
def ctg (col : Collected) (e : Nat × List Nat) : List Nat :=
  setUnion (col.ranges.foldl (fun t r => if r.1 ≤ e.1 ∧ e.1 ≤ r.2.1 then setUnion t r.2.2 else t) e.2) col.any

def charStep (nfa : NFA) (col : Collected) (d : Nat) (acc : Builder × List (List Nat)) (e : Nat × List Nat) :
    Builder × List (List Nat) :=
  (link acc.1 d (nfa.closure (ctg col e)) (fun t st => { st with chars := st.chars ++ [(e.1, t)] }),
    nfa.closure (ctg col e) :: acc.2)

def rangeStep (nfa : NFA) (col : Collected) (acc : Builder × List (List Nat) × RangeMap Nat)
    (r : Nat × Nat × List Nat) : Builder × List (List Nat) × RangeMap Nat :=
  ((acc.1.stateOf (nfa.closure (setUnion r.2.2 col.any))).1,
    nfa.closure (setUnion r.2.2 col.any) :: acc.2.1,
    acc.2.2 ++ [(r.1, r.2.1, (acc.1.stateOf (nfa.closure (setUnion r.2.2 col.any))).2)])

def optStep (nfa : NFA) (d : Nat) (tg : List Nat) (upd : Nat → DState Nat → DState Nat)
    (acc : Builder × List (List Nat)) : Builder × List (List Nat) :=
  if (nfa.closure tg).isEmpty then acc
  else (link acc.1 d (nfa.closure tg) upd, nfa.closure tg :: acc.2)

def expand' (nfa : NFA) (b : Builder) (d : Nat) (cur : List Nat) : Builder × List (List Nat) :=
  let col := collect nfa cur
  let b1 : Builder := { b with dfa := b.dfa.modify d fun st => { st with accepting := col.accs } }
  let a2 := col.chars.foldl (charStep nfa col d) (b1, [])
  let a3 := col.ranges.foldl (rangeStep nfa col) (a2.1, a2.2, [])
  let dfa := a3.2.2.foldl (fun dfa r => DFA.addPred dfa r.2.2 d) a3.1.dfa
  let b4 : Builder := { a3.1 with dfa := dfa.modify d fun st => { st with ranges := a3.2.2 } }
  let a5 := optStep nfa d col.any (fun t st => { st with any := some t }) (b4, a3.2.1)
  optStep nfa d col.eoi (fun t st => { st with eoi := some t }) a5

theorem expandState_eq (nfa : NFA) (b : Builder) (d : Nat) (cur : List Nat) :
    expandState nfa b d cur = expand' nfa b d cur := rfl

end Lexgen.Subset
