import LexgenModel.Spec.WellFormed
import LexgenModel.Proofs.CompileLang
import LexgenModel.Proofs.CtxFn
/-!
# Right-context automata at the language level

`ctxDfa_lang`: the automaton `new_right_ctx` builds accepts (as the generated context function runs
it) exactly when the context regex denotes a prefix of the rest of the input followed by the
end-of-input symbol. `compileLexer_ctxs`: every right context of every rule set of a compiled
definition is realised by the automaton with the number the macro assigns to it.
-/

set_option linter.unusedSimpArgs false
set_option linter.unusedVariables false
namespace Lexgen
namespace CtxLangP

/-! ## Where the end-of-input symbol can occur in a denoted word -/

/-- the end-of-input symbol occurs at most as the last symbol -/
def TailOK (w : List Sym) : Prop := ∀ i, w[i]? = some Sym.eoi → i + 1 = w.length

theorem tailOK_of_noEoi {w : List Sym} (h : Sym.eoi ∉ w) : TailOK w := by
  intro i hi
  exact absurd (List.mem_of_getElem? hi) h

theorem noEoi_map_ch (cs : List Nat) : Sym.eoi ∉ cs.map Sym.ch := by
  intro h
  obtain ⟨c, _, hc⟩ := List.mem_map.mp h
  cases hc

theorem noEoi_single (c : Nat) : Sym.eoi ∉ [Sym.ch c] := by
  intro h
  rw [List.mem_singleton] at h
  cases h

theorem noEoi_star {L : List Sym → Prop} (hL : ∀ w, L w → Sym.eoi ∉ w) {w : List Sym} (h : Star L w) :
    Sym.eoi ∉ w := by
  induction h with
  | nil => intro h; cases h
  | cons hu _ ih =>
    intro h
    rcases List.mem_append.mp h with h | h
    · exact hL _ hu h
    · exact ih h

theorem den_noEoi (r : Regex) : eoiFree r → ∀ w, den r w → Sym.eoi ∉ w := by
  induction r with
  | builtin n =>
    intro _ w hw
    obtain ⟨c, rfl, _⟩ := hw
    exact noEoi_single c
  | var n => intro _ w hw; exact hw.elim
  | chr c =>
    intro _ w hw
    have : w = [Sym.ch c] := hw
    subst this
    exact noEoi_single c
  | str cs =>
    intro _ w hw
    have : cs ≠ [] ∧ w = cs.map Sym.ch := hw
    rw [this.2]
    exact noEoi_map_ch cs
  | set items =>
    intro _ w hw
    obtain ⟨c, rfl, _⟩ := hw
    exact noEoi_single c
  | star r ih =>
    intro hf w hw
    exact noEoi_star (ih hf) hw
  | plus r ih =>
    intro hf w hw
    obtain ⟨u, v, rfl, hu, hv⟩ := hw
    intro h
    rcases List.mem_append.mp h with h | h
    · exact ih hf u hu h
    · exact noEoi_star (ih hf) hv h
  | opt r ih =>
    intro hf w hw
    rcases hw with rfl | hw
    · intro h; cases h
    · exact ih hf w hw
  | cat a b iha ihb =>
    intro hf w hw
    obtain ⟨u, v, rfl, hu, hv⟩ := hw
    intro h
    rcases List.mem_append.mp h with h | h
    · exact iha hf.1 u hu h
    · exact ihb hf.2 v hv h
  | alt a b iha ihb =>
    intro hf w hw
    rcases hw with hw | hw
    · exact iha hf.1 w hw
    · exact ihb hf.2 w hw
  | any =>
    intro _ w hw
    obtain ⟨c, rfl⟩ := hw
    exact noEoi_single c
  | eoi => intro hf; exact hf.elim
  | diff a b _ _ =>
    intro _ w hw
    obtain ⟨c, rfl, _⟩ := hw
    exact noEoi_single c

theorem den_tailOK (r : Regex) : tailEoi r → ∀ w, den r w → TailOK w := by
  induction r with
  | builtin n => intro _ w hw; exact tailOK_of_noEoi (den_noEoi (.builtin n) trivial w hw)
  | var n => intro _ w hw; exact hw.elim
  | chr c => intro _ w hw; exact tailOK_of_noEoi (den_noEoi (.chr c) trivial w hw)
  | str cs => intro _ w hw; exact tailOK_of_noEoi (den_noEoi (.str cs) trivial w hw)
  | set items => intro _ w hw; exact tailOK_of_noEoi (den_noEoi (.set items) trivial w hw)
  | star r _ => intro ht w hw; exact tailOK_of_noEoi (den_noEoi (.star r) ht w hw)
  | plus r _ => intro ht w hw; exact tailOK_of_noEoi (den_noEoi (.plus r) ht w hw)
  | opt r ih =>
    intro ht w hw
    rcases hw with rfl | hw
    · intro i hi; simp at hi
    · exact ih ht w hw
  | cat a b _ ihb =>
    intro ht w hw
    obtain ⟨u, v, rfl, hu, hv⟩ := hw
    have hnu := den_noEoi a ht.1 u hu
    have hv' := ihb ht.2 v hv
    intro i hi
    by_cases hlt : i < u.length
    · rw [List.getElem?_append_left hlt] at hi
      exact absurd (List.mem_of_getElem? hi) hnu
    · rw [List.getElem?_append_right (Nat.le_of_not_lt hlt)] at hi
      have := hv' _ hi
      rw [List.length_append]
      omega
  | alt a b iha ihb =>
    intro ht w hw
    rcases hw with hw | hw
    · exact iha ht.1 w hw
    · exact ihb ht.2 w hw
  | any => intro _ w hw; exact tailOK_of_noEoi (den_noEoi .any trivial w hw)
  | eoi =>
    intro _ w hw
    have : w = [Sym.eoi] := hw
    subst this
    intro i hi
    cases i with
    | zero => rfl
    | succ i => simp at hi
  | diff a b _ _ => intro _ w hw; exact tailOK_of_noEoi (den_noEoi (.diff a b) trivial w hw)

/-- a word of characters followed by `n` end-of-input symbols has the symbol only at the tail only
when `n ≤ 1` -/
theorem tailOK_replicate {cs : List Nat} {n : Nat} (h : TailOK (cs.map Sym.ch ++ List.replicate n Sym.eoi)) :
    n ≤ 1 := by
  cases n with
  | zero => omega
  | succ n =>
    have := h cs.length (by
      rw [List.getElem?_append_right (by rw [List.length_map]; exact Nat.le_refl _), List.length_map,
        Nat.sub_self]
      rfl)
    rw [List.length_append, List.length_map, List.length_replicate] at this
    omega

/-! ## Runs: end-of-input chains as runs over the extended alphabet -/

theorem reachSym_append (d : DFA Nat) (u v : List Sym) :
    ∀ s, reachSym d s (u ++ v) = (reachSym d s u).bind (fun t => reachSym d t v) := by
  induction u with
  | nil => intro s; rfl
  | cons x u ih =>
    intro s
    simp only [List.cons_append, reachSym]
    cases stepD d s x with
    | none => rfl
    | some t => exact ih t

theorem reachSym_replicate_eoi (d : DFA Nat) (n : Nat) :
    ∀ s, reachSym d s (List.replicate n Sym.eoi) = eoiChain d n s := by
  induction n with
  | zero => intro s; rfl
  | succ n ih =>
    intro s
    simp only [List.replicate_succ, reachSym, eoiChain, stepD]
    cases (d.st s).eoi with
    | none => rfl
    | some t => exact ih t

/-! ## The accept list of the single-rule automaton -/

open Classical in
theorem matchingAccs_single (cre : Regex) (w : List Sym) :
    matchingAccs [{ re := cre, ctx := none, value := 0 }] w ≠ [] ↔ den cre w := by
  unfold matchingAccs
  by_cases h : den cre w
  · have hd : decide (den cre w) = true := decide_eq_true h
    rw [List.filter_cons_of_pos (p := fun (x : CoreRule) => decide (den x.re w)) hd]
    simp [h]
  · have hd : ¬ (decide (den cre w) = true) := fun hd => h (of_decide_eq_true hd)
    rw [List.filter_cons_of_neg (p := fun (x : CoreRule) => decide (den x.re w)) hd]
    simp [h]

theorem buildNfa_single (cre : Regex) (nfa : NFA) (hn : NFA.new.addRegex cre none 0 = .ok nfa) :
    buildNfa [{ re := cre, ctx := none, value := 0 }] = .ok nfa := by
  unfold buildNfa
  rw [List.foldlM_cons]
  show (NFA.new.addRegex cre none 0 >>= fun n => List.foldlM _ n []) = .ok nfa
  rw [hn]
  rfl

/-- the right-context automaton reaches an accepting state by `w` iff the regex denotes `w` -/
theorem single_lang (cre : Regex) (hp : regexPiecesOK cre) (nfa : NFA)
    (hn : NFA.new.addRegex cre none 0 = .ok nfa) (d : DFA Nat) (hd : nfaToDfa nfa = some d) (w : List Sym) :
    (∃ t, reachSym d 0 w = some t ∧ (d.st t).accepting ≠ []) ↔ den cre w := by
  have hrules : ∀ r ∈ [({ re := cre, ctx := none, value := 0 } : CoreRule)], regexPiecesOK r.re := by
    intro r hr
    rw [List.mem_singleton] at hr
    subst hr
    exact hp
  have key := ruleSet_lang _ hrules nfa (buildNfa_single cre nfa hn) d hd w
  rw [← matchingAccs_single cre w]
  cases hr : reachSym d 0 w with
  | none =>
    rw [hr] at key
    have key' : matchingAccs [{ re := cre, ctx := none, value := 0 }] w = [] := key
    constructor
    · rintro ⟨t, ht, _⟩; cases ht
    · intro h; exact absurd key' h
  | some t =>
    rw [hr] at key
    have key' : (d.st t).accepting = matchingAccs [{ re := cre, ctx := none, value := 0 }] w := key
    constructor
    · rintro ⟨t', ht, ha⟩
      cases ht
      rw [← key']; exact ha
    · intro h
      exact ⟨t, rfl, by rw [key']; exact h⟩

theorem take_ext_le (rest : List Nat) (j : Nat) (hj : j ≤ rest.length) :
    (ext rest).take j = (rest.take j).map Sym.ch := by
  unfold ext
  rw [List.take_append_of_le_length (by rw [List.length_map]; exact hj), List.map_take]

theorem take_ext_gt (rest : List Nat) (j : Nat) (hj : rest.length < j) :
    (ext rest).take j = rest.map Sym.ch ++ [Sym.eoi] := by
  unfold ext
  apply List.take_of_length_le
  rw [List.length_append, List.length_map, List.length_singleton]
  omega

end CtxLangP

open CtxLangP CompileLang in
/-- the automaton `new_right_ctx` builds for a right context accepts (in the sense of the generated context function `ctxRun`)
exactly when the context regex denotes some prefix of the rest of the input extended with the end-of-input symbol -/
theorem ctxDfa_lang (cre : Regex) (hp : regexPiecesOK cre) (ht : tailEoi cre) (nfa : NFA)
    (hn : NFA.new.addRegex cre none 0 = .ok nfa) (d : DFA Nat) (hd : nfaToDfa nfa = some d) (rest : List Nat) :
    ctxRun d 0 rest = true ↔ CtxLang cre rest := by
  rw [ctxRun_iff]
  have lang := single_lang cre hp nfa hn d hd
  constructor
  · rintro (⟨j, s, hj, hr, ha⟩ | ⟨s, n, t, hr, _, hc, ha⟩)
    · refine ⟨j, ?_⟩
      rw [take_ext_le rest j hj]
      apply (lang _).mp
      exact ⟨s, by rw [reachSym_ch]; exact hr, ha⟩
    · have hden : den cre (rest.map Sym.ch ++ List.replicate n Sym.eoi) := by
        apply (lang _).mp
        refine ⟨t, ?_, ha⟩
        rw [reachSym_append, reachSym_ch, hr, Option.bind_some, reachSym_replicate_eoi]
        exact hc
      have hn1 := tailOK_replicate (den_tailOK cre ht _ hden)
      cases n with
      | zero =>
        refine ⟨rest.length, ?_⟩
        rw [take_ext_le rest _ (Nat.le_refl _), List.take_length]
        simpa using hden
      | succ n =>
        have : n = 0 := by omega
        subst this
        refine ⟨rest.length + 1, ?_⟩
        rw [take_ext_gt rest _ (Nat.lt_succ_self _)]
        exact hden
  · rintro ⟨j, hden⟩
    by_cases hj : j ≤ rest.length
    · rw [take_ext_le rest j hj] at hden
      obtain ⟨t, hr, ha⟩ := (lang _).mpr hden
      rw [reachSym_ch] at hr
      exact Or.inl ⟨j, t, hj, hr, ha⟩
    · rw [take_ext_gt rest j (Nat.lt_of_not_le hj)] at hden
      obtain ⟨t, hr, ha⟩ := (lang _).mpr hden
      rw [reachSym_ch_eoi] at hr
      cases hs : reachN d 0 rest with
      | none => rw [hs] at hr; cases hr
      | some s =>
        rw [hs, Option.bind_some] at hr
        have h0 : 0 < d.length := st_initial_lt (nfaToDfa_ok nfa d hd).2
        refine Or.inr ⟨s, 1, t, hs, h0, ?_, ha⟩
        simp only [eoiChain, hr]

namespace CtxLangP
open CompileLang Static

/-! ## The right-context automata a rule list allocates -/

/-- the automaton `d` realises the right context `cre` (when `cre` is well-formed) -/
def Good (d : DFA Nat) (cre : Regex) : Prop :=
  regexPiecesOK cre → tailEoi cre → ∀ rest, ctxRun d 0 rest = true ↔ CtxLang cre rest

/-- automata and right contexts correspond position by position -/
inductive Match : List (DFA Nat) → List Regex → Prop
  | nil : Match [] []
  | cons {d : DFA Nat} {c : Regex} {ds : List (DFA Nat)} {cs : List Regex} :
      Good d c → Match ds cs → Match (d :: ds) (c :: cs)

theorem Match.length_eq {ds : List (DFA Nat)} {cs : List Regex} (h : Match ds cs) : ds.length = cs.length := by
  induction h with
  | nil => rfl
  | cons _ _ ih => rw [List.length_cons, List.length_cons, ih]

theorem Match.get {ds : List (DFA Nat)} {cs : List Regex} (h : Match ds cs) :
    ∀ j (hj : j < cs.length), Good (ds.getD j []) cs[j] := by
  induction h with
  | nil => intro j hj; cases hj
  | cons hg _ ih =>
    intro j hj
    cases j with
    | zero => exact hg
    | succ j => exact ih j (Nat.lt_of_succ_lt_succ hj)

/-- the contexts `cres` are realised by the automata numbered `k`, `k + 1`, .. of `ctxs` -/
def Realised (ctxs : List (DFA Nat)) (k : Nat) (cres : List Regex) : Prop :=
  k + cres.length ≤ ctxs.length ∧ ∀ j (hj : j < cres.length), Good (ctxs.getD (k + j) []) cres[j]

theorem getD_append_left' (l ds : List (DFA Nat)) (i : Nat) (h : i < l.length) :
    (l ++ ds).getD i [] = l.getD i [] := by
  rw [List.getD_eq_getElem?_getD, List.getD_eq_getElem?_getD, List.getElem?_append_left h]

theorem getD_append_right' (l ds : List (DFA Nat)) (j : Nat) :
    (l ++ ds).getD (l.length + j) [] = ds.getD j [] := by
  rw [List.getD_eq_getElem?_getD, List.getD_eq_getElem?_getD,
    List.getElem?_append_right (Nat.le_add_right _ _), Nat.add_sub_cancel_left]

theorem realised_append {ctxs : List (DFA Nat)} {k : Nat} {cres : List Regex} (h : Realised ctxs k cres)
    (ds : List (DFA Nat)) : Realised (ctxs ++ ds) k cres := by
  refine ⟨?_, fun j hj => ?_⟩
  · rw [List.length_append]
    exact Nat.le_trans h.1 (Nat.le_add_right _ _)
  · rw [getD_append_left' _ _ _ (by have := h.1; omega)]
    exact h.2 j hj

theorem realised_of_match (ctxs : List (DFA Nat)) {ds : List (DFA Nat)} {cres : List Regex} (h : Match ds cres) :
    Realised (ctxs ++ ds) ctxs.length cres := by
  refine ⟨?_, fun j hj => ?_⟩
  · rw [List.length_append, h.length_eq]
    exact Nat.le_refl _
  · rw [getD_append_right']
    exact h.get j hj

theorem newRightCtx_good {ctxs : List (DFA Nat)} {b : Bindings} {c : Regex} {ctxs' : List (DFA Nat)} {i : Nat}
    (h : newRightCtx ctxs b c = .ok (ctxs', i)) :
    ∃ c' d, inlineVars b (b.length + 1) c = .ok c' ∧ ctxs' = ctxs ++ [d] ∧ Good d c' := by
  unfold newRightCtx at h
  obtain ⟨re, hre, h⟩ := Thompson.bind_ok h
  obtain ⟨nfa, hn, h⟩ := Thompson.bind_ok h
  cases hd : nfaToDfa nfa with
  | none => rw [hd] at h; cases h
  | some d =>
    rw [hd] at h
    cases h
    exact ⟨re, d, hre, rfl, fun hp ht rest => ctxDfa_lang re hp ht nfa hn d hd rest⟩

theorem compileSingleRule_ctx {n0 n1 : NFA} {r : SingleRule} {b : Bindings} {ctxs c1 : List (DFA Nat)}
    (h : compileSingleRule n0 r b ctxs = .ok (n1, c1)) :
    (r.ctx = none ∧ c1 = ctxs) ∨
    (∃ c c' d, r.ctx = some c ∧ inlineVars b (b.length + 1) c = .ok c' ∧ c1 = ctxs ++ [d] ∧ Good d c') := by
  unfold compileSingleRule at h
  cases hc : r.ctx with
  | none =>
    simp only [hc] at h
    obtain ⟨⟨cx, ctx⟩, h0, h⟩ := Thompson.bind_ok h
    cases h0
    obtain ⟨re, hre, h⟩ := Thompson.bind_ok h
    obtain ⟨n1', hadd, h⟩ := Thompson.bind_ok h
    cases h
    exact Or.inl ⟨rfl, rfl⟩
  | some c =>
    simp only [hc] at h
    obtain ⟨⟨cx', i⟩, hn, h⟩ := Thompson.bind_ok h
    obtain ⟨⟨cx, ctx⟩, h0, h⟩ := Thompson.bind_ok h
    cases h0
    obtain ⟨re, hre, h⟩ := Thompson.bind_ok h
    obtain ⟨n1', hadd, h⟩ := Thompson.bind_ok h
    cases h
    obtain ⟨c', d, h1, h2, h3⟩ := newRightCtx_good hn
    exact Or.inr ⟨c, c', d, rfl, h1, h2, h3⟩

theorem fold_match (items : List RuleOrBinding) : ∀ (n0 : NFA) (b : Bindings) (ctxs : List (DFA Nat))
    (n : NFA) (b' : Bindings) (ctxs' : List (DFA Nat)),
    items.foldlM RuleSetLang.step (n0, b, ctxs) = .ok (n, b', ctxs') →
    ∃ cres ds, coreCtxs items b = some cres ∧ ctxs' = ctxs ++ ds ∧ Match ds cres := by
  induction items with
  | nil =>
    intro n0 b ctxs n b' ctxs' h
    rw [List.foldlM_nil] at h
    cases h
    exact ⟨[], [], rfl, (List.append_nil _).symm, Match.nil⟩
  | cons item rest ih =>
    intro n0 b ctxs n b' ctxs' h
    rw [List.foldlM_cons] at h
    obtain ⟨⟨n1, b1, c1⟩, h1, h2⟩ := Thompson.bind_ok h
    cases item with
    | binding name re =>
      simp only [RuleSetLang.step] at h1
      split at h1
      · cases h1
      · cases h1
        obtain ⟨cres, ds, hc, he, hm⟩ := ih _ _ _ _ _ _ h2
        exact ⟨cres, ds, by rw [coreCtxs]; exact hc, he, hm⟩
    | rule r =>
      simp only [RuleSetLang.step] at h1
      obtain ⟨⟨n1', c1'⟩, hc, h1⟩ := Thompson.bind_ok h1
      cases h1
      obtain ⟨cres, ds, hcore, he, hm⟩ := ih _ _ _ _ _ _ h2
      rcases compileSingleRule_ctx hc with ⟨hctx, hc1⟩ | ⟨c, c', d, hctx, hin, hc1, hg⟩
      · subst hc1
        refine ⟨cres, ds, ?_, he, hm⟩
        simp only [coreCtxs, hctx, hcore]
      · subst hc1
        refine ⟨c' :: cres, d :: ds, ?_, ?_, Match.cons hg hm⟩
        · simp only [coreCtxs, hctx, hin, hcore, Option.map_some]
        · rw [he, List.append_assoc]
          rfl

theorem compileRuleSet_match (items : List RuleOrBinding) (b : Bindings) (ctxs : List (DFA Nat)) (d : DFA Nat)
    (ctxs' : List (DFA Nat)) (h : compileRuleSet items b ctxs = .ok (d, ctxs')) :
    ∃ cres ds, coreCtxs items b = some cres ∧ ctxs' = ctxs ++ ds ∧ Match ds cres := by
  unfold compileRuleSet at h
  obtain ⟨⟨n, b', c'⟩, hf, h⟩ := Thompson.bind_ok h
  have hf' : items.foldlM RuleSetLang.step (NFA.new, b, ctxs) = .ok (n, b', c') := hf
  have := fold_match items _ _ _ _ _ _ hf'
  dsimp only at h
  cases hd : nfaToDfa n with
  | none => rw [hd] at h; cases h
  | some d' =>
    rw [hd] at h
    cases h
    exact this

/-! ## The fold of `lexer()` -/

theorem lexRS_ctxs (g : GlueState) (name : String) (rules : List RuleOrBinding) (p : GlueState × Nat)
    (h : lexRS g name rules = .ok p) :
    p.1.bindings = g.bindings ∧ ∃ d, compileRuleSet rules g.bindings g.ctxs = .ok (d, p.1.ctxs) := by
  unfold lexRS at h
  by_cases hn : name = "Init"
  · rw [if_pos hn] at h
    cases hc : compileRuleSet rules g.bindings g.ctxs with
    | error e => rw [hc] at h; cases h
    | ok q =>
      rw [hc] at h
      cases h
      exact ⟨rfl, q.1, rfl⟩
  · rw [if_neg hn] at h
    cases hd : g.initDfa with
    | none => rw [hd] at h; cases h
    | some d0 =>
      rw [hd] at h
      cases hc : compileRuleSet rules g.bindings g.ctxs with
      | error e => rw [hc] at h; cases h
      | ok q =>
        rw [hc] at h
        cases h
        exact ⟨rfl, q.1, rfl⟩

/-- every rule set of `L` has its right contexts realised in `ctxs` -/
def CInv (L : List Scoped) (ctxs : List (DFA Nat)) : Prop :=
  ∀ x ∈ L, ∃ cres, coreCtxs x.2.1 x.2.2.1 = some cres ∧ Realised ctxs x.2.2.2 cres

theorem cinv_append {L : List Scoped} {ctxs : List (DFA Nat)} (h : CInv L ctxs) (ds : List (DFA Nat)) :
    CInv L (ctxs ++ ds) := by
  intro x hx
  obtain ⟨cres, h1, h2⟩ := h x hx
  exact ⟨cres, h1, realised_append h2 ds⟩

theorem fold_cinv (items : LexerDef) : ∀ (L : List Scoped) (g g' : GlueState),
    items.foldlM lexStep g = .ok g' → CInv L g.ctxs →
    CInv (L ++ scopedRuleSets items g.bindings g.ctxs.length) g'.ctxs := by
  induction items with
  | nil =>
    intro L g g' h hinv
    rw [List.foldlM_nil] at h
    cases h
    rw [scopedRuleSets, List.append_nil]
    exact hinv
  | cons item rest ih =>
    intro L g g' h hinv
    rw [List.foldlM_cons] at h
    obtain ⟨g1, h1, h2⟩ := Thompson.bind_ok h
    cases item with
    | errorType =>
      rw [lexStep_errorType] at h1
      by_cases he : g.errorType = true
      · rw [if_pos he] at h1; cases h1
      · rw [if_neg he] at h1
        cases h1
        rw [scopedRuleSets]
        exact ih L { g with errorType := true } g' h2 hinv
    | rb x =>
      cases x with
      | binding n re =>
        rw [lexStep_binding] at h1
        by_cases hb : (g.bindings.find? n).isSome = true
        · rw [if_pos hb] at h1; cases h1
        · rw [if_neg hb] at h1
          cases h1
          rw [scopedRuleSets]
          exact ih L { g with bindings := g.bindings ++ [(n, re)] } g' h2 hinv
      | rule r =>
        rw [lexStep_rule] at h1
        cases hc : compileSingleRule g.unnamed r g.bindings g.ctxs with
        | error e => rw [hc] at h1; cases h1
        | ok p =>
          obtain ⟨n1, c1⟩ := p
          rw [hc] at h1
          cases h1
          rw [scopedRuleSets]
          have hinv1 : CInv L c1 := by
            rcases compileSingleRule_ctx hc with ⟨_, hc1⟩ | ⟨c, c', d, _, _, hc1, _⟩
            · rw [hc1]; exact hinv
            · rw [hc1]; exact cinv_append hinv _
          have := ih L { g with unnamed := n1, ctxs := c1 } g' h2 hinv1
          rw [show ({ g with unnamed := n1, ctxs := c1 } : GlueState).ctxs.length =
            g.ctxs.length + (if r.ctx.isSome = true then 1 else 0) from singleRule_ctxs hc] at this
          exact this
    | ruleSet name rs =>
      obtain ⟨p, hp, _, rfl⟩ := lexStep_ruleSet_ok g g1 name rs h1
      obtain ⟨hb1, dR, hc⟩ := lexRS_ctxs g name rs p hp
      obtain ⟨cres, ds, hcore, he, hm⟩ := compileRuleSet_match rs _ _ dR _ hc
      have hlen := compileRuleSet_ctxs rs _ _ dR _ hc
      have hinv1 : CInv (L ++ [(name, rs, g.bindings, g.ctxs.length)]) p.1.ctxs := by
        intro x hx
        rcases List.mem_append.mp hx with hx | hx
        · rw [he]
          exact cinv_append hinv ds x hx
        · rw [List.mem_singleton] at hx
          subst hx
          refine ⟨cres, hcore, ?_⟩
          rw [he]
          exact realised_of_match g.ctxs hm
      have := ih _ { p.1 with entries := p.1.entries ++ [(name, p.2)] } g' h2 hinv1
      rw [show ({ p.1 with entries := p.1.entries ++ [(name, p.2)] } : GlueState).bindings = g.bindings from hb1,
        show ({ p.1 with entries := p.1.entries ++ [(name, p.2)] } : GlueState).ctxs.length =
          g.ctxs.length + ctxCount rs from hlen, List.append_assoc] at this
      rw [scopedRuleSets]
      exact this

/-! ## A definition without rule sets: the top-level rules -/

theorem hasRuleSets_cons (item : TopItem) (rest : LexerDef) (h : hasRuleSets (item :: rest) = false) :
    (∀ name rs, item ≠ .ruleSet name rs) ∧ hasRuleSets rest = false := by
  unfold hasRuleSets at h ⊢
  rw [List.any_cons, Bool.or_eq_false_iff] at h
  refine ⟨?_, h.2⟩
  intro name rs he
  subst he
  exact absurd h.1 (by simp)

theorem fold_top (items : LexerDef) : hasRuleSets items = false → ∀ (g g' : GlueState),
    items.foldlM lexStep g = .ok g' →
    ∃ cres ds, coreCtxs (topRules items) g.bindings = some cres ∧ g'.ctxs = g.ctxs ++ ds ∧ Match ds cres := by
  induction items with
  | nil =>
    intro _ g g' h
    rw [List.foldlM_nil] at h
    cases h
    exact ⟨[], [], rfl, (List.append_nil _).symm, Match.nil⟩
  | cons item rest ih =>
    intro hno g g' h
    obtain ⟨hitem, hrest⟩ := hasRuleSets_cons item rest hno
    rw [List.foldlM_cons] at h
    obtain ⟨g1, h1, h2⟩ := Thompson.bind_ok h
    cases item with
    | errorType =>
      rw [lexStep_errorType] at h1
      by_cases he : g.errorType = true
      · rw [if_pos he] at h1; cases h1
      · rw [if_neg he] at h1
        cases h1
        exact ih hrest { g with errorType := true } g' h2
    | rb x =>
      cases x with
      | binding n re =>
        rw [lexStep_binding] at h1
        by_cases hb : (g.bindings.find? n).isSome = true
        · rw [if_pos hb] at h1; cases h1
        · rw [if_neg hb] at h1
          cases h1
          obtain ⟨cres, ds, hc, he, hm⟩ := ih hrest { g with bindings := g.bindings ++ [(n, re)] } g' h2
          refine ⟨cres, ds, ?_, he, hm⟩
          show coreCtxs (.binding n re :: topRules rest) g.bindings = some cres
          rw [coreCtxs]
          exact hc
      | rule r =>
        rw [lexStep_rule] at h1
        cases hc : compileSingleRule g.unnamed r g.bindings g.ctxs with
        | error e => rw [hc] at h1; cases h1
        | ok p =>
          obtain ⟨n1, c1⟩ := p
          rw [hc] at h1
          cases h1
          obtain ⟨cres, ds, hcore, he, hm⟩ := ih hrest { g with unnamed := n1, ctxs := c1 } g' h2
          have hcore' : coreCtxs (topRules rest) g.bindings = some cres := hcore
          have he' : g'.ctxs = c1 ++ ds := he
          show ∃ cres ds, coreCtxs (.rule r :: topRules rest) g.bindings = some cres ∧ _
          rcases compileSingleRule_ctx hc with ⟨hctx, hc1⟩ | ⟨c, c', d, hctx, hin, hc1, hg⟩
          · subst hc1
            refine ⟨cres, ds, ?_, he', hm⟩
            simp only [coreCtxs, hctx, hcore']
          · subst hc1
            refine ⟨c' :: cres, d :: ds, ?_, ?_, Match.cons hg hm⟩
            · simp only [coreCtxs, hctx, hin, hcore', Option.map_some]
            · rw [he', List.append_assoc]
              rfl
    | ruleSet name rs => exact absurd rfl (hitem name rs)

theorem lexPost_ctxs (g : GlueState) (c : Compiled) (h : lexPost g = .ok c) : c.ctxs = g.ctxs := by
  have post : ∀ dfa : DFA Nat,
      (match updateBacktracks dfa with
        | some d => (pure d : Except CompileError (DFA Nat)) >>= fun full =>
          simplify full g.entries >>= fun x =>
            (pure { full := full, entries0 := g.entries, dfa := x.1, entries := x.2, ctxs := g.ctxs } :
              Except CompileError Compiled)
        | none => (throw (CompileError.internal "update_backtracks") : Except CompileError (DFA Nat)) >>= fun full =>
          simplify full g.entries >>= fun x =>
            (pure { full := full, entries0 := g.entries, dfa := x.1, entries := x.2, ctxs := g.ctxs } :
              Except CompileError Compiled)) = .ok c → c.ctxs = g.ctxs := by
    intro dfa h
    cases hu : updateBacktracks dfa with
    | none => rw [hu] at h; cases h
    | some full =>
      rw [hu] at h
      obtain ⟨full', _, h⟩ := Thompson.bind_ok h
      obtain ⟨x, _, h⟩ := Thompson.bind_ok h
      cases h
      rfl
  unfold lexPost at h
  cases hi : g.initDfa with
  | some d =>
    simp only [hi, pure_bind] at h
    exact post d h
  | none =>
    simp only [hi] at h
    cases hu : nfaToDfa g.unnamed with
    | some d =>
      simp only [hu, pure_bind] at h
      exact post d h
    | none =>
      simp only [hu] at h
      cases h

end CtxLangP

open CtxLangP CompileLang Static in
/-- every right context of every rule set of a definition the model compiles is realised by the right-context automaton with the
number the macro assigns to it -/
theorem compileLexer_ctxs (items : LexerDef) (c : Compiled) (h : compileLexer items = .ok c)
    (name : String) (rs : List RuleOrBinding) (b : Bindings) (k : Nat)
    (hmem : (name, rs, b, k) ∈ allRuleSets items) :
    ∃ cres, coreCtxs rs b = some cres ∧ k + cres.length ≤ c.ctxs.length ∧
      ∀ j (hj : j < cres.length), regexPiecesOK cres[j] → tailEoi cres[j] →
        ∀ rest, ctxRun (c.ctxs.getD (k + j) []) 0 rest = true ↔ CtxLang cres[j] rest := by
  rw [compileLexer_eq] at h
  by_cases hm : mixedRules items = true
  · rw [if_pos hm] at h; cases h
  · rw [if_neg hm] at h
    obtain ⟨g, hfold, hpost⟩ := Thompson.bind_ok h
    rw [lexPost_ctxs g c hpost]
    unfold allRuleSets at hmem
    by_cases hrs : hasRuleSets items = true
    · rw [if_pos hrs] at hmem
      have hinv := fold_cinv items [] {} g hfold (fun x hx => by cases hx)
      rw [List.nil_append] at hinv
      obtain ⟨cres, h1, h2, h3⟩ := hinv _ hmem
      exact ⟨cres, h1, h2, h3⟩
    · rw [if_neg hrs] at hmem
      rw [List.mem_singleton] at hmem
      cases hmem
      obtain ⟨cres, ds, h1, h2, h3⟩ := fold_top items (by simpa using hrs) {} g hfold
      have h2' : g.ctxs = [] ++ ds := h2
      have := realised_of_match [] h3
      rw [← h2'] at this
      exact ⟨cres, h1, this.1, this.2⟩

end Lexgen
