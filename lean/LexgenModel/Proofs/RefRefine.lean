import LexgenModel.Spec.RefLexer
import LexgenModel.Proofs.EndToEnd
import LexgenModel.Proofs.NextMore
/-!
# The model of the generated `next()` refines the reference lexer of the definition

* `selects_unique` — maximal munch with first-rule priority is a function;
* `entry_ruleSet` — every entry state of the compiled machine (`IsEntry`) is the entry of a rule set of the
  definition, and from it the matches of the machine are the language-level matches of that rule set;
* `next_refines_ref` — every call of `next()` from a `Ready` state is a step of `RefNext`.
-/
namespace Lexgen
variable {σ τ ε : Type}

/-- the maximal match of a definition on an input is unique: maximal munch with first-rule priority is a function -/
theorem selects_unique (rules : List CoreRule) (ctxAt : Nat → Regex) (iter : List Nat) (n a n' a' : Nat) (e e' : Bool)
    (h : Selects rules ctxAt iter n a e) (h' : Selects rules ctxAt iter n' a' e') : n = n' ∧ a = a' ∧ e = e' := by
  obtain ⟨hc, hmax⟩ := h
  obtain ⟨hc', hmax'⟩ := h'
  have h1 := hmax n' a' e' hc'
  have h2 := hmax' n a e hc
  have hn : n = n' := by
    rcases h1 with h1 | ⟨h1, _⟩ <;> rcases h2 with h2 | ⟨h2, _⟩ <;> omega
  subst hn
  have he : e = e' := by
    rcases h1 with h1 | ⟨_, h1⟩
    · omega
    · rcases h2 with h2 | ⟨_, h2⟩
      · omega
      · cases e <;> cases e' <;> simp_all
  subst he
  refine ⟨rfl, ?_, rfl⟩
  unfold LangCand at hc hc'
  cases e with
  | true =>
    simp only [if_true] at hc hc'
    exact Option.some.inj (hc.2.2.symm.trans hc'.2.2)
  | false =>
    simp only [Bool.false_eq_true, if_false] at hc hc'
    exact Option.some.inj (hc.2.symm.trans hc'.2)

namespace RefRefine

/-! ## Entries of the compiled machine come from rule sets -/

open MachineOKCompile CompileLang Static in
/-- definitions with rule sets: `Init` is entry 0 and every entry realises the rules of a rule set of its name -/
theorem entries_named (items : LexerDef) (c : Compiled) (h : compileLexer items = .ok c)
    (hrs : hasRuleSets items = true) :
    ("Init", 0) ∈ c.entries ∧
    ∀ name e, (name, e) ∈ c.entries →
      ∃ rs b k rules, (name, rs, b, k) ∈ allRuleSets items ∧ e < c.dfa.length ∧ coreRules rs b k = some rules ∧
        ((∀ r ∈ rules, regexPiecesOK r.re) → RealisesRules c.dfa e rules) := by
  have HB : BlockHyp := fun rules nfa d hn hd ht hp => blockOK_of_rules rules nfa hn d hd ht hp
  have hall : allRuleSets items = scopedRuleSets items [] 0 := allRuleSets_named hrs
  rw [compileLexer_eq] at h
  by_cases hm : mixedRules items = true
  · rw [if_pos hm] at h; cases h
  · rw [if_neg hm] at h
    obtain ⟨g, hfold, hpost⟩ := Thompson.bind_ok h
    have hinv0 : MInv [] ({} : GlueState) :=
      ⟨⟨fun full hf => (by cases hf), fun full hf => (by cases hf), fun x hx => (by cases hx)⟩,
        fun p hp => (by cases hp), fun full hf => (by cases hf), fun _ full hf => (by cases hf)⟩
    have hinv := fold_minv HB items [] {} g hfold hinv0
    rw [List.nil_append] at hinv
    have hbind : ({} : GlueState).bindings = [] := rfl
    have hctx : ({} : GlueState).ctxs.length = 0 := rfl
    rw [hbind, hctx, ← hall] at hinv
    obtain ⟨x0, hx0⟩ := scoped_nonempty items [] 0 hrs
    rw [← hall] at hx0
    obtain ⟨full0, hd, _⟩ := hinv.ginv.ok x0 hx0
    have hT0 := hinv.ginv.tir full0 hd
    obtain ⟨full, simp, entries, hu, h3, rfl⟩ := lexPost_ok g c hpost full0 hd
    obtain ⟨hA, hlen⟩ := updateBacktracks_agree full0 full hT0 hu
    have hT := targets_agree hT0 hA hlen
    obtain ⟨hent, _, _⟩ := simplify_spec full g.entries simp entries h3 hT
    constructor
    · show ("Init", 0) ∈ entries
      rw [hent]
      refine List.mem_map.mpr ⟨("Init", 0), hinv.init0 full0 hd, ?_⟩
      show ("Init", newIdx full 0) = ("Init", 0)
      rw [newIdx_zero]
    · intro name e hmem
      have hmem' : (name, e) ∈ entries := hmem
      rw [hent] at hmem'
      obtain ⟨p0, hp0, hpe⟩ := List.mem_map.mp hmem'
      obtain ⟨full0', hd', x, hx, hex⟩ := hinv.src p0 hp0
      rw [hd] at hd'
      cases hd'
      obtain ⟨hname, hi, rules, hcore, hreal⟩ := eok_mono hex hT0 hA
      obtain ⟨xn, xrs, xb, xk⟩ := x
      simp only [Prod.mk.injEq] at hpe
      obtain ⟨hpn, hpi⟩ := hpe
      have hname' : xn = name := (show xn = p0.1 from hname).trans hpn
      subst hname'
      subst hpi
      refine ⟨xrs, xb, xk, rules, hx, ?_, hcore, fun hre => ?_⟩
      · exact newIdx_entry_lt full g.entries simp entries h3 hT p0.2 hi
      · exact realises_simplify full g.entries simp entries h3 hT p0.2 hi rules (hreal hre)

/-- the proof of `compile_cand_iff`, for a given entry that realises the rules of a rule set -/
theorem cand_iff_of_realises (items : LexerDef) (c : Compiled) (h : compileLexer items = .ok c) (hok : DefOK items)
    (ctxAt : Nat → Regex) (hnum : CtxNumbering items ctxAt)
    (name : String) (rs : List RuleOrBinding) (b : Bindings) (k : Nat) (hmem : (name, rs, b, k) ∈ allRuleSets items)
    (actions : Nat → Action σ τ ε) (width : Nat → Nat) (input : Option (List Nat))
    (e : Nat) (rules : List CoreRule) (hcore : coreRules rs b k = some rules)
    (hreal : (∀ r ∈ rules, regexPiecesOK r.re) → RealisesRules c.dfa e rules) :
    ∀ iter n a viaEoi,
      Cand (c.config actions width input) e iter n a viaEoi ↔ LangCand rules ctxAt iter n a viaEoi := by
  have hrules := hok.rules name rs b k hmem rules hcore
  have hR := hreal (fun r hr => (hrules r hr).pieces)
  obtain ⟨cres, hcres, hlen, hctxs⟩ := compileLexer_ctxs items c h name rs b k hmem
  have hcok := hok.ctxs name rs b k hmem cres hcres
  have hm := compileLexer_machineOK items c h hok actions width input
  intro iter n a viaEoi
  apply cand_iff_langCand (c.config actions width input) e rules ctxAt hR ?_ hm.eoiAccept
  intro r hr i hi rest
  obtain ⟨h1, h2⟩ := coreRules_ctx_range rs b k rules cres hcore hcres r hr i hi
  have hj : i - k < cres.length := by omega
  have hik : k + (i - k) = i := by omega
  have hc := hcok cres[i - k] (List.getElem_mem hj)
  have := hctxs (i - k) hj hc.pieces hc.tail rest
  rw [hik] at this
  have hnum' := hnum name rs b k hmem cres hcres (i - k) hj
  rw [hik] at hnum'
  rw [hnum']
  exact this

/-- Every entry state of the compiled machine is the entry of a rule set of the definition; from it the
matches of the machine are exactly the language-level matches of that rule set. -/
theorem entry_ruleSet (items : LexerDef) (c : Compiled) (h : compileLexer items = .ok c) (hok : DefOK items)
    (ctxAt : Nat → Regex) (hnum : CtxNumbering items ctxAt)
    (actions : Nat → Action σ τ ε) (width : Nat → Nat) (input : Option (List Nat))
    (e : Nat) (he : IsEntry (c.config actions width input) e) :
    ∃ name rs b k rules, (name, rs, b, k) ∈ allRuleSets items ∧ IsEntryOf items c name e ∧
      coreRules rs b k = some rules ∧
      ∀ iter n a viaEoi,
        Cand (c.config actions width input) e iter n a viaEoi ↔ LangCand rules ctxAt iter n a viaEoi := by
  cases hrs : hasRuleSets items with
  | true =>
    obtain ⟨hinit, hall⟩ := entries_named items c h hrs
    have hmemE : ∃ name, (name, e) ∈ c.entries := by
      rcases he with rfl | ⟨name, hn⟩
      · exact ⟨"Init", hinit⟩
      · exact ⟨name, hn⟩
    obtain ⟨name, hne⟩ := hmemE
    obtain ⟨rs, b, k, rules, hmem, _, hcore, hreal⟩ := hall name e hne
    refine ⟨name, rs, b, k, rules, hmem, ?_, hcore,
      cand_iff_of_realises items c h hok ctxAt hnum name rs b k hmem actions width input e rules hcore hreal⟩
    unfold IsEntryOf
    rw [if_pos hrs]
    exact hne
  | false =>
    have hent : c.entries = [] := (compileLexer_unnamed_core items c h hrs).2.1
    have he0 : e = 0 := by
      rcases he with rfl | ⟨name, hn⟩
      · rfl
      · have hn' : (name, e) ∈ c.entries := hn
        rw [hent] at hn'
        cases hn'
    subst he0
    have hmem : ("", topRules items, ([] : Bindings), 0) ∈ allRuleSets items := by
      rw [allRuleSets_unnamed hrs]
      exact List.mem_singleton.mpr rfl
    obtain ⟨e', rules, hent', _, hcore, hiff⟩ :=
      compile_cand_iff items c h hok ctxAt hnum "" (topRules items) [] 0 hmem actions width input
    have he' : e' = 0 := by
      unfold IsEntryOf at hent'
      rw [if_neg (by rw [hrs]; exact Bool.false_ne_true)] at hent'
      exact hent'
    subst he'
    exact ⟨"", topRules items, [], 0, rules, hmem, hent', hcore, hiff⟩

/-! ## `.fin` and `.err` outcomes of the plain scan -/

/-- `return None` happens only in state 0 on an exhausted iterator, with no end-of-input match, and does
not touch the user state -/
theorem scanPlain_fin_inv (cfg : Config σ τ ε) (hm : MachineOK cfg) (ns : Nat → Option Nat)
    (hns : DispatchOK cfg.dfa cfg.inl ns) (st' : LState σ) :
    ∀ (iter : List Nat) (s : Nat) (st : LState σ), scanPlain cfg ns s iter st = .fin st' →
      iter = [] ∧ s = 0 ∧ st'.user = st.user ∧
      ∀ accs a, (cfg.dfa.st s).eoi = some (.accept accs) → firstOK (fun i => ctxOK cfg i []) accs ≠ some a := by
  intro iter
  induction iter with
  | nil =>
    intro s st h
    rw [scanPlain_nil] at h
    have hu : (endSt cfg s st).user = st.user :=
      (setAccepting_fields cfg (cfg.dfa.st s) { st with iter := [] }).2.2.2.1
    have hit := (NextMore.endSt_iter_done cfg s st).1
    have hdflt : (if s = 0 then Outcome.fin (endSt cfg s st) else failPlain (endSt cfg s st)) = .fin st' →
        s = 0 ∧ st'.user = st.user := by
      intro hd
      by_cases hs : s = 0
      · have := NextMore.dflt_fin _ _ _ hd
        rw [this]
        exact ⟨hs, hu⟩
      · simp only [hs, if_false] at hd
        exact absurd hd (NextMore.failPlain_ne_fin _ _)
    cases heoi : (cfg.dfa.st s).eoi with
    | none =>
      simp only [heoi] at h
      obtain ⟨hs, hu'⟩ := hdflt h
      exact ⟨rfl, hs, hu', fun accs a he => by cases he⟩
    | some tr =>
      cases tr with
      | goto t => simp [heoi] at h
      | accept accs =>
        simp only [heoi] at h
        obtain ⟨hs, hu'⟩ := hdflt (NextMore.testRightCtxs_fin cfg accs _ _ st' h)
        refine ⟨rfl, hs, hu', ?_⟩
        intro accs' a he hf
        simp only [Option.some.injEq, Trans.accept.injEq] at he
        subst he
        unfold testRightCtxs at h
        rw [hit, hf] at h
        simp [rhsCode] at h
  | cons c rest ih =>
    intro s st h
    exfalso
    rw [scanPlain_cons] at h
    cases hlt : lookupTrans (cfg.dfa.st s) c with
    | none =>
      simp only [hlt] at h
      exact absurd h (NextMore.failPlain_ne_fin _ _)
    | some tr =>
      cases tr with
      | accept accs =>
        simp only [hlt] at h
        exact absurd (NextMore.testRightCtxs_fin cfg accs _ _ st' h) (NextMore.failPlain_ne_fin _ _)
      | goto t =>
        simp only [hlt] at h
        obtain ⟨n2, hg⟩ := gotoK_eq cfg ns hm.targets hns s c t hlt rest (stepSt cfg s c rest st)
        rw [hg] at h
        exact (NextProtocol.goto_target cfg hm s c t hlt).2 (ih t _ h).2.1

/-- in state 0 on an exhausted iterator the scan does not report an error (it returns `None`) -/
theorem scanPlain_zero_nil_ne_err (cfg : Config σ τ ε) (ns : Nat → Option Nat) (st : LState σ) (loc : Loc)
    (st' : LState σ) : scanPlain cfg ns 0 [] st ≠ .err loc st' := by
  intro h
  rw [scanPlain_nil] at h
  cases heoi : (cfg.dfa.st 0).eoi with
  | none => simp [heoi] at h
  | some tr =>
    cases tr with
    | goto t => simp [heoi] at h
    | accept accs =>
      simp only [heoi] at h
      have := NextMore.testRightCtxs_err cfg accs _ _ loc st' h
      simp at this

/-- the number 0 names state 0 only -/
theorem entry_of_state_zero (cfg : Config σ τ ε) (hm : MachineOK cfg) (e : Nat) (he : IsEntry cfg e)
    (h : renumber cfg.inl e = 0) : e = 0 := by
  have h1 := NextProtocol.dispatch_entry cfg hm e he
  have h2 := NextProtocol.dispatch_entry cfg hm 0 (Or.inl rfl)
  rw [NextProtocol.renumber_zero] at h2
  rw [h, h2] at h1
  exact (Option.some.inj h1).symm

/-! ## The loop -/

/-- The loop of `next()`, for any configuration on the compiled machine whose entries are entries of rule
sets of the definition with the language-level reading of their matches. -/
theorem nextLoop_refines (items : LexerDef) (c : Compiled) (ctxAt : Nat → Regex) (cfg : Config σ τ ε)
    (hm : MachineOK cfg)
    (HE : ∀ e, IsEntry cfg e →
      ∃ name rs b k rules, (name, rs, b, k) ∈ allRuleSets items ∧ IsEntryOf items c name e ∧
        coreRules rs b k = some rules ∧
        ∀ iter n a viaEoi, Cand cfg e iter n a viaEoi ↔ LangCand rules ctxAt iter n a viaEoi) :
    ∀ (fuel : Nat) (st : LState σ), Ready cfg st →
      ∀ r, nextLoop cfg fuel st = some r → RefNext items c ctxAt cfg st r := by
  intro fuel
  induction fuel with
  | zero =>
    intro st _ r h
    rw [nextLoop] at h
    cases h
  | succ f ih =>
    intro st hr r h
    rw [nextLoop] at h
    by_cases hd : st.done = true
    · rw [if_pos hd] at h
      cases h
      exact RefNext.done st hd
    · rw [if_neg hd] at h
      have hd' : st.done = false := by simpa using hd
      obtain ⟨hl, hsi, e0, he0, hst0⟩ := hr
      have hr : Ready cfg st := ⟨hl, hsi, e0, he0, hst0⟩
      have hdisp : dispatch (stateArms cfg.dfa cfg.inl) st.state = some e0 := by
        rw [hst0]
        exact NextProtocol.dispatch_entry cfg hm e0 he0
      simp only [hdisp] at h
      obtain ⟨name, rs, b, k, rules, hmem, hent, hcore, hiff⟩ := HE e0 he0
      have hact : ActiveIn items c cfg.inl st name := ⟨hl, hsi, e0, hent, hst0⟩
      have hns := dispatchOK_of_machineOK cfg hm
      have heq := scan_eq_scanPlain cfg _ hm.flags hm.acceptAny hm.targets hns e0 st.iter st
        (by intro h; rw [hl] at h; cases h)
      have hround := NextProtocol.round_ok cfg hm st hr e0 he0
      have hnoL : (∀ n a v, ¬ Cand cfg e0 st.iter n a v) → ∀ n a v, ¬ LangCand rules ctxAt st.iter n a v :=
        fun hno n a v hL => hno n a v ((hiff st.iter n a v).mpr hL)
      cases ho : scan cfg (dispatch (stateArms cfg.dfa cfg.inl)) e0 st.iter st with
      | act a st1 =>
        have hx : execState cfg (dispatch (stateArms cfg.dfa cfg.inl)) e0 st.iter st = callAction cfg a st1 := by
          unfold execState
          rw [ho]
          rfl
        rw [hx] at h hround
        rw [heq] at ho
        obtain ⟨n, ve, hc, hmax, s', hst1⟩ := scanPlain_act cfg _ hm.targets hns e0 st hl hd' a st1 ho
        have hsel : Selects rules ctxAt st.iter n a ve :=
          ⟨(hiff st.iter n a ve).mp hc, fun n' a' e' hL => hmax n' a' e' ((hiff st.iter n' a' e').mpr hL)⟩
        have hst1' : st1 = matchState cfg.width st n ve s' := hst1
        cases hca : callAction cfg a st1 with
        | ret item st' =>
          rw [hca] at h
          simp only [Option.some.injEq] at h
          subst h
          exact RefNext.ret st name rs b k rules n a ve s' item st' hd' hmem hcore hact hsel
            (by rw [← hst1']; exact hca)
        | cont st2 =>
          rw [hca] at h hround
          have hc2 : NextProtocol.ContOK cfg st st2 := hround
          exact RefNext.cont st name rs b k rules n a ve s' st2 r hd' hmem hcore hact hsel
            (by rw [← hst1']; exact hca) (ih st2 hc2.ready r h)
      | err loc st1 =>
        have hx : execState cfg (dispatch (stateArms cfg.dfa cfg.inl)) e0 st.iter st = .ret (some (.invalid loc)) st1 := by
          unfold execState
          rw [ho]
          rfl
        rw [hx] at h
        simp only [Option.some.injEq] at h
        subst h
        rw [heq] at ho
        obtain ⟨hno, hloc, hs0, hi0, hspan, hlast, huser⟩ := scanPlain_err cfg _ hm.targets hns e0 st hl loc st1 ho
        obtain ⟨hiter, hdone⟩ := scanPlain_err_pos cfg _ hm.targets hns e0 st hl hd' loc st1 ho
        subst hloc
        refine RefNext.invalid st name rs b k rules st1 hd' hmem hcore hact (hnoL hno) ?_
          ⟨⟨hs0, hi0⟩, hspan, hlast, huser, ⟨_, hiter, Or.inl (Nat.succ_pos _)⟩, ?_⟩
        · rintro ⟨hnil, hz⟩
          rw [hz] at hst0
          have he00 := entry_of_state_zero cfg hm e0 he0 hst0.symm
          rw [hnil, he00] at ho
          exact scanPlain_zero_nil_ne_err cfg _ st _ st1 ho
        · intro hdn
          rw [hdone] at hdn
          have hg : gotoLen cfg.dfa e0 st.iter = st.iter.length := by simpa using hdn
          rw [hiter]
          exact List.drop_eq_nil_of_le (by omega)
      | fin st1 =>
        have hx : execState cfg (dispatch (stateArms cfg.dfa cfg.inl)) e0 st.iter st = .ret none st1 := by
          unfold execState
          rw [ho]
          rfl
        rw [hx] at h
        simp only [Option.some.injEq] at h
        subst h
        rw [heq] at ho
        obtain ⟨hnil, hz, huser, hnoeoi⟩ := scanPlain_fin_inv cfg hm _ hns st1 st.iter e0 st ho
        have hdone1 := NextMore.scanPlain_fin_done cfg _ hm.targets hns st1 st.iter e0 st ho
        subst hz
        have hstate0 : st.state = 0 := by rw [hst0, NextProtocol.renumber_zero]
        refine RefNext.eof st name rs b k rules st1 hd' hmem hcore hact (hnoL ?_) hnil hstate0 hdone1 huser
        intro n a v hc
        rw [hnil] at hc
        have hn0 := cand_nil_inv cfg 0 n a v hc
        subst hn0
        cases v with
        | false =>
          have := cand_zero_inv cfg 0 [] a hc
          rw [hm.state0.2.2] at this
          simp [firstOK] at this
        | true =>
          obtain ⟨_, accs, he, hf⟩ := cand_zero_eoi_inv cfg 0 [] a hc
          exact hnoeoi accs a he hf
      | goto st1 =>
        have hok := NextProtocol.scan_entry_ok cfg hm st hl e0 he0
        rw [ho] at hok
        exact absurd hok (fun h => h)

end RefRefine

/-- **Refinement.** For every well-formed definition the model compiles, every call of the model of the generated `next()` (generated state code, backtrack elision, saved matches, state numbering,
`lexgen_util::Lexer`) from a lexer state at a lexeme start is a step of the REFERENCE lexer of the definition (`RefNext`: language-level maximal munch + the semantic-action protocol). -/
theorem next_refines_ref (items : LexerDef) (c : Compiled) (h : compileLexer items = .ok c) (hok : DefOK items)
    (ctxAt : Nat → Regex) (hnum : CtxNumbering items ctxAt)
    (actions : Nat → Action σ τ ε) (width : Nat → Nat) (input : Option (List Nat))
    (st : LState σ) (hr : Ready (c.config actions width input) st)
    (r : Option (Item τ ε) × LState σ) (hn : next (c.config actions width input) st = some r) :
    RefNext items c ctxAt (c.config actions width input) st r := by
  have hm := compileLexer_machineOK items c h hok actions width input
  unfold next at hn
  exact RefRefine.nextLoop_refines items c ctxAt (c.config actions width input) hm
    (fun e he => RefRefine.entry_ruleSet items c h hok ctxAt hnum actions width input e he)
    _ st hr r hn

end Lexgen
