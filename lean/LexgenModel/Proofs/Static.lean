import LexgenModel.Spec.Compile
/-!
# Static checks of the macro: ill-formed definitions are rejected

Every theorem states `Rejected (compileLexer ...)` (or of a sub-stage) for a class of ill-formed
inputs. The folds of `compileLexer` / `compileRuleSet` are analysed with
`Static.foldlM_append_cases` and invariants of their step functions (`Static.lexStep`,
`Static.rsStep`, definitionally the lambdas of the model).
-/
namespace Lexgen
namespace Static

theorem rejected_error {α : Type} (e : CompileError) : Rejected (Except.error e : Except CompileError α) := ⟨e, rfl⟩

theorem rejected_bind_left {α β : Type} {x : Except CompileError α} (f : α → Except CompileError β)
    (h : Rejected x) : Rejected (x >>= f) := by
  rcases h with ⟨e, rfl⟩
  exact ⟨e, rfl⟩

theorem rejected_bind {α β : Type} {x : Except CompileError α} {f : α → Except CompileError β}
    (h : ∀ v, x = .ok v → Rejected (f v)) : Rejected (x >>= f) := by
  cases x with
  | error e => exact ⟨e, rfl⟩
  | ok v => exact h v rfl

theorem foldlM_append_cases {σ α ε : Type} (f : σ → α → Except ε σ) (init : σ) (pre : List α) (x : α) (post : List α) :
    (∃ e, pre.foldlM f init = .error e ∧ (pre ++ x :: post).foldlM f init = .error e) ∨
    (∃ g, pre.foldlM f init = .ok g ∧ (pre ++ x :: post).foldlM f init = (f g x >>= fun g' => post.foldlM f g')) := by
  rw [List.foldlM_append]
  cases h : pre.foldlM f init with
  | error e => exact .inl ⟨e, rfl, rfl⟩
  | ok g => exact .inr ⟨g, rfl, by simp [List.foldlM_cons]; rfl⟩

def lexStep (g : GlueState) (item : TopItem) : Except CompileError GlueState := do
      match item with
      | .errorType =>
        if g.errorType then throw .dupErrorType else pure { g with errorType := true }
      | .rb (.binding name re) =>
        if (g.bindings.find? name).isSome then throw (.dupVar name)
        else pure { g with bindings := g.bindings ++ [(name, re)] }
      | .rb (.rule r) => do
        let (nfa, ctxs) ← compileSingleRule g.unnamed r g.bindings g.ctxs
        pure { g with unnamed := nfa, ctxs := ctxs }
      | .ruleSet name rules => do
        let (g, idx) ←
          if name = "Init" then do
            let (d, ctxs) ← compileRuleSet rules g.bindings g.ctxs
            pure ({ g with initDfa := some d, ctxs := ctxs }, 0)
          else
            match g.initDfa with
            | none => throw .firstNotInit
            | some d0 => do
              let (d, ctxs) ← compileRuleSet rules g.bindings g.ctxs
              let (d', idx) := addDfa d0 d
              pure ({ g with initDfa := some d', ctxs := ctxs }, idx)
        if (g.entries.find? (·.1 = name)).isSome then throw (.dupRuleSet name)
        else pure { g with entries := g.entries ++ [(name, idx)] }

def lexPost (g : GlueState) : Except CompileError Compiled := do
  let dfa ← match g.initDfa with
    | some d => pure d
    | none => match nfaToDfa g.unnamed with
      | some d => pure d
      | none => throw (.internal "nfa_to_dfa")
  let full ← match updateBacktracks dfa with
    | some d => pure d
    | none => throw (.internal "update_backtracks")
  let (simp, entries) ← simplify full g.entries
  pure { full := full, entries0 := g.entries, dfa := simp, entries := entries, ctxs := g.ctxs }

theorem compileLexer_eq (items : LexerDef) :
    compileLexer items = if mixedRules items = true then .error .mixedRules else (items.foldlM lexStep {} >>= lexPost) := by
  unfold compileLexer
  by_cases hm : mixedRules items = true
  · rw [if_pos hm, if_pos hm]; rfl
  · rw [if_neg hm, if_neg hm]; rfl

theorem compileLexer_rejected_of_fold (items : LexerDef) (h : Rejected (items.foldlM lexStep {})) :
    Rejected (compileLexer items) := by
  rw [compileLexer_eq]
  by_cases hm : mixedRules items = true
  · rw [if_pos hm]; exact ⟨_, rfl⟩
  · rw [if_neg hm]; exact rejected_bind_left _ h


/-! ### generic fold lemmas -/

theorem foldlM_inv {σ α ε : Type} (f : σ → α → Except ε σ) (P : σ → Prop) (l : List α)
    (hpres : ∀ g a g', a ∈ l → P g → f g a = .ok g' → P g') :
    ∀ init, P init → ∀ g, l.foldlM f init = .ok g → P g := by
  induction l with
  | nil =>
    intro init hi g hg
    simp only [List.foldlM_nil, pure, Except.pure] at hg
    cases hg; exact hi
  | cons a l ih =>
    intro init hi g hg
    rw [List.foldlM_cons] at hg
    cases h : f init a with
    | error e => rw [h] at hg; cases hg
    | ok g1 =>
      rw [h] at hg
      exact ih (fun g a g' ha => hpres g a g' (List.mem_cons_of_mem _ ha)) g1
        (hpres init a g1 (List.mem_cons_self ..) hi h) g hg

theorem fold_inv_rej {σ α : Type} (f : σ → α → Except CompileError σ) (P : σ → Prop) (init : σ)
    (pre : List α) (x : α) (post : List α) (hinit : P init)
    (hpres : ∀ g a g', a ∈ pre → P g → f g a = .ok g' → P g')
    (hrej : ∀ g, P g → Rejected (f g x)) : Rejected ((pre ++ x :: post).foldlM f init) := by
  rcases foldlM_append_cases f init pre x post with ⟨e, _, h⟩ | ⟨g, hg, h⟩
  · exact ⟨e, h⟩
  · rw [h]
    exact rejected_bind_left _ (hrej g (foldlM_inv f P pre hpres init hinit g hg))

theorem fold_dup {σ α : Type} (f : σ → α → Except CompileError σ) (P : σ → Prop) (init : σ)
    (pre mid post : List α) (x1 x2 : α)
    (hset : ∀ g g', f g x1 = .ok g' → P g')
    (hpres : ∀ g a g', P g → f g a = .ok g' → P g')
    (hrej : ∀ g, P g → Rejected (f g x2)) :
    Rejected ((pre ++ [x1] ++ mid ++ [x2] ++ post).foldlM f init) := by
  have e : pre ++ [x1] ++ mid ++ [x2] ++ post = pre ++ x1 :: (mid ++ x2 :: post) := by simp
  rw [e]
  rcases foldlM_append_cases f init pre x1 (mid ++ x2 :: post) with ⟨e, _, h⟩ | ⟨g, _, h⟩
  · exact ⟨e, h⟩
  · rw [h]
    apply rejected_bind
    intro g1 hg1
    exact fold_inv_rej f P g1 mid x2 post (hset g g1 hg1) (fun g a g' _ => hpres g a g') hrej


/-! ### bindings -/

theorem find?_append_isSome (b : Bindings) (m : String) (r : Regex) (n : String)
    (h : (Bindings.find? b n).isSome = true) : (Bindings.find? (b ++ [(m, r)]) n).isSome = true := by
  induction b with
  | nil => simp [Bindings.find?] at h
  | cons p b ih =>
    rcases p with ⟨k, v⟩
    simp only [List.cons_append, Bindings.find?] at h ⊢
    by_cases hk : k = n
    · simp only [hk, if_true, Option.isSome_some]
    · simp only [hk, if_false] at h ⊢
      exact ih h

theorem find?_append_self (b : Bindings) (n : String) (r : Regex) :
    (Bindings.find? (b ++ [(n, r)]) n).isSome = true := by
  induction b with
  | nil => simp [Bindings.find?]
  | cons p b ih =>
    rcases p with ⟨k, v⟩
    simp only [List.cons_append, Bindings.find?]
    by_cases hk : k = n
    · simp only [hk, if_true, Option.isSome_some]
    · simp only [hk, if_false]
      exact ih

theorem find?_append_none (b : Bindings) (m : String) (r : Regex) (n : String) (hmn : m ≠ n)
    (h : Bindings.find? b n = none) : Bindings.find? (b ++ [(m, r)]) n = none := by
  induction b with
  | nil => simp [Bindings.find?, hmn]
  | cons p b ih =>
    rcases p with ⟨k, v⟩
    simp only [List.cons_append, Bindings.find?] at h ⊢
    by_cases hk : k = n
    · simp only [hk, if_true] at h; cases h
    · simp only [hk, if_false] at h ⊢
      exact ih h

/-! ### the step function of `compileLexer` -/

theorem lexStep_errorType (g : GlueState) :
    lexStep g .errorType = if g.errorType = true then .error .dupErrorType else .ok { g with errorType := true } := rfl

theorem lexStep_binding (g : GlueState) (n : String) (re : Regex) :
    lexStep g (.rb (.binding n re)) =
      if (g.bindings.find? n).isSome = true then .error (.dupVar n)
      else .ok { g with bindings := g.bindings ++ [(n, re)] } := rfl

theorem lexStep_rule (g : GlueState) (r : SingleRule) :
    lexStep g (.rb (.rule r)) =
      (compileSingleRule g.unnamed r g.bindings g.ctxs >>= fun p =>
        .ok { g with unnamed := p.1, ctxs := p.2 }) := rfl

def lexRS (g : GlueState) (name : String) (rules : List RuleOrBinding) : Except CompileError (GlueState × Nat) :=
  if name = "Init" then
    compileRuleSet rules g.bindings g.ctxs >>= fun q => .ok ({ g with initDfa := some q.1, ctxs := q.2 }, 0)
  else
    match g.initDfa with
    | none => .error .firstNotInit
    | some d0 =>
      compileRuleSet rules g.bindings g.ctxs >>= fun q =>
        .ok ({ g with initDfa := some (addDfa d0 q.1).1, ctxs := q.2 }, (addDfa d0 q.1).2)

theorem lexStep_ruleSet (g : GlueState) (name : String) (rules : List RuleOrBinding) :
    lexStep g (.ruleSet name rules) =
      (lexRS g name rules >>= fun p =>
        if (p.1.entries.find? (·.1 = name)).isSome = true then .error (.dupRuleSet name)
        else .ok { p.1 with entries := p.1.entries ++ [(name, p.2)] }) := by
  unfold lexRS
  by_cases hn : name = "Init"
  · rw [if_pos hn]
    show (if name = "Init" then _ else _) = _
    rw [if_pos hn]
    cases h : compileRuleSet rules g.bindings g.ctxs with
    | error e => rfl
    | ok q => rfl
  · rw [if_neg hn]
    show (if name = "Init" then _ else _) = _
    rw [if_neg hn]
    cases hd : g.initDfa with
    | none => rfl
    | some d0 =>
      cases h : compileRuleSet rules g.bindings g.ctxs with
      | error e => rfl
      | ok q => rfl


theorem lexRS_ok (g : GlueState) (name : String) (rules : List RuleOrBinding) (p : GlueState × Nat)
    (h : lexRS g name rules = .ok p) :
    p.1.entries = g.entries ∧ p.1.bindings = g.bindings ∧ p.1.errorType = g.errorType ∧
    (name = "Init" ∨ g.initDfa ≠ none) ∧ ∃ q, compileRuleSet rules g.bindings g.ctxs = .ok q := by
  unfold lexRS at h
  by_cases hn : name = "Init"
  · rw [if_pos hn] at h
    cases hc : compileRuleSet rules g.bindings g.ctxs with
    | error e => rw [hc] at h; cases h
    | ok q =>
      rw [hc] at h
      cases h
      exact ⟨rfl, rfl, rfl, .inl hn, q, rfl⟩
  · rw [if_neg hn] at h
    cases hd : g.initDfa with
    | none => rw [hd] at h; cases h
    | some d0 =>
      rw [hd] at h
      cases hc : compileRuleSet rules g.bindings g.ctxs with
      | error e => rw [hc] at h; cases h
      | ok q =>
        rw [hc] at h
        cases h
        exact ⟨rfl, rfl, rfl, .inr (by simp), q, rfl⟩

/-- what a successful step of the fold can change -/
structure Ext (g g' : GlueState) : Prop where
  bindings : ∀ n, (g.bindings.find? n).isSome = true → (g'.bindings.find? n).isSome = true
  errorType : g.errorType = true → g'.errorType = true
  entries : ∀ n, (g.entries.find? (·.1 = n)).isSome = true → (g'.entries.find? (·.1 = n)).isSome = true

theorem entries_append_isSome (l : List (String × Nat)) (x : String × Nat) (n : String)
    (h : (l.find? (·.1 = n)).isSome = true) : ((l ++ [x]).find? (·.1 = n)).isSome = true := by
  rw [List.find?_append]
  cases hl : l.find? (·.1 = n) with
  | none => rw [hl] at h; cases h
  | some v => rfl

theorem entries_append_self (l : List (String × Nat)) (n : String) (i : Nat) :
    ((l ++ [(n, i)]).find? (·.1 = n)).isSome = true := by
  rw [List.find?_append]
  cases hl : l.find? (·.1 = n) with
  | none => simp
  | some v => rfl

/-- shape of a successful `.ruleSet` step -/
theorem lexStep_ruleSet_ok (g g' : GlueState) (name : String) (rules : List RuleOrBinding)
    (h : lexStep g (.ruleSet name rules) = .ok g') :
    ∃ p : GlueState × Nat, lexRS g name rules = .ok p ∧
      (p.1.entries.find? (·.1 = name)).isSome = false ∧
      g' = { p.1 with entries := p.1.entries ++ [(name, p.2)] } := by
  rw [lexStep_ruleSet] at h
  cases hp : lexRS g name rules with
  | error e => rw [hp] at h; cases h
  | ok p =>
    rw [hp] at h
    refine ⟨p, rfl, ?_⟩
    by_cases hd : (p.1.entries.find? (·.1 = name)).isSome = true
    · simp only [bind, Except.bind] at h
      rw [if_pos hd] at h; cases h
    · simp only [bind, Except.bind] at h
      rw [if_neg hd] at h
      cases h
      exact ⟨Bool.eq_false_iff.mpr hd, rfl⟩

theorem lexStep_ext (g : GlueState) (item : TopItem) (g' : GlueState) (h : lexStep g item = .ok g') :
    Ext g g' := by
  cases item with
  | errorType =>
    rw [lexStep_errorType] at h
    by_cases he : g.errorType = true
    · rw [if_pos he] at h; cases h
    · rw [if_neg he] at h; cases h
      exact ⟨fun _ h => h, fun _ => rfl, fun _ h => h⟩
  | rb x =>
    cases x with
    | binding n re =>
      rw [lexStep_binding] at h
      by_cases hb : (g.bindings.find? n).isSome = true
      · rw [if_pos hb] at h; cases h
      · rw [if_neg hb] at h; cases h
        exact ⟨fun k hk => find?_append_isSome _ _ _ _ hk, fun h => h, fun _ h => h⟩
    | rule r =>
      rw [lexStep_rule] at h
      cases hc : compileSingleRule g.unnamed r g.bindings g.ctxs with
      | error e => rw [hc] at h; cases h
      | ok p =>
        rw [hc] at h; cases h
        exact ⟨fun _ h => h, fun h => h, fun _ h => h⟩
  | ruleSet name rules =>
    rcases lexStep_ruleSet_ok g g' name rules h with ⟨p, hp, _, rfl⟩
    rcases lexRS_ok g name rules p hp with ⟨h1, h2, h3, _, _⟩
    refine ⟨fun k hk => ?_, fun he => ?_, fun k hk => ?_⟩
    · show (Bindings.find? p.1.bindings k).isSome = true
      rw [h2]; exact hk
    · show p.1.errorType = true
      rw [h3]; exact he
    · show ((p.1.entries ++ [(name, p.2)]).find? (·.1 = k)).isSome = true
      rw [h1]; exact entries_append_isSome _ _ _ hk

end Static

open Static

theorem reject_mixed (items : LexerDef) (h : mixedRules items = true) : Rejected (compileLexer items) := by
  rw [compileLexer_eq, if_pos h]
  exact ⟨_, rfl⟩

theorem reject_dup_error_type (pre mid post : LexerDef) :
    Rejected (compileLexer (pre ++ [.errorType] ++ mid ++ [.errorType] ++ post)) := by
  apply compileLexer_rejected_of_fold
  apply fold_dup lexStep (fun g => g.errorType = true)
  · intro g g' h
    rw [lexStep_errorType] at h
    by_cases he : g.errorType = true
    · rw [if_pos he] at h; cases h
    · rw [if_neg he] at h; cases h; rfl
  · intro g a g' hg h
    exact (lexStep_ext g a g' h).errorType hg
  · intro g hg
    rw [lexStep_errorType, if_pos hg]
    exact ⟨_, rfl⟩

theorem reject_dup_var (pre mid post : LexerDef) (n : String) (r1 r2 : Regex) :
    Rejected (compileLexer (pre ++ [.rb (.binding n r1)] ++ mid ++ [.rb (.binding n r2)] ++ post)) := by
  apply compileLexer_rejected_of_fold
  apply fold_dup lexStep (fun g => (g.bindings.find? n).isSome = true)
  · intro g g' h
    rw [lexStep_binding] at h
    by_cases he : (g.bindings.find? n).isSome = true
    · rw [if_pos he] at h; cases h
    · rw [if_neg he] at h; cases h
      exact find?_append_self _ _ _
  · intro g a g' hg h
    exact (lexStep_ext g a g' h).bindings n hg
  · intro g hg
    rw [lexStep_binding, if_pos hg]
    exact ⟨_, rfl⟩

theorem reject_dup_ruleset (pre mid post : LexerDef) (n : String) (rs1 rs2 : List RuleOrBinding) :
    Rejected (compileLexer (pre ++ [.ruleSet n rs1] ++ mid ++ [.ruleSet n rs2] ++ post)) := by
  apply compileLexer_rejected_of_fold
  apply fold_dup lexStep (fun g => (g.entries.find? (·.1 = n)).isSome = true)
  · intro g g' h
    rcases lexStep_ruleSet_ok g g' n rs1 h with ⟨p, _, _, rfl⟩
    exact entries_append_self _ _ _
  · intro g a g' hg h
    exact (lexStep_ext g a g' h).entries n hg
  · intro g hg
    rw [lexStep_ruleSet]
    apply rejected_bind
    intro p hp
    rcases lexRS_ok g n rs2 p hp with ⟨h1, _⟩
    rw [h1, if_pos hg]
    exact ⟨_, rfl⟩

theorem reject_first_not_init (pre post : LexerDef) (n : String) (rs : List RuleOrBinding) (hn : n ≠ "Init")
    (hpre : ∀ it ∈ pre, ∀ m rs', it ≠ .ruleSet m rs') :
    Rejected (compileLexer (pre ++ [.ruleSet n rs] ++ post)) := by
  apply compileLexer_rejected_of_fold
  rw [List.append_assoc, List.singleton_append]
  apply fold_inv_rej lexStep (fun g => g.initDfa = none)
  · rfl
  · intro g a g' ha hg h
    cases a with
    | errorType =>
      rw [lexStep_errorType] at h
      by_cases he : g.errorType = true
      · rw [if_pos he] at h; cases h
      · rw [if_neg he] at h; cases h; exact hg
    | rb x =>
      cases x with
      | binding m re =>
        rw [lexStep_binding] at h
        by_cases hb : (g.bindings.find? m).isSome = true
        · rw [if_pos hb] at h; cases h
        · rw [if_neg hb] at h; cases h; exact hg
      | rule r =>
        rw [lexStep_rule] at h
        cases hc : compileSingleRule g.unnamed r g.bindings g.ctxs with
        | error e => rw [hc] at h; cases h
        | ok p => rw [hc] at h; cases h; exact hg
    | ruleSet m rs' => exact absurd rfl (hpre _ ha m rs')
  · intro g hg
    rw [lexStep_ruleSet]
    apply rejected_bind_left
    unfold lexRS
    rw [if_neg hn, hg]
    exact ⟨_, rfl⟩


theorem inlineVars_unbound (b : Bindings) (n : String) (hb : b.find? n = none) (re : Regex) (h : MentionsVar n re) (fuel : Nat) :
    Rejected (inlineVars b fuel re) := by
  induction re generalizing fuel with
  | var m =>
    simp only [MentionsVar] at h
    subst h
    cases fuel with
    | zero => simp only [inlineVars]; exact ⟨_, rfl⟩
    | succ k =>
      simp only [inlineVars, hb]
      exact ⟨_, rfl⟩
  | star r ih | plus r ih | opt r ih =>
    simp only [MentionsVar] at h
    simp only [inlineVars]
    exact rejected_bind_left _ (ih h fuel)
  | cat x y ihx ihy | alt x y ihx ihy | diff x y ihx ihy =>
    simp only [MentionsVar] at h
    simp only [inlineVars]
    rcases h with h | h
    · exact rejected_bind_left _ (ihx h fuel)
    · exact rejected_bind (fun _ _ => rejected_bind_left _ (ihy h fuel))
  | builtin _ | chr _ | str _ | set _ | any | eoi => simp only [MentionsVar] at h


namespace Static

theorem rangeMap_unknown_builtin (n : String) (hn : builtinRanges n = none) (re : Regex)
    (h : MentionsBuiltin n re) : Rejected (regexToRangeMap re) := by
  induction re with
  | builtin m =>
    simp only [MentionsBuiltin] at h
    subst h
    simp only [regexToRangeMap, hn]
    exact ⟨_, rfl⟩
  | star r ih | plus r ih | opt r ih => exact ⟨_, rfl⟩
  | cat x y ihx ihy => exact ⟨_, rfl⟩
  | alt x y ihx ihy | diff x y ihx ihy =>
    simp only [MentionsBuiltin] at h
    simp only [regexToRangeMap]
    rcases h with h | h
    · exact rejected_bind_left _ (ihx h)
    · exact rejected_bind (fun _ _ => rejected_bind_left _ (ihy h))
  | var _ | chr _ | str _ | set _ | any | eoi => simp only [MentionsBuiltin] at h

theorem rangeMap_not_class (re : Regex) (h : ¬ IsClassExpr re) : Rejected (regexToRangeMap re) := by
  induction re with
  | builtin _ | chr _ | set _ | any => exact absurd (by simp only [IsClassExpr]) h
  | star r ih | plus r ih | opt r ih => exact ⟨_, rfl⟩
  | cat x y ihx ihy => exact ⟨_, rfl⟩
  | var _ | str _ | eoi => exact ⟨_, rfl⟩
  | alt x y ihx ihy | diff x y ihx ihy =>
    simp only [IsClassExpr] at h
    simp only [regexToRangeMap]
    by_cases hx : IsClassExpr x
    · have hy : ¬ IsClassExpr y := fun hy => h ⟨hx, hy⟩
      exact rejected_bind (fun _ _ => rejected_bind_left _ (ihy hy))
    · exact rejected_bind_left _ (ihx hx)

end Static

theorem addRe_unknown_builtin (n : String) (hn : builtinRanges n = none) (re : Regex) (h : MentionsBuiltin n re)
    (cur cont : Nat) (nfa : NFA) : Rejected (NFA.addRe re cur cont nfa) := by
  induction re generalizing cur cont nfa with
  | builtin m =>
    simp only [MentionsBuiltin] at h
    subst h
    simp only [NFA.addRe, hn]
    exact ⟨_, rfl⟩
  | star r ih | plus r ih | opt r ih =>
    simp only [MentionsBuiltin] at h
    simp only [NFA.addRe]
    exact rejected_bind_left _ (ih h _ _ _)
  | cat x y ihx ihy =>
    simp only [MentionsBuiltin] at h
    simp only [NFA.addRe]
    rcases h with h | h
    · exact rejected_bind_left _ (ihx h _ _ _)
    · exact rejected_bind (fun _ _ => ihy h _ _ _)
  | alt x y ihx ihy =>
    simp only [MentionsBuiltin] at h
    simp only [NFA.addRe]
    rcases h with h | h
    · exact rejected_bind_left _ (ihx h _ _ _)
    · exact rejected_bind (fun _ _ => rejected_bind_left _ (ihy h _ _ _))
  | diff x y ihx ihy =>
    simp only [NFA.addRe]
    exact rejected_bind_left _ (rangeMap_unknown_builtin n hn _ h)
  | var _ | chr _ | str _ | set _ | any | eoi => simp only [MentionsBuiltin] at h

theorem addRe_diff_operand (a b : Regex) (h : ¬ IsClassExpr a ∨ ¬ IsClassExpr b) (cur cont : Nat) (nfa : NFA) :
    Rejected (NFA.addRe (.diff a b) cur cont nfa) := by
  simp only [NFA.addRe]
  apply rejected_bind_left
  apply rangeMap_not_class
  simp only [IsClassExpr]
  rcases h with h | h
  · exact fun hh => h hh.1
  · exact fun hh => h hh.2


theorem compileSingleRule_rejects (nfa : NFA) (r : SingleRule) (b : Bindings) (ctxs : List (DFA Nat))
    (h : Rejected (inlineVars b (b.length + 1) r.re) ∨ (∃ c, r.ctx = some c ∧ Rejected (inlineVars b (b.length + 1) c))) :
    Rejected (compileSingleRule nfa r b ctxs) := by
  unfold compileSingleRule
  rcases h with h | ⟨c, hc, h⟩
  · cases hc : r.ctx with
    | none =>
      show Rejected (inlineVars b (b.length + 1) r.re >>= _)
      exact rejected_bind_left _ h
    | some c =>
      show Rejected (newRightCtx ctxs b c >>= fun x => inlineVars b (b.length + 1) r.re >>= _)
      exact rejected_bind (fun _ _ => rejected_bind_left _ h)
  · rw [hc]
    show Rejected (newRightCtx ctxs b c >>= _)
    apply rejected_bind_left
    unfold newRightCtx
    exact rejected_bind_left _ h


namespace Static

/-- the step function of the fold of `compileRuleSet` -/
def rsStep (acc : NFA × Bindings × List (DFA Nat)) (item : RuleOrBinding) :
    Except CompileError (NFA × Bindings × List (DFA Nat)) := do
      let (nfa, b, ctxs) := acc
      match item with
      | .rule r => do
        let (nfa, ctxs) ← compileSingleRule nfa r b ctxs
        pure (nfa, b, ctxs)
      | .binding name re =>
        if (b.find? name).isSome then throw (.dupVar name)
        else pure (nfa, b ++ [(name, re)], ctxs)

theorem compileRuleSet_rejected_of_fold (rules : List RuleOrBinding) (b : Bindings) (ctxs : List (DFA Nat))
    (h : Rejected (rules.foldlM rsStep (NFA.new, b, ctxs))) : Rejected (compileRuleSet rules b ctxs) := by
  unfold compileRuleSet
  exact rejected_bind_left _ h

theorem rsStep_rule (acc : NFA × Bindings × List (DFA Nat)) (r : SingleRule) :
    rsStep acc (.rule r) =
      (compileSingleRule acc.1 r acc.2.1 acc.2.2 >>= fun p => .ok (p.1, acc.2.1, p.2)) := rfl

theorem rsStep_binding (acc : NFA × Bindings × List (DFA Nat)) (n : String) (re : Regex) :
    rsStep acc (.binding n re) =
      if (acc.2.1.find? n).isSome = true then .error (.dupVar n)
      else .ok (acc.1, acc.2.1 ++ [(n, re)], acc.2.2) := rfl

theorem rsStep_bindings_mono (acc : NFA × Bindings × List (DFA Nat)) (item : RuleOrBinding)
    (acc' : NFA × Bindings × List (DFA Nat)) (h : rsStep acc item = .ok acc') (n : String)
    (hn : (acc.2.1.find? n).isSome = true) : (acc'.2.1.find? n).isSome = true := by
  cases item with
  | rule r =>
    rw [rsStep_rule] at h
    cases hc : compileSingleRule acc.1 r acc.2.1 acc.2.2 with
    | error e => rw [hc] at h; cases h
    | ok p => rw [hc] at h; cases h; exact hn
  | binding m re =>
    rw [rsStep_binding] at h
    by_cases hb : (acc.2.1.find? m).isSome = true
    · rw [if_pos hb] at h; cases h
    · rw [if_neg hb] at h; cases h
      exact find?_append_isSome _ _ _ _ hn

/-- a rule set whose compilation is rejected makes the enclosing step rejected -/
theorem lexStep_ruleSet_rejected (g : GlueState) (name : String) (rules : List RuleOrBinding)
    (h : Rejected (compileRuleSet rules g.bindings g.ctxs)) : Rejected (lexStep g (.ruleSet name rules)) := by
  rw [lexStep_ruleSet]
  apply rejected_bind_left
  unfold lexRS
  by_cases hn : name = "Init"
  · rw [if_pos hn]; exact rejected_bind_left _ h
  · rw [if_neg hn]
    cases g.initDfa with
    | none => exact ⟨_, rfl⟩
    | some d0 => exact rejected_bind_left _ h

/-- after a prefix of `errorType` / `let` items none of which binds `n`, `n` is unbound -/
theorem lexStep_unbound_pres (n : String) (lets : LexerDef)
    (hlets : ∀ it ∈ lets, it = .errorType ∨ ∃ m re, it = .rb (.binding m re) ∧ m ≠ n)
    (g : GlueState) (a : TopItem) (g' : GlueState) (ha : a ∈ lets)
    (hg : g.bindings.find? n = none) (h : lexStep g a = .ok g') : g'.bindings.find? n = none := by
  rcases hlets a ha with rfl | ⟨m, re, rfl, hmn⟩
  · rw [lexStep_errorType] at h
    by_cases he : g.errorType = true
    · rw [if_pos he] at h; cases h
    · rw [if_neg he] at h; cases h; exact hg
  · rw [lexStep_binding] at h
    by_cases hb : (g.bindings.find? m).isSome = true
    · rw [if_pos hb] at h; cases h
    · rw [if_neg hb] at h; cases h
      exact find?_append_none _ _ _ _ hmn hg

theorem rule_unbound_rejected (nfa : NFA) (r : SingleRule) (b : Bindings) (ctxs : List (DFA Nat)) (n : String)
    (hb : b.find? n = none) (h : MentionsVar n r.re ∨ ∃ c, r.ctx = some c ∧ MentionsVar n c) :
    Rejected (compileSingleRule nfa r b ctxs) := by
  apply compileSingleRule_rejects
  rcases h with h | ⟨c, hc, h⟩
  · exact .inl (inlineVars_unbound b n hb _ h _)
  · exact .inr ⟨c, hc, inlineVars_unbound b n hb _ h _⟩

end Static

theorem reject_local_dup_var (pre post : LexerDef) (name : String) (rpre rmid rpost : List RuleOrBinding) (n : String) (r1 r2 : Regex) :
    Rejected (compileLexer (pre ++ [.ruleSet name (rpre ++ [.binding n r1] ++ rmid ++ [.binding n r2] ++ rpost)] ++ post)) := by
  apply compileLexer_rejected_of_fold
  rw [List.append_assoc, List.singleton_append]
  apply fold_inv_rej lexStep (fun _ => True) _ _ _ _ trivial (fun _ _ _ _ _ _ => trivial)
  intro g _
  apply lexStep_ruleSet_rejected
  apply compileRuleSet_rejected_of_fold
  apply fold_dup rsStep (fun acc => (acc.2.1.find? n).isSome = true)
  · intro acc acc' h
    rw [rsStep_binding] at h
    by_cases hb : (acc.2.1.find? n).isSome = true
    · rw [if_pos hb] at h; cases h
    · rw [if_neg hb] at h; cases h
      exact find?_append_self _ _ _
  · intro acc a acc' hacc h
    exact rsStep_bindings_mono acc a acc' h n hacc
  · intro acc hacc
    rw [rsStep_binding, if_pos hacc]
    exact ⟨_, rfl⟩

theorem reject_unbound_var_unnamed (lets post : LexerDef) (r : SingleRule) (n : String)
    (hlets : ∀ it ∈ lets, it = .errorType ∨ ∃ m re, it = .rb (.binding m re) ∧ m ≠ n)
    (h : MentionsVar n r.re ∨ ∃ c, r.ctx = some c ∧ MentionsVar n c) :
    Rejected (compileLexer (lets ++ [.rb (.rule r)] ++ post)) := by
  apply compileLexer_rejected_of_fold
  rw [List.append_assoc, List.singleton_append]
  apply fold_inv_rej lexStep (fun g => g.bindings.find? n = none)
  · rfl
  · exact lexStep_unbound_pres n lets hlets
  · intro g hg
    rw [lexStep_rule]
    exact rejected_bind_left _ (rule_unbound_rejected _ r _ _ n hg h)

theorem reject_unbound_var_in_ruleset (lets post : LexerDef) (name : String) (rpre rpost : List RuleOrBinding) (r : SingleRule) (n : String)
    (hlets : ∀ it ∈ lets, it = .errorType ∨ ∃ m re, it = .rb (.binding m re) ∧ m ≠ n)
    (hrpre : ∀ it ∈ rpre, ∀ re, it ≠ .binding n re)
    (h : MentionsVar n r.re ∨ ∃ c, r.ctx = some c ∧ MentionsVar n c) :
    Rejected (compileLexer (lets ++ [.ruleSet name (rpre ++ [.rule r] ++ rpost)] ++ post)) := by
  apply compileLexer_rejected_of_fold
  rw [List.append_assoc, List.singleton_append]
  apply fold_inv_rej lexStep (fun g => g.bindings.find? n = none)
  · rfl
  · exact lexStep_unbound_pres n lets hlets
  · intro g hg
    apply lexStep_ruleSet_rejected
    apply compileRuleSet_rejected_of_fold
    rw [List.append_assoc, List.singleton_append]
    apply fold_inv_rej rsStep (fun acc => acc.2.1.find? n = none)
    · exact hg
    · intro acc a acc' ha hacc hs
      cases a with
      | rule r' =>
        rw [rsStep_rule] at hs
        cases hc : compileSingleRule acc.1 r' acc.2.1 acc.2.2 with
        | error e => rw [hc] at hs; cases hs
        | ok p => rw [hc] at hs; cases hs; exact hacc
      | binding m re =>
        rw [rsStep_binding] at hs
        by_cases hb : (acc.2.1.find? m).isSome = true
        · rw [if_pos hb] at hs; cases hs
        · rw [if_neg hb] at hs; cases hs
          have hmn : m ≠ n := fun e => hrpre _ ha re (by rw [e])
          exact find?_append_none _ _ _ _ hmn hacc
    · intro acc hacc
      rw [rsStep_rule]
      exact rejected_bind_left _ (rule_unbound_rejected _ r _ _ n hacc h)

end Lexgen
