import LexgenModel.Spec.Viable
import LexgenModel.Proofs.RefMatch
/-!
# The viability scan of the executable specification, in terms of regex denotations

`viableRef` (Exec/SpecRun.lean) decides "is the language empty" and "is there a non-empty word" syntactically
(`aliveR`, `hasWordR`). These tests are exact on the iterated derivatives of regexes without empty pieces:
the invariant is `Norm` (`emptyR` only as the whole regex, `epsR` anywhere).
-/
namespace Lexgen

/-! ## The invariant -/

/-- a regex all of whose pieces denote something, except that `epsR = .star (.str [])` may occur anywhere;
in particular `emptyR = .str []` does not occur except inside `epsR` -/
def Norm0 : Regex → Prop
  | .builtin n => ∃ c, classDen (.builtin n) c
  | .var _ => False
  | .chr _ => True
  | .str cs => cs ≠ []
  | .set items => ∃ c, ∃ it ∈ items, itemHas it c
  | .star r => r = .str [] ∨ Norm0 r
  | .plus r => Norm0 r
  | .opt r => Norm0 r
  | .cat a b => Norm0 a ∧ Norm0 b
  | .alt a b => Norm0 a ∧ Norm0 b
  | .any => True
  | .eoi => True
  | .diff a b => ∃ c, classDen (.diff a b) c

/-- `emptyR` as the whole regex, or no `emptyR` at all (outside `epsR`) -/
def Norm (r : Regex) : Prop := r = emptyR ∨ Norm0 r

theorem norm0_of_noEmptyPieces (r : Regex) (h : NoEmptyPieces r) : Norm0 r := by
  induction r with
  | builtin n => exact h
  | var n => exact h
  | chr c => trivial
  | str cs => exact h
  | set items => exact h
  | star r ih => exact Or.inr (ih h)
  | plus r ih => exact ih h
  | opt r ih => exact ih h
  | cat a b iha ihb => exact ⟨iha h.1, ihb h.2⟩
  | alt a b iha ihb => exact ⟨iha h.1, ihb h.2⟩
  | any => trivial
  | eoi => trivial
  | diff a b _ _ => exact h

theorem norm_emptyR : Norm emptyR := Or.inl rfl

theorem norm0_epsR : Norm0 epsR := Or.inl rfl

theorem norm0_ne_emptyR {r : Regex} (h : Norm0 r) : r ≠ emptyR := by
  intro e
  subst e
  exact h rfl

theorem norm0_den {r : Regex} (h : Norm0 r) : ∃ w, den r w := by
  induction r with
  | builtin n => obtain ⟨c, hc⟩ := h; exact ⟨[.ch c], c, rfl, hc⟩
  | var n => exact h.elim
  | chr c => exact ⟨[.ch c], rfl⟩
  | str cs => exact ⟨cs.map Sym.ch, h, rfl⟩
  | set items => obtain ⟨c, hc⟩ := h; exact ⟨[.ch c], c, rfl, hc⟩
  | star r _ => exact ⟨[], Star.nil⟩
  | plus r ih =>
    obtain ⟨w, hw⟩ := ih h
    exact ⟨w, w, [], by simp, hw, Star.nil⟩
  | opt r _ => exact ⟨[], Or.inl rfl⟩
  | cat a b iha ihb =>
    obtain ⟨u, hu⟩ := iha h.1
    obtain ⟨v, hv⟩ := ihb h.2
    exact ⟨u ++ v, u, v, rfl, hu, hv⟩
  | alt a b iha _ =>
    obtain ⟨u, hu⟩ := iha h.1
    exact ⟨u, Or.inl hu⟩
  | any => exact ⟨[.ch 0], 0, rfl⟩
  | eoi => exact ⟨[.eoi], rfl⟩
  | diff a b _ _ => obtain ⟨c, hc⟩ := h; exact ⟨[.ch c], c, rfl, hc⟩

/-- the emptiness test is exact on normalised regexes -/
theorem aliveR_iff {r : Regex} (h : Norm r) : aliveR r = true ↔ ∃ w, den r w := by
  rcases h with rfl | h
  · simp only [aliveR, beq_self_eq_true, Bool.not_true, Bool.false_eq_true, false_iff]
    rintro ⟨w, hw⟩
    exact den_emptyR w hw
  · have hne := norm0_ne_emptyR h
    constructor
    · intro _; exact norm0_den h
    · intro _; simpa [aliveR] using hne

theorem aliveR_of_den {r : Regex} {w : List Sym} (h : den r w) : aliveR r = true := by
  have : r ≠ emptyR := fun e => den_emptyR w (e ▸ h)
  simpa [aliveR] using this

/-- the "has a non-empty word" test is exact on normalised regexes -/
theorem hasWordR_iff {r : Regex} (h : Norm0 r) : hasWordR r = true ↔ ∃ x v, den r (x :: v) := by
  induction r with
  | builtin n =>
    obtain ⟨c, hc⟩ := h
    simp only [hasWordR, true_iff]
    exact ⟨.ch c, [], c, rfl, hc⟩
  | var n => exact h.elim
  | chr c =>
    simp only [hasWordR, true_iff]
    exact ⟨.ch c, [], rfl⟩
  | str cs =>
    cases cs with
    | nil => exact absurd rfl h
    | cons c cs =>
      simp only [hasWordR, List.isEmpty_cons, Bool.not_false, true_iff]
      exact ⟨.ch c, cs.map Sym.ch, h, rfl⟩
  | set items =>
    obtain ⟨c, hc⟩ := h
    simp only [hasWordR, true_iff]
    exact ⟨.ch c, [], c, rfl, hc⟩
  | star r ih =>
    rcases h with rfl | h
    · simp only [hasWordR, List.isEmpty_nil, Bool.not_true, Bool.false_eq_true, false_iff]
      rintro ⟨x, v, hv⟩
      have := (den_epsR (x :: v)).mp hv
      cases this
    · show hasWordR r = true ↔ _
      rw [ih h]
      constructor
      · rintro ⟨x, v, hv⟩
        refine ⟨x, v, ?_⟩
        show Star (den r) (x :: v)
        have := Star.cons hv Star.nil
        simpa using this
      · rintro ⟨x, v, hv⟩
        have hv' : Star (den r) (x :: v) := hv
        rw [star_cons_iff] at hv'
        obtain ⟨u, _, _, hu, _⟩ := hv'
        exact ⟨x, u, hu⟩
  | plus r ih =>
    show hasWordR r = true ↔ _
    rw [ih h]
    constructor
    · rintro ⟨x, v, hv⟩
      exact ⟨x, v, x :: v, [], by simp, hv, Star.nil⟩
    · rintro ⟨x, v, u, v', he, hu, hv'⟩
      cases u with
      | nil =>
        simp only [List.nil_append] at he
        subst he
        rw [star_cons_iff] at hv'
        obtain ⟨u, _, _, hu, _⟩ := hv'
        exact ⟨x, u, hu⟩
      | cons y u => exact ⟨y, u, hu⟩
  | opt r ih =>
    show hasWordR r = true ↔ _
    rw [ih h]
    constructor
    · rintro ⟨x, v, hv⟩; exact ⟨x, v, Or.inr hv⟩
    · rintro ⟨x, v, hv | hv⟩
      · cases hv
      · exact ⟨x, v, hv⟩
  | cat a b iha ihb =>
    show (hasWordR a || hasWordR b) = true ↔ _
    rw [Bool.or_eq_true, iha h.1, ihb h.2]
    constructor
    · rintro (⟨x, v, hv⟩ | ⟨x, v, hv⟩)
      · obtain ⟨w, hw⟩ := norm0_den h.2
        exact ⟨x, v ++ w, x :: v, w, rfl, hv, hw⟩
      · obtain ⟨w, hw⟩ := norm0_den h.1
        cases w with
        | nil => exact ⟨x, v, [], x :: v, rfl, hw, hv⟩
        | cons y w => exact ⟨y, w ++ x :: v, y :: w, x :: v, rfl, hw, hv⟩
    · rintro ⟨x, v, u, v', he, hu, hv'⟩
      cases u with
      | nil =>
        simp only [List.nil_append] at he
        subst he
        exact Or.inr ⟨x, v, hv'⟩
      | cons y u => exact Or.inl ⟨y, u, hu⟩
  | alt a b iha ihb =>
    show (hasWordR a || hasWordR b) = true ↔ _
    rw [Bool.or_eq_true, iha h.1, ihb h.2]
    constructor
    · rintro (⟨x, v, hv⟩ | ⟨x, v, hv⟩)
      · exact ⟨x, v, Or.inl hv⟩
      · exact ⟨x, v, Or.inr hv⟩
    · rintro ⟨x, v, hv | hv⟩
      · exact Or.inl ⟨x, v, hv⟩
      · exact Or.inr ⟨x, v, hv⟩
  | any =>
    simp only [hasWordR, true_iff]
    exact ⟨.ch 0, [], 0, rfl⟩
  | eoi =>
    simp only [hasWordR, true_iff]
    exact ⟨.eoi, [], rfl⟩
  | diff a b _ _ =>
    obtain ⟨c, hc⟩ := h
    simp only [hasWordR, true_iff]
    exact ⟨.ch c, [], c, rfl, hc⟩

/-- both syntactic tests together -/
theorem alive_hasWord_iff {r : Regex} (h : Norm r) :
    (aliveR r && hasWordR r) = true ↔ ∃ x v, den r (x :: v) := by
  rcases h with rfl | h
  · simp only [aliveR, beq_self_eq_true, Bool.not_true, Bool.false_and, Bool.false_eq_true, false_iff]
    rintro ⟨x, v, hv⟩
    exact den_emptyR _ hv
  · rw [Bool.and_eq_true, hasWordR_iff h]
    constructor
    · exact fun h' => h'.2
    · rintro ⟨x, v, hv⟩
      exact ⟨aliveR_of_den hv, x, v, hv⟩

/-! ## The invariant is preserved by the smart constructors and by the derivative -/

theorem norm_ofBoolR (b : Bool) : Norm (ofBoolR b) := by
  cases b with
  | true => exact Or.inr norm0_epsR
  | false => exact norm_emptyR

theorem norm_mkCat {a b : Regex} (ha : Norm a) (hb : Norm b) : Norm (mkCat a b) := by
  unfold mkCat
  split
  · exact norm_emptyR
  · next h1 =>
    split
    · exact norm_emptyR
    · next h2 =>
      split
      · exact hb
      · split
        · exact ha
        · rcases ha with ha | ha
          · exact absurd ha h1
          · rcases hb with hb | hb
            · exact absurd hb h2
            · exact Or.inr ⟨ha, hb⟩

theorem norm0_altsR {r : Regex} (h : Norm0 r) : ∀ r' ∈ altsR r, Norm0 r' := by
  induction r with
  | alt a b iha ihb =>
    intro r' hr'
    rw [show altsR (.alt a b) = altsR a ++ altsR b from rfl, List.mem_append] at hr'
    rcases hr' with hr' | hr'
    · exact iha h.1 r' hr'
    · exact ihb h.2 r' hr'
  | _ =>
    intro r' hr'
    simp only [altsR, List.mem_singleton] at hr'
    subst hr'
    exact h

theorem norm_altsR {r : Regex} (h : Norm r) : ∀ r' ∈ altsR r, Norm r' := by
  rcases h with rfl | h
  · intro r' hr'
    simp only [emptyR, altsR, List.mem_singleton] at hr'
    subst hr'
    exact norm_emptyR
  · intro r' hr'
    exact Or.inr (norm0_altsR h r' hr')

theorem norm_altOfList (l : List Regex) (h : ∀ r ∈ l, Norm0 r) : Norm (altOfList l) := by
  induction l with
  | nil => exact norm_emptyR
  | cons r rs ih =>
    cases rs with
    | nil => exact Or.inr (h r (List.mem_cons_self ..))
    | cons r' rs' =>
      have h1 : Norm0 r := h r (List.mem_cons_self ..)
      have h2 := ih (fun q hq => h q (List.mem_cons_of_mem _ hq))
      rcases h2 with h2 | h2
      · cases rs' with
        | nil =>
          have := h r' (List.mem_cons_of_mem _ (List.mem_cons_self ..))
          exact absurd h2 (norm0_ne_emptyR this)
        | cons r'' rs'' => simp [altOfList, emptyR] at h2
      · exact Or.inr ⟨h1, h2⟩

theorem norm_mkAlt {a b : Regex} (ha : Norm a) (hb : Norm b) : Norm (mkAlt a b) := by
  unfold mkAlt
  apply norm_altOfList
  intro r hr
  rw [mem_dedupR, List.mem_filter, List.mem_append] at hr
  obtain ⟨hm, hne⟩ := hr
  have hn : Norm r := by
    rcases hm with hm | hm
    · exact norm_altsR ha r hm
    · exact norm_altsR hb r hm
  rcases hn with hn | hn
  · subst hn; simp at hne
  · exact hn

theorem norm_derivR {r : Regex} (h : Norm r) (x : Sym) : Norm (derivR r x) := by
  rcases h with rfl | h
  · exact norm_emptyR
  induction r with
  | builtin n => exact norm_ofBoolR _
  | var n => exact h.elim
  | chr c => exact norm_ofBoolR _
  | str cs =>
    cases cs with
    | nil => exact absurd rfl h
    | cons c cs =>
      simp only [derivR]
      split
      · split
        · exact Or.inr norm0_epsR
        · next hcs => exact Or.inr hcs
      · exact norm_emptyR
  | set items => exact norm_ofBoolR _
  | star r ih =>
    simp only [derivR]
    apply norm_mkCat _ (Or.inr h)
    rcases h with rfl | h'
    · exact norm_emptyR
    · exact ih h'
  | plus r ih =>
    simp only [derivR]
    exact norm_mkCat (ih h) (Or.inr (Or.inr h))
  | opt r ih => simpa only [derivR] using ih h
  | cat a b iha ihb =>
    simp only [derivR]
    split
    · exact norm_mkAlt (norm_mkCat (iha h.1) (Or.inr h.2)) (ihb h.2)
    · exact norm_mkCat (iha h.1) (Or.inr h.2)
  | alt a b iha ihb =>
    simp only [derivR]
    exact norm_mkAlt (iha h.1) (ihb h.2)
  | any => exact norm_ofBoolR _
  | eoi => exact norm_ofBoolR _
  | diff a b _ _ => exact norm_ofBoolR _

/-! ## The scan -/

/-- moving one symbol between the word and the regexes -/
theorem exists_deriv_iff (cur : List Regex) (x : Sym) (P : List Sym → List Sym) :
    (∃ r ∈ cur.map (fun r => derivR r x), ∃ v : List Sym, den r (P v)) ↔
      ∃ r ∈ cur, ∃ v : List Sym, den r (x :: P v) := by
  constructor
  · rintro ⟨r, hr, v, hv⟩
    obtain ⟨r0, hr0, rfl⟩ := List.mem_map.mp hr
    exact ⟨r0, hr0, v, (den_derivR r0 x _).mp hv⟩
  · rintro ⟨r, hr, v, hv⟩
    exact ⟨derivR r x, List.mem_map.mpr ⟨r, hr, rfl⟩, v, (den_derivR r x _).mpr hv⟩

theorem any_alive_hasWord_iff (cur : List Regex) (hn : ∀ r ∈ cur, Norm r) :
    (cur.any fun r => aliveR r && hasWordR r) = true ↔
      ∃ r ∈ cur, ∃ (x : Sym) (v : List Sym), den r (x :: v) := by
  rw [List.any_eq_true]
  constructor
  · rintro ⟨r, hr, h⟩
    exact ⟨r, hr, (alive_hasWord_iff (hn r hr)).mp h⟩
  · rintro ⟨r, hr, h⟩
    exact ⟨r, hr, (alive_hasWord_iff (hn r hr)).mpr h⟩

theorem viableRef_norm (cur : List Regex) (hn : ∀ r ∈ cur, Norm r) (iter : List Nat) :
    (viableRef cur iter).1 ≤ iter.length ∧
    (∀ j, 0 < j → j ≤ (viableRef cur iter).1 → ∃ r ∈ cur, ∃ v : List Sym, den r ((iter.take j).map Sym.ch ++ v)) ∧
    ((viableRef cur iter).1 < iter.length →
      ¬ ∃ r ∈ cur, ∃ v : List Sym, den r ((iter.take ((viableRef cur iter).1 + 1)).map Sym.ch ++ v)) ∧
    (((viableRef cur iter).2.any fun r => aliveR r && hasWordR r) = true ↔
      ∃ r ∈ cur, ∃ (x : Sym) (v : List Sym), den r ((iter.take (viableRef cur iter).1).map Sym.ch ++ x :: v)) := by
  induction iter generalizing cur with
  | nil =>
    refine ⟨Nat.le_refl _, ?_, ?_, ?_⟩
    · intro j h0 hj
      simp only [viableRef] at hj
      omega
    · intro h
      simp [viableRef] at h
    · simpa [viableRef] using any_alive_hasWord_iff cur hn
  | cons c rest ih =>
    by_cases hal : (cur.map fun r => derivR r (.ch c)).any aliveR = true
    · have hn' : ∀ r ∈ cur.map (fun r => derivR r (.ch c)), Norm r := by
        intro r hr
        obtain ⟨r0, hr0, rfl⟩ := List.mem_map.mp hr
        exact norm_derivR (hn r0 hr0) _
      have hv : viableRef cur (c :: rest) =
          ((viableRef (cur.map fun r => derivR r (.ch c)) rest).1 + 1,
            (viableRef (cur.map fun r => derivR r (.ch c)) rest).2) := by
        simp only [viableRef, hal, if_true]
      obtain ⟨i1, i2, i3, i4⟩ := ih (cur.map fun r => derivR r (.ch c)) hn'
      rw [hv]
      refine ⟨by simpa using i1, ?_, ?_, ?_⟩
      · intro j h0 hj
        obtain ⟨j, rfl⟩ : ∃ j', j = j' + 1 := ⟨j - 1, by omega⟩
        simp only [List.take_succ_cons, List.map_cons, List.cons_append]
        by_cases hj0 : j = 0
        · subst hj0
          rw [List.any_eq_true] at hal
          obtain ⟨r, hr, ha⟩ := hal
          obtain ⟨w, hw⟩ := (aliveR_iff (hn' r hr)).mp ha
          exact (exists_deriv_iff cur (.ch c) (fun v => ([].take 0 : List Nat).map Sym.ch ++ v)).mp
            ⟨r, hr, w, by simpa using hw⟩
        · have := i2 j (by omega) (by simpa using hj)
          exact (exists_deriv_iff cur (.ch c) (fun v => (rest.take j).map Sym.ch ++ v)).mp this
      · intro hlt
        have hlt' : (viableRef (cur.map fun r => derivR r (.ch c)) rest).1 < rest.length := by
          simpa using hlt
        have := i3 hlt'
        intro hex
        apply this
        simp only [List.take_succ_cons, List.map_cons, List.cons_append] at hex
        exact (exists_deriv_iff cur (.ch c) (fun v => (rest.take _).map Sym.ch ++ v)).mpr hex
      · rw [i4]
        simp only [List.take_succ_cons, List.map_cons, List.cons_append]
        constructor
        · rintro ⟨r, hr, x, v, hv⟩
          obtain ⟨r0, hr0, rfl⟩ := List.mem_map.mp hr
          exact ⟨r0, hr0, x, v, (den_derivR r0 _ _).mp hv⟩
        · rintro ⟨r, hr, x, v, hv⟩
          exact ⟨derivR r (.ch c), List.mem_map.mpr ⟨r, hr, rfl⟩, x, v, (den_derivR r _ _).mpr hv⟩
    · have hv : viableRef cur (c :: rest) = (0, cur) := by
        simp only [viableRef, hal, Bool.false_eq_true, if_false]
      rw [hv]
      refine ⟨Nat.zero_le _, ?_, ?_, ?_⟩
      · intro j h0 hj
        simp only at hj
        omega
      · intro _
        rintro ⟨r, hr, v, hv⟩
        apply hal
        rw [List.any_eq_true]
        refine ⟨derivR r (.ch c), List.mem_map.mpr ⟨r, hr, rfl⟩, ?_⟩
        apply aliveR_of_den (w := v)
        rw [den_derivR]
        simpa using hv
      · simpa using any_alive_hasWord_iff cur hn

/-- what the derivative-based viability scan of the executable specification computes, in terms of regex denotations: the length `k` of the longest
prefix of the input that some regex can still extend to one of its words, and whether after that prefix some regex can be extended by at least one
more symbol -/
theorem viableRef_spec (res : List Regex) (hne : ∀ r ∈ res, NoEmptyPieces r) (iter : List Nat) :
    (viableRef res iter).1 ≤ iter.length ∧
    (∀ j, 0 < j → j ≤ (viableRef res iter).1 → ∃ r ∈ res, ∃ v : List Sym, den r ((iter.take j).map Sym.ch ++ v)) ∧
    ((viableRef res iter).1 < iter.length →
      ¬ ∃ r ∈ res, ∃ v : List Sym, den r ((iter.take ((viableRef res iter).1 + 1)).map Sym.ch ++ v)) ∧
    (((viableRef res iter).2.any fun r => aliveR r && hasWordR r) = true ↔
      ∃ r ∈ res, ∃ (x : Sym) (v : List Sym), den r ((iter.take (viableRef res iter).1).map Sym.ch ++ x :: v)) :=
  viableRef_norm res (fun r hr => Or.inr (norm0_of_noEmptyPieces r (hne r hr))) iter

end Lexgen
