import LexgenModel.Proofs.MachineOKCompile
import LexgenModel.Proofs.BlockOfRules
import LexgenModel.Proofs.CompileUnnamed
import LexgenModel.Proofs.CtxLang
import LexgenModel.Proofs.LangCand
import LexgenModel.Proofs.MaxMunch
import LexgenModel.Proofs.NextProtocol
/-!
# End to end through the model of `lexer()`

For every WELL-FORMED definition the model compiles (`DefOK`: no rule matches the empty string, bracket
ranges non-inverted, `$` only at the tail of rules and right contexts):

* `compileLexer_machineOK` — the final machine satisfies `MachineOK`, the hypothesis of all run-time
  theorems (so they hold for every compiled definition, not only for machines that passed the checker);
* `compile_cand_iff` — from the entry of every rule set, the matches of the machine (`Cand`) are exactly
  the matches of the definition read as regular languages (`LangCand`);
* `compile_maximal_munch` — the generated state code, started at the entry of the active rule set, calls
  the action of the longest language-level match, end-of-input match preferred, first rule first, and
  reports an error only when the definition has no match at all.
-/
namespace Lexgen
variable {σ τ ε : Type}

theorem compileLexer_machineOK (items : LexerDef) (c : Compiled) (h : compileLexer items = .ok c) (hok : DefOK items)
    (actions : Nat → Action σ τ ε) (width : Nat → Nat) (input : Option (List Nat)) :
    MachineOK (c.config actions width input) :=
  compileLexer_machineOK_of items c h hok
    (fun rules nfa d hn hd ht hp => blockOK_of_rules rules nfa hn d hd ht hp)
    (fun hno => compileLexer_unnamed_core items c h hno)
    (fun hno => compileLexer_lang_unnamed items c h hno)
    actions width input

/-- the right-context numbers stored in the rules of a rule set whose first context has number `k` are
`k, k+1, ..` below `k +` the number of its contexts -/
theorem coreRules_ctx_range (rs : List RuleOrBinding) : ∀ (b : Bindings) (k : Nat) (rules : List CoreRule) (cres : List Regex),
    coreRules rs b k = some rules → coreCtxs rs b = some cres →
    ∀ r ∈ rules, ∀ i, r.ctx = some i → k ≤ i ∧ i < k + cres.length := by
  induction rs with
  | nil =>
    intro b k rules cres h1 _ r hr
    simp only [coreRules, Option.some.injEq] at h1
    subst h1
    cases hr
  | cons x rest ih =>
    intro b k rules cres h1 h2 r hr i hi
    cases x with
    | binding name re =>
      simp only [coreRules] at h1
      simp only [coreCtxs] at h2
      exact ih _ k rules cres h1 h2 r hr i hi
    | rule sr =>
      simp only [coreRules] at h1
      simp only [coreCtxs] at h2
      cases hre : inlineVars b (b.length + 1) sr.re with
      | error e => rw [hre] at h1; cases h1
      | ok re' =>
        rw [hre] at h1
        cases hctx : sr.ctx with
        | none =>
          rw [hctx] at h1 h2
          simp only at h1 h2
          cases hrest : coreRules rest b k with
          | none => rw [hrest] at h1; cases h1
          | some l =>
            rw [hrest] at h1
            simp only [Option.map_some, Option.some.injEq] at h1
            subst h1
            rcases List.mem_cons.mp hr with rfl | hr'
            · cases hi
            · exact ih b k l cres hrest h2 r hr' i hi
        | some cx =>
          rw [hctx] at h1 h2
          simp only at h1 h2
          cases hcx : inlineVars b (b.length + 1) cx with
          | error e => rw [hcx] at h2; cases h2
          | ok cx' =>
            rw [hcx] at h2
            cases hrest2 : coreCtxs rest b with
            | none => rw [hrest2] at h2; cases h2
            | some cl =>
              rw [hrest2] at h2
              simp only [Option.map_some, Option.some.injEq] at h2
              subst h2
              cases hrest : coreRules rest b (k + 1) with
              | none => rw [hrest] at h1; cases h1
              | some l =>
                rw [hrest] at h1
                simp only [Option.map_some, Option.some.injEq] at h1
                subst h1
                rcases List.mem_cons.mp hr with rfl | hr'
                · simp only [Option.some.injEq] at hi
                  subst hi
                  simp only [List.length_cons]
                  omega
                · have := ih b (k + 1) l cl hrest hrest2 r hr' i hi
                  simp only [List.length_cons]
                  omega

theorem allRuleSets_named {items : LexerDef} (h : hasRuleSets items = true) :
    allRuleSets items = scopedRuleSets items [] 0 := by
  unfold allRuleSets; rw [if_pos h]

theorem allRuleSets_unnamed {items : LexerDef} (h : hasRuleSets items = false) :
    allRuleSets items = [("", topRules items, [], 0)] := by
  unfold allRuleSets; rw [if_neg (by rw [h]; exact Bool.false_ne_true)]

/-- every rule set of a compiled definition has an entry in the final machine from which the automaton
realises its rules (named rule sets: `compileLexer_lang`; no rule sets: `compileLexer_lang_unnamed`) -/
theorem compile_realises (items : LexerDef) (c : Compiled) (h : compileLexer items = .ok c)
    (name : String) (rs : List RuleOrBinding) (b : Bindings) (k : Nat) (hmem : (name, rs, b, k) ∈ allRuleSets items) :
    ∃ e rules, IsEntryOf items c name e ∧ e < c.dfa.length ∧ coreRules rs b k = some rules ∧
      ((∀ r ∈ rules, regexPiecesOK r.re) → RealisesRules c.dfa e rules) := by
  cases hrs : hasRuleSets items with
  | true =>
    rw [allRuleSets_named hrs] at hmem
    obtain ⟨e, rules, he, hlt, hc, hr⟩ := compileLexer_lang items c h name rs b k hmem
    exact ⟨e, rules, by unfold IsEntryOf; rw [if_pos hrs]; exact he, hlt, hc, hr⟩
  | false =>
    rw [allRuleSets_unnamed hrs] at hmem
    simp only [List.mem_singleton, Prod.mk.injEq] at hmem
    obtain ⟨rfl, rfl, rfl, rfl⟩ := hmem
    obtain ⟨hlt, rules, hc, hr⟩ := compileLexer_lang_unnamed items c h hrs
    exact ⟨0, rules, by unfold IsEntryOf; rw [if_neg (by rw [hrs]; exact Bool.false_ne_true)], hlt, hc, hr⟩

/-- From the entry of every rule set of a well-formed definition, the matches of the compiled machine are
exactly the matches of the definition read as languages: the first `k` characters (plus end-of-input
when `viaEoi`) are denoted by the rule with action `a`, which is the first rule in source order denoting
them whose right context — as a language, on the rest of the input — holds. -/
theorem compile_cand_iff (items : LexerDef) (c : Compiled) (h : compileLexer items = .ok c) (hok : DefOK items)
    (ctxAt : Nat → Regex) (hnum : CtxNumbering items ctxAt)
    (name : String) (rs : List RuleOrBinding) (b : Bindings) (k : Nat) (hmem : (name, rs, b, k) ∈ allRuleSets items)
    (actions : Nat → Action σ τ ε) (width : Nat → Nat) (input : Option (List Nat)) :
    ∃ e rules, IsEntryOf items c name e ∧ e < c.dfa.length ∧ coreRules rs b k = some rules ∧
      ∀ iter n a viaEoi,
        Cand (c.config actions width input) e iter n a viaEoi ↔ LangCand rules ctxAt iter n a viaEoi := by
  obtain ⟨e, rules, hent, hlt, hcore, hreal⟩ := compile_realises items c h name rs b k hmem
  refine ⟨e, rules, hent, hlt, hcore, ?_⟩
  have hrules := hok.rules name rs b k hmem rules hcore
  have hR := hreal (fun r hr => (hrules r hr).pieces)
  obtain ⟨cres, hcres, hlen, hctxs⟩ := compileLexer_ctxs items c h name rs b k hmem
  have hcok := hok.ctxs name rs b k hmem cres hcres
  have hm := compileLexer_machineOK items c h hok actions width input
  intro iter n a viaEoi
  apply cand_iff_langCand (c.config actions width input) e rules ctxAt hR ?_ hm.eoiAccept
  intro r hr i hi rest
  obtain ⟨h1, h2⟩ := coreRules_ctx_range rs b k rules cres hcore hcres r hr i hi
  have hj : i - k < cres.length := by omega
  have hik : k + (i - k) = i := by omega
  have hc := hcok cres[i - k] (List.getElem_mem hj)
  have := hctxs (i - k) hj hc.pieces hc.tail rest
  rw [hik] at this
  have hnum' := hnum name rs b k hmem cres hcres (i - k) hj
  rw [hik] at hnum'
  rw [hnum']
  exact this

/-- **Maximal munch, end to end.** For a well-formed definition the model compiles, the generated state
code started at the entry of a rule set (no saved match, end-of-input not yet handled) calls the action
`a` of a language-level match of the remaining input that is maximal among ALL language-level matches:
longest, end-of-input match preferred at full length; and `a` is the first rule (in source order) that
matches that lexeme with its right context satisfied. The lexer is advanced by exactly the lexeme. -/
theorem compile_maximal_munch (items : LexerDef) (c : Compiled) (h : compileLexer items = .ok c) (hok : DefOK items)
    (ctxAt : Nat → Regex) (hnum : CtxNumbering items ctxAt)
    (name : String) (rs : List RuleOrBinding) (b : Bindings) (k : Nat) (hmem : (name, rs, b, k) ∈ allRuleSets items)
    (actions : Nat → Action σ τ ε) (width : Nat → Nat) (input : Option (List Nat)) :
    ∃ e rules, IsEntryOf items c name e ∧ coreRules rs b k = some rules ∧
      ∀ (st : LState σ), st.last = none → st.done = false →
        (∀ a st', scan (c.config actions width input) (dispatch (stateArms c.dfa (inlinedStates c.dfa))) e st.iter st = .act a st' →
          ∃ n viaEoi, LangCand rules ctxAt st.iter n a viaEoi ∧
            (∀ n' a' e', LangCand rules ctxAt st.iter n' a' e' → candLe n' e' n viaEoi) ∧
            ∃ s', st' = { advanceBy width st n with last := none, done := viaEoi, state := s' }) ∧
        (∀ loc st', scan (c.config actions width input) (dispatch (stateArms c.dfa (inlinedStates c.dfa))) e st.iter st = .err loc st' →
          (∀ n a e', ¬ LangCand rules ctxAt st.iter n a e') ∧ loc = st.curStart) := by
  obtain ⟨e, rules, hent, hlt, hcore, hiff⟩ :=
    compile_cand_iff items c h hok ctxAt hnum name rs b k hmem actions width input
  refine ⟨e, rules, hent, hcore, ?_⟩
  intro st hlast hdone
  have hm := compileLexer_machineOK items c h hok actions width input
  have hns := dispatchOK_of_machineOK _ hm
  constructor
  · intro a st' hs
    have hs' : scan (c.config actions width input) (dispatch (stateArms (c.config actions width input).dfa (c.config actions width input).inl)) e st.iter st = .act a st' := hs
    rw [scan_eq_scanPlain _ _ hm.flags hm.acceptAny hm.targets hns e st.iter st (by simp [hlast])] at hs'
    obtain ⟨n, ve, hc, hmax, s', hst'⟩ := scanPlain_act _ _ hm.targets hns e st hlast hdone a st' hs'
    refine ⟨n, ve, (hiff st.iter n a ve).mp hc, ?_, s', hst'⟩
    intro n' a' e' hl
    exact hmax n' a' e' ((hiff st.iter n' a' e').mpr hl)
  · intro loc st' hs
    have hs' : scan (c.config actions width input) (dispatch (stateArms (c.config actions width input).dfa (c.config actions width input).inl)) e st.iter st = .err loc st' := hs
    rw [scan_eq_scanPlain _ _ hm.flags hm.acceptAny hm.targets hns e st.iter st (by simp [hlast])] at hs'
    have := scanPlain_err _ _ hm.targets hns e st hlast loc st' hs'
    refine ⟨?_, this.2.1⟩
    intro n a e' hl
    exact this.1 n a e' ((hiff st.iter n a e').mpr hl)

end Lexgen
