import LexgenModel.Spec.Parser
/-!
# The regex parser inverts printing

* `parseLevel_mono`: fuel monotonicity of the nine parse functions.
* `parse_printsAs_partial`: every printing (`PrintsAs`) of a tree parses back to it. The statement
  without the junction condition `¬ DollarClash ts rest` is false (counterexample below).
* `printRe_printsAs`, `parse_print`: the minimal printing is a printing, hence parses back.

Method: `∃ fuel` relations (`E0`, `L0`, …) closed under the parser's steps thanks to monotonicity;
the induction on the printing proves, in continuation form (`Stmt`), that parsing `ts ++ rest` at
level `k` is the same as entering level `k`'s loop at `rest` with the printed tree as accumulator —
this is what makes the left-associative loops (`|`, juxtaposition, `#`, postfix) go through.
-/
namespace Lexgen
namespace ParserProofs

theorem parseCharset_mono (fuel : Nat) (ts : List Tok) (res : List CharOrRange × List Tok)
    (h : parseCharset fuel ts = some res) (fuel' : Nat) (hle : fuel ≤ fuel') :
    parseCharset fuel' ts = some res := by
  fun_induction parseCharset fuel ts generalizing res fuel' with
  | case1 => simp at h
  | case2 n ts =>
    obtain ⟨f', rfl⟩ : ∃ f', fuel' = f' + 1 := ⟨fuel' - 1, by omega⟩
    simpa [parseCharset] using h
  | case3 f c c2 ts ih =>
    obtain ⟨f', rfl⟩ : ∃ f', fuel' = f' + 1 := ⟨fuel' - 1, by omega⟩
    cases hc : parseCharset f ts with
    | none => rw [hc] at h; simp at h
    | some p =>
      rw [hc] at h; rw [parseCharset.eq_3, ih _ hc f' (by omega)]; exact h
  | case4 => simp at h
  | case5 f c ts h1 h2 ih =>
    obtain ⟨f', rfl⟩ : ∃ f', fuel' = f' + 1 := ⟨fuel' - 1, by omega⟩
    cases hc : parseCharset f ts with
    | none => rw [hc] at h; simp at h
    | some p =>
      rw [hc] at h; rw [parseCharset.eq_5 _ _ _ h1 h2, ih _ hc f' (by omega)]; exact h
  | case6 => simp at h

/-- on inputs that start neither with `(` nor with `[`, `parse4` does not recurse -/
theorem parse4_nonrec (f f' : Nat) (ts : List Tok)
    (h1 : ∀ l, ts ≠ .lparen :: l) (h2 : ∀ l, ts ≠ .lbracket :: l) :
    parse4 (f + 1) ts = parse4 (f' + 1) ts := by
  cases ts with
  | nil => simp [parse4]
  | cons t l =>
    cases t with
    | lparen => exact absurd rfl (h1 l)
    | lbracket => exact absurd rfl (h2 l)
    | dollar =>
      cases l with
      | nil => simp [parse4]
      | cons t2 l2 =>
        cases t2 with
        | dollar =>
          cases l2 with
          | nil => simp [parse4]
          | cons t3 l3 => cases t3 <;> simp [parse4]
        | _ => simp [parse4]
    | _ => simp [parse4]

def M0 (f : Nat) : Prop := ∀ ts res, parse0 f ts = some res → ∀ f', f ≤ f' → parse0 f' ts = some res
def ML0 (f : Nat) : Prop :=
  ∀ acc ts res, parse0Loop f acc ts = some res → ∀ f', f ≤ f' → parse0Loop f' acc ts = some res
def M1 (f : Nat) : Prop := ∀ ts res, parse1 f ts = some res → ∀ f', f ≤ f' → parse1 f' ts = some res
def ML1 (f : Nat) : Prop :=
  ∀ acc ts res, parse1Loop f acc ts = some res → ∀ f', f ≤ f' → parse1Loop f' acc ts = some res
def M2 (f : Nat) : Prop := ∀ ts res, parse2 f ts = some res → ∀ f', f ≤ f' → parse2 f' ts = some res
def M3 (f : Nat) : Prop := ∀ ts res, parse3 f ts = some res → ∀ f', f ≤ f' → parse3 f' ts = some res
def ML3 (f : Nat) : Prop :=
  ∀ acc ts res, parse3Loop f acc ts = some res → ∀ f', f ≤ f' → parse3Loop f' acc ts = some res
def M4 (f : Nat) : Prop := ∀ ts res, parse4 f ts = some res → ∀ f', f ≤ f' → parse4 f' ts = some res

theorem m0_step (f : Nat) (ih1 : M1 f) (ihl : ML0 f) : M0 (f + 1) := by
  intro ts res h f'' hle
  obtain ⟨f', rfl⟩ : ∃ f', f'' = f' + 1 := ⟨f'' - 1, by omega⟩
  rw [parse0.eq_2] at h ⊢
  cases h1 : parse1 f ts with
  | none => rw [h1] at h; simp at h
  | some p =>
    obtain ⟨r, rest⟩ := p
    rw [h1] at h; rw [ih1 _ _ h1 f' (by omega)]
    exact ihl _ _ _ h f' (by omega)

theorem ml0_step (f : Nat) (ih1 : M1 f) (ihl : ML0 f) : ML0 (f + 1) := by
  intro acc ts res h f'' hle
  obtain ⟨f', rfl⟩ : ∃ f', f'' = f' + 1 := ⟨f'' - 1, by omega⟩
  by_cases hb : ∃ l, ts = .bar :: l
  · obtain ⟨l, rfl⟩ := hb
    rw [parse0Loop.eq_2] at h ⊢
    cases h1 : parse1 f l with
    | none => rw [h1] at h; simp at h
    | some p =>
      obtain ⟨r, rest⟩ := p
      rw [h1] at h; rw [ih1 _ _ h1 f' (by omega)]
      exact ihl _ _ _ h f' (by omega)
  · have hb' : ∀ l, ts = .bar :: l → False := fun l hl => hb ⟨l, hl⟩
    rw [parse0Loop.eq_3 _ _ _ hb'] at h ⊢
    exact h

theorem m1_step (f : Nat) (ih2 : M2 f) (ihl : ML1 f) : M1 (f + 1) := by
  intro ts res h f'' hle
  obtain ⟨f', rfl⟩ : ∃ f', f'' = f' + 1 := ⟨f'' - 1, by omega⟩
  rw [parse1.eq_2] at h ⊢
  cases h1 : parse2 f ts with
  | none => rw [h1] at h; simp at h
  | some p =>
    obtain ⟨r, rest⟩ := p
    rw [h1] at h; rw [ih2 _ _ h1 f' (by omega)]
    exact ihl _ _ _ h f' (by omega)

theorem ml1_step (f : Nat) (ih2 : M2 f) (ihl : ML1 f) : ML1 (f + 1) := by
  intro acc ts res h f'' hle
  obtain ⟨f', rfl⟩ : ∃ f', f'' = f' + 1 := ⟨f'' - 1, by omega⟩
  rw [parse1Loop.eq_2] at h ⊢
  by_cases hs : startsAtom ts = true
  · rw [if_pos hs] at h ⊢
    cases h1 : parse2 f ts with
    | none => rw [h1] at h; simp at h
    | some p =>
      obtain ⟨r, rest⟩ := p
      rw [h1] at h; rw [ih2 _ _ h1 f' (by omega)]
      exact ihl _ _ _ h f' (by omega)
  · rw [if_neg hs] at h ⊢
    exact h

theorem m2_step (f : Nat) (ih3 : M3 f) : M2 (f + 1) := by
  intro ts res h f'' hle
  obtain ⟨f', rfl⟩ : ∃ f', f'' = f' + 1 := ⟨f'' - 1, by omega⟩
  rw [parse2.eq_2] at h ⊢
  cases h1 : parse3 f ts with
  | none => rw [h1] at h; simp at h
  | some p =>
    obtain ⟨r, rest⟩ := p
    rw [h1] at h; rw [ih3 _ _ h1 f' (by omega)]
    exact h

theorem m3_step (f : Nat) (ih4 : M4 f) (ihl : ML3 f) : M3 (f + 1) := by
  intro ts res h f'' hle
  obtain ⟨f', rfl⟩ : ∃ f', f'' = f' + 1 := ⟨f'' - 1, by omega⟩
  rw [parse3.eq_2] at h ⊢
  cases h1 : parse4 f ts with
  | none => rw [h1] at h; simp at h
  | some p =>
    obtain ⟨r, rest⟩ := p
    rw [h1] at h; rw [ih4 _ _ h1 f' (by omega)]
    exact ihl _ _ _ h f' (by omega)

theorem ml3_step (f : Nat) (ih4 : M4 f) (ihl : ML3 f) : ML3 (f + 1) := by
  intro acc ts res h f'' hle
  obtain ⟨f', rfl⟩ : ∃ f', f'' = f' + 1 := ⟨f'' - 1, by omega⟩
  by_cases hb : ∃ l, ts = .pound :: l
  · obtain ⟨l, rfl⟩ := hb
    rw [parse3Loop.eq_2] at h ⊢
    cases h1 : parse4 f l with
    | none => rw [h1] at h; simp at h
    | some p =>
      obtain ⟨r, rest⟩ := p
      rw [h1] at h; rw [ih4 _ _ h1 f' (by omega)]
      exact ihl _ _ _ h f' (by omega)
  · have hb' : ∀ l, ts = .pound :: l → False := fun l hl => hb ⟨l, hl⟩
    rw [parse3Loop.eq_3 _ _ _ hb'] at h ⊢
    exact h

theorem m4_step (f : Nat) (ih0 : M0 f) : M4 (f + 1) := by
  intro ts res h f'' hle
  obtain ⟨f', rfl⟩ : ∃ f', f'' = f' + 1 := ⟨f'' - 1, by omega⟩
  by_cases hp : ∃ l, ts = .lparen :: l
  · obtain ⟨l, rfl⟩ := hp
    rw [parse4.eq_2] at h ⊢
    cases h1 : parse0 f l with
    | none => rw [h1] at h; simp at h
    | some p =>
      rw [h1] at h; rw [ih0 _ _ h1 f' (by omega)]
      exact h
  · by_cases hb : ∃ l, ts = .lbracket :: l
    · obtain ⟨l, rfl⟩ := hb
      rw [parse4.eq_9] at h ⊢
      cases h1 : parseCharset f l with
      | none => rw [h1] at h; simp at h
      | some p =>
        rw [h1] at h; rw [parseCharset_mono _ _ _ h1 f' (by omega)]
        exact h
    · rw [← parse4_nonrec f f' ts (fun l hl => hp ⟨l, hl⟩) (fun l hl => hb ⟨l, hl⟩)]
      exact h

theorem mono_all (f : Nat) : M0 f ∧ ML0 f ∧ M1 f ∧ ML1 f ∧ M2 f ∧ M3 f ∧ ML3 f ∧ M4 f := by
  induction f with
  | zero =>
    refine ⟨?_, ?_, ?_, ?_, ?_, ?_, ?_, ?_⟩
    · intro ts res h; simp [parse0] at h
    · intro acc ts res h; simp [parse0Loop] at h
    · intro ts res h; simp [parse1] at h
    · intro acc ts res h; simp [parse1Loop] at h
    · intro ts res h; simp [parse2] at h
    · intro ts res h; simp [parse3] at h
    · intro acc ts res h; simp [parse3Loop] at h
    · intro ts res h; simp [parse4] at h
  | succ f ih =>
    obtain ⟨i0, il0, i1, il1, i2, i3, il3, i4⟩ := ih
    exact ⟨m0_step f i1 il0, ml0_step f i1 il0, m1_step f i2 il1, ml1_step f i2 il1,
      m2_step f i3, m3_step f i4 il3, ml3_step f i4 il3, m4_step f i0⟩


/-! ## Named monotonicity lemmas -/

theorem mono0 {f f' ts res} (h : parse0 f ts = some res) (hle : f ≤ f') : parse0 f' ts = some res :=
  (mono_all f).1 _ _ h _ hle
theorem monoL0 {f f' acc ts res} (h : parse0Loop f acc ts = some res) (hle : f ≤ f') :
    parse0Loop f' acc ts = some res := (mono_all f).2.1 _ _ _ h _ hle
theorem mono1 {f f' ts res} (h : parse1 f ts = some res) (hle : f ≤ f') : parse1 f' ts = some res :=
  (mono_all f).2.2.1 _ _ h _ hle
theorem monoL1 {f f' acc ts res} (h : parse1Loop f acc ts = some res) (hle : f ≤ f') :
    parse1Loop f' acc ts = some res := (mono_all f).2.2.2.1 _ _ _ h _ hle
theorem mono2 {f f' ts res} (h : parse2 f ts = some res) (hle : f ≤ f') : parse2 f' ts = some res :=
  (mono_all f).2.2.2.2.1 _ _ h _ hle
theorem mono3 {f f' ts res} (h : parse3 f ts = some res) (hle : f ≤ f') : parse3 f' ts = some res :=
  (mono_all f).2.2.2.2.2.1 _ _ h _ hle
theorem monoL3 {f f' acc ts res} (h : parse3Loop f acc ts = some res) (hle : f ≤ f') :
    parse3Loop f' acc ts = some res := (mono_all f).2.2.2.2.2.2.1 _ _ _ h _ hle
theorem mono4 {f f' ts res} (h : parse4 f ts = some res) (hle : f ≤ f') : parse4 f' ts = some res :=
  (mono_all f).2.2.2.2.2.2.2 _ _ h _ hle

/-! ## "For some fuel" relations and their composition rules -/

def E0 (ts : List Tok) (res : Regex × List Tok) : Prop := ∃ f, parse0 f ts = some res
def L0 (acc : Regex) (ts : List Tok) (res : Regex × List Tok) : Prop := ∃ f, parse0Loop f acc ts = some res
def E1 (ts : List Tok) (res : Regex × List Tok) : Prop := ∃ f, parse1 f ts = some res
def L1 (acc : Regex) (ts : List Tok) (res : Regex × List Tok) : Prop := ∃ f, parse1Loop f acc ts = some res
def E2 (ts : List Tok) (res : Regex × List Tok) : Prop := ∃ f, parse2 f ts = some res
def E3 (ts : List Tok) (res : Regex × List Tok) : Prop := ∃ f, parse3 f ts = some res
def L3 (acc : Regex) (ts : List Tok) (res : Regex × List Tok) : Prop := ∃ f, parse3Loop f acc ts = some res
def E4 (ts : List Tok) (res : Regex × List Tok) : Prop := ∃ f, parse4 f ts = some res

theorem E0_intro {ts r rest res} (h1 : E1 ts (r, rest)) (h2 : L0 r rest res) : E0 ts res := by
  obtain ⟨f1, h1⟩ := h1
  obtain ⟨f2, h2⟩ := h2
  refine ⟨f1 + f2 + 1, ?_⟩
  rw [parse0.eq_2, mono1 h1 (by omega)]
  exact monoL0 h2 (by omega)

theorem L0_bar {acc ts r2 rest res} (h1 : E1 ts (r2, rest)) (h2 : L0 (.alt acc r2) rest res) :
    L0 acc (.bar :: ts) res := by
  obtain ⟨f1, h1⟩ := h1
  obtain ⟨f2, h2⟩ := h2
  refine ⟨f1 + f2 + 1, ?_⟩
  rw [parse0Loop.eq_2, mono1 h1 (by omega)]
  exact monoL0 h2 (by omega)

theorem L0_stop {acc ts} (h : ts.head? ≠ some .bar) : L0 acc ts (acc, ts) := by
  refine ⟨1, ?_⟩
  rw [parse0Loop.eq_3]
  intro l hl; subst hl; simp at h

theorem E1_intro {ts r rest res} (h1 : E2 ts (r, rest)) (h2 : L1 r rest res) : E1 ts res := by
  obtain ⟨f1, h1⟩ := h1
  obtain ⟨f2, h2⟩ := h2
  refine ⟨f1 + f2 + 1, ?_⟩
  rw [parse1.eq_2, mono2 h1 (by omega)]
  exact monoL1 h2 (by omega)

theorem L1_step {acc ts r2 rest res} (hs : startsAtom ts = true) (h1 : E2 ts (r2, rest))
    (h2 : L1 (.cat acc r2) rest res) : L1 acc ts res := by
  obtain ⟨f1, h1⟩ := h1
  obtain ⟨f2, h2⟩ := h2
  refine ⟨f1 + f2 + 1, ?_⟩
  rw [parse1Loop.eq_2, if_pos hs, mono2 h1 (by omega)]
  exact monoL1 h2 (by omega)

theorem L1_stop {acc ts} (h : startsAtom ts = false) : L1 acc ts (acc, ts) := by
  refine ⟨1, ?_⟩
  rw [parse1Loop.eq_2, if_neg (by simp [h])]

theorem E2_intro {ts r rest} (h1 : E3 ts (r, rest)) : E2 ts (parse2Loop r rest) := by
  obtain ⟨f1, h1⟩ := h1
  refine ⟨f1 + 1, ?_⟩
  rw [parse2.eq_2, h1]

theorem E3_intro {ts r rest res} (h1 : E4 ts (r, rest)) (h2 : L3 r rest res) : E3 ts res := by
  obtain ⟨f1, h1⟩ := h1
  obtain ⟨f2, h2⟩ := h2
  refine ⟨f1 + f2 + 1, ?_⟩
  rw [parse3.eq_2, mono4 h1 (by omega)]
  exact monoL3 h2 (by omega)

theorem L3_pound {acc ts r2 rest res} (h1 : E4 ts (r2, rest)) (h2 : L3 (.diff acc r2) rest res) :
    L3 acc (.pound :: ts) res := by
  obtain ⟨f1, h1⟩ := h1
  obtain ⟨f2, h2⟩ := h2
  refine ⟨f1 + f2 + 1, ?_⟩
  rw [parse3Loop.eq_2, mono4 h1 (by omega)]
  exact monoL3 h2 (by omega)

theorem L3_stop {acc ts} (h : ts.head? ≠ some .pound) : L3 acc ts (acc, ts) := by
  refine ⟨1, ?_⟩
  rw [parse3Loop.eq_3]
  intro l hl; subst hl; simp at h

theorem E4_paren {ts r rest} (h : E0 ts (r, .rparen :: rest)) : E4 (.lparen :: ts) (r, rest) := by
  obtain ⟨f, h⟩ := h
  refine ⟨f + 1, ?_⟩
  rw [parse4.eq_2, h]

theorem parse2Loop_stop (r : Regex) (rest : List Tok)
    (h : rest.head? ≠ some .star ∧ rest.head? ≠ some .plus ∧ rest.head? ≠ some .question) :
    parse2Loop r rest = (r, rest) := by
  cases rest with
  | nil => simp [parse2Loop]
  | cons t l => cases t <;> simp [parse2Loop] at h ⊢

/-! ## `StopsAt` and `DollarClash` bookkeeping -/

theorem StopsAt.mono {k k' : Nat} {rest : List Tok} (h : StopsAt k rest) (hk : k ≤ k') : StopsAt k' rest :=
  ⟨fun h' => h.1 (by omega), fun h' => h.2.1 (by omega), fun h' => h.2.2.1 (by omega),
    fun h' => h.2.2.2 (by omega)⟩

/-- tokens an atom can start with -/
def AtomTok (t : Tok) : Prop := ∀ l, startsAtom (t :: l) = true

theorem stopsAt2_of_atomTok {t : Tok} (h : AtomTok t) (l : List Tok) : StopsAt 2 (t :: l) := by
  have h' := h []
  cases t <;> first
    | (simp [startsAtom] at h'; done)
    | exact ⟨by omega, by omega, by simp, by simp⟩

theorem stopsAt1_rparen (l : List Tok) : StopsAt 1 (.rparen :: l) :=
  ⟨by omega, by simp [startsAtom], by simp, by simp⟩
theorem stopsAt1_bar (l : List Tok) : StopsAt 1 (.bar :: l) :=
  ⟨by omega, by simp [startsAtom], by simp, by simp⟩
theorem stopsAt3_star (l : List Tok) : StopsAt 3 (.star :: l) := ⟨by omega, by omega, by omega, by simp⟩
theorem stopsAt3_plus (l : List Tok) : StopsAt 3 (.plus :: l) := ⟨by omega, by omega, by omega, by simp⟩
theorem stopsAt3_question (l : List Tok) : StopsAt 3 (.question :: l) :=
  ⟨by omega, by omega, by omega, by simp⟩
theorem stopsAt_ge4 {k : Nat} (hk : 4 ≤ k) (l : List Tok) : StopsAt k l :=
  ⟨by omega, by omega, by omega, by omega⟩

theorem getLast?_append_cons (l : List Tok) (a : Tok) (r : List Tok) :
    (l ++ a :: r).getLast? = (a :: r).getLast? := by
  induction l with
  | nil => rfl
  | cons b l ih =>
    cases h : l ++ a :: r with
    | nil => simp at h
    | cons c m => rw [List.cons_append, h, List.getLast?_cons_cons, ← h, ih]

/-- a clash needs the right part to start with `$` or an identifier -/
theorem not_clash_of_head {ta : List Tok} {t : Tok} {l : List Tok} (h1 : t ≠ .dollar)
    (h2 : ∀ n, t ≠ .ident n) : ¬ DollarClash ta (t :: l) := by
  rintro ⟨_, h | ⟨n, h⟩⟩
  · simp at h; exact h1 h
  · simp at h; exact h2 n h

theorem not_clash_nil (ta : List Tok) : ¬ DollarClash ta [] := by
  rintro ⟨_, h | ⟨n, h⟩⟩ <;> simp at h

theorem not_clash_append_right {ta : List Tok} {t : Tok} {l rest : List Tok}
    (h : ¬ DollarClash ta (t :: l)) : ¬ DollarClash ta ((t :: l) ++ rest) := fun hc => h hc

theorem not_clash_append_left {ta : List Tok} {t : Tok} {l rest : List Tok}
    (h : ¬ DollarClash (ta ++ t :: l) rest) : ¬ DollarClash (t :: l) rest := by
  intro hc
  apply h
  refine ⟨?_, hc.2⟩
  rw [getLast?_append_cons]; exact hc.1

/-! ## The statement proved by induction on the printing -/

def E (k : Nat) (ts : List Tok) (res : Regex × List Tok) : Prop := ∃ f, parseLevel k f ts = some res

/-- what the caller of level `k` does with the tree parsed so far -/
def Cont (k : Nat) (r : Regex) (rest : List Tok) (res : Regex × List Tok) : Prop :=
  match k with
  | 0 => L0 r rest res
  | 1 => L1 r rest res
  | 2 => res = parse2Loop r rest
  | 3 => L3 r rest res
  | _ => res = (r, rest)

/-- parsing `ts ++ rest` at level `k` amounts to continuing level `k`'s loop at `rest` with `r` -/
def Stmt (k : Nat) (r : Regex) (ts : List Tok) : Prop :=
  ∀ rest res, StopsAt (k + 1) rest → ¬ DollarClash ts rest → Cont k r rest res → E k (ts ++ rest) res

theorem lift43 {r ts} (h : Stmt 4 r ts) : Stmt 3 r ts := by
  intro rest res _ hc hcont
  exact E3_intro (h rest (r, rest) (stopsAt_ge4 (by omega) _) hc rfl) hcont

theorem lift32 {r ts} (h : Stmt 3 r ts) : Stmt 2 r ts := by
  intro rest res hs hc hcont
  have hcont' : res = parse2Loop r rest := hcont
  subst hcont'
  exact E2_intro (h rest (r, rest) (stopsAt_ge4 (by omega) _) hc (L3_stop (hs.2.2.2 (by omega))))

theorem lift21 {r ts} (h : Stmt 2 r ts) : Stmt 1 r ts := by
  intro rest res hs hc hcont
  have h2 : E2 (ts ++ rest) (parse2Loop r rest) := h rest _ (StopsAt.mono hs (by omega)) hc rfl
  rw [parse2Loop_stop r rest (hs.2.2.1 (by omega))] at h2
  exact E1_intro h2 hcont

theorem lift10 {r ts} (h : Stmt 1 r ts) : Stmt 0 r ts := by
  intro rest res hs hc hcont
  exact E0_intro (h rest (r, rest) (StopsAt.mono hs (by omega)) hc (L1_stop (hs.2.1 (by omega)))) hcont

theorem lift_down {r ts} (j : Nat) (hj : j ≤ 3) (h : Stmt (j + 1) r ts) : Stmt j r ts := by
  match j, hj with
  | 0, _ => exact lift10 h
  | 1, _ => exact lift21 h
  | 2, _ => exact lift32 h
  | 3, _ => exact lift43 h

theorem lift {r ts} (k d : Nat) (hk : k + d ≤ 4) (h : Stmt (k + d) r ts) : Stmt k r ts := by
  induction d with
  | zero => exact h
  | succ d ih => exact ih (by omega) (lift_down (k + d) (by omega) h)

theorem lift_to {r ts} {c k : Nat} (hc : c ≤ 4) (hk : k ≤ c) (h : Stmt c r ts) : Stmt k r ts := by
  obtain ⟨d, rfl⟩ : ∃ d, c = k + d := ⟨c - k, by omega⟩
  exact lift k d hc h


/-! ## First token of a printing -/

theorem printsAs_first {r : Regex} {k : Nat} {ts : List Tok} (h : PrintsAs r k ts) :
    ∃ t l, ts = t :: l ∧ AtomTok t := by
  induction h with
  | paren _ _ => exact ⟨.lparen, _, rfl, fun _ => rfl⟩
  | builtin n k => exact ⟨.dollar, _, rfl, fun _ => rfl⟩
  | var n k => exact ⟨.dollar, _, rfl, fun _ => rfl⟩
  | chr c k => exact ⟨.chr c, _, rfl, fun _ => rfl⟩
  | str cs k => exact ⟨.str cs, _, rfl, fun _ => rfl⟩
  | set k _ => exact ⟨.lbracket, _, rfl, fun _ => rfl⟩
  | any k => exact ⟨.underscore, _, rfl, fun _ => rfl⟩
  | eoi k => exact ⟨.dollar, _, rfl, fun _ => rfl⟩
  | star _ _ ih => obtain ⟨t, l, rfl, ht⟩ := ih; exact ⟨t, _, rfl, ht⟩
  | plus _ _ ih => obtain ⟨t, l, rfl, ht⟩ := ih; exact ⟨t, _, rfl, ht⟩
  | opt _ _ ih => obtain ⟨t, l, rfl, ht⟩ := ih; exact ⟨t, _, rfl, ht⟩
  | cat _ _ _ _ iha _ => obtain ⟨t, l, rfl, ht⟩ := iha; exact ⟨t, _, rfl, ht⟩
  | alt _ _ _ iha _ => obtain ⟨t, l, rfl, ht⟩ := iha; exact ⟨t, _, rfl, ht⟩
  | diff _ _ _ iha _ => obtain ⟨t, l, rfl, ht⟩ := iha; exact ⟨t, _, rfl, ht⟩

/-! ## Character sets -/

theorem itemsPrint_no_minus {items : List CharOrRange} {ts : List Tok} (h : ItemsPrint items ts)
    (l tail : List Tok) : ts ++ .rbracket :: l = .minus :: tail → False := by
  cases h <;> simp

theorem parseCharset_items {items : List CharOrRange} {ts : List Tok} (h : ItemsPrint items ts)
    (rest : List Tok) : ∃ f, parseCharset f (ts ++ .rbracket :: rest) = some (items, rest) := by
  induction h with
  | nil => exact ⟨1, rfl⟩
  | @chr c items ts hi ih =>
    obtain ⟨f, hf⟩ := ih
    refine ⟨f + 1, ?_⟩
    rw [List.cons_append, parseCharset.eq_5 _ _ _
      (fun c2 l hl => itemsPrint_no_minus hi rest _ hl) (fun l hl => itemsPrint_no_minus hi rest _ hl), hf]
    rfl
  | @rng s e items ts hi ih =>
    obtain ⟨f, hf⟩ := ih
    refine ⟨f + 1, ?_⟩
    simp only [List.cons_append]
    rw [parseCharset.eq_3, hf]
    rfl

/-! ## One lemma per constructor, at the constructor's own level -/

theorem stmt_paren {r ts} (h : Stmt 0 r ts) : Stmt 4 r (.lparen :: ts ++ [.rparen]) := by
  intro rest res _ _ hcont
  have hres : res = (r, rest) := hcont
  subst hres
  have h0 : E0 (ts ++ .rparen :: rest) (r, .rparen :: rest) :=
    h (.rparen :: rest) _ (stopsAt1_rparen rest) (not_clash_of_head (by simp) (by simp))
      (L0_stop (by simp))
  have := E4_paren h0
  have heq : (Tok.lparen :: ts ++ [.rparen]) ++ rest = .lparen :: (ts ++ .rparen :: rest) := by simp
  rw [heq]
  exact this

theorem stmt_builtin (n : String) : Stmt 4 (.builtin n) [.dollar, .dollar, .ident n] := by
  intro rest res _ _ hcont
  have hres : res = (.builtin n, rest) := hcont
  subst hres
  exact ⟨1, rfl⟩

theorem stmt_var (n : String) : Stmt 4 (.var n) [.dollar, .ident n] := by
  intro rest res _ _ hcont
  have hres : res = (.var n, rest) := hcont
  subst hres
  exact ⟨1, rfl⟩

theorem stmt_chr (c : Nat) : Stmt 4 (.chr c) [.chr c] := by
  intro rest res _ _ hcont
  have hres : res = (.chr c, rest) := hcont
  subst hres
  exact ⟨1, rfl⟩

theorem stmt_str (cs : List Nat) : Stmt 4 (.str cs) [.str cs] := by
  intro rest res _ _ hcont
  have hres : res = (.str cs, rest) := hcont
  subst hres
  exact ⟨1, rfl⟩

theorem stmt_any : Stmt 4 .any [.underscore] := by
  intro rest res _ _ hcont
  have hres : res = (.any, rest) := hcont
  subst hres
  exact ⟨1, rfl⟩

theorem stmt_eoi : Stmt 4 .eoi [.dollar] := by
  intro rest res _ hc hcont
  have hres : res = (.eoi, rest) := hcont
  subst hres
  refine ⟨1, ?_⟩
  show parse4 1 (.dollar :: rest) = some (.eoi, rest)
  apply parse4.eq_6
  · intro n l hl; subst hl
    exact hc ⟨rfl, Or.inl rfl⟩
  · intro l hl; subst hl
    exact hc ⟨rfl, Or.inl rfl⟩
  · intro n l hl; subst hl
    exact hc ⟨rfl, Or.inr ⟨n, rfl⟩⟩

theorem stmt_set {items ts} (h : ItemsPrint items ts) : Stmt 4 (.set items) (.lbracket :: ts ++ [.rbracket]) := by
  intro rest res _ _ hcont
  have hres : res = (.set items, rest) := hcont
  subst hres
  obtain ⟨f, hf⟩ := parseCharset_items h rest
  refine ⟨f + 1, ?_⟩
  have heq : (Tok.lbracket :: ts ++ [.rbracket]) ++ rest = .lbracket :: (ts ++ .rbracket :: rest) := by simp
  rw [heq]
  show parse4 (f + 1) (.lbracket :: (ts ++ .rbracket :: rest)) = some (.set items, rest)
  rw [parse4.eq_9, hf]
  rfl

theorem stmt_star {x tx} (h : Stmt 2 x tx) : Stmt 2 (.star x) (tx ++ [.star]) := by
  intro rest res _ _ hcont
  have hres : res = parse2Loop (.star x) rest := hcont
  have := h (.star :: rest) res (stopsAt3_star rest) (not_clash_of_head (by simp) (by simp))
    (by rw [hres]; simp [Cont, parse2Loop])
  rw [List.append_assoc]
  exact this

theorem stmt_plus {x tx} (h : Stmt 2 x tx) : Stmt 2 (.plus x) (tx ++ [.plus]) := by
  intro rest res _ _ hcont
  have hres : res = parse2Loop (.plus x) rest := hcont
  have := h (.plus :: rest) res (stopsAt3_plus rest) (not_clash_of_head (by simp) (by simp))
    (by rw [hres]; simp [Cont, parse2Loop])
  rw [List.append_assoc]
  exact this

theorem stmt_opt {x tx} (h : Stmt 2 x tx) : Stmt 2 (.opt x) (tx ++ [.question]) := by
  intro rest res _ _ hcont
  have hres : res = parse2Loop (.opt x) rest := hcont
  have := h (.question :: rest) res (stopsAt3_question rest) (not_clash_of_head (by simp) (by simp))
    (by rw [hres]; simp [Cont, parse2Loop])
  rw [List.append_assoc]
  exact this

theorem stmt_cat {a b ta tb} (ha : Stmt 1 a ta) (hb : Stmt 2 b tb)
    (hfirst : ∃ t l, tb = t :: l ∧ AtomTok t) (hnc : ¬ DollarClash ta tb) :
    Stmt 1 (.cat a b) (ta ++ tb) := by
  intro rest res hs hc hcont
  obtain ⟨t, l, rfl, ht⟩ := hfirst
  have hb2 : E2 ((t :: l) ++ rest) (parse2Loop b rest) :=
    hb rest _ (StopsAt.mono hs (by omega)) (not_clash_append_left hc) rfl
  rw [parse2Loop_stop b rest (hs.2.2.1 (by omega))] at hb2
  have hl1 : L1 a ((t :: l) ++ rest) res := L1_step (ht _) hb2 hcont
  have := ha ((t :: l) ++ rest) res (stopsAt2_of_atomTok ht _) (not_clash_append_right hnc) hl1
  rw [List.append_assoc]
  exact this

theorem stmt_alt {a b ta tb} (ha : Stmt 0 a ta) (hb : Stmt 1 b tb)
    (hfirst : ∃ t l, tb = t :: l ∧ AtomTok t) :
    Stmt 0 (.alt a b) (ta ++ .bar :: tb) := by
  intro rest res hs hc hcont
  obtain ⟨t, l, rfl, ht⟩ := hfirst
  have hc' : ¬ DollarClash (t :: l) rest := by
    apply not_clash_append_left (ta := ta ++ [.bar])
    rw [List.append_assoc]; exact hc
  have hb1 : E1 ((t :: l) ++ rest) (b, rest) :=
    hb rest _ (StopsAt.mono hs (by omega)) hc' (L1_stop (hs.2.1 (by omega)))
  have hl0 : L0 a (.bar :: ((t :: l) ++ rest)) res := L0_bar hb1 hcont
  have := ha (.bar :: ((t :: l) ++ rest)) res (stopsAt1_bar _) (not_clash_of_head (by simp) (by simp)) hl0
  rw [List.append_assoc]
  exact this

theorem stmt_diff {a b ta tb} (ha : Stmt 3 a ta) (hb : Stmt 4 b tb)
    (hfirst : ∃ t l, tb = t :: l ∧ AtomTok t) :
    Stmt 3 (.diff a b) (ta ++ .pound :: tb) := by
  intro rest res hs hc hcont
  obtain ⟨t, l, rfl, ht⟩ := hfirst
  have hc' : ¬ DollarClash (t :: l) rest := by
    apply not_clash_append_left (ta := ta ++ [.pound])
    rw [List.append_assoc]; exact hc
  have hb4 : E4 ((t :: l) ++ rest) (b, rest) := hb rest _ (stopsAt_ge4 (by omega) _) hc' rfl
  have hl3 : L3 a (.pound :: ((t :: l) ++ rest)) res := L3_pound hb4 hcont
  have := ha (.pound :: ((t :: l) ++ rest)) res (stopsAt_ge4 (by omega) _)
    (not_clash_of_head (by simp) (by simp)) hl3
  rw [List.append_assoc]
  exact this

theorem stmt_of_printsAs {r : Regex} {k : Nat} {ts : List Tok} (h : PrintsAs r k ts) (hk : k ≤ 4) :
    Stmt k r ts := by
  induction h with
  | paren _ ih => exact lift_to (by omega) hk (stmt_paren (ih (by omega)))
  | builtin n k => exact lift_to (by omega) hk (stmt_builtin n)
  | var n k => exact lift_to (by omega) hk (stmt_var n)
  | chr c k => exact lift_to (by omega) hk (stmt_chr c)
  | str cs k => exact lift_to (by omega) hk (stmt_str cs)
  | set k hi => exact lift_to (by omega) hk (stmt_set hi)
  | any k => exact lift_to (by omega) hk stmt_any
  | eoi k => exact lift_to (by omega) hk stmt_eoi
  | star hk2 _ ih => exact lift_to (by omega) hk2 (stmt_star (ih (by omega)))
  | plus hk2 _ ih => exact lift_to (by omega) hk2 (stmt_plus (ih (by omega)))
  | opt hk2 _ ih => exact lift_to (by omega) hk2 (stmt_opt (ih (by omega)))
  | cat hk1 _ hpb hnc iha ihb =>
    exact lift_to (by omega) hk1 (stmt_cat (iha (by omega)) (ihb (by omega)) (printsAs_first hpb) hnc)
  | alt hk0 _ hpb iha ihb =>
    exact lift_to (by omega) hk0 (stmt_alt (iha (by omega)) (ihb (by omega)) (printsAs_first hpb))
  | diff hk3 _ hpb iha ihb =>
    exact lift_to (by omega) hk3 (stmt_diff (iha (by omega)) (ihb (by omega)) (printsAs_first hpb))

theorem cont_stop {k : Nat} {r : Regex} {rest : List Tok} (hs : StopsAt k rest) : Cont k r rest (r, rest) := by
  match k with
  | 0 => exact L0_stop (hs.1 (by omega))
  | 1 => exact L1_stop (hs.2.1 (by omega))
  | 2 => exact (parse2Loop_stop r rest (hs.2.2.1 (by omega))).symm
  | 3 => exact L3_stop (hs.2.2.2 (by omega))
  | k + 4 => exact rfl

/-! ## Minimal printing -/

theorem printItems_itemsPrint (items : List CharOrRange) : ItemsPrint items (printItems items) := by
  induction items with
  | nil => exact .nil
  | cons i items ih =>
    cases i with
    | chr c => exact .chr ih
    | rng s e => exact .rng ih


theorem printRe_printsAs_aux (r : Regex) (hp : Printable r) (k : Nat) : PrintsAs r k (printRe r k) := by
  induction r generalizing k with
  | builtin n =>
    rw [printRe]
    by_cases hlt : Regex.level (Regex.builtin n) < k
    · rw [if_pos hlt]; exact .paren (.builtin n 0)
    · rw [if_neg hlt]; have hk : k ≤ 4 := Nat.le_of_not_lt hlt; exact .builtin n k
  | var n =>
    rw [printRe]
    by_cases hlt : Regex.level (Regex.var n) < k
    · rw [if_pos hlt]; exact .paren (.var n 0)
    · rw [if_neg hlt]; have hk : k ≤ 4 := Nat.le_of_not_lt hlt; exact .var n k
  | chr c =>
    rw [printRe]
    by_cases hlt : Regex.level (Regex.chr c) < k
    · rw [if_pos hlt]; exact .paren (.chr c 0)
    · rw [if_neg hlt]; have hk : k ≤ 4 := Nat.le_of_not_lt hlt; exact .chr c k
  | str cs =>
    rw [printRe]
    by_cases hlt : Regex.level (Regex.str cs) < k
    · rw [if_pos hlt]; exact .paren (.str cs 0)
    · rw [if_neg hlt]; have hk : k ≤ 4 := Nat.le_of_not_lt hlt; exact .str cs k
  | set items =>
    rw [printRe]
    by_cases hlt : Regex.level (Regex.set items) < k
    · rw [if_pos hlt]; exact .paren (.set 0 (printItems_itemsPrint items))
    · rw [if_neg hlt]; have hk : k ≤ 4 := Nat.le_of_not_lt hlt; exact .set k (printItems_itemsPrint items)
  | any =>
    rw [printRe]
    by_cases hlt : Regex.level Regex.any < k
    · rw [if_pos hlt]; exact .paren (.any 0)
    · rw [if_neg hlt]; have hk : k ≤ 4 := Nat.le_of_not_lt hlt; exact .any k
  | eoi =>
    rw [printRe]
    by_cases hlt : Regex.level Regex.eoi < k
    · rw [if_pos hlt]; exact .paren (.eoi 0)
    · rw [if_neg hlt]; have hk : k ≤ 4 := Nat.le_of_not_lt hlt; exact .eoi k
  | star x ih =>
    have hx : Printable x := hp
    rw [printRe]
    by_cases hlt : Regex.level (Regex.star x) < k
    · rw [if_pos hlt]; exact .paren (.star (Nat.zero_le _) (ih hx 2))
    · rw [if_neg hlt]; have hk : k ≤ 2 := Nat.le_of_not_lt hlt; exact .star hk (ih hx 2)
  | plus x ih =>
    have hx : Printable x := hp
    rw [printRe]
    by_cases hlt : Regex.level (Regex.plus x) < k
    · rw [if_pos hlt]; exact .paren (.plus (Nat.zero_le _) (ih hx 2))
    · rw [if_neg hlt]; have hk : k ≤ 2 := Nat.le_of_not_lt hlt; exact .plus hk (ih hx 2)
  | opt x ih =>
    have hx : Printable x := hp
    rw [printRe]
    by_cases hlt : Regex.level (Regex.opt x) < k
    · rw [if_pos hlt]; exact .paren (.opt (Nat.zero_le _) (ih hx 2))
    · rw [if_neg hlt]; have hk : k ≤ 2 := Nat.le_of_not_lt hlt; exact .opt hk (ih hx 2)
  | cat a b iha ihb =>
    have hab : Printable a ∧ Printable b ∧ ¬ DollarClash (printRe a 1) (printRe b 2) := hp
    rw [printRe]
    by_cases hlt : Regex.level (Regex.cat a b) < k
    · rw [if_pos hlt]; exact .paren (.cat (Nat.zero_le _) (iha hab.1 1) (ihb hab.2.1 2) hab.2.2)
    · rw [if_neg hlt]; have hk : k ≤ 1 := Nat.le_of_not_lt hlt; exact .cat hk (iha hab.1 1) (ihb hab.2.1 2) hab.2.2
  | alt a b iha ihb =>
    have hab : Printable a ∧ Printable b := hp
    rw [printRe]
    by_cases hlt : Regex.level (Regex.alt a b) < k
    · rw [if_pos hlt]; exact .paren (.alt (Nat.zero_le _) (iha hab.1 0) (ihb hab.2 1))
    · rw [if_neg hlt]; have hk : k ≤ 0 := Nat.le_of_not_lt hlt; exact .alt hk (iha hab.1 0) (ihb hab.2 1)
  | diff a b iha ihb =>
    have hab : Printable a ∧ Printable b := hp
    rw [printRe]
    by_cases hlt : Regex.level (Regex.diff a b) < k
    · rw [if_pos hlt]; exact .paren (.diff (Nat.zero_le _) (iha hab.1 3) (ihb hab.2 4))
    · rw [if_neg hlt]; have hk : k ≤ 3 := Nat.le_of_not_lt hlt; exact .diff hk (iha hab.1 3) (ihb hab.2 4)

end ParserProofs

theorem parseLevel_ge4 (k : Nat) (hk : 4 ≤ k) (fuel : Nat) (ts : List Tok) :
    parseLevel k fuel ts = parse4 fuel ts := by
  match k, hk with
  | k + 4, _ => rfl

theorem parseLevel_mono (k : Nat) (fuel fuel' : Nat) (h : fuel ≤ fuel') (ts : List Tok) (res : Regex × List Tok)
    (hp : parseLevel k fuel ts = some res) : parseLevel k fuel' ts = some res := by
  obtain ⟨i0, _, i1, _, i2, i3, _, i4⟩ := ParserProofs.mono_all fuel
  match k with
  | 0 => exact i0 _ _ hp _ h
  | 1 => exact i1 _ _ hp _ h
  | 2 => exact i2 _ _ hp _ h
  | 3 => exact i3 _ _ hp _ h
  | k + 4 =>
    rw [parseLevel_ge4 _ (by omega)] at hp ⊢
    exact i4 _ _ hp _ h

/-
The statement as first given is FALSE:

theorem parse_printsAs (r : Regex) (k : Nat) (ts : List Tok) (hk : k ≤ 4) (h : PrintsAs r k ts)
    (rest : List Tok) (hrest : StopsAt k rest) :
    ∃ fuel0, ∀ fuel, fuel0 ≤ fuel → parseLevel k fuel (ts ++ rest) = some (r, rest)

Counterexample: `r = .eoi`, `k = 0`, `ts = [.dollar]`, `rest = [.ident "x"]`: `PrintsAs.eoi 0`, and
`StopsAt 0 [.ident "x"]` holds (an identifier is not `|`, an atom start, a postfix operator or `#`), but
`parseLevel 0 fuel [.dollar, .ident "x"] = some (.var "x", [])` for every `fuel ≥ 5`: a printing that
ends in `$` followed by an identifier (or, for `k ≥ 2`, by another `$`: `parseLevel 2 fuel [.dollar,
.dollar] = none`) reads as a variable / built-in. The fix is the junction condition that `PrintsAs.cat`
already imposes inside a printing, imposed on the junction with `rest` as well: `¬ DollarClash ts rest`.
-/
example : parseLevel 0 100 ([Tok.dollar] ++ [Tok.ident "x"]) = some (.var "x", []) := by decide
example : parseLevel 2 100 ([Tok.dollar] ++ [Tok.dollar]) = none := by decide
example : PrintsAs .eoi 0 [.dollar] ∧ StopsAt 0 [.ident "x"] :=
  ⟨.eoi 0, by simp [StopsAt, startsAtom]⟩

/-- Every printing of a tree (with the required and any redundant parentheses) parses back to that
tree, at the level it was printed for, leaving the rest of the input — whenever the rest does not
start with a token that level would consume, and the printing does not end in `$` with the rest
starting with `$` or an identifier. -/
theorem parse_printsAs_partial (r : Regex) (k : Nat) (ts : List Tok) (hk : k ≤ 4) (h : PrintsAs r k ts)
    (rest : List Tok) (hrest : StopsAt k rest) (hclash : ¬ DollarClash ts rest) :
    ∃ fuel0, ∀ fuel, fuel0 ≤ fuel → parseLevel k fuel (ts ++ rest) = some (r, rest) := by
  obtain ⟨f, hf⟩ := ParserProofs.stmt_of_printsAs h hk rest (r, rest) (ParserProofs.StopsAt.mono hrest (by omega))
    hclash (ParserProofs.cont_stop hrest)
  exact ⟨f, fun fuel hle => parseLevel_mono k f fuel hle _ _ hf⟩

/-- the minimal printing is a printing -/
theorem printRe_printsAs (r : Regex) (hp : Printable r) (k : Nat) : PrintsAs r k (printRe r k) :=
  ParserProofs.printRe_printsAs_aux r hp k

/-- Printing any tree with the fewest parentheses the grammar allows and parsing it gives back the
tree. -/
theorem parse_print (r : Regex) (hp : Printable r) (rest : List Tok)
    (hrest : rest = [] ∨ ∃ s ts, rest = .other s :: ts) :
    ∃ fuel0, ∀ fuel, fuel0 ≤ fuel → parse0 fuel (printRe r 0 ++ rest) = some (r, rest) := by
  have hstop : StopsAt 0 rest := by
    rcases hrest with rfl | ⟨s, ts, rfl⟩
    · exact ⟨by simp, by simp [startsAtom], by simp, by simp⟩
    · exact ⟨by simp, by simp [startsAtom], by simp, by simp⟩
  have hclash : ¬ DollarClash (printRe r 0) rest := by
    rcases hrest with rfl | ⟨s, ts, rfl⟩
    · exact ParserProofs.not_clash_nil _
    · exact ParserProofs.not_clash_of_head (by simp) (by simp)
  exact parse_printsAs_partial r 0 (printRe r 0) (by omega) (printRe_printsAs r hp 0) rest hstop hclash

/-- the README's `'a' 'b' | 'c'+` -/
example : parseRegex (printRe (.alt (.cat (.chr 97) (.chr 98)) (.plus (.chr 99))) 0)
    = some (.alt (.cat (.chr 97) (.chr 98)) (.plus (.chr 99)), []) := by decide

example : printRe (.star (.alt (.chr 97) (.chr 98))) 0
    = [.lparen, .chr 97, .bar, .chr 98, .rparen, .star] := by decide

end Lexgen
