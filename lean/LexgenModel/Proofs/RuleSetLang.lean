import LexgenModel.Proofs.Thompson
import LexgenModel.Proofs.Subset
/-!
# Rule-set level language theorem

Composition of the Thompson construction (`addRegex_correct`) and the subset construction
(`nfaToDfa_correct_partial`): the DFA of a rule set accepts, after every word, exactly the rules
whose regex denotes the word, in rule order (`ruleSet_lang`); and `compile_rule_set` builds that
DFA (`compileRuleSet_core`).
-/

set_option linter.unusedSimpArgs false
set_option linter.unusedVariables false
namespace Lexgen
namespace RuleSetLang

/-- the two copies of `TargetsNonempty` are the same statement -/
theorem tne_iff (n : NFA) : Thompson.TargetsNonempty n ↔ Subset.TargetsNonempty n := Iff.rfl

/-! ## Lists -/

theorem pairwise_of_ascending {S : List Nat} (h : Ascending S) : S.Pairwise (· < ·) := by
  induction S with
  | nil => exact List.Pairwise.nil
  | cons a l ih =>
    have h' := Subset.ascending_cons.mp h
    exact List.Pairwise.cons h'.1 (ih h'.2)

theorem filterMap_none {f : Nat → Option Acc} {T : List Nat} (h : ∀ u ∈ T, f u = none) :
    T.filterMap f = [] := by
  induction T with
  | nil => rfl
  | cons a T ih =>
    rw [List.filterMap_cons, h a List.mem_cons_self]
    exact ih (fun u hu => h u (List.mem_cons_of_mem _ hu))

theorem filterMap_congr' {f g : Nat → Option Acc} {T : List Nat} (h : ∀ u ∈ T, f u = g u) :
    T.filterMap f = T.filterMap g := by
  induction T with
  | nil => rfl
  | cons a T ih =>
    rw [List.filterMap_cons, List.filterMap_cons, h a List.mem_cons_self,
      ih (fun u hu => h u (List.mem_cons_of_mem _ hu))]

/-- an ascending list splits at a bound `L` -/
theorem filterMap_split (f : Nat → Option Acc) (L : Nat) (S : List Nat) (hS : S.Pairwise (· < ·)) :
    S.filterMap f = (S.filter (fun u => decide (u < L))).filterMap f ++
      (S.filter (fun u => decide (L ≤ u))).filterMap f := by
  induction S with
  | nil => rfl
  | cons a T ih =>
    have hp := List.pairwise_cons.mp hS
    by_cases ha : a < L
    · have h1 : decide (a < L) = true := decide_eq_true ha
      have h2 : ¬ (decide (L ≤ a) = true) := by
        intro h; have := of_decide_eq_true h; omega
      rw [List.filter_cons_of_pos (p := fun u => decide (u < L)) h1,
        List.filter_cons_of_neg (p := fun u => decide (L ≤ u)) h2, List.filterMap_cons, List.filterMap_cons,
        ih hp.2]
      cases f a with
      | none => rfl
      | some e => rfl
    · have h1 : (a :: T).filter (fun u => decide (u < L)) = [] := by
        rw [List.filter_eq_nil_iff]
        intro u hu h
        have hlt := of_decide_eq_true h
        rcases List.mem_cons.mp hu with rfl | hu
        · exact ha hlt
        · have := hp.1 u hu; omega
      have h2 : (a :: T).filter (fun u => decide (L ≤ u)) = a :: T := by
        rw [List.filter_eq_self]
        intro u hu
        apply decide_eq_true
        rcases List.mem_cons.mp hu with rfl | hu
        · omega
        · have := hp.1 u hu; omega
      rw [h1, h2]
      rfl

/-- in an ascending list bounded below by `L`, only the head can be `L` -/
theorem filterMap_tail_pos (f : Nat → Option Acc) (L : Nat) (e : Acc) (T : List Nat)
    (hT : T.Pairwise (· < ·)) (hge : ∀ u ∈ T, L ≤ u) (hnone : ∀ u ∈ T, u ≠ L → f u = none)
    (hL : f L = some e) (hmem : L ∈ T) : T.filterMap f = [e] := by
  cases T with
  | nil => cases hmem
  | cons a T =>
    have hp := List.pairwise_cons.mp hT
    have haL : a = L := by
      rcases List.mem_cons.mp hmem with h | h
      · exact h.symm
      · have h1 := hp.1 L h
        have h2 := hge a List.mem_cons_self
        omega
    subst haL
    rw [List.filterMap_cons, hL]
    have : T.filterMap f = [] := by
      apply filterMap_none
      intro u hu
      apply hnone u (List.mem_cons_of_mem _ hu)
      have := hp.1 u hu
      omega
    rw [this]

theorem filterMap_tail_neg (f : Nat → Option Acc) (L : Nat) (T : List Nat)
    (hnone : ∀ u ∈ T, u ≠ L → f u = none) (hmem : L ∉ T) : T.filterMap f = [] := by
  apply filterMap_none
  intro u hu
  apply hnone u hu
  intro h
  subst h
  exact hmem hu

/-! ## `matchingAccs` of a rule list extended on the right -/

theorem matchingAccs_nil (w : List Sym) : matchingAccs [] w = [] := rfl

open Classical in
theorem matchingAccs_snoc_pos (pre : List CoreRule) (r : CoreRule) (w : List Sym) (h : den r.re w) :
    matchingAccs (pre ++ [r]) w = matchingAccs pre w ++ [{ value := r.value, ctx := r.ctx }] := by
  unfold matchingAccs
  rw [List.filter_append, List.map_append]
  have : decide (den r.re w) = true := decide_eq_true h
  rw [List.filter_cons_of_pos (p := fun (x : CoreRule) => decide (den x.re w)) (a := r) this]
  rfl

open Classical in
theorem matchingAccs_snoc_neg (pre : List CoreRule) (r : CoreRule) (w : List Sym) (h : ¬ den r.re w) :
    matchingAccs (pre ++ [r]) w = matchingAccs pre w := by
  unfold matchingAccs
  rw [List.filter_append, List.map_append]
  have : ¬ (decide (den r.re w) = true) := fun hd => h (of_decide_eq_true hd)
  rw [List.filter_cons_of_neg (p := fun (x : CoreRule) => decide (den x.re w)) (a := r) this]
  simp only [List.filter_nil, List.map_nil, List.append_nil]

/-! ## The invariant of the `add_regex` fold -/

/-- every ascending enumeration of the states reachable by `w` lists exactly the accept entries of
the rules matching `w`, in rule order -/
def Inv (rules : List CoreRule) (n : NFA) : Prop :=
  ∀ (w : List Sym) (S : List Nat), S.Pairwise (· < ·) → (∀ u, u ∈ S ↔ NPath n 0 w u) →
    S.filterMap (fun u => (n.st u).acc) = matchingAccs rules w

structure Built (rules : List CoreRule) (n : NFA) : Prop where
  wf : NFAWF n
  shape : Thompson.NFAShape n
  tne : Thompson.TargetsNonempty n
  inv : Inv rules n

theorem npath_lt {n : NFA} (hwf : NFAWF n) {w : List Sym} {u : Nat} (h : NPath n 0 w u) : u < n.length := by
  have h0 := hwf.nonempty
  rcases Thompson.path_end hwf ((Thompson.npath_iff_path n 0 w u).mp h) with h1 | h1
  · omega
  · exact h1

theorem new_acc (u : Nat) : (NFA.new.st u).acc = none := by
  cases u with
  | zero => rfl
  | succ k => rw [Thompson.st_ge NFA.new (k + 1) (by simp [NFA.new])]; rfl

theorem built_new : Built [] NFA.new := by
  refine ⟨Thompson.wf_new, Thompson.shape_new, Thompson.targetsNonempty_new, ?_⟩
  intro w S _ _
  rw [matchingAccs_nil]
  exact filterMap_none (fun u _ => new_acc u)

theorem built_step {pre : List CoreRule} {n n' : NFA} (hb : Built pre n) (r : CoreRule)
    (hre : regexPiecesOK r.re) (h : n.addRegex r.re r.ctx r.value = .ok n') : Built (pre ++ [r]) n' := by
  obtain ⟨wf', hlen, hacc, hden, haccOld, hpathOld, haccNew⟩ :=
    addRegex_correct n hb.wf hb.shape r.re hre r.ctx r.value n' h
  refine ⟨wf', addRegex_shape n hb.wf hb.shape r.re hre r.ctx r.value n' h,
    addRegex_targetsNonempty n hb.wf hb.tne r.re hre r.ctx r.value n' h, ?_⟩
  intro w S hS hmem
  rw [filterMap_split _ n.length S hS]
  have h1 : (S.filter (fun u => decide (u < n.length))).filterMap (fun u => (n'.st u).acc) =
      matchingAccs pre w := by
    have hc : (S.filter (fun u => decide (u < n.length))).filterMap (fun u => (n'.st u).acc) =
        (S.filter (fun u => decide (u < n.length))).filterMap (fun u => (n.st u).acc) := by
      apply filterMap_congr'
      intro u hu
      exact haccOld u (of_decide_eq_true (List.mem_filter.mp hu).2)
    rw [hc]
    apply hb.inv w _ (hS.filter _)
    intro u
    rw [List.mem_filter, hmem]
    constructor
    · rintro ⟨hp, hu⟩
      exact (hpathOld u w (of_decide_eq_true hu)).mp hp
    · intro hp
      have hu := npath_lt hb.wf hp
      exact ⟨(hpathOld u w hu).mpr hp, decide_eq_true hu⟩
  rw [h1]
  have hT : (S.filter (fun u => decide (n.length ≤ u))).Pairwise (· < ·) := hS.filter _
  have hge : ∀ u ∈ S.filter (fun u => decide (n.length ≤ u)), n.length ≤ u :=
    fun u hu => of_decide_eq_true (List.mem_filter.mp hu).2
  have hnone : ∀ u ∈ S.filter (fun u => decide (n.length ≤ u)), u ≠ n.length → (n'.st u).acc = none := by
    intro u hu hne
    have hm := List.mem_filter.mp hu
    have h2 := of_decide_eq_true hm.2
    exact haccNew u (by omega) (npath_lt wf' ((hmem u).mp hm.1))
  have hLmem : n.length ∈ S.filter (fun u => decide (n.length ≤ u)) ↔ den r.re w := by
    rw [List.mem_filter, hmem, hden]
    constructor
    · exact fun h => h.1
    · exact fun h => ⟨h, decide_eq_true (Nat.le_refl _)⟩
  by_cases hd : den r.re w
  · rw [matchingAccs_snoc_pos pre r w hd,
      filterMap_tail_pos (fun u => (n'.st u).acc) n.length _ _ hT hge hnone hacc (hLmem.mpr hd)]
  · rw [matchingAccs_snoc_neg pre r w hd,
      filterMap_tail_neg (fun u => (n'.st u).acc) n.length _ hnone (fun h => hd (hLmem.mp h)),
      List.append_nil]

/-- the left fold of `add_regex`, from any NFA satisfying the invariant -/
theorem built_fold (rules : List CoreRule) : ∀ (pre : List CoreRule) (n0 n : NFA), Built pre n0 →
    (∀ r ∈ rules, regexPiecesOK r.re) →
    rules.foldlM (fun n r => n.addRegex r.re r.ctx r.value) n0 = .ok n → Built (pre ++ rules) n := by
  induction rules with
  | nil =>
    intro pre n0 n hb _ h
    rw [List.foldlM_nil] at h
    cases h
    rw [List.append_nil]
    exact hb
  | cons r rest ih =>
    intro pre n0 n hb hre h
    rw [List.foldlM_cons] at h
    obtain ⟨n1, h1, h2⟩ := Thompson.bind_ok h
    have hb1 := built_step hb r (hre r List.mem_cons_self) h1
    have := ih (pre ++ [r]) n1 n hb1 (fun x hx => hre x (List.mem_cons_of_mem _ hx)) h2
    rw [List.append_assoc] at this
    exact this

theorem built_buildNfa (rules : List CoreRule) (hre : ∀ r ∈ rules, regexPiecesOK r.re) (nfa : NFA)
    (h : buildNfa rules = .ok nfa) : Built rules nfa := by
  have := built_fold rules [] NFA.new nfa built_new hre h
  rw [List.nil_append] at this
  exact this

/-! ## `compile_rule_set` as a fold -/

/-- the body of the fold in `compileRuleSet` -/
def step (acc : NFA × Bindings × List (DFA Nat)) (item : RuleOrBinding) :
    Except CompileError (NFA × Bindings × List (DFA Nat)) := do
  let (nfa, b, ctxs) := acc
  match item with
  | .rule r => do
    let (nfa, ctxs) ← compileSingleRule nfa r b ctxs
    pure (nfa, b, ctxs)
  | .binding name re =>
    if (b.find? name).isSome then throw (.dupVar name)
    else pure (nfa, b ++ [(name, re)], ctxs)

theorem newRightCtx_spec {ctxs : List (DFA Nat)} {b : Bindings} {c : Regex} {ctxs' : List (DFA Nat)} {i : Nat}
    (h : newRightCtx ctxs b c = .ok (ctxs', i)) : ctxs'.length = ctxs.length + 1 ∧ i = ctxs.length := by
  unfold newRightCtx at h
  obtain ⟨re, _, h⟩ := Thompson.bind_ok h
  obtain ⟨nfa, _, h⟩ := Thompson.bind_ok h
  cases hd : nfaToDfa nfa with
  | none => rw [hd] at h; cases h
  | some d =>
    rw [hd] at h
    cases h
    exact ⟨by rw [List.length_append, List.length_singleton], rfl⟩

theorem compileSingleRule_spec {n0 n1 : NFA} {r : SingleRule} {b : Bindings} {ctxs c1 : List (DFA Nat)}
    (h : compileSingleRule n0 r b ctxs = .ok (n1, c1)) :
    ∃ re, inlineVars b (b.length + 1) r.re = .ok re ∧
      ((r.ctx = none ∧ c1 = ctxs ∧ n0.addRegex re none r.rhs = .ok n1) ∨
       ((∃ c, r.ctx = some c) ∧ c1.length = ctxs.length + 1 ∧
          n0.addRegex re (some ctxs.length) r.rhs = .ok n1)) := by
  unfold compileSingleRule at h
  cases hc : r.ctx with
  | none =>
    simp only [hc] at h
    obtain ⟨⟨cx, ctx⟩, h0, h⟩ := Thompson.bind_ok h
    cases h0
    obtain ⟨re, hre, h⟩ := Thompson.bind_ok h
    obtain ⟨n1', hadd, h⟩ := Thompson.bind_ok h
    cases h
    exact ⟨re, hre, Or.inl ⟨rfl, rfl, hadd⟩⟩
  | some c =>
    simp only [hc] at h
    obtain ⟨⟨cx', i⟩, hn, h⟩ := Thompson.bind_ok h
    obtain ⟨⟨cx, ctx⟩, h0, h⟩ := Thompson.bind_ok h
    cases h0
    obtain ⟨re, hre, h⟩ := Thompson.bind_ok h
    obtain ⟨n1', hadd, h⟩ := Thompson.bind_ok h
    cases h
    obtain ⟨hl, hi⟩ := newRightCtx_spec hn
    subst hi
    exact ⟨re, hre, Or.inr ⟨⟨c, rfl⟩, hl, hadd⟩⟩

theorem fold_core (items : List RuleOrBinding) : ∀ (n0 : NFA) (b : Bindings) (ctxs : List (DFA Nat))
    (n : NFA) (b' : Bindings) (ctxs' : List (DFA Nat)),
    items.foldlM step (n0, b, ctxs) = .ok (n, b', ctxs') →
    ∃ rules, coreRules items b ctxs.length = some rules ∧
      rules.foldlM (fun n r => n.addRegex r.re r.ctx r.value) n0 = .ok n := by
  induction items with
  | nil =>
    intro n0 b ctxs n b' ctxs' h
    rw [List.foldlM_nil] at h
    cases h
    exact ⟨[], rfl, rfl⟩
  | cons item rest ih =>
    intro n0 b ctxs n b' ctxs' h
    rw [List.foldlM_cons] at h
    obtain ⟨⟨n1, b1, c1⟩, h1, h2⟩ := Thompson.bind_ok h
    cases item with
    | binding name re =>
      simp only [step] at h1
      split at h1
      · cases h1
      · cases h1
        obtain ⟨rules, hr, hf⟩ := ih _ _ _ _ _ _ h2
        exact ⟨rules, by rw [coreRules]; exact hr, hf⟩
    | rule r =>
      simp only [step] at h1
      obtain ⟨⟨n1', c1'⟩, hc, h1⟩ := Thompson.bind_ok h1
      cases h1
      obtain ⟨rules, hr, hf⟩ := ih _ _ _ _ _ _ h2
      obtain ⟨re, hre, hcase⟩ := compileSingleRule_spec hc
      rcases hcase with ⟨hctx, hc1, hadd⟩ | ⟨⟨c, hctx⟩, hc1, hadd⟩
      · subst hc1
        refine ⟨{ re := re, ctx := none, value := r.rhs } :: rules, ?_, ?_⟩
        · simp only [coreRules, hre, hctx, hr, Option.map_some]
        · rw [List.foldlM_cons, hadd]
          exact hf
      · rw [hc1] at hr
        refine ⟨{ re := re, ctx := some ctxs.length, value := r.rhs } :: rules, ?_, ?_⟩
        · simp only [coreRules, hre, hctx, hr, Option.map_some]
        · rw [List.foldlM_cons, hadd]
          exact hf

end RuleSetLang

open RuleSetLang in
/-- The DFA of a rule set accepts, after any word over the extended alphabet, exactly the rules
whose regex denotes that word, listed in rule order (= priority order); when it is dead no rule
matches. -/
theorem ruleSet_lang (rules : List CoreRule) (hre : ∀ r ∈ rules, regexPiecesOK r.re) (nfa : NFA)
    (h : buildNfa rules = .ok nfa) (d : DFA Nat) (hd : nfaToDfa nfa = some d) (w : List Sym) :
    match reachSym d 0 w with
    | some t => (d.st t).accepting = matchingAccs rules w
    | none => matchingAccs rules w = [] := by
  have hb := built_buildNfa rules hre nfa h
  have hsc := (nfaToDfa_correct_partial nfa hb.wf ((tne_iff nfa).mp hb.tne) d hd).1 w
  cases hr : reachSym d 0 w with
  | some t =>
    rw [hr] at hsc
    obtain ⟨S, hasc, _, hmem, hacc⟩ := hsc
    show (d.st t).accepting = matchingAccs rules w
    rw [hacc]
    exact hb.inv w S (pairwise_of_ascending hasc) hmem
  | none =>
    rw [hr] at hsc
    show matchingAccs rules w = []
    have := hb.inv w [] List.Pairwise.nil (fun u => ⟨fun hu => (by cases hu), fun hp => absurd hp (hsc u)⟩)
    rw [← this]
    rfl

open RuleSetLang in
/-- `compile_rule_set` builds exactly that NFA and DFA from the rule set's items -/
theorem compileRuleSet_core (items : List RuleOrBinding) (b : Bindings) (ctxs : List (DFA Nat)) (d : DFA Nat)
    (ctxs' : List (DFA Nat)) (h : compileRuleSet items b ctxs = .ok (d, ctxs')) :
    ∃ rules nfa, coreRules items b ctxs.length = some rules ∧ buildNfa rules = .ok nfa ∧
      nfaToDfa nfa = some d := by
  unfold compileRuleSet at h
  obtain ⟨⟨n, b', c'⟩, hf, h⟩ := Thompson.bind_ok h
  have hf' : items.foldlM step (NFA.new, b, ctxs) = .ok (n, b', c') := hf
  obtain ⟨rules, hr, hfold⟩ := fold_core items _ _ _ _ _ _ hf'
  refine ⟨rules, n, hr, hfold, ?_⟩
  dsimp only at h
  cases hd : nfaToDfa n with
  | none => rw [hd] at h; cases h
  | some d' =>
    rw [hd] at h
    cases h
    rfl

end Lexgen
