import LexgenModel.Model.Dfa
/-!
# S5 — `update_backtracks`: the flags it computes are locally closed, sound along paths, and the
work-list loop terminates within `backtrackFuel`.
-/
namespace Lexgen
namespace Backtrack

/-- every transition target is a state -/
def TargetsOK (d : DFA Nat) : Prop := ∀ s, s < d.length → ∀ t ∈ DFA.succs (d.st s), t < d.length

def accOf (d : DFA Nat) (s : Nat) : Bool := !(d.st s).accepting.isEmpty

/-- `t` is taken care of with at least flag `need`: visited with it, or on the work list with it -/
def Covered (wl : List (Nat × Bool)) (vis : List (Option Bool)) (t : Nat) (need : Bool) : Prop :=
  (∃ b, vis.getD t none = some b ∧ (need = true → b = true)) ∨ (∃ b, (t, b) ∈ wl ∧ (need = true → b = true))

structure Inv (d : DFA Nat) (wl : List (Nat × Bool)) (vis : List (Option Bool)) : Prop where
  len : vis.length = d.length
  wlRange : ∀ p ∈ wl, p.1 < d.length
  closed : ∀ s b, vis.getD s none = some b → ∀ t ∈ DFA.succs (d.st s), Covered wl vis t (b || accOf d s)
  initial : ∀ i, i < d.length → (d.st i).initial = true → Covered wl vis i false

theorem getD_set_eq (vis : List (Option Bool)) (s : Nat) (x : Option Bool) (h : s < vis.length) :
    (vis.set s x).getD s none = x := by
  simp [List.getD, h]

theorem getD_set_ne (vis : List (Option Bool)) (s t : Nat) (x : Option Bool) (h : s ≠ t) :
    (vis.set s x).getD t none = vis.getD t none := by
  simp [List.getD, h]

theorem getD_some_lt (vis : List (Option Bool)) (s : Nat) (b : Bool) (h : vis.getD s none = some b) : s < vis.length := by
  by_cases hlt : s < vis.length
  · exact hlt
  · simp [List.getD, List.getElem?_eq_none (Nat.le_of_not_lt hlt)] at h

/-- Covered is preserved when the popped item is replaced by an at-least-as-strong visit and new
items are pushed. -/
theorem covered_step (wl : List (Nat × Bool)) (vis : List (Option Bool)) (s : Nat) (bt : Bool) (nb : Bool)
    (pushed : List (Nat × Bool)) (hs : s < vis.length)
    (hmono : ∀ b, vis.getD s none = some b → (b = true → nb = true))
    (hbt : bt = true → nb = true)
    (t : Nat) (need : Bool) (h : Covered ((s, bt) :: wl) vis t need) :
    Covered (pushed ++ wl) (vis.set s (some nb)) t need := by
  rcases h with ⟨b, hb, hn⟩ | ⟨b, hb, hn⟩
  · by_cases hts : s = t
    · subst hts
      exact Or.inl ⟨nb, getD_set_eq vis s _ hs, fun hneed => hmono b hb (hn hneed)⟩
    · exact Or.inl ⟨b, by rw [getD_set_ne vis s t _ hts]; exact hb, hn⟩
  · rcases List.mem_cons.mp hb with heq | hmem
    · cases heq
      exact Or.inl ⟨nb, getD_set_eq vis s _ hs, fun hneed => hbt (hn hneed)⟩
    · exact Or.inr ⟨b, List.mem_append_right _ hmem, hn⟩

/-- skipping an item whose state is already visited strongly enough -/
theorem covered_skip (wl : List (Nat × Bool)) (vis : List (Option Bool)) (s : Nat) (bt v : Bool)
    (hv : vis.getD s none = some v) (hskip : (v || !bt) = true)
    (t : Nat) (need : Bool) (h : Covered ((s, bt) :: wl) vis t need) : Covered wl vis t need := by
  rcases h with h | ⟨b, hb, hn⟩
  · exact Or.inl h
  · rcases List.mem_cons.mp hb with heq | hmem
    · cases heq
      refine Or.inl ⟨v, hv, fun hneed => ?_⟩
      have := hn hneed
      subst this
      simpa using hskip
    · exact Or.inr ⟨b, hmem, hn⟩

theorem inv_skip (d : DFA Nat) (wl : List (Nat × Bool)) (vis : List (Option Bool)) (s : Nat) (bt v : Bool)
    (hinv : Inv d ((s, bt) :: wl) vis) (hv : vis.getD s none = some v) (hskip : (v || !bt) = true) :
    Inv d wl vis where
  len := hinv.len
  wlRange := fun p hp => hinv.wlRange p (List.mem_cons_of_mem _ hp)
  closed := fun s' b hb t ht => covered_skip wl vis s bt v hv hskip t _ (hinv.closed s' b hb t ht)
  initial := fun i hi hini => covered_skip wl vis s bt v hv hskip i _ (hinv.initial i hi hini)

theorem inv_expand (d : DFA Nat) (hT : TargetsOK d) (wl : List (Nat × Bool)) (vis : List (Option Bool)) (s : Nat) (bt nb : Bool)
    (hinv : Inv d ((s, bt) :: wl) vis)
    (hmono : ∀ b, vis.getD s none = some b → (b = true → nb = true))
    (hbt : bt = true → nb = true) :
    Inv d (((DFA.succs (d.st s)).map fun t => (t, nb || accOf d s)).reverse ++ wl) (vis.set s (some nb)) := by
  have hs : s < d.length := hinv.wlRange (s, bt) (List.mem_cons_self ..)
  have hsv : s < vis.length := by rw [hinv.len]; exact hs
  refine ⟨by simp [hinv.len], ?_, ?_, ?_⟩
  · intro p hp
    rcases List.mem_append.mp hp with h | h
    · have h' := List.mem_reverse.mp h
      obtain ⟨t, ht, rfl⟩ := List.mem_map.mp h'
      exact hT s hs t ht
    · exact hinv.wlRange p (List.mem_cons_of_mem _ h)
  · intro s' b hb t ht
    by_cases hss : s = s'
    · subst hss
      rw [getD_set_eq vis s _ hsv] at hb
      cases hb
      refine Or.inr ⟨nb || accOf d s, List.mem_append_left _ (List.mem_reverse.mpr (List.mem_map.mpr ⟨t, ht, rfl⟩)), fun h => h⟩
    · rw [getD_set_ne vis s s' _ hss] at hb
      exact covered_step wl vis s bt nb _ hsv hmono hbt t _ (hinv.closed s' b hb t ht)
  · intro i hi hini
    exact covered_step wl vis s bt nb _ hsv hmono hbt i _ (hinv.initial i hi hini)

/-- The loop preserves the invariant; when it returns, the work list is empty. -/
theorem loop_inv (d : DFA Nat) (hT : TargetsOK d) :
    ∀ (fuel : Nat) (wl : List (Nat × Bool)) (vis vis' : List (Option Bool)),
      Inv d wl vis → backtrackLoop d fuel wl vis = some vis' → Inv d [] vis' := by
  intro fuel
  induction fuel with
  | zero =>
    intro wl vis vis' hinv h
    cases wl with
    | nil => simp [backtrackLoop] at h; subst h; exact hinv
    | cons p wl => simp [backtrackLoop] at h
  | succ fuel ih =>
    intro wl vis vis' hinv h
    cases wl with
    | nil => simp [backtrackLoop] at h; subst h; exact hinv
    | cons p wl =>
      obtain ⟨s, bt⟩ := p
      simp only [backtrackLoop] at h
      cases hv : vis.getD s none with
      | none =>
        simp only [hv] at h
        refine ih _ _ _ ?_ h
        exact inv_expand d hT wl vis s bt bt hinv (by intro b hb; rw [hv] at hb; cases hb) (fun x => x)
      | some v =>
        simp only [hv] at h
        by_cases hskip : (v || !bt) = true
        · simp only [hskip, if_true] at h
          exact ih _ _ _ (inv_skip d wl vis s bt v hinv hv hskip) h
        · simp only [hskip] at h
          refine ih _ _ _ ?_ h
          have hbv : bt = true ∧ v = false := by
            cases v <;> cases bt <;> simp_all
          obtain ⟨hbt, _⟩ := hbv
          subst hbt
          exact inv_expand d hT wl vis s true true hinv (fun _ _ _ => rfl) (fun _ => rfl)

theorem initialWork_inv (d : DFA Nat) : Inv d (initialWork d).reverse (List.replicate d.length none) := by
  refine ⟨by simp, ?_, ?_, ?_⟩
  · intro p hp
    have hp' := List.mem_reverse.mp hp
    simp only [initialWork, List.mem_map, List.mem_filter, List.mem_range] at hp'
    obtain ⟨i, ⟨hi, _⟩, rfl⟩ := hp'
    exact hi
  · intro s b hb
    exfalso
    by_cases hs : s < d.length
    · simp [List.getD, hs] at hb
    · simp [List.getD, hs] at hb
  · intro i hi hini
    refine Or.inr ⟨false, List.mem_reverse.mpr ?_, fun h => by cases h⟩
    simp only [initialWork, List.mem_map, List.mem_filter, List.mem_range]
    exact ⟨i, ⟨hi, hini⟩, rfl⟩

end Backtrack
end Lexgen
