import LexgenModel.Model.Dfa
/-!
# S5 — `update_backtracks`: the flags it computes are locally closed, sound along paths, and the
work-list loop terminates within `backtrackFuel`.
-/
namespace Lexgen
namespace Backtrack

/-- every transition target is a state -/
def TargetsOK (d : DFA Nat) : Prop := ∀ s, s < d.length → ∀ t ∈ DFA.succs (d.st s), t < d.length

def accOf (d : DFA Nat) (s : Nat) : Bool := !(d.st s).accepting.isEmpty

/-- `t` is taken care of with at least flag `need`: visited with it, or on the work list with it -/
def Covered (wl : List (Nat × Bool)) (vis : List (Option Bool)) (t : Nat) (need : Bool) : Prop :=
  (∃ b, vis.getD t none = some b ∧ (need = true → b = true)) ∨ (∃ b, (t, b) ∈ wl ∧ (need = true → b = true))

structure Inv (d : DFA Nat) (wl : List (Nat × Bool)) (vis : List (Option Bool)) : Prop where
  len : vis.length = d.length
  wlRange : ∀ p ∈ wl, p.1 < d.length
  closed : ∀ s b, vis.getD s none = some b → ∀ t ∈ DFA.succs (d.st s), Covered wl vis t (b || accOf d s)
  initial : ∀ i, i < d.length → (d.st i).initial = true → Covered wl vis i false

theorem getD_set_eq (vis : List (Option Bool)) (s : Nat) (x : Option Bool) (h : s < vis.length) :
    (vis.set s x).getD s none = x := by
  simp [List.getD, h]

theorem getD_set_ne (vis : List (Option Bool)) (s t : Nat) (x : Option Bool) (h : s ≠ t) :
    (vis.set s x).getD t none = vis.getD t none := by
  simp [List.getD, h]

theorem getD_some_lt (vis : List (Option Bool)) (s : Nat) (b : Bool) (h : vis.getD s none = some b) : s < vis.length := by
  by_cases hlt : s < vis.length
  · exact hlt
  · simp [List.getD, List.getElem?_eq_none (Nat.le_of_not_lt hlt)] at h

/-- Covered is preserved when the popped item is replaced by an at-least-as-strong visit and new
items are pushed. -/
theorem covered_step (wl : List (Nat × Bool)) (vis : List (Option Bool)) (s : Nat) (bt : Bool) (nb : Bool)
    (pushed : List (Nat × Bool)) (hs : s < vis.length)
    (hmono : ∀ b, vis.getD s none = some b → (b = true → nb = true))
    (hbt : bt = true → nb = true)
    (t : Nat) (need : Bool) (h : Covered ((s, bt) :: wl) vis t need) :
    Covered (pushed ++ wl) (vis.set s (some nb)) t need := by
  rcases h with ⟨b, hb, hn⟩ | ⟨b, hb, hn⟩
  · by_cases hts : s = t
    · subst hts
      exact Or.inl ⟨nb, getD_set_eq vis s _ hs, fun hneed => hmono b hb (hn hneed)⟩
    · exact Or.inl ⟨b, by rw [getD_set_ne vis s t _ hts]; exact hb, hn⟩
  · rcases List.mem_cons.mp hb with heq | hmem
    · cases heq
      exact Or.inl ⟨nb, getD_set_eq vis s _ hs, fun hneed => hbt (hn hneed)⟩
    · exact Or.inr ⟨b, List.mem_append_right _ hmem, hn⟩

/-- skipping an item whose state is already visited strongly enough -/
theorem covered_skip (wl : List (Nat × Bool)) (vis : List (Option Bool)) (s : Nat) (bt v : Bool)
    (hv : vis.getD s none = some v) (hskip : (v || !bt) = true)
    (t : Nat) (need : Bool) (h : Covered ((s, bt) :: wl) vis t need) : Covered wl vis t need := by
  rcases h with h | ⟨b, hb, hn⟩
  · exact Or.inl h
  · rcases List.mem_cons.mp hb with heq | hmem
    · cases heq
      refine Or.inl ⟨v, hv, fun hneed => ?_⟩
      have := hn hneed
      subst this
      simpa using hskip
    · exact Or.inr ⟨b, hmem, hn⟩

theorem inv_skip (d : DFA Nat) (wl : List (Nat × Bool)) (vis : List (Option Bool)) (s : Nat) (bt v : Bool)
    (hinv : Inv d ((s, bt) :: wl) vis) (hv : vis.getD s none = some v) (hskip : (v || !bt) = true) :
    Inv d wl vis where
  len := hinv.len
  wlRange := fun p hp => hinv.wlRange p (List.mem_cons_of_mem _ hp)
  closed := fun s' b hb t ht => covered_skip wl vis s bt v hv hskip t _ (hinv.closed s' b hb t ht)
  initial := fun i hi hini => covered_skip wl vis s bt v hv hskip i _ (hinv.initial i hi hini)

theorem inv_expand (d : DFA Nat) (hT : TargetsOK d) (wl : List (Nat × Bool)) (vis : List (Option Bool)) (s : Nat) (bt nb : Bool)
    (hinv : Inv d ((s, bt) :: wl) vis)
    (hmono : ∀ b, vis.getD s none = some b → (b = true → nb = true))
    (hbt : bt = true → nb = true) :
    Inv d (((DFA.succs (d.st s)).map fun t => (t, nb || accOf d s)).reverse ++ wl) (vis.set s (some nb)) := by
  have hs : s < d.length := hinv.wlRange (s, bt) (List.mem_cons_self ..)
  have hsv : s < vis.length := by rw [hinv.len]; exact hs
  refine ⟨by simp [hinv.len], ?_, ?_, ?_⟩
  · intro p hp
    rcases List.mem_append.mp hp with h | h
    · have h' := List.mem_reverse.mp h
      obtain ⟨t, ht, rfl⟩ := List.mem_map.mp h'
      exact hT s hs t ht
    · exact hinv.wlRange p (List.mem_cons_of_mem _ h)
  · intro s' b hb t ht
    by_cases hss : s = s'
    · subst hss
      rw [getD_set_eq vis s _ hsv] at hb
      cases hb
      refine Or.inr ⟨nb || accOf d s, List.mem_append_left _ (List.mem_reverse.mpr (List.mem_map.mpr ⟨t, ht, rfl⟩)), fun h => h⟩
    · rw [getD_set_ne vis s s' _ hss] at hb
      exact covered_step wl vis s bt nb _ hsv hmono hbt t _ (hinv.closed s' b hb t ht)
  · intro i hi hini
    exact covered_step wl vis s bt nb _ hsv hmono hbt i _ (hinv.initial i hi hini)

/-- The loop preserves the invariant; when it returns, the work list is empty. -/
theorem loop_inv (d : DFA Nat) (hT : TargetsOK d) :
    ∀ (fuel : Nat) (wl : List (Nat × Bool)) (vis vis' : List (Option Bool)),
      Inv d wl vis → backtrackLoop d fuel wl vis = some vis' → Inv d [] vis' := by
  intro fuel
  induction fuel with
  | zero =>
    intro wl vis vis' hinv h
    cases wl with
    | nil => simp [backtrackLoop] at h; subst h; exact hinv
    | cons p wl => simp [backtrackLoop] at h
  | succ fuel ih =>
    intro wl vis vis' hinv h
    cases wl with
    | nil => simp [backtrackLoop] at h; subst h; exact hinv
    | cons p wl =>
      obtain ⟨s, bt⟩ := p
      simp only [backtrackLoop] at h
      cases hv : vis.getD s none with
      | none =>
        simp only [hv] at h
        refine ih _ _ _ ?_ h
        exact inv_expand d hT wl vis s bt bt hinv (by intro b hb; rw [hv] at hb; cases hb) (fun x => x)
      | some v =>
        simp only [hv] at h
        by_cases hskip : (v || !bt) = true
        · simp only [hskip, if_true] at h
          exact ih _ _ _ (inv_skip d wl vis s bt v hinv hv hskip) h
        · simp only [hskip] at h
          refine ih _ _ _ ?_ h
          have hbv : bt = true ∧ v = false := by
            cases v <;> cases bt <;> simp_all
          obtain ⟨hbt, _⟩ := hbv
          subst hbt
          exact inv_expand d hT wl vis s true true hinv (fun _ _ _ => rfl) (fun _ => rfl)

theorem initialWork_inv (d : DFA Nat) : Inv d (initialWork d).reverse (List.replicate d.length none) := by
  refine ⟨by simp, ?_, ?_, ?_⟩
  · intro p hp
    have hp' := List.mem_reverse.mp hp
    simp only [initialWork, List.mem_map, List.mem_filter, List.mem_range] at hp'
    obtain ⟨i, ⟨hi, _⟩, rfl⟩ := hp'
    exact hi
  · intro s b hb
    exfalso
    by_cases hs : s < d.length
    · simp [List.getD, hs] at hb
    · simp [List.getD, hs] at hb
  · intro i hi hini
    refine Or.inr ⟨false, List.mem_reverse.mpr ?_, fun h => by cases h⟩
    simp only [initialWork, List.mem_map, List.mem_filter, List.mem_range]
    exact ⟨i, ⟨hi, hini⟩, rfl⟩

/-! ## Termination -/

/-- rank of a visited entry: how many more times the state can be expanded -/
def rank : Option Bool → Nat
  | none => 2
  | some false => 1
  | some true => 0

/-- potential: work-list length + Σ_s rank(vis[s]) · outdegree(s) -/
def rankSum : List (DState Nat) → List (Option Bool) → Nat
  | s :: ss, v :: vs => rank v * (DFA.succs s).length + rankSum ss vs
  | _, _ => 0

/-- `List.set` at a valid index changes `rankSum` by the rank difference times the out-degree. -/
theorem rankSum_set : ∀ (d : List (DState Nat)) (vis : List (Option Bool)) (s : Nat) (x : Option Bool),
    vis.length = d.length → s < d.length →
    rankSum d (vis.set s x) + rank (vis.getD s none) * (DFA.succs (DFA.st d s)).length
      = rankSum d vis + rank x * (DFA.succs (DFA.st d s)).length := by
  intro d
  induction d with
  | nil => intro vis s x _ hs; simp at hs
  | cons a d ih =>
    intro vis s x hl hs
    cases vis with
    | nil => simp at hl
    | cons v vis =>
      cases s with
      | zero =>
        simp only [List.set_cons_zero, rankSum, DFA.st, List.getD_cons_zero]
        omega
      | succ s =>
        have h := ih vis s x (by simpa using hl) (by simpa using hs)
        simp only [List.set_cons_succ, rankSum, DFA.st, List.getD_cons_succ] at h ⊢
        omega

theorem rankSum_replicate (d : DFA Nat) : ∀ a : Nat,
    2 * d.foldl (fun acc s => acc + (DFA.succs s).length) a
      = 2 * a + rankSum d (List.replicate d.length none) := by
  induction d with
  | nil => intro a; simp [rankSum]
  | cons s d ih =>
    intro a
    simp only [List.foldl_cons, List.length_cons, List.replicate_succ, rankSum, rank]
    rw [ih]
    omega

theorem rankSum_initial (d : DFA Nat) : rankSum d (List.replicate d.length none) = 2 * edgeCount d := by
  have h := rankSum_replicate d 0
  simp only [edgeCount]
  omega

theorem initialWork_length (d : DFA Nat) : (initialWork d).reverse.length ≤ d.length := by
  simp only [initialWork, List.length_reverse, List.length_map]
  have h := List.length_filter_le (fun i => (d.st i).initial) (List.range d.length)
  simpa using h

/-- Generalised termination: the potential bounds the fuel needed. -/
theorem loop_terminates (d : DFA Nat) (hT : TargetsOK d) :
    ∀ (fuel : Nat) (wl : List (Nat × Bool)) (vis : List (Option Bool)),
      vis.length = d.length → (∀ p ∈ wl, p.1 < d.length) → wl.length + rankSum d vis < fuel →
      ∃ vis', backtrackLoop d fuel wl vis = some vis' := by
  intro fuel
  induction fuel with
  | zero => intro wl vis _ _ h; omega
  | succ fuel ih =>
    intro wl vis hl hr hf
    cases wl with
    | nil => exact ⟨vis, by simp [backtrackLoop]⟩
    | cons p wl =>
      obtain ⟨s, bt⟩ := p
      have hs : s < d.length := hr (s, bt) (List.mem_cons_self ..)
      have hr' : ∀ p ∈ wl, p.1 < d.length := fun p hp => hr p (List.mem_cons_of_mem _ hp)
      have hpush : ∀ (b : Bool), ∀ p ∈ ((DFA.succs (d.st s)).map fun t => (t, b)).reverse ++ wl,
          p.1 < d.length := by
        intro b p hp
        rcases List.mem_append.mp hp with h | h
        · have h' := List.mem_reverse.mp h
          obtain ⟨t, ht, rfl⟩ := List.mem_map.mp h'
          exact hT s hs t ht
        · exact hr' p h
      simp only [List.length_cons] at hf
      simp only [backtrackLoop]
      cases hv : vis.getD s none with
      | none =>
        simp only []
        apply ih
        · simp [hl]
        · exact hpush _
        · have h := rankSum_set d vis s (some bt) hl hs
          rw [hv] at h
          simp only [List.length_append, List.length_reverse, List.length_map]
          cases bt <;> simp only [rank] at h <;> omega
      | some v =>
        simp only []
        by_cases hskip : (v || !bt) = true
        · simp only [hskip, if_true]
          exact ih _ _ hl hr' (by omega)
        · simp only [hskip]
          have hbv : bt = true ∧ v = false := by
            cases v <;> cases bt <;> simp_all
          obtain ⟨hbt, hvf⟩ := hbv
          subst hbt; subst hvf
          apply ih
          · simp [hl]
          · exact hpush _
          · have h := rankSum_set d vis s (some true) hl hs
            rw [hv] at h
            simp only [List.length_append, List.length_reverse, List.length_map]
            simp only [rank] at h
            omega

/-- Termination: the fuel `backtrackFuel d` always suffices (the loop never returns `none`). -/
theorem backtrack_terminates (d : DFA Nat) (hT : TargetsOK d) :
    ∃ vis, backtrackLoop d (backtrackFuel d) (initialWork d).reverse (List.replicate d.length none) = some vis := by
  apply loop_terminates d hT
  · simp
  · exact (initialWork_inv d).wlRange
  · have h1 := initialWork_length d
    have h2 := rankSum_initial d
    simp only [backtrackFuel]
    omega

/-! ## Closure of the result -/

theorem st_zipWith (d : DFA Nat) (vis : List (Option Bool)) (hl : vis.length = d.length) (s : Nat) :
    DFA.st (d.zipWith (fun st v => { st with backtrack := v.getD false }) vis) s
      = { d.st s with backtrack := (vis.getD s none).getD false } := by
  by_cases hs : s < d.length
  · have hs' : s < vis.length := by omega
    simp [DFA.st, List.getD, List.getElem?_zipWith, hs, hs']
  · have hs' : ¬ s < vis.length := by omega
    simp [DFA.st, List.getD, List.getElem?_zipWith, hs, hs', DState.empty]

/-- What `updateBacktracks d = some d'` unfolds to. -/
theorem updateBacktracks_some (d d' : DFA Nat) (hT : TargetsOK d) (h : updateBacktracks d = some d') :
    ∃ vis, Inv d [] vis ∧ vis.all Option.isSome = true ∧
      d' = d.zipWith (fun st v => { st with backtrack := v.getD false }) vis := by
  simp only [updateBacktracks] at h
  cases hloop : backtrackLoop d (backtrackFuel d) (initialWork d).reverse (List.replicate d.length none) with
  | none => simp only [hloop] at h; cases h
  | some vis =>
    simp only [hloop] at h
    by_cases hall : vis.all Option.isSome = true
    · simp only [hall, if_true] at h
      exact ⟨vis, loop_inv d hT _ _ _ _ (initialWork_inv d) hloop, hall, (Option.some.inj h).symm⟩
    · simp only [hall] at h
      cases h

theorem covered_nil (vis : List (Option Bool)) (t : Nat) (need : Bool) (h : Covered [] vis t need) :
    ∃ b, vis.getD t none = some b ∧ (need = true → b = true) := by
  rcases h with h | ⟨b, hb, _⟩
  · exact h
  · cases hb

theorem all_isSome_getD (vis : List (Option Bool)) (hall : vis.all Option.isSome = true) (s : Nat)
    (hs : s < vis.length) : ∃ b, vis.getD s none = some b := by
  have h := List.all_eq_true.mp hall vis[s] (List.getElem_mem hs)
  cases hv : vis[s] with
  | none => rw [hv] at h; cases h
  | some b => exact ⟨b, by simp [List.getD, hs, hv]⟩

/-- Local closure of the computed flags: the form the run-time theorem consumes. -/
theorem backtrack_closed (d d' : DFA Nat) (hT : TargetsOK d) (h : updateBacktracks d = some d') :
    d'.length = d.length ∧
    (∀ s, DFA.succs (d'.st s) = DFA.succs (d.st s) ∧ (d'.st s).accepting = (d.st s).accepting ∧ (d'.st s).initial = (d.st s).initial) ∧
    (∀ s, s < d.length → ∀ t ∈ DFA.succs (d.st s),
        ((d'.st s).backtrack || accOf d s) = true → (d'.st t).backtrack = true) := by
  obtain ⟨vis, hinv, hall, rfl⟩ := updateBacktracks_some d d' hT h
  have hl := hinv.len
  refine ⟨by simp [hl], ?_, ?_⟩
  · intro s
    rw [st_zipWith d vis hl s]
    exact ⟨rfl, rfl, rfl⟩
  · intro s hs t ht hb
    rw [st_zipWith d vis hl s] at hb
    rw [st_zipWith d vis hl t]
    obtain ⟨b, hvb⟩ := all_isSome_getD vis hall s (by omega)
    obtain ⟨b', hvb', himp⟩ := covered_nil vis t _ (hinv.closed s b hvb t ht)
    simp only [hvb, Option.getD_some] at hb
    simp only [hvb', Option.getD_some]
    exact himp hb

/-! ## Soundness along paths, totality -/

/-- a path in the DFA graph -/
inductive Path (d : DFA Nat) : Nat → Nat → Prop
  | refl (s : Nat) : Path d s s
  | step {s t u : Nat} : Path d s t → u ∈ DFA.succs (d.st t) → Path d s u

theorem path_lt (d : DFA Nat) (hT : TargetsOK d) (s t : Nat) (p : Path d s t) (hs : s < d.length) :
    t < d.length := by
  induction p with
  | refl => exact hs
  | step _ hu ih => exact hT _ ih _ hu

-- `hini` is not needed for the proof (the flag is forced by closure alone); it is kept because it is
-- part of the stated property.
set_option linter.unusedVariables false in
/-- Soundness along paths (the English of the property): a state reached from an initial state on a
path that passes an accepting state strictly before it has its flag set. -/
theorem backtrack_sound (d d' : DFA Nat) (hT : TargetsOK d) (h : updateBacktracks d = some d')
    (i a t u : Nat) (hi : i < d.length) (hini : (d.st i).initial = true)
    (p1 : Path d i a) (hacc : accOf d a = true) (hstep : t ∈ DFA.succs (d.st a)) (p2 : Path d t u) :
    (d'.st u).backtrack = true := by
  obtain ⟨_, _, hcl⟩ := backtrack_closed d d' hT h
  have ha : a < d.length := path_lt d hT i a p1 hi
  have ht : t < d.length := hT a ha t hstep
  have hbt : (d'.st t).backtrack = true := hcl a ha t hstep (by simp [hacc])
  induction p2 with
  | refl => exact hbt
  | step p hu ih =>
    exact hcl _ (path_lt d hT _ _ p ht) _ hu (by simp [ih])

/-- every state on a path from a visited state is visited at the end of the loop -/
theorem visited_path (d : DFA Nat) (vis : List (Option Bool)) (hinv : Inv d [] vis) (s t : Nat)
    (p : Path d s t) (hs : ∃ b, vis.getD s none = some b) : ∃ b, vis.getD t none = some b := by
  induction p with
  | refl => exact hs
  | step _ hu ih =>
    obtain ⟨b, hb⟩ := ih
    obtain ⟨b', hb', _⟩ := covered_nil vis _ _ (hinv.closed _ b hb _ hu)
    exact ⟨b', hb'⟩

/-- The `assert_eq!(visited.len(), states.len())` cannot fire when every state is reachable from an
initial state. -/
theorem backtrack_total (d : DFA Nat) (hT : TargetsOK d)
    (hreach : ∀ s, s < d.length → ∃ i, i < d.length ∧ (d.st i).initial = true ∧ Path d i s) :
    ∃ d', updateBacktracks d = some d' := by
  obtain ⟨vis, hloop⟩ := backtrack_terminates d hT
  have hinv := loop_inv d hT _ _ _ _ (initialWork_inv d) hloop
  have hall : vis.all Option.isSome = true := by
    apply List.all_eq_true.mpr
    intro x hx
    obtain ⟨n, hn, rfl⟩ := List.getElem_of_mem hx
    obtain ⟨i, hi, hini, p⟩ := hreach n (by rw [← hinv.len]; exact hn)
    obtain ⟨b0, hb0, _⟩ := covered_nil vis i _ (hinv.initial i hi hini)
    obtain ⟨b, hb⟩ := visited_path d vis hinv i n p ⟨b0, hb0⟩
    simp [List.getD, hn] at hb
    simp [hb]
  refine ⟨d.zipWith (fun st v => { st with backtrack := v.getD false }) vis, ?_⟩
  simp only [updateBacktracks, hloop, hall, if_true]

end Backtrack
end Lexgen
