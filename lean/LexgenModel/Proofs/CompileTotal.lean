import LexgenModel.Spec.Total
import LexgenModel.Proofs.EndToEnd
import LexgenModel.Proofs.Static
/-!
# Totality of the model of `lexer()`: no internal assertion fires, no work-list loop runs out of fuel
-/
namespace Lexgen
namespace CompileTotal
open Lexgen.Static Lexgen.CompileLang Lexgen.Simplify

/-! ## "fails only with a user error" -/

/-- the computation does not fail with an internal error -/
def NI {α : Type} (x : Except CompileError α) : Prop := ∀ e, x = .error e → e.isInternal = false

theorem ni_ok {α : Type} (v : α) : NI (Except.ok v : Except CompileError α) := by
  intro e h; cases h

theorem ni_pure {α : Type} (v : α) : NI (pure v : Except CompileError α) := ni_ok v

theorem ni_error {α : Type} (e : CompileError) (h : e.isInternal = false) :
    NI (Except.error e : Except CompileError α) := by
  intro e' h'; cases h'; exact h

theorem ni_bind {α β : Type} {x : Except CompileError α} {f : α → Except CompileError β}
    (hx : NI x) (hf : ∀ v, x = .ok v → NI (f v)) : NI (x >>= f) := by
  cases x with
  | error e =>
    intro e' h'
    have h'' : (Except.error e : Except CompileError β) = Except.error e' := h'
    cases h''
    exact hx e rfl
  | ok v => exact hf v rfl

theorem ni_foldlM {σ α : Type} (f : σ → α → Except CompileError σ) (P : σ → Prop) (l : List α)
    (hstep : ∀ g a, a ∈ l → P g → NI (f g a) ∧ ∀ g', f g a = .ok g' → P g') :
    ∀ init, P init → NI (l.foldlM f init) ∧ ∀ g, l.foldlM f init = .ok g → P g := by
  induction l with
  | nil =>
    intro init hi
    rw [List.foldlM_nil]
    exact ⟨ni_ok _, fun g hg => by cases hg; exact hi⟩
  | cons a l ih =>
    intro init hi
    rw [List.foldlM_cons]
    obtain ⟨h1, h2⟩ := hstep init a List.mem_cons_self hi
    have ih' := ih (fun g a ha => hstep g a (List.mem_cons_of_mem _ ha))
    constructor
    · exact ni_bind h1 (fun v hv => (ih' v (h2 v hv)).1)
    · intro g hg
      obtain ⟨g1, hg1, hg2⟩ := Thompson.bind_ok hg
      exact (ih' g1 (h2 g1 hg1)).2 g hg2

theorem ni_mapM {α β : Type} (f : α → Except CompileError β) (l : List α) (h : ∀ x ∈ l, NI (f x)) :
    NI (l.mapM f) := by
  induction l with
  | nil => rw [List.mapM_nil]; exact ni_ok _
  | cons a l ih =>
    rw [List.mapM_cons]
    apply ni_bind (h a List.mem_cons_self)
    intro y _
    apply ni_bind (ih (fun x hx => h x (List.mem_cons_of_mem _ hx)))
    intro ys _
    exact ni_ok _

/-! ## `inlineVars` -/

/-- all bindings in scope have non-inverted bracket ranges -/
def BindOK (b : Bindings) : Prop := ∀ p ∈ b, regexPiecesOK p.2

theorem bindOK_nil : BindOK [] := fun p hp => by cases hp

theorem bindOK_snoc {b : Bindings} (h : BindOK b) (n : String) (re : Regex) (hre : regexPiecesOK re) :
    BindOK (b ++ [(n, re)]) := by
  intro p hp
  rcases List.mem_append.mp hp with h1 | h1
  · exact h p h1
  · rw [List.mem_singleton] at h1; subst h1; exact hre

theorem find?_mem (b : Bindings) (n : String) (r : Regex) (h : Bindings.find? b n = some r) :
    ∃ m, (m, r) ∈ b := by
  induction b with
  | nil => simp [Bindings.find?] at h
  | cons p b ih =>
    obtain ⟨k, v⟩ := p
    simp only [Bindings.find?] at h
    by_cases hk : k = n
    · simp only [hk, if_true, Option.some.injEq] at h
      subst h
      exact ⟨k, List.mem_cons_self⟩
    · simp only [hk, if_false] at h
      obtain ⟨m, hm⟩ := ih h
      exact ⟨m, List.mem_cons_of_mem _ hm⟩

theorem inlineVars_ni (b : Bindings) : ∀ (fuel : Nat) (re : Regex), NI (inlineVars b fuel re) := by
  intro fuel
  induction fuel with
  | zero =>
    intro re
    induction re with
    | var m => simp only [inlineVars]; exact ni_error _ rfl
    | star r ih | plus r ih | opt r ih =>
      simp only [inlineVars]
      exact ni_bind ih (fun _ _ => ni_ok _)
    | cat x y ihx ihy | alt x y ihx ihy | diff x y ihx ihy =>
      simp only [inlineVars]
      exact ni_bind ihx (fun _ _ => ni_bind ihy (fun _ _ => ni_ok _))
    | builtin _ | chr _ | str _ | set _ | any | eoi => simp only [inlineVars]; exact ni_ok _
  | succ k ihk =>
    intro re
    induction re with
    | var m =>
      simp only [inlineVars]
      cases hb : Bindings.find? b m with
      | none => exact ni_error _ rfl
      | some r => exact ihk r
    | star r ih | plus r ih | opt r ih =>
      simp only [inlineVars]
      exact ni_bind ih (fun _ _ => ni_ok _)
    | cat x y ihx ihy | alt x y ihx ihy | diff x y ihx ihy =>
      simp only [inlineVars]
      exact ni_bind ihx (fun _ _ => ni_bind ihy (fun _ _ => ni_ok _))
    | builtin _ | chr _ | str _ | set _ | any | eoi => simp only [inlineVars]; exact ni_ok _

theorem inlineVars_pieces (b : Bindings) (hb : BindOK b) : ∀ (fuel : Nat) (re re' : Regex),
    regexPiecesOK re → inlineVars b fuel re = .ok re' → regexPiecesOK re' := by
  intro fuel
  induction fuel with
  | zero =>
    intro re
    induction re with
    | var m => intro re' _ h; simp only [inlineVars] at h; cases h
    | star r ih | plus r ih | opt r ih =>
      intro re' hre h
      simp only [inlineVars] at h
      obtain ⟨r', h1, h2⟩ := Thompson.bind_ok h
      cases h2
      exact ih r' hre h1
    | cat x y ihx ihy | alt x y ihx ihy | diff x y ihx ihy =>
      intro re' hre h
      simp only [inlineVars] at h
      obtain ⟨x', h1, h2⟩ := Thompson.bind_ok h
      obtain ⟨y', h3, h4⟩ := Thompson.bind_ok h2
      cases h4
      exact ⟨ihx x' hre.1 h1, ihy y' hre.2 h3⟩
    | builtin _ | chr _ | str _ | set _ | any | eoi =>
      intro re' hre h
      simp only [inlineVars] at h
      cases h
      exact hre
  | succ k ihk =>
    intro re
    induction re with
    | var m =>
      intro re' _ h
      simp only [inlineVars] at h
      cases hf : Bindings.find? b m with
      | none => rw [hf] at h; cases h
      | some r =>
        rw [hf] at h
        obtain ⟨n, hn⟩ := find?_mem b m r hf
        exact ihk r re' (hb _ hn) h
    | star r ih | plus r ih | opt r ih =>
      intro re' hre h
      simp only [inlineVars] at h
      obtain ⟨r', h1, h2⟩ := Thompson.bind_ok h
      cases h2
      exact ih r' hre h1
    | cat x y ihx ihy | alt x y ihx ihy | diff x y ihx ihy =>
      intro re' hre h
      simp only [inlineVars] at h
      obtain ⟨x', h1, h2⟩ := Thompson.bind_ok h
      obtain ⟨y', h3, h4⟩ := Thompson.bind_ok h2
      cases h4
      exact ⟨ihx x' hre.1 h1, ihy y' hre.2 h3⟩
    | builtin _ | chr _ | str _ | set _ | any | eoi =>
      intro re' hre h
      simp only [inlineVars] at h
      cases h
      exact hre

/-! ## The rule-level stages -/

def HasBuilt (n : NFA) : Prop := ∃ pre, RuleSetLang.Built pre n

theorem hasBuilt_new : HasBuilt NFA.new := ⟨[], RuleSetLang.built_new⟩

theorem hasBuilt_step {n n' : NFA} (h : HasBuilt n) (re : Regex) (ctx : Option Nat) (value : Nat)
    (hre : regexPiecesOK re) (hadd : n.addRegex re ctx value = .ok n') : HasBuilt n' := by
  obtain ⟨pre, hp⟩ := h
  exact ⟨_, RuleSetLang.built_step hp { re := re, ctx := ctx, value := value } hre hadd⟩

section
variable
    (ha : ∀ (nfa : NFA), NFAWF nfa → ∀ (re : Regex) (ctx : Option Nat) (value : Nat) (e : CompileError),
      nfa.addRegex re ctx value = .error e → e.isInternal = false)
    (hb : ∀ (nfa : NFA), NFAWF nfa → ∃ d, nfaToDfa nfa = some d)
    (hc : ∀ (nfa : NFA), NFAWF nfa → Subset.TargetsNonempty nfa → ∀ d, nfaToDfa nfa = some d → AllReachable0 d ∧ PredsSound d)

include ha hb in
theorem newRightCtx_ni (ctxs : List (DFA Nat)) (b : Bindings) (hbok : BindOK b) (re : Regex)
    (hre : regexPiecesOK re) : NI (newRightCtx ctxs b re) := by
  unfold newRightCtx
  apply ni_bind (inlineVars_ni b _ re)
  intro re' hre'
  have hp := inlineVars_pieces b hbok _ re re' hre hre'
  apply ni_bind (fun e he => ha NFA.new Thompson.wf_new re' none 0 e he)
  intro nfa hnfa
  obtain ⟨pre, hB⟩ := hasBuilt_step hasBuilt_new re' none 0 hp hnfa
  obtain ⟨d, hd⟩ := hb nfa hB.wf
  simp only [hd]
  exact ni_ok _

include ha hb in
theorem compileSingleRule_ni (nfa : NFA) (hn : HasBuilt nfa) (r : SingleRule) (b : Bindings) (hbok : BindOK b)
    (hr : rbPiecesOK (.rule r)) (ctxs : List (DFA Nat)) :
    NI (compileSingleRule nfa r b ctxs) ∧
      ∀ n' c', compileSingleRule nfa r b ctxs = .ok (n', c') → HasBuilt n' := by
  constructor
  · unfold compileSingleRule
    cases hctx : r.ctx with
    | none =>
      show NI (inlineVars b (b.length + 1) r.re >>= fun re => nfa.addRegex re none r.rhs >>= fun n => pure (n, ctxs))
      apply ni_bind (inlineVars_ni b _ _)
      intro re hre
      obtain ⟨pre, hB⟩ := hn
      apply ni_bind (fun e he => ha nfa hB.wf re none r.rhs e he)
      intro n _
      exact ni_ok _
    | some c =>
      show NI (newRightCtx ctxs b c >>= fun x => inlineVars b (b.length + 1) r.re >>= fun re =>
        nfa.addRegex re (some x.2) r.rhs >>= fun n => pure (n, x.1))
      apply ni_bind (newRightCtx_ni ha hb ctxs b hbok c (hr.2 c hctx))
      intro x _
      apply ni_bind (inlineVars_ni b _ _)
      intro re hre
      obtain ⟨pre, hB⟩ := hn
      apply ni_bind (fun e he => ha nfa hB.wf re (some x.2) r.rhs e he)
      intro n _
      exact ni_ok _
  · intro n' c' h
    obtain ⟨re, hre, hcase⟩ := RuleSetLang.compileSingleRule_spec h
    have hp := inlineVars_pieces b hbok _ r.re re hr.1 hre
    rcases hcase with ⟨_, _, hadd⟩ | ⟨_, _, hadd⟩
    · exact hasBuilt_step hn re _ _ hp hadd
    · exact hasBuilt_step hn re _ _ hp hadd

/-! ## Automata: what the glue carries -/

structure BlockGood (d : DFA Nat) : Prop where
  tir : TargetsInRange d
  init : (d.st 0).initial = true
  reach : AllReachable0 d
  preds : PredsSound d

structure FullGood (d : DFA Nat) : Prop where
  tir : TargetsInRange d
  reach : ∀ s, s < d.length → ∃ i, i < d.length ∧ (d.st i).initial = true ∧ Backtrack.Path d i s
  preds : PredsSound d

theorem fullGood_of_block {d : DFA Nat} (h : BlockGood d) : FullGood d := by
  refine ⟨h.tir, ?_, h.preds⟩
  intro s hs
  exact ⟨0, st_initial_lt h.init, h.init, h.reach s hs⟩

theorem path_addDfa_left (d0 dR : DFA Nat) (hT : TargetsInRange d0) {i s : Nat} (hi : i < d0.length)
    (p : Backtrack.Path d0 i s) : s < d0.length ∧ Backtrack.Path (addDfa d0 dR).1 i s := by
  induction p with
  | refl => exact ⟨hi, Backtrack.Path.refl _⟩
  | step _ hu ih =>
    obtain ⟨h1, h2⟩ := ih
    refine ⟨hT _ h1 _ hu, Backtrack.Path.step h2 ?_⟩
    rw [(addDfa_spec d0 dR).2.2.1 _ h1]
    exact hu

theorem path_addDfa_right (d0 dR : DFA Nat) (hT : TargetsInRange dR) {i s : Nat} (hi : i < dR.length)
    (p : Backtrack.Path dR i s) :
    s < dR.length ∧ Backtrack.Path (addDfa d0 dR).1 (d0.length + i) (d0.length + s) := by
  induction p with
  | refl => exact ⟨hi, Backtrack.Path.refl _⟩
  | step _ hu ih =>
    obtain ⟨h1, h2⟩ := ih
    refine ⟨hT _ h1 _ hu, Backtrack.Path.step h2 ?_⟩
    rw [(addDfa_spec d0 dR).2.2.2 _ h1, succs_shift, Nat.add_comm]
    exact List.mem_map.mpr ⟨_, hu, rfl⟩

theorem fullGood_addDfa (d0 dR : DFA Nat) (h0 : FullGood d0) (hR : BlockGood dR) :
    FullGood (addDfa d0 dR).1 := by
  obtain ⟨_, hlen, hL, hS⟩ := addDfa_spec d0 dR
  have hR0 : 0 < dR.length := st_initial_lt hR.init
  refine ⟨addDfa_targets d0 dR h0.tir hR.tir, ?_, ?_⟩
  · intro s hs
    rw [hlen] at hs ⊢
    by_cases h : s < d0.length
    · obtain ⟨i, hi, hini, p⟩ := h0.reach s h
      refine ⟨i, by omega, ?_, (path_addDfa_left d0 dR h0.tir hi p).2⟩
      rw [hL i hi]; exact hini
    · have hs' : s - d0.length < dR.length := by omega
      have e : s = d0.length + (s - d0.length) := by omega
      refine ⟨d0.length + 0, by omega, ?_, ?_⟩
      · rw [hS 0 hR0]; exact hR.init
      · rw [e]
        exact (path_addDfa_right d0 dR hR.tir hR0 (hR.reach _ hs')).2
  · intro s hs p hp
    rw [hlen] at hs ⊢
    by_cases h : s < d0.length
    · rw [hL s h] at hp
      obtain ⟨h1, h2⟩ := h0.preds s h p hp
      refine ⟨by omega, ?_⟩
      rw [hL p h1]; exact h2
    · have hs' : s - d0.length < dR.length := by omega
      have e : s = d0.length + (s - d0.length) := by omega
      rw [e, hS _ hs'] at hp
      have hp' : p ∈ (dR.st (s - d0.length)).preds.map (· + d0.length) := hp
      obtain ⟨q, hq, rfl⟩ := List.mem_map.mp hp'
      obtain ⟨h1, h2⟩ := hR.preds _ hs' q hq
      refine ⟨by omega, ?_⟩
      rw [Nat.add_comm q d0.length, hS q h1, succs_shift]
      rw [e, Nat.add_comm d0.length]
      exact List.mem_map.mpr ⟨_, h2, rfl⟩

theorem compileRuleSet_eq (rules : List RuleOrBinding) (b : Bindings) (ctxs : List (DFA Nat)) :
    compileRuleSet rules b ctxs =
      (rules.foldlM rsStep (NFA.new, b, ctxs) >>= fun acc =>
        match nfaToDfa acc.1 with
        | none => .error (.internal "nfa_to_dfa")
        | some d => .ok (d, acc.2.2)) := rfl

include hb hc in
theorem nfaToDfa_good (nfa : NFA) (hn : HasBuilt nfa) : ∃ d, nfaToDfa nfa = some d ∧ BlockGood d := by
  obtain ⟨pre, hB⟩ := hn
  obtain ⟨d, hd⟩ := hb nfa hB.wf
  obtain ⟨h1, h2⟩ := nfaToDfa_ok nfa d hd
  obtain ⟨h3, h4⟩ := hc nfa hB.wf ((RuleSetLang.tne_iff nfa).mp hB.tne) d hd
  exact ⟨d, hd, h1, h2, h3, h4⟩

include ha hb in
theorem rsStep_ni (acc : NFA × Bindings × List (DFA Nat)) (item : RuleOrBinding) (hitem : rbPiecesOK item)
    (hacc : HasBuilt acc.1 ∧ BindOK acc.2.1) :
    NI (rsStep acc item) ∧ ∀ acc', rsStep acc item = .ok acc' → HasBuilt acc'.1 ∧ BindOK acc'.2.1 := by
  cases item with
  | rule r =>
    rw [rsStep_rule]
    obtain ⟨h1, h2⟩ := compileSingleRule_ni ha hb acc.1 hacc.1 r acc.2.1 hacc.2 hitem acc.2.2
    constructor
    · exact ni_bind h1 (fun _ _ => ni_ok _)
    · intro acc' h
      obtain ⟨p, hp, h⟩ := Thompson.bind_ok h
      cases h
      exact ⟨h2 p.1 p.2 hp, hacc.2⟩
  | binding n re =>
    rw [rsStep_binding]
    by_cases hf : (acc.2.1.find? n).isSome = true
    · rw [if_pos hf]
      exact ⟨ni_error _ rfl, fun _ h => by cases h⟩
    · rw [if_neg hf]
      refine ⟨ni_ok _, fun acc' h => ?_⟩
      cases h
      exact ⟨hacc.1, bindOK_snoc hacc.2 n re hitem⟩

include ha hb hc in
theorem compileRuleSet_ni (rules : List RuleOrBinding) (b : Bindings) (hbok : BindOK b)
    (hr : ∀ x ∈ rules, rbPiecesOK x) (ctxs : List (DFA Nat)) :
    NI (compileRuleSet rules b ctxs) ∧
      ∀ d c', compileRuleSet rules b ctxs = .ok (d, c') → BlockGood d := by
  rw [compileRuleSet_eq]
  obtain ⟨h1, h2⟩ := ni_foldlM rsStep (fun acc => HasBuilt acc.1 ∧ BindOK acc.2.1) rules
    (fun g a ha' hg => rsStep_ni ha hb g a (hr a ha') hg) (NFA.new, b, ctxs) ⟨hasBuilt_new, hbok⟩
  constructor
  · apply ni_bind h1
    intro acc hacc
    obtain ⟨d, hd, _⟩ := nfaToDfa_good hb hc acc.1 (h2 acc hacc).1
    simp only [hd]
    exact ni_ok _
  · intro d c' h
    obtain ⟨acc, hacc, h⟩ := Thompson.bind_ok h
    obtain ⟨d', hd, hg⟩ := nfaToDfa_good hb hc acc.1 (h2 acc hacc).1
    simp only [hd] at h
    cases h
    exact hg

/-! ## `update_backtracks` and `simplify` -/

theorem hasTrans_of_mem {s : DState Nat} {t : Nat} (h : t ∈ DFA.succs s) : DFA.hasNoTransitions s = false := by
  obtain ⟨ini, chars, ranges, any, eoi, acc, preds, bt⟩ := s
  unfold DFA.succs at h
  unfold DFA.hasNoTransitions
  cases chars <;> cases ranges <;> cases any <;> cases eoi <;> simp_all

theorem updateBacktracks_keeps (d d' : DFA Nat) (hT : TargetsInRange d) (hP : PredsSound d)
    (h : updateBacktracks d = some d') : TargetsInRange d' ∧ PredsSound d' := by
  obtain ⟨hA, hlen⟩ := updateBacktracks_agree d d' hT h
  refine ⟨targets_agree hT hA hlen, ?_⟩
  obtain ⟨vis, hinv, _, rfl⟩ := Backtrack.updateBacktracks_some d d' hT h
  intro s hs p hp
  rw [hlen] at hs ⊢
  rw [Backtrack.st_zipWith d vis hinv.len s] at hp
  rw [Backtrack.st_zipWith d vis hinv.len p]
  exact hP s hs p hp

theorem simplifyState_ni (d : DFA Nat) (hP : PredsSound d) (i : Nat) (hi : i < d.length) :
    NI (simplifyState d (emptyStates d) (d.st i)) := by
  unfold simplifyState
  apply ni_bind
  · apply ni_mapM
    intro p hp
    obtain ⟨_, h2⟩ := hP i hi p hp
    have hc : (emptyStates d).contains p = false := by
      rw [contains_emptyStates]
      unfold Simplify.isEmpty
      rw [hasTrans_of_mem h2, Bool.false_and, Bool.and_false]
    have hm : mapTransition d (emptyStates d) p = .goto (p - removedBelow (emptyStates d) p) := by
      unfold mapTransition
      rw [if_neg (by rw [hc]; exact Bool.false_ne_true)]
    simp only [hm]
    exact ni_ok _
  · intro preds _
    exact ni_ok _

theorem simplify_ni (d : DFA Nat) (entries : List (String × Nat)) (hP : PredsSound d) :
    NI (simplify d entries) := by
  unfold simplify
  apply ni_bind
  · apply ni_mapM
    intro i hi
    rw [List.mem_filter, List.mem_range] at hi
    exact simplifyState_ni d hP i hi.1
  · intro states _
    exact ni_ok _

/-! ## The fold of `lexer()` -/

structure TInv (g : GlueState) : Prop where
  bind : BindOK g.bindings
  unnamed : HasBuilt g.unnamed
  full : ∀ d, g.initDfa = some d → FullGood d

def itemOK (it : TopItem) : Prop :=
  match it with
  | .errorType => True
  | .rb x => rbPiecesOK x
  | .ruleSet _ rs => ∀ x ∈ rs, rbPiecesOK x

include ha hb hc in
theorem lexRS_ni (g : GlueState) (hg : TInv g) (name : String) (rules : List RuleOrBinding)
    (hr : ∀ x ∈ rules, rbPiecesOK x) :
    NI (lexRS g name rules) ∧ ∀ p, lexRS g name rules = .ok p → TInv p.1 := by
  obtain ⟨h1, h2⟩ := compileRuleSet_ni ha hb hc rules g.bindings hg.bind hr g.ctxs
  unfold lexRS
  by_cases hn : name = "Init"
  · rw [if_pos hn]
    constructor
    · exact ni_bind h1 (fun _ _ => ni_ok _)
    · intro p hp
      obtain ⟨q, hq, hp⟩ := Thompson.bind_ok hp
      cases hp
      refine ⟨hg.bind, hg.unnamed, ?_⟩
      intro d hd
      have hd' : some q.1 = some d := hd
      cases hd'
      exact fullGood_of_block (h2 q.1 q.2 hq)
  · rw [if_neg hn]
    cases hd0 : g.initDfa with
    | none => exact ⟨ni_error _ rfl, fun p hp => by cases hp⟩
    | some d0 =>
      constructor
      · exact ni_bind h1 (fun _ _ => ni_ok _)
      · intro p hp
        obtain ⟨q, hq, hp⟩ := Thompson.bind_ok hp
        cases hp
        refine ⟨hg.bind, hg.unnamed, ?_⟩
        intro d hd
        have hd' : some (addDfa d0 q.1).1 = some d := hd
        cases hd'
        exact fullGood_addDfa d0 q.1 (hg.full d0 hd0) (h2 q.1 q.2 hq)

include ha hb hc in
theorem lexStep_ni (g : GlueState) (item : TopItem) (hitem : itemOK item) (hg : TInv g) :
    NI (lexStep g item) ∧ ∀ g', lexStep g item = .ok g' → TInv g' := by
  cases item with
  | errorType =>
    rw [lexStep_errorType]
    by_cases he : g.errorType = true
    · rw [if_pos he]; exact ⟨ni_error _ rfl, fun _ h => by cases h⟩
    · rw [if_neg he]
      refine ⟨ni_ok _, fun g' h => ?_⟩
      cases h
      exact ⟨hg.bind, hg.unnamed, hg.full⟩
  | rb x =>
    cases x with
    | binding n re =>
      rw [lexStep_binding]
      by_cases hf : (g.bindings.find? n).isSome = true
      · rw [if_pos hf]; exact ⟨ni_error _ rfl, fun _ h => by cases h⟩
      · rw [if_neg hf]
        refine ⟨ni_ok _, fun g' h => ?_⟩
        cases h
        exact ⟨bindOK_snoc hg.bind n re hitem, hg.unnamed, hg.full⟩
    | rule r =>
      rw [lexStep_rule]
      obtain ⟨h1, h2⟩ := compileSingleRule_ni ha hb g.unnamed hg.unnamed r g.bindings hg.bind hitem g.ctxs
      constructor
      · exact ni_bind h1 (fun _ _ => ni_ok _)
      · intro g' h
        obtain ⟨p, hp, h⟩ := Thompson.bind_ok h
        cases h
        exact ⟨hg.bind, h2 p.1 p.2 hp, hg.full⟩
  | ruleSet name rules =>
    rw [lexStep_ruleSet]
    obtain ⟨h1, h2⟩ := lexRS_ni ha hb hc g hg name rules hitem
    constructor
    · apply ni_bind h1
      intro p _
      by_cases hf : (p.1.entries.find? (·.1 = name)).isSome = true
      · rw [if_pos hf]; exact ni_error _ rfl
      · rw [if_neg hf]; exact ni_ok _
    · intro g' h
      obtain ⟨p, hp, h⟩ := Thompson.bind_ok h
      by_cases hf : (p.1.entries.find? (·.1 = name)).isSome = true
      · rw [if_pos hf] at h; cases h
      · rw [if_neg hf] at h
        cases h
        have := h2 p hp
        exact ⟨this.bind, this.unnamed, this.full⟩

theorem lexPost_eq (g : GlueState) : lexPost g =
    ((match g.initDfa with
      | some d => Except.ok d
      | none => match nfaToDfa g.unnamed with
        | some d => .ok d
        | none => .error (.internal "nfa_to_dfa")) >>= fun dfa =>
     (match updateBacktracks dfa with
      | some d => Except.ok d
      | none => .error (.internal "update_backtracks")) >>= fun full =>
     simplify full g.entries >>= fun x =>
       .ok { full := full, entries0 := g.entries, dfa := x.1, entries := x.2, ctxs := g.ctxs }) := by
  unfold lexPost
  cases g.initDfa with
  | some d =>
    simp only [bind, Except.bind, pure, Except.pure]
    cases updateBacktracks d <;> rfl
  | none =>
    cases nfaToDfa g.unnamed with
    | none => rfl
    | some d =>
      simp only [bind, Except.bind, pure, Except.pure]
      cases updateBacktracks d <;> rfl

include hb hc in
theorem lexPost_ni (g : GlueState) (hg : TInv g) : NI (lexPost g) := by
  rw [lexPost_eq]
  have hdfa : ∃ d, FullGood d ∧ (match g.initDfa with
      | some d => Except.ok d
      | none => match nfaToDfa g.unnamed with
        | some d => .ok d
        | none => .error (.internal "nfa_to_dfa") : Except CompileError (DFA Nat)) = .ok d := by
    cases hi : g.initDfa with
    | some d => exact ⟨d, hg.full d hi, rfl⟩
    | none =>
      obtain ⟨d, hd, hgood⟩ := nfaToDfa_good hb hc g.unnamed hg.unnamed
      refine ⟨d, fullGood_of_block hgood, ?_⟩
      simp only [hd]
  obtain ⟨d, hF, hd⟩ := hdfa
  obtain ⟨d', hu⟩ := Backtrack.backtrack_total d hF.tir hF.reach
  obtain ⟨_, hP'⟩ := updateBacktracks_keeps d d' hF.tir hF.preds hu
  rw [hd]
  apply ni_bind (ni_ok _)
  intro v hv
  cases hv
  simp only [hu]
  apply ni_bind (ni_ok _)
  intro v hv
  cases hv
  apply ni_bind (simplify_ni d' g.entries hP')
  intro v _
  exact ni_ok _

end

end CompileTotal

open CompileTotal Static in
/-- **Totality of the model of `lexer()`**: whatever the definition (with non-inverted bracket ranges), the model never hits one of the macro's internal assertions and every work-list loop ends within its
fuel: `compileLexer` either succeeds or reports an error of the user (mixed rules, duplicate error type / variable / rule set, first rule set not `Init`, unbound variable, unknown built-in, non-class operand of `#`,
variable cycle). (`ha`, `hb`, `hc` are proved separately by other people — Proofs/ThompsonTotal.lean, SubsetTotal.lean, SubsetReach.lean — and will be plugged in afterwards.) -/
theorem compileLexer_no_internal_of (items : LexerDef) (hp : ItemsPiecesOK items)
    (ha : ∀ (nfa : NFA), NFAWF nfa → ∀ (re : Regex) (ctx : Option Nat) (value : Nat) (e : CompileError),
      nfa.addRegex re ctx value = .error e → e.isInternal = false)
    (hb : ∀ (nfa : NFA), NFAWF nfa → ∃ d, nfaToDfa nfa = some d)
    (hc : ∀ (nfa : NFA), NFAWF nfa → Subset.TargetsNonempty nfa → ∀ d, nfaToDfa nfa = some d → AllReachable0 d ∧ PredsSound d) :
    ∀ e, compileLexer items = .error e → e.isInternal = false := by
  rw [compileLexer_eq]
  by_cases hm : mixedRules items = true
  · rw [if_pos hm]
    exact ni_error _ rfl
  · rw [if_neg hm]
    obtain ⟨h1, h2⟩ := ni_foldlM lexStep TInv items
      (fun g a ha' hg => lexStep_ni ha hb hc g a (hp a ha') hg) {}
      ⟨bindOK_nil, hasBuilt_new, fun d hd => by cases hd⟩
    exact ni_bind h1 (fun g hg => lexPost_ni hb hc g (h2 g hg))

end Lexgen
