import LexgenModel.Spec.WellFormed
import LexgenModel.Proofs.RuleSetLang
/-!
# Shape of the Thompson NFA of a rule set

`buildNfa_shape`: nothing leads back to state 0, and (when `$` occurs only in tail position) every
end-of-input transition leads to the rule's own accepting state, which has no outgoing transition.

No `regexPiecesOK` hypothesis is available here (bracket ranges may be inverted), so the edge-level
characterisation of `Proofs/Thompson*.lean` (which needs well-formed range maps) is not used; instead
a direct invariant on the *listed* transition targets is proved by induction on the regex.
-/

set_option linter.unusedSimpArgs false
set_option linter.unusedVariables false
namespace Lexgen
namespace NfaShape
open Thompson (st_ge st_newState length_newState newState_snd st_modify_self st_modify_ne mem_setInsert
  mem_setUnion bind_ok)

/-! ## Values of range maps (no well-formedness needed) -/

section RangeMapValues
variable {α : Type}

/-- every value stored in the range map satisfies `P` -/
def AllV (P : α → Prop) (m : RangeMap α) : Prop := ∀ r ∈ m, P r.2.2

theorem allV_nil (P : α → Prop) : AllV P ([] : RangeMap α) := fun r hr => by cases hr

theorem allV_cons {P : α → Prop} {s e : Nat} {x : α} {m : RangeMap α} :
    AllV P ((s, e, x) :: m) ↔ P x ∧ AllV P m := by
  constructor
  · intro h
    exact ⟨h (s, e, x) List.mem_cons_self, fun r hr => h r (List.mem_cons_of_mem _ hr)⟩
  · rintro ⟨h1, h2⟩ r hr
    rcases List.mem_cons.mp hr with rfl | hr
    · exact h1
    · exact h2 r hr

theorem allV_append {P : α → Prop} {m1 m2 : RangeMap α} :
    AllV P (m1 ++ m2) ↔ AllV P m1 ∧ AllV P m2 := by
  constructor
  · intro h
    exact ⟨fun r hr => h r (List.mem_append.mpr (Or.inl hr)), fun r hr => h r (List.mem_append.mpr (Or.inr hr))⟩
  · rintro ⟨h1, h2⟩ r hr
    rcases List.mem_append.mp hr with hr | hr
    · exact h1 r hr
    · exact h2 r hr

theorem insertAux_allV (merge : α → α → α) (P : α → Prop) (v : α) (hv : P v)
    (hm : ∀ x, P x → P (merge x v)) (l : RangeMap α) :
    ∀ (lastEnd : Option Nat) (ns ne : Nat), AllV P l → AllV P (RangeMap.insertAux merge l lastEnd ns ne v) := by
  induction l with
  | nil =>
    intro lastEnd ns ne _
    simp only [RangeMap.insertAux]
    repeat' split
    all_goals first | exact allV_cons.mpr ⟨hv, allV_nil P⟩ | exact allV_nil P
  | cons r rest ih =>
    obtain ⟨s, e, x⟩ := r
    intro lastEnd ns ne hl
    obtain ⟨hx, hrest⟩ := allV_cons.mp hl
    have hpre : AllV P (if ns < max ns s then [(ns, max ns s - 1, v)]
        else if s < max ns s then [(s, max ns s - 1, x)] else []) := by
      split
      · exact allV_cons.mpr ⟨hv, allV_nil P⟩
      · split
        · exact allV_cons.mpr ⟨hx, allV_nil P⟩
        · exact allV_nil P
    have hmid : AllV P [(max ns s, min ne e, merge x v)] := allV_cons.mpr ⟨hm x hx, allV_nil P⟩
    simp only [RangeMap.insertAux]
    split
    · exact allV_cons.mpr ⟨hx, ih _ _ _ hrest⟩
    · split
      · exact allV_cons.mpr ⟨hv, hl⟩
      · split
        · exact allV_append.mpr ⟨allV_append.mpr ⟨hpre, hmid⟩, allV_cons.mpr ⟨hx, hrest⟩⟩
        · split
          · exact allV_append.mpr ⟨allV_append.mpr ⟨hpre, hmid⟩, ih _ _ _ hrest⟩
          · exact allV_append.mpr ⟨allV_append.mpr ⟨hpre, hmid⟩, hrest⟩

theorem insertRanges_allV (merge : α → α → α) (P : α → Prop) (hm : ∀ x y, P x → P y → P (merge x y))
    (l1 l2 : RangeMap α) : AllV P l1 → AllV P l2 → AllV P (RangeMap.insertRanges merge l1 l2) := by
  fun_induction RangeMap.insertRanges merge l1 l2 with
  | case1 => intro _ _; exact allV_nil P
  | case2 r1 rest1 => intro h _; exact h
  | case3 r2 rest2 => intro _ h; exact h
  | case4 s1 e1 v1 rest1 s2 e2 v2 rest2 h ih =>
    intro h1 h2
    exact allV_cons.mpr ⟨(allV_cons.mp h1).1, ih (allV_cons.mp h1).2 h2⟩
  | case5 s1 e1 v1 rest1 s2 e2 v2 rest2 h h' ih =>
    intro h1 h2
    exact allV_cons.mpr ⟨(allV_cons.mp h2).1, ih h1 (allV_cons.mp h2).2⟩
  | case6 s1 e1 v1 rest1 s2 e2 v2 rest2 h h' os h'' ih =>
    intro h1 h2
    exact allV_cons.mpr ⟨(allV_cons.mp h1).1,
      ih (allV_cons.mpr ⟨(allV_cons.mp h1).1, (allV_cons.mp h1).2⟩) h2⟩
  | case7 s1 e1 v1 rest1 s2 e2 v2 rest2 h h' os h'' h3 ih =>
    intro h1 h2
    exact allV_cons.mpr ⟨(allV_cons.mp h2).1,
      ih h1 (allV_cons.mpr ⟨(allV_cons.mp h2).1, (allV_cons.mp h2).2⟩)⟩
  | case8 s1 e1 v1 rest1 s2 e2 v2 rest2 h h' os oe h'' h3 merged h4 ih =>
    intro h1 h2
    exact allV_cons.mpr ⟨hm _ _ (allV_cons.mp h1).1 (allV_cons.mp h2).1,
      ih (allV_cons.mp h1).2 (allV_cons.mpr ⟨(allV_cons.mp h2).1, (allV_cons.mp h2).2⟩)⟩
  | case9 s1 e1 v1 rest1 s2 e2 v2 rest2 h h' os oe h'' h3 merged h4 h5 ih =>
    intro h1 h2
    exact allV_cons.mpr ⟨hm _ _ (allV_cons.mp h1).1 (allV_cons.mp h2).1,
      ih (allV_cons.mpr ⟨(allV_cons.mp h1).1, (allV_cons.mp h1).2⟩) (allV_cons.mp h2).2⟩
  | case10 s1 e1 v1 rest1 s2 e2 v2 rest2 h h' os oe h'' h3 merged h4 h5 ih =>
    intro h1 h2
    exact allV_cons.mpr ⟨hm _ _ (allV_cons.mp h1).1 (allV_cons.mp h2).1,
      ih (allV_cons.mp h1).2 (allV_cons.mp h2).2⟩

end RangeMapValues

/-! ## Listed targets of a state, and the frame invariant -/

/-- `b` is listed as a target of some transition of `st` -/
def STgt (st : NState) (b : Nat) : Prop :=
  b ∈ st.eps ∨ b ∈ st.any ∨ b ∈ st.eoi ∨ (∃ e ∈ st.chars, b ∈ e.2) ∨ (∃ r ∈ st.ranges, b ∈ r.2.2)

theorem stgt_empty (b : Nat) : ¬ STgt NState.empty b := by
  rintro (h | h | h | ⟨e, h, _⟩ | ⟨r, h, _⟩) <;> cases h

theorem stgt_acc (st : NState) (a : Option Acc) (b : Nat) : STgt { st with acc := a } b ↔ STgt st b := Iff.rfl

/-- `n'` extends `n`; among the states of `n` only `cur` changed; every newly listed target is `cont`
or a fresh state; every newly listed end-of-input target is `cont`, and only when `E` holds -/
structure Inv (n n' : NFA) (cur cont : Nat) (E : Prop) : Prop where
  len : n.length ≤ n'.length
  old : ∀ a, a < n.length → a ≠ cur → n'.st a = n.st a
  tgt : ∀ a b, STgt (n'.st a) b → STgt (n.st a) b ∨ b = cont ∨ (n.length ≤ b ∧ b < n'.length)
  eoi : ∀ a b, b ∈ (n'.st a).eoi → b ∈ (n.st a).eoi ∨ (E ∧ b = cont)

theorem Inv.refl (n : NFA) (cur cont : Nat) (E : Prop) : Inv n n cur cont E :=
  ⟨Nat.le_refl _, fun _ _ _ => rfl, fun _ _ h => Or.inl h, fun _ _ h => Or.inl h⟩

theorem Inv.newState (n : NFA) (cur cont : Nat) (E : Prop) : Inv n n.newState.1 cur cont E := by
  refine ⟨by rw [length_newState]; omega, fun a _ _ => st_newState n a, ?_, ?_⟩
  · intro a b h; rw [st_newState] at h; exact Or.inl h
  · intro a b h; rw [st_newState] at h; exact Or.inl h

theorem Inv.trans {n n1 n2 : NFA} {c1 k1 c2 k2 cur cont : Nat} {E1 E2 E : Prop}
    (f1 : Inv n n1 c1 k1 E1) (f2 : Inv n1 n2 c2 k2 E2)
    (hc1 : c1 = cur ∨ n.length ≤ c1) (hc2 : c2 = cur ∨ n.length ≤ c2)
    (hk1 : k1 = cont ∨ (n.length ≤ k1 ∧ k1 < n2.length)) (hk2 : k2 = cont ∨ (n.length ≤ k2 ∧ k2 < n2.length))
    (hE1 : E1 → E ∧ k1 = cont) (hE2 : E2 → E ∧ k2 = cont) :
    Inv n n2 cur cont E := by
  have hl1 := f1.len
  have hl2 := f2.len
  refine ⟨by omega, ?_, ?_, ?_⟩
  · intro a ha hne
    rw [f2.old a (by omega) (by omega), f1.old a ha (by omega)]
  · intro a b hab
    rcases f2.tgt a b hab with h | h | h
    · rcases f1.tgt a b h with h' | h' | h'
      · exact Or.inl h'
      · right; omega
      · right; omega
    · right; omega
    · right; omega
  · intro a b hab
    rcases f2.eoi a b hab with h | ⟨h, hb⟩
    · rcases f1.eoi a b h with h' | ⟨h', hb⟩
      · exact Or.inl h'
      · exact Or.inr ⟨(hE1 h').1, by rw [hb]; exact (hE1 h').2⟩
    · exact Or.inr ⟨(hE2 h).1, by rw [hb]; exact (hE2 h).2⟩

/-- same start and continuation, one after the other -/
theorem Inv.seq {n n1 n2 : NFA} {cur cont : Nat} {E : Prop}
    (f1 : Inv n n1 cur cont E) (f2 : Inv n1 n2 cur cont E) : Inv n n2 cur cont E :=
  Inv.trans f1 f2 (Or.inl rfl) (Or.inl rfl) (Or.inl rfl) (Or.inl rfl) (fun h => ⟨h, rfl⟩) (fun h => ⟨h, rfl⟩)

theorem Inv.weaken {n n' : NFA} {cur cont : Nat} {E E' : Prop} (f : Inv n n' cur cont E) (h : E → E') :
    Inv n n' cur cont E' :=
  ⟨f.len, f.old, f.tgt, fun a b hab => (f.eoi a b hab).imp id (fun ⟨h1, h2⟩ => ⟨h h1, h2⟩)⟩

/-! ## One `add…Transition` call -/

theorem inv_modify (n : NFA) (s t : Nat) (f : NState → NState) (E : Prop) (hs : s < n.length)
    (htgt : ∀ b, STgt (f (n.st s)) b → STgt (n.st s) b ∨ b = t)
    (heoi : ∀ b, b ∈ (f (n.st s)).eoi → b ∈ (n.st s).eoi ∨ (E ∧ b = t)) :
    Inv n (List.modify n s f) s t E := by
  refine ⟨by rw [List.length_modify]; omega, fun a _ ha => st_modify_ne n s a f ha, ?_, ?_⟩
  · intro a b hab
    by_cases ha : a = s
    · subst ha
      rw [st_modify_self n a f hs] at hab
      rcases htgt b hab with h | h
      · exact Or.inl h
      · exact Or.inr (Or.inl h)
    · rw [st_modify_ne n s a f ha] at hab; exact Or.inl hab
  · intro a b hab
    by_cases ha : a = s
    · subst ha
      rw [st_modify_self n a f hs] at hab
      exact heoi b hab
    · rw [st_modify_ne n s a f ha] at hab; exact Or.inl hab

theorem inv_addEps {n n' : NFA} {s t : Nat} (E : Prop) (h : n.addEmptyTransition s t = .ok n') (hs : s < n.length) :
    Inv n n' s t E ∧ n'.length = n.length := by
  unfold NFA.addEmptyTransition at h
  split at h
  · cases h
  · cases h
    refine ⟨inv_modify n s t _ E hs ?_ (fun b hb => Or.inl hb), List.length_modify _ _ _⟩
    rintro b (hb | hb | hb | hb | hb)
    · rcases (mem_setInsert _ _ _).mp hb with hb | hb
      · exact Or.inr hb
      · exact Or.inl (Or.inl hb)
    · exact Or.inl (Or.inr (Or.inl hb))
    · exact Or.inl (Or.inr (Or.inr (Or.inl hb)))
    · exact Or.inl (Or.inr (Or.inr (Or.inr (Or.inl hb))))
    · exact Or.inl (Or.inr (Or.inr (Or.inr (Or.inr hb))))

theorem inv_addAny {n n' : NFA} {s t : Nat} (E : Prop) (h : n.addAnyTransition s t = .ok n') (hs : s < n.length) :
    Inv n n' s t E ∧ n'.length = n.length := by
  unfold NFA.addAnyTransition at h
  split at h
  · cases h
  · cases h
    refine ⟨inv_modify n s t _ E hs ?_ (fun b hb => Or.inl hb), List.length_modify _ _ _⟩
    rintro b (hb | hb | hb | hb | hb)
    · exact Or.inl (Or.inl hb)
    · rcases (mem_setInsert _ _ _).mp hb with hb | hb
      · exact Or.inr hb
      · exact Or.inl (Or.inr (Or.inl hb))
    · exact Or.inl (Or.inr (Or.inr (Or.inl hb)))
    · exact Or.inl (Or.inr (Or.inr (Or.inr (Or.inl hb))))
    · exact Or.inl (Or.inr (Or.inr (Or.inr (Or.inr hb))))

theorem inv_addEoi {n n' : NFA} {s t : Nat} (E : Prop) (hE : E) (h : n.addEoiTransition s t = .ok n')
    (hs : s < n.length) : Inv n n' s t E ∧ n'.length = n.length := by
  unfold NFA.addEoiTransition at h
  split at h
  · cases h
  · cases h
    refine ⟨inv_modify n s t _ E hs ?_ ?_, List.length_modify _ _ _⟩
    · rintro b (hb | hb | hb | hb | hb)
      · exact Or.inl (Or.inl hb)
      · exact Or.inl (Or.inr (Or.inl hb))
      · rcases (mem_setInsert _ _ _).mp hb with hb | hb
        · exact Or.inr hb
        · exact Or.inl (Or.inr (Or.inr (Or.inl hb)))
      · exact Or.inl (Or.inr (Or.inr (Or.inr (Or.inl hb))))
      · exact Or.inl (Or.inr (Or.inr (Or.inr (Or.inr hb))))
    · intro b hb
      rcases (mem_setInsert _ _ _).mp hb with hb | hb
      · exact Or.inr ⟨hE, hb⟩
      · exact Or.inl hb

/-- only the character map changes -/
theorem stgt_chars (st : NState) (chars' : List (Nat × List Nat)) (t : Nat)
    (hch : ∀ e ∈ chars', ∀ b ∈ e.2, (∃ e0 ∈ st.chars, b ∈ e0.2) ∨ b = t) (b : Nat)
    (h : STgt { st with chars := chars' } b) : STgt st b ∨ b = t := by
  rcases h with hb | hb | hb | ⟨e, he, hb⟩ | hb
  · exact Or.inl (Or.inl hb)
  · exact Or.inl (Or.inr (Or.inl hb))
  · exact Or.inl (Or.inr (Or.inr (Or.inl hb)))
  · rcases hch e he b hb with h | h
    · exact Or.inl (Or.inr (Or.inr (Or.inr (Or.inl h))))
    · exact Or.inr h
  · exact Or.inl (Or.inr (Or.inr (Or.inr (Or.inr hb))))

/-- only the range map changes -/
theorem stgt_ranges (st : NState) (ranges' : RangeMap (List Nat)) (t : Nat)
    (hr : AllV (fun l => ∀ b ∈ l, (∃ r0 ∈ st.ranges, b ∈ r0.2.2) ∨ b = t) ranges') (b : Nat)
    (h : STgt { st with ranges := ranges' } b) : STgt st b ∨ b = t := by
  rcases h with hb | hb | hb | hb | ⟨r, hr', hb⟩
  · exact Or.inl (Or.inl hb)
  · exact Or.inl (Or.inr (Or.inl hb))
  · exact Or.inl (Or.inr (Or.inr (Or.inl hb)))
  · exact Or.inl (Or.inr (Or.inr (Or.inr (Or.inl hb))))
  · rcases hr r hr' b hb with h | h
    · exact Or.inl (Or.inr (Or.inr (Or.inr (Or.inr h))))
    · exact Or.inr h

theorem inv_addChar {n n' : NFA} {s c t : Nat} (E : Prop) (h : n.addCharTransition s c t = .ok n')
    (hs : s < n.length) : Inv n n' s t E ∧ n'.length = n.length := by
  unfold NFA.addCharTransition at h
  simp only at h
  split at h
  · split at h
    · cases h
    · cases h
      refine ⟨inv_modify n s t _ E hs ?_ (fun b hb => Or.inl hb), List.length_modify _ _ _⟩
      apply stgt_chars
      intro e he b hb
      obtain ⟨e0, he0, rfl⟩ := List.mem_map.mp he
      split at hb
      · rcases (mem_setInsert _ _ _).mp hb with hb | hb
        · exact Or.inr hb
        · exact Or.inl ⟨e0, he0, hb⟩
      · exact Or.inl ⟨e0, he0, hb⟩
  · cases h
    refine ⟨inv_modify n s t _ E hs ?_ (fun b hb => Or.inl hb), List.length_modify _ _ _⟩
    apply stgt_chars
    intro e he b hb
    rcases List.mem_append.mp he with he | he
    · exact Or.inl ⟨e, he, hb⟩
    · simp only [List.mem_singleton] at he
      subst he
      simp only [List.mem_singleton] at hb
      exact Or.inr hb

theorem allV_mono {α : Type} {P Q : α → Prop} {m : RangeMap α} (h : AllV P m) (hpq : ∀ x, P x → Q x) : AllV Q m :=
  fun r hr => hpq _ (h r hr)

theorem allV_old (st : NState) (t : Nat) :
    AllV (fun l => ∀ b ∈ l, (∃ r0 ∈ st.ranges, b ∈ r0.2.2) ∨ b = t) st.ranges :=
  fun r hr b hb => Or.inl ⟨r, hr, hb⟩

theorem setUnion_ok (Q : Nat → Prop) (x y : List Nat) (hx : ∀ b ∈ x, Q b) (hy : ∀ b ∈ y, Q b) :
    ∀ b ∈ setUnion x y, Q b := by
  intro b hb
  rcases (mem_setUnion _ _ _).mp hb with hb | hb
  · exact hx b hb
  · exact hy b hb

theorem inv_addRange (n : NFA) (s rs re t : Nat) (E : Prop) (hs : s < n.length) :
    Inv n (n.addRangeTransition s rs re t) s t E ∧ (n.addRangeTransition s rs re t).length = n.length := by
  unfold NFA.addRangeTransition
  refine ⟨inv_modify n s t _ E hs ?_ (fun b hb => Or.inl hb), List.length_modify _ _ _⟩
  apply stgt_ranges
  unfold RangeMap.insert
  apply insertAux_allV
  · intro b hb
    simp only [List.mem_singleton] at hb
    exact Or.inr hb
  · intro x hx
    apply setUnion_ok _ _ _ hx
    intro b hb
    simp only [List.mem_singleton] at hb
    exact Or.inr hb
  · exact allV_old _ _

theorem inv_addRanges (n : NFA) (s : Nat) (m : RangeMap Unit) (t : Nat) (E : Prop) (hs : s < n.length) :
    Inv n (n.addRangeTransitions s m t) s t E ∧ (n.addRangeTransitions s m t).length = n.length := by
  unfold NFA.addRangeTransitions
  refine ⟨inv_modify n s t _ E hs ?_ (fun b hb => Or.inl hb), List.length_modify _ _ _⟩
  apply stgt_ranges
  apply insertRanges_allV
  · intro x y hx hy
    exact setUnion_ok _ _ _ hx hy
  · exact allV_old _ _
  · intro r hr b hb
    unfold RangeMap.mapVals at hr
    obtain ⟨r0, _, rfl⟩ := List.mem_map.mp hr
    simp only [List.mem_singleton] at hb
    exact Or.inr hb

/-! ## Composition helpers -/

/-- append a step that adds no end-of-input transition -/
theorem Inv.add {n m m' : NFA} {cur cont c k : Nat} {E : Prop} (f : Inv n m cur cont E) (g : Inv m m' c k False)
    (hc : c = cur ∨ n.length ≤ c) (hk : k = cont ∨ (n.length ≤ k ∧ k < m'.length)) : Inv n m' cur cont E :=
  Inv.trans f g (Or.inl rfl) hc (Or.inl rfl) hk (fun h => ⟨h, rfl⟩) False.elim

/-- append a step with the same continuation -/
theorem Inv.addE {n m m' : NFA} {cur cont c : Nat} {E : Prop} (f : Inv n m cur cont E) (g : Inv m m' c cont E)
    (hc : c = cur ∨ n.length ≤ c) : Inv n m' cur cont E :=
  Inv.trans f g (Or.inl rfl) hc (Or.inl rfl) (Or.inl rfl) (fun h => ⟨h, rfl⟩) (fun h => ⟨h, rfl⟩)

/-! ## `$` in tail position -/

theorem tailEoi_of_eoiFree (re : Regex) (h : eoiFree re) : tailEoi re := by
  induction re with
  | star r _ => exact h
  | plus r _ => exact h
  | opt r ih => exact ih h
  | cat a b _ ihb => exact ⟨h.1, ihb h.2⟩
  | alt a b iha ihb => exact ⟨iha h.1, ihb h.2⟩
  | _ => trivial

/-- what is required of `re` for `addRe re cur cont` to add end-of-input transitions only to `cont`,
and none at all unless `E` -/
def OKE (re : Regex) (E : Prop) : Prop := eoiFree re ∨ (E ∧ tailEoi re)

theorem OKE.iter {r : Regex} {E : Prop} : OKE (.star r) E → OKE r False := by
  rintro (h | ⟨_, h⟩) <;> exact Or.inl h

theorem OKE.iter' {r : Regex} {E : Prop} : OKE (.plus r) E → OKE r False := by
  rintro (h | ⟨_, h⟩) <;> exact Or.inl h

theorem OKE.opt {r : Regex} {E : Prop} : OKE (.opt r) E → OKE r E := by
  rintro (h | ⟨hE, h⟩)
  · exact Or.inl h
  · exact Or.inr ⟨hE, h⟩

theorem OKE.cat {a b : Regex} {E : Prop} : OKE (.cat a b) E → OKE a False ∧ OKE b E := by
  rintro (h | ⟨hE, h⟩)
  · exact ⟨Or.inl h.1, Or.inl h.2⟩
  · exact ⟨Or.inl h.1, Or.inr ⟨hE, h.2⟩⟩

theorem OKE.alt {a b : Regex} {E : Prop} : OKE (.alt a b) E → OKE a E ∧ OKE b E := by
  rintro (h | ⟨hE, h⟩)
  · exact ⟨Or.inl h.1, Or.inl h.2⟩
  · exact ⟨Or.inr ⟨hE, h.1⟩, Or.inr ⟨hE, h.2⟩⟩

theorem OKE.eoi {E : Prop} : OKE .eoi E → E := by
  rintro (h | ⟨hE, _⟩)
  · exact h.elim
  · exact hE

/-! ## Leaves with loops -/

theorem addStr_inv (E : Prop) (cs : List Nat) : ∀ (cur cont : Nat) (n n' : NFA), cur < n.length →
    NFA.addStr cs cur cont n = .ok n' → Inv n n' cur cont E := by
  induction cs with
  | nil =>
    intro cur cont n n' _ h
    simp only [NFA.addStr] at h
    cases h
    exact Inv.refl _ _ _ _
  | cons c rest ih =>
    intro cur cont n n' hcur h
    cases rest with
    | nil =>
      simp only [NFA.addStr] at h
      exact (inv_addChar E h hcur).1
    | cons c' cs =>
      simp only [NFA.addStr, newState_snd] at h
      obtain ⟨n1, h1, h⟩ := bind_ok h
      have hl := length_newState n
      have s1 := inv_addChar False h1 (by omega)
      have hl1 := s1.2
      have g := ih n.length cont n1 n' (by omega) h
      exact ((Inv.newState n cur cont E).add s1.1 (Or.inl rfl) (Or.inr ⟨Nat.le_refl _, by omega⟩)).addE g
        (Or.inr (Nat.le_refl _))

theorem addSet_inv (E : Prop) (items : List CharOrRange) : ∀ (seen : List Nat) (cur cont : Nat) (n n' : NFA),
    cur < n.length → NFA.addSet items seen cur cont n = .ok n' → Inv n n' cur cont E := by
  induction items with
  | nil =>
    intro seen cur cont n n' _ h
    simp only [NFA.addSet] at h
    cases h
    exact Inv.refl _ _ _ _
  | cons it items ih =>
    intro seen cur cont n n' hcur h
    cases it with
    | chr c =>
      simp only [NFA.addSet] at h
      by_cases hs : seen.contains c = true
      · rw [if_pos hs] at h
        exact ih seen cur cont n n' hcur h
      · rw [if_neg hs] at h
        obtain ⟨n1, h1, h⟩ := bind_ok h
        have s1 := inv_addChar E h1 hcur
        exact s1.1.seq (ih _ cur cont n1 n' (by rw [s1.2]; exact hcur) h)
    | rng s e =>
      simp only [NFA.addSet] at h
      have s1 := inv_addRange n cur s e cont E hcur
      exact s1.1.seq (ih _ cur cont _ n' (by rw [s1.2]; exact hcur) h)

/-! ## The core lemma -/

theorem addRe_inv (re : Regex) : ∀ (E : Prop) (cur cont : Nat) (n n' : NFA), cur < n.length → OKE re E →
    NFA.addRe re cur cont n = .ok n' → Inv n n' cur cont E := by
  induction re with
  | builtin name =>
    intro E cur cont n n' hcur _ h
    simp only [NFA.addRe] at h
    cases hb : builtinRanges name with
    | none => rw [hb] at h; cases h
    | some rs =>
      rw [hb] at h
      simp only [Except.ok.injEq] at h
      subst h
      exact (inv_addRanges n cur _ cont E hcur).1
  | var name =>
    intro E cur cont n n' _ _ h
    simp only [NFA.addRe] at h
    cases h
  | chr c =>
    intro E cur cont n n' hcur _ h
    simp only [NFA.addRe] at h
    exact (inv_addChar E h hcur).1
  | str cs =>
    intro E cur cont n n' hcur _ h
    simp only [NFA.addRe] at h
    exact addStr_inv E cs cur cont n n' hcur h
  | set items =>
    intro E cur cont n n' hcur _ h
    simp only [NFA.addRe] at h
    exact addSet_inv E items [] cur cont n n' hcur h
  | star r ih =>
    intro E cur cont n n' hcur hok h
    simp only [NFA.addRe, newState_snd, length_newState] at h
    obtain ⟨n1, h1, h⟩ := bind_ok h
    obtain ⟨n2, h2, h⟩ := bind_ok h
    obtain ⟨n3, h3, h⟩ := bind_ok h
    obtain ⟨n4, h4, h⟩ := bind_ok h
    have hl := length_newState n
    have hl0 := length_newState n.newState.1
    have g := ih False n.length (n.length + 1) _ n1 (by omega) hok.iter h1
    have hl1 := g.len
    have s2 := inv_addEps False h2 (by omega)
    have hl2 := s2.2
    have s3 := inv_addEps False h3 (by omega)
    have hl3 := s3.2
    have s4 := inv_addEps False h4 (by omega)
    have hl4 := s4.2
    have s5 := inv_addEps False h (by omega)
    have hl5 := s5.2
    have f0 : Inv n n.newState.1.newState.1 cur cont E := (Inv.newState n cur cont E).seq (Inv.newState _ cur cont E)
    have f1 := f0.add g (Or.inr (Nat.le_refl _)) (Or.inr ⟨by omega, by omega⟩)
    have f2 := f1.add s2.1 (Or.inl rfl) (Or.inl rfl)
    have f3 := f2.add s3.1 (Or.inl rfl) (Or.inr ⟨Nat.le_refl _, by omega⟩)
    have f4 := f3.add s4.1 (Or.inr (by omega)) (Or.inl rfl)
    exact f4.add s5.1 (Or.inr (by omega)) (Or.inr ⟨Nat.le_refl _, by omega⟩)
  | plus r ih =>
    intro E cur cont n n' hcur hok h
    simp only [NFA.addRe, newState_snd, length_newState] at h
    obtain ⟨n1, h1, h⟩ := bind_ok h
    obtain ⟨n2, h2, h⟩ := bind_ok h
    obtain ⟨n3, h3, h⟩ := bind_ok h
    have hl := length_newState n
    have hl0 := length_newState n.newState.1
    have g := ih False n.length (n.length + 1) _ n1 (by omega) hok.iter' h1
    have hl1 := g.len
    have s2 := inv_addEps False h2 (by omega)
    have hl2 := s2.2
    have s3 := inv_addEps False h3 (by omega)
    have hl3 := s3.2
    have s4 := inv_addEps False h (by omega)
    have hl4 := s4.2
    have f0 : Inv n n.newState.1.newState.1 cur cont E := (Inv.newState n cur cont E).seq (Inv.newState _ cur cont E)
    have f1 := f0.add g (Or.inr (Nat.le_refl _)) (Or.inr ⟨by omega, by omega⟩)
    have f2 := f1.add s2.1 (Or.inl rfl) (Or.inr ⟨Nat.le_refl _, by omega⟩)
    have f3 := f2.add s3.1 (Or.inr (by omega)) (Or.inl rfl)
    exact f3.add s4.1 (Or.inr (by omega)) (Or.inr ⟨Nat.le_refl _, by omega⟩)
  | opt r ih =>
    intro E cur cont n n' hcur hok h
    simp only [NFA.addRe, newState_snd, length_newState] at h
    obtain ⟨n1, h1, h⟩ := bind_ok h
    obtain ⟨n2, h2, h⟩ := bind_ok h
    have hl := length_newState n
    have g := ih E n.length cont _ n1 (by omega) hok.opt h1
    have hl1 := g.len
    have s2 := inv_addEps False h2 (by omega)
    have hl2 := s2.2
    have s3 := inv_addEps False h (by omega)
    have hl3 := s3.2
    have f1 := (Inv.newState n cur cont E).addE g (Or.inr (Nat.le_refl _))
    have f2 := f1.add s2.1 (Or.inl rfl) (Or.inl rfl)
    exact f2.add s3.1 (Or.inl rfl) (Or.inr ⟨Nat.le_refl _, by omega⟩)
  | cat a b iha ihb =>
    intro E cur cont n n' hcur hok h
    simp only [NFA.addRe, newState_snd, length_newState] at h
    obtain ⟨n1, h1, h⟩ := bind_ok h
    have hl := length_newState n
    have ga := iha False cur n.length _ n1 (by omega) hok.cat.1 h1
    have hl1 := ga.len
    have gb := ihb E n.length cont n1 n' (by omega) hok.cat.2 h
    have f1 := (Inv.newState n cur cont E).add ga (Or.inl rfl) (Or.inr ⟨Nat.le_refl _, by omega⟩)
    exact f1.addE gb (Or.inr (Nat.le_refl _))
  | alt a b iha ihb =>
    intro E cur cont n n' hcur hok h
    simp only [NFA.addRe, newState_snd, length_newState] at h
    obtain ⟨n1, h1, h⟩ := bind_ok h
    obtain ⟨n2, h2, h⟩ := bind_ok h
    obtain ⟨n3, h3, h⟩ := bind_ok h
    have hl := length_newState n
    have hl0 := length_newState n.newState.1
    have ga := iha E n.length cont _ n1 (by omega) hok.alt.1 h1
    have hl1 := ga.len
    have gb := ihb E (n.length + 1) cont n1 n2 (by omega) hok.alt.2 h2
    have hl2 := gb.len
    have s3 := inv_addEps False h3 (by omega)
    have hl3 := s3.2
    have s4 := inv_addEps False h (by omega)
    have hl4 := s4.2
    have f0 : Inv n n.newState.1.newState.1 cur cont E := (Inv.newState n cur cont E).seq (Inv.newState _ cur cont E)
    have f1 := f0.addE ga (Or.inr (Nat.le_refl _))
    have f2 := f1.addE gb (Or.inr (by omega))
    have f3 := f2.add s3.1 (Or.inl rfl) (Or.inr ⟨Nat.le_refl _, by omega⟩)
    exact f3.add s4.1 (Or.inl rfl) (Or.inr ⟨by omega, by omega⟩)
  | any =>
    intro E cur cont n n' hcur _ h
    simp only [NFA.addRe] at h
    exact (inv_addAny E h hcur).1
  | eoi =>
    intro E cur cont n n' hcur hok h
    simp only [NFA.addRe] at h
    exact (inv_addEoi E hok.eoi h hcur).1
  | diff a b _ _ =>
    intro E cur cont n n' hcur _ h
    simp only [NFA.addRe] at h
    obtain ⟨m, hm, h⟩ := bind_ok h
    simp only [pure, Except.pure, Except.ok.injEq] at h
    subst h
    exact (inv_addRanges n cur m cont E hcur).1

/-! ## `add_regex` and the fold over the rules -/

/-- the invariant of the `add_regex` fold: listed targets are states other than 0; end-of-input
targets have no outgoing transition -/
structure Good (n : NFA) : Prop where
  pos : 0 < n.length
  tgt : ∀ a b, STgt (n.st a) b → b ≠ 0 ∧ b < n.length
  eoi : ∀ a t, t ∈ (n.st a).eoi → NFA.virgin n t

theorem new_st (a : Nat) : NFA.new.st a = NState.empty := by
  cases a with
  | zero => rfl
  | succ k => exact st_ge NFA.new (k + 1) (by simp [NFA.new])

theorem good_new : Good NFA.new := by
  refine ⟨Nat.zero_lt_one, ?_, ?_⟩
  · intro a b h; rw [new_st] at h; exact absurd h (stgt_empty b)
  · intro a t h; rw [new_st] at h; cases h

theorem good_step {n n' : NFA} (hg : Good n) (re : Regex) (hre : tailEoi re) (ctx : Option Nat) (value : Nat)
    (h : n.addRegex re ctx value = .ok n') : Good n' := by
  obtain ⟨n2, n4, h2, h4, h5⟩ := Thompson.addRegex_unfold h
  have h0 := hg.pos
  have hl1 := length_newState n
  obtain ⟨hl2, ho2, hs2⟩ := Thompson.makeAcc_spec h2 (by omega)
  have hl3 := length_newState n2
  have s4 := inv_addEps False h4 (by omega)
  have hl4 := s4.2
  have g := addRe_inv re True (n.length + 1) n.length n4 n' (by omega) (Or.inr ⟨trivial, hre⟩) h5
  have hl5 := g.len
  -- the accepting state of the new rule
  have hst2 : n2.st n.length = { NState.empty with acc := some { value := value, ctx := ctx } } := by
    rw [hs2, st_newState, st_ge n _ (Nat.le_refl _)]
  -- states of the prepared automaton in terms of the old one
  have hst3 : ∀ a, a ≠ n.length → n2.newState.1.st a = n.st a := by
    intro a ha
    rw [st_newState, ho2 a ha, st_newState]
  have htgt3 : ∀ a b, STgt (n2.newState.1.st a) b → STgt (n.st a) b := by
    intro a b hab
    by_cases ha : a = n.length
    · subst ha
      rw [st_newState, hst2] at hab
      exact absurd ((stgt_acc _ _ _).mp hab) (stgt_empty b)
    · rw [hst3 a ha] at hab; exact hab
  have hst5 : ∀ a, a < n.length → a ≠ 0 → n'.st a = n.st a := by
    intro a ha ha0
    rw [g.old a (by omega) (by omega), s4.1.old a (by omega) ha0, hst3 a (by omega)]
  have hst5acc : n'.st n.length = { NState.empty with acc := some { value := value, ctx := ctx } } := by
    rw [g.old _ (by omega) (by omega), s4.1.old _ (by omega) (by omega), st_newState, hst2]
  refine ⟨by omega, ?_, ?_⟩
  · intro a b hab
    rcases g.tgt a b hab with h1 | h1 | h1
    · rcases s4.1.tgt a b h1 with h1 | h1 | h1
      · have := hg.tgt a b (htgt3 a b h1)
        exact ⟨this.1, by omega⟩
      · omega
      · omega
    · omega
    · omega
  · intro a t hat
    rcases g.eoi a t hat with h1 | ⟨_, h1⟩
    · rcases s4.1.eoi a t h1 with h1 | ⟨h1, _⟩
      · have hold : t ∈ (n.st a).eoi := by
          by_cases ha : a = n.length
          · subst ha
            rw [st_newState, hst2] at h1
            cases h1
          · rw [hst3 a ha] at h1; exact h1
        have hb := hg.tgt a t (Or.inr (Or.inr (Or.inl hold)))
        exact Thompson.virgin_of_st_eq (hst5 t hb.2 hb.1) (hg.eoi a t hold)
      · exact h1.elim
    · subst h1
      unfold NFA.virgin
      rw [hst5acc]
      exact ⟨rfl, rfl, rfl, rfl, rfl⟩

theorem good_fold (rules : List CoreRule) : ∀ (n0 n : NFA), Good n0 → (∀ r ∈ rules, tailEoi r.re) →
    rules.foldlM (fun n r => n.addRegex r.re r.ctx r.value) n0 = .ok n → Good n := by
  induction rules with
  | nil =>
    intro n0 n hg _ h
    rw [List.foldlM_nil] at h
    cases h
    exact hg
  | cons r rest ih =>
    intro n0 n hg ht h
    rw [List.foldlM_cons] at h
    obtain ⟨n1, h1, h2⟩ := bind_ok h
    exact ih n1 n (good_step hg r.re (ht r List.mem_cons_self) r.ctx r.value h1)
      (fun x hx => ht x (List.mem_cons_of_mem _ hx)) h2

theorem Good.noIncoming0 {n : NFA} (hg : Good n) : NoIncoming0 n := by
  intro s _
  refine ⟨?_, ?_, ?_, ?_, ?_⟩
  · intro h; exact (hg.tgt s 0 (Or.inl h)).1 rfl
  · intro h; exact (hg.tgt s 0 (Or.inr (Or.inl h))).1 rfl
  · intro h; exact (hg.tgt s 0 (Or.inr (Or.inr (Or.inl h)))).1 rfl
  · intro e he h; exact (hg.tgt s 0 (Or.inr (Or.inr (Or.inr (Or.inl ⟨e, he, h⟩))))).1 rfl
  · intro r hr h; exact (hg.tgt s 0 (Or.inr (Or.inr (Or.inr (Or.inr ⟨r, hr, h⟩))))).1 rfl

theorem Good.eoiInert {n : NFA} (hg : Good n) : EoiInert n := fun s t _ h => hg.eoi s t h

end NfaShape

/-- structural facts about the Thompson NFA of a rule set: nothing leads back to state 0, and (when `$` occurs only in tail position)
every end-of-input transition leads to a state without outgoing transitions (the rule's own accepting state) -/
theorem buildNfa_shape (rules : List CoreRule) (nfa : NFA) (h : buildNfa rules = .ok nfa)
    (ht : ∀ r ∈ rules, tailEoi r.re) : NoIncoming0 nfa ∧ EoiInert nfa := by
  have hg := NfaShape.good_fold rules NFA.new nfa NfaShape.good_new ht h
  exact ⟨hg.noIncoming0, hg.eoiInert⟩

end Lexgen
