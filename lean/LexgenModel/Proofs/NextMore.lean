import LexgenModel.Spec.Machine
import LexgenModel.Proofs.MaxMunch
import LexgenModel.Proofs.NextProtocol
/-!
# More about `Iterator::next`: resume position after an error, irrelevance of the input string,
the stream as a function of the lexer state, and the bound on the number of items
-/
namespace Lexgen

variable {σ τ ε : Type}

namespace NextMore

/-! ## `gotoLen`, one step at a time -/

theorem gotoLen_nil (d : DFA Trans) (s : Nat) : gotoLen d s [] = 0 := by
  rw [gotoLen]

theorem gotoLen_cons_goto (d : DFA Trans) (s c t : Nat) (rest : List Nat)
    (h : lookupTrans (d.st s) c = some (.goto t)) : gotoLen d s (c :: rest) = gotoLen d t rest + 1 := by
  rw [gotoLen]
  simp only [h]

theorem gotoLen_cons_none (d : DFA Trans) (s c : Nat) (rest : List Nat)
    (h : lookupTrans (d.st s) c = none) : gotoLen d s (c :: rest) = 0 := by
  rw [gotoLen]
  simp only [h]

theorem gotoLen_cons_accept (d : DFA Trans) (s c : Nat) (rest : List Nat) (accs : List Acc)
    (h : lookupTrans (d.st s) c = some (.accept accs)) : gotoLen d s (c :: rest) = 0 := by
  rw [gotoLen]
  simp only [h]

/-! ## Where an `.err` (and a `.fin`) outcome comes from -/

theorem failPlain_err_pos (st : LState σ) (loc : Loc) (st' : LState σ)
    (h : failPlain st = .err loc st') : st'.iter = st.iter ∧ st'.done = st.done := by
  unfold failPlain at h
  cases hl : st.last with
  | none =>
    simp only [hl, Outcome.err.injEq] at h
    obtain ⟨_, h2⟩ := h
    subst h2
    exact ⟨rfl, rfl⟩
  | some sv => simp [hl] at h

theorem failPlain_ne_fin (st st' : LState σ) : failPlain st ≠ .fin st' := by
  unfold failPlain
  cases st.last <;> simp

theorem testRightCtxs_err (cfg : Config σ τ ε) (accs : List Acc) (st : LState σ)
    (dflt : Unit → Outcome σ) (loc : Loc) (st' : LState σ)
    (h : testRightCtxs cfg accs st dflt = .err loc st') : dflt () = .err loc st' := by
  unfold testRightCtxs at h
  cases hf : firstOK (fun i => ctxOK cfg i st.iter) accs with
  | none =>
    simp only [hf] at h
    exact h
  | some a => simp [hf, rhsCode] at h

theorem testRightCtxs_fin (cfg : Config σ τ ε) (accs : List Acc) (st : LState σ)
    (dflt : Unit → Outcome σ) (st' : LState σ)
    (h : testRightCtxs cfg accs st dflt = .fin st') : dflt () = .fin st' := by
  unfold testRightCtxs at h
  cases hf : firstOK (fun i => ctxOK cfg i st.iter) accs with
  | none =>
    simp only [hf] at h
    exact h
  | some a => simp [hf, rhsCode] at h

theorem stepSt_iter_done (cfg : Config σ τ ε) (s c : Nat) (rest : List Nat) (st : LState σ) :
    (stepSt cfg s c rest st).iter = rest ∧ (stepSt cfg s c rest st).done = st.done := by
  unfold stepSt
  exact ⟨rfl, (setAccepting_fields cfg (cfg.dfa.st s) { st with iter := c :: rest }).2.1⟩

theorem endSt_iter_done (cfg : Config σ τ ε) (s : Nat) (st : LState σ) :
    (endSt cfg s st).iter = [] ∧ (endSt cfg s st).done = true := by
  unfold endSt
  exact ⟨(setAccepting_fields cfg (cfg.dfa.st s) { st with iter := [] }).2.2.2.2.1, rfl⟩

theorem dflt_err_pos (s : Nat) (st2 : LState σ) (loc : Loc) (st' : LState σ)
    (h : (if s = 0 then Outcome.fin st2 else failPlain st2) = .err loc st') :
    st'.iter = st2.iter ∧ st'.done = st2.done := by
  by_cases hs : s = 0
  · simp [hs] at h
  · simp only [hs, if_false] at h
    exact failPlain_err_pos _ _ _ h

theorem dflt_fin (s : Nat) (st2 : LState σ) (st' : LState σ)
    (h : (if s = 0 then Outcome.fin st2 else failPlain st2) = .fin st') : st' = st2 := by
  by_cases hs : s = 0
  · simp only [hs, if_true, Outcome.fin.injEq] at h
    exact h.symm
  · simp only [hs, if_false] at h
    exact absurd h (failPlain_ne_fin _ _)

theorem scanPlain_err_pos_gen (cfg : Config σ τ ε) (ns : Nat → Option Nat)
    (htargets : targetsOK cfg.dfa = true) (hns : DispatchOK cfg.dfa cfg.inl ns) (loc : Loc) (st' : LState σ) :
    ∀ (iter : List Nat) (s : Nat) (st : LState σ), st.done = false →
      scanPlain cfg ns s iter st = .err loc st' →
      st'.iter = iter.drop (gotoLen cfg.dfa s iter + 1) ∧
      st'.done = decide (gotoLen cfg.dfa s iter = iter.length) := by
  intro iter
  induction iter with
  | nil =>
    intro s st _ h
    rw [scanPlain_nil] at h
    obtain ⟨e1, e2⟩ := endSt_iter_done cfg s st
    have hd : (if s = 0 then Outcome.fin (endSt cfg s st) else failPlain (endSt cfg s st)) = .err loc st' := by
      cases heoi : (cfg.dfa.st s).eoi with
      | none =>
        simp only [heoi] at h
        exact h
      | some tr =>
        cases tr with
        | goto t => simp [heoi] at h
        | accept accs =>
          simp only [heoi] at h
          exact testRightCtxs_err cfg accs _ _ loc st' h
    obtain ⟨h1, h2⟩ := dflt_err_pos _ _ _ _ hd
    rw [gotoLen_nil]
    refine ⟨h1.trans e1, ?_⟩
    rw [h2, e2]
    rfl
  | cons c rest ih =>
    intro s st hdone h
    rw [scanPlain_cons] at h
    obtain ⟨e1, e2⟩ := stepSt_iter_done cfg s c rest st
    have hfail : ∀ (hg : gotoLen cfg.dfa s (c :: rest) = 0)
        (hf : failPlain (stepSt cfg s c rest st) = .err loc st'),
        st'.iter = (c :: rest).drop (gotoLen cfg.dfa s (c :: rest) + 1) ∧
        st'.done = decide (gotoLen cfg.dfa s (c :: rest) = (c :: rest).length) := by
      intro hg hf
      obtain ⟨h1, h2⟩ := failPlain_err_pos _ _ _ hf
      rw [hg]
      refine ⟨h1.trans e1, ?_⟩
      rw [h2, e2, hdone]
      simp
    cases hlt : lookupTrans (cfg.dfa.st s) c with
    | none =>
      simp only [hlt] at h
      exact hfail (gotoLen_cons_none _ _ _ _ hlt) h
    | some tr =>
      cases tr with
      | accept accs =>
        simp only [hlt] at h
        exact hfail (gotoLen_cons_accept _ _ _ _ _ hlt) (testRightCtxs_err cfg accs _ _ loc st' h)
      | goto t =>
        simp only [hlt] at h
        obtain ⟨n2, hg⟩ := gotoK_eq cfg ns htargets hns s c t hlt rest (stepSt cfg s c rest st)
        rw [hg] at h
        obtain ⟨h1, h2⟩ := ih t { stepSt cfg s c rest st with state := n2 } (e2.trans hdone) h
        rw [gotoLen_cons_goto _ _ _ _ _ hlt]
        refine ⟨?_, ?_⟩
        · rw [h1, List.drop_succ_cons]
        · rw [h2]
          simp only [List.length_cons, Nat.add_right_cancel_iff]

/-- `return None` happens with the end of input handled. -/
theorem scanPlain_fin_done (cfg : Config σ τ ε) (ns : Nat → Option Nat)
    (htargets : targetsOK cfg.dfa = true) (hns : DispatchOK cfg.dfa cfg.inl ns) (st' : LState σ) :
    ∀ (iter : List Nat) (s : Nat) (st : LState σ),
      scanPlain cfg ns s iter st = .fin st' → st'.done = true := by
  intro iter
  induction iter with
  | nil =>
    intro s st h
    rw [scanPlain_nil] at h
    have hd : (if s = 0 then Outcome.fin (endSt cfg s st) else failPlain (endSt cfg s st)) = .fin st' := by
      cases heoi : (cfg.dfa.st s).eoi with
      | none =>
        simp only [heoi] at h
        exact h
      | some tr =>
        cases tr with
        | goto t => simp [heoi] at h
        | accept accs =>
          simp only [heoi] at h
          exact testRightCtxs_fin cfg accs _ _ st' h
    rw [dflt_fin _ _ _ hd]
    exact (endSt_iter_done cfg s st).2
  | cons c rest ih =>
    intro s st h
    rw [scanPlain_cons] at h
    cases hlt : lookupTrans (cfg.dfa.st s) c with
    | none =>
      simp only [hlt] at h
      exact absurd h (failPlain_ne_fin _ _)
    | some tr =>
      cases tr with
      | accept accs =>
        simp only [hlt] at h
        exact absurd (testRightCtxs_fin cfg accs _ _ st' h) (failPlain_ne_fin _ _)
      | goto t =>
        simp only [hlt] at h
        obtain ⟨n2, hg⟩ := gotoK_eq cfg ns htargets hns s c t hlt rest (stepSt cfg s c rest st)
        rw [hg] at h
        exact ih t _ h

/-! ## The input string -/

theorem gotoK_input (cfg : Config σ τ ε) (inp' : Option (List Nat)) (ns : Nat → Option Nat)
    (f g : Nat → List Nat → LState σ → Outcome σ) (rest : List Nat)
    (hfg : ∀ t st, f t rest st = g t rest st) (st : LState σ) (t : Nat) :
    ScanPlain.gotoK f cfg ns rest st t = ScanPlain.gotoK g { cfg with input := inp' } ns rest st t := by
  unfold ScanPlain.gotoK
  simp only [hfg]

theorem scan_input (cfg : Config σ τ ε) (inp' : Option (List Nat)) (ns : Nat → Option Nat) :
    ∀ (iter : List Nat) (s : Nat) (st : LState σ),
      scan cfg ns s iter st = scan { cfg with input := inp' } ns s iter st := by
  intro iter
  induction iter with
  | nil =>
    intro s st
    rw [ScanPlain.scan_nil, ScanPlain.scan_nil]
    rfl
  | cons c rest ih =>
    intro s st
    have hg := gotoK_input cfg inp' ns (scan cfg ns) (scan { cfg with input := inp' } ns) rest (ih)
    rw [ScanPlain.scan_cons, ScanPlain.scan_cons]
    simp only [hg]
    rfl

theorem run_input (cfg : Config σ τ ε) (inp' : Option (List Nat)) (hI : IgnoresText cfg.actions)
    (a : Nat) (st : LState σ) :
    (cfg.actions a).run (mkView cfg a st) =
      (cfg.actions a).run (mkView { cfg with input := inp' } a st) :=
  (hI a (mkView cfg a st) (mkView { cfg with input := inp' } a st).text).trans
    (hI a (mkView { cfg with input := inp' } a st) (mkView { cfg with input := inp' } a st).text).symm

/-- `callAction` with the effect of the action function abstracted -/
def callWith (cfg : Config σ τ ε) (eff : Effect σ (Except ε τ)) (st : LState σ) : StepOut σ τ ε :=
  let st := { st with user := eff.user }
  let st := if eff.reset then { st with curStart := st.curEnd } else st
  let st := match eff.switchTo with
    | some r => let n := switchNum cfg r; { st with state := n, initial := n }
    | none => st
  match eff.res with
  | none => .cont { st with state := st.initial }
  | some r =>
    let st := { st with state := st.initial }
    let ms := st.curStart
    let me := st.curEnd
    let st := { st with curStart := st.curEnd }
    match r with
    | .ok t => .ret (some (.tok ms t me)) st
    | .error e => .ret (some (.custom ms e)) st

theorem callAction_eq (cfg : Config σ τ ε) (a : Nat) (st : LState σ) :
    callAction cfg a st = callWith cfg ((cfg.actions a).run (mkView cfg a st)) st := rfl

theorem callWith_input (cfg : Config σ τ ε) (inp' : Option (List Nat)) (eff : Effect σ (Except ε τ))
    (st : LState σ) : callWith cfg eff st = callWith { cfg with input := inp' } eff st := rfl

theorem callAction_input (cfg : Config σ τ ε) (inp' : Option (List Nat)) (hI : IgnoresText cfg.actions)
    (a : Nat) (st : LState σ) : callAction cfg a st = callAction { cfg with input := inp' } a st := by
  rw [callAction_eq, callAction_eq, run_input cfg inp' hI a st]
  rfl

theorem finish_input (cfg : Config σ τ ε) (inp' : Option (List Nat)) (hI : IgnoresText cfg.actions)
    (o : Outcome σ) : finish cfg o = finish { cfg with input := inp' } o := by
  cases o with
  | act a st => exact callAction_input cfg inp' hI a st
  | err loc st => rfl
  | fin st => rfl
  | goto st => rfl

theorem execState_input (cfg : Config σ τ ε) (inp' : Option (List Nat)) (hI : IgnoresText cfg.actions)
    (ns : Nat → Option Nat) (s : Nat) (iter : List Nat) (st : LState σ) :
    execState cfg ns s iter st = execState { cfg with input := inp' } ns s iter st := by
  unfold execState
  rw [← scan_input cfg inp' ns iter s st]
  exact finish_input cfg inp' hI _

theorem nextLoop_input (cfg : Config σ τ ε) (inp' : Option (List Nat)) (hI : IgnoresText cfg.actions) :
    ∀ (fuel : Nat) (st : LState σ), nextLoop cfg fuel st = nextLoop { cfg with input := inp' } fuel st := by
  intro fuel
  induction fuel with
  | zero => intro st; rfl
  | succ f ih =>
    intro st
    rw [nextLoop, nextLoop]
    by_cases hd : st.done = true
    · rw [if_pos hd, if_pos hd]
    · rw [if_neg hd, if_neg hd]
      show (match dispatch (stateArms cfg.dfa cfg.inl) st.state with
        | none => none
        | some s =>
          match execState cfg (dispatch (stateArms cfg.dfa cfg.inl)) s st.iter st with
          | .ret item st' => some (item, st')
          | .cont st' => nextLoop cfg f st') =
        (match dispatch (stateArms cfg.dfa cfg.inl) st.state with
        | none => none
        | some s =>
          match execState { cfg with input := inp' } (dispatch (stateArms cfg.dfa cfg.inl)) s st.iter st with
          | .ret item st' => some (item, st')
          | .cont st' => nextLoop { cfg with input := inp' } f st')
      cases dispatch (stateArms cfg.dfa cfg.inl) st.state with
      | none => rfl
      | some s =>
        simp only []
        rw [← execState_input cfg inp' hI]
        cases execState cfg (dispatch (stateArms cfg.dfa cfg.inl)) s st.iter st with
        | ret item st' => rfl
        | cont st' => exact ih st'

/-! ## `runN`, one call at a time -/

theorem runN_succ_some (cfg : Config σ τ ε) (n : Nat) (st : LState σ) (item : Option (Item τ ε))
    (st' : LState σ) (h : next cfg st = some (item, st')) :
    runN cfg (n + 1) st = (some item :: (runN cfg n st').1, (runN cfg n st').2) := by
  rw [runN]
  simp only [h]

theorem runN_succ_none (cfg : Config σ τ ε) (n : Nat) (st : LState σ) (h : next cfg st = none) :
    runN cfg (n + 1) st = ([none], st) := by
  rw [runN]
  simp only [h]

theorem itemCount_nil : itemCount ([] : List (Option (Option (Item τ ε)))) = 0 := rfl

theorem itemCount_cons_item (x : Item τ ε) (l : List (Option (Option (Item τ ε)))) :
    itemCount (some (some x) :: l) = itemCount l + 1 := by
  simp [itemCount]

theorem itemCount_cons_end (l : List (Option (Option (Item τ ε)))) :
    itemCount (some none :: l) = itemCount l := by
  simp [itemCount]

/-! ## Progress of one call, with the position bounded by the length of the iterator -/

/-- an item shortens the iterator or handles the end of input; `None` is returned with the end of
input handled -/
def Prog (st : LState σ) (item : Option (Item τ ε)) (st' : LState σ) : Prop :=
  (∀ x, item = some x → st'.done = true ∨ st'.iter.length < st.iter.length) ∧
  (item = none → st'.done = true)

theorem callAction_ne_end (cfg : Config σ τ ε) (a : Nat) (st st' : LState σ) :
    callAction cfg a st ≠ .ret none st' := by
  rw [callAction_eq]
  generalize (cfg.actions a).run (mkView cfg a st) = eff
  unfold callWith
  cases eff.res with
  | none => simp
  | some r => cases r <;> simp

theorem round_prog (cfg : Config σ τ ε) (hm : MachineOK cfg) (st : LState σ) (hr : Ready cfg st)
    (e : Nat) (he : IsEntry cfg e) (item : Option (Item τ ε)) (st' : LState σ)
    (h : execState cfg (dispatch (stateArms cfg.dfa cfg.inl)) e st.iter st = .ret item st') :
    Prog st item st' := by
  obtain ⟨hl, hsi, e0, he0, hst0⟩ := hr
  have hok := NextProtocol.scan_entry_ok cfg hm st hl e he
  have hns := dispatchOK_of_machineOK cfg hm
  have heq := scan_eq_scanPlain cfg _ hm.flags hm.acceptAny hm.targets hns e st.iter st
    (by intro h; rw [hl] at h; cases h)
  unfold execState at h
  cases ho : scan cfg (dispatch (stateArms cfg.dfa cfg.inl)) e st.iter st with
  | act a st1 =>
    rw [ho] at hok h
    have hact : NextProtocol.ActOK st.iter st.initial st1 := hok
    obtain ⟨k, hk, hkle, hkp⟩ := hact.iter
    have hent : ∃ e, IsEntry cfg e ∧ st1.initial = renumber cfg.inl e :=
      ⟨e0, he0, by rw [hact.initial, ← hsi, hst0]⟩
    have h' : callAction cfg a st1 = .ret item st' := h
    rcases NextProtocol.callAction_ok cfg a st1 hact.last hent with
      ⟨st2, hc, _⟩ | ⟨x, st2, hc, _, _, hi2, hd2⟩
    · rw [hc] at h'
      cases h'
    · rw [hc] at h'
      cases h'
      refine ⟨fun _ _ => ?_, fun hn => by cases hn⟩
      rcases hkp with hkp | hkp
      · right
        rw [hi2, hk, List.length_drop]
        omega
      · left
        rw [hd2]
        exact hkp
  | err loc st1 =>
    rw [ho] at hok h
    have herr : NextProtocol.ErrOK st.iter st1 := hok
    obtain ⟨k, hk, hkle, hkp⟩ := herr.iter
    have h' : StepOut.ret (some (Item.invalid loc)) st1 = .ret item st' := h
    cases h'
    refine ⟨fun _ _ => ?_, fun hn => by cases hn⟩
    rcases hkp with hkp | hkp
    · right
      rw [hk, List.length_drop]
      omega
    · exact Or.inl hkp
  | fin st1 =>
    rw [ho] at h
    have h' : StepOut.ret none st1 = .ret item st' := h
    rw [heq] at ho
    have hdone := scanPlain_fin_done cfg _ hm.targets hns st1 st.iter e st ho
    cases h'
    exact ⟨fun x hx => (by cases hx), fun _ => hdone⟩
  | goto st1 =>
    rw [ho] at h
    have h' : StepOut.cont st1 = .ret item st' := h
    cases h'

theorem nextLoop_prog (cfg : Config σ τ ε) (hm : MachineOK cfg) :
    ∀ (fuel : Nat) (st : LState σ) (item : Option (Item τ ε)) (st' : LState σ), Ready cfg st →
      nextLoop cfg fuel st = some (item, st') → Prog st item st' := by
  intro fuel
  induction fuel with
  | zero =>
    intro st item st' _ h
    rw [nextLoop] at h
    cases h
  | succ f ih =>
    intro st item st' hr h
    rw [nextLoop] at h
    by_cases hd : st.done = true
    · rw [if_pos hd] at h
      cases h
      exact ⟨fun x hx => (by cases hx), fun _ => hd⟩
    · rw [if_neg hd] at h
      obtain ⟨e0, he0, hst0⟩ := hr.2.2
      have hdisp : dispatch (stateArms cfg.dfa cfg.inl) st.state = some e0 := by
        rw [hst0]
        exact NextProtocol.dispatch_entry cfg hm e0 he0
      simp only [hdisp] at h
      have hround := NextProtocol.round_ok cfg hm st hr e0 he0
      cases hx : execState cfg (dispatch (stateArms cfg.dfa cfg.inl)) e0 st.iter st with
      | ret item1 st1 =>
        rw [hx] at h
        simp only [Option.some.injEq, Prod.mk.injEq] at h
        obtain ⟨h1, h2⟩ := h
        subst h1
        subst h2
        exact round_prog cfg hm st hr e0 he0 _ _ hx
      | cont st1 =>
        rw [hx] at h hround
        have hc : NextProtocol.ContOK cfg st st1 := hround
        obtain ⟨k, hk, hkle, _⟩ := hc.iter
        have hlen : st1.iter.length ≤ st.iter.length := by
          rw [hk, List.length_drop]
          omega
        obtain ⟨p1, p2⟩ := ih st1 item st' hc.ready h
        refine ⟨fun x hx => ?_, p2⟩
        rcases p1 x hx with p | p
        · exact Or.inl p
        · exact Or.inr (by omega)

theorem next_prog (cfg : Config σ τ ε) (hm : MachineOK cfg) (st : LState σ) (hr : Ready cfg st)
    (item : Option (Item τ ε)) (st' : LState σ) (h : next cfg st = some (item, st')) :
    Prog st item st' :=
  nextLoop_prog cfg hm _ st item st' hr h

theorem runN_items_aux (cfg : Config σ τ ε) (hm : MachineOK cfg) :
    ∀ (n : Nat) (st : LState σ), Ready cfg st →
      (st.done = true → itemCount (runN cfg n st).1 = 0) ∧
      itemCount (runN cfg n st).1 ≤ st.iter.length + 1 ∧
      (∀ x ∈ (runN cfg n st).1, x ≠ none) ∧ Ready cfg (runN cfg n st).2 := by
  intro n
  induction n with
  | zero =>
    intro st hr
    exact ⟨fun _ => rfl, Nat.zero_le _, fun x hx => absurd hx List.not_mem_nil, hr⟩
  | succ n ih =>
    intro st hr
    obtain ⟨r, hn⟩ := next_total cfg hm st hr
    obtain ⟨item, st1⟩ := r
    have hr1 := next_ready cfg hm st hr item st1 hn
    obtain ⟨ih1, ih2, ih3, ih4⟩ := ih st1 hr1
    obtain ⟨hp1, hp2⟩ := next_prog cfg hm st hr item st1 hn
    rw [runN_succ_some cfg n st item st1 hn]
    have hmem : ∀ x ∈ some item :: (runN cfg n st1).1, x ≠ none := by
      intro x hx
      rcases List.mem_cons.1 hx with hx | hx
      · rw [hx]
        exact fun h => by cases h
      · exact ih3 x hx
    refine ⟨?_, ?_, hmem, ih4⟩
    · intro hd
      rw [next_done cfg st hd] at hn
      simp only [Option.some.injEq, Prod.mk.injEq] at hn
      obtain ⟨h1, h2⟩ := hn
      subst h1
      subst h2
      show itemCount (some none :: (runN cfg n st).1) = 0
      rw [itemCount_cons_end]
      exact ih1 hd
    · cases item with
      | none =>
        show itemCount (some none :: (runN cfg n st1).1) ≤ _
        rw [itemCount_cons_end, ih1 (hp2 rfl)]
        exact Nat.zero_le _
      | some x =>
        show itemCount (some (some x) :: (runN cfg n st1).1) ≤ _
        rw [itemCount_cons_item]
        rcases hp1 x rfl with p | p
        · rw [ih1 p]
          omega
        · omega

end NextMore

open NextMore

/-- Where the lexer resumes after a failure: right after the characters read through `goto`
transitions plus the offending character (if one was read); end-of-input is flagged exactly when
everything was read. -/
theorem scanPlain_err_pos (cfg : Config σ τ ε) (ns : Nat → Option Nat)
    (htargets : targetsOK cfg.dfa = true) (hns : DispatchOK cfg.dfa cfg.inl ns)
    (s : Nat) (st : LState σ) (hlast : st.last = none) (hdone : st.done = false) (loc : Loc) (st' : LState σ)
    (h : scanPlain cfg ns s st.iter st = .err loc st') :
    st'.iter = st.iter.drop (gotoLen cfg.dfa s st.iter + 1) ∧
    st'.done = decide (gotoLen cfg.dfa s st.iter = st.iter.length) := by
  -- `hlast` is not needed: an `.err` outcome itself implies that nothing was saved
  have _ := hlast
  exact scanPlain_err_pos_gen cfg ns htargets hns loc st' st.iter s st hdone h

/-- The input string is only read by `match_()`: for actions that ignore the text, a lexer built
from an iterator behaves like one built from a `&str`. -/
theorem next_input_irrelevant (cfg : Config σ τ ε) (inp' : Option (List Nat)) (hI : IgnoresText cfg.actions)
    (st : LState σ) : next cfg st = next { cfg with input := inp' } st := by
  unfold next
  exact nextLoop_input cfg inp' hI _ st

/-- The stream is a function of the lexer state: the items after `m` calls are those of the state
reached after `m` calls (a clone taken there continues identically). -/
theorem runN_add (cfg : Config σ τ ε) (m n : Nat) (st : LState σ) (h : ∀ x ∈ (runN cfg m st).1, x ≠ none) :
    runN cfg (m + n) st = ((runN cfg m st).1 ++ (runN cfg n (runN cfg m st).2).1, (runN cfg n (runN cfg m st).2).2) := by
  induction m generalizing st with
  | zero =>
    rw [Nat.zero_add]
    rfl
  | succ m ih =>
    cases hn : next cfg st with
    | none =>
      rw [runN_succ_none cfg m st hn] at h
      exact absurd rfl (h none (List.mem_singleton.2 rfl))
    | some r =>
      obtain ⟨item, st1⟩ := r
      have e1 := runN_succ_some cfg m st item st1 hn
      have e2 : runN cfg (m + 1 + n) st =
          (some item :: (runN cfg (m + n) st1).1, (runN cfg (m + n) st1).2) := by
        rw [show m + 1 + n = (m + n) + 1 by omega]
        exact runN_succ_some cfg (m + n) st item st1 hn
      rw [e1] at h
      have ih' := ih st1 (fun x hx => h x (List.mem_cons_of_mem _ hx))
      rw [e2, e1, ih']
      rfl

/-- A lexer over `n` characters yields at most `n + 1` items; no call runs out of fuel; the boundary
invariant holds throughout. -/
theorem runN_items_le (cfg : Config σ τ ε) (hm : MachineOK cfg) (st : LState σ) (hr : Ready cfg st) (n : Nat) :
    itemCount (runN cfg n st).1 ≤ st.iter.length + 1 ∧ (∀ x ∈ (runN cfg n st).1, x ≠ none) ∧ Ready cfg (runN cfg n st).2 :=
  (runN_items_aux cfg hm n st hr).2

end Lexgen
