import LexgenModel.Spec.StaticOK
import LexgenModel.Proofs.Totality
/-!
# The model of the macro accepts exactly the `StaticOK` definitions

`compileLexer_ok_iff`: for a definition with non-inverted bracket ranges,
`(∃ c, compileLexer items = .ok c) ↔ StaticOK items`.

Plan of the proof.
* `OI x` ("only internal"): `x` fails only with an `.internal` error.  It is the dual of
  `CompileTotal.NI`; a computation that is both `OI` and `NI` succeeds.
* every stage is analysed twice: *if it succeeds, the static condition of that stage holds* and *if the
  static condition holds, the stage is `OI`*.
* the two folds (`compileLexer` over the items, `compileRuleSet` over the rules) are handled by two
  generic lemmas about a fold whose step function has an abstract state computed from the prefix read so
  far (`fold_ok_split`, `fold_oi_split`).
* `compileLexer_no_internal` (totality) removes the internal errors.
* `staticOK_iff_split` turns the plain clauses of `StaticOK` (`Nodup`, `head?`, a count) into conditions
  "at every position `items = pre ++ x :: post`", which is what the fold checks (`QTop`).

After the main theorem:
* `staticOK_iff_scan` / `ruleSetOK_iff_scan`: the same conditions as a conjunction along the list, which
  `simp` evaluates on a concrete definition; the `example`s (one accepted definition, ill-formed ones, and
  the corner cases: empty definition, rule set without rules, a `let` named like a rule set).
* the link `ClassExpr re ↔ regexToRangeMap re` succeeds is `classExpr_iff` (and `classOK_diff_iff`,
  `addRe_ok_classOK` / `addRe_oi` for `ClassOK` against `addRe`).
* `inlineVars_ok_iff_expands`, `elaborates_iff_expands`: the fuel `b.length + 1` of the model is never the
  limiting factor (a chain of `k` nested references that succeeds goes through `k` different bound names),
  so `Elaborates` has the fuel-free reading `∃ re', Expands b re re' ∧ ClassOK re'`.

Remark on "first error wins".  The model stops at the first violated check, so which *error* is reported
depends on the order of the checks; for an iff on *success* this is irrelevant: every check is passed on an
accepted definition, and `StaticOK` is the conjunction of all of them.  The only clause whose scope needs
care is the binding one: bindings are looked up lazily (at the use site, in the scope at that point), so
an unbound or cyclic `let` that is never used is accepted, and a top-level `let` declared after a rule set
is invisible in it (and may reuse one of its local names).
-/
namespace Lexgen
namespace StaticIff
open Static CompileTotal

/-! ## "fails only with an internal error" -/

def OI {α : Type} (x : Except CompileError α) : Prop := ∀ e, x = .error e → e.isInternal = true

theorem oi_ok {α : Type} (v : α) : OI (Except.ok v : Except CompileError α) := by
  intro e h; cases h

theorem oi_internal {α : Type} (s : String) : OI (Except.error (.internal s) : Except CompileError α) := by
  intro e h; cases h; rfl

theorem oi_bind {α β : Type} {x : Except CompileError α} {f : α → Except CompileError β}
    (hx : OI x) (hf : ∀ v, x = .ok v → OI (f v)) : OI (x >>= f) := by
  cases x with
  | error e =>
    intro e' h'
    have h'' : (Except.error e : Except CompileError β) = Except.error e' := h'
    cases h''
    exact hx e rfl
  | ok v => exact hf v rfl

theorem oi_mapM {α β : Type} (f : α → Except CompileError β) (l : List α) (h : ∀ x ∈ l, OI (f x)) :
    OI (l.mapM f) := by
  induction l with
  | nil => rw [List.mapM_nil]; exact oi_ok _
  | cons a l ih =>
    rw [List.mapM_cons]
    apply oi_bind (h a List.mem_cons_self)
    intro y _
    apply oi_bind (ih (fun x hx => h x (List.mem_cons_of_mem _ hx)))
    intro ys _
    exact oi_ok _

/-- a computation that fails neither with a user error nor with an internal error succeeds -/
theorem ok_of_oi_ni {α : Type} {x : Except CompileError α} (h1 : OI x) (h2 : NI x) : ∃ v, x = .ok v := by
  cases x with
  | ok v => exact ⟨v, rfl⟩
  | error e =>
    have a := h1 e rfl
    have b := h2 e rfl
    rw [a] at b
    cases b

/-! ## Class expressions: the structural predicate is success of `regexToRangeMap` -/

theorem classExpr_iff (re : Regex) : ClassExpr re ↔ ∃ m, regexToRangeMap re = .ok m := by
  induction re with
  | builtin n =>
    simp only [ClassExpr, regexToRangeMap]
    cases builtinRanges n with
    | none => simp
    | some rs => simp
  | var _ | str _ | star _ _ | plus _ _ | opt _ _ | cat _ _ _ _ | eoi =>
    simp only [ClassExpr, regexToRangeMap, false_iff]
    rintro ⟨m, h⟩
    cases h
  | chr _ | set _ | any =>
    simp only [ClassExpr, regexToRangeMap, true_iff]
    exact ⟨_, rfl⟩
  | alt a b iha ihb | diff a b iha ihb =>
    simp only [ClassExpr, regexToRangeMap, iha, ihb]
    constructor
    · rintro ⟨⟨m1, h1⟩, ⟨m2, h2⟩⟩
      rw [h1, h2]
      exact ⟨_, rfl⟩
    · rintro ⟨m, h⟩
      obtain ⟨m1, h1, h⟩ := Thompson.bind_ok h
      obtain ⟨m2, h2, h⟩ := Thompson.bind_ok h
      exact ⟨⟨m1, h1⟩, ⟨m2, h2⟩⟩

/-- the link asked for: `ClassOK` on a `#` node is success of `regexToRangeMap` on that node -/
theorem classOK_diff_iff (a b : Regex) : ClassOK (.diff a b) ↔ ∃ m, regexToRangeMap (.diff a b) = .ok m := by
  rw [← classExpr_iff]
  simp only [ClassOK, ClassExpr]

/-! ## `addRe` / `addRegex`: success forces `ClassOK`; `ClassOK` leaves only internal errors -/

theorem addCharTransition_oi (n : NFA) (s c next : Nat) : OI (n.addCharTransition s c next) := by
  unfold NFA.addCharTransition
  show OI (match List.find? (fun e => decide (e.fst = c)) (n.st s).chars with
    | some (_, tgts) => if tgts.contains next = true then _ else _
    | none => _)
  split
  · split
    · exact oi_internal _
    · exact oi_ok _
  · exact oi_ok _

theorem addEmptyTransition_oi (n : NFA) (s next : Nat) : OI (n.addEmptyTransition s next) := by
  unfold NFA.addEmptyTransition
  split
  · exact oi_internal _
  · exact oi_ok _

theorem addAnyTransition_oi (n : NFA) (s next : Nat) : OI (n.addAnyTransition s next) := by
  unfold NFA.addAnyTransition
  split
  · exact oi_internal _
  · exact oi_ok _

theorem addEoiTransition_oi (n : NFA) (s next : Nat) : OI (n.addEoiTransition s next) := by
  unfold NFA.addEoiTransition
  split
  · exact oi_internal _
  · exact oi_ok _

theorem makeStateAccepting_oi (n : NFA) (s : Nat) (a : Acc) : OI (n.makeStateAccepting s a) := by
  unfold NFA.makeStateAccepting
  split
  · exact oi_internal _
  · exact oi_ok _

theorem addStr_oi (cs : List Nat) : ∀ (cur cont : Nat) (n : NFA), OI (NFA.addStr cs cur cont n) := by
  induction cs with
  | nil => intro cur cont n; exact oi_ok _
  | cons c cs ih =>
    intro cur cont n
    cases cs with
    | nil => exact addCharTransition_oi _ _ _ _
    | cons c' cs =>
      simp only [NFA.addStr]
      exact oi_bind (addCharTransition_oi _ _ _ _) (fun _ _ => ih _ _ _)

theorem addSet_oi (items : List CharOrRange) : ∀ (seen : List Nat) (cur cont : Nat) (n : NFA),
    OI (NFA.addSet items seen cur cont n) := by
  induction items with
  | nil => intro seen cur cont n; exact oi_ok _
  | cons it items ih =>
    intro seen cur cont n
    cases it with
    | chr c =>
      simp only [NFA.addSet]
      split
      · exact ih _ _ _ _
      · exact oi_bind (addCharTransition_oi _ _ _ _) (fun _ _ => ih _ _ _ _)
    | rng s e =>
      simp only [NFA.addSet]
      exact ih _ _ _ _

theorem addRe_oi (re : Regex) : ClassOK re → ∀ (cur cont : Nat) (n : NFA), OI (NFA.addRe re cur cont n) := by
  induction re with
  | builtin name =>
    intro h cur cont n
    simp only [ClassOK] at h
    simp only [NFA.addRe]
    cases hb : builtinRanges name with
    | none => exact absurd hb h
    | some rs => exact oi_ok _
  | var name => intro h; exact absurd h (by simp only [ClassOK, not_false_eq_true])
  | chr c => intro _ cur cont n; exact addCharTransition_oi _ _ _ _
  | str cs => intro _ cur cont n; exact addStr_oi _ _ _ _
  | set items => intro _ cur cont n; exact addSet_oi _ _ _ _ _
  | star r ih =>
    intro h cur cont n
    simp only [ClassOK] at h
    simp only [NFA.addRe]
    refine oi_bind (ih h _ _ _) (fun _ _ => ?_)
    refine oi_bind (addEmptyTransition_oi _ _ _) (fun _ _ => ?_)
    refine oi_bind (addEmptyTransition_oi _ _ _) (fun _ _ => ?_)
    refine oi_bind (addEmptyTransition_oi _ _ _) (fun _ _ => ?_)
    exact addEmptyTransition_oi _ _ _
  | plus r ih =>
    intro h cur cont n
    simp only [ClassOK] at h
    simp only [NFA.addRe]
    refine oi_bind (ih h _ _ _) (fun _ _ => ?_)
    refine oi_bind (addEmptyTransition_oi _ _ _) (fun _ _ => ?_)
    refine oi_bind (addEmptyTransition_oi _ _ _) (fun _ _ => ?_)
    exact addEmptyTransition_oi _ _ _
  | opt r ih =>
    intro h cur cont n
    simp only [ClassOK] at h
    simp only [NFA.addRe]
    refine oi_bind (ih h _ _ _) (fun _ _ => ?_)
    refine oi_bind (addEmptyTransition_oi _ _ _) (fun _ _ => ?_)
    exact addEmptyTransition_oi _ _ _
  | cat a b iha ihb =>
    intro h cur cont n
    simp only [ClassOK] at h
    simp only [NFA.addRe]
    exact oi_bind (iha h.1 _ _ _) (fun _ _ => ihb h.2 _ _ _)
  | alt a b iha ihb =>
    intro h cur cont n
    simp only [ClassOK] at h
    simp only [NFA.addRe]
    refine oi_bind (iha h.1 _ _ _) (fun _ _ => ?_)
    refine oi_bind (ihb h.2 _ _ _) (fun _ _ => ?_)
    refine oi_bind (addEmptyTransition_oi _ _ _) (fun _ _ => ?_)
    exact addEmptyTransition_oi _ _ _
  | any => intro _ cur cont n; exact addAnyTransition_oi _ _ _
  | eoi => intro _ cur cont n; exact addEoiTransition_oi _ _ _
  | diff a b _ _ =>
    intro h cur cont n
    obtain ⟨m, hm⟩ := (classOK_diff_iff a b).mp h
    simp only [NFA.addRe, hm]
    exact oi_ok _

theorem addRe_ok_classOK (re : Regex) : ∀ (cur cont : Nat) (n n' : NFA),
    NFA.addRe re cur cont n = .ok n' → ClassOK re := by
  induction re with
  | builtin name =>
    intro cur cont n n' h
    simp only [NFA.addRe] at h
    simp only [ClassOK]
    intro hb
    rw [hb] at h
    cases h
  | var name => intro cur cont n n' h; simp only [NFA.addRe] at h; cases h
  | chr _ | str _ | set _ | any | eoi => intro _ _ _ _ _; simp only [ClassOK]
  | star r ih | plus r ih | opt r ih =>
    intro cur cont n n' h
    simp only [NFA.addRe] at h
    obtain ⟨n1, h1, _⟩ := Thompson.bind_ok h
    simp only [ClassOK]
    exact ih _ _ _ _ h1
  | cat a b iha ihb =>
    intro cur cont n n' h
    simp only [NFA.addRe] at h
    obtain ⟨n1, h1, h⟩ := Thompson.bind_ok h
    simp only [ClassOK]
    exact ⟨iha _ _ _ _ h1, ihb _ _ _ _ h⟩
  | alt a b iha ihb =>
    intro cur cont n n' h
    simp only [NFA.addRe] at h
    obtain ⟨n1, h1, h⟩ := Thompson.bind_ok h
    obtain ⟨n2, h2, h⟩ := Thompson.bind_ok h
    simp only [ClassOK]
    exact ⟨iha _ _ _ _ h1, ihb _ _ _ _ h2⟩
  | diff a b _ _ =>
    intro cur cont n n' h
    simp only [NFA.addRe] at h
    obtain ⟨m, hm, _⟩ := Thompson.bind_ok h
    exact (classOK_diff_iff a b).mpr ⟨m, hm⟩

theorem addRegex_oi (n : NFA) (re : Regex) (ctx : Option Nat) (value : Nat) (h : ClassOK re) :
    OI (n.addRegex re ctx value) := by
  simp only [NFA.addRegex]
  refine oi_bind (makeStateAccepting_oi _ _ _) (fun _ _ => ?_)
  refine oi_bind (addEmptyTransition_oi _ _ _) (fun _ _ => ?_)
  exact addRe_oi re h _ _ _

theorem addRegex_ok_classOK (n n' : NFA) (re : Regex) (ctx : Option Nat) (value : Nat)
    (h : n.addRegex re ctx value = .ok n') : ClassOK re := by
  simp only [NFA.addRegex] at h
  obtain ⟨n1, _, h⟩ := Thompson.bind_ok h
  obtain ⟨n2, _, h⟩ := Thompson.bind_ok h
  exact addRe_ok_classOK re _ _ _ _ h

/-! ## Two generic lemmas on a monadic fold whose state is tied to the prefix read so far -/

section Fold
variable {σ α : Type} (f : σ → α → Except CompileError σ) (R : List α → σ → Prop) (Q : List α → α → Prop)

/-- if the fold succeeds, the step condition `Q` holds at every position -/
theorem fold_ok_split
    (hstep : ∀ p g x g', R p g → f g x = .ok g' → Q p x ∧ R (p ++ [x]) g') :
    ∀ (post p : List α) (g g' : σ), R p g → post.foldlM f g = .ok g' →
      (∀ pre x post', post = pre ++ x :: post' → Q (p ++ pre) x) ∧ R (p ++ post) g' := by
  intro post
  induction post with
  | nil =>
    intro p g g' hR h
    rw [List.foldlM_nil] at h
    cases h
    refine ⟨fun pre x post' e => ?_, by rw [List.append_nil]; exact hR⟩
    cases pre <;> cases e
  | cons a l ih =>
    intro p g g' hR h
    rw [List.foldlM_cons] at h
    obtain ⟨g1, h1, h⟩ := Thompson.bind_ok h
    obtain ⟨hQ, hR1⟩ := hstep p g a g1 hR h1
    obtain ⟨ih1, ih2⟩ := ih (p ++ [a]) g1 g' hR1 h
    constructor
    · intro pre x post' e
      cases pre with
      | nil =>
        rw [List.nil_append] at e
        cases e
        rw [List.append_nil]; exact hQ
      | cons a' pre =>
        rw [List.cons_append] at e
        cases e
        have := ih1 pre x post' rfl
        rw [List.append_assoc] at this
        exact this
    · rw [List.append_assoc] at ih2
      exact ih2

/-- if the step condition `Q` holds at every position, the fold fails only with an internal error -/
theorem fold_oi_split
    (hstep : ∀ p g x, R p g → Q p x → OI (f g x) ∧ ∀ g', f g x = .ok g' → R (p ++ [x]) g') :
    ∀ (post p : List α) (g : σ), R p g →
      (∀ pre x post', post = pre ++ x :: post' → Q (p ++ pre) x) → OI (post.foldlM f g) := by
  intro post
  induction post with
  | nil =>
    intro p g _ _
    rw [List.foldlM_nil]
    exact oi_ok _
  | cons a l ih =>
    intro p g hR hQ
    rw [List.foldlM_cons]
    have hQa : Q p a := by
      have := hQ [] a l rfl
      rw [List.append_nil] at this
      exact this
    obtain ⟨h1, h2⟩ := hstep p g a hR hQa
    apply oi_bind h1
    intro g1 hg1
    apply ih (p ++ [a]) g1 (h2 g1 hg1)
    intro pre x post' e
    have := hQ (a :: pre) x post' (by rw [e]; rfl)
    rw [List.append_assoc]
    exact this

end Fold

/-! ## Lookups are membership in the list of names -/

theorem find?_isSome_iff (b : Bindings) (n : String) :
    (Bindings.find? b n).isSome = true ↔ n ∈ boundNames b := by
  induction b with
  | nil => simp [Bindings.find?, boundNames]
  | cons p b ih =>
    obtain ⟨k, v⟩ := p
    simp only [Bindings.find?, boundNames, List.map_cons, List.mem_cons] at ih ⊢
    by_cases hk : k = n
    · simp [hk]
    · simp only [hk, if_false]
      rw [ih]
      constructor
      · exact Or.inr
      · rintro (h | h)
        · exact absurd h.symm hk
        · exact h

theorem entries_isSome_iff (l : List (String × Nat)) (n : String) :
    (l.find? (·.1 = n)).isSome = true ↔ n ∈ l.map (·.1) := by
  rw [List.find?_isSome]
  simp only [decide_eq_true_eq, List.mem_map]

/-! ## One rule -/

theorem compileSingleRule_eq (nfa : NFA) (r : SingleRule) (b : Bindings) (ctxs : List (DFA Nat)) :
    compileSingleRule nfa r b ctxs =
      match r.ctx with
      | none => inlineVars b (b.length + 1) r.re >>= fun re =>
          nfa.addRegex re none r.rhs >>= fun n => pure (n, ctxs)
      | some c => newRightCtx ctxs b c >>= fun x => inlineVars b (b.length + 1) r.re >>= fun re =>
          nfa.addRegex re (some x.2) r.rhs >>= fun n => pure (n, x.1) := by
  unfold compileSingleRule
  cases r.ctx <;> rfl

theorem newRightCtx_ok_elab (ctxs : List (DFA Nat)) (b : Bindings) (c : Regex) (x : List (DFA Nat) × Nat)
    (h : newRightCtx ctxs b c = .ok x) : Elaborates b c := by
  unfold newRightCtx at h
  obtain ⟨re, hre, h⟩ := Thompson.bind_ok h
  obtain ⟨nfa, hnfa, _⟩ := Thompson.bind_ok h
  exact ⟨re, hre, addRegex_ok_classOK _ _ _ _ _ hnfa⟩

theorem newRightCtx_oi (ctxs : List (DFA Nat)) (b : Bindings) (c : Regex) (h : Elaborates b c) :
    OI (newRightCtx ctxs b c) := by
  obtain ⟨re, hre, hok⟩ := h
  unfold newRightCtx
  rw [hre]
  apply oi_bind (oi_ok _)
  intro v hv
  cases hv
  apply oi_bind (addRegex_oi _ _ _ _ hok)
  intro nfa _
  cases nfaToDfa nfa with
  | none => exact oi_internal _
  | some d => exact oi_ok _

theorem compileSingleRule_ok_elab (nfa : NFA) (r : SingleRule) (b : Bindings) (ctxs : List (DFA Nat))
    (p : NFA × List (DFA Nat)) (h : compileSingleRule nfa r b ctxs = .ok p) : RuleElaborates b r := by
  rw [compileSingleRule_eq] at h
  cases hc : r.ctx with
  | none =>
    rw [hc] at h
    obtain ⟨re, hre, h⟩ := Thompson.bind_ok h
    obtain ⟨n, hn, _⟩ := Thompson.bind_ok h
    exact ⟨⟨re, hre, addRegex_ok_classOK _ _ _ _ _ hn⟩, fun c hc' => by rw [hc] at hc'; cases hc'⟩
  | some c =>
    rw [hc] at h
    obtain ⟨x, hx, h⟩ := Thompson.bind_ok h
    obtain ⟨re, hre, h⟩ := Thompson.bind_ok h
    obtain ⟨n, hn, _⟩ := Thompson.bind_ok h
    refine ⟨⟨re, hre, addRegex_ok_classOK _ _ _ _ _ hn⟩, fun c' hc' => ?_⟩
    rw [hc] at hc'
    cases hc'
    exact newRightCtx_ok_elab _ _ _ _ hx

theorem compileSingleRule_oi (nfa : NFA) (r : SingleRule) (b : Bindings) (ctxs : List (DFA Nat))
    (h : RuleElaborates b r) : OI (compileSingleRule nfa r b ctxs) := by
  obtain ⟨⟨re, hre, hok⟩, hctx⟩ := h
  rw [compileSingleRule_eq]
  cases hc : r.ctx with
  | none =>
    show OI (inlineVars b (b.length + 1) r.re >>= _)
    rw [hre]
    apply oi_bind (oi_ok _)
    intro v hv
    cases hv
    exact oi_bind (addRegex_oi _ _ _ _ hok) (fun _ _ => oi_ok _)
  | some c =>
    show OI (newRightCtx ctxs b c >>= _)
    apply oi_bind (newRightCtx_oi _ _ _ (hctx c hc))
    intro x _
    show OI (inlineVars b (b.length + 1) r.re >>= _)
    rw [hre]
    apply oi_bind (oi_ok _)
    intro v hv
    cases hv
    exact oi_bind (addRegex_oi _ _ _ _ hok) (fun _ _ => oi_ok _)

/-! ## One rule set -/

/-- the condition on one item of a rule set, `p` being the items before it -/
def QRS (outer : Bindings) (p : List RuleOrBinding) (x : RuleOrBinding) : Prop :=
  match x with
  | .rule r => RuleElaborates (outer ++ localBindings p) r
  | .binding n _ => n ∉ boundNames (outer ++ localBindings p)

theorem ruleSetOK_iff (outer : Bindings) (rs : List RuleOrBinding) :
    RuleSetOK outer rs ↔ ∀ rpre x rpost, rs = rpre ++ x :: rpost → QRS outer rpre x := by
  constructor
  · intro h rpre x rpost e
    cases x with
    | rule r => exact h.ruleElab rpre r rpost e
    | binding n re => exact h.letFresh rpre n re rpost e
  · intro h
    exact ⟨fun rpre x re rpost e => h rpre _ rpost e, fun rpre r rpost e => h rpre _ rpost e⟩

theorem localBindings_snoc_rule (p : List RuleOrBinding) (r : SingleRule) :
    localBindings (p ++ [.rule r]) = localBindings p := by
  simp [localBindings, List.filterMap_append]

theorem localBindings_snoc_binding (p : List RuleOrBinding) (n : String) (re : Regex) :
    localBindings (p ++ [.binding n re]) = localBindings p ++ [(n, re)] := by
  simp [localBindings, List.filterMap_append]

/-- the invariant of the fold of `compileRuleSet`: the scope is `outer` plus the local `let`s read so far -/
def RRS (outer : Bindings) (p : List RuleOrBinding) (acc : NFA × Bindings × List (DFA Nat)) : Prop :=
  acc.2.1 = outer ++ localBindings p

theorem rsStep_ok (outer : Bindings) (p : List RuleOrBinding) (acc : NFA × Bindings × List (DFA Nat))
    (x : RuleOrBinding) (acc' : NFA × Bindings × List (DFA Nat)) (hR : RRS outer p acc)
    (h : rsStep acc x = .ok acc') : QRS outer p x ∧ RRS outer (p ++ [x]) acc' := by
  unfold RRS at hR ⊢
  cases x with
  | rule r =>
    rw [rsStep_rule] at h
    obtain ⟨q, hq, h⟩ := Thompson.bind_ok h
    cases h
    refine ⟨?_, ?_⟩
    · show RuleElaborates (outer ++ localBindings p) r
      rw [← hR]
      exact compileSingleRule_ok_elab _ _ _ _ _ hq
    · rw [localBindings_snoc_rule]; exact hR
  | binding n re =>
    rw [rsStep_binding] at h
    by_cases hb : (acc.2.1.find? n).isSome = true
    · rw [if_pos hb] at h; cases h
    · rw [if_neg hb] at h
      cases h
      refine ⟨?_, ?_⟩
      · show n ∉ boundNames (outer ++ localBindings p)
        rw [← hR, ← find?_isSome_iff]
        exact hb
      · rw [localBindings_snoc_binding, ← List.append_assoc, ← hR]

theorem rsStep_oi (outer : Bindings) (p : List RuleOrBinding) (acc : NFA × Bindings × List (DFA Nat))
    (x : RuleOrBinding) (hR : RRS outer p acc) (hQ : QRS outer p x) :
    OI (rsStep acc x) ∧ ∀ acc', rsStep acc x = .ok acc' → RRS outer (p ++ [x]) acc' :=
  ⟨by
    unfold RRS at hR
    cases x with
    | rule r =>
      rw [rsStep_rule]
      have hQ' : RuleElaborates (outer ++ localBindings p) r := hQ
      rw [← hR] at hQ'
      exact oi_bind (compileSingleRule_oi _ _ _ _ hQ') (fun _ _ => oi_ok _)
    | binding n re =>
      rw [rsStep_binding]
      have hQ' : n ∉ boundNames (outer ++ localBindings p) := hQ
      rw [← hR, ← find?_isSome_iff] at hQ'
      rw [if_neg hQ']
      exact oi_ok _,
   fun acc' h => (rsStep_ok outer p acc x acc' hR h).2⟩

theorem compileRuleSet_ok_static (rules : List RuleOrBinding) (b : Bindings) (ctxs : List (DFA Nat))
    (q : DFA Nat × List (DFA Nat)) (h : compileRuleSet rules b ctxs = .ok q) : RuleSetOK b rules := by
  rw [compileRuleSet_eq] at h
  obtain ⟨acc, hacc, _⟩ := Thompson.bind_ok h
  rw [ruleSetOK_iff]
  have := (fold_ok_split rsStep (RRS b) (QRS b) (rsStep_ok b) rules [] (NFA.new, b, ctxs) acc
    (by simp [RRS, localBindings]) hacc).1
  intro rpre x rpost e
  have := this rpre x rpost e
  rw [List.nil_append] at this
  exact this

theorem compileRuleSet_oi (rules : List RuleOrBinding) (b : Bindings) (ctxs : List (DFA Nat))
    (h : RuleSetOK b rules) : OI (compileRuleSet rules b ctxs) := by
  rw [compileRuleSet_eq]
  rw [ruleSetOK_iff] at h
  apply oi_bind
  · apply fold_oi_split rsStep (RRS b) (QRS b) (rsStep_oi b) rules [] (NFA.new, b, ctxs)
      (by simp [RRS, localBindings])
    intro rpre x rpost e
    rw [List.nil_append]
    exact h rpre x rpost e
  · intro acc _
    cases nfaToDfa acc.1 with
    | none => exact oi_internal _
    | some d => exact oi_ok _

/-! ## The fold of `compileLexer` -/

/-- the condition on one top-level item, `p` being the items before it -/
def QTop (p : List TopItem) (x : TopItem) : Prop :=
  match x with
  | .errorType => errorTypeDecls p = 0
  | .rb (.binding n _) => n ∉ boundNames (topBindings p)
  | .rb (.rule r) => RuleElaborates (topBindings p) r
  | .ruleSet n rs =>
    (ruleSetNames p = [] → n = "Init") ∧ n ∉ ruleSetNames p ∧ RuleSetOK (topBindings p) rs

/-- the invariant of the fold of `compileLexer` -/
structure RTop (p : List TopItem) (g : GlueState) : Prop where
  bindings : g.bindings = topBindings p
  errorType : g.errorType = true ↔ errorTypeDecls p ≠ 0
  entries : g.entries.map (·.1) = ruleSetNames p
  initDfa : g.initDfa = none ↔ ruleSetNames p = []

theorem rTop_init : RTop [] {} :=
  ⟨rfl, by simp [errorTypeDecls], rfl, by simp [ruleSetNames]⟩

theorem topBindings_snoc (p : List TopItem) (x : TopItem) :
    topBindings (p ++ [x]) = topBindings p ++
      (match x with | .rb (.binding n re) => [(n, re)] | _ => []) := by
  unfold topBindings
  rw [List.filterMap_append]
  cases x with
  | errorType => rfl
  | ruleSet n rs => rfl
  | rb y => cases y <;> rfl

theorem ruleSetNames_snoc (p : List TopItem) (x : TopItem) :
    ruleSetNames (p ++ [x]) = ruleSetNames p ++ (match x with | .ruleSet n _ => [n] | _ => []) := by
  unfold ruleSetNames
  rw [List.filterMap_append]
  cases x with
  | errorType => rfl
  | ruleSet n rs => rfl
  | rb y => rfl

theorem errorTypeDecls_snoc (p : List TopItem) (x : TopItem) :
    errorTypeDecls (p ++ [x]) = errorTypeDecls p + (match x with | .errorType => 1 | _ => 0) := by
  unfold errorTypeDecls
  rw [List.countP_append]
  cases x with
  | errorType => rfl
  | ruleSet n rs => rfl
  | rb y => rfl

theorem lexRS_ok_init (g : GlueState) (name : String) (rules : List RuleOrBinding) (p : GlueState × Nat)
    (h : lexRS g name rules = .ok p) : p.1.initDfa ≠ none := by
  unfold lexRS at h
  by_cases hn : name = "Init"
  · rw [if_pos hn] at h
    obtain ⟨q, _, h⟩ := Thompson.bind_ok h
    cases h
    intro h; cases h
  · rw [if_neg hn] at h
    cases hd : g.initDfa with
    | none => rw [hd] at h; cases h
    | some d0 =>
      rw [hd] at h
      obtain ⟨q, _, h⟩ := Thompson.bind_ok h
      cases h
      intro h; cases h

theorem lexStep_ok (p : List TopItem) (g : GlueState) (x : TopItem) (g' : GlueState) (hR : RTop p g)
    (h : lexStep g x = .ok g') : QTop p x ∧ RTop (p ++ [x]) g' := by
  cases x with
  | errorType =>
    rw [lexStep_errorType] at h
    by_cases he : g.errorType = true
    · rw [if_pos he] at h; cases h
    · rw [if_neg he] at h
      cases h
      have h0 : errorTypeDecls p = 0 := by
        have := hR.errorType
        exact Classical.byContradiction fun hc => he (this.mpr hc)
      refine ⟨h0, ⟨?_, ?_, ?_, ?_⟩⟩
      · rw [topBindings_snoc, List.append_nil]; exact hR.bindings
      · rw [errorTypeDecls_snoc]; simp
      · rw [ruleSetNames_snoc, List.append_nil]; exact hR.entries
      · rw [ruleSetNames_snoc, List.append_nil]; exact hR.initDfa
  | rb y =>
    cases y with
    | binding n re =>
      rw [lexStep_binding] at h
      by_cases hb : (g.bindings.find? n).isSome = true
      · rw [if_pos hb] at h; cases h
      · rw [if_neg hb] at h
        cases h
        refine ⟨?_, ⟨?_, ?_, ?_, ?_⟩⟩
        · show n ∉ boundNames (topBindings p)
          rw [← hR.bindings, ← find?_isSome_iff]
          exact hb
        · rw [topBindings_snoc]
          show g.bindings ++ [(n, re)] = _
          rw [hR.bindings]
        · rw [errorTypeDecls_snoc, Nat.add_zero]; exact hR.errorType
        · rw [ruleSetNames_snoc, List.append_nil]; exact hR.entries
        · rw [ruleSetNames_snoc, List.append_nil]; exact hR.initDfa
    | rule r =>
      rw [lexStep_rule] at h
      obtain ⟨q, hq, h⟩ := Thompson.bind_ok h
      cases h
      refine ⟨?_, ⟨?_, ?_, ?_, ?_⟩⟩
      · show RuleElaborates (topBindings p) r
        rw [← hR.bindings]
        exact compileSingleRule_ok_elab _ _ _ _ _ hq
      · rw [topBindings_snoc, List.append_nil]; exact hR.bindings
      · rw [errorTypeDecls_snoc, Nat.add_zero]; exact hR.errorType
      · rw [ruleSetNames_snoc, List.append_nil]; exact hR.entries
      · rw [ruleSetNames_snoc, List.append_nil]; exact hR.initDfa
  | ruleSet name rules =>
    obtain ⟨q, hq, hdup, rfl⟩ := lexStep_ruleSet_ok g g' name rules h
    obtain ⟨h1, h2, h3, h4, c, hc⟩ := lexRS_ok g name rules q hq
    have h5 := lexRS_ok_init g name rules q hq
    refine ⟨⟨?_, ?_, ?_⟩, ⟨?_, ?_, ?_, ?_⟩⟩
    · intro hnil
      rcases h4 with h4 | h4
      · exact h4
      · exact absurd (hR.initDfa.mpr hnil) h4
    · rw [← hR.entries, ← h1, ← entries_isSome_iff, hdup]
      exact Bool.false_ne_true
    · rw [← hR.bindings]
      exact compileRuleSet_ok_static _ _ _ _ hc
    · rw [topBindings_snoc, List.append_nil]
      show q.1.bindings = _
      rw [h2]; exact hR.bindings
    · rw [errorTypeDecls_snoc, Nat.add_zero]
      show q.1.errorType = true ↔ _
      rw [h3]; exact hR.errorType
    · rw [ruleSetNames_snoc]
      show (q.1.entries ++ [(name, q.2)]).map (·.1) = _
      rw [List.map_append, h1, hR.entries]
      rfl
    · rw [ruleSetNames_snoc]
      show q.1.initDfa = none ↔ _
      constructor
      · intro h; exact absurd h h5
      · intro h; simp at h

theorem lexRS_oi (p : List TopItem) (g : GlueState) (name : String) (rules : List RuleOrBinding)
    (hR : RTop p g) (hinit : ruleSetNames p = [] → name = "Init") (hrs : RuleSetOK (topBindings p) rules) :
    OI (lexRS g name rules) := by
  rw [← hR.bindings] at hrs
  unfold lexRS
  by_cases hn : name = "Init"
  · rw [if_pos hn]
    exact oi_bind (compileRuleSet_oi _ _ _ hrs) (fun _ _ => oi_ok _)
  · rw [if_neg hn]
    cases hd : g.initDfa with
    | none => exact absurd (hinit (hR.initDfa.mp hd)) hn
    | some d0 => exact oi_bind (compileRuleSet_oi _ _ _ hrs) (fun _ _ => oi_ok _)

theorem lexStep_oi (p : List TopItem) (g : GlueState) (x : TopItem) (hR : RTop p g) (hQ : QTop p x) :
    OI (lexStep g x) ∧ ∀ g', lexStep g x = .ok g' → RTop (p ++ [x]) g' :=
  ⟨by
    cases x with
    | errorType =>
      have hQ' : errorTypeDecls p = 0 := hQ
      rw [lexStep_errorType]
      have he : ¬ g.errorType = true := fun he => hR.errorType.mp he hQ'
      rw [if_neg he]
      exact oi_ok _
    | rb y =>
      cases y with
      | binding n re =>
        have hQ' : n ∉ boundNames (topBindings p) := hQ
        rw [← hR.bindings, ← find?_isSome_iff] at hQ'
        rw [lexStep_binding, if_neg hQ']
        exact oi_ok _
      | rule r =>
        have hQ' : RuleElaborates (topBindings p) r := hQ
        rw [← hR.bindings] at hQ'
        rw [lexStep_rule]
        exact oi_bind (compileSingleRule_oi _ _ _ _ hQ') (fun _ _ => oi_ok _)
    | ruleSet name rules =>
      obtain ⟨hQ1, hQ2, hQ3⟩ : (ruleSetNames p = [] → name = "Init") ∧ name ∉ ruleSetNames p ∧
        RuleSetOK (topBindings p) rules := hQ
      rw [lexStep_ruleSet]
      apply oi_bind (lexRS_oi p g name rules hR hQ1 hQ3)
      intro q hq
      obtain ⟨h1, _⟩ := lexRS_ok g name rules q hq
      have : ¬ (q.1.entries.find? (·.1 = name)).isSome = true := by
        rw [entries_isSome_iff, h1, hR.entries]
        exact hQ2
      rw [if_neg this]
      exact oi_ok _,
   fun g' h => (lexStep_ok p g x g' hR h).2⟩

/-! ## After the fold -/

theorem simplifyState_oi (d : DFA Nat) (empties : List Nat) (s : DState Nat) :
    OI (simplifyState d empties s) := by
  unfold simplifyState
  apply oi_bind
  · apply oi_mapM
    intro p _
    cases mapTransition d empties p with
    | goto p' => exact oi_ok _
    | accept _ => exact oi_internal _
  · intro _ _
    exact oi_ok _

theorem simplify_oi (d : DFA Nat) (entries : List (String × Nat)) : OI (simplify d entries) := by
  unfold simplify
  apply oi_bind
  · apply oi_mapM
    intro i _
    exact simplifyState_oi _ _ _
  · intro _ _
    exact oi_ok _

theorem lexPost_oi (g : GlueState) : OI (lexPost g) := by
  rw [lexPost_eq]
  apply oi_bind
  · cases g.initDfa with
    | some d => exact oi_ok _
    | none =>
      cases nfaToDfa g.unnamed with
      | some d => exact oi_ok _
      | none => exact oi_internal _
  · intro dfa _
    apply oi_bind
    · cases updateBacktracks dfa with
      | some d => exact oi_ok _
      | none => exact oi_internal _
    · intro full _
      exact oi_bind (simplify_oi _ _) (fun _ _ => oi_ok _)

/-! ## `compileLexer` succeeds iff the step condition holds at every position -/

theorem compileLexer_ok_iff_split (items : LexerDef) (hp : ItemsPiecesOK items) :
    (∃ c, compileLexer items = .ok c) ↔
      (mixedRules items = false ∧ ∀ pre x post, items = pre ++ x :: post → QTop pre x) := by
  constructor
  · rintro ⟨c, h⟩
    rw [compileLexer_eq] at h
    by_cases hm : mixedRules items = true
    · rw [if_pos hm] at h; cases h
    · rw [if_neg hm] at h
      obtain ⟨g, hg, _⟩ := Thompson.bind_ok h
      refine ⟨Bool.eq_false_iff.mpr hm, ?_⟩
      have := (fold_ok_split lexStep RTop QTop lexStep_ok items [] {} g rTop_init hg).1
      intro pre x post e
      have := this pre x post e
      rw [List.nil_append] at this
      exact this
  · rintro ⟨hm, hQ⟩
    apply ok_of_oi_ni _ (compileLexer_no_internal items hp)
    rw [compileLexer_eq, if_neg (by rw [hm]; exact Bool.false_ne_true)]
    apply oi_bind
    · apply fold_oi_split lexStep RTop QTop lexStep_oi items [] {} rTop_init
      intro pre x post e
      rw [List.nil_append]
      exact hQ pre x post e
    · intro g _
      exact lexPost_oi g

/-! ## The declarative clauses of `StaticOK` in terms of positions -/

section Lists
variable {α β : Type} (fm : α → Option β)

theorem filterMap_split (pre : List α) (x : α) (post : List α) (y : β) (hx : fm x = some y) :
    (pre ++ x :: post).filterMap fm = pre.filterMap fm ++ y :: post.filterMap fm := by
  rw [List.filterMap_append, List.filterMap_cons, hx]

theorem mem_filterMap_split (l : List α) (y : β) (h : y ∈ l.filterMap fm) :
    ∃ pre x post, l = pre ++ x :: post ∧ fm x = some y := by
  obtain ⟨x, hx, hy⟩ := List.mem_filterMap.mp h
  obtain ⟨pre, post, e⟩ := List.append_of_mem hx
  exact ⟨pre, x, post, e, hy⟩

/-- pairwise distinct = nothing repeats something before it -/
theorem nodup_filterMap_iff (l : List α) :
    (l.filterMap fm).Nodup ↔
      ∀ pre x post y, l = pre ++ x :: post → fm x = some y → y ∉ pre.filterMap fm := by
  constructor
  · intro h pre x post y e hx hmem
    subst e
    rw [filterMap_split fm pre x post y hx, List.nodup_append] at h
    exact h.2.2 y hmem y List.mem_cons_self rfl
  · induction l with
    | nil => intro _; exact List.nodup_nil
    | cons a l ih =>
      intro h
      have ih' := ih (fun pre x post y e hx hmem => by
        apply h (a :: pre) x post y (by rw [e]; rfl) hx
        rw [List.filterMap_cons]
        cases fm a with
        | none => exact hmem
        | some z => exact List.mem_cons_of_mem _ hmem)
      rw [List.filterMap_cons]
      cases ha : fm a with
      | none => exact ih'
      | some z =>
        show (z :: l.filterMap fm).Nodup
        rw [List.nodup_cons]
        refine ⟨fun hz => ?_, ih'⟩
        obtain ⟨pre, x, post, e, hx⟩ := mem_filterMap_split fm l z hz
        apply h (a :: pre) x post z (by rw [e]; rfl) hx
        rw [List.filterMap_cons, ha]
        exact List.mem_cons_self

/-- the first element of a `filterMap` comes from an item with nothing selected before it -/
theorem head?_filterMap_split (l : List α) (y : β) (h : (l.filterMap fm).head? = some y) :
    ∃ pre x post, l = pre ++ x :: post ∧ fm x = some y ∧ pre.filterMap fm = [] := by
  induction l with
  | nil => cases h
  | cons a l ih =>
    rw [List.filterMap_cons] at h
    cases ha : fm a with
    | none =>
      rw [ha] at h
      obtain ⟨pre, x, post, e, hx, hpre⟩ := ih h
      refine ⟨a :: pre, x, post, by rw [e]; rfl, hx, ?_⟩
      rw [List.filterMap_cons, ha]
      exact hpre
    | some z =>
      rw [ha] at h
      have hz : z = y := by
        have h' : some z = some y := h
        cases h'; rfl
      subst hz
      exact ⟨[], a, l, rfl, ha, rfl⟩

end Lists

theorem boundNames_topBindings (p : List TopItem) :
    boundNames (topBindings p) = p.filterMap (fun | .rb (.binding n _) => some n | _ => none) := by
  unfold boundNames topBindings
  rw [List.map_filterMap]
  congr 1
  funext x
  cases x with
  | errorType => rfl
  | ruleSet n rs => rfl
  | rb y => cases y <;> rfl

theorem errorTypeDecls_split (pre post : List TopItem) :
    errorTypeDecls (pre ++ .errorType :: post) = errorTypeDecls pre + 1 + errorTypeDecls post := by
  unfold errorTypeDecls
  rw [List.countP_append, List.countP_cons]
  simp only [if_true]
  omega

theorem errorTypeDecls_pos_split (l : List TopItem) (h : errorTypeDecls l ≠ 0) :
    ∃ pre post, l = pre ++ .errorType :: post := by
  unfold errorTypeDecls at h
  have h' : 0 < List.countP (fun x => match x with | .errorType => true | _ => false) l := Nat.pos_of_ne_zero h
  rw [List.countP_pos_iff] at h'
  obtain ⟨a, ha, hp⟩ := h'
  obtain ⟨pre, post, e⟩ := List.append_of_mem ha
  cases a with
  | errorType => exact ⟨pre, post, e⟩
  | rb y => cases hp
  | ruleSet n rs => cases hp

theorem errorTypeOnce_iff (l : List TopItem) :
    errorTypeDecls l ≤ 1 ↔ ∀ pre post, l = pre ++ .errorType :: post → errorTypeDecls pre = 0 := by
  constructor
  · intro h pre post e
    subst e
    rw [errorTypeDecls_split] at h
    omega
  · intro h
    apply Classical.byContradiction
    intro hgt
    -- two declarations: split at the last one... we split at the first, then find another one after it
    have hne : errorTypeDecls l ≠ 0 := by omega
    obtain ⟨pre, post, e⟩ := errorTypeDecls_pos_split l hne
    have h0 := h pre post e
    have hpost : errorTypeDecls post ≠ 0 := by
      rw [e, errorTypeDecls_split] at hgt
      omega
    obtain ⟨pre2, post2, e2⟩ := errorTypeDecls_pos_split post hpost
    have := h (pre ++ .errorType :: pre2) post2 (by rw [e, e2]; simp)
    rw [errorTypeDecls_split] at this
    omega

theorem ruleSetNames_split (pre : List TopItem) (n : String) (rs : List RuleOrBinding) (post : List TopItem) :
    ruleSetNames (pre ++ .ruleSet n rs :: post) = ruleSetNames pre ++ n :: ruleSetNames post := by
  unfold ruleSetNames
  exact filterMap_split _ pre _ post n rfl

theorem firstIsInit_iff (l : List TopItem) :
    (∀ n, (ruleSetNames l).head? = some n → n = "Init") ↔
      ∀ pre n rs post, l = pre ++ .ruleSet n rs :: post → ruleSetNames pre = [] → n = "Init" := by
  constructor
  · intro h pre n rs post e hpre
    apply h
    rw [e, ruleSetNames_split, hpre]
    rfl
  · intro h n hn
    unfold ruleSetNames at hn
    obtain ⟨pre, x, post, e, hx, hpre⟩ := head?_filterMap_split _ l n hn
    cases x with
    | errorType => cases hx
    | rb y => cases hx
    | ruleSet m rs =>
      cases hx
      exact h pre n rs post e hpre

theorem ruleSetsDistinct_iff (l : List TopItem) :
    (ruleSetNames l).Nodup ↔
      ∀ pre n rs post, l = pre ++ .ruleSet n rs :: post → n ∉ ruleSetNames pre := by
  unfold ruleSetNames
  rw [nodup_filterMap_iff]
  constructor
  · intro h pre n rs post e
    exact h pre _ post n e rfl
  · intro h pre x post y e hx
    cases x with
    | errorType => cases hx
    | rb y => cases hx
    | ruleSet m rs =>
      cases hx
      exact h pre y rs post e

theorem topLetsDistinct_iff (l : List TopItem) :
    (boundNames (topBindings l)).Nodup ↔
      ∀ pre n re post, l = pre ++ .rb (.binding n re) :: post → n ∉ boundNames (topBindings pre) := by
  rw [boundNames_topBindings, nodup_filterMap_iff]
  constructor
  · intro h pre n re post e
    rw [boundNames_topBindings]
    exact h pre _ post n e rfl
  · intro h pre x post y e hx
    cases x with
    | errorType => cases hx
    | ruleSet m rs => cases hx
    | rb z =>
      cases z with
      | rule r => cases hx
      | binding n re =>
        cases hx
        have := h pre y re post e
        rw [boundNames_topBindings] at this
        exact this

theorem staticOK_iff_split (items : LexerDef) :
    StaticOK items ↔
      (mixedRules items = false ∧ ∀ pre x post, items = pre ++ x :: post → QTop pre x) := by
  constructor
  · intro h
    refine ⟨h.notMixed, ?_⟩
    intro pre x post e
    cases x with
    | errorType => exact (errorTypeOnce_iff items).mp h.errorTypeOnce pre post e
    | rb y =>
      cases y with
      | binding n re => exact (topLetsDistinct_iff items).mp h.topLetsDistinct pre n re post e
      | rule r => exact h.topRules pre r post e
    | ruleSet n rs =>
      exact ⟨(firstIsInit_iff items).mp h.firstIsInit pre n rs post e,
        (ruleSetsDistinct_iff items).mp h.ruleSetsDistinct pre n rs post e,
        h.ruleSets pre n rs post e⟩
  · rintro ⟨hm, hQ⟩
    refine ⟨hm, ?_, ?_, ?_, ?_, ?_, ?_⟩
    · exact (errorTypeOnce_iff items).mpr (fun pre post e => hQ pre _ post e)
    · exact (ruleSetsDistinct_iff items).mpr (fun pre n rs post e => (hQ pre _ post e).2.1)
    · exact (firstIsInit_iff items).mpr (fun pre n rs post e => (hQ pre _ post e).1)
    · exact (topLetsDistinct_iff items).mpr (fun pre n re post e => hQ pre _ post e)
    · exact fun pre n rs post e => (hQ pre _ post e).2.2
    · exact fun pre r post e => hQ pre _ post e

end StaticIff

open StaticIff in
/-- **Exactly the `StaticOK` definitions are accepted**: for a definition whose bracket ranges are not
inverted, the model of the macro succeeds iff the definition satisfies the declarative conditions of
`Spec/StaticOK.lean`. -/
theorem compileLexer_ok_iff (items : LexerDef) (hp : ItemsPiecesOK items) :
    (∃ c, compileLexer items = .ok c) ↔ StaticOK items := by
  rw [compileLexer_ok_iff_split items hp, staticOK_iff_split]

namespace StaticIff

/-! ## Scan form: the conditions as a conjunction along the list (convenient on a concrete definition) -/

/-- `P p x` at every position of `l`, the prefix starting at `p` -/
def AllSplits {α : Type} (P : List α → α → Prop) (p : List α) : List α → Prop
  | [] => True
  | x :: l => P p x ∧ AllSplits P (p ++ [x]) l

theorem allSplits_iff {α : Type} (P : List α → α → Prop) : ∀ (l p : List α),
    AllSplits P p l ↔ ∀ pre x post, l = pre ++ x :: post → P (p ++ pre) x := by
  intro l
  induction l with
  | nil =>
    intro p
    simp only [AllSplits, true_iff]
    intro pre x post e
    cases pre <;> cases e
  | cons a l ih =>
    intro p
    simp only [AllSplits, ih]
    constructor
    · rintro ⟨h1, h2⟩ pre x post e
      cases pre with
      | nil => cases e; rw [List.append_nil]; exact h1
      | cons a' pre =>
        cases e
        have := h2 pre x post rfl
        rw [List.append_assoc] at this
        exact this
    · intro h
      refine ⟨by have := h [] a l rfl; rw [List.append_nil] at this; exact this, ?_⟩
      intro pre x post e
      have := h (a :: pre) x post (by rw [e]; rfl)
      rw [List.append_assoc]
      exact this

theorem ruleSetOK_iff_scan (outer : Bindings) (rs : List RuleOrBinding) :
    RuleSetOK outer rs ↔ AllSplits (QRS outer) [] rs := by
  rw [ruleSetOK_iff, allSplits_iff]
  simp only [List.nil_append]

theorem staticOK_iff_scan (items : LexerDef) :
    StaticOK items ↔ (mixedRules items = false ∧ AllSplits QTop [] items) := by
  rw [staticOK_iff_split, allSplits_iff]
  simp only [List.nil_append]

def exGood : LexerDef :=
  [ .rb (.binding "digit" (.set [.rng 48 57])),
    .rb (.binding "id_start" (.alt (.builtin "ascii_alphabetic") (.chr 95))),
    .errorType,
    .ruleSet "Init"
      [ .binding "ws" (.set [.chr 32, .chr 9, .chr 10]),
        .rule ⟨.plus (.var "ws"), none, 0⟩,
        .rule ⟨.cat (.var "id_start") (.star (.alt (.var "id_start") (.var "digit"))), none, 1⟩,
        .rule ⟨.diff .any (.var "digit"), some (.var "digit"), 2⟩,
        .rule ⟨.str [47, 42], none, 3⟩ ],
    .ruleSet "Comment"
      [ .rule ⟨.str [42, 47], none, 4⟩,
        .rule ⟨.any, none, 5⟩ ],
    .rb (.binding "ws" (.chr 120)) ]

example : StaticOK exGood := by
  rw [staticOK_iff_scan]
  refine ⟨by decide, ?_⟩
  simp [exGood, AllSplits, QTop, ruleSetOK_iff_scan, QRS, errorTypeDecls, topBindings, localBindings, boundNames, ruleSetNames,
    RuleElaborates, Elaborates, inlineVars, Bindings.find?, bind, Except.bind, pure, Except.pure, ClassOK, ClassExpr, builtinRanges, Generated.builtins]

/-- ill-formed 1: the first rule set is not `Init` -/
example : ¬ StaticOK [.ruleSet "Main" [.rule ⟨.chr 97, none, 0⟩], .ruleSet "Init" []] := by
  intro h
  have := h.firstIsInit "Main" rfl
  exact absurd this (by decide)

/-- ill-formed 2: a local `let` repeats a top-level `let` declared before the rule set -/
example : ¬ StaticOK [.rb (.binding "x" (.chr 97)), .ruleSet "Init" [.binding "x" (.chr 98)]] := by
  intro h
  have := (h.ruleSets [.rb (.binding "x" (.chr 97))] "Init" _ [] rfl).letFresh [] "x" (.chr 98) [] rfl
  exact this (by simp [boundNames, topBindings, localBindings])

/-- ill-formed 3: a rule uses a top-level `let` that is declared only after the rule set -/
example : ¬ StaticOK [.ruleSet "Init" [.rule ⟨.var "x", none, 0⟩], .rb (.binding "x" (.chr 97))] := by
  intro h
  obtain ⟨⟨re', h1, _⟩, _⟩ := (h.ruleSets [] "Init" _ _ rfl).ruleElab [] ⟨.var "x", none, 0⟩ [] rfl
  simp [topBindings, localBindings, inlineVars, Bindings.find?] at h1

/-- ill-formed 4: a cyclic `let` that is used (`let a = $a; $a,`) -/
example : ¬ StaticOK [.rb (.binding "a" (.var "a")), .rb (.rule ⟨.var "a", none, 0⟩)] := by
  intro h
  obtain ⟨⟨re', h1, _⟩, _⟩ := h.topRules [.rb (.binding "a" (.var "a"))] ⟨.var "a", none, 0⟩ [] rfl
  simp [topBindings, inlineVars, Bindings.find?] at h1

/-- ill-formed 5: an operand of `#` that is not a class expression (`"ab" # 'b'`), and an unknown built-in -/
example : ¬ StaticOK [.rb (.rule ⟨.diff (.str [97, 98]) (.chr 98), none, 0⟩)] := by
  intro h
  obtain ⟨⟨re', h1, h2⟩, _⟩ := h.topRules [] _ [] rfl
  simp [topBindings, inlineVars, bind, Except.bind, pure, Except.pure] at h1
  subst h1
  simp [ClassOK, ClassExpr] at h2

example : ¬ StaticOK [.rb (.rule ⟨.plus (.builtin "digits"), none, 0⟩)] := by
  intro h
  obtain ⟨⟨re', h1, h2⟩, _⟩ := h.topRules [] _ [] rfl
  simp [topBindings, inlineVars, bind, Except.bind, pure, Except.pure] at h1
  subst h1
  simp [ClassOK, builtinRanges, Generated.builtins] at h2

/-- ill-formed 6: two `type Error` declarations; two rule sets with the same name; mixed rules -/
example : ¬ StaticOK [.errorType, .rb (.rule ⟨.chr 97, none, 0⟩), .errorType] := by
  intro h
  exact absurd h.errorTypeOnce (by decide)

example : ¬ StaticOK [.ruleSet "Init" [], .ruleSet "A" [], .ruleSet "A" []] := by
  intro h
  exact absurd h.ruleSetsDistinct (by decide)

example : ¬ StaticOK [.rb (.rule ⟨.chr 97, none, 0⟩), .ruleSet "Init" []] := by
  intro h
  exact absurd h.notMixed (by decide)

/-! corner cases that ARE accepted -/
example : StaticOK [] := by
  rw [staticOK_iff_scan]; exact ⟨rfl, trivial⟩

example : StaticOK [.ruleSet "Init" []] := by
  rw [staticOK_iff_scan]
  refine ⟨by decide, ?_⟩
  simp [AllSplits, QTop, ruleSetOK_iff_scan, ruleSetNames]

example : StaticOK [.rb (.binding "Init" (.chr 97)), .ruleSet "Init" [.rule ⟨.var "Init", none, 0⟩]] := by
  rw [staticOK_iff_scan]
  refine ⟨by decide, ?_⟩
  simp [AllSplits, QTop, ruleSetOK_iff_scan, QRS, topBindings, localBindings, boundNames, ruleSetNames,
    RuleElaborates, Elaborates, inlineVars, Bindings.find?, ClassOK]

example : ∃ c, compileLexer [] = .ok c :=
  (compileLexer_ok_iff [] (fun _ h => by cases h)).mpr (by rw [staticOK_iff_scan]; exact ⟨rfl, trivial⟩)

/-! ## The fuel of `inlineVars` is irrelevant: a fuel-free reading of `Elaborates` -/

def Ok {α : Type} (x : Except CompileError α) : Prop := ∃ v, x = .ok v

theorem not_ok_error {α : Type} (e : CompileError) : ¬ Ok (Except.error e : Except CompileError α) := by
  rintro ⟨v, h⟩; cases h

theorem ok_map {α β : Type} (x : Except CompileError α) (g : α → β) :
    Ok (x >>= fun a => pure (g a)) ↔ Ok x := by
  cases x with
  | error e => exact ⟨fun h => absurd h (not_ok_error e), fun h => absurd h (not_ok_error e)⟩
  | ok v => exact ⟨fun _ => ⟨v, rfl⟩, fun _ => ⟨g v, rfl⟩⟩

theorem ok_map2 {α β : Type} (x y : Except CompileError α) (g : α → α → β) :
    Ok (x >>= fun a => y >>= fun c => pure (g a c)) ↔ Ok x ∧ Ok y := by
  cases x with
  | error e => exact ⟨fun h => absurd h (not_ok_error e), fun h => absurd h.1 (not_ok_error e)⟩
  | ok v =>
    cases y with
    | error e => exact ⟨fun h => absurd h (not_ok_error e), fun h => absurd h.2 (not_ok_error e)⟩
    | ok w => exact ⟨fun _ => ⟨⟨v, rfl⟩, ⟨w, rfl⟩⟩, fun _ => ⟨g v w, rfl⟩⟩

section
variable (b : Bindings)

/-- the structural cases of "more fuel does not hurt" -/
theorem inlineVars_mono_aux (k : Nat)
    (hvar : ∀ n re', inlineVars b k (.var n) = .ok re' → inlineVars b (k + 1) (.var n) = .ok re') :
    ∀ re re', inlineVars b k re = .ok re' → inlineVars b (k + 1) re = .ok re' := by
  intro re
  induction re with
  | var n => exact hvar n
  | star r ih | plus r ih | opt r ih =>
    intro re' h
    simp only [inlineVars] at h ⊢
    obtain ⟨r', h1, h2⟩ := Thompson.bind_ok h
    rw [ih r' h1]
    exact h2
  | cat x y ihx ihy | alt x y ihx ihy | diff x y ihx ihy =>
    intro re' h
    simp only [inlineVars] at h ⊢
    obtain ⟨x', h1, h2⟩ := Thompson.bind_ok h
    obtain ⟨y', h3, h4⟩ := Thompson.bind_ok h2
    rw [ihx x' h1]
    show (inlineVars b (k + 1) y >>= _) = _
    rw [ihy y' h3]
    exact h4
  | builtin _ | chr _ | str _ | set _ | any | eoi =>
    intro re' h
    simp only [inlineVars] at h ⊢
    exact h

theorem inlineVars_mono : ∀ (k : Nat) (re re' : Regex),
    inlineVars b k re = .ok re' → inlineVars b (k + 1) re = .ok re' := by
  intro k
  induction k with
  | zero =>
    apply inlineVars_mono_aux
    intro n re' h
    simp only [inlineVars] at h
    cases h
  | succ k ih =>
    apply inlineVars_mono_aux
    intro n re' h
    simp only [inlineVars] at h ⊢
    cases hf : Bindings.find? b n with
    | none => rw [hf] at h; cases h
    | some r =>
      rw [hf] at h
      exact ih r re' h

theorem inlineVars_mono_le (k k' : Nat) (hk : k ≤ k') (re re' : Regex)
    (h : inlineVars b k re = .ok re') : inlineVars b k' re = .ok re' := by
  induction hk with
  | refl => exact h
  | step _ ih => exact inlineVars_mono b _ _ _ ih

theorem ok_mono_le (k k' : Nat) (hk : k ≤ k') (re : Regex) (h : Ok (inlineVars b k re)) :
    Ok (inlineVars b k' re) := by
  obtain ⟨v, hv⟩ := h
  exact ⟨v, inlineVars_mono_le b k k' hk re v hv⟩

/-! ### substitution succeeds with some fuel iff `Expands` -/

theorem expands_of_inlineVars_aux (k : Nat)
    (hvar : ∀ n re', inlineVars b k (.var n) = .ok re' → Expands b (.var n) re') :
    ∀ re re', inlineVars b k re = .ok re' → Expands b re re' := by
  intro re
  induction re with
  | var n => exact hvar n
  | star r ih | plus r ih | opt r ih =>
    intro re' h
    simp only [inlineVars] at h
    obtain ⟨r', h1, h2⟩ := Thompson.bind_ok h
    cases h2
    first
    | exact Expands.star (ih r' h1)
    | exact Expands.plus (ih r' h1)
    | exact Expands.opt (ih r' h1)
  | cat x y ihx ihy | alt x y ihx ihy | diff x y ihx ihy =>
    intro re' h
    simp only [inlineVars] at h
    obtain ⟨x', h1, h2⟩ := Thompson.bind_ok h
    obtain ⟨y', h3, h4⟩ := Thompson.bind_ok h2
    cases h4
    first
    | exact Expands.cat (ihx x' h1) (ihy y' h3)
    | exact Expands.alt (ihx x' h1) (ihy y' h3)
    | exact Expands.diff (ihx x' h1) (ihy y' h3)
  | builtin _ | chr _ | str _ | set _ | any | eoi =>
    intro re' h
    simp only [inlineVars] at h
    cases h
    constructor

theorem expands_of_inlineVars : ∀ (k : Nat) (re re' : Regex),
    inlineVars b k re = .ok re' → Expands b re re' := by
  intro k
  induction k with
  | zero =>
    apply expands_of_inlineVars_aux
    intro n re' h
    simp only [inlineVars] at h
    cases h
  | succ k ih =>
    apply expands_of_inlineVars_aux
    intro n re' h
    simp only [inlineVars] at h
    cases hf : Bindings.find? b n with
    | none => rw [hf] at h; cases h
    | some r =>
      rw [hf] at h
      exact Expands.var hf (ih r re' h)

theorem inlineVars_of_expands (re re' : Regex) (h : Expands b re re') :
    ∃ k, inlineVars b k re = .ok re' := by
  induction h with
  | builtin _ | chr _ | str _ | set _ | any | eoi => exact ⟨0, by simp only [inlineVars]⟩
  | var hf _ ih =>
    obtain ⟨k, hk⟩ := ih
    refine ⟨k + 1, ?_⟩
    simp only [inlineVars, hf]
    exact hk
  | star _ ih | plus _ ih | opt _ ih =>
    obtain ⟨k, hk⟩ := ih
    refine ⟨k, ?_⟩
    simp only [inlineVars, hk]
    rfl
  | cat _ _ ihx ihy | alt _ _ ihx ihy | diff _ _ ihx ihy =>
    obtain ⟨k1, hk1⟩ := ihx
    obtain ⟨k2, hk2⟩ := ihy
    refine ⟨max k1 k2, ?_⟩
    simp only [inlineVars, inlineVars_mono_le b k1 (max k1 k2) (Nat.le_max_left ..) _ _ hk1,
      inlineVars_mono_le b k2 (max k1 k2) (Nat.le_max_right ..) _ _ hk2]
    rfl

/-! ### nesting depth `k + 1` needs `k + 1` different bound names -/

theorem ok_unary (k : Nat) (r : Regex) :
    (Ok (inlineVars b k (.star r)) ↔ Ok (inlineVars b k r)) ∧
    (Ok (inlineVars b k (.plus r)) ↔ Ok (inlineVars b k r)) ∧
    (Ok (inlineVars b k (.opt r)) ↔ Ok (inlineVars b k r)) := by
  simp only [inlineVars]
  exact ⟨ok_map _ _, ok_map _ _, ok_map _ _⟩

theorem ok_binary (k : Nat) (x y : Regex) :
    (Ok (inlineVars b k (.cat x y)) ↔ Ok (inlineVars b k x) ∧ Ok (inlineVars b k y)) ∧
    (Ok (inlineVars b k (.alt x y)) ↔ Ok (inlineVars b k x) ∧ Ok (inlineVars b k y)) ∧
    (Ok (inlineVars b k (.diff x y)) ↔ Ok (inlineVars b k x) ∧ Ok (inlineVars b k y)) := by
  simp only [inlineVars]
  exact ⟨ok_map2 _ _ _, ok_map2 _ _ _, ok_map2 _ _ _⟩

/-- the variable `n` needs nesting depth exactly `k + 1` -/
def Needs (k : Nat) (n : String) : Prop :=
  Ok (inlineVars b (k + 1) (.var n)) ∧ ¬ Ok (inlineVars b k (.var n))

/-- a regex that needs fuel `k + 1` contains a variable that needs fuel `k + 1` -/
theorem needs_of_regex (k : Nat) : ∀ re : Regex, Ok (inlineVars b (k + 1) re) → ¬ Ok (inlineVars b k re) →
    ∃ n, Needs b k n := by
  intro re
  induction re with
  | var n => intro h1 h2; exact ⟨n, h1, h2⟩
  | builtin _ | chr _ | str _ | set _ | any | eoi =>
    intro _ h2
    exact absurd ⟨_, by simp only [inlineVars]; rfl⟩ h2
  | star r ih =>
    intro h1 h2
    exact ih ((ok_unary b _ r).1.mp h1) (fun h => h2 ((ok_unary b _ r).1.mpr h))
  | plus r ih =>
    intro h1 h2
    exact ih ((ok_unary b _ r).2.1.mp h1) (fun h => h2 ((ok_unary b _ r).2.1.mpr h))
  | opt r ih =>
    intro h1 h2
    exact ih ((ok_unary b _ r).2.2.mp h1) (fun h => h2 ((ok_unary b _ r).2.2.mpr h))
  | cat x y ihx ihy =>
    intro h1 h2
    obtain ⟨hx, hy⟩ := (ok_binary b _ x y).1.mp h1
    by_cases hx' : Ok (inlineVars b k x)
    · exact ihy hy (fun h => h2 ((ok_binary b _ x y).1.mpr ⟨hx', h⟩))
    · exact ihx hx hx'
  | alt x y ihx ihy =>
    intro h1 h2
    obtain ⟨hx, hy⟩ := (ok_binary b _ x y).2.1.mp h1
    by_cases hx' : Ok (inlineVars b k x)
    · exact ihy hy (fun h => h2 ((ok_binary b _ x y).2.1.mpr ⟨hx', h⟩))
    · exact ihx hx hx'
  | diff x y ihx ihy =>
    intro h1 h2
    obtain ⟨hx, hy⟩ := (ok_binary b _ x y).2.2.mp h1
    by_cases hx' : Ok (inlineVars b k x)
    · exact ihy hy (fun h => h2 ((ok_binary b _ x y).2.2.mpr ⟨hx', h⟩))
    · exact ihx hx hx'

theorem needs_mem (k : Nat) (n : String) (h : Needs b k n) : n ∈ boundNames b := by
  obtain ⟨⟨v, hv⟩, _⟩ := h
  simp only [inlineVars] at hv
  rw [← find?_isSome_iff]
  cases hf : Bindings.find? b n with
  | none => rw [hf] at hv; cases hv
  | some r => rfl

theorem needs_unique (k j : Nat) (n : String) (hk : Needs b k n) (hj : Needs b j n) : k = j := by
  apply Classical.byContradiction
  intro hne
  rcases Nat.lt_or_gt_of_ne hne with h | h
  · exact hj.2 (ok_mono_le b (k + 1) j h _ hk.1)
  · exact hk.2 (ok_mono_le b (j + 1) k h _ hj.1)

/-- the definition of a variable that needs `k + 2` contains a variable that needs `k + 1` -/
theorem needs_chain (k : Nat) (n : String) (h : Needs b (k + 1) n) : ∃ m, Needs b k m := by
  obtain ⟨h1, h2⟩ := h
  simp only [inlineVars] at h1 h2
  cases hf : Bindings.find? b n with
  | none => rw [hf] at h1; exact absurd h1 (not_ok_error _)
  | some r =>
    rw [hf] at h1 h2
    exact needs_of_regex b k r h1 h2

theorem needs_list : ∀ (k : Nat) (n : String), Needs b k n →
    ∃ l : List String, l.length = k + 1 ∧ l.Nodup ∧ ∀ m ∈ l, m ∈ boundNames b ∧ ∃ j, j ≤ k ∧ Needs b j m := by
  intro k
  induction k with
  | zero =>
    intro n h
    refine ⟨[n], rfl, by simp, ?_⟩
    intro m hm
    rw [List.mem_singleton] at hm
    subst hm
    exact ⟨needs_mem b 0 m h, 0, Nat.le_refl _, h⟩
  | succ k ih =>
    intro n h
    obtain ⟨m, hm⟩ := needs_chain b k n h
    obtain ⟨l, hlen, hnd, hl⟩ := ih m hm
    refine ⟨n :: l, by rw [List.length_cons, hlen], ?_, ?_⟩
    · rw [List.nodup_cons]
      refine ⟨fun hn => ?_, hnd⟩
      obtain ⟨_, j, hj, hneeds⟩ := hl n hn
      have := needs_unique b (k + 1) j n h hneeds
      omega
    · intro x hx
      rcases List.mem_cons.mp hx with rfl | hx
      · exact ⟨needs_mem b _ _ h, k + 1, Nat.le_refl _, h⟩
      · obtain ⟨h1, j, hj, h2⟩ := hl x hx
        exact ⟨h1, j, Nat.le_succ_of_le hj, h2⟩

theorem needs_le (k : Nat) (n : String) (h : Needs b k n) : k + 1 ≤ b.length := by
  obtain ⟨l, hlen, hnd, hl⟩ := needs_list b k n h
  have := List.Nodup.length_le_of_subset hnd (fun m hm => (hl m hm).1)
  rw [hlen] at this
  simpa [boundNames] using this

/-- one unit of fuel above `b.length` is never needed -/
theorem inlineVars_down (k : Nat) (hk : b.length ≤ k) (re re' : Regex)
    (h : inlineVars b (k + 1) re = .ok re') : inlineVars b k re = .ok re' := by
  cases hc : inlineVars b k re with
  | ok v =>
    have := inlineVars_mono b k re v hc
    rw [h] at this
    cases this
    rfl
  | error e =>
    obtain ⟨n, hn⟩ := needs_of_regex b k re ⟨re', h⟩ (by rw [hc]; exact not_ok_error e)
    have := needs_le b k n hn
    omega

/-- **the fuel is irrelevant**: if substitution succeeds with some fuel, it succeeds with the fuel the
model uses -/
theorem inlineVars_any_fuel (k : Nat) (re re' : Regex) (h : inlineVars b k re = .ok re') :
    inlineVars b (b.length + 1) re = .ok re' := by
  by_cases hk : k ≤ b.length + 1
  · exact inlineVars_mono_le b k _ hk re re' h
  · have : ∀ d, inlineVars b (b.length + 1 + d) re = .ok re' → inlineVars b (b.length + 1) re = .ok re' := by
      intro d
      induction d with
      | zero => exact id
      | succ d ih =>
        intro h'
        exact ih (inlineVars_down b (b.length + 1 + d) (by omega) re re' h')
    apply this (k - (b.length + 1))
    have e : b.length + 1 + (k - (b.length + 1)) = k := by omega
    rw [e]
    exact h

theorem inlineVars_ok_iff_expands (re re' : Regex) :
    inlineVars b (b.length + 1) re = .ok re' ↔ Expands b re re' := by
  constructor
  · exact expands_of_inlineVars b _ re re'
  · intro h
    obtain ⟨k, hk⟩ := inlineVars_of_expands b re re' h
    exact inlineVars_any_fuel b k re re' hk

/-- `Elaborates` without fuel -/
theorem elaborates_iff_expands (re : Regex) :
    Elaborates b re ↔ ∃ re', Expands b re re' ∧ ClassOK re' := by
  unfold Elaborates
  constructor
  · rintro ⟨re', h1, h2⟩; exact ⟨re', (inlineVars_ok_iff_expands b re re').mp h1, h2⟩
  · rintro ⟨re', h1, h2⟩; exact ⟨re', (inlineVars_ok_iff_expands b re re').mpr h1, h2⟩

end
end StaticIff
end Lexgen
