import LexgenModel.Model.Search
import LexgenModel.Proofs.RangeMap
/-!
# Generated membership tests: guard chains, binary search, range arms

* `guardChain_iff` — the `||` chain of range checks is membership in the list of ranges;
* `binarySearch_iff` — the `slice::binary_search_by` loop on a sorted table is membership;
* `rangeGuard_iff` — hence the guard of a shared arm is membership whatever `MAX_GUARD_SIZE` is;
* `armLookup_eq_lookup` — the generated range arms (accept arms first, then one arm per next
  state) compute the value of the range map at the character.
-/

namespace Lexgen

/-- sorted, disjoint, non-inverted list of inclusive ranges -/
def SortedFrom (lo : Nat) : List (Nat × Nat) → Prop
  | [] => True
  | (s, e) :: rest => lo ≤ s ∧ s ≤ e ∧ SortedFrom (e + 1) rest

namespace Search

/-! ## Lists and indices -/

theorem getD_mem {α : Type} (l : List α) (d : α) (i : Nat) (h : i < l.length) : l.getD i d ∈ l := by
  induction l generalizing i with
  | nil => simp at h
  | cons x xs ih =>
    cases i with
    | zero => simp
    | succ i =>
      rw [List.getD_cons_succ]
      exact List.mem_cons_of_mem _ (ih i (by simp only [List.length_cons] at h; omega))

theorem exists_getD_of_mem {α : Type} (l : List α) (d : α) (a : α) (h : a ∈ l) :
    ∃ i, i < l.length ∧ l.getD i d = a := by
  induction l with
  | nil => cases h
  | cons x xs ih =>
    cases h with
    | head => exact ⟨0, by simp only [List.length_cons]; omega, List.getD_cons_zero⟩
    | tail _ h =>
      obtain ⟨i, hi, he⟩ := ih h
      exact ⟨i + 1, by simp only [List.length_cons]; omega, by rw [List.getD_cons_succ]; exact he⟩

/-! ## Sortedness -/

theorem sortedFrom_mono {lo lo' : Nat} {l : List (Nat × Nat)} (h : SortedFrom lo l) (hle : lo' ≤ lo) :
    SortedFrom lo' l := by
  cases l with
  | nil => trivial
  | cons r rest => obtain ⟨s, e⟩ := r; exact ⟨by have := h.1; omega, h.2.1, h.2.2⟩

/-- every range of a sorted list starts at or after the bound and is non-inverted -/
theorem sortedFrom_getD {lo : Nat} {l : List (Nat × Nat)} (h : SortedFrom lo l) (d : Nat × Nat) (i : Nat)
    (hi : i < l.length) : lo ≤ (l.getD i d).1 ∧ (l.getD i d).1 ≤ (l.getD i d).2 := by
  induction l generalizing lo i with
  | nil => simp at hi
  | cons r rest ih =>
    obtain ⟨s, e⟩ := r
    obtain ⟨h1, h2, h3⟩ := h
    cases i with
    | zero => rw [List.getD_cons_zero]; exact ⟨h1, h2⟩
    | succ i =>
      rw [List.getD_cons_succ]
      have := ih h3 i (by simp only [List.length_cons] at hi; omega)
      exact ⟨by omega, this.2⟩

/-- index form of sortedness: an earlier range ends before a later one starts -/
theorem sortedFrom_lt {lo : Nat} {l : List (Nat × Nat)} (h : SortedFrom lo l) (d : Nat × Nat) (i j : Nat)
    (hij : i < j) (hj : j < l.length) : (l.getD i d).2 < (l.getD j d).1 := by
  induction l generalizing lo i j with
  | nil => simp at hj
  | cons r rest ih =>
    obtain ⟨s, e⟩ := r
    obtain ⟨h1, h2, h3⟩ := h
    cases j with
    | zero => omega
    | succ j =>
      have hj' : j < rest.length := by simp only [List.length_cons] at hj; omega
      rw [List.getD_cons_succ]
      cases i with
      | zero =>
        rw [List.getD_cons_zero]
        have := (sortedFrom_getD h3 d j hj').1
        show e < _
        omega
      | succ i =>
        rw [List.getD_cons_succ]
        exact ih h3 i j (by omega) hj'

/-! ## Guard chain -/

/-- `c` lies in the inclusive range `r` -/
def Contains (c : Nat) (r : Nat × Nat) : Prop := r.1 ≤ c ∧ c ≤ r.2

theorem guardTest_iff (r : Nat × Nat) (c : Nat) :
    (if r.1 = r.2 then c == r.1 else decide (r.1 ≤ c) && decide (c ≤ r.2)) = true ↔ r.1 ≤ c ∧ c ≤ r.2 := by
  by_cases h : r.1 = r.2
  · rw [if_pos h]
    simp only [beq_iff_eq]
    omega
  · rw [if_neg h]
    simp only [Bool.and_eq_true, decide_eq_true_eq]

end Search

open Search

/-- the chain of range guards is membership, for any list of ranges -/
theorem guardChain_iff (ranges : List (Nat × Nat)) (c : Nat) :
    guardChain ranges c = true ↔ ∃ r ∈ ranges, r.1 ≤ c ∧ c ≤ r.2 := by
  unfold guardChain
  rw [List.any_eq_true]
  constructor
  · rintro ⟨r, hr, ht⟩
    exact ⟨r, hr, (guardTest_iff r c).mp ht⟩
  · rintro ⟨r, hr, ht⟩
    exact ⟨r, hr, (guardTest_iff r c).mpr ht⟩

namespace Search

/-! ## Binary search -/

theorem cmpRange_gt_iff (c : Nat) (r : Nat × Nat) : (cmpRange c r == .gt) = true ↔ c < r.1 := by
  unfold cmpRange
  by_cases h1 : c > r.1
  · rw [if_pos h1]
    by_cases h2 : c ≤ r.2
    · rw [if_pos h2]; constructor
      · intro h; cases h
      · intro h; omega
    · rw [if_neg h2]; constructor
      · intro h; cases h
      · intro h; omega
  · rw [if_neg h1]
    by_cases h2 : c = r.1
    · rw [if_pos h2]; constructor
      · intro h; cases h
      · intro h; omega
    · rw [if_neg h2]; constructor
      · intro _; omega
      · intro _; rfl

theorem cmpRange_eq_iff (c : Nat) (r : Nat × Nat) (hr : r.1 ≤ r.2) :
    (cmpRange c r == .eq) = true ↔ r.1 ≤ c ∧ c ≤ r.2 := by
  unfold cmpRange
  by_cases h1 : c > r.1
  · rw [if_pos h1]
    by_cases h2 : c ≤ r.2
    · rw [if_pos h2]; constructor
      · intro _; omega
      · intro _; rfl
    · rw [if_neg h2]; constructor
      · intro h; cases h
      · intro h; omega
  · rw [if_neg h1]
    by_cases h2 : c = r.1
    · rw [if_pos h2]; constructor
      · intro _; omega
      · intro _; rfl
    · rw [if_neg h2]; constructor
      · intro h; cases h
      · intro h; omega

/-- loop invariant of `binary_search_by`: the window is inside the table, non-empty, and contains
the index of every range that contains `c` -/
def Window (table : List (Nat × Nat)) (c : Nat) (base size : Nat) : Prop :=
  base + size ≤ table.length ∧ 1 ≤ size ∧
  ∀ i, i < table.length → Contains c (table.getD i (0, 0)) → base ≤ i ∧ i < base + size

theorem bsLoop_spec (table : List (Nat × Nat)) (c : Nat) (hs : SortedFrom 0 table) (fuel base size : Nat)
    (hfuel : size ≤ fuel) (hw : Window table c base size) :
    bsLoop table c fuel base size < table.length ∧
    ∀ i, i < table.length → Contains c (table.getD i (0, 0)) → i = bsLoop table c fuel base size := by
  induction fuel generalizing base size with
  | zero => have := hw.2.1; omega
  | succ fuel ih =>
    obtain ⟨hw1, hw2, hw3⟩ := hw
    unfold bsLoop
    by_cases hsz : size > 1
    · rw [if_pos hsz]
      simp only []
      have hmid : base + size / 2 < table.length := by omega
      have hmidr := sortedFrom_getD hs (0, 0) (base + size / 2) hmid
      by_cases hgt : (cmpRange c (table.getD (base + size / 2) (0, 0)) == .gt) = true
      · rw [if_pos hgt]
        have hlt := (cmpRange_gt_iff _ _).mp hgt
        apply ih base (size - size / 2) (by omega)
        refine ⟨by omega, by omega, fun i hi hc => ?_⟩
        have hb := hw3 i hi hc
        refine ⟨hb.1, ?_⟩
        by_cases him : i < base + size / 2
        · omega
        · exfalso
          by_cases heq : i = base + size / 2
          · subst heq
            have := hc.1
            omega
          · have := sortedFrom_lt hs (0, 0) (base + size / 2) i (by omega) hi
            have := hc.1
            omega
      · rw [if_neg hgt]
        have hge : ¬ c < (table.getD (base + size / 2) (0, 0)).1 := fun h => hgt ((cmpRange_gt_iff _ _).mpr h)
        apply ih (base + size / 2) (size - size / 2) (by omega)
        refine ⟨by omega, by omega, fun i hi hc => ?_⟩
        have hb := hw3 i hi hc
        refine ⟨?_, by omega⟩
        by_cases him : base + size / 2 ≤ i
        · exact him
        · exfalso
          have := sortedFrom_lt hs (0, 0) i (base + size / 2) (by omega) hmid
          have := hc.2
          omega
    · rw [if_neg hsz]
      refine ⟨by omega, fun i hi hc => ?_⟩
      have := hw3 i hi hc
      omega

end Search

/-- binary search in a sorted table is membership -/
theorem binarySearch_iff (table : List (Nat × Nat)) (c : Nat) (h : SortedFrom 0 table) :
    binarySearch table c = true ↔ ∃ r ∈ table, r.1 ≤ c ∧ c ≤ r.2 := by
  unfold binarySearch
  cases table with
  | nil =>
    simp only [List.isEmpty_nil, if_true]
    constructor
    · intro h; cases h
    · rintro ⟨r, hr, _⟩; cases hr
  | cons x xs =>
    simp only [List.isEmpty_cons]
    rw [if_neg (by intro h; cases h)]
    have hw : Window (x :: xs) c 0 (x :: xs).length :=
      ⟨by omega, by simp only [List.length_cons]; omega, fun i hi _ => ⟨by omega, by omega⟩⟩
    obtain ⟨hlt, huniq⟩ := bsLoop_spec (x :: xs) c h (x :: xs).length 0 (x :: xs).length (Nat.le_refl _) hw
    have hni := (sortedFrom_getD h (0, 0) _ hlt).2
    rw [cmpRange_eq_iff c _ hni]
    constructor
    · intro hc
      exact ⟨_, getD_mem (x :: xs) (0, 0) _ hlt, hc⟩
    · rintro ⟨r, hr, hc⟩
      obtain ⟨i, hi, he⟩ := exists_getD_of_mem (x :: xs) (0, 0) r hr
      have := huniq i hi (by rw [he]; exact hc)
      rw [← this, he]
      exact hc

/-- both shapes of the shared-arm guard are membership on a sorted list, whatever the threshold -/
theorem rangeGuard_iff (maxGuard : Nat) (ranges : List (Nat × Nat)) (c : Nat) (h : SortedFrom 0 ranges) :
    rangeGuard maxGuard ranges c = true ↔ ∃ r ∈ ranges, r.1 ≤ c ∧ c ≤ r.2 := by
  unfold rangeGuard
  by_cases hl : ranges.length > maxGuard
  · rw [if_pos hl]; exact binarySearch_iff ranges c h
  · rw [if_neg hl]; exact guardChain_iff ranges c

namespace Search

/-! ## Range arms -/

open RangeMap

theorem wfFrom_mem {α : Type} {lo : Nat} {l : RangeMap α} (h : WFFrom lo l) (r : Nat × Nat × α) (hr : r ∈ l) :
    lo ≤ r.1 ∧ r.1 ≤ r.2.1 := by
  induction l generalizing lo with
  | nil => cases hr
  | cons x rest ih =>
    obtain ⟨s, e, v⟩ := x
    obtain ⟨h1, h2, h3⟩ := h
    cases hr with
    | head => exact ⟨h1, h2⟩
    | tail _ hr => have := ih h3 hr; exact ⟨by omega, this.2⟩

/-- in a well-formed map at most one range contains a given point -/
theorem wfFrom_unique {α : Type} {lo : Nat} {l : RangeMap α} (h : WFFrom lo l) (c : Nat) (r1 r2 : Nat × Nat × α)
    (h1 : r1 ∈ l) (h2 : r2 ∈ l) (c1 : r1.1 ≤ c ∧ c ≤ r1.2.1) (c2 : r2.1 ≤ c ∧ c ≤ r2.2.1) : r1 = r2 := by
  induction l generalizing lo with
  | nil => cases h1
  | cons x rest ih =>
    obtain ⟨s, e, v⟩ := x
    obtain ⟨_, _, h3⟩ := h
    cases h1 with
    | head =>
      cases h2 with
      | head => rfl
      | tail _ h2 => have := (wfFrom_mem h3 r2 h2).1; simp only [] at c1; omega
    | tail _ h1 =>
      cases h2 with
      | head => have := (wfFrom_mem h3 r1 h1).1; simp only [] at c2; omega
      | tail _ h2 => exact ih h3 h1 h2

theorem lookup_eq_some_of_mem {α : Type} {lo : Nat} {l : RangeMap α} (h : WFFrom lo l) (c : Nat)
    (r : Nat × Nat × α) (hr : r ∈ l) (hc : r.1 ≤ c ∧ c ≤ r.2.1) : lookup l c = some r.2.2 := by
  induction l generalizing lo with
  | nil => cases hr
  | cons x rest ih =>
    obtain ⟨s, e, v⟩ := x
    obtain ⟨_, _, h3⟩ := h
    simp only [lookup]
    cases hr with
    | head => rw [if_pos hc]
    | tail _ hr =>
      have := (wfFrom_mem h3 r hr).1
      rw [if_neg (by omega)]
      exact ih h3 hr

theorem lookup_eq_none_of_forall {α : Type} (l : RangeMap α) (c : Nat)
    (h : ∀ r ∈ l, ¬ (r.1 ≤ c ∧ c ≤ r.2.1)) : lookup l c = none := by
  induction l with
  | nil => rfl
  | cons x rest ih =>
    obtain ⟨s, e, v⟩ := x
    simp only [lookup]
    rw [if_neg (h (s, e, v) List.mem_cons_self)]
    exact ih fun r hr => h r (List.mem_cons_of_mem _ hr)

theorem mem_rangesTo (ranges : RangeMap Trans) (t : Nat) (p : Nat × Nat) :
    p ∈ rangesTo ranges t ↔ (p.1, p.2, Trans.goto t) ∈ ranges := by
  unfold rangesTo
  rw [List.mem_filterMap]
  constructor
  · rintro ⟨⟨s, e, v⟩, hr, hf⟩
    cases v with
    | accept a => simp only [] at hf; cases hf
    | goto t' =>
      simp only [] at hf
      by_cases ht : t' = t
      · rw [if_pos ht] at hf
        cases hf
        subst ht
        exact hr
      · rw [if_neg ht] at hf; cases hf
  · intro hr
    refine ⟨_, hr, ?_⟩
    simp only [if_true]

theorem rangesTo_sorted {lo : Nat} {ranges : RangeMap Trans} (h : WFFrom lo ranges) (t : Nat) :
    SortedFrom lo (rangesTo ranges t) := by
  induction ranges generalizing lo with
  | nil => trivial
  | cons x rest ih =>
    obtain ⟨s, e, v⟩ := x
    obtain ⟨h1, h2, h3⟩ := h
    have ihr := ih h3
    unfold rangesTo at ihr ⊢
    rw [List.filterMap_cons]
    cases v with
    | accept a => simp only []; exact sortedFrom_mono ihr (by omega)
    | goto t' =>
      simp only []
      by_cases ht : t' = t
      · rw [if_pos ht]; exact ⟨h1, h2, ihr⟩
      · rw [if_neg ht]; simp only []; exact sortedFrom_mono ihr (by omega)

theorem mem_rangeTargets (ranges : RangeMap Trans) (t : Nat) :
    t ∈ rangeTargets ranges ↔ ∃ s e, (s, e, Trans.goto t) ∈ ranges := by
  unfold rangeTargets
  rw [List.mem_eraseDups, List.mem_filterMap]
  constructor
  · rintro ⟨⟨s, e, v⟩, hr, hf⟩
    cases v with
    | accept a => simp only [] at hf; cases hf
    | goto t' => simp only [] at hf; cases hf; exact ⟨s, e, hr⟩
  · rintro ⟨s, e, hr⟩
    exact ⟨_, hr, rfl⟩

/-- the guard of the arm of next state `t` holds iff a range leading to `t` contains `c` -/
theorem armGuard_iff (maxGuard : Nat) (ranges : RangeMap Trans) (h : WF ranges) (c t : Nat) :
    rangeGuard maxGuard (rangesTo ranges t) c = true ↔
      ∃ s e, (s, e, Trans.goto t) ∈ ranges ∧ s ≤ c ∧ c ≤ e := by
  rw [rangeGuard_iff maxGuard _ c (rangesTo_sorted h t)]
  constructor
  · rintro ⟨p, hp, hc⟩
    exact ⟨p.1, p.2, (mem_rangesTo ranges t p).mp hp, hc⟩
  · rintro ⟨s, e, hr, hc⟩
    exact ⟨(s, e), (mem_rangesTo ranges t (s, e)).mpr hr, hc⟩

/-- the test of the accept arms -/
def acceptTest (c : Nat) (r : Nat × Nat × Trans) : Bool :=
  match r.2.2 with
  | .accept _ => decide (r.1 ≤ c) && decide (c ≤ r.2.1)
  | .goto _ => false

theorem acceptTest_iff (c : Nat) (r : Nat × Nat × Trans) :
    acceptTest c r = true ↔ (∃ a, r.2.2 = Trans.accept a) ∧ r.1 ≤ c ∧ c ≤ r.2.1 := by
  obtain ⟨s, e, v⟩ := r
  unfold acceptTest
  cases v with
  | accept a =>
    simp only [Bool.and_eq_true, decide_eq_true_eq]
    constructor
    · intro h; exact ⟨⟨a, rfl⟩, h⟩
    · intro h; exact h.2
  | goto t =>
    simp only []
    constructor
    · intro h; cases h
    · rintro ⟨⟨a, ha⟩, _⟩; cases ha

theorem armLookup_unfold (maxGuard : Nat) (ranges : RangeMap Trans) (c : Nat) :
    armLookup maxGuard ranges c =
      match ranges.find? (acceptTest c) with
      | some r => some r.2.2
      | none => ((rangeTargets ranges).find? fun t => rangeGuard maxGuard (rangesTo ranges t) c).map Trans.goto := rfl

end Search

open Search in
/-- the generated range arms compute the range-map lookup -/
theorem armLookup_eq_lookup (maxGuard : Nat) (ranges : RangeMap Trans) (h : RangeMap.WF ranges) (c : Nat) :
    armLookup maxGuard ranges c = RangeMap.lookup ranges c := by
  rw [armLookup_unfold]
  by_cases hex : ∃ r ∈ ranges, r.1 ≤ c ∧ c ≤ r.2.1
  · obtain ⟨⟨s, e, v⟩, hr, hc⟩ := hex
    rw [lookup_eq_some_of_mem h c _ hr hc]
    cases hf : ranges.find? (acceptTest c) with
    | some r' =>
      simp only []
      have hm := List.mem_of_find?_eq_some hf
      have ht := (acceptTest_iff c r').mp (List.find?_some hf)
      have := wfFrom_unique h c r' (s, e, v) hm hr ht.2 hc
      rw [this]
    | none =>
      simp only []
      rw [List.find?_eq_none] at hf
      cases v with
      | accept a =>
        exact absurd ((acceptTest_iff c (s, e, Trans.accept a)).mpr ⟨⟨a, rfl⟩, hc⟩) (hf _ hr)
      | goto t =>
        cases hg : (rangeTargets ranges).find? (fun t => rangeGuard maxGuard (rangesTo ranges t) c) with
        | some t' =>
          have hp := List.find?_some hg
          obtain ⟨s', e', hr', hc'⟩ := (armGuard_iff maxGuard ranges h c t').mp hp
          have := wfFrom_unique h c (s', e', Trans.goto t') (s, e, Trans.goto t) hr' hr hc' hc
          cases this
          rfl
        | none =>
          rw [List.find?_eq_none] at hg
          have hmem : t ∈ rangeTargets ranges := (mem_rangeTargets ranges t).mpr ⟨s, e, hr⟩
          exact absurd ((armGuard_iff maxGuard ranges h c t).mpr ⟨s, e, hr, hc⟩) (hg t hmem)
  · have hno : ∀ r ∈ ranges, ¬ (r.1 ≤ c ∧ c ≤ r.2.1) := fun r hr hc => hex ⟨r, hr, hc⟩
    rw [lookup_eq_none_of_forall ranges c hno]
    cases hf : ranges.find? (acceptTest c) with
    | some r' =>
      have hm := List.mem_of_find?_eq_some hf
      have ht := (acceptTest_iff c r').mp (List.find?_some hf)
      exact absurd ht.2 (hno r' hm)
    | none =>
      simp only []
      cases hg : (rangeTargets ranges).find? (fun t => rangeGuard maxGuard (rangesTo ranges t) c) with
      | some t' =>
        have hp := List.find?_some hg
        obtain ⟨s', e', hr', hc'⟩ := (armGuard_iff maxGuard ranges h c t').mp hp
        exact absurd hc' (hno _ hr')
      | none => rfl

example : binarySearch [(1, 3), (5, 5), (7, 9), (11, 20)] 8 = true := by decide
example : binarySearch [(1, 3), (5, 5), (7, 9), (11, 20)] 10 = false := by decide
example : binarySearch [(1, 3), (5, 5), (7, 9), (11, 20)] 0 = false := by decide
example : binarySearch [(1, 3), (5, 5), (7, 9), (11, 20)] 21 = false := by decide

end Lexgen
