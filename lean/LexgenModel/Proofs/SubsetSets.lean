import LexgenModel.Spec.Lang
import LexgenModel.Proofs.RangeMap
/-!
# Subset construction, part 1: sorted-list sets, generic fold lemmas, ε-closure

`closure nfa S` is strictly ascending and contains exactly the states ε-reachable from `S`
(`mem_closure`), for every NFA whose ε-targets are states (`NFAWF`).
-/
set_option linter.unusedSimpArgs false
set_option linter.unusedVariables false
namespace Lexgen.Subset
open Lexgen

/-! ## generic list lemmas -/

/-- invariant rule for `foldl`: `P acc processed` -/
theorem foldl_inv {α β : Type} (f : β → α → β) (P : β → List α → Prop) (L : List α) (b : β)
    (h0 : P b []) (hs : ∀ b l a, a ∈ L → P b l → P (f b a) (l ++ [a])) : P (L.foldl f b) L := by
  have key : ∀ (M pre : List α) (b : β), (∀ a ∈ M, a ∈ L) → P b pre → P (M.foldl f b) (pre ++ M) := by
    intro M
    induction M with
    | nil => intro pre b _ h; simpa using h
    | cons a M ih =>
      intro pre b hM h
      rw [List.foldl_cons]
      have := ih (pre ++ [a]) (f b a) (fun x hx => hM x (List.mem_cons_of_mem _ hx))
        (hs b pre a (hM a List.mem_cons_self) h)
      simpa [List.append_assoc] using this
  simpa using key L [] b (fun _ h => h) h0

/-- pointwise relation of two lists (core has no `Forall₂`) -/
inductive Rel₂ {α β : Type} (R : α → β → Prop) : List α → List β → Prop
  | nil : Rel₂ R [] []
  | cons {a b l m} : R a b → Rel₂ R l m → Rel₂ R (a :: l) (b :: m)

theorem Rel₂.snoc {α β : Type} {R : α → β → Prop} {l : List α} {m : List β} {a : α} {b : β}
    (h : Rel₂ R l m) (hab : R a b) : Rel₂ R (l ++ [a]) (m ++ [b]) := by
  induction h with
  | nil => exact .cons hab .nil
  | cons h1 _ ih => exact .cons h1 ih

theorem Rel₂.imp {α β : Type} {R R' : α → β → Prop} {l : List α} {m : List β}
    (h : Rel₂ R l m) (hi : ∀ a b, a ∈ l → R a b → R' a b) : Rel₂ R' l m := by
  induction h with
  | nil => exact .nil
  | cons h1 _ ih =>
    exact .cons (hi _ _ List.mem_cons_self h1) (ih (fun a b ha => hi a b (List.mem_cons_of_mem _ ha)))

theorem Rel₂.mem_right {α β : Type} {R : α → β → Prop} {l : List α} {m : List β}
    (h : Rel₂ R l m) {b : β} (hb : b ∈ m) : ∃ a ∈ l, R a b := by
  induction h with
  | nil => cases hb
  | cons h1 _ ih =>
    rcases List.mem_cons.mp hb with rfl | hb
    · exact ⟨_, List.mem_cons_self, h1⟩
    · obtain ⟨a, ha, hr⟩ := ih hb
      exact ⟨a, List.mem_cons_of_mem _ ha, hr⟩

theorem inj_of_nodup_map {α β : Type} (f : α → β) {l : List α} (h : (l.map f).Nodup)
    {a b : α} (ha : a ∈ l) (hb : b ∈ l) (hab : f a = f b) : a = b := by
  induction l with
  | nil => cases ha
  | cons x l ih =>
    rw [List.map_cons, List.nodup_cons] at h
    rcases List.mem_cons.mp ha with ha' | ha' <;> rcases List.mem_cons.mp hb with hb' | hb'
    · rw [ha', hb']
    · exfalso; apply h.1; rw [← ha', hab]; exact List.mem_map_of_mem hb'
    · exfalso; apply h.1; rw [← hb', ← hab]; exact List.mem_map_of_mem ha'
    · exact ih h.2 ha' hb'

theorem filter_length_le {α : Type} (L : List α) (p q : α → Bool)
    (h : ∀ x ∈ L, q x = true → p x = true) : (L.filter q).length ≤ (L.filter p).length := by
  induction L with
  | nil => simp
  | cons a L ih =>
    have ih := ih (fun x hx => h x (List.mem_cons_of_mem _ hx))
    have ha := h a List.mem_cons_self
    simp only [List.filter_cons]
    cases hq : q a <;> cases hp : p a <;> simp <;> first | omega | (rw [hq, hp] at ha; simp at ha)

theorem filter_length_lt {α : Type} (L : List α) (p q : α → Bool)
    (h : ∀ x ∈ L, q x = true → p x = true) (a : α) (haL : a ∈ L) (hpa : p a = true) (hqa : q a = false) :
    (L.filter q).length < (L.filter p).length := by
  induction L with
  | nil => cases haL
  | cons b L ih =>
    have hle := filter_length_le L p q (fun x hx => h x (List.mem_cons_of_mem _ hx))
    have hb := h b List.mem_cons_self
    simp only [List.filter_cons]
    rcases List.mem_cons.mp haL with rfl | haL
    · rw [hpa, hqa]; simp; omega
    · have ih := ih (fun x hx => h x (List.mem_cons_of_mem _ hx)) haL
      cases hq : q b <;> cases hp : p b <;> simp <;> first | omega | (rw [hq, hp] at hb; simp at hb)

/-! ## sets as strictly ascending lists -/

theorem ascending_cons {a : Nat} {l : List Nat} :
    Ascending (a :: l) ↔ (∀ x ∈ l, a < x) ∧ Ascending l := by
  induction l generalizing a with
  | nil => simp [Ascending]
  | cons b l ih =>
    simp only [Ascending]
    constructor
    · rintro ⟨hab, hbl⟩
      refine ⟨fun x hx => ?_, hbl⟩
      rcases List.mem_cons.mp hx with rfl | hx
      · exact hab
      · exact Nat.lt_trans hab ((ih.mp hbl).1 x hx)
    · rintro ⟨h1, h2⟩
      exact ⟨h1 b List.mem_cons_self, h2⟩

theorem mem_setInsert {a x : Nat} {l : List Nat} : x ∈ setInsert a l ↔ x = a ∨ x ∈ l := by
  induction l with
  | nil => simp [setInsert]
  | cons y ys ih =>
    simp only [setInsert]
    by_cases h1 : a < y
    · simp [h1]
    · by_cases h2 : a = y
      · subst h2; simp [h1]
      · simp only [h1, h2, if_false, List.mem_cons, ih]
        constructor
        · rintro (h | h | h) <;> simp [h]
        · rintro (h | h | h) <;> simp [h]

theorem ascending_setInsert {a : Nat} {l : List Nat} (h : Ascending l) : Ascending (setInsert a l) := by
  induction l with
  | nil => simp [setInsert, Ascending]
  | cons y ys ih =>
    simp only [setInsert]
    have ⟨hy, hys⟩ := ascending_cons.mp h
    by_cases h1 : a < y
    · simp only [h1, if_true]
      refine ascending_cons.mpr ⟨fun x hx => ?_, h⟩
      rcases List.mem_cons.mp hx with rfl | hx
      · exact h1
      · exact Nat.lt_trans h1 (hy x hx)
    · by_cases h2 : a = y
      · subst h2; rw [if_neg h1, if_pos rfl]; exact h
      · simp only [h1, h2, if_false]
        refine ascending_cons.mpr ⟨fun x hx => ?_, ih hys⟩
        rcases mem_setInsert.mp hx with rfl | hx
        · omega
        · exact hy x hx

theorem mem_setUnion {a b : List Nat} {x : Nat} : x ∈ setUnion a b ↔ x ∈ a ∨ x ∈ b := by
  unfold setUnion
  induction b generalizing a with
  | nil => simp
  | cons y ys ih =>
    rw [List.foldl_cons, ih, mem_setInsert, List.mem_cons]
    constructor
    · rintro ((h | h) | h) <;> simp [h]
    · rintro (h | h | h) <;> simp [h]

theorem ascending_setUnion {a b : List Nat} (h : Ascending a) : Ascending (setUnion a b) := by
  unfold setUnion
  induction b generalizing a with
  | nil => simpa using h
  | cons y ys ih => rw [List.foldl_cons]; exact ih (ascending_setInsert h)

theorem mem_setOfList {l : List Nat} {x : Nat} : x ∈ setOfList l ↔ x ∈ l := by
  unfold setOfList; rw [mem_setUnion]; simp

theorem ascending_setOfList (l : List Nat) : Ascending (setOfList l) :=
  ascending_setUnion (by simp [Ascending])

theorem setUnion_ne_nil_right {a b : List Nat} (h : b ≠ []) : setUnion a b ≠ [] := by
  cases b with
  | nil => exact absurd rfl h
  | cons y ys =>
    intro he
    have : y ∈ setUnion a (y :: ys) := mem_setUnion.mpr (Or.inr List.mem_cons_self)
    rw [he] at this; cases this

theorem setUnion_ne_nil_left {a b : List Nat} (h : a ≠ []) : setUnion a b ≠ [] := by
  cases a with
  | nil => exact absurd rfl h
  | cons y ys =>
    intro he
    have : y ∈ setUnion (y :: ys) b := mem_setUnion.mpr (Or.inl List.mem_cons_self)
    rw [he] at this; cases this

/-! ## ε-reachability -/

inductive EpsReach (n : NFA) : Nat → Nat → Prop
  | refl (s : Nat) : EpsReach n s s
  | step {s t u : Nat} : t ∈ (n.st s).eps → EpsReach n t u → EpsReach n s u

theorem EpsReach.trans {n : NFA} {s t u : Nat} (h1 : EpsReach n s t) (h2 : EpsReach n t u) :
    EpsReach n s u := by
  induction h1 with
  | refl => exact h2
  | step he _ ih => exact .step he (ih h2)

theorem EpsReach.tail {n : NFA} {s t u : Nat} (h1 : EpsReach n s t) (h2 : u ∈ (n.st t).eps) :
    EpsReach n s u := h1.trans (.step h2 (.refl u))

theorem st_eq_empty_of_le {n : NFA} {s : Nat} (h : n.length ≤ s) : n.st s = NState.empty := by
  unfold NFA.st
  rw [List.getD_eq_getElem?_getD, List.getElem?_eq_none h]; rfl

theorem eps_lt {n : NFA} (hwf : NFAWF n) {s y : Nat} (hy : y ∈ (n.st s).eps) : y < n.length := by
  by_cases hs : s < n.length
  · exact hwf.targets s hs y (Or.inl hy)
  · rw [st_eq_empty_of_le (Nat.le_of_not_lt hs)] at hy; cases hy

/-! ## the closure work list -/

/-- number of states `< n` not yet in `cl` -/
def miss (n : Nat) (cl : List Nat) : Nat := ((List.range n).filter (fun i => !cl.contains i)).length

theorem miss_insert_le (n a : Nat) (cl : List Nat) : miss n (setInsert a cl) ≤ miss n cl := by
  unfold miss
  apply filter_length_le
  intro x _ hx
  have h1 : x ∉ setInsert a cl := by simpa using hx
  have h2 : x ∉ cl := fun h => h1 (mem_setInsert.mpr (Or.inr h))
  simpa using h2

theorem miss_insert_lt (n a : Nat) (cl : List Nat) (ha : a < n) (hni : a ∉ cl) :
    miss n (setInsert a cl) < miss n cl := by
  unfold miss
  apply filter_length_lt _ _ _ _ a (List.mem_range.mpr ha)
  · simp [hni]
  · simp [mem_setInsert]
  · intro x _ hx
    have h1 : x ∉ setInsert a cl := by simpa using hx
    have h2 : x ∉ cl := fun h => h1 (mem_setInsert.mpr (Or.inr h))
    simpa using h2

/-- the body of the inner loop of `closureAux` -/
def epsStep (acc : List Nat × List Nat) (nx : Nat) : List Nat × List Nat :=
  if acc.2.contains nx then acc else (nx :: acc.1, setInsert nx acc.2)

theorem epsFold_spec (n : Nat) (E : List Nat) (hE : ∀ y ∈ E, y < n) (wl cl : List Nat) :
    (∀ x, x ∈ (E.foldl epsStep (wl, cl)).2 ↔ x ∈ cl ∨ x ∈ E) ∧
    (∀ x, x ∈ (E.foldl epsStep (wl, cl)).1 → x ∈ wl ∨ x ∈ E) ∧
    (∀ x, x ∈ wl → x ∈ (E.foldl epsStep (wl, cl)).1) ∧
    (∀ x, x ∈ (E.foldl epsStep (wl, cl)).2 → x ∉ cl → x ∈ (E.foldl epsStep (wl, cl)).1) ∧
    (Ascending cl → Ascending (E.foldl epsStep (wl, cl)).2) ∧
    (E.foldl epsStep (wl, cl)).1.length + miss n (E.foldl epsStep (wl, cl)).2 ≤ wl.length + miss n cl := by
  induction E generalizing wl cl with
  | nil => simp; intro x h1 h2; exact absurd h1 h2
  | cons y E ih =>
    rw [List.foldl_cons]
    have hE' : ∀ z ∈ E, z < n := fun z hz => hE z (List.mem_cons_of_mem _ hz)
    by_cases hc : y ∈ cl
    · have : epsStep (wl, cl) y = (wl, cl) := by simp [epsStep, hc]
      rw [this]
      obtain ⟨i1, i2, i3, i4, i5, i6⟩ := ih hE' wl cl
      refine ⟨fun x => ?_, fun x hx => ?_, i3, i4, i5, i6⟩
      · rw [i1, List.mem_cons]
        constructor
        · rintro (h | h) <;> simp [h]
        · rintro (h | rfl | h)
          · exact Or.inl h
          · exact Or.inl hc
          · exact Or.inr h
      · rcases i2 x hx with h | h
        · exact Or.inl h
        · exact Or.inr (List.mem_cons_of_mem _ h)
    · have : epsStep (wl, cl) y = (y :: wl, setInsert y cl) := by simp [epsStep, hc]
      rw [this]
      obtain ⟨i1, i2, i3, i4, i5, i6⟩ := ih hE' (y :: wl) (setInsert y cl)
      refine ⟨fun x => ?_, fun x hx => ?_, fun x hx => i3 x (List.mem_cons_of_mem _ hx),
        fun x hx hnx => ?_, fun h => i5 (ascending_setInsert h), ?_⟩
      · rw [i1, mem_setInsert, List.mem_cons]
        constructor
        · rintro ((h | h) | h) <;> simp [h]
        · rintro (h | h | h) <;> simp [h]
      · rcases i2 x hx with h | h
        · rcases List.mem_cons.mp h with rfl | h
          · exact Or.inr List.mem_cons_self
          · exact Or.inl h
        · exact Or.inr (List.mem_cons_of_mem _ h)
      · by_cases hxy : x = y
        · subst hxy; exact i3 x List.mem_cons_self
        · apply i4 x hx
          rw [mem_setInsert]; simp [hxy, hnx]
      · have := miss_insert_lt n y cl (hE y List.mem_cons_self) hc
        simp only [List.length_cons] at i6
        omega

theorem closureAux_spec {n : NFA} (hwf : NFAWF n) (S0 : List Nat) :
    ∀ (fuel : Nat) (wl cl : List Nat), wl.length + miss n.length cl < fuel →
      (∀ x ∈ wl, x ∈ cl) → (∀ x ∈ cl, ∃ s ∈ S0, EpsReach n s x) → (∀ s ∈ S0, s ∈ cl) →
      (∀ x ∈ cl, x ∉ wl → ∀ y ∈ (n.st x).eps, y ∈ cl) → Ascending cl →
      Ascending (NFA.closureAux n fuel wl cl) ∧
      (∀ x ∈ NFA.closureAux n fuel wl cl, ∃ s ∈ S0, EpsReach n s x) ∧
      (∀ s ∈ S0, s ∈ NFA.closureAux n fuel wl cl) ∧
      (∀ x ∈ NFA.closureAux n fuel wl cl, ∀ y ∈ (n.st x).eps, y ∈ NFA.closureAux n fuel wl cl) := by
  intro fuel
  induction fuel with
  | zero => intro wl cl h; omega
  | succ fuel ih =>
    intro wl cl hm h1 h2 h3 h4 h5
    cases wl with
    | nil =>
      simp only [NFA.closureAux]
      exact ⟨h5, h2, h3, fun x hx => h4 x hx (by simp)⟩
    | cons w wl =>
      have hstep : NFA.closureAux n (fuel + 1) (w :: wl) cl =
          NFA.closureAux n fuel ((n.st w).eps.foldl epsStep (wl, cl)).1 ((n.st w).eps.foldl epsStep (wl, cl)).2 := rfl
      rw [hstep]
      obtain ⟨i1, i2, i3, i4, i5, i6⟩ := epsFold_spec n.length (n.st w).eps (fun y hy => eps_lt hwf hy) wl cl
      have hwcl : w ∈ cl := h1 w List.mem_cons_self
      apply ih
      · simp only [List.length_cons] at hm; omega
      · intro x hx
        rcases i2 x hx with h | h
        · exact (i1 x).mpr (Or.inl (h1 x (List.mem_cons_of_mem _ h)))
        · exact (i1 x).mpr (Or.inr h)
      · intro x hx
        rcases (i1 x).mp hx with h | h
        · exact h2 x h
        · obtain ⟨s, hs, hr⟩ := h2 w hwcl
          exact ⟨s, hs, hr.tail h⟩
      · intro s hs; exact (i1 s).mpr (Or.inl (h3 s hs))
      · intro x hx hxn y hy
        by_cases hxw : x = w
        · subst hxw; exact (i1 y).mpr (Or.inr hy)
        · by_cases hxc : x ∈ cl
          · have : x ∉ w :: wl := by
              intro hmem
              rcases List.mem_cons.mp hmem with h | h
              · exact hxw h
              · exact hxn (i3 x h)
            exact (i1 y).mpr (Or.inl (h4 x hxc this y hy))
          · exact absurd (i4 x hx hxc) hxn
      · exact i5 h5

theorem miss_le (n : Nat) (cl : List Nat) : miss n cl ≤ n := by
  unfold miss
  have := List.length_filter_le (fun i => !cl.contains i) (List.range n)
  simpa using this

/-- characterisation of `closure` -/
theorem closure_spec {n : NFA} (hwf : NFAWF n) (S : List Nat) :
    Ascending (n.closure S) ∧ ∀ t, t ∈ n.closure S ↔ ∃ s ∈ S, EpsReach n s t := by
  have h := closureAux_spec hwf S (n.length + S.length + 1) S (setOfList S)
    (by have := miss_le n.length (setOfList S); omega)
    (fun x hx => mem_setOfList.mpr hx)
    (fun x hx => ⟨x, mem_setOfList.mp hx, .refl x⟩)
    (fun s hs => mem_setOfList.mpr hs)
    (fun x hx hxn => absurd (mem_setOfList.mp hx) hxn)
    (ascending_setOfList S)
  obtain ⟨a1, a2, a3, a4⟩ := h
  refine ⟨a1, fun t => ⟨fun ht => a2 t ht, ?_⟩⟩
  rintro ⟨s, hs, hr⟩
  have hs' : s ∈ n.closure S := a3 s hs
  clear hs
  induction hr with
  | refl => exact hs'
  | step he _ ih => exact ih (a4 _ hs' _ he)

theorem ascending_closure {n : NFA} (hwf : NFAWF n) (S : List Nat) : Ascending (n.closure S) :=
  (closure_spec hwf S).1

theorem mem_closure {n : NFA} (hwf : NFAWF n) {S : List Nat} {t : Nat} :
    t ∈ n.closure S ↔ ∃ s ∈ S, EpsReach n s t := (closure_spec hwf S).2 t

theorem closure_nil (n : NFA) : n.closure [] = [] := by
  simp [NFA.closure, NFA.closureAux, setOfList, setUnion]

theorem closure_ne_nil {n : NFA} (hwf : NFAWF n) {S : List Nat} (h : S ≠ []) : n.closure S ≠ [] := by
  cases S with
  | nil => exact absurd rfl h
  | cons s S =>
    intro he
    have : s ∈ n.closure (s :: S) := (mem_closure hwf).mpr ⟨s, List.mem_cons_self, .refl s⟩
    rw [he] at this; cases this

theorem closure_eq_nil {n : NFA} (hwf : NFAWF n) {S : List Nat} (h : n.closure S = []) : S = [] := by
  by_cases hS : S = []
  · exact hS
  · exact absurd h (closure_ne_nil hwf hS)

end Lexgen.Subset
