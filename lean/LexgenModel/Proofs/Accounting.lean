import LexgenModel.Proofs.NextLocations
import LexgenModel.Proofs.NextMore
/-!
# Accounting: every call of `next()` accounts for a span of the input

`AtPos` refines `Boundary` with explicit character positions. With it:

* `next_accounting_general`: one call of `next()` never moves backwards, a token ends exactly at the new
  position and starts inside the accumulated match, an `InvalidToken` is located at the start of the
  match accumulated *when the failing round began* and consumes a character unless the input is
  exhausted, `None` is returned only at the end of the input;
* `next_accounting_counterexample`: the literal statement `next_accounting` of the task (the error
  is located at the start position *of the call*) is false as soon as a `skip`/`continue` rule that
  resets the match is followed by a failure in the same call;
* `next_accounting_partial`: the literal statement, under `NoResetOnContinue`;
* `runN_spans_ordered`: the index spans of the items of successive calls are disjoint and in input
  order (`Ordered`), `runN_spans_ordered_bytes`: the same, read off the byte offsets of the items.
-/
namespace Lexgen
variable {σ τ ε : Type}

/-- lexer state at a lexeme boundary with explicit positions: `start ≤ pos ≤ |input|`, the iterator is the input from `pos`, the two
match locations are the scan locations of `start` and `pos`, nothing is saved, and once end-of-input has been handled nothing is left -/
def AtPos (width : Nat → Nat) (input : List Nat) (st : LState σ) (start pos : Nat) : Prop :=
  st.last = none ∧ start ≤ pos ∧ pos ≤ input.length ∧ st.iter = input.drop pos ∧
  st.curEnd = locAt width input pos ∧ st.curStart = locAt width input start ∧ (st.done = true → pos = input.length)

/-- No semantic action that continues (returns `Continue`: `res = none`) resets the match, on the views it can be handed. Note that the
wrapper of a `skip` rule (`re,`) does both, so this excludes lexers with `skip` rules. -/
def NoResetOnContinue (cfg : Config σ τ ε) (input : List Nat) : Prop :=
  ∀ a v, ViewOK cfg input v → ((cfg.actions a).run v).res = none → ((cfg.actions a).run v).reset = false

namespace Accounting

open NextLoc (locAt_succ drop_cons_lt)

/-! ## The mid-scan invariant, with positions -/

/-- Lexer state in the middle of a scan: the accumulated match starts at character `start`, this
round of the loop began at character `pos0`, and characters up to `pos` have been read; a saved
match ends between `pos0` and `pos`; `done` is only set at the end of the input. -/
structure Scanning (w : Nat → Nat) (input : List Nat) (start pos0 pos : Nat) (st : LState σ) : Prop where
  le0 : start ≤ pos0
  le1 : pos0 ≤ pos
  le2 : pos ≤ input.length
  iter : st.iter = input.drop pos
  curEnd : st.curEnd = locAt w input pos
  curStart : st.curStart = locAt w input start
  done : st.done = true → pos = input.length
  saved : ∀ sv, st.last = some sv → ∃ p, pos0 ≤ p ∧ p ≤ pos ∧ sv.iter = input.drop p ∧
    sv.stop = locAt w input p ∧ sv.start = locAt w input start

theorem Scanning.mid {w : Nat → Nat} {input : List Nat} {start pos0 pos : Nat} {st : LState σ}
    (h : Scanning w input start pos0 pos st) : NextLoc.Mid w input start pos st := by
  refine ⟨Nat.le_trans h.le0 h.le1, h.le2, h.iter, h.curEnd, h.curStart, ?_⟩
  intro sv hsv
  obtain ⟨p, a, b, c, d, e⟩ := h.saved sv hsv
  exact ⟨p, Nat.le_trans h.le0 a, b, c, d, e⟩

/-- What a round of the loop that began at `pos0` with the match starting at `start` may decide. -/
def OutAcc (w : Nat → Nat) (input : List Nat) (start pos0 : Nat) : Outcome σ → Prop
  | .act _ st' => st'.last = none ∧ ∃ p, Scanning w input start pos0 p st'
  | .err loc st' => loc = locAt w input start ∧ st'.last = none ∧
      ∃ p, pos0 ≤ p ∧ (pos0 < p ∨ pos0 = input.length) ∧ Scanning w input p p p st'
  | .fin st' => st'.last = none ∧ st'.done = true ∧ ∃ p, Scanning w input start pos0 p st'
  | .goto _ => False

theorem scanning_with_iter (w : Nat → Nat) (input : List Nat) (start pos0 pos : Nat) (st : LState σ)
    (it : List Nat) (h : Scanning w input start pos0 pos st) (hit : input.drop pos = it) :
    Scanning w input start pos0 pos { st with iter := it } :=
  ⟨h.le0, h.le1, h.le2, hit.symm, h.curEnd, h.curStart, h.done, h.saved⟩

theorem setAccepting_scanning (cfg : Config σ τ ε) (d : DState Trans) (input : List Nat)
    (start pos0 pos : Nat) (st : LState σ) (h : Scanning cfg.width input start pos0 pos st) :
    Scanning cfg.width input start pos0 pos (setAccepting cfg d st) := by
  unfold setAccepting
  cases firstOK (fun i => ctxOK cfg i st.iter) d.accepting with
  | none => exact h
  | some a =>
    refine ⟨h.le0, h.le1, h.le2, h.iter, h.curEnd, h.curStart, h.done, ?_⟩
    intro sv hsv
    have hsv' : sv = { start := st.curStart, iter := st.iter, action := a, stop := st.curEnd } :=
      (Option.some.inj hsv).symm
    subst hsv'
    exact ⟨pos, h.le1, Nat.le_refl _, h.iter, h.curEnd, h.curStart⟩

theorem drop_nil_len {α : Type} (l : List α) (pos : Nat) (hle : pos ≤ l.length) (h : l.drop pos = []) :
    pos = l.length := by
  have h1 := congrArg List.length h
  rw [List.length_drop] at h1
  simp only [List.length_nil] at h1
  omega

theorem eoiSt_scanning (cfg : Config σ τ ε) (d : DState Trans) (input : List Nat)
    (start pos0 pos : Nat) (st : LState σ) (h : Scanning cfg.width input start pos0 pos st)
    (hd : input.drop pos = []) :
    Scanning cfg.width input start pos0 pos (ScanPlain.eoiSt cfg d st) := by
  have h1 := setAccepting_scanning cfg d input start pos0 pos _ (scanning_with_iter _ _ _ _ _ _ _ h hd)
  exact ⟨h1.le0, h1.le1, h1.le2, h1.iter, h1.curEnd, h1.curStart,
    fun _ => drop_nil_len input pos h.le2 hd, h1.saved⟩

theorem stepSt_scanning (cfg : Config σ τ ε) (d : DState Trans) (input : List Nat)
    (start pos0 pos c : Nat) (rest : List Nat) (st : LState σ)
    (h : Scanning cfg.width input start pos0 pos st) (hd : input.drop pos = c :: rest) :
    Scanning cfg.width input start pos0 (pos + 1) (ScanPlain.stepSt cfg d c rest st) := by
  have h1 := setAccepting_scanning cfg d input start pos0 pos _ (scanning_with_iter _ _ _ _ _ _ _ h hd)
  have hlt := drop_cons_lt _ _ _ _ hd
  refine ⟨h1.le0, Nat.le_succ_of_le h1.le1, hlt, ?_, ?_, h1.curStart, ?_, ?_⟩
  · exact (NextLoc.drop_succ_of_cons _ _ _ _ hd).symm
  · show (setAccepting cfg d { st with iter := c :: rest }).curEnd.advance cfg.width c = _
    rw [h1.curEnd, locAt_succ _ _ _ _ _ hd]
  · intro hdn
    have : pos = input.length := h1.done hdn
    omega
  · intro sv hsv
    obtain ⟨p, b1, b2, b3, b4, b5⟩ := h1.saved sv hsv
    exact ⟨p, b1, Nat.le_succ_of_le b2, b3, b4, b5⟩

theorem failPlain_acc (w : Nat → Nat) (input : List Nat) (start pos0 pos : Nat) (st : LState σ)
    (h : Scanning w input start pos0 pos st) (hprog : pos0 < pos ∨ pos0 = input.length) :
    OutAcc w input start pos0 (failPlain st) := by
  unfold failPlain
  cases hl : st.last with
  | none =>
    refine ⟨h.curStart, rfl, pos, h.le1, hprog, ?_⟩
    exact ⟨Nat.le_refl _, Nat.le_refl _, h.le2, h.iter, h.curEnd, h.curEnd, h.done,
      fun sv hsv => by cases hsv⟩
  | some sv =>
    obtain ⟨p, b1, b2, b3, b4, b5⟩ := h.saved sv hl
    refine ⟨rfl, p, ?_⟩
    exact ⟨h.le0, b1, Nat.le_trans b2 h.le2, b3, b4, b5, (fun hd => by cases hd),
      fun sv hsv => by cases hsv⟩

theorem testRightCtxs_acc (cfg : Config σ τ ε) (input : List Nat) (start pos0 pos : Nat)
    (accs : List Acc) (st : LState σ) (dflt : Unit → Outcome σ)
    (h : Scanning cfg.width input start pos0 pos st)
    (hd : OutAcc cfg.width input start pos0 (dflt ())) :
    OutAcc cfg.width input start pos0 (testRightCtxs cfg accs st dflt) := by
  unfold testRightCtxs
  cases firstOK (fun i => ctxOK cfg i st.iter) accs with
  | none => exact hd
  | some a =>
    refine ⟨rfl, pos, ?_⟩
    exact ⟨h.le0, h.le1, h.le2, h.iter, h.curEnd, h.curStart, h.done, fun sv hsv => by cases hsv⟩

/-! ## The outcome of a scan -/

theorem scanPlain_acc (cfg : Config σ τ ε) (ns : Nat → Option Nat)
    (htargets : targetsOK cfg.dfa = true) (hns : DispatchOK cfg.dfa cfg.inl ns)
    (heoi : ∀ s t, (cfg.dfa.st s).eoi ≠ some (.goto t))
    (h0 : (cfg.dfa.st 0).initial = true ∧ (cfg.dfa.st 0).accepting = [])
    (input : List Nat) (start pos0 : Nat) :
    ∀ (iter : List Nat) (s pos : Nat) (st : LState σ), Scanning cfg.width input start pos0 pos st →
      input.drop pos = iter → (s = 0 → st.last = none) →
      OutAcc cfg.width input start pos0 (scanPlain cfg ns s iter st) := by
  intro iter
  induction iter with
  | nil =>
    intro s pos st hm hd hs0
    rw [ScanPlain.scanPlain_nil]
    have hm' := eoiSt_scanning cfg (cfg.dfa.st s) input start pos0 pos st hm hd
    have hlen : pos = input.length := drop_nil_len input pos hm.le2 hd
    have hdflt : OutAcc cfg.width input start pos0
        (if s = 0 then Outcome.fin (ScanPlain.eoiSt cfg (cfg.dfa.st s) st)
          else failPlain (ScanPlain.eoiSt cfg (cfg.dfa.st s) st)) := by
      by_cases hs : s = 0
      · rw [if_pos hs]
        refine ⟨?_, rfl, pos, hm'⟩
        rw [hs, NextLoc.eoiSt_last_nil cfg _ st h0.2]
        exact hs0 hs
      · rw [if_neg hs]
        have hle := hm.le1
        exact failPlain_acc _ _ _ _ _ _ hm' (by omega)
    cases heo : (cfg.dfa.st s).eoi with
    | none => exact hdflt
    | some tr =>
      cases tr with
      | goto t => exact absurd heo (heoi s t)
      | accept accs => exact testRightCtxs_acc cfg input start pos0 pos accs _ _ hm' hdflt
  | cons c rest ih =>
    intro s pos st hm hd hs0
    rw [ScanPlain.scanPlain_cons]
    have hm' := stepSt_scanning cfg (cfg.dfa.st s) input start pos0 pos c rest st hm hd
    have hle := hm.le1
    have hfail := failPlain_acc _ _ _ _ _ _ hm' (Or.inl (by omega))
    have hd' := NextLoc.drop_succ_of_cons _ _ _ _ hd
    cases hl : lookupTrans (cfg.dfa.st s) c with
    | none => exact hfail
    | some tr =>
      cases tr with
      | accept accs => exact testRightCtxs_acc cfg input start pos0 (pos + 1) accs _ _ hm' hfail
      | goto t =>
        have hmem := NextLoc.lookupTrans_goto_mem _ _ _ hl
        have htlt := ScanPlain.targets_lt cfg.dfa htargets s t hmem
        have htni := NextLoc.targets_noninit cfg.dfa htargets s t hmem
        have ht0 : t ≠ 0 := by
          intro h
          rw [h, h0.1] at htni
          cases htni
        show OutAcc cfg.width input start pos0
          (ScanPlain.gotoK (scanPlain cfg ns) cfg ns rest
            (ScanPlain.stepSt cfg (cfg.dfa.st s) c rest st) t)
        unfold ScanPlain.gotoK
        by_cases hi : inlinedAt cfg.inl t = true
        · rw [if_pos hi]
          exact ih t (pos + 1) _ hm' hd' (fun h => absurd h ht0)
        · have hi' : inlinedAt cfg.inl t = false := by simpa using hi
          rw [if_neg hi]
          simp only [hns t htlt hi']
          refine ih t (pos + 1) _ ?_ hd' (fun h => absurd h ht0)
          exact ⟨hm'.le0, hm'.le1, hm'.le2, hm'.iter, hm'.curEnd, hm'.curStart, hm'.done, hm'.saved⟩

theorem scanning_of_atPos (w : Nat → Nat) (input : List Nat) (st : LState σ) (start pos : Nat)
    (hp : AtPos w input st start pos) : Scanning w input start pos pos st := by
  obtain ⟨hl, h1, h2, h3, h4, h5, h6⟩ := hp
  refine ⟨h1, Nat.le_refl _, h2, h3, h4, h5, h6, ?_⟩
  intro sv hsv
  rw [hl] at hsv
  cases hsv

/-- The state code run at a boundary decides as `OutAcc` says. -/
theorem scan_acc (cfg : Config σ τ ε) (hm : MachineOK cfg) (input : List Nat) (st : LState σ)
    (s start pos : Nat) (hp : AtPos cfg.width input st start pos) :
    OutAcc cfg.width input start pos (scan cfg (dispatch (stateArms cfg.dfa cfg.inl)) s st.iter st) := by
  have hl : st.last = none := hp.1
  have hsc := scanning_of_atPos _ _ _ _ _ hp
  rw [scan_eq_scanPlain cfg _ hm.flags hm.acceptAny hm.targets (NextLoc.dispatchOK cfg hm) s st.iter st
    (by rw [hl]; intro h; cases h)]
  exact scanPlain_acc cfg _ hm.targets (NextLoc.dispatchOK cfg hm) hm.eoiAccept
    ⟨hm.state0.2.1, hm.state0.2.2⟩ input start pos st.iter s pos st hsc hsc.iter.symm (fun _ => hl)

/-! ## Semantic action calls -/

/-- What a semantic action call at position `p`, with the match starting at `start`, may do. -/
def CallAcc (cfg : Config σ τ ε) (input : List Nat) (start p : Nat) : StepOut σ τ ε → Prop
  | .cont st1 => ∃ start1, AtPos cfg.width input st1 start1 p ∧ (start1 = start ∨ start1 = p) ∧
      (NoResetOnContinue cfg input → start1 = start)
  | .ret (some (.tok s _ e)) st1 => AtPos cfg.width input st1 p p ∧
      ∃ i, (i = start ∨ i = p) ∧ s = locAt cfg.width input i ∧ e = locAt cfg.width input p
  | .ret (some (.custom l _)) st1 => AtPos cfg.width input st1 p p ∧
      ∃ i, (i = start ∨ i = p) ∧ l = locAt cfg.width input i
  | .ret (some (.invalid _)) _ => False
  | .ret none _ => False

theorem callAction_acc (cfg : Config σ τ ε) (input : List Nat) (start pos0 p : Nat) (a : Nat)
    (st : LState σ) (hm : Scanning cfg.width input start pos0 p st) (hl : st.last = none) :
    CallAcc cfg input start p (callAction cfg a st) := by
  have key : NoResetOnContinue cfg input →
      ((cfg.actions a).run (mkView cfg a st)).res = none →
      ((cfg.actions a).run (mkView cfg a st)).reset = false :=
    fun h => h a _ (NextLoc.mkView_ok cfg input start p a st hm.mid)
  have h1 : start ≤ p := Nat.le_trans hm.le0 hm.le1
  have h2 := hm.le2
  have h3 := hm.iter
  have h4 := hm.curEnd
  have h5 := hm.curStart
  have h6 := hm.done
  have hpp : p ≤ p := Nat.le_refl _
  unfold callAction
  revert key
  generalize (cfg.actions a).run (mkView cfg a st) = eff
  intro key
  obtain ⟨u, reset, sw, res⟩ := eff
  cases reset <;> cases sw <;> rcases res with _ | (e | t)
  all_goals first
    | exact ⟨start, ⟨hl, h1, h2, h3, h4, h5, h6⟩, Or.inl rfl, fun _ => rfl⟩
    | exact ⟨p, ⟨hl, hpp, h2, h3, h4, h4, h6⟩, Or.inr rfl,
        fun h => by have h' : true = false := key h rfl; cases h'⟩
    | exact ⟨⟨hl, hpp, h2, h3, h4, h4, h6⟩, start, Or.inl rfl, h5, h4⟩
    | exact ⟨⟨hl, hpp, h2, h3, h4, h4, h6⟩, p, Or.inr rfl, h4, h4⟩
    | exact ⟨⟨hl, hpp, h2, h3, h4, h4, h6⟩, start, Or.inl rfl, h5⟩
    | exact ⟨⟨hl, hpp, h2, h3, h4, h4, h6⟩, p, Or.inr rfl, h4⟩

/-! ## One round of the loop -/

/-- What the item returned by a call that began at `(start, pos)` and ended at `(start', pos')` says. -/
def ItemAcc (cfg : Config σ τ ε) (input : List Nat) (start pos start' pos' : Nat) (st' : LState σ) :
    Option (Item τ ε) → Prop
  | some (.tok s _ e) => ∃ i, start ≤ i ∧ i ≤ pos' ∧ (i = start ∨ pos ≤ i) ∧
      s = locAt cfg.width input i ∧ e = locAt cfg.width input pos' ∧ start' = pos'
  | some (.invalid l) => ∃ i, start ≤ i ∧ i ≤ pos' ∧ (i = start ∨ pos ≤ i) ∧
      (NoResetOnContinue cfg input → i = start) ∧ (i < pos' ∨ i = input.length) ∧
      l = locAt cfg.width input i ∧ start' = pos' ∧ (pos < pos' ∨ pos = input.length)
  | some (.custom l _) => ∃ i, start ≤ i ∧ i ≤ pos' ∧ (i = start ∨ pos ≤ i) ∧
      l = locAt cfg.width input i ∧ start' = pos'
  | none => st'.done = true ∧ pos' = input.length

def Acct (cfg : Config σ τ ε) (input : List Nat) (start pos : Nat) (item : Option (Item τ ε))
    (st' : LState σ) : Prop :=
  ∃ start' pos', AtPos cfg.width input st' start' pos' ∧ pos ≤ pos' ∧ start ≤ start' ∧
    ItemAcc cfg input start pos start' pos' st' item

def RoundAcc (cfg : Config σ τ ε) (input : List Nat) (start pos : Nat) : StepOut σ τ ε → Prop
  | .ret item st' => Acct cfg input start pos item st'
  | .cont st1 => ∃ start1 pos1, AtPos cfg.width input st1 start1 pos1 ∧ pos ≤ pos1 ∧ start ≤ start1 ∧
      (start1 = start ∨ pos ≤ start1) ∧ (NoResetOnContinue cfg input → start1 = start)

theorem finish_acc (cfg : Config σ τ ε) (input : List Nat) (start pos : Nat) (hsp0 : start ≤ pos)
    (o : Outcome σ) (ho : OutAcc cfg.width input start pos o) : RoundAcc cfg input start pos (finish cfg o) := by
  cases o with
  | act a st1 =>
    obtain ⟨hl, p, hsc⟩ := ho
    have hc := callAction_acc cfg input start pos p a st1 hsc hl
    have hsp := hsc.le0
    have hpp := hsc.le1
    show RoundAcc cfg input start pos (callAction cfg a st1)
    cases hx : callAction cfg a st1 with
    | cont st2 =>
      rw [hx] at hc
      obtain ⟨start1, hat, hor, hnr⟩ := hc
      refine ⟨start1, p, hat, hpp, ?_, ?_, hnr⟩
      · rcases hor with h | h <;> omega
      · rcases hor with h | h
        · exact Or.inl h
        · exact Or.inr (by omega)
    | ret item st2 =>
      rw [hx] at hc
      cases item with
      | none => exact hc.elim
      | some it =>
        cases it with
        | invalid l => exact hc.elim
        | tok s t e =>
          obtain ⟨hat, i, hor, hs, he⟩ := hc
          refine ⟨p, p, hat, hpp, by omega, i, ?_, ?_, ?_, hs, he, rfl⟩
          · rcases hor with h | h <;> omega
          · rcases hor with h | h <;> omega
          · rcases hor with h | h
            · exact Or.inl h
            · exact Or.inr (by omega)
        | custom l e =>
          obtain ⟨hat, i, hor, hs⟩ := hc
          refine ⟨p, p, hat, hpp, by omega, i, ?_, ?_, ?_, hs, rfl⟩
          · rcases hor with h | h <;> omega
          · rcases hor with h | h <;> omega
          · rcases hor with h | h
            · exact Or.inl h
            · exact Or.inr (by omega)
  | err loc st1 =>
    obtain ⟨hloc, hl, p, hpp, hprog, hsc⟩ := ho
    have h2 := hsc.le2
    refine ⟨p, p, ⟨hl, Nat.le_refl _, hsc.le2, hsc.iter, hsc.curEnd, hsc.curStart, hsc.done⟩, hpp,
      by omega, ?_⟩
    exact ⟨start, Nat.le_refl _, by omega, Or.inl rfl, fun _ => rfl, by omega, hloc, rfl, hprog⟩
  | fin st1 =>
    obtain ⟨hl, hdone, p, hsc⟩ := ho
    exact ⟨start, p, ⟨hl, Nat.le_trans hsc.le0 hsc.le1, hsc.le2, hsc.iter, hsc.curEnd, hsc.curStart, hsc.done⟩,
      hsc.le1, Nat.le_refl _, hdone, hsc.done hdone⟩
  | goto st1 => exact ho.elim


theorem execState_acc (cfg : Config σ τ ε) (hm : MachineOK cfg) (input : List Nat) (st : LState σ)
    (s start pos : Nat) (hp : AtPos cfg.width input st start pos) :
    RoundAcc cfg input start pos (execState cfg (dispatch (stateArms cfg.dfa cfg.inl)) s st.iter st) :=
  finish_acc cfg input start pos hp.2.1 _ (scan_acc cfg hm input st s start pos hp)

/-- a `continue` round followed by the rest of the call -/
theorem acct_trans (cfg : Config σ τ ε) (input : List Nat) (start pos start1 pos1 : Nat)
    (item : Option (Item τ ε)) (st' : LState σ)
    (h1 : pos ≤ pos1) (h2 : start ≤ start1) (h3 : start1 = start ∨ pos ≤ start1)
    (h4 : NoResetOnContinue cfg input → start1 = start)
    (h : Acct cfg input start1 pos1 item st') : Acct cfg input start pos item st' := by
  obtain ⟨start', pos', hat, a1, a2, hit⟩ := h
  have hlen : pos' ≤ input.length := hat.2.2.1
  refine ⟨start', pos', hat, by omega, by omega, ?_⟩
  cases item with
  | none => exact hit
  | some it =>
    cases it with
    | tok s t e =>
      obtain ⟨i, b1, b2, b3, b4, b5, b6⟩ := hit
      refine ⟨i, by omega, b2, ?_, b4, b5, b6⟩
      rcases b3 with b3 | b3
      · rcases h3 with h3 | h3
        · exact Or.inl (by omega)
        · exact Or.inr (by omega)
      · exact Or.inr (by omega)
    | custom l e =>
      obtain ⟨i, b1, b2, b3, b4, b5⟩ := hit
      refine ⟨i, by omega, b2, ?_, b4, b5⟩
      rcases b3 with b3 | b3
      · rcases h3 with h3 | h3
        · exact Or.inl (by omega)
        · exact Or.inr (by omega)
      · exact Or.inr (by omega)
    | invalid l =>
      obtain ⟨i, b1, b2, b3, b4, b5, b6, b7, b8⟩ := hit
      refine ⟨i, by omega, b2, ?_, ?_, b5, b6, b7, by omega⟩
      · rcases b3 with b3 | b3
        · rcases h3 with h3 | h3
          · exact Or.inl (by omega)
          · exact Or.inr (by omega)
        · exact Or.inr (by omega)
      · intro hn
        rw [b4 hn, h4 hn]

theorem nextLoop_acc (cfg : Config σ τ ε) (hm : MachineOK cfg) (input : List Nat) :
    ∀ (fuel : Nat) (st : LState σ) (start pos : Nat), AtPos cfg.width input st start pos →
      ∀ (item : Option (Item τ ε)) (st' : LState σ), nextLoop cfg fuel st = some (item, st') →
        Acct cfg input start pos item st' := by
  intro fuel
  induction fuel with
  | zero =>
    intro st start pos _ item st' h
    simp [nextLoop] at h
  | succ n ih =>
    intro st start pos hp item st' h
    rw [nextLoop] at h
    by_cases hd : st.done = true
    · simp only [hd, if_true, Option.some.injEq, Prod.mk.injEq] at h
      obtain ⟨h1, h2⟩ := h
      subst h1 h2
      exact ⟨start, pos, hp, Nat.le_refl _, Nat.le_refl _, hd, hp.2.2.2.2.2.2 hd⟩
    · simp only [hd, Bool.false_eq_true, if_false] at h
      cases hdisp : dispatch (stateArms cfg.dfa cfg.inl) st.state with
      | none => simp [hdisp] at h
      | some s =>
        simp only [hdisp] at h
        have hstep := execState_acc cfg hm input st s start pos hp
        cases hex : execState cfg (dispatch (stateArms cfg.dfa cfg.inl)) s st.iter st with
        | ret item1 st1 =>
          rw [hex] at h hstep
          simp only [Option.some.injEq, Prod.mk.injEq] at h
          obtain ⟨h1, h2⟩ := h
          subst h1 h2
          exact hstep
        | cont st1 =>
          rw [hex] at h hstep
          obtain ⟨start1, pos1, hat1, c1, c2, c3, c4⟩ := hstep
          exact acct_trans cfg input start pos start1 pos1 item st' c1 c2 c3 c4
            (ih st1 start1 pos1 hat1 item st' h)

end Accounting

open Accounting

/-- a freshly constructed lexer is at position 0 -/
theorem initState_atPos (width : Nat → Nat) (user : σ) (input : List Nat) : AtPos width input (initState user input) 0 0 :=
  ⟨rfl, Nat.le_refl _, Nat.zero_le _, rfl, rfl, rfl, fun h => by cases h⟩

/-- **Accounting** (corrected statement, no extra hypothesis). One call of `next()` on a well-formed machine from a boundary
state: the input position never moves backwards; a token's span starts inside the accumulated match (at its start `start`, or at a later
position `≥ pos` where an action reset it) and ends exactly at the new position; an `InvalidToken` is located at the start `i` of the match
accumulated when the failing round of the loop began — `i = start` unless an earlier `continue` round of the same call reset the match, in
which case `pos ≤ i` — it covers at least one character unless the input is exhausted, and the call consumes at least one character unless the
input is exhausted; after a returned item the match is empty (`start' = pos'`); `None` is returned only once everything has been consumed and
end-of-input handled. (`hr` is not needed for this; it is kept for uniformity with the task statement.) -/
theorem next_accounting_general (cfg : Config σ τ ε) (hm : MachineOK cfg) (input : List Nat) (st : LState σ) (start pos : Nat)
    (hp : AtPos cfg.width input st start pos) (_hr : Ready cfg st)
    (item : Option (Item τ ε)) (st' : LState σ) (h : next cfg st = some (item, st')) :
    ∃ start' pos', AtPos cfg.width input st' start' pos' ∧ pos ≤ pos' ∧ start ≤ start' ∧
      match item with
      | some (.tok s _ e) => ∃ i, start ≤ i ∧ i ≤ pos' ∧ (i = start ∨ pos ≤ i) ∧
          s = locAt cfg.width input i ∧ e = locAt cfg.width input pos' ∧ start' = pos'
      | some (.invalid l) => ∃ i, start ≤ i ∧ i ≤ pos' ∧ (i = start ∨ pos ≤ i) ∧ (NoResetOnContinue cfg input → i = start) ∧
          (i < pos' ∨ i = input.length) ∧ l = locAt cfg.width input i ∧ start' = pos' ∧ (pos < pos' ∨ pos = input.length)
      | some (.custom l _) => ∃ i, start ≤ i ∧ i ≤ pos' ∧ (i = start ∨ pos ≤ i) ∧ l = locAt cfg.width input i ∧ start' = pos'
      | none => st'.done = true ∧ pos' = input.length := by
  obtain ⟨start', pos', hat, h1, h2, hit⟩ := nextLoop_acc cfg hm input _ st start pos hp item st' h
  refine ⟨start', pos', hat, h1, h2, ?_⟩
  cases item with
  | none => exact hit
  | some it => cases it <;> exact hit

/-- **Accounting**, the task statement verbatim, under the extra hypothesis `NoResetOnContinue` (without it the `InvalidToken` clause is
false: `next_accounting_counterexample`). -/
theorem next_accounting_partial (cfg : Config σ τ ε) (hm : MachineOK cfg) (input : List Nat) (st : LState σ) (start pos : Nat)
    (hp : AtPos cfg.width input st start pos) (hr : Ready cfg st)
    (hnr : NoResetOnContinue cfg input)
    (item : Option (Item τ ε)) (st' : LState σ) (h : next cfg st = some (item, st')) :
    ∃ start' pos', AtPos cfg.width input st' start' pos' ∧ pos ≤ pos' ∧ start ≤ start' ∧
      match item with
      | some (.tok s _ e) => ∃ i, start ≤ i ∧ i ≤ pos' ∧ s = locAt cfg.width input i ∧ e = locAt cfg.width input pos' ∧ start' = pos'
      | some (.invalid l) => l = locAt cfg.width input start ∧ start' = pos' ∧ (pos < pos' ∨ pos = input.length)
      | some (.custom l _) => ∃ i, start ≤ i ∧ i ≤ pos' ∧ l = locAt cfg.width input i ∧ start' = pos'
      | none => st'.done = true ∧ pos' = input.length := by
  obtain ⟨start', pos', hat, h1, h2, hit⟩ := next_accounting_general cfg hm input st start pos hp hr item st' h
  refine ⟨start', pos', hat, h1, h2, ?_⟩
  cases item with
  | none => exact hit
  | some it =>
    cases it with
    | tok s t e =>
      obtain ⟨i, b1, b2, _, b4, b5, b6⟩ := hit
      exact ⟨i, b1, b2, b4, b5, b6⟩
    | custom l e =>
      obtain ⟨i, b1, b2, _, b4, b5⟩ := hit
      exact ⟨i, b1, b2, b4, b5⟩
    | invalid l =>
      obtain ⟨i, _, _, _, b4, _, b6, b7, b8⟩ := hit
      refine ⟨?_, b7, b8⟩
      rw [b6, b4 hnr]

/-! ## The literal task statement is false -/

namespace Accounting

/-- one state: `' '` is matched by rule 0 -/
def cexDfa : DFA Trans := [{ initial := true, chars := [(32, .accept [⟨0, none⟩])] }]

/-- the lexer `rule Init { ' ', }` (rule 0 is a `skip` rule: its wrapper resets the match and continues) -/
def cexCfg : Config Unit Unit Unit :=
  { dfa := cexDfa, ctxs := [], entries := [], inl := [], actions := fun _ => .skip, width := fun _ => 1, input := none }

theorem cex_machineOK : MachineOK cexCfg where
  flags := by decide
  acceptAny := by decide
  targets := by decide
  inl := ⟨List.Pairwise.nil, fun i hi => by cases hi⟩
  state0 := ⟨by decide, rfl, rfl⟩
  entries := fun p hp => by cases hp
  eoiAccept := by
    intro s t h
    cases s with
    | zero => cases h
    | succ n => cases h

theorem cex_ready : Ready cexCfg (initState () [32, 98]) :=
  ⟨rfl, rfl, 0, Or.inl rfl, rfl⟩

theorem cex_next : (next cexCfg (initState () [32, 98])).map (·.1) = some (some (.invalid ⟨0, 1, 1⟩)) := by
  decide

end Accounting

/-- **The task statement `next_accounting` is false.** Lexer `rule Init { ' ', }` on the input `" b"`, fresh state (`start = pos = 0`):
the first round of the loop matches `' '`, the skip wrapper resets the match (`curStart := curEnd`, character 1) and continues; the second
round fails on `'b'` and reports `InvalidToken` at `curStart` = location of character 1 (`byte = 1`), whereas the statement demands the
location of `start = 0` (`byte = 0`). -/
theorem next_accounting_counterexample :
    ¬ (∀ (cfg : Config Unit Unit Unit) (_ : MachineOK cfg) (input : List Nat) (st : LState Unit) (start pos : Nat)
        (_ : AtPos cfg.width input st start pos) (_ : Ready cfg st)
        (item : Option (Item Unit Unit)) (st' : LState Unit) (_ : next cfg st = some (item, st')),
        ∃ start' pos', AtPos cfg.width input st' start' pos' ∧ pos ≤ pos' ∧ start ≤ start' ∧
          match item with
          | some (.tok s _ e) => ∃ i, start ≤ i ∧ i ≤ pos' ∧ s = locAt cfg.width input i ∧ e = locAt cfg.width input pos' ∧ start' = pos'
          | some (.invalid l) => l = locAt cfg.width input start ∧ start' = pos' ∧ (pos < pos' ∨ pos = input.length)
          | some (.custom l _) => ∃ i, start ≤ i ∧ i ≤ pos' ∧ l = locAt cfg.width input i ∧ start' = pos'
          | none => st'.done = true ∧ pos' = input.length) := by
  intro hall
  have hn := cex_next
  cases hx : next cexCfg (initState () [32, 98]) with
  | none => rw [hx] at hn; cases hn
  | some r =>
    obtain ⟨item, st'⟩ := r
    rw [hx] at hn
    have hitem : item = some (.invalid ⟨0, 1, 1⟩) := Option.some.inj hn
    subst hitem
    obtain ⟨start', pos', _, _, _, hl, _⟩ :=
      hall cexCfg cex_machineOK [32, 98] (initState () [32, 98]) 0 0 (initState_atPos _ _ _) cex_ready _ st' hx
    exact absurd hl (by decide)

/-! ## Successive calls: spans are disjoint and in input order -/

/-- `ItemSpan w input it i j`: the item `it` was produced for the character index span `[i, j)` of the input — `i` is where the item is
located (start of a token, position of an error), `j` is the position reached by the call that returned it (end of a token); an
`InvalidToken` span is non-empty unless the input was exhausted -/
def ItemSpan (w : Nat → Nat) (input : List Nat) : Item τ ε → Nat → Nat → Prop
  | .tok s _ e, i, j => s = locAt w input i ∧ e = locAt w input j
  | .invalid l, i, j => l = locAt w input i ∧ (i < j ∨ i = input.length)
  | .custom l _, i, _ => l = locAt w input i

/-- `Ordered w input p results q`: `results` are the results of successive calls of `next()`, the first of them made with the lexer at
character position `p` of the input, the last of them leaving it at position `q`. No call is stuck (`none`); every returned item has an index span
`[i, j)` with `p ≤ i ≤ j ≤ |input|`, i.e. it begins at or after the position `p` where the previous call ended, and the remaining results
are ordered from the position `j` where this call ended — so the spans of successive items are disjoint and in input order; `None` is only
returned with the whole input consumed (`q = |input|`), and only `None`s follow it. -/
def Ordered (w : Nat → Nat) (input : List Nat) : Nat → List (Option (Option (Item τ ε))) → Nat → Prop
  | p, [], q => p = q ∧ q ≤ input.length
  | _, none :: _, _ => False
  | p, some none :: rest, q => p ≤ input.length ∧ q = input.length ∧ ∀ x ∈ rest, x = some none
  | p, some (some it) :: rest, q => ∃ i j, p ≤ i ∧ i ≤ j ∧ j ≤ input.length ∧ ItemSpan w input it i j ∧ Ordered w input j rest q

/-- the items (tokens and errors) among the results of successive calls -/
def itemsOf (l : List (Option (Option (Item τ ε)))) : List (Item τ ε) :=
  l.filterMap fun x => match x with | some (some it) => some it | _ => none

/-- byte offsets (start, end) of an item; an error has an empty byte span at its location -/
def Item.byteSpan : Item τ ε → Nat × Nat
  | .tok s _ e => (s.byte, e.byte)
  | .invalid l => (l.byte, l.byte)
  | .custom l _ => (l.byte, l.byte)

namespace Accounting

/-! ### Byte offsets determine indices -/

theorem sum_take_mono (input : List Nat) : ∀ (i j : Nat), i ≤ j →
    ((input.take i).map utf8Len).sum ≤ ((input.take j).map utf8Len).sum := by
  induction input with
  | nil => intro i j _; simp
  | cons c rest ih =>
    intro i j hij
    cases i with
    | zero => simp
    | succ i' =>
      cases j with
      | zero => omega
      | succ j' =>
        simp only [List.take_succ_cons, List.map_cons, List.sum_cons]
        have := ih i' j' (by omega)
        omega

theorem sum_take_strict (input : List Nat) : ∀ (i j : Nat), i < j → j ≤ input.length →
    ((input.take i).map utf8Len).sum < ((input.take j).map utf8Len).sum := by
  induction input with
  | nil => intro i j hij hj; simp at hj; omega
  | cons c rest ih =>
    intro i j hij hj
    cases j with
    | zero => omega
    | succ j' =>
      have hj' : j' ≤ rest.length := by simpa using hj
      cases i with
      | zero =>
        simp only [List.take_succ_cons, List.map_cons, List.sum_cons, List.take_zero, List.map_nil, List.sum_nil]
        have := NextLoc.utf8Len_pos c
        omega
      | succ i' =>
        simp only [List.take_succ_cons, List.map_cons, List.sum_cons]
        have := ih i' j' (by omega) hj'
        omega

end Accounting

/-- byte offsets grow with the character index -/
theorem locAt_byte_mono (w : Nat → Nat) (input : List Nat) (i j : Nat) (h : i ≤ j) :
    (locAt w input i).byte ≤ (locAt w input j).byte := by
  rw [NextLoc.locAt_byte, NextLoc.locAt_byte]
  exact Accounting.sum_take_mono input i j h

/-- byte offsets grow strictly with the character index (every character has `utf8Len ≥ 1`) -/
theorem locAt_byte_strictMono (w : Nat → Nat) (input : List Nat) (i j : Nat) (h : i < j) (hj : j ≤ input.length) :
    (locAt w input i).byte < (locAt w input j).byte := by
  rw [NextLoc.locAt_byte, NextLoc.locAt_byte]
  exact Accounting.sum_take_strict input i j h hj

/-- a character index (`≤ |input|`) is determined by its location: the index spans in `Ordered` are those of the reported locations -/
theorem locAt_inj (w : Nat → Nat) (input : List Nat) (i j : Nat) (hi : i ≤ input.length) (hj : j ≤ input.length)
    (h : locAt w input i = locAt w input j) : i = j := by
  rcases Nat.lt_trichotomy i j with hlt | heq | hgt
  · have := locAt_byte_strictMono w input i j hlt hj
    rw [h] at this
    omega
  · exact heq
  · have := locAt_byte_strictMono w input j i hgt hi
    rw [h] at this
    omega

namespace Accounting

/-! ### `runN` -/

theorem runN_done (cfg : Config σ τ ε) : ∀ (n : Nat) (st : LState σ), st.done = true →
    runN cfg n st = (List.replicate n (some none), st) := by
  intro n
  induction n with
  | zero => intro st _; rfl
  | succ n ih =>
    intro st hd
    rw [NextMore.runN_succ_some cfg n st none st (next_done cfg st hd), ih st hd]
    rfl

theorem ordered_bounds (w : Nat → Nat) (input : List Nat) :
    ∀ (l : List (Option (Option (Item τ ε)))) (p q : Nat), Ordered w input p l q → p ≤ q ∧ q ≤ input.length := by
  intro l
  induction l with
  | nil =>
    intro p q h
    obtain ⟨h1, h2⟩ := h
    exact ⟨by omega, h2⟩
  | cons x rest ih =>
    intro p q h
    cases x with
    | none => exact h.elim
    | some y =>
      cases y with
      | none =>
        obtain ⟨h1, h2, _⟩ := h
        exact ⟨by omega, by omega⟩
      | some it =>
        obtain ⟨i, j, h1, h2, h3, _, h5⟩ := h
        have := ih j q h5
        exact ⟨by omega, this.2⟩

theorem runN_ordered_from (cfg : Config σ τ ε) (hm : MachineOK cfg) (input : List Nat) :
    ∀ (n : Nat) (st : LState σ) (p : Nat), AtPos cfg.width input st p p → Ready cfg st →
      ∃ start' q, AtPos cfg.width input (runN cfg n st).2 start' q ∧ Ordered cfg.width input p (runN cfg n st).1 q := by
  intro n
  induction n with
  | zero =>
    intro st p hp _
    exact ⟨p, p, hp, rfl, hp.2.2.1⟩
  | succ n ih =>
    intro st p hp hr
    obtain ⟨r, hn⟩ := next_total cfg hm st hr
    obtain ⟨item, st1⟩ := r
    have hr1 := next_ready cfg hm st hr item st1 hn
    obtain ⟨start', pos', hat, h1, h2, hit⟩ := next_accounting_general cfg hm input st p p hp hr item st1 hn
    have hlen : pos' ≤ input.length := hat.2.2.1
    rw [NextMore.runN_succ_some cfg n st item st1 hn]
    cases item with
    | none =>
      obtain ⟨hd, hq⟩ := hit
      rw [runN_done cfg n st1 hd]
      refine ⟨start', pos', hat, ?_⟩
      refine ⟨hp.2.2.1, hq, ?_⟩
      intro x hx
      exact (List.mem_replicate.1 hx).2
    | some it =>
      cases it with
      | tok s t e =>
        obtain ⟨i, b1, b2, _, b4, b5, b6⟩ := hit
        subst b6
        obtain ⟨s2, q, hat2, hord⟩ := ih st1 start' hat hr1
        exact ⟨s2, q, hat2, i, start', b1, b2, hlen, ⟨b4, b5⟩, hord⟩
      | custom l e =>
        obtain ⟨i, b1, b2, _, b4, b6⟩ := hit
        subst b6
        obtain ⟨s2, q, hat2, hord⟩ := ih st1 start' hat hr1
        exact ⟨s2, q, hat2, i, start', b1, b2, hlen, b4, hord⟩
      | invalid l =>
        obtain ⟨i, b1, b2, _, _, b5, b4, b6, _⟩ := hit
        subst b6
        obtain ⟨s2, q, hat2, hord⟩ := ih st1 start' hat hr1
        exact ⟨s2, q, hat2, i, start', b1, b2, hlen, ⟨b4, b5⟩, hord⟩

theorem initState_ready (cfg : Config σ τ ε) (user : σ) (input : List Nat) : Ready cfg (initState user input) :=
  ⟨rfl, rfl, 0, Or.inl rfl, (NextProtocol.renumber_zero _).symm⟩

theorem ordered_eof (w : Nat → Nat) (input : List Nat) :
    ∀ (l : List (Option (Option (Item τ ε)))) (p q : Nat), Ordered w input p l q → some none ∈ l → q = input.length := by
  intro l
  induction l with
  | nil => intro p q _ hmem; cases hmem
  | cons x rest ih =>
    intro p q h hmem
    cases x with
    | none => exact h.elim
    | some y =>
      cases y with
      | none => exact h.2.1
      | some it =>
        obtain ⟨i, j, _, _, _, _, h5⟩ := h
        rcases List.mem_cons.1 hmem with hx | hx
        · cases hx
        · exact ih j q h5 hx

theorem itemsOf_eof (l : List (Option (Option (Item τ ε)))) (h : ∀ x ∈ l, x = some none) : itemsOf l = [] := by
  induction l with
  | nil => rfl
  | cons x rest ih =>
    have hx := h x (List.mem_cons_self ..)
    subst hx
    show itemsOf rest = []
    exact ih (fun y hy => h y (List.mem_cons_of_mem _ hy))

theorem itemSpan_bytes (w : Nat → Nat) (input : List Nat) (it : Item τ ε) (i j : Nat) (hij : i ≤ j)
    (h : ItemSpan w input it i j) :
    it.byteSpan.1 = (locAt w input i).byte ∧ it.byteSpan.1 ≤ it.byteSpan.2 ∧ it.byteSpan.2 ≤ (locAt w input j).byte := by
  have hmono := locAt_byte_mono w input i j hij
  cases it with
  | tok s t e =>
    obtain ⟨h1, h2⟩ := h
    subst h1 h2
    exact ⟨rfl, hmono, Nat.le_refl _⟩
  | invalid l =>
    obtain ⟨h1, _⟩ := h
    subst h1
    exact ⟨rfl, Nat.le_refl _, hmono⟩
  | custom l e =>
    have h1 : l = locAt w input i := h
    subst h1
    exact ⟨rfl, Nat.le_refl _, hmono⟩

theorem ordered_bytes (w : Nat → Nat) (input : List Nat) :
    ∀ (l : List (Option (Option (Item τ ε)))) (p q : Nat), Ordered w input p l q →
      (∀ a ∈ itemsOf l, (locAt w input p).byte ≤ a.byteSpan.1 ∧ a.byteSpan.1 ≤ a.byteSpan.2) ∧
      (itemsOf l).Pairwise (fun a b => a.byteSpan.2 ≤ b.byteSpan.1) := by
  intro l
  induction l with
  | nil =>
    intro p q _
    exact ⟨fun a ha => (by cases ha), List.Pairwise.nil⟩
  | cons x rest ih =>
    intro p q h
    cases x with
    | none => exact h.elim
    | some y =>
      cases y with
      | none =>
        have he : itemsOf (some none :: rest) = [] := itemsOf_eof _ (by
          intro z hz
          rcases List.mem_cons.1 hz with hz | hz
          · exact hz
          · exact h.2.2 z hz)
        rw [he]
        exact ⟨fun a ha => (by cases ha), List.Pairwise.nil⟩
      | some it =>
        obtain ⟨i, j, h1, h2, h3, h4, h5⟩ := h
        obtain ⟨ih1, ih2⟩ := ih j q h5
        obtain ⟨s1, s2, s3⟩ := itemSpan_bytes w input it i j h2 h4
        have hpi := locAt_byte_mono w input p i h1
        have hpj := locAt_byte_mono w input p j (by omega)
        have hcons : itemsOf (some (some it) :: rest) = it :: itemsOf rest := rfl
        rw [hcons]
        constructor
        · intro a ha
          rcases List.mem_cons.1 ha with ha | ha
          · subst ha
            exact ⟨by omega, s2⟩
          · have := ih1 a ha
            exact ⟨by omega, this.2⟩
        · refine List.Pairwise.cons ?_ ih2
          intro b hb
          have := (ih1 b hb).1
          omega

end Accounting

open Accounting

/-- Over any number of calls from a boundary state with an empty accumulated match at position `p`: the results are `Ordered` from `p`
up to the position `q` of the final state. -/
theorem runN_spans_ordered_from (cfg : Config σ τ ε) (hm : MachineOK cfg) (input : List Nat) (st : LState σ) (p : Nat)
    (hp : AtPos cfg.width input st p p) (hr : Ready cfg st) (n : Nat) :
    ∃ start q, AtPos cfg.width input (runN cfg n st).2 start q ∧ Ordered cfg.width input p (runN cfg n st).1 q ∧
      (some none ∈ (runN cfg n st).1 → q = input.length) := by
  obtain ⟨start, q, hat, hord⟩ := runN_ordered_from cfg hm input n st p hp hr
  exact ⟨start, q, hat, hord, ordered_eof _ _ _ _ _ hord⟩

/-- **Spans of successive items are disjoint and in input order.** Over any number `n` of calls of `next()` from a fresh lexer, the list of
results is `Ordered` from position `0` to the position `q` of the final lexer state: no call is stuck; every returned token/error has a
character index span `[i, j)` (`ItemSpan`: its locations are the scan locations of `i` and `j`; by `locAt_inj` these indices are determined by
the locations) that starts at or after the end `j'` of the span of the previous item and ends at the position its call reached, so
`0 ≤ i₁ ≤ j₁ ≤ i₂ ≤ j₂ ≤ … ≤ q ≤ |input|`; once `None` has been returned only `None`s follow; and if some call returned `None` the whole
input was consumed (`q = |input|`). -/
theorem runN_spans_ordered (cfg : Config σ τ ε) (hm : MachineOK cfg) (user : σ) (input : List Nat) (n : Nat) :
    ∃ start q, AtPos cfg.width input (runN cfg n (initState user input)).2 start q ∧
      Ordered cfg.width input 0 (runN cfg n (initState user input)).1 q ∧
      (some none ∈ (runN cfg n (initState user input)).1 → q = input.length) :=
  runN_spans_ordered_from cfg hm input (initState user input) 0 (initState_atPos _ _ _) (initState_ready cfg user input) n

/-- The same, read off the reported byte offsets alone: among the items returned by `n` calls from a fresh lexer, each item's byte span is
well-formed and ends at or before the start of every later item's. -/
theorem runN_spans_ordered_bytes (cfg : Config σ τ ε) (hm : MachineOK cfg) (user : σ) (input : List Nat) (n : Nat) :
    (∀ a ∈ itemsOf (runN cfg n (initState user input)).1, a.byteSpan.1 ≤ a.byteSpan.2) ∧
    (itemsOf (runN cfg n (initState user input)).1).Pairwise (fun a b => a.byteSpan.2 ≤ b.byteSpan.1) := by
  obtain ⟨_, q, _, hord, _⟩ := runN_spans_ordered cfg hm user input n
  obtain ⟨h1, h2⟩ := ordered_bytes _ _ _ _ _ hord
  exact ⟨fun a ha => (h1 a ha).2, h2⟩

end Lexgen
