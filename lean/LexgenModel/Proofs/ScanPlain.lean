import LexgenModel.Spec.Scan
/-!
# `scan` (with backtrack elision and `Accept`-arm fall-through) equals `scanPlain`

Under the flag-closure, accept/any and target checks of `machineWF` and a correct dispatch, the
generated state code behaves as the plain DFA run with a saved last match.
-/
namespace Lexgen

variable {σ τ ε : Type}

namespace ScanPlain

/-! ## Table lookups find table entries -/

theorem lookupChar_mem {α : Type} (l : List (Nat × α)) (c : Nat) (t : α)
    (h : lookupChar l c = some t) : t ∈ l.map (·.2) := by
  induction l with
  | nil => simp [lookupChar] at h
  | cons e rest ih =>
    obtain ⟨k, v⟩ := e
    simp only [lookupChar] at h
    by_cases hk : k = c
    · simp only [hk, if_true, Option.some.injEq] at h
      simp [h]
    · simp only [hk, if_false] at h
      simp [ih h]

theorem rangeLookup_mem {α : Type} (m : RangeMap α) (c : Nat) (t : α)
    (h : RangeMap.lookup m c = some t) : t ∈ m.map (·.2.2) := by
  induction m with
  | nil => simp [RangeMap.lookup] at h
  | cons e rest ih =>
    obtain ⟨s, e, v⟩ := e
    simp only [RangeMap.lookup] at h
    by_cases hk : s ≤ c ∧ c ≤ e
    · simp only [hk, and_self, if_true, Option.some.injEq] at h
      simp [h]
    · simp only [hk, if_false] at h
      simp [ih h]

/-! ## `DFA.st` is a member or the empty state -/

theorem st_mem_or_empty {α : Type} (d : DFA α) (s : Nat) : d.st s ∈ d ∨ d.st s = DState.empty := by
  by_cases hs : s < d.length
  · left
    have : d.st s = d[s] := by simp [DFA.st, List.getD, hs]
    rw [this]
    exact List.getElem_mem hs
  · right
    simp [DFA.st, List.getD, Nat.le_of_not_lt hs]

theorem gotoSuccs_empty : gotoSuccs (DState.empty : DState Trans) = [] := by
  simp [gotoSuccs, DFA.succs, DState.empty]

theorem goto_mem_gotoSuccs (d : DState Trans) (t : Nat) (h : Trans.goto t ∈ DFA.succs d) :
    t ∈ gotoSuccs d := by
  simp only [gotoSuccs, List.mem_filterMap]
  exact ⟨_, h, rfl⟩

theorem char_mem_succs {α : Type} (d : DState α) (x : α) (h : x ∈ d.chars.map (·.2)) : x ∈ DFA.succs d := by
  simp only [DFA.succs, List.mem_append]
  exact Or.inl (Or.inl (Or.inl h))

theorem range_mem_succs {α : Type} (d : DState α) (x : α) (h : x ∈ d.ranges.map (·.2.2)) :
    x ∈ DFA.succs d := by
  simp only [DFA.succs, List.mem_append]
  exact Or.inl (Or.inl (Or.inr h))

theorem any_mem_succs {α : Type} (d : DState α) (x : α) (h : d.any = some x) : x ∈ DFA.succs d := by
  simp only [DFA.succs, List.mem_append]
  exact Or.inl (Or.inr (by simp [h]))

/-! ## Consequences of the checks -/

theorem flags_step (d : DFA Trans) (h : flagsClosed d = true) (s t : Nat)
    (ht : t ∈ gotoSuccs (d.st s))
    (hb : ((d.st s).backtrack || !(d.st s).accepting.isEmpty) = true) :
    (d.st t).backtrack = true := by
  rcases st_mem_or_empty d s with hm | he
  · simp only [flagsClosed, List.all_eq_true, decide_eq_true_eq] at h
    exact h _ hm hb t ht
  · rw [he, gotoSuccs_empty] at ht
    cases ht

theorem targets_lt (d : DFA Trans) (h : targetsOK d = true) (s t : Nat)
    (ht : t ∈ gotoSuccs (d.st s)) : t < d.length := by
  rcases st_mem_or_empty d s with hm | he
  · simp only [targetsOK, List.all_eq_true, Bool.and_eq_true, decide_eq_true_eq] at h
    exact (h _ hm t ht).1
  · rw [he, gotoSuccs_empty] at ht
    cases ht

theorem any_of_accept (d : DFA Trans) (h : acceptAnyClause d = true) (s : Nat) (accs : List Acc)
    (x : Trans) (hmem : Trans.accept accs ∈ (d.st s).chars.map (·.2) ++ (d.st s).ranges.map (·.2.2))
    (hany : (d.st s).any = some x) :
    ∃ accs', x = .accept accs' ∧ isSublist accs' accs = true := by
  rcases st_mem_or_empty d s with hm | he
  · simp only [acceptAnyClause, List.all_eq_true] at h
    have h1 := h _ hm
    rw [hany] at h1
    simp only [List.all_eq_true] at h1
    have h2 := h1 _ hmem
    cases x with
    | goto t => simp at h2
    | accept accs' => exact ⟨accs', rfl, h2⟩
  · rw [he] at hany
    simp [DState.empty] at hany

theorem firstOK_sublist (ok : Nat → Bool) (l2 : List Acc) :
    ∀ l1 : List Acc, isSublist l1 l2 = true → firstOK ok l2 = none → firstOK ok l1 = none := by
  induction l2 with
  | nil =>
    intro l1 h _
    cases l1 with
    | nil => rfl
    | cons a as => simp [isSublist] at h
  | cons b bs ih =>
    intro l1 h hn
    cases l1 with
    | nil => rfl
    | cons a as =>
      simp only [isSublist] at h
      -- facts from `firstOK ok (b :: bs) = none`
      have hb : (∃ i, b.ctx = some i ∧ ok i = false) ∧ firstOK ok bs = none := by
        simp only [firstOK] at hn
        cases hc : b.ctx with
        | none => simp [hc] at hn
        | some i =>
          simp only [hc] at hn
          by_cases hi : ok i = true
          · simp [hi] at hn
          · simp only [hi] at hn
            exact ⟨⟨i, rfl, by simpa using hi⟩, by simpa using hn⟩
      by_cases hab : (a == b) = true
      · simp only [hab, if_true] at h
        have hab' : a = b := by simpa using hab
        obtain ⟨⟨i, hc, hi⟩, hbs⟩ := hb
        simp only [firstOK, hab', hc, hi]
        simpa using ih as h hbs
      · simp only [hab] at h
        exact ih (a :: as) h hb.2

/-! ## The saved match and the flags -/

theorem setAccepting_inv (cfg : Config σ τ ε) (d : DState Trans) (st : LState σ)
    (h : st.last.isSome = true → d.backtrack = true) :
    (setAccepting cfg d st).last.isSome = true → (d.backtrack || !d.accepting.isEmpty) = true := by
  unfold setAccepting
  cases hf : firstOK (fun i => ctxOK cfg i st.iter) d.accepting with
  | none =>
    intro hl
    simp [h hl]
  | some a =>
    intro _
    have : d.accepting ≠ [] := by
      intro hnil
      rw [hnil] at hf
      simp [firstOK] at hf
    simp [this]

theorem failCode_eq_failPlain (d : DState Trans) (st : LState σ)
    (h : st.last.isSome = true → (d.backtrack || !d.accepting.isEmpty) = true) :
    failCode d st = failPlain st := by
  unfold failCode failPlain
  by_cases hb : (d.backtrack || !d.accepting.isEmpty) = true
  · simp only [hb, if_true]
    cases st.last <;> rfl
  · have hl : st.last = none := by
      cases hl : st.last with
      | none => rfl
      | some sv => exact absurd (h (by simp [hl])) hb
    simp only [hb, hl]
    cases st
    simp at hl
    simp

/-! ## One step of the two scans, in a common shape -/

/-- Lexer state after the `set_accepting_state` chain and `self.0.next()` returning `Some(c)`. -/
def stepSt (cfg : Config σ τ ε) (d : DState Trans) (c : Nat) (rest : List Nat) (st : LState σ) :
    LState σ :=
  let st := setAccepting cfg d { st with iter := c :: rest }
  { st with iter := rest, curEnd := st.curEnd.advance cfg.width c }

/-- Lexer state after the `set_accepting_state` chain and `self.0.next()` returning `None`. -/
def eoiSt (cfg : Config σ τ ε) (d : DState Trans) (st : LState σ) : LState σ :=
  let st := setAccepting cfg d { st with iter := [] }
  { st with done := true }

/-- A `Goto` arm, with the code of the target given by `f`. -/
def gotoK (f : Nat → List Nat → LState σ → Outcome σ) (cfg : Config σ τ ε) (ns : Nat → Option Nat)
    (rest : List Nat) (st : LState σ) (t : Nat) : Outcome σ :=
  if inlinedAt cfg.inl t then f t rest st
  else
    let n := renumber cfg.inl t
    match ns n with
    | some t' => f t' rest { st with state := n }
    | none => .goto { st with state := n }

theorem scan_nil (cfg : Config σ τ ε) (ns : Nat → Option Nat) (s : Nat) (st : LState σ) :
    scan cfg ns s [] st =
      match (cfg.dfa.st s).eoi with
      | some (.accept accs) =>
        testRightCtxs cfg accs (eoiSt cfg (cfg.dfa.st s) st) (fun _ =>
          if s = 0 then .fin (eoiSt cfg (cfg.dfa.st s) st)
          else failCode (cfg.dfa.st s) (eoiSt cfg (cfg.dfa.st s) st))
      | some (.goto t) =>
        .goto { eoiSt cfg (cfg.dfa.st s) st with state := renumber cfg.inl t }
      | none =>
        if s = 0 then .fin (eoiSt cfg (cfg.dfa.st s) st)
        else failCode (cfg.dfa.st s) (eoiSt cfg (cfg.dfa.st s) st) := by
  rw [scan]
  rfl

theorem scanPlain_nil (cfg : Config σ τ ε) (ns : Nat → Option Nat) (s : Nat) (st : LState σ) :
    scanPlain cfg ns s [] st =
      match (cfg.dfa.st s).eoi with
      | some (.accept accs) =>
        testRightCtxs cfg accs (eoiSt cfg (cfg.dfa.st s) st) (fun _ =>
          if s = 0 then .fin (eoiSt cfg (cfg.dfa.st s) st)
          else failPlain (eoiSt cfg (cfg.dfa.st s) st))
      | some (.goto t) =>
        .goto { eoiSt cfg (cfg.dfa.st s) st with state := renumber cfg.inl t }
      | none =>
        if s = 0 then .fin (eoiSt cfg (cfg.dfa.st s) st)
        else failPlain (eoiSt cfg (cfg.dfa.st s) st) := by
  rw [scanPlain]
  rfl

theorem scan_cons (cfg : Config σ τ ε) (ns : Nat → Option Nat) (s c : Nat) (rest : List Nat)
    (st : LState σ) :
    scan cfg ns s (c :: rest) st =
      match (match lookupChar (cfg.dfa.st s).chars c with
        | some t => some t
        | none => RangeMap.lookup (cfg.dfa.st s).ranges c) with
      | some (.goto t) => gotoK (scan cfg ns) cfg ns rest (stepSt cfg (cfg.dfa.st s) c rest st) t
      | some (.accept accs) =>
        testRightCtxs cfg accs (stepSt cfg (cfg.dfa.st s) c rest st) (fun _ =>
          match (cfg.dfa.st s).any with
          | some (.goto t) => gotoK (scan cfg ns) cfg ns rest (stepSt cfg (cfg.dfa.st s) c rest st) t
          | some (.accept accs) =>
            testRightCtxs cfg accs (stepSt cfg (cfg.dfa.st s) c rest st)
              (fun _ => failCode (cfg.dfa.st s) (stepSt cfg (cfg.dfa.st s) c rest st))
          | none => failCode (cfg.dfa.st s) (stepSt cfg (cfg.dfa.st s) c rest st))
      | none =>
        match (cfg.dfa.st s).any with
        | some (.goto t) => gotoK (scan cfg ns) cfg ns rest (stepSt cfg (cfg.dfa.st s) c rest st) t
        | some (.accept accs) =>
          testRightCtxs cfg accs (stepSt cfg (cfg.dfa.st s) c rest st)
            (fun _ => failCode (cfg.dfa.st s) (stepSt cfg (cfg.dfa.st s) c rest st))
        | none => failCode (cfg.dfa.st s) (stepSt cfg (cfg.dfa.st s) c rest st) := by
  rw [scan]
  rfl

theorem scanPlain_cons (cfg : Config σ τ ε) (ns : Nat → Option Nat) (s c : Nat) (rest : List Nat)
    (st : LState σ) :
    scanPlain cfg ns s (c :: rest) st =
      match lookupTrans (cfg.dfa.st s) c with
      | some (.goto t) => gotoK (scanPlain cfg ns) cfg ns rest (stepSt cfg (cfg.dfa.st s) c rest st) t
      | some (.accept accs) =>
        testRightCtxs cfg accs (stepSt cfg (cfg.dfa.st s) c rest st)
          (fun _ => failPlain (stepSt cfg (cfg.dfa.st s) c rest st))
      | none => failPlain (stepSt cfg (cfg.dfa.st s) c rest st) := by
  rw [scanPlain]
  rfl

theorem eoiSt_inv (cfg : Config σ τ ε) (d : DState Trans) (st : LState σ)
    (h : st.last.isSome = true → d.backtrack = true) :
    (eoiSt cfg d st).last.isSome = true → (d.backtrack || !d.accepting.isEmpty) = true :=
  setAccepting_inv cfg d { st with iter := [] } h

theorem stepSt_inv (cfg : Config σ τ ε) (d : DState Trans) (c : Nat) (rest : List Nat)
    (st : LState σ) (h : st.last.isSome = true → d.backtrack = true) :
    (stepSt cfg d c rest st).last.isSome = true → (d.backtrack || !d.accepting.isEmpty) = true :=
  setAccepting_inv cfg d { st with iter := c :: rest } h

/-- A failing `Accept` arm falls through to an `Accept` any-arm that fails too. -/
theorem testRightCtxs_fallthrough (cfg : Config σ τ ε) (accs accs' : List Acc) (st : LState σ)
    (hsub : isSublist accs' accs = true) (k : Outcome σ) :
    testRightCtxs cfg accs st (fun _ => testRightCtxs cfg accs' st (fun _ => k)) =
      testRightCtxs cfg accs st (fun _ => k) := by
  unfold testRightCtxs
  cases hf : firstOK (fun i => ctxOK cfg i st.iter) accs with
  | some a => rfl
  | none =>
    simp only []
    rw [firstOK_sublist _ accs accs' hsub hf]

/-- The `Goto` arms agree when the target codes agree on the states the arm can run. -/
theorem gotoK_congr (cfg : Config σ τ ε) (ns : Nat → Option Nat)
    (hns : DispatchOK cfg.dfa cfg.inl ns) (f g : Nat → List Nat → LState σ → Outcome σ)
    (rest : List Nat) (st : LState σ) (t : Nat) (ht : t < cfg.dfa.length)
    (hfg : ∀ st' : LState σ, st'.last = st.last → f t rest st' = g t rest st') :
    gotoK f cfg ns rest st t = gotoK g cfg ns rest st t := by
  unfold gotoK
  by_cases hi : inlinedAt cfg.inl t = true
  · simp only [hi, if_true]
    exact hfg st rfl
  · have hi' : inlinedAt cfg.inl t = false := by simpa using hi
    simp only [hi', Bool.false_eq_true, if_false, hns t ht hi']
    exact hfg _ rfl

end ScanPlain

open ScanPlain in
theorem scan_eq_scanPlain (cfg : Config σ τ ε) (ns : Nat → Option Nat)
    (hflags : flagsClosed cfg.dfa = true) (hany : acceptAnyClause cfg.dfa = true)
    (htargets : targetsOK cfg.dfa = true) (hns : DispatchOK cfg.dfa cfg.inl ns)
    (s : Nat) (iter : List Nat) (st : LState σ)
    (hinv : st.last.isSome = true → (cfg.dfa.st s).backtrack = true) :
    scan cfg ns s iter st = scanPlain cfg ns s iter st := by
  induction iter generalizing s st with
  | nil =>
    rw [scan_nil, scanPlain_nil,
      failCode_eq_failPlain _ _ (eoiSt_inv cfg (cfg.dfa.st s) st hinv)]
  | cons c rest ih =>
    rw [scan_cons, scanPlain_cons]
    have hinv1 := stepSt_inv cfg (cfg.dfa.st s) c rest st hinv
    have hfail := failCode_eq_failPlain (cfg.dfa.st s) (stepSt cfg (cfg.dfa.st s) c rest st) hinv1
    rw [hfail]
    -- `Goto` arms: the invariant holds at the target
    have hgoto : ∀ t, Trans.goto t ∈ DFA.succs (cfg.dfa.st s) →
        gotoK (scan cfg ns) cfg ns rest (stepSt cfg (cfg.dfa.st s) c rest st) t =
          gotoK (scanPlain cfg ns) cfg ns rest (stepSt cfg (cfg.dfa.st s) c rest st) t := by
      intro t ht
      have hmem := goto_mem_gotoSuccs _ t ht
      apply gotoK_congr cfg ns hns _ _ _ _ t (targets_lt cfg.dfa htargets s t hmem)
      intro st' hl
      apply ih
      intro hsome
      rw [hl] at hsome
      exact flags_step cfg.dfa hflags s t hmem (hinv1 hsome)
    -- a char/range arm
    have harm : ∀ x, x ∈ (cfg.dfa.st s).chars.map (·.2) ++ (cfg.dfa.st s).ranges.map (·.2.2) →
        x ∈ DFA.succs (cfg.dfa.st s) →
        (match some x with
          | some (.goto t) => gotoK (scan cfg ns) cfg ns rest (stepSt cfg (cfg.dfa.st s) c rest st) t
          | some (.accept accs) =>
            testRightCtxs cfg accs (stepSt cfg (cfg.dfa.st s) c rest st) (fun _ =>
              match (cfg.dfa.st s).any with
              | some (.goto t) => gotoK (scan cfg ns) cfg ns rest (stepSt cfg (cfg.dfa.st s) c rest st) t
              | some (.accept accs) =>
                testRightCtxs cfg accs (stepSt cfg (cfg.dfa.st s) c rest st)
                  (fun _ => failPlain (stepSt cfg (cfg.dfa.st s) c rest st))
              | none => failPlain (stepSt cfg (cfg.dfa.st s) c rest st))
          | none =>
            match (cfg.dfa.st s).any with
            | some (.goto t) => gotoK (scan cfg ns) cfg ns rest (stepSt cfg (cfg.dfa.st s) c rest st) t
            | some (.accept accs) =>
              testRightCtxs cfg accs (stepSt cfg (cfg.dfa.st s) c rest st)
                (fun _ => failPlain (stepSt cfg (cfg.dfa.st s) c rest st))
            | none => failPlain (stepSt cfg (cfg.dfa.st s) c rest st)) =
        (match some x with
          | some (.goto t) => gotoK (scanPlain cfg ns) cfg ns rest (stepSt cfg (cfg.dfa.st s) c rest st) t
          | some (.accept accs) =>
            testRightCtxs cfg accs (stepSt cfg (cfg.dfa.st s) c rest st)
              (fun _ => failPlain (stepSt cfg (cfg.dfa.st s) c rest st))
          | none => failPlain (stepSt cfg (cfg.dfa.st s) c rest st)) := by
      intro x hx hx'
      cases x with
      | goto t => exact hgoto t hx'
      | accept accs =>
        simp only []
        cases ha : (cfg.dfa.st s).any with
        | none => rfl
        | some a =>
          obtain ⟨accs', rfl, hsub⟩ := any_of_accept cfg.dfa hany s accs a hx ha
          exact testRightCtxs_fallthrough cfg accs accs' _ hsub _
    unfold lookupTrans
    cases hc : lookupChar (cfg.dfa.st s).chars c with
    | some x =>
      have hx := lookupChar_mem _ _ _ hc
      exact harm x (List.mem_append_left _ hx) (char_mem_succs _ _ hx)
    | none =>
      cases hr : RangeMap.lookup (cfg.dfa.st s).ranges c with
      | some x =>
        have hx := rangeLookup_mem _ _ _ hr
        exact harm x (List.mem_append_right _ hx) (range_mem_succs _ _ hx)
      | none =>
        simp only []
        cases ha : (cfg.dfa.st s).any with
        | none => rfl
        | some a =>
          cases a with
          | goto t => exact hgoto t (any_mem_succs _ _ ha)
          | accept accs => rfl

end Lexgen
