import LexgenModel.Spec.Viable
import LexgenModel.Proofs.RuleSetLang
import LexgenModel.Proofs.BlockShape
/-!
# The DFA of a rule set is trim (`block_viable`)

New ingredient: the Thompson NFA is *co-reachable* — every state `addRe re cur cont` allocates (and
`cur`) has a path to `cont` when no piece of the regex is empty (`addRe_coreach`). Through the fold
of `add_regex` this gives `TrimInv`: every state reachable from 0 other than 0 itself lies on a
path spelling a word of some rule.
-/
set_option linter.unusedSimpArgs false
set_option linter.unusedVariables false
namespace Lexgen
namespace BlockViable
open Thompson

/-! ## a regex without empty pieces denotes at least one word -/

theorem den_nonempty (re : Regex) (h : NoEmptyPieces re) : ∃ w, den re w := by
  induction re with
  | builtin n =>
    obtain ⟨c, hc⟩ := h
    exact ⟨[.ch c], c, rfl, hc⟩
  | var n => cases h
  | chr c => exact ⟨[.ch c], rfl⟩
  | str cs => exact ⟨cs.map Sym.ch, h, rfl⟩
  | set items =>
    obtain ⟨c, it, hit, hc⟩ := h
    exact ⟨[.ch c], c, rfl, it, hit, hc⟩
  | star r ih => exact ⟨[], Star.nil⟩
  | plus r ih =>
    obtain ⟨w, hw⟩ := ih h
    exact ⟨w, w, [], by simp, hw, Star.nil⟩
  | opt r ih => exact ⟨[], Or.inl rfl⟩
  | cat a b iha ihb =>
    obtain ⟨u, hu⟩ := iha h.1
    obtain ⟨v, hv⟩ := ihb h.2
    exact ⟨u ++ v, u, v, rfl, hu, hv⟩
  | alt a b iha ihb =>
    obtain ⟨u, hu⟩ := iha h.1
    exact ⟨u, Or.inl hu⟩
  | any => exact ⟨[.ch 0], 0, rfl⟩
  | eoi => exact ⟨[.eoi], rfl⟩
  | diff a b _ _ =>
    obtain ⟨c, hc⟩ := h
    exact ⟨[.ch c], c, rfl, hc⟩

/-! ## reachability -/

/-- some path leads from `u` to `t` -/
def Reach (n : NFA) (u t : Nat) : Prop := ∃ v, Path (Edge n) u v t

theorem Reach.trans {n : NFA} {a b c : Nat} (h1 : Reach n a b) (h2 : Reach n b c) : Reach n a c := by
  obtain ⟨u, hu⟩ := h1
  obtain ⟨v, hv⟩ := h2
  exact ⟨u ++ v, Path.trans hu hv⟩

theorem Reach.step {n n' : NFA} {s t : Nat} {X : Option Sym → Prop} (h : Step n n' s X t) {a b : Nat}
    (r : Reach n a b) : Reach n' a b := by
  obtain ⟨v, hv⟩ := r
  exact ⟨v, Path.mono (fun a x b he => (h.edges a x b).mpr (Or.inl he)) hv⟩

theorem Reach.frame {n n' : NFA} {cur cont : Nat} (f : Frame n n' cur cont) (hv : NFA.virgin n cur) {a b : Nat}
    (r : Reach n a b) : Reach n' a b := by
  obtain ⟨v, hp⟩ := r
  exact ⟨v, Path.mono (f.mono hv) hp⟩

theorem Reach.edge {n : NFA} {a b : Nat} {x : Option Sym} (h : Edge n a x b) : Reach n a b :=
  ⟨_, Path.step h (Path.refl b)⟩

/-- the start of a gadget for a non-empty language reaches its continuation -/
theorem gadget_cur_reach {n n' : NFA} {cur cont : Nat} {L : List Sym → Prop} (g : Gadget n n' cur cont L)
    (hcont : cont < n.length) {w : List Sym} (hw : L w) : Reach n' cur cont :=
  ⟨w, (g.paths w cont hcont).mpr (Or.inr ⟨rfl, hw⟩)⟩

/-- every state allocated between `n` and `n'` reaches `cont` -/
def CoReach (n n' : NFA) (cont : Nat) : Prop :=
  ∀ u, n.length ≤ u → u < n'.length → Reach n' u cont

theorem coReach_of_len {n n' : NFA} (cont : Nat) (h : n'.length = n.length) : CoReach n n' cont := by
  intro u h1 h2; omega

theorem len_addRangeTransitions (n : NFA) (s : Nat) (m : RangeMap Unit) (t : Nat) :
    (n.addRangeTransitions s m t).length = n.length := by
  unfold NFA.addRangeTransitions
  exact List.length_modify _ _ _

theorem addStr_coreach (cs : List Nat) : ∀ (cur cont : Nat) (n n' : NFA), Pre n cur cont →
    NFA.addStr cs cur cont n = .ok n' → CoReach n n' cont := by
  induction cs with
  | nil =>
    intro cur cont n n' hp h
    simp only [NFA.addStr] at h
    cases h
    exact coReach_of_len cont rfl
  | cons c rest ih =>
    intro cur cont n n' hp h
    cases rest with
    | nil =>
      simp only [NFA.addStr] at h
      exact coReach_of_len cont (step_addChar h hp.hcur).len
    | cons c' cs =>
      simp only [NFA.addStr, newState_snd] at h
      obtain ⟨n1, h1, h⟩ := bind_ok h
      have pa := hp.freshCont
      have ga := (step_addChar h1 pa.hcur).gadget pa (by simp)
      have pb := pre_cat_b hp ga
      have gb := addStr_gadget (c' :: cs) n.length cont n1 n' pb h
      have cb := ih n.length cont n1 n' pb h
      have hl := length_newState n
      have hl1 : n1.length = n.newState.1.length := (step_addChar h1 pa.hcur).len
      intro u hu1 hu2
      by_cases hu : u = n.length
      · subst hu
        exact gadget_cur_reach gb pb.hcont (w := (c' :: cs).map Sym.ch) ⟨by simp, rfl⟩
      · exact cb u (by omega) hu2

/-- co-reachability of the Thompson gadget: every state `addRe` allocates reaches `cont` -/
theorem addRe_coreach (re : Regex) : ∀ (cur cont : Nat) (n n' : NFA), Pre n cur cont → regexPiecesOK re →
    NoEmptyPieces re → NFA.addRe re cur cont n = .ok n' → CoReach n n' cont := by
  induction re with
  | builtin name =>
    intro cur cont n n' hp _ _ h
    simp only [NFA.addRe] at h
    cases hb : builtinRanges name with
    | none => rw [hb] at h; cases h
    | some rs =>
      rw [hb] at h
      simp only [Except.ok.injEq] at h
      subst h
      exact coReach_of_len cont (len_addRangeTransitions _ _ _ _)
  | var name =>
    intro cur cont n n' _ _ _ h
    simp only [NFA.addRe] at h
    cases h
  | chr c =>
    intro cur cont n n' hp _ _ h
    simp only [NFA.addRe] at h
    exact coReach_of_len cont (step_addChar h hp.hcur).len
  | str cs =>
    intro cur cont n n' hp _ _ h
    simp only [NFA.addRe] at h
    exact addStr_coreach cs cur cont n n' hp h
  | set items =>
    intro cur cont n n' hp hre _ h
    simp only [NFA.addRe] at h
    have st := addSet_step items [] cur cont n n' hp.hcur (hp.wf.rangesWF cur hp.hcur) hre
      (fun c hc => by cases hc) h
    exact coReach_of_len cont st.len
  | star r ih =>
    intro cur cont n n' hp hre hne h
    simp only [NFA.addRe, newState_snd, length_newState] at h
    obtain ⟨n1, h1, h⟩ := bind_ok h
    obtain ⟨n2, h2, h⟩ := bind_ok h
    obtain ⟨n3, h3, h⟩ := bind_ok h
    obtain ⟨n4, h4, h⟩ := bind_ok h
    have hl := length_newState n
    have hl0 := length_newState n.newState.1
    have g := addRe_gadget r n.length (n.length + 1) _ n1 hp.fresh2 hre h1
    have cr := ih n.length (n.length + 1) _ n1 hp.fresh2 hre hne h1
    have hl1 := g.frame.len
    have hc := hp.hcur
    have s2 := step_addEps h2 (by omega)
    have s3 := step_addEps h3 (by rw [s2.len]; omega)
    have s4 := step_addEps h4 (by rw [s3.len, s2.len]; omega)
    have s5 := step_addEps h (by rw [s4.len, s3.len, s2.len]; omega)
    have mono : ∀ {a b : Nat}, Reach n1 a b → Reach n' a b :=
      fun r => ((r.step s2).step s3).step s4 |>.step s5
    have e4 : Edge n' (n.length + 1) none cont :=
      (s5.edges _ _ _).mpr (Or.inl ((s4.edges _ _ _).mpr (Or.inr ⟨rfl, rfl, rfl⟩)))
    have R1 : Reach n' (n.length + 1) cont := Reach.edge e4
    obtain ⟨w0, hw0⟩ := den_nonempty r hne
    have RN : Reach n1 n.length (n.length + 1) := gadget_cur_reach g (by omega) hw0
    have hlen : n'.length = n1.length := by rw [s5.len, s4.len, s3.len, s2.len]
    intro u hu1 hu2
    by_cases hu : u = n.length
    · subst hu; exact (mono RN).trans R1
    · by_cases hu' : u = n.length + 1
      · subst hu'; exact R1
      · exact (mono (cr u (by omega) (by omega))).trans R1
  | plus r ih =>
    intro cur cont n n' hp hre hne h
    simp only [NFA.addRe, newState_snd, length_newState] at h
    obtain ⟨n1, h1, h⟩ := bind_ok h
    obtain ⟨n2, h2, h⟩ := bind_ok h
    obtain ⟨n3, h3, h⟩ := bind_ok h
    have hl := length_newState n
    have hl0 := length_newState n.newState.1
    have g := addRe_gadget r n.length (n.length + 1) _ n1 hp.fresh2 hre h1
    have cr := ih n.length (n.length + 1) _ n1 hp.fresh2 hre hne h1
    have hl1 := g.frame.len
    have hc := hp.hcur
    have s2 := step_addEps h2 (by omega)
    have s3 := step_addEps h3 (by rw [s2.len]; omega)
    have s4 := step_addEps h (by rw [s3.len, s2.len]; omega)
    have mono : ∀ {a b : Nat}, Reach n1 a b → Reach n' a b :=
      fun r => ((r.step s2).step s3).step s4
    have e3 : Edge n' (n.length + 1) none cont :=
      (s4.edges _ _ _).mpr (Or.inl ((s3.edges _ _ _).mpr (Or.inr ⟨rfl, rfl, rfl⟩)))
    have R1 : Reach n' (n.length + 1) cont := Reach.edge e3
    obtain ⟨w0, hw0⟩ := den_nonempty r hne
    have RN : Reach n1 n.length (n.length + 1) := gadget_cur_reach g (by omega) hw0
    have hlen : n'.length = n1.length := by rw [s4.len, s3.len, s2.len]
    intro u hu1 hu2
    by_cases hu : u = n.length
    · subst hu; exact (mono RN).trans R1
    · by_cases hu' : u = n.length + 1
      · subst hu'; exact R1
      · exact (mono (cr u (by omega) (by omega))).trans R1
  | opt r ih =>
    intro cur cont n n' hp hre hne h
    simp only [NFA.addRe, newState_snd, length_newState] at h
    obtain ⟨n1, h1, h⟩ := bind_ok h
    obtain ⟨n2, h2, h⟩ := bind_ok h
    have hl := length_newState n
    have g := addRe_gadget r n.length cont _ n1 hp.freshCur hre h1
    have cr := ih n.length cont _ n1 hp.freshCur hre hne h1
    have hl1 := g.frame.len
    have hc := hp.hcur
    have hk := hp.hcont
    have s2 := step_addEps h2 (by omega)
    have s3 := step_addEps h (by rw [s2.len]; omega)
    have mono : ∀ {a b : Nat}, Reach n1 a b → Reach n' a b :=
      fun r => (r.step s2).step s3
    obtain ⟨w0, hw0⟩ := den_nonempty r hne
    have RN : Reach n1 n.length cont := gadget_cur_reach g (by omega) hw0
    have hlen : n'.length = n1.length := by rw [s3.len, s2.len]
    intro u hu1 hu2
    by_cases hu : u = n.length
    · subst hu; exact mono RN
    · exact mono (cr u (by omega) (by omega))
  | cat a b iha ihb =>
    intro cur cont n n' hp hre hne h
    simp only [NFA.addRe, newState_snd, length_newState] at h
    obtain ⟨n1, h1, h⟩ := bind_ok h
    have hl := length_newState n
    have ga := addRe_gadget a cur n.length _ n1 hp.freshCont hre.1 h1
    have pb := pre_cat_b hp ga
    have gb := addRe_gadget b n.length cont n1 n' pb hre.2 h
    have ca := iha cur n.length _ n1 hp.freshCont hre.1 hne.1 h1
    have cb := ihb n.length cont n1 n' pb hre.2 hne.2 h
    obtain ⟨wb, hwb⟩ := den_nonempty b hne.2
    have RN : Reach n' n.length cont := gadget_cur_reach gb pb.hcont hwb
    intro u hu1 hu2
    by_cases hu : u = n.length
    · subst hu; exact RN
    · by_cases hu' : u < n1.length
      · exact ((ca u (by omega) hu').frame gb.frame pb.vcur).trans RN
      · exact cb u (by omega) hu2
  | alt a b iha ihb =>
    intro cur cont n n' hp hre hne h
    simp only [NFA.addRe, newState_snd, length_newState] at h
    obtain ⟨n1, h1, h⟩ := bind_ok h
    obtain ⟨n2, h2, h⟩ := bind_ok h
    obtain ⟨n3, h3, h⟩ := bind_ok h
    have hl := length_newState n
    have hl0 := length_newState n.newState.1
    have ga := addRe_gadget a n.length cont _ n1 hp.freshCur2 hre.1 h1
    have pb := pre_alt_b hp ga
    have gb := addRe_gadget b (n.length + 1) cont n1 n2 pb hre.2 h2
    have ca := iha n.length cont _ n1 hp.freshCur2 hre.1 hne.1 h1
    have cb := ihb (n.length + 1) cont n1 n2 pb hre.2 hne.2 h2
    have hl1 := ga.frame.len
    have hl2 := gb.frame.len
    have hc := hp.hcur
    have s3 := step_addEps h3 (by omega)
    have s4 := step_addEps h (by rw [s3.len]; omega)
    have mono : ∀ {a b : Nat}, Reach n2 a b → Reach n' a b :=
      fun r => (r.step s3).step s4
    obtain ⟨wa, hwa⟩ := den_nonempty a hne.1
    obtain ⟨wb, hwb⟩ := den_nonempty b hne.2
    have RA : Reach n1 n.length cont := gadget_cur_reach ga hp.freshCur2.hcont hwa
    have RB : Reach n2 (n.length + 1) cont := gadget_cur_reach gb pb.hcont hwb
    have hlen : n'.length = n2.length := by rw [s4.len, s3.len]
    intro u hu1 hu2
    by_cases hu : u = n.length
    · subst hu; exact mono (RA.frame gb.frame pb.vcur)
    · by_cases hu' : u = n.length + 1
      · subst hu'; exact mono RB
      · by_cases hu'' : u < n1.length
        · exact mono ((ca u (by omega) hu'').frame gb.frame pb.vcur)
        · exact mono (cb u (by omega) (by omega))
  | any =>
    intro cur cont n n' hp _ _ h
    simp only [NFA.addRe] at h
    exact coReach_of_len cont (step_addAny h hp.hcur).len
  | eoi =>
    intro cur cont n n' hp _ _ h
    simp only [NFA.addRe] at h
    exact coReach_of_len cont (step_addEoi h hp.hcur).len
  | diff a b _ _ =>
    intro cur cont n n' hp hre _ h
    simp only [NFA.addRe] at h
    obtain ⟨m, hm, h⟩ := bind_ok h
    simp only [pure, Except.pure, Except.ok.injEq] at h
    subst h
    exact coReach_of_len cont (len_addRangeTransitions _ _ _ _)

/-- every state `add_regex` allocates (other than the accepting one) reaches the accepting state -/
theorem addRegex_coreach (nfa : NFA) (hwf : NFAWF nfa) (re : Regex) (hre : regexPiecesOK re)
    (hne : NoEmptyPieces re) (ctx : Option Nat) (value : Nat) (nfa' : NFA)
    (h : nfa.addRegex re ctx value = .ok nfa') :
    ∀ u, nfa.length < u → u < nfa'.length → ∃ v, NPath nfa' u v nfa.length := by
  obtain ⟨n2, n4, h2, h4, h5⟩ := addRegex_unfold h
  have p := prep hwf h2 h4
  have hp := pre_of_prep hwf p
  have g := addRe_gadget re _ _ n4 nfa' hp hre h5
  have cr := addRe_coreach re _ _ n4 nfa' hp hre hne h5
  have hl4 := p.len
  obtain ⟨w0, hw0⟩ := den_nonempty re hne
  intro u hu1 hu2
  have hr : Reach nfa' u nfa.length := by
    by_cases hu : u = nfa.length + 1
    · subst hu; exact gadget_cur_reach g hp.hcont hw0
    · exact cr u (by omega) hu2
  obtain ⟨v, hv⟩ := hr
  exact ⟨v, (npath_iff_path _ _ _ _).mpr hv⟩

/-! ## the fold of `add_regex` -/

/-- every state reachable from 0, other than 0, lies on a path spelling a word of some rule -/
def TrimInv (rules : List CoreRule) (n : NFA) : Prop :=
  ∀ w u, NPath n 0 w u → u ≠ 0 → ∃ r ∈ rules, ∃ v, den r.re (w ++ v)

theorem npath_trans {n : NFA} {a b c : Nat} {u v : List Sym} (h1 : NPath n a u b) (h2 : NPath n b v c) :
    NPath n a (u ++ v) c :=
  (npath_iff_path _ _ _ _).mpr (Path.trans ((npath_iff_path _ _ _ _).mp h1) ((npath_iff_path _ _ _ _).mp h2))

theorem trim_new : TrimInv [] NFA.new := by
  intro w u hp hu
  have := RuleSetLang.npath_lt wf_new hp
  simp only [NFA.new, List.length_singleton] at this
  omega

theorem trim_step {pre : List CoreRule} {n n' : NFA} (hb : RuleSetLang.Built pre n) (ht : TrimInv pre n)
    (r : CoreRule) (hre : regexPiecesOK r.re) (hne : NoEmptyPieces r.re)
    (h : n.addRegex r.re r.ctx r.value = .ok n') : TrimInv (pre ++ [r]) n' := by
  obtain ⟨wf', hlen, hacc, hden, haccOld, hpathOld, haccNew⟩ :=
    addRegex_correct n hb.wf hb.shape r.re hre r.ctx r.value n' h
  have hco := addRegex_coreach n hb.wf r.re hre hne r.ctx r.value n' h
  intro w u hp hu0
  by_cases hu : u < n.length
  · obtain ⟨r', hr', v, hv⟩ := ht w u ((hpathOld u w hu).mp hp) hu0
    exact ⟨r', List.mem_append_left _ hr', v, hv⟩
  · refine ⟨r, List.mem_append_right _ (List.mem_singleton.mpr rfl), ?_⟩
    by_cases hu' : u = n.length
    · subst hu'
      exact ⟨[], by rw [List.append_nil]; exact (hden w).mp hp⟩
    · obtain ⟨v, hv⟩ := hco u (by omega) (RuleSetLang.npath_lt wf' hp)
      exact ⟨v, (hden (w ++ v)).mp (npath_trans hp hv)⟩

theorem trim_fold (rules : List CoreRule) : ∀ (pre : List CoreRule) (n0 n : NFA), RuleSetLang.Built pre n0 →
    TrimInv pre n0 → (∀ r ∈ rules, regexPiecesOK r.re) → (∀ r ∈ rules, NoEmptyPieces r.re) →
    rules.foldlM (fun n r => n.addRegex r.re r.ctx r.value) n0 = .ok n → TrimInv (pre ++ rules) n := by
  induction rules with
  | nil =>
    intro pre n0 n hb ht _ _ h
    rw [List.foldlM_nil] at h
    cases h
    rw [List.append_nil]
    exact ht
  | cons r rest ih =>
    intro pre n0 n hb ht hre hne h
    rw [List.foldlM_cons] at h
    obtain ⟨n1, h1, h2⟩ := bind_ok h
    have hb1 := RuleSetLang.built_step hb r (hre r List.mem_cons_self) h1
    have ht1 := trim_step hb ht r (hre r List.mem_cons_self) (hne r List.mem_cons_self) h1
    have := ih (pre ++ [r]) n1 n hb1 ht1 (fun x hx => hre x (List.mem_cons_of_mem _ hx))
      (fun x hx => hne x (List.mem_cons_of_mem _ hx)) h2
    rw [List.append_assoc] at this
    exact this

theorem trim_buildNfa (rules : List CoreRule) (hre : ∀ r ∈ rules, regexPiecesOK r.re)
    (hne : ∀ r ∈ rules, NoEmptyPieces r.re) (nfa : NFA) (h : buildNfa rules = .ok nfa) : TrimInv rules nfa := by
  have := trim_fold rules [] NFA.new nfa RuleSetLang.built_new trim_new hre hne h
  rw [List.nil_append] at this
  exact this

/-! ## auxiliary facts about runs -/

theorem reachSym_append' (d : DFA Nat) (u v : List Sym) :
    ∀ s, reachSym d s (u ++ v) = (reachSym d s u).bind (fun t => reachSym d t v) := by
  induction u with
  | nil => intro s; rfl
  | cons x u ih =>
    intro s
    simp only [List.cons_append, reachSym]
    cases stepD d s x with
    | none => rfl
    | some t => exact ih t

theorem stepD_none_of_noTrans (d : DFA Nat) (t : Nat) (h : DFA.hasNoTransitions (d.st t) = true) (x : Sym) :
    stepD d t x = none := by
  obtain ⟨h1, h2, h3, h4⟩ := (BlockShape.hasNoTransitions_iff _).mp h
  cases x with
  | ch c => simp only [stepD, lookupTrans, h1, h2, h3, lookupChar, RangeMap.lookup]
  | eoi => simp only [stepD, h4]

/-- a state of the NFA that is not quiet has a symbol step -/
theorem exists_step {nfa : NFA} (hwf : NFAWF nfa) (htne : Subset.TargetsNonempty nfa) {s : Nat}
    (hs : s < nfa.length)
    (h : ¬ ((nfa.st s).chars = [] ∧ (nfa.st s).ranges = [] ∧ (nfa.st s).any = [] ∧ (nfa.st s).eoi = [])) :
    ∃ x u, NFA.stepSym nfa s x u := by
  cases hc : (nfa.st s).chars with
  | cons e l =>
    have he : e ∈ (nfa.st s).chars := by rw [hc]; exact List.mem_cons_self
    obtain ⟨b, hb⟩ := List.exists_mem_of_ne_nil _ ((htne s hs).1 e he)
    exact ⟨.ch e.1, b, Or.inl ⟨e.2, he, hb⟩⟩
  | nil =>
    cases hr : (nfa.st s).ranges with
    | cons r l =>
      have hrm : r ∈ (nfa.st s).ranges := by rw [hr]; exact List.mem_cons_self
      obtain ⟨b, hb⟩ := List.exists_mem_of_ne_nil _ ((htne s hs).2 r hrm)
      have hle := wfFrom_le (hwf.rangesWF s hs) r hrm
      exact ⟨.ch r.1, b, Or.inr (Or.inl ⟨r, hrm, Nat.le_refl _, hle, hb⟩)⟩
    | nil =>
      cases ha : (nfa.st s).any with
      | cons b l =>
        exact ⟨.ch 0, b, Or.inr (Or.inr (by rw [ha]; exact List.mem_cons_self))⟩
      | nil =>
        cases he : (nfa.st s).eoi with
        | cons b l =>
          refine ⟨.eoi, b, ?_⟩
          show b ∈ (nfa.st s).eoi
          rw [he]; exact List.mem_cons_self
        | nil => exact absurd ⟨hc, hr, ha, he⟩ h

open Classical in
/-- a word of some rule keeps the DFA alive -/
theorem alive_of_den {rules : List CoreRule} {nfa : NFA} (hb : RuleSetLang.Built rules nfa) {d : DFA Nat}
    (hsc : SubsetCorrect nfa d) {r : CoreRule} (hr : r ∈ rules) {z : List Sym} (hz : den r.re z) :
    reachSym d 0 z ≠ none := by
  intro hnone
  have h1 := hsc z
  rw [hnone] at h1
  have h2 := hb.inv z [] List.Pairwise.nil (fun u => ⟨fun hu => (by cases hu), fun hu => absurd hu (h1 u)⟩)
  simp only [List.filterMap_nil] at h2
  have h3 := h2.symm
  unfold matchingAccs at h3
  rw [List.map_eq_nil_iff, List.filter_eq_nil_iff] at h3
  exact h3 r hr (decide_eq_true hz)

end BlockViable

open Lexgen.Subset in
/-- the DFA of a rule set is TRIM: it is alive after exactly the viable prefixes, and a reachable state has an outgoing transition exactly when the
prefix read so far can be extended by at least one more symbol towards a word of some rule -/
theorem block_viable (rules : List CoreRule) (hp : ∀ r ∈ rules, regexPiecesOK r.re) (hne : ∀ r ∈ rules, NoEmptyPieces r.re)
    (nfa : NFA) (hn : buildNfa rules = .ok nfa) (d : DFA Nat) (hd : nfaToDfa nfa = some d) (w : List Nat) :
    (reachN d 0 w = none ↔ (w ≠ [] ∧ ¬ Viable rules w)) ∧
    (∀ t, reachN d 0 w = some t → (DFA.hasNoTransitions (d.st t) = false ↔ Extendable rules w)) := by
  have hb := RuleSetLang.built_buildNfa rules hp nfa hn
  have htrim := BlockViable.trim_buildNfa rules hp hne nfa hn
  have hwf := hb.wf
  have htne : Subset.TargetsNonempty nfa := hb.tne
  have hno0 := (Thompson.shape_iff_edges hwf).mp hb.shape
  have hsc := (nfaToDfa_correct_partial nfa hwf htne d hd).1
  -- a path from 0 reading a non-empty word does not end in 0
  have hne0 : ∀ {z : List Sym} {u : Nat}, NPath nfa 0 z u → z ≠ [] → u ≠ 0 := by
    intro z u hpz hz hu
    exact hz (Thompson.path_into0 hno0 ((Thompson.npath_iff_path _ _ _ _).mp hpz) hu).2
  have hd' := hd
  unfold nfaToDfa at hd'
  simp only [Option.map_eq_some_iff] at hd'
  obtain ⟨bf, hloop, rfl⟩ := hd'
  have hf := BlockShape.final_of_loop hwf htne hloop
  have hdone : ∀ S i, (S, i) ∈ bf.stateMap → Done nfa bf.stateMap S (bf.dfa.st i) :=
    fun S i he => done_of_table hwf (collect_spec hwf S) (hf.tab S i he)
  have hr := reach_spec hdone (w.map Sym.ch) 0 (nfa.closure [0]) hf.zero
  have hstart : ∀ u, u ∈ nfa.closure [0] ↔ EpsReach nfa 0 u := by
    intro u
    rw [mem_closure hwf]
    constructor
    · rintro ⟨s, hs, hr⟩
      rw [List.mem_singleton] at hs; subst hs; exact hr
    · intro hr; exact ⟨0, List.mem_singleton.mpr rfl, hr⟩
  have hafter : ∀ u, After nfa (· ∈ nfa.closure [0]) (w.map Sym.ch) u ↔ NPath nfa 0 (w.map Sym.ch) u := by
    intro u
    rw [after_congr nfa _ _ _ hstart u]
    exact after_start nfa _ u
  -- the key of a reached state
  have hkey : ∀ t, reachSym bf.dfa 0 (w.map Sym.ch) = some t →
      ∃ T, (T, t) ∈ bf.stateMap ∧ T ≠ [] ∧ ∀ u, u ∈ T ↔ NPath nfa 0 (w.map Sym.ch) u := by
    intro t ht
    obtain ⟨T, hT, hmem⟩ := hr.1 t ht
    exact ⟨T, hT, (hf.keys _ hT).2, fun u => (hmem u).trans (hafter u)⟩
  rw [← CompileLang.reachSym_ch]
  refine ⟨⟨fun hnone => ⟨?_, ?_⟩, ?_⟩, ?_⟩
  · intro hw
    subst hw
    simp [reachSym] at hnone
  · rintro ⟨r, hrm, v, hv⟩
    apply BlockViable.alive_of_den hb hsc hrm hv
    rw [BlockViable.reachSym_append', hnone]
    rfl
  · rintro ⟨hw, hnv⟩
    cases hreach : reachSym bf.dfa 0 (w.map Sym.ch) with
    | none => rfl
    | some t =>
      exfalso
      obtain ⟨T, hT, hTne, hmem⟩ := hkey t hreach
      obtain ⟨u, hu⟩ := List.exists_mem_of_ne_nil _ hTne
      have hpu := (hmem u).mp hu
      have hwm : w.map Sym.ch ≠ [] := by
        intro h; exact hw (List.map_eq_nil_iff.mp h)
      obtain ⟨r, hrm, v, hv⟩ := htrim _ u hpu (hne0 hpu hwm)
      exact hnv ⟨r, hrm, v, hv⟩
  · intro t hreach
    obtain ⟨T, hT, hTne, hmem⟩ := hkey t hreach
    constructor
    · intro hfalse
      have hnq : ¬ BlockShape.Quiet nfa T := by
        intro hq
        have := BlockShape.quiet_table (collect_spec hwf T) hq (hf.tab T t hT)
        rw [this] at hfalse
        cases hfalse
      have hex : ∃ s ∈ T, ¬ ((nfa.st s).chars = [] ∧ (nfa.st s).ranges = [] ∧ (nfa.st s).any = [] ∧
          (nfa.st s).eoi = []) := by
        apply Classical.byContradiction
        intro hcon
        apply hnq
        intro s hs
        apply Classical.byContradiction
        intro hq
        exact hcon ⟨s, hs, hq⟩
      obtain ⟨s, hsT, hsq⟩ := hex
      have hps := (hmem s).mp hsT
      obtain ⟨x, u, hstep⟩ := BlockViable.exists_step hwf htne (RuleSetLang.npath_lt hwf hps) hsq
      have hpu : NPath nfa 0 (w.map Sym.ch ++ [x]) u :=
        BlockViable.npath_trans hps (NPath.sym hstep (NPath.refl u))
      obtain ⟨r, hrm, v, hv⟩ := htrim _ u hpu (hne0 hpu (by simp))
      refine ⟨r, hrm, x, v, ?_⟩
      rw [List.append_assoc] at hv
      exact hv
    · rintro ⟨r, hrm, x, v, hv⟩
      have halive := BlockViable.alive_of_den hb hsc hrm hv
      rw [BlockViable.reachSym_append', hreach] at halive
      cases hnt : DFA.hasNoTransitions (bf.dfa.st t) with
      | false => rfl
      | true =>
        exfalso
        apply halive
        simp only [Option.bind, reachSym, BlockViable.stepD_none_of_noTrans bf.dfa t hnt x]

end Lexgen
