import LexgenModel.Spec.Lang
import LexgenModel.Proofs.ClassEval
import LexgenModel.Proofs.ThompsonGadget
/-!
# Thompson construction: `add_re` / `add_regex` build an NFA for the regex denotation

Main results: `Thompson.addRe_gadget` (the sub-automaton built by `addRe re cur cont` reads exactly
`den re` from `cur` to `cont` and leaves the rest of the NFA alone) and `addRegex_correct`.
-/

set_option linter.unusedSimpArgs false
set_option linter.unusedVariables false
namespace Lexgen
namespace Thompson
open RangeMap

theorem bind_ok {α β : Type} {x : Except CompileError α} {f : α → Except CompileError β} {b : β}
    (h : (x >>= f) = .ok b) : ∃ a, x = .ok a ∧ f a = .ok b := by
  cases x with
  | error e => cases h
  | ok a => exact ⟨a, rfl, h⟩

/-! ## Leaves -/

theorem regexPiecesOK_class (e : Regex) (h : regexPiecesOK e) : classPiecesOK e := by
  induction e with
  | set items => exact h
  | alt a b iha ihb => exact ⟨iha h.1, ihb h.2⟩
  | diff a b iha ihb => exact ⟨iha h.1, ihb h.2⟩
  | _ => trivial

/-- a character class, evaluated to a range map, hung between `cur` and `cont` -/
theorem class_gadget {n : NFA} {cur cont : Nat} (hp : Pre n cur cont) (e : Regex) (m : RangeMap Unit)
    (hm : regexToRangeMap e = .ok m) (hpc : classPiecesOK e) :
    Gadget n (n.addRangeTransitions cur m cont) cur cont (fun w => ∃ c, w = [.ch c] ∧ classDen e c) := by
  have ⟨wm, lk⟩ := regexToRangeMap_spec builtinsWF e m hm hpc
  have st := step_addRanges n cur m cont hp.hcur wm hp.vcur.2.1
  refine (st.gadget hp (by rintro ⟨c, hc, _⟩; cases hc)).congrL (fun w => ?_)
  constructor
  · rintro ⟨y, rfl, c, hyc, hl⟩
    cases hyc
    exact ⟨c, rfl, (lk c).mp hl⟩
  · rintro ⟨c, rfl, hc⟩
    exact ⟨.ch c, rfl, c, rfl, (lk c).mpr hc⟩

theorem addSet_step (items : List CharOrRange) : ∀ (seen : List Nat) (cur cont : Nat) (n n' : NFA),
    cur < n.length → RangeMap.WF (n.st cur).ranges →
    (∀ it ∈ items, match it with | .chr _ => True | .rng s e => s ≤ e) →
    (∀ c ∈ seen, Edge n cur (some (Sym.ch c)) cont) →
    NFA.addSet items seen cur cont n = .ok n' →
    Step n n' cur (fun x => ∃ c, x = some (Sym.ch c) ∧ ∃ it ∈ items, itemHas it c) cont := by
  induction items with
  | nil =>
    intro seen cur cont n n' _ _ _ _ h
    simp only [NFA.addSet] at h
    cases h
    apply Step.skip
    rintro x ⟨c, _, it, hit, _⟩
    cases hit
  | cons it items ih =>
    intro seen cur cont n n' hcur hwf hok hseen h
    have hok' : ∀ it ∈ items, match it with | .chr _ => True | .rng s e => s ≤ e :=
      fun i hi => hok i (List.mem_cons_of_mem _ hi)
    cases it with
    | chr c =>
      have hX : ∀ x, ((x = some (Sym.ch c)) ∨ ∃ c', x = some (Sym.ch c') ∧ ∃ it ∈ items, itemHas it c') ↔
          ∃ c', x = some (Sym.ch c') ∧ ∃ it ∈ CharOrRange.chr c :: items, itemHas it c' := by
        intro x
        constructor
        · rintro (rfl | ⟨c', hx, it, hit, hh⟩)
          · exact ⟨c, rfl, .chr c, List.mem_cons_self, rfl⟩
          · exact ⟨c', hx, it, List.mem_cons_of_mem _ hit, hh⟩
        · rintro ⟨c', hx, it, hit, hh⟩
          rcases List.mem_cons.mp hit with rfl | hit'
          · left; rw [hx]; simp only [itemHas] at hh; rw [hh]
          · exact Or.inr ⟨c', hx, it, hit', hh⟩
      simp only [NFA.addSet] at h
      by_cases hs : seen.contains c = true
      · rw [if_pos hs] at h
        have s1 : Step n n cur (fun x => x = some (Sym.ch c)) cont :=
          Step.skip n cur cont _ (fun x hx => by
            rw [hx]; exact hseen c (List.contains_iff_mem.mp hs))
        exact (s1.trans (ih seen cur cont n n' hcur hwf hok' hseen h)).congr hX
      · rw [if_neg hs] at h
        obtain ⟨n1, h1, h⟩ := bind_ok h
        have s1 := step_addChar h1 hcur
        have hseen' : ∀ c' ∈ c :: seen, Edge n1 cur (some (Sym.ch c')) cont := by
          intro c' hc'
          rw [s1.edges]
          rcases List.mem_cons.mp hc' with rfl | hc'
          · exact Or.inr ⟨rfl, rfl, rfl⟩
          · exact Or.inl (hseen c' hc')
        exact (s1.trans (ih (c :: seen) cur cont n1 n' (by rw [s1.len]; exact hcur) (s1.rwf hwf) hok' hseen' h)).congr hX
    | rng s e =>
      have hX : ∀ x, ((∃ c', x = some (Sym.ch c') ∧ (s ≤ c' ∧ c' ≤ e)) ∨
            ∃ c', x = some (Sym.ch c') ∧ ∃ it ∈ items, itemHas it c') ↔
          ∃ c', x = some (Sym.ch c') ∧ ∃ it ∈ CharOrRange.rng s e :: items, itemHas it c' := by
        intro x
        constructor
        · rintro (⟨c', hx, hh⟩ | ⟨c', hx, it, hit, hh⟩)
          · exact ⟨c', hx, .rng s e, List.mem_cons_self, hh⟩
          · exact ⟨c', hx, it, List.mem_cons_of_mem _ hit, hh⟩
        · rintro ⟨c', hx, it, hit, hh⟩
          rcases List.mem_cons.mp hit with rfl | hit'
          · exact Or.inl ⟨c', hx, hh⟩
          · exact Or.inr ⟨c', hx, it, hit', hh⟩
      simp only [NFA.addSet] at h
      have hse : s ≤ e := hok (.rng s e) List.mem_cons_self
      have s1 := step_addRange n cur s e cont hcur hse hwf
      have hseen' : ∀ c' ∈ seen, Edge (n.addRangeTransition cur s e cont) cur (some (Sym.ch c')) cont := by
        intro c' hc'
        rw [s1.edges]
        exact Or.inl (hseen c' hc')
      exact (s1.trans (ih seen cur cont _ n' (by rw [s1.len]; exact hcur) (s1.rwf hwf) hok' hseen' h)).congr hX

theorem addStr_gadget (cs : List Nat) : ∀ (cur cont : Nat) (n n' : NFA), Pre n cur cont →
    NFA.addStr cs cur cont n = .ok n' →
    Gadget n n' cur cont (fun w => cs ≠ [] ∧ w = cs.map Sym.ch) := by
  induction cs with
  | nil =>
    intro cur cont n n' hp h
    simp only [NFA.addStr] at h
    cases h
    exact Gadget.empty hp _ (fun w h => h.1 rfl)
  | cons c rest ih =>
    intro cur cont n n' hp h
    cases rest with
    | nil =>
      simp only [NFA.addStr] at h
      refine ((step_addChar h hp.hcur).gadget hp (by simp)).congrL (fun w => ?_)
      constructor
      · rintro ⟨y, rfl, hy⟩
        cases hy
        exact ⟨by simp, rfl⟩
      · rintro ⟨_, rfl⟩
        exact ⟨.ch c, rfl, rfl⟩
    | cons c' cs =>
      simp only [NFA.addStr, newState_snd] at h
      obtain ⟨n1, h1, h⟩ := bind_ok h
      have pa := hp.freshCont
      have ga := (step_addChar h1 pa.hcur).gadget pa (by simp)
      have pb := pre_cat_b hp ga
      have gb := ih n.length cont n1 n' pb h
      refine (gadget_cat hp ga gb).congrL (fun w => ?_)
      constructor
      · rintro ⟨u, v, rfl, ⟨y, rfl, hy⟩, _, rfl⟩
        cases hy
        exact ⟨by simp, rfl⟩
      · rintro ⟨_, rfl⟩
        exact ⟨[.ch c], (c' :: cs).map Sym.ch, rfl, ⟨.ch c, rfl, rfl⟩, by simp, rfl⟩


/-! ## The core lemma -/

/-- `addRe re cur cont` hangs a sub-automaton for `den re` between the transition-less states
`cur` and `cont`; see `Gadget` / `Frame` for what else is guaranteed. -/
theorem addRe_gadget (re : Regex) : ∀ (cur cont : Nat) (n n' : NFA), Pre n cur cont → regexPiecesOK re →
    NFA.addRe re cur cont n = .ok n' → Gadget n n' cur cont (den re) := by
  induction re with
  | builtin name =>
    intro cur cont n n' hp _ h
    simp only [NFA.addRe] at h
    cases hb : builtinRanges name with
    | none => rw [hb] at h; cases h
    | some rs =>
      rw [hb] at h
      simp only [Except.ok.injEq] at h
      subst h
      have hm : regexToRangeMap (.builtin name) = .ok (builtinRangeMap rs) := by
        simp only [regexToRangeMap, hb]
      exact class_gadget hp _ _ hm trivial
  | var name =>
    intro cur cont n n' _ _ h
    simp only [NFA.addRe] at h
    cases h
  | chr c =>
    intro cur cont n n' hp _ h
    simp only [NFA.addRe] at h
    refine ((step_addChar h hp.hcur).gadget hp (by simp)).congrL (fun w => ?_)
    simp only [den]
    constructor
    · rintro ⟨y, rfl, hy⟩; cases hy; rfl
    · rintro rfl; exact ⟨.ch c, rfl, rfl⟩
  | str cs =>
    intro cur cont n n' hp _ h
    simp only [NFA.addRe] at h
    exact addStr_gadget cs cur cont n n' hp h
  | set items =>
    intro cur cont n n' hp hre h
    simp only [NFA.addRe] at h
    have st := addSet_step items [] cur cont n n' hp.hcur (hp.wf.rangesWF cur hp.hcur) hre
      (fun c hc => by cases hc) h
    refine (st.gadget hp (by rintro ⟨c, hc, _⟩; cases hc)).congrL (fun w => ?_)
    simp only [den]
    constructor
    · rintro ⟨y, rfl, c, hyc, hit⟩
      cases hyc
      exact ⟨c, rfl, hit⟩
    · rintro ⟨c, rfl, hit⟩
      exact ⟨.ch c, rfl, c, rfl, hit⟩
  | star r ih =>
    intro cur cont n n' hp hre h
    simp only [NFA.addRe, newState_snd, length_newState] at h
    obtain ⟨n1, h1, h⟩ := bind_ok h
    obtain ⟨n2, h2, h⟩ := bind_ok h
    obtain ⟨n3, h3, h⟩ := bind_ok h
    obtain ⟨n4, h4, h⟩ := bind_ok h
    have hl := length_newState n
    have hl0 := length_newState n.newState.1
    have g := ih n.length (n.length + 1) _ n1 hp.fresh2 hre h1
    have hl1 := g.frame.len
    have hc := hp.hcur
    have s2 := step_addEps h2 (by omega)
    have s3 := step_addEps h3 (by rw [s2.len]; omega)
    have s4 := step_addEps h4 (by rw [s3.len, s2.len]; omega)
    have s5 := step_addEps h (by rw [s4.len, s3.len, s2.len]; omega)
    exact gadget_star hp g s2 s3 s4 s5
  | plus r ih =>
    intro cur cont n n' hp hre h
    simp only [NFA.addRe, newState_snd, length_newState] at h
    obtain ⟨n1, h1, h⟩ := bind_ok h
    obtain ⟨n2, h2, h⟩ := bind_ok h
    obtain ⟨n3, h3, h⟩ := bind_ok h
    have hl := length_newState n
    have hl0 := length_newState n.newState.1
    have g := ih n.length (n.length + 1) _ n1 hp.fresh2 hre h1
    have hl1 := g.frame.len
    have hc := hp.hcur
    have s2 := step_addEps h2 (by omega)
    have s3 := step_addEps h3 (by rw [s2.len]; omega)
    have s4 := step_addEps h (by rw [s3.len, s2.len]; omega)
    exact gadget_plus hp g s2 s3 s4
  | opt r ih =>
    intro cur cont n n' hp hre h
    simp only [NFA.addRe, newState_snd, length_newState] at h
    obtain ⟨n1, h1, h⟩ := bind_ok h
    obtain ⟨n2, h2, h⟩ := bind_ok h
    have hl := length_newState n
    have g := ih n.length cont _ n1 hp.freshCur hre h1
    have hl1 := g.frame.len
    have hc := hp.hcur
    have s2 := step_addEps h2 (by omega)
    have s3 := step_addEps h (by rw [s2.len]; omega)
    exact gadget_opt hp g s2 s3
  | cat a b iha ihb =>
    intro cur cont n n' hp hre h
    simp only [NFA.addRe, newState_snd, length_newState] at h
    obtain ⟨n1, h1, h⟩ := bind_ok h
    have ga := iha cur n.length _ n1 hp.freshCont hre.1 h1
    have gb := ihb n.length cont n1 n' (pre_cat_b hp ga) hre.2 h
    exact gadget_cat hp ga gb
  | alt a b iha ihb =>
    intro cur cont n n' hp hre h
    simp only [NFA.addRe, newState_snd, length_newState] at h
    obtain ⟨n1, h1, h⟩ := bind_ok h
    obtain ⟨n2, h2, h⟩ := bind_ok h
    obtain ⟨n3, h3, h⟩ := bind_ok h
    have hl := length_newState n
    have hl0 := length_newState n.newState.1
    have ga := iha n.length cont _ n1 hp.freshCur2 hre.1 h1
    have gb := ihb (n.length + 1) cont n1 n2 (pre_alt_b hp ga) hre.2 h2
    have hl1 := ga.frame.len
    have hl2 := gb.frame.len
    have hc := hp.hcur
    have s3 := step_addEps h3 (by omega)
    have s4 := step_addEps h (by rw [s3.len]; omega)
    exact gadget_alt hp ga gb s3 s4
  | any =>
    intro cur cont n n' hp _ h
    simp only [NFA.addRe] at h
    refine ((step_addAny h hp.hcur).gadget hp (by rintro ⟨c, hc⟩; cases hc)).congrL (fun w => ?_)
    simp only [den]
    constructor
    · rintro ⟨y, rfl, c, hy⟩; cases hy; exact ⟨c, rfl⟩
    · rintro ⟨c, rfl⟩; exact ⟨.ch c, rfl, c, rfl⟩
  | eoi =>
    intro cur cont n n' hp _ h
    simp only [NFA.addRe] at h
    refine ((step_addEoi h hp.hcur).gadget hp (by simp)).congrL (fun w => ?_)
    simp only [den]
    constructor
    · rintro ⟨y, rfl, hy⟩; cases hy; rfl
    · rintro rfl; exact ⟨.eoi, rfl, rfl⟩
  | diff a b _ _ =>
    intro cur cont n n' hp hre h
    simp only [NFA.addRe] at h
    obtain ⟨m, hm, h⟩ := bind_ok h
    simp only [pure, Except.pure, Except.ok.injEq] at h
    subst h
    exact class_gadget hp _ m hm (regexPiecesOK_class _ hre)


/-- The core lemma in terms of `NPath`: (a) frame, (b) well-formedness, (c) new edges only enter
`cont` or fresh states, (d) paths between old states. -/
theorem addRe_core (re : Regex) (cur cont : Nat) (n n' : NFA) (hwf : NFAWF n) (hcur : cur < n.length)
    (hcont : cont < n.length) (hne : cur ≠ cont) (vcur : NFA.virgin n cur) (vcont : NFA.virgin n cont)
    (hre : regexPiecesOK re) (h : NFA.addRe re cur cont n = .ok n') :
    n'.length ≥ n.length ∧
    (∀ s, s < n.length → s ≠ cur → n'.st s = n.st s) ∧
    (∀ s, (n'.st s).acc = (n.st s).acc) ∧
    NFAWF n' ∧
    (∀ a x b, Edge n' a x b → Edge n a x b ∨ b = cont ∨ n.length ≤ b) ∧
    (∀ p q w, p < n.length → q < n.length →
      (NPath n' p w q ↔ NPath n p w q ∨
        (q = cont ∧ ∃ w0 u, w = w0 ++ u ∧ NPath n p w0 cur ∧ den re u))) := by
  have hp : Pre n cur cont := ⟨hwf, hcur, hcont, hne, vcur, vcont⟩
  have g := addRe_gadget re cur cont n n' hp hre h
  refine ⟨g.frame.len, g.frame.old, g.frame.accs, g.frame.wf, g.frame.tgt, ?_⟩
  intro p q w hpl hq
  rw [npath_iff_path, npath_iff_path, g.paths_old hp p q w hpl hq]
  constructor
  · rintro (h1 | ⟨h1, w0, u, h2, h3, h4⟩)
    · exact Or.inl h1
    · exact Or.inr ⟨h1, w0, u, h2, (npath_iff_path _ _ _ _).mpr h3, h4⟩
  · rintro (h1 | ⟨h1, w0, u, h2, h3, h4⟩)
    · exact Or.inl h1
    · exact Or.inr ⟨h1, w0, u, h2, (npath_iff_path _ _ _ _).mp h3, h4⟩

/-! ## `add_regex` -/

/-- Extra invariant of the NFA accumulated by `add_regex`, not implied by `NFAWF`: no transition
of any kind enters the initial state `0`. (Without it a word could loop from `0` back to `0`
before taking the ε-edge into the new rule's sub-automaton, and `NPath nfa' 0 w reAcc ↔ den re w`
would be false.) -/
structure NFAShape (n : NFA) : Prop where
  noEnter0 : ∀ s, ¬ (0 ∈ (n.st s).eps ∨ 0 ∈ (n.st s).any ∨ 0 ∈ (n.st s).eoi ∨
    (∃ e ∈ (n.st s).chars, 0 ∈ e.2) ∨ (∃ r ∈ (n.st s).ranges, 0 ∈ r.2.2))

theorem shape_iff_edges {n : NFA} (hwf : NFAWF n) : NFAShape n ↔ ∀ a x, ¬ Edge n a x 0 := by
  constructor
  · intro hs a x h
    apply hs.noEnter0 a
    cases x with
    | none => exact Or.inl h
    | some y =>
      cases y with
      | eoi => exact Or.inr (Or.inr (Or.inl h))
      | ch c =>
        rcases h with ⟨tg, h1, h2⟩ | ⟨r, h1, _, _, h2⟩ | h
        · exact Or.inr (Or.inr (Or.inr (Or.inl ⟨(c, tg), h1, h2⟩)))
        · exact Or.inr (Or.inr (Or.inr (Or.inr ⟨r, h1, h2⟩)))
        · exact Or.inr (Or.inl h)
  · intro he
    refine ⟨fun s ht => ?_⟩
    by_cases hs : s < n.length
    · rcases ht with ht | ht | ht | ⟨e, he1, he2⟩ | ⟨r, hr1, hr2⟩
      · exact he s none ht
      · exact he s (some (.ch 0)) (Or.inr (Or.inr ht))
      · exact he s (some .eoi) ht
      · exact he s (some (.ch e.1)) (Or.inl ⟨e.2, he1, he2⟩)
      · exact he s (some (.ch r.1))
          (Or.inr (Or.inl ⟨r, hr1, Nat.le_refl _, wfFrom_le (hwf.rangesWF s hs) r hr1, hr2⟩))
    · rw [st_ge n s (by omega)] at ht
      rcases ht with ht | ht | ht | ⟨e, he1, _⟩ | ⟨r, hr1, _⟩
      · cases ht
      · cases ht
      · cases ht
      · cases he1
      · cases hr1

/-- nothing but the empty path ends in a state that no edge enters -/
theorem path_into0 {n : NFA} (hno : ∀ a x, ¬ Edge n a x 0) {a q : Nat} {u : List Sym}
    (h : Path (Edge n) a u q) (hq : q = 0) : a = 0 ∧ u = [] := by
  induction h with
  | refl s => exact ⟨hq, rfl⟩
  | step he _ ih =>
    obtain ⟨rfl, _⟩ := ih hq
    exact absurd he (hno _ _)

theorem wf_new : NFAWF NFA.new := by
  apply wf_of_edges
  · exact Nat.zero_lt_one
  · intro s hs
    have : s = 0 := by simp only [NFA.new, List.length_singleton] at hs; omega
    subst this; trivial
  · intro s hs
    have : s = 0 := by simp only [NFA.new, List.length_singleton] at hs; omega
    subst this; exact List.nodup_nil
  · intro a x b h
    have ha := edge_lt h
    have : a = 0 := by simp only [NFA.new, List.length_singleton] at ha; omega
    subst this
    exact absurd h (sedge_empty x b)

theorem shape_new : NFAShape NFA.new := by
  rw [shape_iff_edges wf_new]
  intro a x h
  have ha := edge_lt h
  have : a = 0 := by simp only [NFA.new, List.length_singleton] at ha; omega
  subst this
  exact absurd h (sedge_empty x 0)

theorem targetsNonempty_new : TargetsNonempty NFA.new := by
  intro s hs
  have : s = 0 := by simp only [NFA.new, List.length_singleton] at hs; omega
  subst this
  refine ⟨?_, ?_⟩
  · intro e he; cases he
  · intro r hr; cases hr

theorem makeAcc_spec {n n' : NFA} {s : Nat} {a : Acc} (h : n.makeStateAccepting s a = .ok n') (hs : s < n.length) :
    n'.length = n.length ∧ (∀ b, b ≠ s → n'.st b = n.st b) ∧ n'.st s = { n.st s with acc := some a } := by
  unfold NFA.makeStateAccepting at h
  split at h
  · cases h
  · cases h
    exact ⟨List.length_modify _ _ _, fun b hb => st_modify_ne n s b _ hb, st_modify_self n s _ hs⟩

theorem sedge_acc (st : NState) (a : Option Acc) (x : Option Sym) (b : Nat) :
    SEdge { st with acc := a } x b ↔ SEdge st x b := by
  cases x with
  | none => exact Iff.rfl
  | some y => cases y <;> exact Iff.rfl

/-- the four preparatory steps of `addRegex` (accepting state, start state, ε-edge from `0`) -/
structure Prep (n n4 : NFA) (acc : Acc) : Prop where
  len : n4.length = n.length + 2
  wf : NFAWF n4
  edges : ∀ a x b, Edge n4 a x b ↔ addEps (Edge n) 0 (n.length + 1) a x b
  stOld : ∀ a, a < n.length → a ≠ 0 → n4.st a = n.st a
  accOld : ∀ a, a ≠ n.length → (n4.st a).acc = (n.st a).acc
  accNew : (n4.st n.length).acc = some acc
  vInit : NFA.virgin n4 (n.length + 1)
  vAcc : NFA.virgin n4 n.length
  tne : TargetsNonempty n → TargetsNonempty n4

theorem prep {n n2 n4 : NFA} {acc : Acc} (hwf : NFAWF n)
    (h2 : n.newState.1.makeStateAccepting n.length acc = .ok n2)
    (h4 : n2.newState.1.addEmptyTransition 0 (n.length + 1) = .ok n4) : Prep n n4 acc := by
  have hl1 := length_newState n
  have h0 := hwf.nonempty
  obtain ⟨hl2, ho2, hs2⟩ := makeAcc_spec h2 (by omega)
  have hl3 := length_newState n2
  have s4 := step_addEps h4 (by omega)
  have hl4 := s4.len
  have hst2 : n2.st n.length = { NState.empty with acc := some acc } := by
    rw [hs2, st_newState, st_ge n _ (Nat.le_refl _)]
  have he2 : ∀ a x b, Edge n2 a x b ↔ Edge n a x b := by
    intro a x b
    unfold Edge
    by_cases ha : a = n.length
    · subst ha; rw [hs2, sedge_acc, st_newState]
    · rw [ho2 a ha, st_newState]
  have wf2 : NFAWF n2 := by
    apply wf_of_edges
    · omega
    · intro s _
      by_cases ha : s = n.length
      · subst ha; rw [hst2]; trivial
      · rw [ho2 s ha]; exact (wf_newState hwf).rangesWF s (by omega)
    · intro s _
      by_cases ha : s = n.length
      · subst ha; rw [hst2]; exact List.nodup_nil
      · rw [ho2 s ha]; exact (wf_newState hwf).charsNodup s (by omega)
    · intro a x b hab
      have := edge_target_lt hwf ((he2 a x b).mp hab)
      omega
  have wf3 := wf_newState wf2
  refine ⟨by omega, s4.wf wf3 (by omega), ?_, ?_, ?_, ?_, ?_, ?_, ?_⟩
  · intro a x b
    rw [s4.edges, edge_newState, he2]; rfl
  · intro a ha ha0
    rw [s4.other a ha0, st_newState, ho2 a (by omega), st_newState]
  · intro a ha
    rw [s4.accAll, st_newState, ho2 a ha, st_newState]
  · rw [s4.accAll, st_newState, hst2]
  · apply virgin_of_st_eq (n := n) _ (virgin_ge (by omega))
    rw [s4.other _ (by omega), st_newState, ho2 _ (by omega), st_newState]
  · unfold NFA.virgin
    rw [s4.other _ (by omega), st_newState, hst2]
    exact ⟨rfl, rfl, rfl, rfl, rfl⟩
  · intro hne
    apply s4.tneAll
    apply tne_newState
    intro s _
    by_cases ha : s = n.length
    · subst ha; rw [hst2]
      refine ⟨?_, ?_⟩
      · intro e he; cases he
      · intro r hr; cases hr
    · rw [ho2 s ha]; exact tne_newState hne s (by omega)

theorem addRegex_unfold {nfa nfa' : NFA} {re : Regex} {ctx : Option Nat} {value : Nat}
    (h : nfa.addRegex re ctx value = .ok nfa') :
    ∃ n2 n4, nfa.newState.1.makeStateAccepting nfa.length { value := value, ctx := ctx } = .ok n2 ∧
      n2.newState.1.addEmptyTransition 0 (nfa.length + 1) = .ok n4 ∧
      NFA.addRe re (nfa.length + 1) nfa.length n4 = .ok nfa' := by
  simp only [NFA.addRegex, newState_snd] at h
  obtain ⟨n2, h2, h⟩ := bind_ok h
  obtain ⟨n4, h4, h⟩ := bind_ok h
  have hl2 : n2.length = nfa.length + 1 := by
    rw [(makeAcc_spec h2 (by rw [length_newState]; omega)).1, length_newState]
  rw [hl2] at h4 h
  exact ⟨n2, n4, h2, h4, h⟩

theorem pre_of_prep {n n4 : NFA} {acc : Acc} (hwf : NFAWF n) (p : Prep n n4 acc) :
    Pre n4 (n.length + 1) n.length :=
  ⟨p.wf, by rw [p.len]; omega, by rw [p.len]; omega, by omega, p.vInit, p.vAcc⟩

end Thompson

open Thompson in
/-- `add_regex` preserves the shape invariant -/
theorem addRegex_shape (nfa : NFA) (hwf : NFAWF nfa) (hsh : Thompson.NFAShape nfa) (re : Regex)
    (hre : regexPiecesOK re) (ctx : Option Nat) (value : Nat) (nfa' : NFA)
    (h : nfa.addRegex re ctx value = .ok nfa') : Thompson.NFAShape nfa' := by
  obtain ⟨n2, n4, h2, h4, h5⟩ := addRegex_unfold h
  have p := prep hwf h2 h4
  have g := addRe_gadget re _ _ n4 nfa' (pre_of_prep hwf p) hre h5
  have h0 := hwf.nonempty
  rw [shape_iff_edges g.frame.wf]
  intro a x hab
  rcases g.frame.tgt a x 0 hab with h1 | h1 | h1
  · rcases (p.edges a x 0).mp h1 with h1 | ⟨_, _, h1⟩
    · exact (shape_iff_edges hwf).mp hsh a x h1
    · omega
  · omega
  · have := p.len; omega

open Thompson in
/-- `add_regex` keeps every listed target set non-empty -/
theorem addRegex_targetsNonempty (nfa : NFA) (hwf : NFAWF nfa) (hne : Thompson.TargetsNonempty nfa)
    (re : Regex) (hre : regexPiecesOK re) (ctx : Option Nat) (value : Nat) (nfa' : NFA)
    (h : nfa.addRegex re ctx value = .ok nfa') : Thompson.TargetsNonempty nfa' := by
  obtain ⟨n2, n4, h2, h4, h5⟩ := addRegex_unfold h
  have p := prep hwf h2 h4
  have g := addRe_gadget re _ _ n4 nfa' (pre_of_prep hwf p) hre h5
  exact g.frame.tne (p.tne hne)

open Thompson in
/-- Correctness of `add_regex`. The hypothesis `NFAShape nfa` (no transition enters state `0`;
it holds of `NFA.new` and is preserved, see `Thompson.shape_new`, `addRegex_shape`) is needed in
addition to `NFAWF`: see `Thompson.NFAShape`. -/
theorem addRegex_correct (nfa : NFA) (hwf : NFAWF nfa) (hsh : Thompson.NFAShape nfa) (re : Regex)
    (hre : regexPiecesOK re) (ctx : Option Nat) (value : Nat) (nfa' : NFA)
    (h : nfa.addRegex re ctx value = .ok nfa') :
    NFAWF nfa' ∧ nfa'.length ≥ nfa.length + 2 ∧
    (nfa'.st nfa.length).acc = some { value := value, ctx := ctx } ∧
    (∀ w, NPath nfa' 0 w nfa.length ↔ den re w) ∧
    (∀ a, a < nfa.length → (nfa'.st a).acc = (nfa.st a).acc) ∧
    (∀ a w, a < nfa.length → (NPath nfa' 0 w a ↔ NPath nfa 0 w a)) ∧
    (∀ a, nfa.length < a → a < nfa'.length → (nfa'.st a).acc = none) := by
  obtain ⟨n2, n4, h2, h4, h5⟩ := addRegex_unfold h
  have p := prep hwf h2 h4
  have hp := pre_of_prep hwf p
  have g := addRe_gadget re _ _ n4 nfa' hp hre h5
  have h0 := hwf.nonempty
  have hl4 := p.len
  have hl5 := g.frame.len
  have hno0 := (shape_iff_edges hwf).mp hsh
  -- paths of the prepared automaton that start in an old state
  have dInit : Dead (Edge nfa) (nfa.length + 1) := fun x b => edge_ge (by omega) x b
  have hP4 : ∀ p' w q, Path (Edge n4) p' w q ↔
      Path (Edge nfa) p' w q ∨ (q = nfa.length + 1 ∧ Path (Edge nfa) p' w 0) := by
    intro p' w q
    rw [Path.congr p.edges, path_addEps_tgtDead _ _ _ _ _ _ dInit (by omega)]
  have hloop0 : ∀ w, Path (Edge nfa) 0 w 0 → w = [] := fun w hw => (path_into0 hno0 hw rfl).2
  refine ⟨g.frame.wf, by omega, ?_, ?_, ?_, ?_, ?_⟩
  · rw [g.frame.accs]; exact p.accNew
  · intro w
    rw [npath_iff_path, g.paths_old hp 0 nfa.length w (by omega) (by omega)]
    constructor
    · rintro (h1 | ⟨_, w0, u, rfl, h1, hu⟩)
      · rcases (hP4 0 w nfa.length).mp h1 with h1 | ⟨h1, _⟩
        · rcases path_end hwf h1 with h1 | h1 <;> omega
        · omega
      · rcases (hP4 0 w0 (nfa.length + 1)).mp h1 with h1 | ⟨_, h1⟩
        · rcases path_end hwf h1 with h1 | h1 <;> omega
        · rw [hloop0 w0 h1]; exact hu
    · intro hu
      exact Or.inr ⟨rfl, [], w, rfl, (hP4 0 [] _).mpr (Or.inr ⟨rfl, Path.refl 0⟩), hu⟩
  · intro a ha
    rw [g.frame.accs, p.accOld a (by omega)]
  · intro a w ha
    rw [npath_iff_path, npath_iff_path, g.paths_old hp 0 a w (by omega) (by omega), hP4]
    constructor
    · rintro ((h1 | ⟨h1, _⟩) | ⟨h1, _⟩)
      · exact h1
      · omega
      · omega
    · intro h1; exact Or.inl (Or.inl h1)
  · intro a ha _
    rw [g.frame.accs, p.accOld a (by omega), st_ge nfa a (by omega)]
    rfl

end Lexgen
