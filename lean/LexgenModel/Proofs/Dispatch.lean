import LexgenModel.Model.Codegen
/-!
# Index arithmetic of the state renumbering done by code generation

States with exactly one predecessor are inlined and get no `match self.0.__state` arm; the
remaining states are renumbered consecutively, and the arm with the largest number gets the
pattern `_`.  This file proves that the number stored in `__state` for a state that has an arm
selects exactly the arm holding that state's code.
-/
namespace Lexgen

/-- the state has its own `match` arm (it is not inlined at its transition sites) -/
def hasArm (d : DFA Trans) (s : Nat) : Bool := !((d.st s).preds.length == 1 && !(d.st s).initial)

/-- initial states are never single-predecessor states (they have no predecessors at all) -/
def InitialNotInlined (d : DFA Trans) : Prop :=
  ∀ i, i < d.length → (d.st i).initial = true → ¬ ((d.st i).preds.length = 1)

namespace Dispatch

/-! ## Counting indices below a bound -/

/-- number of indices below `n` satisfying `q` -/
def cnt (q : Nat → Bool) (n : Nat) : Nat := ((List.range n).filter q).length

theorem cnt_succ (q : Nat → Bool) (n : Nat) :
    cnt q (n + 1) = cnt q n + (if q n = true then 1 else 0) := by
  simp only [cnt, List.range_succ, List.filter_append, List.length_append]
  by_cases h : q n = true
  · simp [h]
  · simp [h]

theorem cnt_succ_of_true (q : Nat → Bool) (n : Nat) (h : q n = true) :
    cnt q (n + 1) = cnt q n + 1 := by
  rw [cnt_succ, if_pos h]

theorem cnt_le_succ (q : Nat → Bool) (n : Nat) : cnt q n ≤ cnt q (n + 1) := by
  rw [cnt_succ]; exact Nat.le_add_right _ _

theorem cnt_mono (q : Nat → Bool) {m n : Nat} (h : m ≤ n) : cnt q m ≤ cnt q n := by
  induction n with
  | zero =>
    have : m = 0 := by omega
    subst this; exact Nat.le_refl _
  | succ k ih =>
    by_cases hk : m = k + 1
    · subst hk; exact Nat.le_refl _
    · exact Nat.le_trans (ih (by omega)) (cnt_le_succ q k)

/-- strict growth across an index satisfying `q` -/
theorem cnt_lt_of_true (q : Nat → Bool) {s t : Nat} (hst : s < t) (hs : q s = true) :
    cnt q s < cnt q t := by
  have h1 := cnt_succ_of_true q s hs
  have h2 : cnt q (s + 1) ≤ cnt q t := cnt_mono q hst
  omega

/-- complementary predicates split the indices below `n` -/
theorem cnt_compl (p a : Nat → Bool) (L : Nat) (h : ∀ i, i < L → p i = !a i) (n : Nat)
    (hn : n ≤ L) : cnt p n + cnt a n = n := by
  induction n with
  | zero => simp [cnt]
  | succ k ih =>
    have ih' := ih (by omega)
    have hk := h k (by omega)
    rw [cnt_succ, cnt_succ, hk]
    cases hak : a k
    · simp; omega
    · simp; omega

/-- the elements below `s` of a filtered range are the filtered range up to `s` -/
theorem filter_lt_range (q : Nat → Bool) (s L : Nat) (hs : s ≤ L) :
    ((List.range L).filter q).filter (· < s) = (List.range s).filter q := by
  induction L with
  | zero =>
    have : s = 0 := by omega
    subst this; rfl
  | succ k ih =>
    by_cases hk : s ≤ k
    · rw [List.range_succ, List.filter_append, List.filter_append, ih hk]
      have hns : ¬ k < s := by omega
      by_cases hq : q k = true
      · simp [hq, hns]
      · simp [hq]
    · have : s = k + 1 := by omega
      subst this
      apply List.filter_eq_self.2
      intro x hx
      have hx' := (List.mem_filter.1 hx).1
      have := List.mem_range.1 hx'
      simp [this]

/-- `renumber` on a filtered range counts the complementary indices -/
theorem renumber_eq_cnt (p a : Nat → Bool) (L : Nat) (h : ∀ i, i < L → p i = !a i) (s : Nat)
    (hs : s ≤ L) : renumber ((List.range L).filter p) s = cnt a s := by
  have hc := cnt_compl p a L h s hs
  unfold renumber
  rw [filter_lt_range p s L hs]
  unfold cnt at hc
  unfold cnt
  omega

/-! ## `dispatch` on concatenated arm lists -/

theorem dispatch_append_skip (l1 l2 : List (Pat × Nat)) (n : Nat)
    (h : ∀ x, x ∈ l1 → ∃ k, x.1 = Pat.num k ∧ k ≠ n) :
    dispatch (l1 ++ l2) n = dispatch l2 n := by
  induction l1 with
  | nil => rfl
  | cons x xs ih =>
    obtain ⟨pt, s⟩ := x
    obtain ⟨k, hk, hne⟩ := h (pt, s) List.mem_cons_self
    simp only at hk
    subst hk
    simp only [List.cons_append, dispatch, if_neg hne]
    exact ih (fun y hy => h y (List.mem_cons_of_mem _ hy))

theorem dispatch_append_some (l1 l2 : List (Pat × Nat)) (n s : Nat)
    (h : dispatch l1 n = some s) : dispatch (l1 ++ l2) n = some s := by
  induction l1 with
  | nil => simp [dispatch] at h
  | cons x xs ih =>
    obtain ⟨pt, t⟩ := x
    cases pt with
    | num k =>
      simp only [List.cons_append, dispatch] at h ⊢
      by_cases hk : k = n
      · rw [if_pos hk] at h ⊢; exact h
      · rw [if_neg hk] at h ⊢; exact ih h
    | wild =>
      simp only [List.cons_append, dispatch] at h ⊢
      exact h

/-! ## The arms of a DFA -/

/-- the "exactly one predecessor" predicate of `inlinedStates` -/
def onePred (d : DFA Trans) (i : Nat) : Bool := (d.st i).preds.length == 1

/-- the arm generated for state `i` -/
def armOf (d : DFA Trans) (i : Nat) : Pat × Nat :=
  (if renumber (inlinedStates d) i == d.length - (inlinedStates d).length - 1 then Pat.wild
   else Pat.num (renumber (inlinedStates d) i), i)

/-- the arms of the states below `n` -/
def armsUpTo (d : DFA Trans) (n : Nat) : List (Pat × Nat) :=
  ((List.range n).filter (hasArm d)).map (armOf d)

theorem inlinedStates_eq (d : DFA Trans) :
    inlinedStates d = (List.range d.length).filter (onePred d) := rfl

theorem stateArms_eq (d : DFA Trans) : stateArms d = armsUpTo d d.length := rfl

theorem onePred_compl (d : DFA Trans) (hI : InitialNotInlined d) (i : Nat) (hi : i < d.length) :
    onePred d i = !hasArm d i := by
  have h := hI i hi
  unfold onePred hasArm
  cases h1 : (d.st i).initial
  · simp
  · cases h2 : ((d.st i).preds.length == 1)
    · simp
    · exact absurd (eq_of_beq h2) (h h1)

/-- under `InitialNotInlined`, the inlined states are exactly the states without an arm -/
theorem mem_inlinedStates_iff (d : DFA Trans) (hI : InitialNotInlined d) (i : Nat)
    (hi : i < d.length) : i ∈ inlinedStates d ↔ hasArm d i = false := by
  rw [inlinedStates_eq, List.mem_filter, List.mem_range, onePred_compl d hI i hi]
  cases hasArm d i <;> simp [hi]

theorem renumber_eq (d : DFA Trans) (hI : InitialNotInlined d) (s : Nat) (hs : s ≤ d.length) :
    renumber (inlinedStates d) s = cnt (hasArm d) s :=
  renumber_eq_cnt (onePred d) (hasArm d) d.length (onePred_compl d hI) s hs

/-- the number of arms -/
theorem arms_count (d : DFA Trans) (hI : InitialNotInlined d) :
    d.length - (inlinedStates d).length = cnt (hasArm d) d.length := by
  have hc := cnt_compl (onePred d) (hasArm d) d.length (onePred_compl d hI) d.length
    (Nat.le_refl _)
  have : (inlinedStates d).length = cnt (onePred d) d.length := rfl
  omega

/-- arms of smaller states carry a different number -/
theorem arm_before (d : DFA Trans) (hI : InitialNotInlined d) (i s : Nat) (his : i < s)
    (hs : s < d.length) (ai : hasArm d i = true) (as : hasArm d s = true) :
    ∃ k, (armOf d i).1 = Pat.num k ∧ k ≠ cnt (hasArm d) s := by
  have h1 := cnt_lt_of_true (hasArm d) his ai
  have h2 := cnt_lt_of_true (hasArm d) hs as
  have hr := renumber_eq d hI i (by omega)
  have hc := arms_count d hI
  refine ⟨cnt (hasArm d) i, ?_, by omega⟩
  have hne : ¬ (cnt (hasArm d) i = d.length - (inlinedStates d).length - 1) := by
    omega
  simp only [armOf, beq_iff_eq, hr, if_neg hne]

/-- the arm of `s` matches its number -/
theorem arm_at (d : DFA Trans) (hI : InitialNotInlined d) (s : Nat) (hs : s < d.length) :
    dispatch [armOf d s] (cnt (hasArm d) s) = some s := by
  have hr := renumber_eq d hI s (by omega)
  unfold armOf
  rw [hr]
  by_cases h : cnt (hasArm d) s = d.length - (inlinedStates d).length - 1
  · simp only [beq_iff_eq, if_pos h, dispatch]
  · simp only [beq_iff_eq, if_neg h, dispatch, if_true]

theorem dispatch_armsUpTo_succ (d : DFA Trans) (hI : InitialNotInlined d) (s : Nat)
    (hs : s < d.length) (as : hasArm d s = true) :
    dispatch (armsUpTo d (s + 1)) (cnt (hasArm d) s) = some s := by
  unfold armsUpTo
  rw [List.range_succ, List.filter_append, List.map_append]
  have hf : List.filter (hasArm d) [s] = [s] := by simp [as]
  rw [hf, List.map_cons, List.map_nil, dispatch_append_skip]
  · exact arm_at d hI s hs
  · intro x hx
    obtain ⟨i, hi, rfl⟩ := List.mem_map.1 hx
    have hi' := List.mem_filter.1 hi
    exact arm_before d hI i s (List.mem_range.1 hi'.1) hs hi'.2 as

theorem armsUpTo_add (d : DFA Trans) (m k : Nat) :
    ∃ l, armsUpTo d (m + k) = armsUpTo d m ++ l := by
  unfold armsUpTo
  rw [List.range_add, List.filter_append, List.map_append]
  exact ⟨_, rfl⟩

end Dispatch

open Dispatch

set_option linter.unusedVariables false in
/-- renumbering is strictly monotone on states that have an arm -/
theorem renumber_strictMono (d : DFA Trans) (hI : InitialNotInlined d) (s t : Nat)
    (hs : s < d.length) (ht : t < d.length) (hst : s < t) (as : hasArm d s = true) (at_ : hasArm d t = true) :
    renumber (inlinedStates d) s < renumber (inlinedStates d) t := by
  rw [renumber_eq d hI s (by omega), renumber_eq d hI t (by omega)]
  exact cnt_lt_of_true (hasArm d) hst as

/-- every renumbered index is below the number of arms -/
theorem renumber_lt_arms (d : DFA Trans) (hI : InitialNotInlined d) (s : Nat) (hs : s < d.length) (as : hasArm d s = true) :
    renumber (inlinedStates d) s < d.length - (inlinedStates d).length := by
  rw [renumber_eq d hI s (by omega), arms_count d hI]
  exact cnt_lt_of_true (hasArm d) hs as

/-- The number stored in `__state` for a state with an arm selects exactly that state's arm
(including the `_` arm of the largest number). -/
theorem dispatch_correct (d : DFA Trans) (hI : InitialNotInlined d) (s : Nat) (hs : s < d.length)
    (as : hasArm d s = true) :
    dispatch (stateArms d) (renumber (inlinedStates d) s) = some s := by
  rw [renumber_eq d hI s (by omega), stateArms_eq]
  have hL : d.length = (s + 1) + (d.length - (s + 1)) := by omega
  obtain ⟨l, hl⟩ := armsUpTo_add d (s + 1) (d.length - (s + 1))
  rw [hL, hl]
  exact dispatch_append_some _ _ _ _ (dispatch_armsUpTo_succ d hI s hs as)

/-- `switch` stores the number whose arm is the entry state of the named rule set. -/
theorem switch_correct (d : DFA Trans) (hI : InitialNotInlined d) (entries : List (String × Nat)) (name : String) (e : Nat)
    (he : (name, e) ∈ entries) (hlt : e < d.length) (hini : (d.st e).initial = true) :
    ∃ n, (name, n) ∈ switchTable d entries ∧ dispatch (stateArms d) n = some e := by
  refine ⟨renumber (inlinedStates d) e, ?_, ?_⟩
  · unfold switchTable
    exact List.mem_map.2 ⟨(name, e), he, rfl⟩
  · apply dispatch_correct d hI e hlt
    simp [hasArm, hini]

/-! ## Non-vacuity -/

/-- state 0 initial, state 1 inlined (single predecessor), state 2 with two predecessors,
state 3 initial (gets the `_` arm) -/
def exampleDfa : DFA Trans :=
  [ { initial := true },
    { preds := [0] },
    { preds := [0, 1] },
    { initial := true } ]

example : InitialNotInlined exampleDfa := by
  unfold InitialNotInlined
  decide

example : dispatch (stateArms exampleDfa) (renumber (inlinedStates exampleDfa) 2) = some 2 := by
  decide

example : stateArms exampleDfa = [(Pat.num 0, 0), (Pat.num 1, 2), (Pat.wild, 3)] := by
  decide

end Lexgen
