import LexgenModel.Model.Codegen
import LexgenModel.Spec.Scan
/-!
# Index arithmetic of the state renumbering done by code generation

States that are inlined at their transition sites get no `match self.0.__state` arm; the remaining
states are renumbered consecutively, and the arm with the largest number gets the pattern `_`.
This file proves that the number stored in `__state` for a state that has an arm selects exactly
the arm holding that state's code — for ANY set `inl` of inlined states that is strictly ascending,
within range and free of initial states (`InlOK`). The macro's current policy (`isInlined`:
not initial, exactly one predecessor, reached from it through exactly one arm) is one such set
(`inlOK_inlinedStates`).
-/
namespace Lexgen

/-- the state has its own `match` arm (it is not inlined at its transition site) -/
def hasArm (inl : List Nat) (s : Nat) : Bool := !inl.contains s

/-- an initial state is not inlined under the macro's current policy -/
theorem isInlined_of_initial (d : DFA Trans) (i : Nat) (h : (d.st i).initial = true) :
    isInlined d i = false := by
  unfold isInlined
  rw [h]
  rfl

/-- a state that is not inlined at its transition site has its own arm -/
theorem hasArm_of_not_inlinedAt (inl : List Nat) (t : Nat) (h : inlinedAt inl t = false) :
    hasArm inl t = true := by
  unfold inlinedAt at h
  unfold hasArm
  rw [h]
  rfl

/-- an initial state has its own arm -/
theorem hasArm_of_initial (d : DFA Trans) (inl : List Nat) (hI : InlOK d inl) (i : Nat)
    (h : (d.st i).initial = true) : hasArm inl i = true := by
  unfold hasArm
  cases hc : inl.contains i with
  | false => rfl
  | true =>
    have hm : i ∈ inl := by simpa using hc
    have := (hI.2 i hm).2
    rw [h] at this
    cases this

/-! ## The macro's current policy is one admissible choice -/

theorem pairwise_lt_range (n : Nat) : (List.range n).Pairwise (· < ·) := by
  induction n with
  | zero => simp
  | succ k ih =>
    rw [List.range_succ, List.pairwise_append]
    refine ⟨ih, by simp, ?_⟩
    intro a ha b hb
    have ha' := List.mem_range.1 ha
    have hb' : b = k := by simpa using hb
    omega

theorem inlOK_inlinedStates (d : DFA Trans) : InlOK d (inlinedStates d) := by
  refine ⟨(pairwise_lt_range d.length).filter _, ?_⟩
  intro i hi
  have hi' := List.mem_filter.1 hi
  refine ⟨List.mem_range.1 hi'.1, ?_⟩
  cases hini : (d.st i).initial with
  | false => rfl
  | true =>
    have := isInlined_of_initial d i hini
    rw [this] at hi'
    exact absurd hi'.2 (by simp)

/-! ## Soundness of the boolean checker `inlOK` -/

theorem ascending_pairwise : ∀ (l : List Nat), ascending l = true → l.Pairwise (· < ·)
  | [], _ => List.Pairwise.nil
  | [a], _ => by simp
  | a :: b :: rest, h => by
    simp only [ascending, Bool.and_eq_true, decide_eq_true_eq] at h
    have ih := ascending_pairwise (b :: rest) h.2
    refine List.Pairwise.cons ?_ ih
    intro x hx
    rcases List.mem_cons.1 hx with rfl | hx'
    · exact h.1
    · exact Nat.lt_trans h.1 ((List.pairwise_cons.1 ih).1 x hx')

theorem inlOK_sound (d : DFA Trans) (inl : List Nat) (h : inlOK d inl = true) : InlOK d inl := by
  simp only [inlOK, Bool.and_eq_true] at h
  refine ⟨ascending_pairwise inl h.1, ?_⟩
  intro i hi
  have := (List.all_eq_true.1 h.2) i hi
  simp only [Bool.and_eq_true, decide_eq_true_eq, Bool.not_eq_true'] at this
  exact this

namespace Dispatch

/-! ## Counting indices below a bound -/

/-- number of indices below `n` satisfying `q` -/
def cnt (q : Nat → Bool) (n : Nat) : Nat := ((List.range n).filter q).length

theorem cnt_succ (q : Nat → Bool) (n : Nat) :
    cnt q (n + 1) = cnt q n + (if q n = true then 1 else 0) := by
  simp only [cnt, List.range_succ, List.filter_append, List.length_append]
  by_cases h : q n = true
  · simp [h]
  · simp [h]

theorem cnt_succ_of_true (q : Nat → Bool) (n : Nat) (h : q n = true) :
    cnt q (n + 1) = cnt q n + 1 := by
  rw [cnt_succ, if_pos h]

theorem cnt_le_succ (q : Nat → Bool) (n : Nat) : cnt q n ≤ cnt q (n + 1) := by
  rw [cnt_succ]; exact Nat.le_add_right _ _

theorem cnt_mono (q : Nat → Bool) {m n : Nat} (h : m ≤ n) : cnt q m ≤ cnt q n := by
  induction n with
  | zero =>
    have : m = 0 := by omega
    subst this; exact Nat.le_refl _
  | succ k ih =>
    by_cases hk : m = k + 1
    · subst hk; exact Nat.le_refl _
    · exact Nat.le_trans (ih (by omega)) (cnt_le_succ q k)

/-- strict growth across an index satisfying `q` -/
theorem cnt_lt_of_true (q : Nat → Bool) {s t : Nat} (hst : s < t) (hs : q s = true) :
    cnt q s < cnt q t := by
  have h1 := cnt_succ_of_true q s hs
  have h2 : cnt q (s + 1) ≤ cnt q t := cnt_mono q hst
  omega

/-- complementary predicates split the indices below `n` -/
theorem cnt_compl (p a : Nat → Bool) (L : Nat) (h : ∀ i, i < L → p i = !a i) (n : Nat)
    (hn : n ≤ L) : cnt p n + cnt a n = n := by
  induction n with
  | zero => simp [cnt]
  | succ k ih =>
    have ih' := ih (by omega)
    have hk := h k (by omega)
    rw [cnt_succ, cnt_succ, hk]
    cases hak : a k
    · simp; omega
    · simp; omega

/-- the elements below `s` of a filtered range are the filtered range up to `s` -/
theorem filter_lt_range (q : Nat → Bool) (s L : Nat) (hs : s ≤ L) :
    ((List.range L).filter q).filter (· < s) = (List.range s).filter q := by
  induction L with
  | zero =>
    have : s = 0 := by omega
    subst this; rfl
  | succ k ih =>
    by_cases hk : s ≤ k
    · rw [List.range_succ, List.filter_append, List.filter_append, ih hk]
      have hns : ¬ k < s := by omega
      by_cases hq : q k = true
      · simp [hq, hns]
      · simp [hq]
    · have : s = k + 1 := by omega
      subst this
      apply List.filter_eq_self.2
      intro x hx
      have hx' := (List.mem_filter.1 hx).1
      have := List.mem_range.1 hx'
      simp [this]

/-- `renumber` on a filtered range counts the complementary indices -/
theorem renumber_eq_cnt (p a : Nat → Bool) (L : Nat) (h : ∀ i, i < L → p i = !a i) (s : Nat)
    (hs : s ≤ L) : renumber ((List.range L).filter p) s = cnt a s := by
  have hc := cnt_compl p a L h s hs
  unfold renumber
  rw [filter_lt_range p s L hs]
  unfold cnt at hc
  unfold cnt
  omega

/-! ## `dispatch` on concatenated arm lists -/

theorem dispatch_append_skip (l1 l2 : List (Pat × Nat)) (n : Nat)
    (h : ∀ x, x ∈ l1 → ∃ k, x.1 = Pat.num k ∧ k ≠ n) :
    dispatch (l1 ++ l2) n = dispatch l2 n := by
  induction l1 with
  | nil => rfl
  | cons x xs ih =>
    obtain ⟨pt, s⟩ := x
    obtain ⟨k, hk, hne⟩ := h (pt, s) List.mem_cons_self
    simp only at hk
    subst hk
    simp only [List.cons_append, dispatch, if_neg hne]
    exact ih (fun y hy => h y (List.mem_cons_of_mem _ hy))

theorem dispatch_append_some (l1 l2 : List (Pat × Nat)) (n s : Nat)
    (h : dispatch l1 n = some s) : dispatch (l1 ++ l2) n = some s := by
  induction l1 with
  | nil => simp [dispatch] at h
  | cons x xs ih =>
    obtain ⟨pt, t⟩ := x
    cases pt with
    | num k =>
      simp only [List.cons_append, dispatch] at h ⊢
      by_cases hk : k = n
      · rw [if_pos hk] at h ⊢; exact h
      · rw [if_neg hk] at h ⊢; exact ih h
    | wild =>
      simp only [List.cons_append, dispatch] at h ⊢
      exact h

/-! ## Strictly ascending lists are determined by their members -/

theorem eq_of_pairwise_lt_of_mem_iff : ∀ (l1 l2 : List Nat), l1.Pairwise (· < ·) → l2.Pairwise (· < ·) →
    (∀ x, x ∈ l1 ↔ x ∈ l2) → l1 = l2
  | [], l2, _, _, h => by
    cases l2 with
    | nil => rfl
    | cons b t => exact absurd ((h b).2 List.mem_cons_self) (by simp)
  | a :: t1, [], _, _, h => absurd ((h a).1 List.mem_cons_self) (by simp)
  | a :: t1, b :: t2, h1, h2, h => by
    have h1' := List.pairwise_cons.1 h1
    have h2' := List.pairwise_cons.1 h2
    have hab : a = b := by
      rcases List.mem_cons.1 ((h a).1 List.mem_cons_self) with hab | ha
      · exact hab
      · rcases List.mem_cons.1 ((h b).2 List.mem_cons_self) with hba | hb
        · exact hba.symm
        · have := h1'.1 b hb
          have := h2'.1 a ha
          omega
    subst hab
    have ht : t1 = t2 := by
      apply eq_of_pairwise_lt_of_mem_iff t1 t2 h1'.2 h2'.2
      intro x
      constructor
      · intro hx
        have hlt := h1'.1 x hx
        rcases List.mem_cons.1 ((h x).1 (List.mem_cons_of_mem _ hx)) with hxa | hx2
        · omega
        · exact hx2
      · intro hx
        have hlt := h2'.1 x hx
        rcases List.mem_cons.1 ((h x).2 (List.mem_cons_of_mem _ hx)) with hxa | hx1
        · omega
        · exact hx1
    rw [ht]

/-- a strictly ascending list of indices below `L` is the range `0..L` filtered by membership -/
theorem eq_filter_range (inl : List Nat) (L : Nat) (hp : inl.Pairwise (· < ·)) (hlt : ∀ i ∈ inl, i < L) :
    inl = (List.range L).filter (fun i => inl.contains i) := by
  apply eq_of_pairwise_lt_of_mem_iff _ _ hp ((pairwise_lt_range L).filter _)
  intro x
  rw [List.mem_filter, List.mem_range]
  constructor
  · intro hx
    exact ⟨hlt x hx, by simpa using hx⟩
  · intro hx
    simpa using hx.2

/-! ## The arms of a DFA -/

/-- the arm generated for state `i` -/
def armOf (d : DFA Trans) (inl : List Nat) (i : Nat) : Pat × Nat :=
  (if renumber inl i == d.length - inl.length - 1 then Pat.wild
   else Pat.num (renumber inl i), i)

/-- the arms of the states below `n` -/
def armsUpTo (d : DFA Trans) (inl : List Nat) (n : Nat) : List (Pat × Nat) :=
  ((List.range n).filter (hasArm inl)).map (armOf d inl)

theorem inlinedStates_eq (d : DFA Trans) :
    inlinedStates d = (List.range d.length).filter (isInlined d) := rfl

theorem stateArms_eq (d : DFA Trans) (inl : List Nat) : stateArms d inl = armsUpTo d inl d.length := rfl

theorem contains_compl (inl : List Nat) (i : Nat) : inl.contains i = !hasArm inl i := by
  unfold hasArm
  cases inl.contains i <;> rfl

theorem mem_inlinedStates (d : DFA Trans) (i : Nat) :
    i ∈ inlinedStates d ↔ i < d.length ∧ isInlined d i = true := by
  rw [inlinedStates_eq, List.mem_filter, List.mem_range]

/-- the inlined states are exactly the states without an arm -/
theorem mem_inl_iff (inl : List Nat) (i : Nat) : i ∈ inl ↔ hasArm inl i = false := by
  unfold hasArm
  simp

theorem renumber_eq (d : DFA Trans) (inl : List Nat) (hI : InlOK d inl) (s : Nat) (hs : s ≤ d.length) :
    renumber inl s = cnt (hasArm inl) s := by
  have h := renumber_eq_cnt (fun i => inl.contains i) (hasArm inl) d.length
    (fun i _ => contains_compl inl i) s hs
  rw [← eq_filter_range inl d.length hI.1 (fun i hi => (hI.2 i hi).1)] at h
  exact h

/-- the number of arms -/
theorem arms_count (d : DFA Trans) (inl : List Nat) (hI : InlOK d inl) :
    d.length - inl.length = cnt (hasArm inl) d.length := by
  have hc := cnt_compl (fun i => inl.contains i) (hasArm inl) d.length
    (fun i _ => contains_compl inl i) d.length (Nat.le_refl _)
  have : inl.length = cnt (fun i => inl.contains i) d.length := by
    unfold cnt
    rw [← eq_filter_range inl d.length hI.1 (fun i hi => (hI.2 i hi).1)]
  omega

/-- arms of smaller states carry a different number -/
theorem arm_before (d : DFA Trans) (inl : List Nat) (hI : InlOK d inl) (i s : Nat) (his : i < s)
    (hs : s < d.length) (ai : hasArm inl i = true) (as : hasArm inl s = true) :
    ∃ k, (armOf d inl i).1 = Pat.num k ∧ k ≠ cnt (hasArm inl) s := by
  have h1 := cnt_lt_of_true (hasArm inl) his ai
  have h2 := cnt_lt_of_true (hasArm inl) hs as
  have hr := renumber_eq d inl hI i (by omega)
  have hc := arms_count d inl hI
  refine ⟨cnt (hasArm inl) i, ?_, by omega⟩
  have hne : ¬ (cnt (hasArm inl) i = d.length - inl.length - 1) := by
    omega
  simp only [armOf, beq_iff_eq, hr, if_neg hne]

/-- the arm of `s` matches its number -/
theorem arm_at (d : DFA Trans) (inl : List Nat) (hI : InlOK d inl) (s : Nat) (hs : s < d.length) :
    dispatch [armOf d inl s] (cnt (hasArm inl) s) = some s := by
  have hr := renumber_eq d inl hI s (by omega)
  unfold armOf
  rw [hr]
  by_cases h : cnt (hasArm inl) s = d.length - inl.length - 1
  · simp only [beq_iff_eq, if_pos h, dispatch]
  · simp only [beq_iff_eq, if_neg h, dispatch, if_true]

theorem dispatch_armsUpTo_succ (d : DFA Trans) (inl : List Nat) (hI : InlOK d inl) (s : Nat)
    (hs : s < d.length) (as : hasArm inl s = true) :
    dispatch (armsUpTo d inl (s + 1)) (cnt (hasArm inl) s) = some s := by
  unfold armsUpTo
  rw [List.range_succ, List.filter_append, List.map_append]
  have hf : List.filter (hasArm inl) [s] = [s] := by simp [as]
  rw [hf, List.map_cons, List.map_nil, dispatch_append_skip]
  · exact arm_at d inl hI s hs
  · intro x hx
    obtain ⟨i, hi, rfl⟩ := List.mem_map.1 hx
    have hi' := List.mem_filter.1 hi
    exact arm_before d inl hI i s (List.mem_range.1 hi'.1) hs hi'.2 as

theorem armsUpTo_add (d : DFA Trans) (inl : List Nat) (m k : Nat) :
    ∃ l, armsUpTo d inl (m + k) = armsUpTo d inl m ++ l := by
  unfold armsUpTo
  rw [List.range_add, List.filter_append, List.map_append]
  exact ⟨_, rfl⟩

end Dispatch

open Dispatch

set_option linter.unusedVariables false in
/-- renumbering is strictly monotone on states that have an arm -/
theorem renumber_strictMono (d : DFA Trans) (inl : List Nat) (hI : InlOK d inl) (s t : Nat)
    (hs : s < d.length) (ht : t < d.length) (hst : s < t) (as : hasArm inl s = true) (at_ : hasArm inl t = true) :
    renumber inl s < renumber inl t := by
  rw [renumber_eq d inl hI s (by omega), renumber_eq d inl hI t (by omega)]
  exact cnt_lt_of_true (hasArm inl) hst as

/-- every renumbered index is below the number of arms -/
theorem renumber_lt_arms (d : DFA Trans) (inl : List Nat) (hI : InlOK d inl) (s : Nat) (hs : s < d.length)
    (as : hasArm inl s = true) :
    renumber inl s < d.length - inl.length := by
  rw [renumber_eq d inl hI s (by omega), arms_count d inl hI]
  exact cnt_lt_of_true (hasArm inl) hs as

/-- The number stored in `__state` for a state with an arm selects exactly that state's arm
(including the `_` arm of the largest number), for any admissible set of inlined states. -/
theorem dispatch_correct (d : DFA Trans) (inl : List Nat) (hI : InlOK d inl) (s : Nat) (hs : s < d.length)
    (as : hasArm inl s = true) :
    dispatch (stateArms d inl) (renumber inl s) = some s := by
  rw [renumber_eq d inl hI s (by omega), stateArms_eq]
  have hL : d.length = (s + 1) + (d.length - (s + 1)) := by omega
  obtain ⟨l, hl⟩ := armsUpTo_add d inl (s + 1) (d.length - (s + 1))
  rw [hL, hl]
  exact dispatch_append_some _ _ _ _ (dispatch_armsUpTo_succ d inl hI s hs as)

/-- `switch` stores the number whose arm is the entry state of the named rule set. -/
theorem switch_correct (d : DFA Trans) (inl : List Nat) (hI : InlOK d inl) (entries : List (String × Nat))
    (name : String) (e : Nat)
    (he : (name, e) ∈ entries) (hlt : e < d.length) (hini : (d.st e).initial = true) :
    ∃ n, (name, n) ∈ switchTable inl entries ∧ dispatch (stateArms d inl) n = some e := by
  refine ⟨renumber inl e, ?_, ?_⟩
  · unfold switchTable
    exact List.mem_map.2 ⟨(name, e), he, rfl⟩
  · exact dispatch_correct d inl hI e hlt (hasArm_of_initial d inl hI e hini)

/-! ## Non-vacuity -/

/-- state 0 initial, state 1 inlined (single predecessor 0, reached through exactly one arm),
state 2 with two predecessors, state 3 initial (gets the `_` arm) -/
def exampleDfa : DFA Trans :=
  [ { initial := true, chars := [(97, .goto 1), (98, .goto 2)] },
    { preds := [0], chars := [(98, .goto 2)] },
    { preds := [0, 1] },
    { initial := true } ]

example : InlOK exampleDfa (inlinedStates exampleDfa) := inlOK_inlinedStates exampleDfa

/-- a different policy ("inline only leaf states": state 2 has no successors) is just as good -/
example : inlOK exampleDfa [2] = true := by
  decide

example : stateArms exampleDfa [2] = [(Pat.num 0, 0), (Pat.num 1, 1), (Pat.wild, 3)] := by
  decide

example : dispatch (stateArms exampleDfa [2]) (renumber [2] 3) = some 3 :=
  dispatch_correct exampleDfa [2] (inlOK_sound _ _ (by decide)) 3 (by decide) (by decide)

example : inlinedStates exampleDfa = [1] := by
  decide

/-- a single predecessor is not enough: state 1 is reached from state 0 through two arms
(a character arm and a range arm), so it keeps its own arm -/
def exampleDfaTwoSites : DFA Trans :=
  [ { initial := true, chars := [(97, .goto 1)], ranges := [(48, 57, .goto 1)] },
    { preds := [0] } ]

example : inlinedStates exampleDfaTwoSites = [] := by
  decide

example : stateArms exampleDfaTwoSites (inlinedStates exampleDfaTwoSites) = [(Pat.num 0, 0), (Pat.wild, 1)] := by
  decide

example : dispatch (stateArms exampleDfa (inlinedStates exampleDfa)) (renumber (inlinedStates exampleDfa) 2) = some 2 := by
  decide

example : stateArms exampleDfa (inlinedStates exampleDfa) = [(Pat.num 0, 0), (Pat.num 1, 2), (Pat.wild, 3)] := by
  decide

end Lexgen
