import LexgenModel.Model.Codegen
/-!
# Index arithmetic of the state renumbering done by code generation

States that are inlined at their only transition site (`isInlined`: not initial, exactly one
predecessor, reached from it through exactly one arm) get no `match self.0.__state` arm; the
remaining states are renumbered consecutively, and the arm with the largest number gets the
pattern `_`.  This file proves that the number stored in `__state` for a state that has an arm
selects exactly the arm holding that state's code.
-/
namespace Lexgen

/-- the state has its own `match` arm (it is not inlined at its transition site) -/
def hasArm (d : DFA Trans) (s : Nat) : Bool := !isInlined d s

/-- initial states are never inlined (now true by definition of `isInlined`) -/
def InitialNotInlined (d : DFA Trans) : Prop :=
  ∀ i, i < d.length → (d.st i).initial = true → isInlined d i = false

/-- an initial state is not inlined -/
theorem isInlined_of_initial (d : DFA Trans) (i : Nat) (h : (d.st i).initial = true) :
    isInlined d i = false := by
  unfold isInlined
  rw [h]
  rfl

/-- a state that is not inlined at its transition site has its own arm -/
theorem hasArm_of_not_inlinedAt (d : DFA Trans) (t : Nat) (h : inlinedAt d t = false) :
    hasArm d t = true := by
  unfold inlinedAt at h
  unfold hasArm
  rw [h]
  rfl

theorem initialNotInlined (d : DFA Trans) : InitialNotInlined d :=
  fun i _ h => isInlined_of_initial d i h

/-- an initial state has its own arm -/
theorem hasArm_of_initial (d : DFA Trans) (i : Nat) (h : (d.st i).initial = true) :
    hasArm d i = true := by
  unfold hasArm
  rw [isInlined_of_initial d i h]
  rfl

namespace Dispatch

/-! ## Counting indices below a bound -/

/-- number of indices below `n` satisfying `q` -/
def cnt (q : Nat → Bool) (n : Nat) : Nat := ((List.range n).filter q).length

theorem cnt_succ (q : Nat → Bool) (n : Nat) :
    cnt q (n + 1) = cnt q n + (if q n = true then 1 else 0) := by
  simp only [cnt, List.range_succ, List.filter_append, List.length_append]
  by_cases h : q n = true
  · simp [h]
  · simp [h]

theorem cnt_succ_of_true (q : Nat → Bool) (n : Nat) (h : q n = true) :
    cnt q (n + 1) = cnt q n + 1 := by
  rw [cnt_succ, if_pos h]

theorem cnt_le_succ (q : Nat → Bool) (n : Nat) : cnt q n ≤ cnt q (n + 1) := by
  rw [cnt_succ]; exact Nat.le_add_right _ _

theorem cnt_mono (q : Nat → Bool) {m n : Nat} (h : m ≤ n) : cnt q m ≤ cnt q n := by
  induction n with
  | zero =>
    have : m = 0 := by omega
    subst this; exact Nat.le_refl _
  | succ k ih =>
    by_cases hk : m = k + 1
    · subst hk; exact Nat.le_refl _
    · exact Nat.le_trans (ih (by omega)) (cnt_le_succ q k)

/-- strict growth across an index satisfying `q` -/
theorem cnt_lt_of_true (q : Nat → Bool) {s t : Nat} (hst : s < t) (hs : q s = true) :
    cnt q s < cnt q t := by
  have h1 := cnt_succ_of_true q s hs
  have h2 : cnt q (s + 1) ≤ cnt q t := cnt_mono q hst
  omega

/-- complementary predicates split the indices below `n` -/
theorem cnt_compl (p a : Nat → Bool) (L : Nat) (h : ∀ i, i < L → p i = !a i) (n : Nat)
    (hn : n ≤ L) : cnt p n + cnt a n = n := by
  induction n with
  | zero => simp [cnt]
  | succ k ih =>
    have ih' := ih (by omega)
    have hk := h k (by omega)
    rw [cnt_succ, cnt_succ, hk]
    cases hak : a k
    · simp; omega
    · simp; omega

/-- the elements below `s` of a filtered range are the filtered range up to `s` -/
theorem filter_lt_range (q : Nat → Bool) (s L : Nat) (hs : s ≤ L) :
    ((List.range L).filter q).filter (· < s) = (List.range s).filter q := by
  induction L with
  | zero =>
    have : s = 0 := by omega
    subst this; rfl
  | succ k ih =>
    by_cases hk : s ≤ k
    · rw [List.range_succ, List.filter_append, List.filter_append, ih hk]
      have hns : ¬ k < s := by omega
      by_cases hq : q k = true
      · simp [hq, hns]
      · simp [hq]
    · have : s = k + 1 := by omega
      subst this
      apply List.filter_eq_self.2
      intro x hx
      have hx' := (List.mem_filter.1 hx).1
      have := List.mem_range.1 hx'
      simp [this]

/-- `renumber` on a filtered range counts the complementary indices -/
theorem renumber_eq_cnt (p a : Nat → Bool) (L : Nat) (h : ∀ i, i < L → p i = !a i) (s : Nat)
    (hs : s ≤ L) : renumber ((List.range L).filter p) s = cnt a s := by
  have hc := cnt_compl p a L h s hs
  unfold renumber
  rw [filter_lt_range p s L hs]
  unfold cnt at hc
  unfold cnt
  omega

/-! ## `dispatch` on concatenated arm lists -/

theorem dispatch_append_skip (l1 l2 : List (Pat × Nat)) (n : Nat)
    (h : ∀ x, x ∈ l1 → ∃ k, x.1 = Pat.num k ∧ k ≠ n) :
    dispatch (l1 ++ l2) n = dispatch l2 n := by
  induction l1 with
  | nil => rfl
  | cons x xs ih =>
    obtain ⟨pt, s⟩ := x
    obtain ⟨k, hk, hne⟩ := h (pt, s) List.mem_cons_self
    simp only at hk
    subst hk
    simp only [List.cons_append, dispatch, if_neg hne]
    exact ih (fun y hy => h y (List.mem_cons_of_mem _ hy))

theorem dispatch_append_some (l1 l2 : List (Pat × Nat)) (n s : Nat)
    (h : dispatch l1 n = some s) : dispatch (l1 ++ l2) n = some s := by
  induction l1 with
  | nil => simp [dispatch] at h
  | cons x xs ih =>
    obtain ⟨pt, t⟩ := x
    cases pt with
    | num k =>
      simp only [List.cons_append, dispatch] at h ⊢
      by_cases hk : k = n
      · rw [if_pos hk] at h ⊢; exact h
      · rw [if_neg hk] at h ⊢; exact ih h
    | wild =>
      simp only [List.cons_append, dispatch] at h ⊢
      exact h

/-! ## The arms of a DFA -/

/-- the arm generated for state `i` -/
def armOf (d : DFA Trans) (i : Nat) : Pat × Nat :=
  (if renumber (inlinedStates d) i == d.length - (inlinedStates d).length - 1 then Pat.wild
   else Pat.num (renumber (inlinedStates d) i), i)

/-- the arms of the states below `n` -/
def armsUpTo (d : DFA Trans) (n : Nat) : List (Pat × Nat) :=
  ((List.range n).filter (hasArm d)).map (armOf d)

theorem inlinedStates_eq (d : DFA Trans) :
    inlinedStates d = (List.range d.length).filter (isInlined d) := rfl

theorem stateArms_eq (d : DFA Trans) : stateArms d = armsUpTo d d.length := rfl

theorem isInlined_compl (d : DFA Trans) (i : Nat) : isInlined d i = !hasArm d i := by
  unfold hasArm
  cases isInlined d i <;> rfl

theorem mem_inlinedStates (d : DFA Trans) (i : Nat) :
    i ∈ inlinedStates d ↔ i < d.length ∧ isInlined d i = true := by
  rw [inlinedStates_eq, List.mem_filter, List.mem_range]

/-- the inlined states are exactly the states without an arm -/
theorem mem_inlinedStates_iff (d : DFA Trans) (i : Nat)
    (hi : i < d.length) : i ∈ inlinedStates d ↔ hasArm d i = false := by
  rw [mem_inlinedStates, isInlined_compl]
  cases hasArm d i <;> simp [hi]

theorem renumber_eq (d : DFA Trans) (s : Nat) (hs : s ≤ d.length) :
    renumber (inlinedStates d) s = cnt (hasArm d) s :=
  renumber_eq_cnt (isInlined d) (hasArm d) d.length (fun i _ => isInlined_compl d i) s hs

/-- the number of arms -/
theorem arms_count (d : DFA Trans) :
    d.length - (inlinedStates d).length = cnt (hasArm d) d.length := by
  have hc := cnt_compl (isInlined d) (hasArm d) d.length (fun i _ => isInlined_compl d i) d.length
    (Nat.le_refl _)
  have : (inlinedStates d).length = cnt (isInlined d) d.length := rfl
  omega

/-- arms of smaller states carry a different number -/
theorem arm_before (d : DFA Trans) (i s : Nat) (his : i < s)
    (hs : s < d.length) (ai : hasArm d i = true) (as : hasArm d s = true) :
    ∃ k, (armOf d i).1 = Pat.num k ∧ k ≠ cnt (hasArm d) s := by
  have h1 := cnt_lt_of_true (hasArm d) his ai
  have h2 := cnt_lt_of_true (hasArm d) hs as
  have hr := renumber_eq d i (by omega)
  have hc := arms_count d
  refine ⟨cnt (hasArm d) i, ?_, by omega⟩
  have hne : ¬ (cnt (hasArm d) i = d.length - (inlinedStates d).length - 1) := by
    omega
  simp only [armOf, beq_iff_eq, hr, if_neg hne]

/-- the arm of `s` matches its number -/
theorem arm_at (d : DFA Trans) (s : Nat) (hs : s < d.length) :
    dispatch [armOf d s] (cnt (hasArm d) s) = some s := by
  have hr := renumber_eq d s (by omega)
  unfold armOf
  rw [hr]
  by_cases h : cnt (hasArm d) s = d.length - (inlinedStates d).length - 1
  · simp only [beq_iff_eq, if_pos h, dispatch]
  · simp only [beq_iff_eq, if_neg h, dispatch, if_true]

theorem dispatch_armsUpTo_succ (d : DFA Trans) (s : Nat)
    (hs : s < d.length) (as : hasArm d s = true) :
    dispatch (armsUpTo d (s + 1)) (cnt (hasArm d) s) = some s := by
  unfold armsUpTo
  rw [List.range_succ, List.filter_append, List.map_append]
  have hf : List.filter (hasArm d) [s] = [s] := by simp [as]
  rw [hf, List.map_cons, List.map_nil, dispatch_append_skip]
  · exact arm_at d s hs
  · intro x hx
    obtain ⟨i, hi, rfl⟩ := List.mem_map.1 hx
    have hi' := List.mem_filter.1 hi
    exact arm_before d i s (List.mem_range.1 hi'.1) hs hi'.2 as

theorem armsUpTo_add (d : DFA Trans) (m k : Nat) :
    ∃ l, armsUpTo d (m + k) = armsUpTo d m ++ l := by
  unfold armsUpTo
  rw [List.range_add, List.filter_append, List.map_append]
  exact ⟨_, rfl⟩

end Dispatch

open Dispatch

set_option linter.unusedVariables false in
/-- renumbering is strictly monotone on states that have an arm -/
theorem renumber_strictMono (d : DFA Trans) (hI : InitialNotInlined d) (s t : Nat)
    (hs : s < d.length) (ht : t < d.length) (hst : s < t) (as : hasArm d s = true) (at_ : hasArm d t = true) :
    renumber (inlinedStates d) s < renumber (inlinedStates d) t := by
  rw [renumber_eq d s (by omega), renumber_eq d t (by omega)]
  exact cnt_lt_of_true (hasArm d) hst as

set_option linter.unusedVariables false in
/-- every renumbered index is below the number of arms -/
theorem renumber_lt_arms (d : DFA Trans) (hI : InitialNotInlined d) (s : Nat) (hs : s < d.length) (as : hasArm d s = true) :
    renumber (inlinedStates d) s < d.length - (inlinedStates d).length := by
  rw [renumber_eq d s (by omega), arms_count d]
  exact cnt_lt_of_true (hasArm d) hs as

set_option linter.unusedVariables false in
/-- The number stored in `__state` for a state with an arm selects exactly that state's arm
(including the `_` arm of the largest number). -/
theorem dispatch_correct (d : DFA Trans) (hI : InitialNotInlined d) (s : Nat) (hs : s < d.length)
    (as : hasArm d s = true) :
    dispatch (stateArms d) (renumber (inlinedStates d) s) = some s := by
  rw [renumber_eq d s (by omega), stateArms_eq]
  have hL : d.length = (s + 1) + (d.length - (s + 1)) := by omega
  obtain ⟨l, hl⟩ := armsUpTo_add d (s + 1) (d.length - (s + 1))
  rw [hL, hl]
  exact dispatch_append_some _ _ _ _ (dispatch_armsUpTo_succ d s hs as)

/-- `switch` stores the number whose arm is the entry state of the named rule set. -/
theorem switch_correct (d : DFA Trans) (hI : InitialNotInlined d) (entries : List (String × Nat)) (name : String) (e : Nat)
    (he : (name, e) ∈ entries) (hlt : e < d.length) (hini : (d.st e).initial = true) :
    ∃ n, (name, n) ∈ switchTable d entries ∧ dispatch (stateArms d) n = some e := by
  refine ⟨renumber (inlinedStates d) e, ?_, ?_⟩
  · unfold switchTable
    exact List.mem_map.2 ⟨(name, e), he, rfl⟩
  · exact dispatch_correct d hI e hlt (hasArm_of_initial d e hini)

/-! ## Non-vacuity -/

/-- state 0 initial, state 1 inlined (single predecessor 0, reached through exactly one arm),
state 2 with two predecessors, state 3 initial (gets the `_` arm) -/
def exampleDfa : DFA Trans :=
  [ { initial := true, chars := [(97, .goto 1), (98, .goto 2)] },
    { preds := [0], chars := [(98, .goto 2)] },
    { preds := [0, 1] },
    { initial := true } ]

example : InitialNotInlined exampleDfa := initialNotInlined exampleDfa

example : inlinedStates exampleDfa = [1] := by
  decide

/-- a single predecessor is not enough: state 1 is reached from state 0 through two arms
(a character arm and a range arm), so it keeps its own arm -/
def exampleDfaTwoSites : DFA Trans :=
  [ { initial := true, chars := [(97, .goto 1)], ranges := [(48, 57, .goto 1)] },
    { preds := [0] } ]

example : inlinedStates exampleDfaTwoSites = [] := by
  decide

example : stateArms exampleDfaTwoSites = [(Pat.num 0, 0), (Pat.wild, 1)] := by
  decide

example : dispatch (stateArms exampleDfa) (renumber (inlinedStates exampleDfa) 2) = some 2 := by
  decide

example : stateArms exampleDfa = [(Pat.num 0, 0), (Pat.num 1, 2), (Pat.wild, 3)] := by
  decide

end Lexgen
