import LexgenModel.Proofs.CapstoneRun
import LexgenModel.Proofs.BisimSound
import LexgenModel.Proofs.CheckerSound
import LexgenModel.Exec.StageCheck
import LexgenModel.Proofs.NextLocations
import LexgenModel.Proofs.RunCongrEntries
/-!
# The machine the real macro produced computes the executable specification, once the stage checks pass

`next_eq_specNext` (Capstone) is about the machine the MODEL of the macro compiles. The correspondence check does not assume that the real macro
produces that machine: it dumps the real machine and runs `stageOK` on it (bisimulation with the model's machine from every rule-set entry,
bisimulation of the right-context automata, the well-formedness checker). This file closes the gap: for ANY machine that passes `stageOK`
— whatever its state numbering, inlining policy, transition tables — the model of the generated `next()` running on THAT machine returns
exactly what the executable reference lexer of the definition returns, on every input. What is then still trusted is only that the generated
Rust text behaves like the model interpreter on the dumped machine (compared on every trace).

Structure:
* `equiv_reach`, `ctxRun_equiv`: what `bisim_sound` (`EquivFrom`) says in terms of `reach` and of the right-context runs `ctxRun`;
* `cand_transport`, `ext_transport`: matches (`Cand`) and "in a state after a non-empty word" (`EntryExt`) are transported along `EquivFrom`.
  The second one needs `gotoLive` (no `goto` into a state that cannot go on) of both automata: accept lists and readable words do not tell a
  `goto` into a dead state from an `Accept` transition, but the scan consumes one character more on the former before it reports an
  `InvalidToken` (for `'a' > 'b'` and the machine `0 -a-> 1`, `1` accepting and dead, on `acd`: the generated code resumes at `d`, the
  specification at `cd`; all other stage checks pass). `stageOK` therefore checks `gotoLive` of both automata;
* `entryPairs_names`: the two entry maps have the same, pairwise distinct names (pigeonhole) and equally named entries are bisimilar;
* `nextLoop_eq_specLoop_on`: the induction of `nextLoop_eq_specLoop` with the entry-level facts restricted to inputs over code points
  `≤ charMax` (bisimilarity says nothing about other words; the loop only looks at suffixes of its input);
* `entry_pack_dumped`: the entry-level facts for the dumped machine, from `entry_pack` for the model's machine;
* the two theorems.
-/
namespace Lexgen
variable {σ τ ε : Type}

namespace Dumped
open NextEqSpec

/-! ## `reach` is `runCfg` -/

theorem reach_eq_runCfg (d : DFA Trans) : ∀ (w : List Nat) (c : Cfg), reach d c w = runCfg d c w := by
  intro w
  induction w with
  | nil => intro c; rw [reach_nil]; rfl
  | cons x w ih =>
    intro c
    cases c with
    | st s =>
      simp only [reach, runCfg, Auto.step]
      cases h : lookupTrans (d.st s) x with
      | none => simp
      | some t => simp [ih]
    | term accs => simp [reach, runCfg, Auto.step]

/-- `EquivFrom` for the simplified automata, in terms of `reach` -/
theorem equiv_reach (a b : DFA Trans) (x y : Nat) (h : EquivFrom a b x y) (w : List Nat) (hw : ∀ c ∈ w, c ≤ charMax) :
    match reach a (.st x) w, reach b (.st y) w with
    | some cx, some cy => CfgAgree a b cx cy
    | none, none => True
    | _, _ => False := by
  rw [reach_eq_runCfg, reach_eq_runCfg]
  exact h w hw

/-! ## Right-context automata -/

theorem equivFrom_step (d d' : DFA Nat) (s s' : Nat) (h : EquivFrom d d' s s') (c : Nat) (hc : c ≤ charMax) :
    match lookupTrans (d.st s) c, lookupTrans (d'.st s') c with
    | some t, some t' => EquivFrom d d' t t'
    | none, none => True
    | _, _ => False := by
  have h1 := h [c] (by intro x hx; cases hx with | head => exact hc | tail _ h => cases h)
  cases hl : lookupTrans (d.st s) c with
  | none =>
    cases hl' : lookupTrans (d'.st s') c with
    | none => trivial
    | some t' => simp [runCfg, Auto.step, hl, hl'] at h1
  | some t =>
    cases hl' : lookupTrans (d'.st s') c with
    | none => simp [runCfg, Auto.step, hl, hl'] at h1
    | some t' =>
      show EquivFrom d d' t t'
      intro w hw
      have h2 := h (c :: w) (by
        intro x hx
        cases hx with
        | head => exact hc
        | tail _ hx' => exact hw x hx')
      simp only [runCfg, Auto.step, hl, hl', Option.map_some] at h2
      exact h2

theorem equivFrom_acc (d d' : DFA Nat) (s s' : Nat) (h : EquivFrom d d' s s') :
    (d.st s).accepting = (d'.st s').accepting := by
  have h1 := h [] (by intro x hx; cases hx)
  exact h1.1

theorem equivFrom_eoi (d d' : DFA Nat) (s s' : Nat) (h : EquivFrom d d' s s') :
    match (d.st s).eoi, (d'.st s').eoi with
    | some t, some t' => (d.st t).accepting = (d'.st t').accepting
    | none, none => True
    | _, _ => False := by
  have h1 := (h [] (by intro x hx; cases hx)).2
  simp only [Auto.eoi] at h1
  cases he : (d.st s).eoi <;> cases he' : (d'.st s').eoi <;> simp [he, he', Auto.acc, Target.toCfg] at h1 ⊢
  exact h1

theorem st_eoi_lt (d : DFA Nat) (s t : Nat) (h : (d.st s).eoi = some t) : s < d.length := by
  apply Classical.byContradiction
  intro hn
  have : d.st s = DState.empty := by simp [DFA.st, List.getD, Nat.le_of_not_lt hn]
  rw [this] at h
  simp [DState.empty] at h

/-- when end-of-input targets are accepting the end-of-input loop stops after at most one step -/
theorem ctxEoi_char (d : DFA Nat) (s : Nat) (h : ∀ t, (d.st s).eoi = some t → (d.st t).accepting.isEmpty = false) :
    ctxEoi d (d.length + 1) s = (!(d.st s).accepting.isEmpty || (d.st s).eoi.isSome) := by
  rw [ctxEoi]
  cases ha : (d.st s).accepting.isEmpty with
  | false => simp
  | true =>
    cases he : (d.st s).eoi with
    | none => simp
    | some t =>
      have hlt := st_eoi_lt d s t he
      have hacc := h t he
      obtain ⟨n, hn⟩ : ∃ n, d.length = n + 1 := ⟨d.length - 1, by omega⟩
      rw [hn]
      simp [ctxEoi, hacc]

theorem ctxWF_eoi (d : DFA Nat) (hwf : ctxWF d = true) (s t : Nat) (h : (d.st s).eoi = some t) :
    (d.st t).accepting.isEmpty = false := by
  rcases ScanPlain.st_mem_or_empty d s with hm | he
  · simp only [ctxWF, List.all_eq_true, Bool.and_eq_true] at hwf
    have := (hwf _ hm).2
    rw [h] at this
    simpa using this
  · rw [he] at h
    simp [DState.empty] at h

theorem ctxRun_equiv (d d' : DFA Nat) (hwf : ctxWF d' = true) :
    ∀ (w : List Nat), (∀ c ∈ w, c ≤ charMax) → ∀ s s', EquivFrom d d' s s' → ctxRun d s w = ctxRun d' s' w := by
  intro w
  induction w with
  | nil =>
    intro _ s s' h
    have hacc := equivFrom_acc d d' s s' h
    have heoi := equivFrom_eoi d d' s s' h
    simp only [ctxRun]
    rw [ctxEoi_char d' s' (fun t ht => ctxWF_eoi d' hwf s' t ht)]
    rw [ctxEoi_char d s ?_]
    · rw [hacc]
      cases he : (d.st s).eoi <;> cases he' : (d'.st s').eoi <;> simp [he, he'] at heoi ⊢
    · intro t ht
      cases he' : (d'.st s').eoi with
      | none => simp [ht, he'] at heoi
      | some t' =>
        simp only [ht, he'] at heoi
        rw [heoi]
        exact ctxWF_eoi d' hwf s' t' he'
  | cons c rest ih =>
    intro hw s s' h
    have hacc := equivFrom_acc d d' s s' h
    have hstep := equivFrom_step d d' s s' h c (hw c (List.mem_cons_self ..))
    simp only [ctxRun]
    rw [hacc]
    cases ha : (d'.st s').accepting.isEmpty with
    | false => simp
    | true =>
      simp only [Bool.not_true, Bool.false_eq_true, if_false]
      cases hl : lookupTrans (d.st s) c <;> cases hl' : lookupTrans (d'.st s') c <;> simp only [hl, hl'] at hstep
      · rfl
      · exact ih (fun x hx => hw x (List.mem_cons_of_mem _ hx)) _ _ hstep

/-! ## Symmetry -/

theorem cfgAgree_symm {τ₁ τ₂ : Type} [Target τ₁] [Target τ₂] (a : DFA τ₁) (b : DFA τ₂) (cx cy : Cfg)
    (h : CfgAgree a b cx cy) : CfgAgree b a cy cx := by
  obtain ⟨h1, h2⟩ := h
  refine ⟨h1.symm, ?_⟩
  cases hx : Auto.eoi a cx <;> cases hy : Auto.eoi b cy <;> simp only [hx, hy] at h2 ⊢
  exact h2.symm

theorem equivFrom_symm {τ₁ τ₂ : Type} [Target τ₁] [Target τ₂] (a : DFA τ₁) (b : DFA τ₂) (x y : Nat)
    (h : EquivFrom a b x y) : EquivFrom b a y x := by
  intro w hw
  have h1 := h w hw
  cases hx : runCfg a (.st x) w <;> cases hy : runCfg b (.st y) w <;> simp only [hx, hy] at h1 ⊢
  exact cfgAgree_symm a b _ _ h1

/-! ## Matches (`Cand`) -/

theorem firstOK_congr (f g : Nat → Bool) (h : ∀ i, f i = g i) (accs : List Acc) : firstOK f accs = firstOK g accs := by
  have : f = g := funext h
  rw [this]

theorem take_le_charMax (iter : List Nat) (h : ∀ c ∈ iter, c ≤ charMax) (k : Nat) : ∀ c ∈ iter.take k, c ≤ charMax :=
  fun c hc => h c (List.mem_of_mem_take hc)

theorem drop_le_charMax (iter : List Nat) (h : ∀ c ∈ iter, c ≤ charMax) (k : Nat) : ∀ c ∈ iter.drop k, c ≤ charMax :=
  fun c hc => h c (List.mem_of_mem_drop hc)

/-- matches are transported along `EquivFrom` (one direction; the other one by symmetry) -/
theorem cand_transport (cfg1 cfg2 : Config σ τ ε) (e1 e2 : Nat) (hE : EquivFrom cfg1.dfa cfg2.dfa e1 e2)
    (hctx : ∀ i w, (∀ c ∈ w, c ≤ charMax) → ctxOK cfg1 i w = ctxOK cfg2 i w)
    (hEoi2 : ∀ s t, (cfg2.dfa.st s).eoi ≠ some (.goto t))
    (iter : List Nat) (hit : ∀ c ∈ iter, c ≤ charMax) (n a : Nat) (v : Bool)
    (h : Cand cfg1 e1 iter n a v) : Cand cfg2 e2 iter n a v := by
  obtain ⟨hle, c1, hr1, hsel⟩ := h
  have hag := equiv_reach cfg1.dfa cfg2.dfa e1 e2 hE (iter.take n) (take_le_charMax iter hit n)
  rw [hr1] at hag
  cases hr2 : reach cfg2.dfa (.st e2) (iter.take n) with
  | none => simp [hr2] at hag
  | some c2 =>
    simp only [hr2] at hag
    obtain ⟨hacc, heoi⟩ := hag
    refine ⟨hle, c2, hr2, ?_⟩
    cases v with
    | false =>
      simp only [Bool.false_eq_true, if_false] at hsel ⊢
      unfold selAt at hsel ⊢
      rw [← hacc, ← firstOK_congr _ _ (fun i => hctx i (iter.drop n) (drop_le_charMax iter hit n))]
      exact hsel
    | true =>
      simp only [if_true] at hsel ⊢
      obtain ⟨hn, t, accs, hc1, he1, hf⟩ := hsel
      subst hc1
      refine ⟨hn, ?_⟩
      have hx : Auto.eoi cfg1.dfa (.st t) = some (.term accs) := by
        simp [Auto.eoi, he1, Target.toCfg]
      rw [hx] at heoi
      cases c2 with
      | term accs2 => simp [Auto.eoi] at heoi
      | st t2 =>
        cases he2 : (cfg2.dfa.st t2).eoi with
        | none => simp [Auto.eoi, he2] at heoi
        | some tr =>
          cases tr with
          | goto t' => exact absurd he2 (hEoi2 t2 t')
          | accept accs2 =>
            have : accs = accs2 := by simpa [Auto.eoi, he2, Target.toCfg, Auto.acc] using heoi
            subst this
            refine ⟨t2, accs, rfl, he2, ?_⟩
            rw [← firstOK_congr _ _ (fun i => hctx i [] (by intro c hc; cases hc))]
            exact hf

/-! ## Live states -/

theorem reach_append (d : DFA Trans) : ∀ (w u : List Nat) (c : Cfg),
    reach d c (w ++ u) = (reach d c w).bind fun c' => reach d c' u := by
  intro w
  induction w with
  | nil => intro u c; simp [reach_nil]
  | cons x w ih =>
    intro u c
    cases c with
    | st s =>
      simp only [List.cons_append, reach]
      cases lookupTrans (d.st s) x with
      | none => rfl
      | some t => exact ih u _
    | term accs => simp [reach]

theorem lookupChar_key {α : Type} (l : List (Nat × α)) (e : Nat × α) (he : e ∈ l) : ∃ t, lookupChar l e.1 = some t := by
  induction l with
  | nil => cases he
  | cons p rest ih =>
    obtain ⟨k, t⟩ := p
    simp only [lookupChar]
    by_cases hk : k = e.1
    · exact ⟨t, by rw [if_pos hk]⟩
    · rw [if_neg hk]
      rcases List.mem_cons.mp he with rfl | h
      · exact absurd rfl hk
      · exact ih h

theorem rangeLookup_start {α : Type} (l : RangeMap α) (r : Nat × Nat × α) (hr : r ∈ l) (hle : r.1 ≤ r.2.1) :
    ∃ t, RangeMap.lookup l r.1 = some t := by
  induction l with
  | nil => cases hr
  | cons p rest ih =>
    obtain ⟨s, e, v⟩ := p
    simp only [RangeMap.lookup]
    by_cases hin : s ≤ r.1 ∧ r.1 ≤ e
    · exact ⟨v, by rw [if_pos hin]⟩
    · rw [if_neg hin]
      rcases List.mem_cons.mp hr with rfl | h
      · exact absurd ⟨Nat.le_refl _, hle⟩ hin
      · exact ih h

/-- a live state has an end-of-input transition or a transition on a code point `≤ charMax` -/
theorem stateLive_spec (s : DState Trans) (h : stateLive s = true) :
    s.eoi.isSome = true ∨ ∃ c, c ≤ charMax ∧ ∃ tr, lookupTrans s c = some tr := by
  simp only [stateLive, Bool.or_eq_true, List.any_eq_true, Bool.and_eq_true, decide_eq_true_eq] at h
  rcases h with ((h | h) | ⟨e, he, hle⟩) | ⟨r, hr, hle, hne⟩
  · exact Or.inl h
  · right
    refine ⟨0, Nat.zero_le _, ?_⟩
    unfold lookupTrans
    cases lookupChar s.chars 0 with
    | some t => exact ⟨t, rfl⟩
    | none =>
      cases RangeMap.lookup s.ranges 0 with
      | some t => exact ⟨t, rfl⟩
      | none =>
        cases ha : s.any with
        | none => simp [ha] at h
        | some t => exact ⟨t, rfl⟩
  · right
    refine ⟨e.1, hle, ?_⟩
    obtain ⟨t, ht⟩ := lookupChar_key s.chars e he
    exact ⟨t, by unfold lookupTrans; rw [ht]⟩
  · right
    refine ⟨r.1, hle, ?_⟩
    obtain ⟨t, ht⟩ := rangeLookup_start s.ranges r hr hne
    unfold lookupTrans
    cases lookupChar s.chars r.1 with
    | some t' => exact ⟨t', rfl⟩
    | none => exact ⟨t, by simp only [ht]⟩

/-- the state reached by a non-empty word is the target of a `goto`, hence live -/
theorem reach_st_live (d : DFA Trans) (hl : gotoLive d = true) : ∀ (w : List Nat) (s t : Nat), w ≠ [] →
    reach d (.st s) w = some (.st t) → stateLive (d.st t) = true := by
  intro w
  induction w with
  | nil => intro s t h; exact absurd rfl h
  | cons x w ih =>
    intro s t _ hr
    simp only [reach] at hr
    cases hlt : lookupTrans (d.st s) x with
    | none => simp [hlt] at hr
    | some tr =>
      simp only [hlt] at hr
      cases tr with
      | accept accs =>
        rw [toCfg_accept] at hr
        have := (reach_term d accs w _ hr).2
        cases this
      | goto t1 =>
        rw [toCfg_goto] at hr
        by_cases hw : w = []
        · subst hw
          rw [reach_nil] at hr
          cases hr
          have hmem := NextLoc.lookupTrans_goto_mem (d.st s) x t hlt
          rcases ScanPlain.st_mem_or_empty d s with hm | he
          · simp only [gotoLive, List.all_eq_true] at hl
            exact hl _ hm t hmem
          · rw [he, ScanPlain.gotoSuccs_empty] at hmem
            cases hmem
        · exact ih t1 t hw hr

/-- "in a state after a non-empty word" is transported along `EquivFrom` when no `goto` of the first automaton leads to a dead state -/
theorem ext_transport (a b : DFA Trans) (x y : Nat) (hE : EquivFrom a b x y) (hl : gotoLive a = true)
    (w : List Nat) (hw : ∀ c ∈ w, c ≤ charMax) (hne : w ≠ [])
    (h : ∃ t, reach a (.st x) w = some (.st t)) : ∃ t, reach b (.st y) w = some (.st t) := by
  obtain ⟨t, hr⟩ := h
  have hag := equiv_reach a b x y hE w hw
  rw [hr] at hag
  cases hr2 : reach b (.st y) w with
  | none => simp [hr2] at hag
  | some c2 =>
    cases c2 with
    | st t2 => exact ⟨t2, rfl⟩
    | term accs =>
      exfalso
      simp only [hr2] at hag
      rcases stateLive_spec _ (reach_st_live a hl w x t hne hr) with he | ⟨c, hc, tr, htr⟩
      · have h2 := hag.2
        cases hx : (a.st t).eoi with
        | none => simp [hx] at he
        | some tr => simp [Auto.eoi, hx] at h2
      · have hag2 := equiv_reach a b x y hE (w ++ [c]) (by
          intro z hz
          rcases List.mem_append.mp hz with hz | hz
          · exact hw z hz
          · rw [List.mem_singleton.mp hz]; exact hc)
        rw [reach_append, reach_append, hr, hr2] at hag2
        simp [reach, htr] at hag2

/-! ## Rule-set names -/

open Lexgen.Subset Lexgen.Simplify Lexgen.Static Lexgen.CompileLang Lexgen.MachineOKCompile Lexgen.NextEqSpec in
/-- the names in the entry map of a compiled definition are distinct -/
theorem compile_names_nodup (items : LexerDef) (c : Compiled) (h : compileLexer items = .ok c)
    (hrs : hasRuleSets items = true) : (c.entries.map (·.1)).Nodup := by
  have hall : allRuleSets items = scopedRuleSets items [] 0 := allRuleSets_named hrs
  rw [compileLexer_eq] at h
  by_cases hm : mixedRules items = true
  · rw [if_pos hm] at h; cases h
  · rw [if_neg hm] at h
    obtain ⟨g, hfold, hpost⟩ := Thompson.bind_ok h
    have hinv0 : GInv [] ({} : GlueState) :=
      ⟨fun full hf => (by cases hf), fun full hf => (by cases hf), fun x hx => (by cases hx)⟩
    have hinv := fold_lang items [] {} g hfold hinv0
    have hnames := fold_names items {} g hfold List.nodup_nil
    rw [List.nil_append] at hinv
    have hbind : ({} : GlueState).bindings = [] := rfl
    have hctx : ({} : GlueState).ctxs.length = 0 := rfl
    rw [hbind, hctx, ← hall] at hinv
    obtain ⟨x0, hx0'⟩ := scoped_nonempty items [] 0 hrs
    rw [← hall] at hx0'
    obtain ⟨full0, hd, _⟩ := hinv.ok x0 hx0'
    have hT0 := hinv.tir full0 hd
    obtain ⟨full, simp, entries, hu, h3, rfl⟩ := lexPost_ok g c hpost full0 hd
    obtain ⟨hA, hlen⟩ := updateBacktracks_agree full0 full hT0 hu
    have hT := targets_agree hT0 hA hlen
    obtain ⟨hent, _, _⟩ := simplify_spec full g.entries simp entries h3 hT
    show (entries.map (·.1)).Nodup
    rw [hent, List.map_map]
    exact hnames

/-- pigeonhole: a duplicate-free list contained in a list that is not longer contains it, and that list is duplicate-free -/
theorem nodup_subset_length {α : Type} [DecidableEq α] : ∀ (l₁ l₂ : List α), l₁.Nodup → l₁ ⊆ l₂ → l₂.length ≤ l₁.length →
    l₂ ⊆ l₁ ∧ l₂.Nodup := by
  intro l₁
  induction l₁ with
  | nil =>
    intro l₂ _ _ hlen
    have : l₂ = [] := List.eq_nil_of_length_eq_zero (by simpa using hlen)
    subst this
    exact ⟨fun _ h => h, List.nodup_nil⟩
  | cons a t ih =>
    intro l₂ hnd hsub hlen
    rw [List.nodup_cons] at hnd
    have ha : a ∈ l₂ := hsub (List.mem_cons_self ..)
    have htsub : t ⊆ l₂.erase a := by
      intro x hx
      have hxa : x ≠ a := fun h => hnd.1 (h ▸ hx)
      exact (List.mem_erase_of_ne hxa).2 (hsub (List.mem_cons_of_mem _ hx))
    have hlen2 : (l₂.erase a).length = l₂.length - 1 := by rw [List.length_erase]; simp [ha]
    have hpos : 1 ≤ l₂.length := List.length_pos_of_mem ha
    obtain ⟨h1, h2⟩ := ih (l₂.erase a) hnd.2 htsub (by simp only [List.length_cons] at hlen; omega)
    have hperm : l₂.Perm (a :: l₂.erase a) := List.perm_cons_erase ha
    constructor
    · intro x hx
      by_cases hxa : x = a
      · subst hxa; exact List.mem_cons_self ..
      · exact List.mem_cons_of_mem _ (h1 ((List.mem_erase_of_ne hxa).2 hx))
    · rw [hperm.nodup_iff, List.nodup_cons]
      exact ⟨fun hmem => hnd.1 (h1 hmem), h2⟩

/-! ## `entryPairs` -/

theorem mapM_option_spec {α β : Type} (f : α → Option β) : ∀ (l : List α) (res : List β), l.mapM f = some res →
    res.length = l.length ∧ ∀ x ∈ l, ∃ y, f x = some y ∧ y ∈ res := by
  intro l
  induction l with
  | nil =>
    intro res h
    simp only [List.mapM_nil] at h
    cases h
    exact ⟨rfl, fun x hx => (by cases hx)⟩
  | cons a t ih =>
    intro res h
    rw [List.mapM_cons] at h
    cases hfa : f a with
    | none => simp [hfa] at h
    | some b =>
      cases ht : t.mapM f with
      | none => simp [hfa, ht] at h
      | some bs =>
        simp [hfa, ht] at h
        subst h
        obtain ⟨h1, h2⟩ := ih bs ht
        refine ⟨by simp [h1], ?_⟩
        intro x hx
        rcases List.mem_cons.mp hx with rfl | hx
        · exact ⟨b, hfa, List.mem_cons_self ..⟩
        · obtain ⟨y, hy1, hy2⟩ := h2 x hx
          exact ⟨y, hy1, List.mem_cons_of_mem _ hy2⟩

theorem entryPairs_spec (a b : List (String × Nat)) (pairs : List (Nat × Nat)) (h : entryPairs a b = some pairs) :
    a.length = b.length ∧ pairs.length = a.length ∧
    ∀ name i, (name, i) ∈ a → ∃ e, b.find? (·.1 = name) = some e ∧ (i, e.2) ∈ pairs := by
  unfold entryPairs at h
  by_cases hl : a.length ≠ b.length
  · rw [if_pos hl] at h; cases h
  · rw [if_neg hl] at h
    obtain ⟨h1, h2⟩ := mapM_option_spec _ a pairs h
    refine ⟨by simpa using hl, h1, ?_⟩
    intro name i hm
    obtain ⟨y, hy, hmem⟩ := h2 (name, i) hm
    simp only at hy
    cases hf : b.find? (·.1 = name) with
    | none => simp [hf] at hy
    | some e =>
      simp only [hf, Option.map_some, Option.some.injEq] at hy
      subst hy
      exact ⟨e, rfl, hmem⟩

/-- what `entryPairs` says when the names of the first map are distinct: the second map has the same names, all distinct,
and the entry states of every name are paired -/
theorem entryPairs_names (a b : List (String × Nat)) (pairs : List (Nat × Nat)) (h : entryPairs a b = some pairs)
    (hnd : (a.map (·.1)).Nodup) :
    (b.map (·.1)).Nodup ∧ ∀ name eD, (name, eD) ∈ b → ∃ eM, (name, eM) ∈ a ∧ (eM, eD) ∈ pairs := by
  obtain ⟨hlen, _, hall⟩ := entryPairs_spec a b pairs h
  have hsub : a.map (·.1) ⊆ b.map (·.1) := by
    intro n hn
    obtain ⟨p, hp, rfl⟩ := List.mem_map.mp hn
    obtain ⟨e, he, _⟩ := hall p.1 p.2 hp
    have hmem := List.mem_of_find?_eq_some he
    have hname := List.find?_some he
    simp only [decide_eq_true_eq] at hname
    exact List.mem_map.mpr ⟨e, hmem, hname⟩
  obtain ⟨hsup, hndb⟩ := nodup_subset_length _ _ hnd hsub (by simp [hlen])
  refine ⟨hndb, ?_⟩
  intro name eD hm
  have : name ∈ a.map (·.1) := hsup (List.mem_map.mpr ⟨(name, eD), hm, rfl⟩)
  obtain ⟨p, hp, hpn⟩ := List.mem_map.mp this
  obtain ⟨pn, eM⟩ := p
  simp only at hpn
  subst hpn
  obtain ⟨e, he, hpair⟩ := hall pn eM hp
  have hmem := List.mem_of_find?_eq_some he
  have hname := List.find?_some he
  simp only [decide_eq_true_eq] at hname
  obtain ⟨en, e2⟩ := e
  simp only at hname
  subst hname
  have := NextEqSpec.names_unique hndb hmem hm
  subst this
  exact ⟨eM, hp, hpair⟩


/-! ## The loop, for inputs over code points `≤ charMax`

`nextLoop_eq_specLoop` asks for the entry-level facts (`EntryPack`) on ALL inputs; bisimilarity only speaks about words over code
points `≤ charMax`, so the facts about a dumped machine are available on such inputs only. The loop only ever looks at suffixes of the
input it was started on: the same induction goes through with the facts restricted to such inputs. -/

/-- all code points are `≤ charMax` -/
def Small (w : List Nat) : Prop := ∀ c ∈ w, c ≤ charMax

theorem small_take {w : List Nat} (h : Small w) (k : Nat) : Small (w.take k) := fun c hc => h c (List.mem_of_mem_take hc)
theorem small_drop {w : List Nat} (h : Small w) (k : Nat) : Small (w.drop k) := fun c hc => h c (List.mem_of_mem_drop hc)

/-- `EntryPack` on inputs over code points `≤ charMax` -/
def EntryPackOn (items : LexerDef) (ctxAt : Nat → Regex) (cfg : Config σ τ ε) (e : Nat) : Prop :=
  ∃ x rules, activeSet items cfg (renumber cfg.inl e) = some x ∧
    coreRules x.2.1 x.2.2.1 x.2.2.2 = some rules ∧
    (∀ iter, Small iter → ∀ n a v, Cand cfg e iter n a v ↔ LangCand rules ctxAt iter n a v) ∧
    (∀ w, Small w → w ≠ [] → ((∃ t, reach cfg.dfa (.st e) w = some (.st t)) ↔ Extendable rules w)) ∧
    (∀ r ∈ rules, NoEmptyPieces r.re)

/-- `errAdvance_eq` with the entry-level reading on inputs over code points `≤ charMax` only -/
theorem errAdvance_eq_on (HA : ViableRefHyp) (rules : List CoreRule) (hne : ∀ r ∈ rules, NoEmptyPieces r.re)
    (d : DFA Trans) (e : Nat)
    (hE : ∀ w, Small w → w ≠ [] → ((∃ t, reach d (.st e) w = some (.st t)) ↔ Extendable rules w))
    (iter : List Nat) (hsm : Small iter) :
    errAdvance (rules.map (·.re)) iter =
      (min (gotoLen d e iter + 1) iter.length, decide (gotoLen d e iter = iter.length)) := by
  have hne' : ∀ r ∈ rules.map (·.re), NoEmptyPieces r := by
    intro r hr
    obtain ⟨r0, hr0, rfl⟩ := List.mem_map.mp hr
    exact hne r0 hr0
  obtain ⟨hv1, hv2, hv3, hv4⟩ := HA (rules.map (·.re)) hne' iter
  obtain ⟨hg1, hg2, hg3⟩ := gotoLen_spec d iter e
  have htake : ∀ j, 0 < j → j ≤ iter.length → iter.take j ≠ [] := by
    intro j hj hle hnil
    have := congrArg List.length hnil
    rw [List.length_take, List.length_nil] at this
    omega
  unfold errAdvance
  exact errAdvance_arith iter.length (viableRef (rules.map (·.re)) iter).1 (gotoLen d e iter)
    (fun j => Extendable rules (iter.take j)) (fun j => Viable rules (iter.take j))
    ((viableRef (rules.map (·.re)) iter).2.any fun r => aliveR r && hasWordR r)
    hv1
    (fun j h1 h2 => (viable_map_iff rules _).mp (hv2 j h1 h2))
    (fun h hV => hv3 h ((viable_map_iff rules _).mpr hV))
    (hv4.trans (extendable_map_iff rules _))
    hg1
    (fun j h1 h2 => (hE _ (small_take hsm j) (htake j h1 (by omega))).mp (hg2 j h1 h2))
    (fun h hX => hg3 h ((hE _ (small_take hsm _) (htake (gotoLen d e iter + 1) (by omega) (by omega))).mpr hX))
    (fun j h => extendable_viable h)
    (fun j h1 h2 => extendable_of_viable_succ iter j h1 h2)
    (fun i j hij _ h => extendable_take iter i j hij h)

/-- `nextLoop_eq_specLoop` for inputs over code points `≤ charMax` (same induction; the remaining input stays a suffix) -/
theorem nextLoop_eq_specLoop_on (items : LexerDef) (ctxAt : Nat → Regex) (cfg : Config σ τ ε)
    (hm : MachineOK cfg) (HA : ViableRefHyp) (HE : ∀ e, IsEntry cfg e → EntryPackOn items ctxAt cfg e) :
    ∀ (fuel : Nat) (st : LState σ), Ready cfg st → Small st.iter →
      (st.iter.length + 2 ≤ fuel ∨ (st.done = true ∧ 1 ≤ fuel)) →
      nextLoop cfg fuel st = specLoop items cfg ctxAt fuel st := by
  intro fuel
  induction fuel with
  | zero =>
    intro st _ _ hf
    rcases hf with hf | ⟨_, hf⟩ <;> omega
  | succ f ih =>
    intro st hr hsm hfuel
    rw [nextLoop]
    by_cases hd : st.done = true
    · rw [if_pos hd, specLoop_done _ _ _ _ _ hd]
    · rw [if_neg hd]
      have hd' : st.done = false := by simpa using hd
      have hfl : st.iter.length + 2 ≤ f + 1 := by
        rcases hfuel with hf | ⟨hf, _⟩
        · exact hf
        · exact absurd hf hd
      obtain ⟨hl, hsi, e0, he0, hst0⟩ := hr
      have hr : Ready cfg st := ⟨hl, hsi, e0, he0, hst0⟩
      have hdisp : dispatch (stateArms cfg.dfa cfg.inl) st.state = some e0 := by
        rw [hst0]
        exact NextProtocol.dispatch_entry cfg hm e0 he0
      simp only [hdisp]
      obtain ⟨x, rules, hact, hcore, hiff', hExt, hnep⟩ := HE e0 he0
      have hiff := hiff' st.iter hsm
      have hact' : activeSet items cfg st.initial = some x := by
        rw [← hsi, hst0]
        exact hact
      have hns := dispatchOK_of_machineOK cfg hm
      have heq := scan_eq_scanPlain cfg _ hm.flags hm.acceptAny hm.targets hns e0 st.iter st
        (by intro h; rw [hl] at h; cases h)
      have hnoL : (∀ n a v, ¬ Cand cfg e0 st.iter n a v) → ∀ n a v, ¬ LangCand rules ctxAt st.iter n a v :=
        fun hno n a v hL => hno n a v ((hiff n a v).mpr hL)
      obtain ⟨_, _, hacc0⟩ := NextProtocol.isEntry_props cfg hm e0 he0
      cases ho : scan cfg (dispatch (stateArms cfg.dfa cfg.inl)) e0 st.iter st with
      | act a st1 =>
        have hx : execState cfg (dispatch (stateArms cfg.dfa cfg.inl)) e0 st.iter st = callAction cfg a st1 := by
          unfold execState
          rw [ho]
          rfl
        rw [hx]
        have hok := NextProtocol.scan_entry_ok cfg hm st hl e0 he0
        rw [ho] at hok
        have hactok : NextProtocol.ActOK st.iter st.initial st1 := hok
        rw [heq] at ho
        obtain ⟨n, ve, hc, hmax, s', hst1⟩ := scanPlain_act cfg _ hm.targets hns e0 st hl hd' a st1 ho
        have hsel : Selects rules ctxAt st.iter n a ve :=
          ⟨(hiff n a ve).mp hc, fun n' a' e' hL => hmax n' a' e' ((hiff n' a' e').mpr hL)⟩
        have hst1' : st1 = matchState cfg.width st n ve s' := hst1
        have hselR := (selectRef_some rules ctxAt st.iter n a ve).mpr hsel
        obtain ⟨_, hspec⟩ := specLoop_selected items cfg ctxAt f st x rules n a ve hd' hact' hcore hselR
        rw [hspec, callAction_matchState cfg a st n ve 0 s', ← hst1']
        cases hca : callAction cfg a st1 with
        | ret item st' => rfl
        | cont st2 =>
          simp only []
          have hent : ∃ e, IsEntry cfg e ∧ st1.initial = renumber cfg.inl e :=
            ⟨e0, he0, by rw [hactok.initial, ← hsi, hst0]⟩
          rcases NextProtocol.callAction_ok cfg a st1 hactok.last hent with
            ⟨st2', hc2, hr2, hi2, hd2⟩ | ⟨x', st2', hc2, _⟩
          · rw [hca] at hc2
            cases hc2
            have hit1 : st1.iter = st.iter.drop n := by rw [hst1']; rfl
            have hdn1 : st1.done = ve := by rw [hst1']; rfl
            apply ih st2 hr2 (by rw [hi2, hit1]; exact small_drop hsm n)
            rw [hi2, hd2, hit1, hdn1, List.length_drop]
            cases ve with
            | true => exact Or.inr ⟨rfl, by omega⟩
            | false =>
              left
              have hnpos : 0 < n := by
                cases n with
                | zero =>
                  have := cand_zero_inv cfg e0 st.iter a hc
                  rw [hacc0] at this
                  simp [firstOK] at this
                | succ n' => omega
              have := hc.1
              omega
          · rw [hca] at hc2
            cases hc2
      | err loc st1 =>
        have hx : execState cfg (dispatch (stateArms cfg.dfa cfg.inl)) e0 st.iter st = .ret (some (.invalid loc)) st1 := by
          unfold execState
          rw [ho]
          rfl
        rw [hx]
        rw [heq] at ho
        obtain ⟨hno, hloc, hs0, hi0, hspan, hlast, huser⟩ := scanPlain_err cfg _ hm.targets hns e0 st hl loc st1 ho
        obtain ⟨hiter, hdone⟩ := scanPlain_err_pos cfg _ hm.targets hns e0 st hl hd' loc st1 ho
        have hce := scanPlain_err_curEnd cfg _ hm.targets hns loc st1 st.iter e0 st rfl ho
        subst hloc
        have hselR := (selectRef_none rules ctxAt st.iter).mpr (hnoL hno)
        obtain ⟨_, hspec⟩ := specLoop_unselected items cfg ctxAt f st x rules hd' hact' hcore hselR
        rw [hspec]
        have hcond : ¬ (st.iter = [] ∧ st.state = 0) := by
          rintro ⟨hnil, hz⟩
          rw [hz] at hst0
          have he00 := RefRefine.entry_of_state_zero cfg hm e0 he0 hst0.symm
          rw [hnil, he00] at ho
          exact RefRefine.scanPlain_zero_nil_ne_err cfg _ st _ st1 ho
        rw [if_neg hcond]
        have hadv := errAdvance_eq_on HA rules hnep cfg.dfa e0 hExt st.iter hsm
        rw [err_state_eq cfg.width (rules.map (·.re)) st st1 (gotoLen cfg.dfa e0 st.iter) hadv hs0 hi0 hspan hlast
          huser hiter hdone hce]
      | fin st1 =>
        have hx : execState cfg (dispatch (stateArms cfg.dfa cfg.inl)) e0 st.iter st = .ret none st1 := by
          unfold execState
          rw [ho]
          rfl
        rw [hx]
        rw [heq] at ho
        obtain ⟨hnil, hz, huser, hnoeoi⟩ := RefRefine.scanPlain_fin_inv cfg hm _ hns st1 st.iter e0 st ho
        subst hz
        have hstate0 : st.state = 0 := by rw [hst0, NextProtocol.renumber_zero]
        have hnoC : ∀ n a v, ¬ Cand cfg 0 st.iter n a v := by
          intro n a v hc
          rw [hnil] at hc
          have hn0 := cand_nil_inv cfg 0 n a v hc
          subst hn0
          cases v with
          | false =>
            have := cand_zero_inv cfg 0 [] a hc
            rw [hm.state0.2.2] at this
            simp [firstOK] at this
          | true =>
            obtain ⟨_, accs, he, hf⟩ := cand_zero_eoi_inv cfg 0 [] a hc
            exact hnoeoi accs a he hf
        have hselR := (selectRef_none rules ctxAt st.iter).mpr (hnoL hnoC)
        obtain ⟨_, hspec⟩ := specLoop_unselected items cfg ctxAt f st x rules hd' hact' hcore hselR
        rw [hspec, if_pos ⟨hnil, hstate0⟩]
        rw [hnil] at ho
        rw [scanPlain_fin_state cfg hm _ st st1 hnil ho]
      | goto st1 =>
        have hok := NextProtocol.scan_entry_ok cfg hm st hl e0 he0
        rw [ho] at hok
        exact absurd hok (fun h => h)


/-! ## What `stageOK` checks -/

theorem stageOK_unpack (c : Compiled) (dfa : DFA Trans) (entries : List (String × Nat)) (ctxs : List (DFA Nat)) (inl : List Nat)
    (hs : stageOK c dfa entries ctxs inl = true) :
    ∃ pairs, entryPairs c.entries entries = some pairs ∧
      (∀ x y, (x, y) ∈ (if pairs.isEmpty then [(0, 0)] else pairs) → EquivFrom c.dfa dfa x y) ∧
      c.ctxs.length = ctxs.length ∧
      (∀ i, i < c.ctxs.length → EquivFrom (c.ctxs.getD i []) (ctxs.getD i []) 0 0 ∧ ctxWF (ctxs.getD i []) = true) ∧
      (machineWF dfa entries ctxs.length inl).all = true ∧ gotoLive c.dfa = true ∧ gotoLive dfa = true := by
  unfold stageOK at hs
  simp only [Bool.and_eq_true, decide_eq_true_eq] at hs
  obtain ⟨⟨⟨⟨⟨h1, h2⟩, h3⟩, h4⟩, h5⟩, h6⟩ := hs
  cases hp : entryPairs c.entries entries with
  | none => simp [hp] at h1
  | some pairs =>
    simp only [hp] at h1
    refine ⟨pairs, rfl, ?_, h2, ?_, h4, h5, h6⟩
    · intro x y hxy
      exact bisim_sound c.dfa dfa _ h1 x y hxy
    · intro i hi
      have := (List.all_eq_true.mp h3) i (List.mem_range.mpr hi)
      simp only [Bool.and_eq_true] at this
      exact ⟨bisim_sound _ _ _ this.1 0 0 (List.mem_singleton.mpr rfl), this.2⟩

theorem state0_entry (dfa : DFA Trans) (entries : List (String × Nat)) (n : Nat) (inl : List Nat)
    (h : (machineWF dfa entries n inl).all = true) : entries = [] ∨ ("Init", 0) ∈ entries := by
  simp only [WFReport.all, machineWF, Bool.and_eq_true] at h
  have h0 := h.1.2
  simp only [Bool.or_eq_true, decide_eq_true_eq] at h0
  rcases h0.2 with he | he
  · exact Or.inl (isEmpty_eq_nil _ he)
  · right
    obtain ⟨e, hmem, he⟩ := List.any_eq_true.mp he
    simp only [Bool.and_eq_true, beq_iff_eq] at he
    obtain ⟨n, s⟩ := e
    simp only at he
    rw [← he.1, ← he.2]
    exact hmem

/-! ## The entry states of a well-formed machine, by name -/

/-- the generated `switch` table read backwards: the number stored for an entry state is found, and it belongs to an entry with that
very state (entry states have distinct numbers) -/
theorem switch_find (cfg : Config σ τ ε) (hm : MachineOK cfg) (e : Nat) (name0 : String) (hmem : (name0, e) ∈ cfg.entries) :
    ∃ nm, (nm, e) ∈ cfg.entries ∧
      ∃ p, (switchTable cfg.inl cfg.entries).find? (·.2 = renumber cfg.inl e) = some p ∧ p.1 = nm := by
  have he0 : IsEntry cfg e := Or.inr ⟨name0, hmem⟩
  cases hf : (switchTable cfg.inl cfg.entries).find? (·.2 = renumber cfg.inl e) with
  | none =>
    exfalso
    have hm' : (name0, renumber cfg.inl e) ∈ switchTable cfg.inl cfg.entries := by
      unfold switchTable
      exact List.mem_map.mpr ⟨(name0, e), hmem, rfl⟩
    have := List.find?_eq_none.mp hf _ hm'
    simp at this
  | some e' =>
    have hp := List.find?_some hf
    have hmem' := List.mem_of_find?_eq_some hf
    simp only [decide_eq_true_eq] at hp
    unfold switchTable at hmem'
    obtain ⟨en, hen, hene⟩ := List.mem_map.mp hmem'
    have hentry : IsEntry cfg en.2 := Or.inr ⟨en.1, hen⟩
    have hsame : en.2 = e := by
      have h1 := NextProtocol.dispatch_entry _ hm en.2 hentry
      have h2 := NextProtocol.dispatch_entry _ hm e he0
      rw [← hene] at hp
      simp only at hp
      rw [hp, h2] at h1
      exact (Option.some.inj h1).symm
    refine ⟨en.1, ?_, e', rfl, ?_⟩
    · rw [← hsame]
      exact hen
    · rw [← hene]

/-! ## The right contexts of the two machines pass on the same inputs -/

theorem ctxOK_eq (cfg1 cfg2 : Config σ τ ε) (hlen : cfg1.ctxs.length = cfg2.ctxs.length)
    (hctx : ∀ i, i < cfg1.ctxs.length → EquivFrom (cfg1.ctxs.getD i []) (cfg2.ctxs.getD i []) 0 0 ∧ ctxWF (cfg2.ctxs.getD i []) = true)
    (i : Nat) (w : List Nat) (hw : ∀ c ∈ w, c ≤ charMax) : ctxOK cfg1 i w = ctxOK cfg2 i w := by
  unfold ctxOK
  by_cases hi : i < cfg1.ctxs.length
  · obtain ⟨h1, h2⟩ := hctx i hi
    exact ctxRun_equiv _ _ h2 w hw 0 0 h1
  · have h1 : cfg1.ctxs.getD i [] = [] := by simp [List.getD, Nat.le_of_not_lt hi]
    have h2 : cfg2.ctxs.getD i [] = [] := by simp [List.getD, ← hlen, Nat.le_of_not_lt hi]
    rw [h1, h2]

/-! ## The entry-level facts, transported to the dumped machine -/

/-- what `entry_pack` gives for an entry state of the model's machine holds (on inputs over code points `≤ charMax`) for a bisimilar
entry state of a second machine, provided the specification finds the same rule set through both entry maps -/
theorem pack_transfer (items : LexerDef) (ctxAt : Nat → Regex) (cfgM cfgD : Config σ τ ε)
    (hmM : MachineOK cfgM) (hmD : MachineOK cfgD) (eM eD : Nat)
    (hpack : EntryPack items ctxAt cfgM eM)
    (hE : EquivFrom cfgM.dfa cfgD.dfa eM eD)
    (hlen : cfgM.ctxs.length = cfgD.ctxs.length)
    (hctx : ∀ i, i < cfgM.ctxs.length → EquivFrom (cfgM.ctxs.getD i []) (cfgD.ctxs.getD i []) 0 0 ∧ ctxWF (cfgD.ctxs.getD i []) = true)
    (hlM : gotoLive cfgM.dfa = true) (hlD : gotoLive cfgD.dfa = true)
    (hact : ∀ x, activeSet items cfgM (renumber cfgM.inl eM) = some x → activeSet items cfgD (renumber cfgD.inl eD) = some x) :
    EntryPackOn items ctxAt cfgD eD := by
  obtain ⟨x, rules, hactM, hcore, hiff, hExt, hnep⟩ := hpack
  have hE' := equivFrom_symm _ _ _ _ hE
  have hc := ctxOK_eq cfgM cfgD hlen hctx
  refine ⟨x, rules, hact x hactM, hcore, ?_, ?_, hnep⟩
  · intro iter hsm n a v
    rw [← hiff iter n a v]
    constructor
    · exact cand_transport cfgD cfgM eD eM hE' (fun i w hw => (hc i w hw).symm) hmM.eoiAccept iter hsm n a v
    · exact cand_transport cfgM cfgD eM eD hE hc hmD.eoiAccept iter hsm n a v
  · intro w hsm hne
    rw [← hExt w hne]
    constructor
    · exact ext_transport cfgD.dfa cfgM.dfa eD eM hE' hlD w hsm hne
    · exact ext_transport cfgM.dfa cfgD.dfa eM eD hE hlM w hsm hne

/-- **the entry-level facts for every entry state of a machine that passes `stageOK`** -/
theorem entry_pack_dumped (items : LexerDef) (c : Compiled) (h : compileLexer items = .ok c)
    (hok : DefOK items) (hne : DefNE items)
    (dfa : DFA Trans) (entries : List (String × Nat)) (ctxs : List (DFA Nat)) (inl : List Nat)
    (hs : stageOK c dfa entries ctxs inl = true)
    (actions : Nat → Action σ τ ε) (width : Nat → Nat) (input : Option (List Nat))
    (hmD : MachineOK ({ dfa := dfa, ctxs := ctxs, entries := entries, inl := inl, actions := actions, width := width, input := input } : Config σ τ ε))
    (eD : Nat)
    (heD : IsEntry ({ dfa := dfa, ctxs := ctxs, entries := entries, inl := inl, actions := actions, width := width, input := input } : Config σ τ ε) eD) :
    EntryPackOn items (specCtxAt items)
      ({ dfa := dfa, ctxs := ctxs, entries := entries, inl := inl, actions := actions, width := width, input := input } : Config σ τ ε) eD := by
  obtain ⟨pairs, hpairs, hbis, hlen, hctx, hwf, hlM, hlD⟩ := stageOK_unpack c dfa entries ctxs inl hs
  have hmM := compileLexer_machineOK items c h hok actions width input
  have hpackM := fun e he => entry_pack items c h hok hne
    (fun rules hp hnep nfa hn d hd w => block_viable rules hp hnep nfa hn d hd w)
    (specCtxAt items) (specCtxAt_numbering items) actions width input e he
  obtain ⟨hlenE, hplen, hpall⟩ := entryPairs_spec c.entries entries pairs hpairs
  cases hrs : hasRuleSets items with
  | false =>
    have hent : c.entries = [] := (compileLexer_unnamed_core items c h hrs).2.1
    have hentD : entries = [] := by
      rw [hent] at hlenE
      exact List.eq_nil_of_length_eq_zero hlenE.symm
    have hpnil : pairs = [] := by
      rw [hent] at hplen
      exact List.eq_nil_of_length_eq_zero hplen
    have he0 : eD = 0 := by
      rcases heD with rfl | ⟨name, hn⟩
      · rfl
      · have hn' : (name, eD) ∈ entries := hn
        rw [hentD] at hn'
        cases hn'
    subst he0
    have hE : EquivFrom c.dfa dfa 0 0 := by
      apply hbis 0 0
      rw [hpnil]
      exact List.mem_singleton.mpr rfl
    refine pack_transfer items (specCtxAt items) (c.config actions width input) _ hmM hmD 0 0
      (hpackM 0 (Or.inl rfl)) hE hlen hctx hlM hlD ?_
    intro x hx
    unfold activeSet at hx ⊢
    rw [if_neg (by rw [hrs]; exact Bool.false_ne_true), NextProtocol.renumber_zero] at hx ⊢
    exact hx
  | true =>
    obtain ⟨hinit, _⟩ := RefRefine.entries_named items c h hrs
    have hndM := compile_names_nodup items c h hrs
    obtain ⟨hndD, hnames⟩ := entryPairs_names c.entries entries pairs hpairs hndM
    have hpne : pairs.isEmpty = false := by
      cases pairs with
      | nil =>
        have : c.entries = [] := List.eq_nil_of_length_eq_zero hplen.symm
        rw [this] at hinit
        cases hinit
      | cons p t => rfl
    -- the entry state has a name
    have hmemD : ∃ name, (name, eD) ∈ entries := by
      rcases heD with rfl | ⟨name, hn⟩
      · rcases state0_entry dfa entries ctxs.length inl hwf with hnil | hin
        · rw [hnil] at hlenE
          have : c.entries = [] := List.eq_nil_of_length_eq_zero hlenE
          rw [this] at hinit
          cases hinit
        · exact ⟨"Init", hin⟩
      · exact ⟨name, hn⟩
    obtain ⟨name0, hmem0⟩ := hmemD
    obtain ⟨nm, hnmD, pD, hfD, hpD⟩ := switch_find _ hmD eD name0 hmem0
    obtain ⟨eM, hnmM, hpair⟩ := hnames nm eD hnmD
    have hE : EquivFrom c.dfa dfa eM eD := by
      apply hbis eM eD
      rw [hpne]
      exact hpair
    have heM : IsEntry (c.config actions width input) eM := Or.inr ⟨nm, hnmM⟩
    refine pack_transfer items (specCtxAt items) (c.config actions width input) _ hmM hmD eM eD
      (hpackM eM heM) hE hlen hctx hlM hlD ?_
    intro x hx
    obtain ⟨nm', hnmM', pM, hfM, hpM⟩ := switch_find _ hmM eM nm hnmM
    have hsame : nm' = nm := RunCongr.entries_states_inj items c h hrs nm' nm eM hnmM' hnmM
    unfold activeSet at hx ⊢
    rw [if_pos hrs] at hx ⊢
    rw [hfM] at hx
    rw [hfD]
    simp only at hx ⊢
    rw [hpD]
    rw [hpM, hsame] at hx
    exact hx

/-! ## Whole runs -/

theorem ready_initState (cfg : Config σ τ ε) (user : σ) (chars : List Nat) : Ready cfg (initState user chars) := by
  refine ⟨rfl, rfl, 0, Or.inl rfl, ?_⟩
  show (0 : Nat) = renumber _ 0
  rw [NextProtocol.renumber_zero]

theorem boundary_initState (width : Nat → Nat) (user : σ) (chars : List Nat) :
    Boundary width chars (initState user chars) :=
  ⟨rfl, 0, 0, Nat.le_refl _, Nat.zero_le _, rfl, rfl, rfl⟩

/-- the remaining input of a lexer state consistent with `chars` consists of characters of `chars` -/
theorem boundary_small (width : Nat → Nat) (chars : List Nat) (hch : ∀ ch ∈ chars, ch ≤ charMax) (st : LState σ)
    (hb : Boundary width chars st) : ∀ ch ∈ st.iter, ch ≤ charMax := by
  obtain ⟨_, start, pos, _, _, hit, _, _⟩ := hb
  intro ch hmem
  rw [hit] at hmem
  exact hch ch (List.mem_of_mem_drop hmem)

end Dumped

theorem dumped_machine_is_specification (items : LexerDef) (c : Compiled) (h : compileLexer items = .ok c)
    (hok : DefOK items) (hne : DefNE items)
    (dfa : DFA Trans) (entries : List (String × Nat)) (ctxs : List (DFA Nat)) (inl : List Nat)
    (hs : stageOK c dfa entries ctxs inl = true)
    (actions : Nat → Action σ τ ε) (width : Nat → Nat) (input : Option (List Nat)) (st : LState σ)
    (hr : Ready { dfa := dfa, ctxs := ctxs, entries := entries, inl := inl, actions := actions, width := width, input := input } st)
    (hch : ∀ ch ∈ st.iter, ch ≤ charMax) :
    next { dfa := dfa, ctxs := ctxs, entries := entries, inl := inl, actions := actions, width := width, input := input } st =
      specNextFull items { dfa := dfa, ctxs := ctxs, entries := entries, inl := inl, actions := actions, width := width, input := input } st := by
  obtain ⟨_, _, _, _, _, hwf, _, _⟩ := Dumped.stageOK_unpack c dfa entries ctxs inl hs
  have hm : MachineOK ({ dfa := dfa, ctxs := ctxs, entries := entries, inl := inl, actions := actions, width := width, input := input } : Config σ τ ε) :=
    machineOK_of_checker _ ctxs.length hwf
  unfold next specNextFull
  rw [specNext_eq]
  exact Dumped.nextLoop_eq_specLoop_on items (specCtxAt items) _ hm
    (fun res hres iter => viableRef_spec res hres iter)
    (fun e he => Dumped.entry_pack_dumped items c h hok hne dfa entries ctxs inl hs actions width input hm e he)
    _ st hr hch (Or.inl (Nat.le_refl _))

namespace Dumped

/-- any number of calls from a lexer state at a lexeme start whose remaining input is a suffix of `chars` -/
theorem runN_eq_specRunN_dumped (items : LexerDef) (c : Compiled) (h : compileLexer items = .ok c)
    (hok : DefOK items) (hne : DefNE items)
    (dfa : DFA Trans) (entries : List (String × Nat)) (ctxs : List (DFA Nat)) (inl : List Nat)
    (hs : stageOK c dfa entries ctxs inl = true)
    (actions : Nat → Action σ τ ε) (width : Nat → Nat) (input : Option (List Nat)) (chars : List Nat)
    (hch : ∀ ch ∈ chars, ch ≤ charMax)
    (hm : MachineOK ({ dfa := dfa, ctxs := ctxs, entries := entries, inl := inl, actions := actions, width := width, input := input } : Config σ τ ε)) :
    ∀ (n : Nat) (st : LState σ),
      Ready ({ dfa := dfa, ctxs := ctxs, entries := entries, inl := inl, actions := actions, width := width, input := input } : Config σ τ ε) st →
      Boundary width chars st →
      runN { dfa := dfa, ctxs := ctxs, entries := entries, inl := inl, actions := actions, width := width, input := input } n st =
        specRunN items { dfa := dfa, ctxs := ctxs, entries := entries, inl := inl, actions := actions, width := width, input := input } n st := by
  intro n
  induction n with
  | zero => intro st _ _; rfl
  | succ n ih =>
    intro st hr hb
    have heq := dumped_machine_is_specification items c h hok hne dfa entries ctxs inl hs actions width input st hr
      (boundary_small width chars hch st hb)
    unfold runN specRunN
    rw [← heq]
    cases hn : next ({ dfa := dfa, ctxs := ctxs, entries := entries, inl := inl, actions := actions, width := width, input := input } : Config σ τ ε) st with
    | none => rfl
    | some r =>
      obtain ⟨item, st'⟩ := r
      have hr' := next_ready _ hm st hr item st' hn
      have hb' := (next_boundary _ hm chars st hb item st' hn).1
      simp only
      rw [ih st' hr' hb']

end Dumped

/-- whole runs from a fresh lexer over scalar values -/
theorem dumped_machine_runs_are_specification (items : LexerDef) (c : Compiled) (h : compileLexer items = .ok c)
    (hok : DefOK items) (hne : DefNE items)
    (dfa : DFA Trans) (entries : List (String × Nat)) (ctxs : List (DFA Nat)) (inl : List Nat)
    (hs : stageOK c dfa entries ctxs inl = true)
    (actions : Nat → Action σ τ ε) (width : Nat → Nat) (input : Option (List Nat)) (user : σ) (chars : List Nat)
    (hch : ∀ ch ∈ chars, ch ≤ charMax) (n : Nat) :
    runN { dfa := dfa, ctxs := ctxs, entries := entries, inl := inl, actions := actions, width := width, input := input } n (initState user chars) =
      specRunN items { dfa := dfa, ctxs := ctxs, entries := entries, inl := inl, actions := actions, width := width, input := input } n (initState user chars) := by
  obtain ⟨_, _, _, _, _, hwf, _, _⟩ := Dumped.stageOK_unpack c dfa entries ctxs inl hs
  have hm : MachineOK ({ dfa := dfa, ctxs := ctxs, entries := entries, inl := inl, actions := actions, width := width, input := input } : Config σ τ ε) :=
    machineOK_of_checker _ ctxs.length hwf
  exact Dumped.runN_eq_specRunN_dumped items c h hok hne dfa entries ctxs inl hs actions width input chars hch hm n
    (initState user chars) (Dumped.ready_initState _ user chars) (Dumped.boundary_initState width user chars)

end Lexgen

/-
#print axioms Lexgen.dumped_machine_is_specification
'Lexgen.dumped_machine_is_specification' depends on axioms: [propext, Classical.choice, Quot.sound]
#print axioms Lexgen.dumped_machine_runs_are_specification
'Lexgen.dumped_machine_runs_are_specification' depends on axioms: [propext, Classical.choice, Quot.sound]
-/
