import LexgenModel.Proofs.NfaShape
import LexgenModel.Proofs.BlockShape
/-!
# The DFA of every rule set of a well-formed definition has the block shape the run-time theorems need
(composition of `buildNfa_shape`, `blockOK_of_nfa` and `RuleSetLang.built_buildNfa`)
-/
namespace Lexgen

theorem blockOK_of_rules (rules : List CoreRule) (nfa : NFA) (h : buildNfa rules = .ok nfa) (d : DFA Nat)
    (hd : nfaToDfa nfa = some d) (ht : ∀ r ∈ rules, tailEoi r.re) (hp : ∀ r ∈ rules, regexPiecesOK r.re) :
    BlockOK d := by
  have hb := RuleSetLang.built_buildNfa rules hp nfa h
  obtain ⟨h0, he⟩ := buildNfa_shape rules nfa h ht
  exact blockOK_of_nfa nfa hb.wf ((RuleSetLang.tne_iff nfa).mp hb.tne) h0 he d hd

end Lexgen
