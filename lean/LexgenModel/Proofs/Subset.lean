import LexgenModel.Spec.Lang
import LexgenModel.Proofs.RangeMap
import LexgenModel.Proofs.SubsetPath
import LexgenModel.Proofs.SubsetTable
/-!
# Partial correctness of the work-list subset construction `nfaToDfa`

Main result: `nfaToDfa_correct_partial` — if `nfaToDfa nfa = some d` for an NFA satisfying `NFAWF`
and `Subset.TargetsNonempty`, then `SubsetCorrect nfa d ∧ TargetsInRange d`.

The statement without `TargetsNonempty` is false (`nfaToDfa_correct_counterexample`).
-/
set_option linter.unusedSimpArgs false
set_option linter.unusedVariables false
namespace Lexgen.Subset
open Lexgen

/-! ## the merge lemma: the table written by `expandState` is the subset-construction step -/

/-- one step of a DFA state on a symbol of the extended alphabet -/
def stepS (s : DState Nat) : Sym → Option Nat
  | .ch c => lookupTrans s c
  | .eoi => s.eoi

theorem stepD_eq (d : DFA Nat) (s : Nat) (x : Sym) : stepD d s x = stepS (d.st s) x := by
  cases x <;> rfl

theorem stepS_congr {a b : DState Nat} (h : TEq a b) (x : Sym) : stepS a x = stepS b x := by
  cases x with
  | ch c => simp only [stepS, lookupTrans, h.chars, h.ranges, h.any]
  | eoi => exact h.eoi

theorem succs_congr {a b : DState Nat} (h : TEq a b) : DFA.succs a = DFA.succs b := by
  simp only [DFA.succs, h.chars, h.ranges, h.any, h.eoi]

/-- state `st` (with key `S`) is expanded correctly w.r.t. the state map `sm` -/
structure Done (nfa : NFA) (sm : List (List Nat × Nat)) (S : List Nat) (st : DState Nat) : Prop where
  acc : st.accepting = S.filterMap (fun u => (nfa.st u).acc)
  some : ∀ x t, stepS st x = some t → ∃ T, (T, t) ∈ sm ∧ ∀ u, u ∈ T ↔ StepP nfa (· ∈ S) x u
  none : ∀ x, stepS st x = none → ∀ u, ¬ StepP nfa (· ∈ S) x u
  tir : ∀ t ∈ DFA.succs st, ∃ T, (T, t) ∈ sm

theorem Done.congr {nfa : NFA} {sm sm' : List (List Nat × Nat)} {S : List Nat} {st st' : DState Nat}
    (h : Done nfa sm S st) (ht : TEq st' st) (hs : ∀ e ∈ sm, e ∈ sm') : Done nfa sm' S st' := by
  refine ⟨ht.acc.trans h.acc, fun x t hx => ?_, fun x hx => ?_, fun t hmem => ?_⟩
  · rw [stepS_congr ht] at hx
    obtain ⟨T, h1, h2⟩ := h.some x t hx
    exact ⟨T, hs _ h1, h2⟩
  · rw [stepS_congr ht] at hx
    exact h.none x hx
  · rw [succs_congr ht] at hmem
    obtain ⟨T, h1⟩ := h.tir t hmem
    exact ⟨T, hs _ h1⟩

theorem lookupChar_rel {nfa : NFA} {col : Collected} {sm : List (List Nat × Nat)}
    {L : List (Nat × List Nat)} {Q : List (Nat × Nat)} (h : Rel₂ (CR nfa col sm) L Q) (c : Nat) :
    (lookupChar L c = none → lookupChar Q c = none) ∧
    (∀ v, lookupChar L c = some v → ∃ t, lookupChar Q c = some t ∧ (nfa.closure (ctg col (c, v)), t) ∈ sm) := by
  induction h with
  | nil => exact ⟨fun _ => rfl, fun v hv => (by cases hv)⟩
  | @cons a q l m hab _ ih =>
    obtain ⟨k, v0⟩ := a
    obtain ⟨k', t0⟩ := q
    obtain ⟨hk, hm⟩ := hab
    simp only at hk hm
    subst hk
    simp only [lookupChar]
    by_cases hc : k' = c
    · subst hc
      simp only [if_true]
      refine ⟨fun h => (by cases h), fun v hv => ?_⟩
      cases hv
      exact ⟨t0, rfl, hm⟩
    · simp only [hc, if_false]
      exact ih

theorem lookupRange_rel {nfa : NFA} {col : Collected} {sm : List (List Nat × Nat)}
    {L : RangeMap (List Nat)} {Q : RangeMap Nat} (h : Rel₂ (RR nfa col sm) L Q) (c : Nat) :
    (RangeMap.lookup L c = none → RangeMap.lookup Q c = none) ∧
    (∀ v, RangeMap.lookup L c = some v →
      ∃ t, RangeMap.lookup Q c = some t ∧ (nfa.closure (setUnion v col.any), t) ∈ sm) := by
  induction h with
  | nil => exact ⟨fun _ => rfl, fun v hv => (by cases hv)⟩
  | @cons a q l m hab _ ih =>
    obtain ⟨s, e, v0⟩ := a
    obtain ⟨s', e', t0⟩ := q
    obtain ⟨h1, h2, hm⟩ := hab
    simp only at h1 h2 hm
    subst h1; subst h2
    simp only [RangeMap.lookup]
    by_cases hc : s' ≤ c ∧ c ≤ e'
    · simp only [hc, and_self, if_true]
      refine ⟨fun h => (by cases h), fun v hv => ?_⟩
      cases hv
      exact ⟨t0, rfl, hm⟩
    · simp only [hc, if_false]
      exact ih

theorem cov_iff {m : RangeMap (List Nat)} (hwf : RangeMap.WF m) (c t : Nat) :
    (∃ r ∈ m, r.1 ≤ c ∧ c ≤ r.2.1 ∧ t ∈ r.2.2) ↔ optMem (RangeMap.lookup m c) t := by
  constructor
  · rintro ⟨r, hr, h1, h2, h3⟩
    exact ⟨r.2.2, lookup_of_mem hwf hr h1 h2, h3⟩
  · rintro ⟨v, hv, ht⟩
    obtain ⟨r, hr, h1, h2, h3⟩ := mem_of_lookup hv
    exact ⟨r, hr, h1, h2, h3 ▸ ht⟩

theorem stepCh_iff {nfa : NFA} {S : List Nat} {col : Collected} (hcs : ColSpec nfa S col) (c m : Nat) :
    (∃ s ∈ S, NFA.stepCh nfa s c m) ↔
      optMem (lookupChar col.chars c) m ∨ optMem (RangeMap.lookup col.ranges c) m ∨ m ∈ col.any := by
  rw [hcs.cmem, hcs.rmem, hcs.any]
  unfold NFA.stepCh
  constructor
  · rintro ⟨s, hs, h | h | h⟩
    · exact Or.inl ⟨s, hs, h⟩
    · exact Or.inr (Or.inl ⟨s, hs, h⟩)
    · exact Or.inr (Or.inr ⟨s, hs, h⟩)
  · rintro (⟨s, hs, h⟩ | ⟨s, hs, h⟩ | ⟨s, hs, h⟩)
    · exact ⟨s, hs, Or.inl h⟩
    · exact ⟨s, hs, Or.inr (Or.inl h)⟩
    · exact ⟨s, hs, Or.inr (Or.inr h)⟩

theorem optMem_none (m : Nat) : ¬ optMem none m := by
  rintro ⟨v, hv, _⟩; cases hv

theorem optMem_some (v : List Nat) (m : Nat) : optMem (some v) m ↔ m ∈ v := by
  constructor
  · rintro ⟨v', hv, h⟩; cases hv; exact h
  · intro h; exact ⟨v, rfl, h⟩

/-- the transition of the expanded state on `x` leads to the state whose key is the closure of the
`x`-successors `M` of the members; there is none iff there are no successors -/
theorem trans_spec {nfa : NFA} (hwf : NFAWF nfa) {S : List Nat} {col : Collected} (hcs : ColSpec nfa S col)
    {sm : List (List Nat × Nat)} {st : DState Nat} (ht : DTable nfa col sm st) (x : Sym) :
    ∃ M : List Nat, (∀ m, m ∈ M ↔ ∃ s ∈ S, NFA.stepSym nfa s x m) ∧
      ((nfa.closure M = [] ∧ stepS st x = none) ∨ (∃ t, stepS st x = some t ∧ (nfa.closure M, t) ∈ sm)) := by
  cases x with
  | eoi =>
    refine ⟨col.eoi, fun m => hcs.eoi m, ?_⟩
    rcases ht.eoi with ⟨h1, h2⟩ | ⟨h1, t, h2, h3⟩
    · exact Or.inl ⟨h1, h2⟩
    · exact Or.inr ⟨t, h2, h3⟩
  | ch c =>
    simp only [stepS, NFA.stepSym, lookupTrans]
    have hC := lookupChar_rel ht.chars c
    have hR := lookupRange_rel ht.ranges c
    cases hL : lookupChar col.chars c with
    | some v =>
      obtain ⟨t, h1, h2⟩ := hC.2 v hL
      refine ⟨ctg col (c, v), fun m => ?_, Or.inr ⟨t, by rw [h1], h2⟩⟩
      rw [stepCh_iff hcs, mem_ctg, hL, optMem_some, cov_iff hcs.rwf]
    | none =>
      rw [hC.1 hL]
      cases hL2 : RangeMap.lookup col.ranges c with
      | some v =>
        obtain ⟨t, h1, h2⟩ := hR.2 v hL2
        refine ⟨setUnion v col.any, fun m => ?_, Or.inr ⟨t, by rw [h1], h2⟩⟩
        rw [stepCh_iff hcs, hL, hL2, optMem_some, mem_setUnion]
        simp [optMem_none]
      | none =>
        rw [hR.1 hL2]
        refine ⟨col.any, fun m => ?_, ?_⟩
        · rw [stepCh_iff hcs, hL, hL2]
          simp [optMem_none]
        · rcases ht.any with ⟨h1, h2⟩ | ⟨h1, t, h2, h3⟩
          · exact Or.inl ⟨h1, h2⟩
          · exact Or.inr ⟨t, h2, h3⟩

theorem mem_closure_step {nfa : NFA} (hwf : NFAWF nfa) {S M : List Nat} {x : Sym}
    (hM : ∀ m, m ∈ M ↔ ∃ s ∈ S, NFA.stepSym nfa s x m) (u : Nat) :
    u ∈ nfa.closure M ↔ StepP nfa (· ∈ S) x u := by
  rw [mem_closure hwf]
  unfold StepP
  constructor
  · rintro ⟨m, hm, hr⟩
    obtain ⟨s, hs, hst⟩ := (hM m).mp hm
    exact ⟨s, hs, m, hst, hr⟩
  · rintro ⟨s, hs, m, hst, hr⟩
    exact ⟨m, (hM m).mpr ⟨s, hs, hst⟩, hr⟩

theorem succs_keys {nfa : NFA} {col : Collected} {sm : List (List Nat × Nat)} {st : DState Nat}
    (ht : DTable nfa col sm st) : ∀ t ∈ DFA.succs st, ∃ T, (T, t) ∈ sm := by
  intro t hmem
  unfold DFA.succs at hmem
  simp only [List.mem_append, List.mem_map] at hmem
  rcases hmem with ((⟨q, hq, rfl⟩ | ⟨q, hq, rfl⟩) | h) | h
  · obtain ⟨e, _, hr⟩ := ht.chars.mem_right hq
    exact ⟨_, hr.2⟩
  · obtain ⟨e, _, hr⟩ := ht.ranges.mem_right hq
    exact ⟨_, hr.2.2⟩
  · rcases ht.any with ⟨_, h2⟩ | ⟨_, t', h2, h3⟩
    · rw [h2] at h; cases h
    · rw [h2] at h
      simp only [Option.toList, List.mem_singleton] at h
      subst h; exact ⟨_, h3⟩
  · rcases ht.eoi with ⟨_, h2⟩ | ⟨_, t', h2, h3⟩
    · rw [h2] at h; cases h
    · rw [h2] at h
      simp only [Option.toList, List.mem_singleton] at h
      subst h; exact ⟨_, h3⟩

theorem done_of_table {nfa : NFA} (hwf : NFAWF nfa) {S : List Nat} {col : Collected}
    (hcs : ColSpec nfa S col) {sm : List (List Nat × Nat)} {st : DState Nat} (ht : DTable nfa col sm st) :
    Done nfa sm S st := by
  refine ⟨ht.acc.trans hcs.accs, fun x t hx => ?_, fun x hx u hu => ?_, succs_keys ht⟩
  · obtain ⟨M, hM, h | ⟨t', h1, h2⟩⟩ := trans_spec hwf hcs ht x
    · rw [h.2] at hx; cases hx
    · rw [h1] at hx; cases hx
      exact ⟨_, h2, mem_closure_step hwf hM⟩
  · obtain ⟨M, hM, h | ⟨t', h1, h2⟩⟩ := trans_spec hwf hcs ht x
    · have := (mem_closure_step hwf hM u).mpr hu
      rw [h.1] at this; cases this
    · rw [h1] at hx; cases hx

/-! ## the work-list loop -/

structure BInv (nfa : NFA) (b : Builder) (finished : List Nat) (wl : List (List Nat)) : Prop where
  wf : WFB b
  zero : (nfa.closure [0], 0) ∈ b.stateMap
  keys : ∀ e ∈ b.stateMap, KeyOK e.1
  wlok : ∀ k ∈ wl, KeyOK k
  finlt : ∀ i ∈ finished, i < b.dfa.length
  fin : ∀ S i, (S, i) ∈ b.stateMap → i ∈ finished → Done nfa b.stateMap S (b.dfa.st i)
  unfin : ∀ i, i ∉ finished → TEq (b.dfa.st i) DState.empty
  pending : ∀ S i, (S, i) ∈ b.stateMap → i ∉ finished → S ∈ wl

theorem wfb_has_key {b : Builder} (h : WFB b) {i : Nat} (hi : i < b.dfa.length) :
    ∃ S, (S, i) ∈ b.stateMap := by
  have : i ∈ b.stateMap.map (·.2) := by rw [h.2]; exact List.mem_range.mpr hi
  obtain ⟨e, he, rfl⟩ := List.mem_map.mp this
  exact ⟨e.1, he⟩

/-- an entry of the extended map whose index is an old state is an old entry -/
theorem old_entry {b b' : Builder} (hb : WFB b) (hb' : WFB b') (hsub : ∀ e ∈ b.stateMap, e ∈ b'.stateMap)
    {S : List Nat} {i : Nat} (hi : i < b.dfa.length) (he : (S, i) ∈ b'.stateMap) : (S, i) ∈ b.stateMap := by
  obtain ⟨S', hS'⟩ := wfb_has_key hb hi
  have := wfb_idx_inj hb' he (hsub _ hS')
  rw [this]; exact hS'

theorem binv_stateOf {nfa : NFA} {b : Builder} {finished : List Nat} {cur : List Nat} {wl : List (List Nat)}
    (h : BInv nfa b finished (cur :: wl)) :
    BInv nfa (b.stateOf cur).1 finished (cur :: wl) ∧ (cur, (b.stateOf cur).2) ∈ (b.stateOf cur).1.stateMap := by
  obtain ⟨s1, s2, s3, s4, s5, s6⟩ := stateOf_spec b cur h.wf
  refine ⟨⟨s1, s2 _ h.zero, fun e he => ?_, h.wlok, fun i hi => Nat.lt_of_lt_of_le (h.finlt i hi) s6,
    fun S i he hi => ?_, fun i hi => by rw [s5 i]; exact h.unfin i hi, fun S i he hi => ?_⟩, s4⟩
  · rcases s3 e he with h1 | h1
    · exact h.keys e h1
    · rw [h1]; exact h.wlok cur List.mem_cons_self
  · have hold := old_entry h.wf s1 s2 (h.finlt i hi) he
    exact (h.fin S i hold hi).congr (TEq.of_eq (s5 i)) s2
  · rcases s3 _ he with h1 | h1
    · exact h.pending S i h1 hi
    · simp only at h1; rw [h1]; exact List.mem_cons_self

theorem binv_skip {nfa : NFA} {b : Builder} {finished : List Nat} {cur : List Nat} {wl : List (List Nat)}
    (h : BInv nfa b finished (cur :: wl)) {d : Nat} (hd : (cur, d) ∈ b.stateMap) (hfin : d ∈ finished) :
    BInv nfa b finished wl := by
  refine ⟨h.wf, h.zero, h.keys, fun k hk => h.wlok k (List.mem_cons_of_mem _ hk), h.finlt, h.fin, h.unfin,
    fun S i he hi => ?_⟩
  rcases List.mem_cons.mp (h.pending S i he hi) with h1 | h1
  · subst h1
    have := wfb_key_inj h.wf he hd
    subst this
    exact absurd hfin hi
  · exact h1

theorem binv_expand {nfa : NFA} (hwf : NFAWF nfa) (hne : TargetsNonempty nfa) {b : Builder}
    {finished : List Nat} {cur : List Nat} {wl : List (List Nat)}
    (h : BInv nfa b finished (cur :: wl)) {d : Nat} (hd : (cur, d) ∈ b.stateMap) (hfin : d ∉ finished) :
    BInv nfa (expandState nfa b d cur).1 (d :: finished) ((expandState nfa b d cur).2 ++ wl) := by
  have hdl : d < b.dfa.length := wfb_idx_lt h.wf hd
  obtain ⟨hm, ht⟩ := expand_spec hwf hne b d cur h.wf hdl (h.unfin d hfin)
  generalize expandState nfa b d cur = r at hm ht ⊢
  refine ⟨hm.wf, hm.old _ h.zero, fun e he => ?_, fun k hk => ?_, fun i hi => ?_, fun S i he hi => ?_,
    fun i hi => ?_, fun S i he hi => ?_⟩
  · rcases hm.new e he with h1 | h1
    · exact h.keys e h1
    · exact hm.pk _ h1
  · rcases List.mem_append.mp hk with h1 | h1
    · exact hm.pk _ h1
    · exact h.wlok k (List.mem_cons_of_mem _ h1)
  · rcases List.mem_cons.mp hi with h1 | h1
    · rw [h1]; exact Nat.lt_of_lt_of_le hdl hm.len
    · exact Nat.lt_of_lt_of_le (h.finlt i h1) hm.len
  · rcases List.mem_cons.mp hi with h1 | h1
    · subst h1
      have : S = cur := wfb_idx_inj hm.wf he (hm.old _ hd)
      subst this
      exact done_of_table hwf (collect_spec hwf S) ht
    · have hne' : i ≠ d := fun hid => hfin (hid ▸ h1)
      have hold := old_entry h.wf hm.wf hm.old (h.finlt i h1) he
      exact (h.fin S i hold h1).congr (hm.other i hne') hm.old
  · have h1 : i ≠ d := fun hid => hi (hid ▸ List.mem_cons_self)
    have h2 : i ∉ finished := fun hif => hi (List.mem_cons_of_mem _ hif)
    exact (hm.other i h1).trans (h.unfin i h2)
  · have h1 : i ≠ d := fun hid => hi (hid ▸ List.mem_cons_self)
    have h2 : i ∉ finished := fun hif => hi (List.mem_cons_of_mem _ hif)
    rcases hm.new _ he with h3 | h3
    · rcases List.mem_cons.mp (h.pending S i h3 h2) with h4 | h4
      · subst h4
        exact absurd (wfb_key_inj h.wf h3 hd) h1
      · exact List.mem_append_right _ h4
    · exact List.mem_append_left _ h3

theorem loop_cons (nfa : NFA) (fuel : Nat) (cur : List Nat) (wl : List (List Nat)) (finished : List Nat)
    (b : Builder) :
    nfaToDfaLoop nfa (fuel + 1) (cur :: wl) finished b =
      if finished.contains (b.stateOf cur).2 then nfaToDfaLoop nfa fuel wl finished (b.stateOf cur).1
      else nfaToDfaLoop nfa fuel ((expandState nfa (b.stateOf cur).1 (b.stateOf cur).2 cur).2 ++ wl)
        ((b.stateOf cur).2 :: finished) (expandState nfa (b.stateOf cur).1 (b.stateOf cur).2 cur).1 := rfl

theorem loop_spec {nfa : NFA} (hwf : NFAWF nfa) (hne : TargetsNonempty nfa) :
    ∀ (fuel : Nat) (wl : List (List Nat)) (finished : List Nat) (b bf : Builder),
      nfaToDfaLoop nfa fuel wl finished b = some bf → BInv nfa b finished wl →
      ∃ fin', BInv nfa bf fin' [] := by
  intro fuel
  induction fuel with
  | zero =>
    intro wl finished b bf h hinv
    cases wl with
    | nil => simp only [nfaToDfaLoop] at h; cases h; exact ⟨finished, hinv⟩
    | cons cur wl => simp [nfaToDfaLoop] at h
  | succ fuel ih =>
    intro wl finished b bf h hinv
    cases wl with
    | nil => simp only [nfaToDfaLoop] at h; cases h; exact ⟨finished, hinv⟩
    | cons cur wl =>
      rw [loop_cons] at h
      obtain ⟨hinv1, hkey⟩ := binv_stateOf hinv
      by_cases hc : (b.stateOf cur).2 ∈ finished
      · rw [if_pos (List.contains_iff_mem.mpr hc)] at h
        exact ih _ _ _ _ h (binv_skip hinv1 hkey hc)
      · rw [if_neg (fun hh => hc (List.contains_iff_mem.mp hh))] at h
        exact ih _ _ _ _ h (binv_expand hwf hne hinv1 hkey hc)

/-! ## reading a word in the finished DFA -/

theorem stepP_empty (nfa : NFA) {P : Nat → Prop} (h : ∀ u, ¬ P u) (x : Sym) : ∀ u, ¬ StepP nfa P x u := by
  rintro u ⟨s, hs, _⟩; exact h s hs

theorem after_empty (nfa : NFA) (w : List Sym) : ∀ {P : Nat → Prop}, (∀ u, ¬ P u) → ∀ u, ¬ After nfa P w u := by
  induction w with
  | nil => intro P h u; exact h u
  | cons x w ih => intro P h u; exact ih (stepP_empty nfa h x) u

theorem reach_spec {nfa : NFA} {b : Builder}
    (hdone : ∀ S i, (S, i) ∈ b.stateMap → Done nfa b.stateMap S (b.dfa.st i)) (w : List Sym) :
    ∀ (i : Nat) (S : List Nat), (S, i) ∈ b.stateMap →
      (∀ t, reachSym b.dfa i w = some t → ∃ T, (T, t) ∈ b.stateMap ∧ ∀ u, u ∈ T ↔ After nfa (· ∈ S) w u) ∧
      (reachSym b.dfa i w = none → ∀ u, ¬ After nfa (· ∈ S) w u) := by
  induction w with
  | nil =>
    intro i S hS
    refine ⟨fun t ht => ?_, fun hn => (by simp [reachSym] at hn)⟩
    simp only [reachSym] at ht; cases ht
    exact ⟨S, hS, fun u => Iff.rfl⟩
  | cons x w ih =>
    intro i S hS
    have hd := hdone S i hS
    simp only [reachSym, stepD_eq]
    cases hstep : stepS (b.dfa.st i) x with
    | none =>
      refine ⟨fun t ht => (by cases ht), fun _ u => ?_⟩
      exact after_empty nfa w (hd.none x hstep) u
    | some t =>
      obtain ⟨T, hT, hmem⟩ := hd.some x t hstep
      obtain ⟨i1, i2⟩ := ih t T hT
      refine ⟨fun t' ht' => ?_, fun hn u => ?_⟩
      · obtain ⟨T', hT', hm'⟩ := i1 t' ht'
        refine ⟨T', hT', fun u => ?_⟩
        rw [hm' u]
        exact after_congr nfa w _ _ hmem u
      · intro ha
        exact i2 hn u ((after_congr nfa w _ _ hmem u).mpr ha)

/-! ## the initial builder -/

theorem binv_init {nfa : NFA} (hwf : NFAWF nfa) :
    BInv nfa { dfa := [{ (DState.empty : DState Nat) with initial := true }],
               stateMap := [(nfa.closure [0], 0)] } [] [nfa.closure [0]] := by
  have hk : KeyOK (nfa.closure [0]) := keyOK_closure hwf (by simp)
  refine ⟨⟨by simp, rfl⟩, List.mem_singleton.mpr rfl, fun e he => ?_, fun k hk' => ?_, fun i hi => (by cases hi),
    fun S i _ hi => (by cases hi), fun i _ => ?_, fun S i he _ => ?_⟩
  · rw [List.mem_singleton] at he; rw [he]; exact hk
  · rw [List.mem_singleton] at hk'; rw [hk']; exact hk
  · cases i with
    | zero => exact ⟨rfl, rfl, rfl, rfl, rfl⟩
    | succ k => exact ⟨rfl, rfl, rfl, rfl, rfl⟩
  · rw [List.mem_singleton] at he
    cases he
    exact List.mem_singleton.mpr rfl

end Lexgen.Subset

namespace Lexgen
open Lexgen.Subset

/-- The originally requested statement

```
theorem nfaToDfa_correct (nfa : NFA) (hwf : NFAWF nfa) (d : DFA Nat) (h : nfaToDfa nfa = some d) :
    SubsetCorrect nfa d ∧ TargetsInRange d
```

is FALSE: `NFAWF` allows a char (or range) entry with an empty target list. For such an entry
`expandState` creates a transition to the DFA state with key `closure [] = []`, which stands for no
NFA state at all, while `SubsetCorrect` demands a non-empty set of NFA states behind every
reachable DFA state. -/
theorem nfaToDfa_correct_counterexample :
    ∃ (nfa : NFA) (d : DFA Nat), NFAWF nfa ∧ nfaToDfa nfa = some d ∧ ¬ SubsetCorrect nfa d := by
  refine ⟨[{ chars := [(97, [])] }], [{ initial := true, chars := [(97, 1)] }, { preds := [0] }], ?_, rfl, ?_⟩
  · refine ⟨by decide, fun s hs => ?_, fun s hs => ?_, fun s hs t ht => ?_⟩
    · have : s = 0 := by simp at hs; omega
      subst this; trivial
    · have : s = 0 := by simp at hs; omega
      subst this; simp [NFA.st]
    · have : s = 0 := by simp at hs; omega
      subst this
      simp [NFA.st] at ht
  · intro h
    have hr : reachSym (([{ initial := true, chars := [(97, 1)] }, { preds := [0] }] : DFA Nat)) 0 [.ch 97] = some 1 := rfl
    unfold SubsetCorrect at h
    have h1 := h [.ch 97]
    rw [hr] at h1
    obtain ⟨S, _, hS, hmem, _⟩ := h1
    obtain ⟨u, hu⟩ := exists_mem_of_ne_nil hS
    have hp := (hmem u).mp hu
    obtain ⟨s', m, _, hstep, _⟩ := npath_cons.mp hp
    -- no state has a transition on 97 to anything
    simp only [NFA.stepSym, NFA.stepCh] at hstep
    by_cases hs0 : s' = 0
    · subst hs0
      simp [NFA.st, NState.empty] at hstep
    · have : NFA.st [{ chars := [(97, [])] }] s' = NState.empty := st_eq_empty_of_le (by simp; omega)
      rw [this] at hstep
      simp [NState.empty] at hstep

/-- Partial correctness of the subset construction. Compared with the requested
`nfaToDfa_correct` (see `nfaToDfa_correct_counterexample`) there is one extra hypothesis,
`Subset.TargetsNonempty nfa`: no char / range entry of the NFA has an empty target list. -/
theorem nfaToDfa_correct_partial (nfa : NFA) (hwf : NFAWF nfa) (hne : Subset.TargetsNonempty nfa)
    (d : DFA Nat) (h : nfaToDfa nfa = some d) : SubsetCorrect nfa d ∧ TargetsInRange d := by
  unfold nfaToDfa at h
  simp only [Option.map_eq_some_iff] at h
  obtain ⟨bf, hloop, rfl⟩ := h
  obtain ⟨fin', hinv⟩ := loop_spec hwf hne _ _ _ _ _ hloop (binv_init hwf)
  have hallfin : ∀ S i, (S, i) ∈ bf.stateMap → i ∈ fin' := by
    intro S i he
    by_cases hi : i ∈ fin'
    · exact hi
    · cases hinv.pending S i he hi
  have hdone : ∀ S i, (S, i) ∈ bf.stateMap → Done nfa bf.stateMap S (bf.dfa.st i) :=
    fun S i he => hinv.fin S i he (hallfin S i he)
  constructor
  · intro w
    have hr := reach_spec hdone w 0 (nfa.closure [0]) hinv.zero
    have hstart : ∀ u, u ∈ nfa.closure [0] ↔ EpsReach nfa 0 u := by
      intro u
      rw [mem_closure hwf]
      constructor
      · rintro ⟨s, hs, hr⟩
        rw [List.mem_singleton] at hs; subst hs; exact hr
      · intro hr; exact ⟨0, List.mem_singleton.mpr rfl, hr⟩
    have hafter : ∀ u, After nfa (· ∈ nfa.closure [0]) w u ↔ NPath nfa 0 w u := by
      intro u
      rw [after_congr nfa w _ _ hstart u]
      exact after_start nfa w u
    cases hreach : reachSym bf.dfa 0 w with
    | none =>
      show ∀ u, ¬ NPath nfa 0 w u
      intro u hp
      exact hr.2 hreach u ((hafter u).mpr hp)
    | some t =>
      obtain ⟨T, hT, hmem⟩ := hr.1 t hreach
      have hk := hinv.keys _ hT
      show ∃ S : List Nat, Ascending S ∧ S ≠ [] ∧ (∀ u, u ∈ S ↔ NPath nfa 0 w u) ∧
        (bf.dfa.st t).accepting = S.filterMap (fun u => (nfa.st u).acc)
      exact ⟨T, hk.1, hk.2, fun u => (hmem u).trans (hafter u), (hdone T t hT).acc⟩
  · intro s hs t ht
    obtain ⟨S, hS⟩ := wfb_has_key hinv.wf hs
    obtain ⟨T, hT⟩ := (hdone S s hS).tir t ht
    exact wfb_idx_lt hinv.wf hT

end Lexgen
