import LexgenModel.Spec.Viable
import LexgenModel.Proofs.SpecRun
import LexgenModel.Proofs.EndToEnd
import LexgenModel.Proofs.RefRefine
import LexgenModel.Proofs.NextMore
import LexgenModel.Proofs.NextEqSpecCompile
import LexgenModel.Proofs.NextEqSpecErr
/-!
# The model of the generated `next()` computes the executable specification `specNext`

* `entry_pack`: for every entry state of the compiled machine, `activeSet` finds the rule set it belongs to,
  the matches of the machine from it are the language-level matches of that rule set, and the machine is in a
  state after a non-empty word exactly when the word is extendable (`NextEqSpecCompile.lean`);
* `nextLoop_eq_specLoop`: induction on the fuel, every scan outcome is the branch `specLoop` takes, with the
  same result (`NextEqSpecErr.lean` for the state after an `InvalidToken`);
* `next_eq_specNext_of`: the theorem.
-/
namespace Lexgen
variable {σ τ ε : Type}

namespace NextEqSpec

/-- what the loop needs to know about an entry state -/
def EntryPack (items : LexerDef) (ctxAt : Nat → Regex) (cfg : Config σ τ ε) (e : Nat) : Prop :=
  ∃ x rules, activeSet items cfg (renumber cfg.inl e) = some x ∧
    coreRules x.2.1 x.2.2.1 x.2.2.2 = some rules ∧
    (∀ iter n a v, Cand cfg e iter n a v ↔ LangCand rules ctxAt iter n a v) ∧
    EntryExt cfg.dfa e rules ∧ (∀ r ∈ rules, NoEmptyPieces r.re)

theorem entry_pack (items : LexerDef) (c : Compiled) (h : compileLexer items = .ok c) (hok : DefOK items)
    (hne : DefNE items) (HV : ViableHyp) (ctxAt : Nat → Regex) (hnum : CtxNumbering items ctxAt)
    (actions : Nat → Action σ τ ε) (width : Nat → Nat) (input : Option (List Nat))
    (e0 : Nat) (he0 : IsEntry (c.config actions width input) e0) :
    EntryPack items ctxAt (c.config actions width input) e0 := by
  have hm := compileLexer_machineOK items c h hok actions width input
  cases hrs : hasRuleSets items with
  | true =>
    obtain ⟨hinit, hallE⟩ := RefRefine.entries_named items c h hrs
    obtain ⟨huniq, hext⟩ := compile_ext_named HV items c h hrs
    have hmemE : ∃ name, (name, e0) ∈ c.entries := by
      rcases he0 with rfl | ⟨name, hn⟩
      · exact ⟨"Init", hinit⟩
      · exact ⟨name, hn⟩
    obtain ⟨name0, hne0⟩ := hmemE
    -- the switch table finds an entry with the same number, hence the same state
    have hsw : ∃ e', (switchTable (c.config actions width input).inl (c.config actions width input).entries).find?
        (·.2 = renumber (c.config actions width input).inl e0) = some e' := by
      cases hf : (switchTable (c.config actions width input).inl (c.config actions width input).entries).find?
          (·.2 = renumber (c.config actions width input).inl e0) with
      | some e' => exact ⟨e', rfl⟩
      | none =>
        exfalso
        have hmem : (name0, renumber (c.config actions width input).inl e0) ∈
            switchTable (c.config actions width input).inl (c.config actions width input).entries := by
          unfold switchTable
          exact List.mem_map.mpr ⟨(name0, e0), hne0, rfl⟩
        have := List.find?_eq_none.mp hf _ hmem
        simp at this
    obtain ⟨e', hf⟩ := hsw
    have hp := List.find?_some hf
    have hmem' := List.mem_of_find?_eq_some hf
    simp only [decide_eq_true_eq] at hp
    unfold switchTable at hmem'
    obtain ⟨en, hen, hene⟩ := List.mem_map.mp hmem'
    have hen' : (en.1, en.2) ∈ c.entries := hen
    have hentry : IsEntry (c.config actions width input) en.2 := Or.inr ⟨en.1, hen⟩
    have hsame : en.2 = e0 := by
      have h1 := NextProtocol.dispatch_entry _ hm en.2 hentry
      have h2 := NextProtocol.dispatch_entry _ hm e0 he0
      rw [← hene] at hp
      simp only at hp
      rw [hp, h2] at h1
      exact (Option.some.inj h1).symm
    have hname : (e'.1, e0) ∈ c.entries := by
      rw [← hene, ← hsame]
      exact hen'
    -- the rule set of that name
    obtain ⟨rs1, b1, k1, rules1, hmem1, _, _, _⟩ := hallE e'.1 e0 hname
    have hfs : ∃ x, (allRuleSets items).find? (·.1 = e'.1) = some x := by
      cases hf2 : (allRuleSets items).find? (·.1 = e'.1) with
      | some x => exact ⟨x, rfl⟩
      | none =>
        exfalso
        have := List.find?_eq_none.mp hf2 _ hmem1
        simp at this
    obtain ⟨x, hfx⟩ := hfs
    have hxn := List.find?_some hfx
    have hxm := List.mem_of_find?_eq_some hfx
    simp only [decide_eq_true_eq] at hxn
    obtain ⟨xn, xrs, xb, xk⟩ := x
    simp only at hxn
    rw [← hxn] at hname
    obtain ⟨e2, rules, hme2, hcore, hE⟩ := hext xn xrs xb xk hxm
    have he2 : e2 = e0 := huniq xn e2 e0 hme2 hname
    subst he2
    have hxm' : (xn, xrs, xb, xk) ∈ scopedRuleSets items [] 0 := by
      rw [← allRuleSets_named hrs]
      exact hxm
    obtain ⟨e3, rules3, hme3, _, hcore3, hreal3⟩ := compileLexer_lang items c h xn xrs xb xk hxm'
    have he3 : e3 = e2 := huniq xn e3 e2 hme3 hname
    subst he3
    rw [hcore] at hcore3
    cases hcore3
    have hrules := hok.rules xn xrs xb xk hxm rules hcore
    have hnep := hne xn xrs xb xk hxm rules hcore
    refine ⟨(xn, xrs, xb, xk), rules, ?_, hcore, ?_, hE ⟨hrules, hnep⟩, hnep⟩
    · unfold activeSet
      rw [if_pos hrs, hf]
      exact hfx
    · exact RefRefine.cand_iff_of_realises items c h hok ctxAt hnum xn xrs xb xk hxm actions width input e3 rules
        hcore hreal3
  | false =>
    have hent : c.entries = [] := (compileLexer_unnamed_core items c h hrs).2.1
    have he00 : e0 = 0 := by
      rcases he0 with rfl | ⟨name, hn⟩
      · rfl
      · have hn' : (name, e0) ∈ c.entries := hn
        rw [hent] at hn'
        cases hn'
    subst he00
    have hmem : ("", topRules items, ([] : Bindings), 0) ∈ allRuleSets items := by
      rw [allRuleSets_unnamed hrs]
      exact List.mem_singleton.mpr rfl
    obtain ⟨e', rules, hent', _, hcore, hiff⟩ :=
      compile_cand_iff items c h hok ctxAt hnum "" (topRules items) [] 0 hmem actions width input
    have he' : e' = 0 := by
      unfold IsEntryOf at hent'
      rw [if_neg (by rw [hrs]; exact Bool.false_ne_true)] at hent'
      exact hent'
    subst he'
    obtain ⟨rules', hcore', hE⟩ := compile_ext_unnamed HV items c h hrs
    rw [hcore] at hcore'
    cases hcore'
    have hrules := hok.rules "" (topRules items) [] 0 hmem rules hcore
    have hnep := hne "" (topRules items) [] 0 hmem rules hcore
    refine ⟨("", topRules items, [], 0), rules, ?_, hcore, hiff, hE ⟨hrules, hnep⟩, hnep⟩
    unfold activeSet
    rw [if_neg (by rw [hrs]; exact Bool.false_ne_true), NextProtocol.renumber_zero, if_pos rfl,
      allRuleSets_unnamed hrs]
    rfl

/-! ## `.fin`: the state returned with `None` -/

theorem scanPlain_fin_state (cfg : Config σ τ ε) (hm : MachineOK cfg) (ns : Nat → Option Nat) (st st1 : LState σ)
    (hit : st.iter = []) (h : scanPlain cfg ns 0 [] st = .fin st1) : st1 = { st with done := true } := by
  rw [scanPlain_nil] at h
  have hd : (if (0 : Nat) = 0 then Outcome.fin (endSt cfg 0 st) else failPlain (endSt cfg 0 st)) = .fin st1 := by
    cases heoi : (cfg.dfa.st 0).eoi with
    | none =>
      simp only [heoi] at h
      exact h
    | some tr =>
      cases tr with
      | goto t => simp [heoi] at h
      | accept accs =>
        simp only [heoi] at h
        exact NextMore.testRightCtxs_fin cfg accs _ _ st1 h
  rw [NextMore.dflt_fin _ _ _ hd]
  obtain ⟨hl, hdn, hs, hi, hu, hiter, hcs, hce⟩ := endSt_fields cfg 0 st hit
  have hlast : (endSt cfg 0 st).last = st.last := by
    rw [hl, setAccepting_last, hm.state0.2.2]
    rfl
  exact lstate_ext _ _ hs hdn hi hu (hiter.trans hit.symm) hcs hce hlast

/-! ## The loop -/

theorem nextLoop_eq_specLoop (items : LexerDef) (ctxAt : Nat → Regex) (cfg : Config σ τ ε)
    (hm : MachineOK cfg) (HA : ViableRefHyp) (HE : ∀ e, IsEntry cfg e → EntryPack items ctxAt cfg e) :
    ∀ (fuel : Nat) (st : LState σ), Ready cfg st →
      (st.iter.length + 2 ≤ fuel ∨ (st.done = true ∧ 1 ≤ fuel)) →
      nextLoop cfg fuel st = specLoop items cfg ctxAt fuel st := by
  intro fuel
  induction fuel with
  | zero =>
    intro st _ hf
    rcases hf with hf | ⟨_, hf⟩ <;> omega
  | succ f ih =>
    intro st hr hfuel
    rw [nextLoop]
    by_cases hd : st.done = true
    · rw [if_pos hd, specLoop_done _ _ _ _ _ hd]
    · rw [if_neg hd]
      have hd' : st.done = false := by simpa using hd
      have hfl : st.iter.length + 2 ≤ f + 1 := by
        rcases hfuel with hf | ⟨hf, _⟩
        · exact hf
        · exact absurd hf hd
      obtain ⟨hl, hsi, e0, he0, hst0⟩ := hr
      have hr : Ready cfg st := ⟨hl, hsi, e0, he0, hst0⟩
      have hdisp : dispatch (stateArms cfg.dfa cfg.inl) st.state = some e0 := by
        rw [hst0]
        exact NextProtocol.dispatch_entry cfg hm e0 he0
      simp only [hdisp]
      obtain ⟨x, rules, hact, hcore, hiff, hExt, hnep⟩ := HE e0 he0
      have hact' : activeSet items cfg st.initial = some x := by
        rw [← hsi, hst0]
        exact hact
      have hns := dispatchOK_of_machineOK cfg hm
      have heq := scan_eq_scanPlain cfg _ hm.flags hm.acceptAny hm.targets hns e0 st.iter st
        (by intro h; rw [hl] at h; cases h)
      have hnoL : (∀ n a v, ¬ Cand cfg e0 st.iter n a v) → ∀ n a v, ¬ LangCand rules ctxAt st.iter n a v :=
        fun hno n a v hL => hno n a v ((hiff st.iter n a v).mpr hL)
      obtain ⟨_, _, hacc0⟩ := NextProtocol.isEntry_props cfg hm e0 he0
      cases ho : scan cfg (dispatch (stateArms cfg.dfa cfg.inl)) e0 st.iter st with
      | act a st1 =>
        have hx : execState cfg (dispatch (stateArms cfg.dfa cfg.inl)) e0 st.iter st = callAction cfg a st1 := by
          unfold execState
          rw [ho]
          rfl
        rw [hx]
        have hok := NextProtocol.scan_entry_ok cfg hm st hl e0 he0
        rw [ho] at hok
        have hactok : NextProtocol.ActOK st.iter st.initial st1 := hok
        rw [heq] at ho
        obtain ⟨n, ve, hc, hmax, s', hst1⟩ := scanPlain_act cfg _ hm.targets hns e0 st hl hd' a st1 ho
        have hsel : Selects rules ctxAt st.iter n a ve :=
          ⟨(hiff st.iter n a ve).mp hc, fun n' a' e' hL => hmax n' a' e' ((hiff st.iter n' a' e').mpr hL)⟩
        have hst1' : st1 = matchState cfg.width st n ve s' := hst1
        have hselR := (selectRef_some rules ctxAt st.iter n a ve).mpr hsel
        obtain ⟨_, hspec⟩ := specLoop_selected items cfg ctxAt f st x rules n a ve hd' hact' hcore hselR
        rw [hspec, callAction_matchState cfg a st n ve 0 s', ← hst1']
        cases hca : callAction cfg a st1 with
        | ret item st' => rfl
        | cont st2 =>
          simp only []
          have hent : ∃ e, IsEntry cfg e ∧ st1.initial = renumber cfg.inl e :=
            ⟨e0, he0, by rw [hactok.initial, ← hsi, hst0]⟩
          rcases NextProtocol.callAction_ok cfg a st1 hactok.last hent with
            ⟨st2', hc2, hr2, hi2, hd2⟩ | ⟨x', st2', hc2, _⟩
          · rw [hca] at hc2
            cases hc2
            apply ih st2 hr2
            have hit1 : st1.iter = st.iter.drop n := by rw [hst1']; rfl
            have hdn1 : st1.done = ve := by rw [hst1']; rfl
            rw [hi2, hd2, hit1, hdn1, List.length_drop]
            cases ve with
            | true => exact Or.inr ⟨rfl, by omega⟩
            | false =>
              left
              have hnpos : 0 < n := by
                cases n with
                | zero =>
                  have := cand_zero_inv cfg e0 st.iter a hc
                  rw [hacc0] at this
                  simp [firstOK] at this
                | succ n' => omega
              have := hc.1
              omega
          · rw [hca] at hc2
            cases hc2
      | err loc st1 =>
        have hx : execState cfg (dispatch (stateArms cfg.dfa cfg.inl)) e0 st.iter st = .ret (some (.invalid loc)) st1 := by
          unfold execState
          rw [ho]
          rfl
        rw [hx]
        rw [heq] at ho
        obtain ⟨hno, hloc, hs0, hi0, hspan, hlast, huser⟩ := scanPlain_err cfg _ hm.targets hns e0 st hl loc st1 ho
        obtain ⟨hiter, hdone⟩ := scanPlain_err_pos cfg _ hm.targets hns e0 st hl hd' loc st1 ho
        have hce := scanPlain_err_curEnd cfg _ hm.targets hns loc st1 st.iter e0 st rfl ho
        subst hloc
        have hselR := (selectRef_none rules ctxAt st.iter).mpr (hnoL hno)
        obtain ⟨_, hspec⟩ := specLoop_unselected items cfg ctxAt f st x rules hd' hact' hcore hselR
        rw [hspec]
        have hcond : ¬ (st.iter = [] ∧ st.state = 0) := by
          rintro ⟨hnil, hz⟩
          rw [hz] at hst0
          have he00 := RefRefine.entry_of_state_zero cfg hm e0 he0 hst0.symm
          rw [hnil, he00] at ho
          exact RefRefine.scanPlain_zero_nil_ne_err cfg _ st _ st1 ho
        rw [if_neg hcond]
        have hadv := errAdvance_eq HA rules hnep cfg.dfa e0 hExt st.iter
        rw [err_state_eq cfg.width (rules.map (·.re)) st st1 (gotoLen cfg.dfa e0 st.iter) hadv hs0 hi0 hspan hlast
          huser hiter hdone hce]
      | fin st1 =>
        have hx : execState cfg (dispatch (stateArms cfg.dfa cfg.inl)) e0 st.iter st = .ret none st1 := by
          unfold execState
          rw [ho]
          rfl
        rw [hx]
        rw [heq] at ho
        obtain ⟨hnil, hz, huser, hnoeoi⟩ := RefRefine.scanPlain_fin_inv cfg hm _ hns st1 st.iter e0 st ho
        subst hz
        have hstate0 : st.state = 0 := by rw [hst0, NextProtocol.renumber_zero]
        have hnoC : ∀ n a v, ¬ Cand cfg 0 st.iter n a v := by
          intro n a v hc
          rw [hnil] at hc
          have hn0 := cand_nil_inv cfg 0 n a v hc
          subst hn0
          cases v with
          | false =>
            have := cand_zero_inv cfg 0 [] a hc
            rw [hm.state0.2.2] at this
            simp [firstOK] at this
          | true =>
            obtain ⟨_, accs, he, hf⟩ := cand_zero_eoi_inv cfg 0 [] a hc
            exact hnoeoi accs a he hf
        have hselR := (selectRef_none rules ctxAt st.iter).mpr (hnoL hnoC)
        obtain ⟨_, hspec⟩ := specLoop_unselected items cfg ctxAt f st x rules hd' hact' hcore hselR
        rw [hspec, if_pos ⟨hnil, hstate0⟩]
        rw [hnil] at ho
        rw [scanPlain_fin_state cfg hm _ st st1 hnil ho]
      | goto st1 =>
        have hok := NextProtocol.scan_entry_ok cfg hm st hl e0 he0
        rw [ho] at hok
        exact absurd hok (fun h => h)

end NextEqSpec

open NextEqSpec in
/-- **The model of the generated code computes the executable specification.** For every well-formed definition without empty pieces that the model compiles, every call of the model of the generated `next()`
(DFA, backtrack flags, inlining, saved matches, `lexgen_util`) from a lexer state at a lexeme start returns EXACTLY what the executable reference lexer `specNext` (derivative-based maximal munch on the definition itself) returns — same item, same state.
(`ha` and `hb` are proved separately — Proofs/ViableRef.lean, Proofs/BlockViable.lean — by other people and will be plugged in afterwards.) -/
theorem next_eq_specNext_of (items : LexerDef) (c : Compiled) (h : compileLexer items = .ok c) (hok : DefOK items) (hne : DefNE items)
    (ha : ∀ (res : List Regex), (∀ r ∈ res, NoEmptyPieces r) → ∀ iter : List Nat,
      (viableRef res iter).1 ≤ iter.length ∧
      (∀ j, 0 < j → j ≤ (viableRef res iter).1 → ∃ r ∈ res, ∃ v : List Sym, den r ((iter.take j).map Sym.ch ++ v)) ∧
      ((viableRef res iter).1 < iter.length →
        ¬ ∃ r ∈ res, ∃ v : List Sym, den r ((iter.take ((viableRef res iter).1 + 1)).map Sym.ch ++ v)) ∧
      (((viableRef res iter).2.any fun r => aliveR r && hasWordR r) = true ↔
        ∃ r ∈ res, ∃ (x : Sym) (v : List Sym), den r ((iter.take (viableRef res iter).1).map Sym.ch ++ x :: v)))
    (hb : ∀ (rules : List CoreRule), (∀ r ∈ rules, regexPiecesOK r.re) → (∀ r ∈ rules, NoEmptyPieces r.re) →
      ∀ (nfa : NFA), buildNfa rules = .ok nfa → ∀ (d : DFA Nat), nfaToDfa nfa = some d → ∀ w : List Nat,
      (reachN d 0 w = none ↔ (w ≠ [] ∧ ¬ Viable rules w)) ∧
      (∀ t, reachN d 0 w = some t → (DFA.hasNoTransitions (d.st t) = false ↔ Extendable rules w)))
    (actions : Nat → Action σ τ ε) (width : Nat → Nat) (input : Option (List Nat))
    (st : LState σ) (hr : Ready (c.config actions width input) st) :
    next (c.config actions width input) st = specNextFull items (c.config actions width input) st := by
  have hm := compileLexer_machineOK items c h hok actions width input
  unfold next specNextFull
  rw [specNext_eq]
  exact nextLoop_eq_specLoop items (specCtxAt items) (c.config actions width input) hm ha
    (fun e he => entry_pack items c h hok hne hb (specCtxAt items) (specCtxAt_numbering items) actions width input e he)
    _ st hr (Or.inl (Nat.le_refl _))

end Lexgen
