import LexgenModel.Spec.Machine
import LexgenModel.Proofs.ScanPlain
/-!
# Locations reported by `next()` are exact

With `Boundary` (the lexer state is consistent with the input: the iterator is a suffix, both
locations are what scanning the input from its beginning gives) as invariant of `next()`:

* `next_boundary`: every location in a returned item is a scan location of the input, spans are
  ordered, and the invariant holds after the call;
* `next_views`: semantic actions are only handed exact views (span, matched text, peeked char).
-/
namespace Lexgen

variable {σ τ ε : Type}

namespace NextLoc

/-! ## Scan locations -/

theorem foldl_take_succ {α β : Type} (f : β → α → β) :
    ∀ (l : List α) (init : β) (pos : Nat) (c : α) (rest : List α), l.drop pos = c :: rest →
      (l.take (pos + 1)).foldl f init = f ((l.take pos).foldl f init) c := by
  intro l
  induction l with
  | nil => intro init pos c rest h; simp at h
  | cons x xs ih =>
    intro init pos c rest h
    cases pos with
    | zero =>
      simp only [List.drop_zero, List.cons.injEq] at h
      simp [h.1]
    | succ k =>
      simp only [List.drop_succ_cons] at h
      simp only [List.take_succ_cons, List.foldl_cons]
      exact ih (f init x) k c rest h

theorem locAt_succ (w : Nat → Nat) (input : List Nat) (pos c : Nat) (rest : List Nat)
    (h : input.drop pos = c :: rest) :
    locAt w input (pos + 1) = (locAt w input pos).advance w c :=
  foldl_take_succ (Loc.advance w) input {} pos c rest h

theorem drop_cons_lt {α : Type} (l : List α) (pos : Nat) (c : α) (rest : List α)
    (h : l.drop pos = c :: rest) : pos < l.length := by
  by_cases hp : pos < l.length
  · exact hp
  · rw [List.drop_eq_nil_of_le (by omega)] at h
    cases h

theorem drop_succ_of_cons {α : Type} :
    ∀ (l : List α) (pos : Nat) (c : α) (rest : List α), l.drop pos = c :: rest →
      l.drop (pos + 1) = rest := by
  intro l
  induction l with
  | nil => intro pos c rest h; simp at h
  | cons x xs ih =>
    intro pos c rest h
    cases pos with
    | zero =>
      simp only [List.drop_zero, List.cons.injEq] at h
      simp [h.2]
    | succ k =>
      simp only [List.drop_succ_cons] at h ⊢
      exact ih k c rest h

/-! ## Byte offsets -/

theorem advance_byte (w : Nat → Nat) (l : Loc) (c : Nat) :
    (l.advance w c).byte = l.byte + utf8Len c := by
  unfold Loc.advance
  by_cases h10 : c = 10
  · simp only [h10, if_true]
  · by_cases h9 : c = 9
    · simp only [h9, if_true]
      rfl
    · simp only [h10, h9, if_false]

theorem foldl_byte (w : Nat → Nat) :
    ∀ (l : List Nat) (init : Loc),
      (l.foldl (Loc.advance w) init).byte = init.byte + (l.map utf8Len).sum := by
  intro l
  induction l with
  | nil => intro init; simp
  | cons x xs ih =>
    intro init
    simp only [List.foldl_cons, List.map_cons, List.sum_cons]
    rw [ih, advance_byte]
    omega

theorem locAt_byte (w : Nat → Nat) (input : List Nat) (n : Nat) :
    (locAt w input n).byte = ((input.take n).map utf8Len).sum := by
  unfold locAt
  rw [foldl_byte]
  show 0 + _ = _
  omega

theorem utf8Len_pos (c : Nat) : 0 < utf8Len c := by
  unfold utf8Len
  by_cases h1 : c < 0x80
  · simp only [h1, if_true]; omega
  · by_cases h2 : c < 0x800
    · simp only [h1, h2, if_true, if_false]; omega
    · by_cases h3 : c < 0x10000
      · simp only [h1, h2, h3, if_true, if_false]; omega
      · simp only [h1, h2, h3, if_false]; omega

theorem charIdxOfByte_cons (c : Nat) (rest : List Nat) (b : Nat) (hb : 0 < b) :
    charIdxOfByte (c :: rest) b =
      if utf8Len c ≤ b then (charIdxOfByte rest (b - utf8Len c)).map (· + 1) else none := by
  cases b with
  | zero => omega
  | succ k => rfl

theorem charIdxOfByte_sum :
    ∀ (input : List Nat) (n : Nat), n ≤ input.length →
      charIdxOfByte input ((input.take n).map utf8Len).sum = some n := by
  intro input
  induction input with
  | nil =>
    intro n hn
    have : n = 0 := by simpa using hn
    subst this
    rfl
  | cons c rest ih =>
    intro n hn
    cases n with
    | zero => rfl
    | succ m =>
      have hm : m ≤ rest.length := by simpa using hn
      simp only [List.take_succ_cons, List.map_cons, List.sum_cons]
      have hpos := utf8Len_pos c
      rw [charIdxOfByte_cons c rest _ (by omega)]
      have hle : utf8Len c ≤ utf8Len c + ((rest.take m).map utf8Len).sum := Nat.le_add_right _ _
      rw [if_pos hle, Nat.add_sub_cancel_left, ih m hm]
      rfl

theorem sliceBytes_locAt (w : Nat → Nat) (input : List Nat) (i j : Nat) (hij : i ≤ j)
    (hj : j ≤ input.length) :
    sliceBytes input (locAt w input i).byte (locAt w input j).byte =
      some ((input.drop i).take (j - i)) := by
  unfold sliceBytes
  rw [locAt_byte, locAt_byte, charIdxOfByte_sum input i (by omega), charIdxOfByte_sum input j hj]
  simp only [hij, if_true]

/-! ## The mid-scan invariant -/

/-- Lexer state in the middle of a scan that started at character `start` and has read up to
character `pos`; a saved match ends between the two. -/
def Mid (w : Nat → Nat) (input : List Nat) (start pos : Nat) (st : LState σ) : Prop :=
  start ≤ pos ∧ pos ≤ input.length ∧ st.iter = input.drop pos ∧ st.curEnd = locAt w input pos ∧
    st.curStart = locAt w input start ∧
    ∀ sv, st.last = some sv → ∃ p, start ≤ p ∧ p ≤ pos ∧ sv.iter = input.drop p ∧
      sv.stop = locAt w input p ∧ sv.start = locAt w input start

/-- What a scan started at `start` may decide. -/
def OutOK (w : Nat → Nat) (input : List Nat) (start : Nat) : Outcome σ → Prop
  | .act _ st' => st'.last = none ∧ ∃ p, Mid w input start p st'
  | .err loc st' => loc = locAt w input start ∧ st'.last = none ∧ ∃ p, start ≤ p ∧ Mid w input p p st'
  | .fin st' => st'.last = none ∧ ∃ p, Mid w input start p st'
  | .goto _ => False

theorem mid_with_iter (w : Nat → Nat) (input : List Nat) (start pos : Nat) (st : LState σ)
    (it : List Nat) (h : Mid w input start pos st) (hit : input.drop pos = it) :
    Mid w input start pos { st with iter := it } := by
  obtain ⟨h1, h2, _, h4, h5, h6⟩ := h
  exact ⟨h1, h2, hit.symm, h4, h5, h6⟩

theorem setAccepting_mid (cfg : Config σ τ ε) (d : DState Trans) (input : List Nat)
    (start pos : Nat) (st : LState σ) (h : Mid cfg.width input start pos st) :
    Mid cfg.width input start pos (setAccepting cfg d st) := by
  unfold setAccepting
  cases firstOK (fun i => ctxOK cfg i st.iter) d.accepting with
  | none => exact h
  | some a =>
    obtain ⟨h1, h2, h3, h4, h5, _⟩ := h
    refine ⟨h1, h2, h3, h4, h5, ?_⟩
    intro sv hsv
    have hsv' : sv = { start := st.curStart, iter := st.iter, action := a, stop := st.curEnd } :=
      (Option.some.inj hsv).symm
    subst hsv'
    exact ⟨pos, h1, Nat.le_refl _, h3, h4, h5⟩

theorem setAccepting_last_nil (cfg : Config σ τ ε) (d : DState Trans) (st : LState σ)
    (hd : d.accepting = []) : (setAccepting cfg d st).last = st.last := by
  unfold setAccepting
  rw [hd]
  rfl

theorem eoiSt_mid (cfg : Config σ τ ε) (d : DState Trans) (input : List Nat)
    (start pos : Nat) (st : LState σ) (h : Mid cfg.width input start pos st)
    (hd : input.drop pos = []) :
    Mid cfg.width input start pos (ScanPlain.eoiSt cfg d st) :=
  setAccepting_mid cfg d input start pos _ (mid_with_iter _ _ _ _ _ _ h hd)

theorem eoiSt_last_nil (cfg : Config σ τ ε) (d : DState Trans) (st : LState σ)
    (hd : d.accepting = []) : (ScanPlain.eoiSt cfg d st).last = st.last :=
  setAccepting_last_nil cfg d { st with iter := [] } hd

theorem stepSt_mid (cfg : Config σ τ ε) (d : DState Trans) (input : List Nat)
    (start pos c : Nat) (rest : List Nat) (st : LState σ) (h : Mid cfg.width input start pos st)
    (hd : input.drop pos = c :: rest) :
    Mid cfg.width input start (pos + 1) (ScanPlain.stepSt cfg d c rest st) := by
  have h1 := setAccepting_mid cfg d input start pos _ (mid_with_iter _ _ _ _ _ _ h hd)
  obtain ⟨a1, _, _, a4, a5, a6⟩ := h1
  have hlt := drop_cons_lt _ _ _ _ hd
  refine ⟨by omega, by omega, ?_, ?_, a5, ?_⟩
  · exact (drop_succ_of_cons _ _ _ _ hd).symm
  · show (setAccepting cfg d { st with iter := c :: rest }).curEnd.advance cfg.width c = _
    rw [a4, locAt_succ _ _ _ _ _ hd]
  · intro sv hsv
    obtain ⟨p, b1, b2, b3, b4, b5⟩ := a6 sv hsv
    exact ⟨p, b1, by omega, b3, b4, b5⟩

theorem failPlain_ok (w : Nat → Nat) (input : List Nat) (start pos : Nat) (st : LState σ)
    (h : Mid w input start pos st) : OutOK w input start (failPlain st) := by
  obtain ⟨h1, h2, h3, h4, h5, h6⟩ := h
  unfold failPlain
  cases hl : st.last with
  | none =>
    exact ⟨h5, rfl, pos, h1, Nat.le_refl _, h2, h3, h4, h4, fun sv hsv => by cases hsv⟩
  | some sv =>
    obtain ⟨p, b1, b2, b3, b4, b5⟩ := h6 sv hl
    exact ⟨rfl, p, b1, by omega, b3, b4, b5, fun sv hsv => by cases hsv⟩

theorem testRightCtxs_ok (cfg : Config σ τ ε) (input : List Nat) (start pos : Nat)
    (accs : List Acc) (st : LState σ) (dflt : Unit → Outcome σ)
    (h : Mid cfg.width input start pos st) (hd : OutOK cfg.width input start (dflt ())) :
    OutOK cfg.width input start (testRightCtxs cfg accs st dflt) := by
  unfold testRightCtxs
  cases firstOK (fun i => ctxOK cfg i st.iter) accs with
  | none => exact hd
  | some a =>
    obtain ⟨h1, h2, h3, h4, h5, _⟩ := h
    exact ⟨rfl, pos, h1, h2, h3, h4, h5, fun sv hsv => by cases hsv⟩

/-! ## Transition targets -/

theorem lookupTrans_goto_mem (d : DState Trans) (c t : Nat)
    (h : lookupTrans d c = some (.goto t)) : t ∈ gotoSuccs d := by
  apply ScanPlain.goto_mem_gotoSuccs
  unfold lookupTrans at h
  cases h1 : lookupChar d.chars c with
  | some x =>
    simp only [h1, Option.some.injEq] at h
    subst h
    exact ScanPlain.char_mem_succs _ _ (ScanPlain.lookupChar_mem _ _ _ h1)
  | none =>
    simp only [h1] at h
    cases h2 : RangeMap.lookup d.ranges c with
    | some x =>
      simp only [h2, Option.some.injEq] at h
      subst h
      exact ScanPlain.range_mem_succs _ _ (ScanPlain.rangeLookup_mem _ _ _ h2)
    | none =>
      simp only [h2] at h
      exact ScanPlain.any_mem_succs _ _ h

theorem targets_noninit (d : DFA Trans) (h : targetsOK d = true) (s t : Nat)
    (ht : t ∈ gotoSuccs (d.st s)) : (d.st t).initial = false := by
  rcases ScanPlain.st_mem_or_empty d s with hm | he
  · simp only [targetsOK, List.all_eq_true, Bool.and_eq_true, decide_eq_true_eq] at h
    simpa using (h _ hm t ht).2
  · rw [he, ScanPlain.gotoSuccs_empty] at ht
    cases ht

/-! ## The outcome of a scan -/

theorem scanPlain_ok (cfg : Config σ τ ε) (ns : Nat → Option Nat)
    (htargets : targetsOK cfg.dfa = true) (hns : DispatchOK cfg.dfa cfg.inl ns)
    (heoi : ∀ s t, (cfg.dfa.st s).eoi ≠ some (.goto t))
    (h0 : (cfg.dfa.st 0).initial = true ∧ (cfg.dfa.st 0).accepting = [])
    (input : List Nat) (start : Nat) :
    ∀ (iter : List Nat) (s pos : Nat) (st : LState σ), Mid cfg.width input start pos st →
      input.drop pos = iter → (s = 0 → st.last = none) →
      OutOK cfg.width input start (scanPlain cfg ns s iter st) := by
  intro iter
  induction iter with
  | nil =>
    intro s pos st hm hd hs0
    rw [ScanPlain.scanPlain_nil]
    have hm' := eoiSt_mid cfg (cfg.dfa.st s) input start pos st hm hd
    have hdflt : OutOK cfg.width input start
        (if s = 0 then Outcome.fin (ScanPlain.eoiSt cfg (cfg.dfa.st s) st)
          else failPlain (ScanPlain.eoiSt cfg (cfg.dfa.st s) st)) := by
      by_cases hs : s = 0
      · rw [if_pos hs]
        refine ⟨?_, pos, hm'⟩
        rw [hs, eoiSt_last_nil cfg _ st h0.2]
        exact hs0 hs
      · rw [if_neg hs]
        exact failPlain_ok _ _ _ _ _ hm'
    cases heo : (cfg.dfa.st s).eoi with
    | none => exact hdflt
    | some tr =>
      cases tr with
      | goto t => exact absurd heo (heoi s t)
      | accept accs => exact testRightCtxs_ok cfg input start pos accs _ _ hm' hdflt
  | cons c rest ih =>
    intro s pos st hm hd hs0
    rw [ScanPlain.scanPlain_cons]
    have hm' := stepSt_mid cfg (cfg.dfa.st s) input start pos c rest st hm hd
    have hfail := failPlain_ok _ _ _ _ _ hm'
    have hd' := drop_succ_of_cons _ _ _ _ hd
    cases hl : lookupTrans (cfg.dfa.st s) c with
    | none => exact hfail
    | some tr =>
      cases tr with
      | accept accs => exact testRightCtxs_ok cfg input start (pos + 1) accs _ _ hm' hfail
      | goto t =>
        have hmem := lookupTrans_goto_mem _ _ _ hl
        have htlt := ScanPlain.targets_lt cfg.dfa htargets s t hmem
        have htni := targets_noninit cfg.dfa htargets s t hmem
        have ht0 : t ≠ 0 := by
          intro h
          rw [h, h0.1] at htni
          cases htni
        show OutOK cfg.width input start
          (ScanPlain.gotoK (scanPlain cfg ns) cfg ns rest
            (ScanPlain.stepSt cfg (cfg.dfa.st s) c rest st) t)
        unfold ScanPlain.gotoK
        by_cases hi : inlinedAt cfg.inl t = true
        · rw [if_pos hi]
          exact ih t (pos + 1) _ hm' hd' (fun h => absurd h ht0)
        · have hi' : inlinedAt cfg.inl t = false := by simpa using hi
          rw [if_neg hi]
          simp only [hns t htlt hi']
          exact ih t (pos + 1) _ hm' hd' (fun h => absurd h ht0)

/-! ## Semantic action calls -/

/-- What one pass through a `match` arm may do. -/
def StepOK (w : Nat → Nat) (input : List Nat) : StepOut σ τ ε → Prop
  | .ret item st' => Boundary w input st' ∧ ItemLocOK w input item
  | .cont st' => Boundary w input st'

theorem callAction_ok (cfg : Config σ τ ε) (input : List Nat) (start pos : Nat) (a : Nat)
    (st : LState σ) (hm : Mid cfg.width input start pos st) (hl : st.last = none) :
    StepOK cfg.width input (callAction cfg a st) := by
  obtain ⟨h1, h2, h3, h4, h5, _⟩ := hm
  unfold callAction
  generalize (cfg.actions a).run (mkView cfg a st) = eff
  obtain ⟨u, reset, sw, res⟩ := eff
  have hpp : pos ≤ pos := Nat.le_refl _
  have hs : start ≤ input.length := Nat.le_trans h1 h2
  cases reset <;> cases sw <;> rcases res with _ | (e | t)
  all_goals first
    | exact ⟨hl, start, pos, h1, h2, h3, h4, h5⟩
    | exact ⟨hl, pos, pos, hpp, h2, h3, h4, h4⟩
    | exact ⟨⟨hl, pos, pos, hpp, h2, h3, h4, h4⟩, start, pos, h1, h2, h5, h4⟩
    | exact ⟨⟨hl, pos, pos, hpp, h2, h3, h4, h4⟩, pos, pos, hpp, h2, h4, h4⟩
    | exact ⟨⟨hl, pos, pos, hpp, h2, h3, h4, h4⟩, start, hs, h5⟩
    | exact ⟨⟨hl, pos, pos, hpp, h2, h3, h4, h4⟩, pos, h2, h4⟩

/-! ## One round of the loop -/

theorem dispatchOK (cfg : Config σ τ ε) (hm : MachineOK cfg) :
    DispatchOK cfg.dfa cfg.inl (dispatch (stateArms cfg.dfa cfg.inl)) := by
  intro t ht hi
  exact dispatch_correct cfg.dfa cfg.inl hm.inl t ht (hasArm_of_not_inlinedAt cfg.inl t hi)

theorem mid_of_boundary (w : Nat → Nat) (input : List Nat) (st : LState σ)
    (hb : Boundary w input st) : ∃ start pos, Mid w input start pos st := by
  obtain ⟨hl, start, pos, h1, h2, h3, h4, h5⟩ := hb
  refine ⟨start, pos, h1, h2, h3, h4, h5, ?_⟩
  intro sv hsv
  rw [hl] at hsv
  cases hsv

/-- The state code run at a boundary decides as `OutOK` says. -/
theorem scan_ok (cfg : Config σ τ ε) (hm : MachineOK cfg) (input : List Nat) (st : LState σ)
    (s : Nat) (hb : Boundary cfg.width input st) :
    ∃ start, OutOK cfg.width input start (scan cfg (dispatch (stateArms cfg.dfa cfg.inl)) s st.iter st) := by
  have hl : st.last = none := hb.1
  obtain ⟨start, pos, hmid⟩ := mid_of_boundary _ _ _ hb
  refine ⟨start, ?_⟩
  rw [scan_eq_scanPlain cfg _ hm.flags hm.acceptAny hm.targets (dispatchOK cfg hm) s st.iter st
    (by rw [hl]; intro h; cases h)]
  exact scanPlain_ok cfg _ hm.targets (dispatchOK cfg hm) hm.eoiAccept
    ⟨hm.state0.2.1, hm.state0.2.2⟩ input start st.iter s pos st hmid hmid.2.2.1.symm (fun _ => hl)

theorem finish_ok (cfg : Config σ τ ε) (input : List Nat) (start : Nat) (o : Outcome σ)
    (ho : OutOK cfg.width input start o) : StepOK cfg.width input (finish cfg o) := by
  cases o with
  | act a st1 =>
    obtain ⟨hl, p, hmid⟩ := ho
    exact callAction_ok cfg input start p a st1 hmid hl
  | err loc st1 =>
    obtain ⟨hloc, hl, p, hsp, h1, h2, h3, h4, h5, _⟩ := ho
    exact ⟨⟨hl, p, p, h1, h2, h3, h4, h5⟩, start, by omega, hloc⟩
  | fin st1 =>
    obtain ⟨hl, p, h1, h2, h3, h4, h5, _⟩ := ho
    exact ⟨⟨hl, start, p, h1, h2, h3, h4, h5⟩, trivial⟩
  | goto st1 => exact ho.elim

theorem execState_ok (cfg : Config σ τ ε) (hm : MachineOK cfg) (input : List Nat) (st : LState σ)
    (s : Nat) (hb : Boundary cfg.width input st) :
    StepOK cfg.width input (execState cfg (dispatch (stateArms cfg.dfa cfg.inl)) s st.iter st) := by
  obtain ⟨start, ho⟩ := scan_ok cfg hm input st s hb
  exact finish_ok cfg input start _ ho

theorem nextLoop_ok (cfg : Config σ τ ε) (hm : MachineOK cfg) (input : List Nat) :
    ∀ (fuel : Nat) (st : LState σ), Boundary cfg.width input st →
      ∀ (item : Option (Item τ ε)) (st' : LState σ), nextLoop cfg fuel st = some (item, st') →
        Boundary cfg.width input st' ∧ ItemLocOK cfg.width input item := by
  intro fuel
  induction fuel with
  | zero =>
    intro st _ item st' h
    simp [nextLoop] at h
  | succ n ih =>
    intro st hb item st' h
    rw [nextLoop] at h
    by_cases hd : st.done = true
    · simp only [hd, if_true, Option.some.injEq, Prod.mk.injEq] at h
      obtain ⟨h1, h2⟩ := h
      subst h1 h2
      exact ⟨hb, trivial⟩
    · simp only [hd, Bool.false_eq_true, if_false] at h
      cases hdisp : dispatch (stateArms cfg.dfa cfg.inl) st.state with
      | none => simp [hdisp] at h
      | some s =>
        simp only [hdisp] at h
        have hstep := execState_ok cfg hm input st s hb
        cases hex : execState cfg (dispatch (stateArms cfg.dfa cfg.inl)) s st.iter st with
        | ret item1 st1 =>
          rw [hex] at h hstep
          simp only [Option.some.injEq, Prod.mk.injEq] at h
          obtain ⟨h1, h2⟩ := h
          subst h1 h2
          exact hstep
        | cont st1 =>
          rw [hex] at h hstep
          exact ih st1 hstep item st' h

/-! ## Views -/

theorem mkView_ok (cfg : Config σ τ ε) (input : List Nat) (start pos : Nat) (a : Nat)
    (st : LState σ) (hm : Mid cfg.width input start pos st) :
    ViewOK cfg input (mkView cfg a st) := by
  obtain ⟨h1, h2, h3, h4, h5, _⟩ := hm
  refine ⟨start, pos, h1, h2, h5, h4, ?_, ?_⟩
  · show st.iter.head? = input[pos]?
    rw [h3, List.head?_drop]
  · intro hin
    unfold mkView
    simp only [hin, h4, h5]
    exact sliceBytes_locAt cfg.width input start pos h1 h2

/-- `cfg'` is `cfg` with other semantic actions. -/
def Same (cfg cfg' : Config σ τ ε) : Prop :=
  cfg'.dfa = cfg.dfa ∧ cfg'.ctxs = cfg.ctxs ∧ cfg'.entries = cfg.entries ∧
    cfg'.width = cfg.width ∧ cfg'.input = cfg.input ∧ cfg'.inl = cfg.inl

theorem callAction_congr (cfg cfg' : Config σ τ ε) (hs : Same cfg cfg') (a : Nat) (st : LState σ)
    (hrun : (cfg.actions a).run (mkView cfg a st) = (cfg'.actions a).run (mkView cfg a st)) :
    callAction cfg a st = callAction cfg' a st := by
  obtain ⟨_, _, hent, _, hin, hinl⟩ := hs
  have hv : mkView cfg' a st = mkView cfg a st := by
    unfold mkView
    rw [hin]
  have hsw : ∀ r, switchNum cfg' r = switchNum cfg r := by
    intro r
    unfold switchNum
    rw [hinl, hent]
  unfold callAction
  rw [hv, ← hrun]
  simp only [hsw]

theorem setAccepting_congr (cfg cfg' : Config σ τ ε) (hs : Same cfg cfg') (d : DState Trans)
    (st : LState σ) : setAccepting cfg' d st = setAccepting cfg d st := by
  unfold setAccepting ctxOK
  rw [hs.2.1]

theorem testRightCtxs_congr (cfg cfg' : Config σ τ ε) (hs : Same cfg cfg') (accs : List Acc)
    (st : LState σ) (k : Unit → Outcome σ) :
    testRightCtxs cfg' accs st k = testRightCtxs cfg accs st k := by
  unfold testRightCtxs ctxOK
  rw [hs.2.1]

theorem eoiSt_congr (cfg cfg' : Config σ τ ε) (hs : Same cfg cfg') (d : DState Trans)
    (st : LState σ) : ScanPlain.eoiSt cfg' d st = ScanPlain.eoiSt cfg d st := by
  unfold ScanPlain.eoiSt
  rw [setAccepting_congr cfg cfg' hs]

theorem stepSt_congr (cfg cfg' : Config σ τ ε) (hs : Same cfg cfg') (d : DState Trans)
    (c : Nat) (rest : List Nat) (st : LState σ) :
    ScanPlain.stepSt cfg' d c rest st = ScanPlain.stepSt cfg d c rest st := by
  unfold ScanPlain.stepSt
  rw [setAccepting_congr cfg cfg' hs, hs.2.2.2.1]

/-- The state code does not mention the semantic actions. -/
theorem scan_congr (cfg cfg' : Config σ τ ε) (hs : Same cfg cfg') (ns : Nat → Option Nat) :
    ∀ (iter : List Nat) (s : Nat) (st : LState σ),
      scan cfg' ns s iter st = scan cfg ns s iter st := by
  intro iter
  induction iter with
  | nil =>
    intro s st
    rw [ScanPlain.scan_nil, ScanPlain.scan_nil, hs.1, hs.2.2.2.2.2, eoiSt_congr cfg cfg' hs]
    simp only [testRightCtxs_congr cfg cfg' hs]
  | cons c rest ih =>
    intro s st
    have hg : ∀ (st1 : LState σ) (t : Nat),
        ScanPlain.gotoK (scan cfg' ns) cfg' ns rest st1 t =
          ScanPlain.gotoK (scan cfg ns) cfg ns rest st1 t := by
      intro st1 t
      unfold ScanPlain.gotoK
      rw [hs.2.2.2.2.2]
      simp only [ih]
    rw [ScanPlain.scan_cons, ScanPlain.scan_cons, hs.1, stepSt_congr cfg cfg' hs]
    simp only [testRightCtxs_congr cfg cfg' hs, hg]

theorem finish_congr (cfg cfg' : Config σ τ ε) (input : List Nat) (hs : Same cfg cfg')
    (hact : ∀ a v, ViewOK cfg input v → (cfg.actions a).run v = (cfg'.actions a).run v)
    (start : Nat) (o : Outcome σ) (ho : OutOK cfg.width input start o) :
    finish cfg o = finish cfg' o := by
  cases o with
  | act a st1 =>
    obtain ⟨_, p, hmid⟩ := ho
    exact callAction_congr cfg cfg' hs a st1 (hact a _ (mkView_ok cfg input start p a st1 hmid))
  | err loc st1 => rfl
  | fin st1 => rfl
  | goto st1 => rfl

theorem nextLoop_congr (cfg cfg' : Config σ τ ε) (hm : MachineOK cfg) (input : List Nat)
    (hs : Same cfg cfg')
    (hact : ∀ a v, ViewOK cfg input v → (cfg.actions a).run v = (cfg'.actions a).run v) :
    ∀ (fuel : Nat) (st : LState σ), Boundary cfg.width input st →
      nextLoop cfg fuel st = nextLoop cfg' fuel st := by
  intro fuel
  induction fuel with
  | zero => intro st _; rfl
  | succ n ih =>
    intro st hb
    rw [nextLoop, nextLoop, hs.1, hs.2.2.2.2.2]
    by_cases hd : st.done = true
    · simp only [hd, if_true]
    · simp only [hd, Bool.false_eq_true, if_false]
      cases hdisp : dispatch (stateArms cfg.dfa cfg.inl) st.state with
      | none => rfl
      | some s =>
        simp only []
        have hstep := execState_ok cfg hm input st s hb
        obtain ⟨start, ho⟩ := scan_ok cfg hm input st s hb
        have hex : execState cfg' (dispatch (stateArms cfg.dfa cfg.inl)) s st.iter st =
            execState cfg (dispatch (stateArms cfg.dfa cfg.inl)) s st.iter st := by
          unfold execState
          rw [scan_congr cfg cfg' hs]
          exact (finish_congr cfg cfg' input hs hact start _ ho).symm
        rw [hex]
        cases hex1 : execState cfg (dispatch (stateArms cfg.dfa cfg.inl)) s st.iter st with
        | ret item1 st1 => rfl
        | cont st1 =>
          rw [hex1] at hstep
          exact ih st1 hstep

end NextLoc

/-- Every location the lexer reports is the location obtained by scanning the input from its
beginning (`locAt`), spans are ordered, and the invariant holds again after the call. -/
theorem next_boundary (cfg : Config σ τ ε) (hm : MachineOK cfg) (input : List Nat) (st : LState σ)
    (hb : Boundary cfg.width input st) (item : Option (Item τ ε)) (st' : LState σ)
    (h : next cfg st = some (item, st')) :
    Boundary cfg.width input st' ∧ ItemLocOK cfg.width input item :=
  NextLoc.nextLoop_ok cfg hm input _ st hb item st' h

/-- Semantic actions are only ever handed views whose span, text and peeked character are exact:
replacing the actions by others that agree on such views does not change the result. -/
theorem next_views (cfg cfg' : Config σ τ ε) (hm : MachineOK cfg) (input : List Nat) (st : LState σ)
    (hb : Boundary cfg.width input st)
    (hsame : cfg'.dfa = cfg.dfa ∧ cfg'.ctxs = cfg.ctxs ∧ cfg'.entries = cfg.entries ∧ cfg'.width = cfg.width ∧ cfg'.input = cfg.input ∧
      cfg'.inl = cfg.inl)
    (hact : ∀ a v, ViewOK cfg input v → (cfg.actions a).run v = (cfg'.actions a).run v) :
    next cfg st = next cfg' st :=
  NextLoc.nextLoop_congr cfg cfg' hm input hsame hact _ st hb

end Lexgen
