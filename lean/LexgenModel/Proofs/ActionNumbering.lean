import LexgenModel.Proofs.CapstoneRun
import LexgenModel.Proofs.RunCongr
/-!
# The numbering of semantic actions is irrelevant

The accept values of the automata are indices into the semantic-action table. Nothing in the pipeline looks at them: renaming the action indices of
the rules of a definition by ANY function `f` (injective or not) renames the accept values of every automaton the model of `lexer()` builds and
changes nothing else, errors included (`compileLexer_mapV`); the generated `next()` only uses an accept value to pick the action to call and to
remember it in `last_match` (`next_mapV_gen`, `next_mapV`). Hence two rules whose actions are equal may share one table entry (in particular all rules
without a right-hand side), and the entries may be numbered in any order: the lexer returns the same items (`action_numbering_irrelevant`). This is
what justifies comparing the implementation's action indices with the model's only up to renaming (`harness/corpus.py`, `canon_actions`).

**One hypothesis had to be added to the run-time statements.** The model hands every action a `View` that records, in its field `action`, the index
under which the action is called (`mkView cfg action st`), and a model `Action` is an arbitrary function of its view. So a *model* action can
observe its own table index, and with `acts' (f k) = acts k` alone the renamed lexer may behave differently: the statements as first written are
false (`example`s at the end of the file: an action that stores `v.action` in the user state). A Rust semantic action cannot do that — the handle it
receives does not expose the index — and no other part of the model reads the field. The hypothesis is `Action.IndexBlind` (the action ignores
`View.action`); the weakest sufficient form is `ActsAgree f acts acts'`: "`acts' (f k)` on a view labelled `f k` does what `acts k` does on the
same view labelled `k`" (`action_numbering_irrelevant_gen`). No injectivity of `f` is needed anywhere: no stage compares, sorts or deduplicates
accept values (`Acc`'s `DecidableEq` is never used by the pipeline; the only tests on accept lists are emptiness tests).

Structure of the file: run time (`scan_mapV` … `runN_mapV_cfg`: a simulation for ALL lexer states, the saved match being renamed along, so runs need
no invariant), then the pipeline stage by stage (Thompson `NFA.addRegex_mapV`, subset construction `nfaToDfa_mapV`, `compileRuleSet_mapV`,
`addDfa_mapV`, `updateBacktracks_mapV`, `simplify_mapV`, the glue `glueStep_mapV`/`glueFinish_mapV`), then the theorems.
-/
namespace Lexgen
variable {σ τ ε : Type}

def Acc.mapV (f : Nat → Nat) (a : Acc) : Acc := { a with value := f a.value }

def Trans.mapV (f : Nat → Nat) : Trans → Trans
  | .goto s => .goto s
  | .accept accs => .accept (accs.map (Acc.mapV f))

/-- rename the accept values of a state whose targets are plain state numbers -/
def DState.mapVNat (f : Nat → Nat) (s : DState Nat) : DState Nat := { s with accepting := s.accepting.map (Acc.mapV f) }

/-- rename the accept values of a state of the simplified automaton (accept lists also sit on transitions) -/
def DState.mapVTrans (f : Nat → Nat) (s : DState Trans) : DState Trans :=
  { s with accepting := s.accepting.map (Acc.mapV f),
           chars := s.chars.map fun p => (p.1, p.2.mapV f),
           ranges := s.ranges.map fun r => (r.1, r.2.1, r.2.2.mapV f),
           any := s.any.map (Trans.mapV f),
           eoi := s.eoi.map (Trans.mapV f) }

def RuleOrBinding.mapRhs (f : Nat → Nat) : RuleOrBinding → RuleOrBinding
  | .binding x re => .binding x re
  | .rule r => .rule { r with rhs := f r.rhs }

def TopItem.mapRhs (f : Nat → Nat) : TopItem → TopItem
  | .errorType => .errorType
  | .rb x => .rb (x.mapRhs f)
  | .ruleSet name rules => .ruleSet name (rules.map (RuleOrBinding.mapRhs f))

/-- the definition with the action index of every rule renamed by `f` -/
def mapRhs (f : Nat → Nat) (items : LexerDef) : LexerDef := items.map (TopItem.mapRhs f)

/-- the compiled machine with every accept value renamed by `f`; right-context automata, entries, state numbers, flags untouched -/
def Compiled.mapV (f : Nat → Nat) (c : Compiled) : Compiled :=
  { c with full := c.full.map (DState.mapVNat f), dfa := c.dfa.map (DState.mapVTrans f) }



/-! ## Run time -/

/-- the lexer state with the action index of the saved match renamed -/
def StMap (f : Nat → Nat) (st : LState σ) : LState σ :=
  { st with last := st.last.map fun s => { s with action := f s.action } }

def Outcome.mapV (f : Nat → Nat) : Outcome σ → Outcome σ
  | .act a st => .act (f a) (StMap f st)
  | .err loc st => .err loc (StMap f st)
  | .fin st => .fin (StMap f st)
  | .goto st => .goto (StMap f st)

def StepOut.mapSt (g : LState σ → LState σ) : StepOut σ τ ε → StepOut σ τ ε
  | .ret item st => .ret item (g st)
  | .cont st => .cont (g st)

theorem firstOK_mapV (f : Nat → Nat) (ok : Nat → Bool) (accs : List Acc) :
    firstOK ok (accs.map (Acc.mapV f)) = (firstOK ok accs).map f := by
  induction accs with
  | nil => rfl
  | cons a rest ih =>
    simp only [List.map_cons, firstOK, Acc.mapV]
    split
    · rfl
    · split
      · rfl
      · exact ih

theorem getD_map_of_empty {α β : Type} (g : α → β) (l : List α) (i : Nat) (e : α) (e' : β) (he : g e = e') :
    (l.map g).getD i e' = g (l.getD i e) := by
  simp [List.getD_eq_getElem?_getD, List.getElem?_map]
  cases l[i]? <;> simp [he]

theorem st_mapVTrans (f : Nat → Nat) (d : DFA Trans) (s : Nat) :
    DFA.st (d.map (DState.mapVTrans f)) s = DState.mapVTrans f (DFA.st d s) := by
  unfold DFA.st
  exact getD_map_of_empty _ _ _ _ _ rfl

theorem st_mapVNat (f : Nat → Nat) (d : DFA Nat) (s : Nat) :
    DFA.st (d.map (DState.mapVNat f)) s = DState.mapVNat f (DFA.st d s) := by
  unfold DFA.st
  exact getD_map_of_empty _ _ _ _ _ rfl

theorem lookupChar_map {α β : Type} (g : α → β) (l : List (Nat × α)) (c : Nat) :
    lookupChar (l.map fun p => (p.1, g p.2)) c = (lookupChar l c).map g := by
  induction l with
  | nil => rfl
  | cons p rest ih =>
    obtain ⟨k, t⟩ := p
    simp only [List.map_cons, lookupChar]
    split
    · rfl
    · exact ih

theorem rangeLookup_map {α β : Type} (g : α → β) (l : RangeMap α) (c : Nat) :
    RangeMap.lookup (l.map fun r => (r.1, r.2.1, g r.2.2)) c = (RangeMap.lookup l c).map g := by
  induction l with
  | nil => rfl
  | cons p rest ih =>
    obtain ⟨s, e, t⟩ := p
    simp only [List.map_cons, RangeMap.lookup]
    split
    · rfl
    · exact ih

/-! ### the numbering of the generated code ignores accept values -/

def goesB (s : Nat) : Trans → Bool | .goto n => n == s | .accept _ => false
def isAccB : Trans → Bool | .accept _ => true | .goto _ => false
theorem inlineSites_eq (pred : DState Trans) (s : Nat) : inlineSites pred s =
  (if pred.chars.any (fun e => goesB s e.2) then 1 else 0) +
  (if pred.ranges.any (fun r => goesB s r.2.2) then 1 else 0) +
  (match pred.any with
   | some t =>
     if goesB s t then 1 + (pred.chars.filter (fun e => isAccB e.2)).length + (pred.ranges.filter (fun r => isAccB r.2.2)).length
     else 0
   | none => 0) := by
  rfl
theorem goesB_mapV (f s t) : goesB s (Trans.mapV f t) = goesB s t := by cases t <;> rfl
theorem isAccB_mapV (f t) : isAccB (Trans.mapV f t) = isAccB t := by cases t <;> rfl
theorem inlineSites_mapV (f : Nat → Nat) (p : DState Trans) (s : Nat) :
    inlineSites (DState.mapVTrans f p) s = inlineSites p s := by
  rw [inlineSites_eq, inlineSites_eq]
  unfold DState.mapVTrans
  simp only [List.any_map, List.filter_map, List.length_map, Function.comp_def, goesB_mapV, isAccB_mapV]
  cases p.any with
  | none => rfl
  | some t => simp only [Option.map_some, goesB_mapV]

theorem isInlined_mapV (f : Nat → Nat) (d : DFA Trans) (i : Nat) :
    isInlined (d.map (DState.mapVTrans f)) i = isInlined d i := by
  unfold isInlined
  simp only [st_mapVTrans, inlineSites_mapV]
  rfl

theorem inlinedStates_mapV (f : Nat → Nat) (d : DFA Trans) :
    inlinedStates (d.map (DState.mapVTrans f)) = inlinedStates d := by
  unfold inlinedStates
  simp only [isInlined_mapV, List.length_map]

theorem stateArms_mapV (f : Nat → Nat) (d : DFA Trans) (inl : List Nat) :
    stateArms (d.map (DState.mapVTrans f)) inl = stateArms d inl := by
  unfold stateArms
  simp only [List.length_map]


/-! ### one pass through the state code -/

section scan
variable (f : Nat → Nat) (cfg cfg' : Config σ τ ε)

theorem ctxOK_congr (hctx : cfg'.ctxs = cfg.ctxs) (i : Nat) (it : List Nat) : ctxOK cfg' i it = ctxOK cfg i it := by
  unfold ctxOK; rw [hctx]

theorem setAccepting_mapV (hctx : cfg'.ctxs = cfg.ctxs) (d : DState Trans) (st : LState σ) :
    setAccepting cfg' (DState.mapVTrans f d) (StMap f st) = StMap f (setAccepting cfg d st) := by
  unfold setAccepting
  have h1 : (fun i => ctxOK cfg' i (StMap f st).iter) = fun i => ctxOK cfg i st.iter := by
    funext i; exact ctxOK_congr cfg cfg' hctx i _
  rw [h1]
  show (match firstOK _ (d.accepting.map (Acc.mapV f)) with | some a => _ | none => _) = _
  rw [firstOK_mapV]
  cases firstOK (fun i => ctxOK cfg i st.iter) d.accepting <;> rfl

theorem failCode_mapV (d : DState Trans) (st : LState σ) :
    failCode (DState.mapVTrans f d) (StMap f st) = (failCode d st).mapV f := by
  unfold failCode
  have h1 : (DState.mapVTrans f d).backtrack = d.backtrack := rfl
  have h2 : (DState.mapVTrans f d).accepting.isEmpty = d.accepting.isEmpty := by
    show (d.accepting.map _).isEmpty = _
    cases d.accepting <;> rfl
  rw [h1, h2]
  split
  · rcases st with ⟨state, done, initial, user, iter0, cs, ce, last⟩
    cases last <;> rfl
  · rfl

theorem testRightCtxs_mapV (hctx : cfg'.ctxs = cfg.ctxs) (accs : List Acc) (st : LState σ) (dflt dflt' : Unit → Outcome σ)
    (hd : dflt' () = (dflt ()).mapV f) :
    testRightCtxs cfg' (accs.map (Acc.mapV f)) (StMap f st) dflt' = (testRightCtxs cfg accs st dflt).mapV f := by
  unfold testRightCtxs
  have h1 : (fun i => ctxOK cfg' i (StMap f st).iter) = fun i => ctxOK cfg i st.iter := by
    funext i; exact ctxOK_congr cfg cfg' hctx i _
  rw [h1, firstOK_mapV]
  cases firstOK (fun i => ctxOK cfg i st.iter) accs with
  | none => exact hd
  | some a =>
    rcases st with ⟨state, done, initial, user, iter0, cs, ce, last⟩
    cases last <;> rfl

theorem stepSt_mapV (hctx : cfg'.ctxs = cfg.ctxs) (hw : cfg'.width = cfg.width) (d : DState Trans) (c : Nat) (rest : List Nat) (st : LState σ) :
    ScanPlain.stepSt cfg' (DState.mapVTrans f d) c rest (StMap f st) = StMap f (ScanPlain.stepSt cfg d c rest st) := by
  show ({ setAccepting cfg' (DState.mapVTrans f d) (StMap f { st with iter := c :: rest }) with
      iter := rest, curEnd := (setAccepting cfg' (DState.mapVTrans f d) (StMap f { st with iter := c :: rest })).curEnd.advance cfg'.width c } : LState σ) = _
  rw [setAccepting_mapV f cfg cfg' hctx, hw]
  rfl

theorem eoiSt_mapV (hctx : cfg'.ctxs = cfg.ctxs) (d : DState Trans) (st : LState σ) :
    ScanPlain.eoiSt cfg' (DState.mapVTrans f d) (StMap f st) = StMap f (ScanPlain.eoiSt cfg d st) := by
  show ({ setAccepting cfg' (DState.mapVTrans f d) (StMap f { st with iter := [] }) with done := true } : LState σ) = _
  rw [setAccepting_mapV f cfg cfg' hctx]
  rfl

theorem scan_mapV (hdfa : cfg'.dfa = cfg.dfa.map (DState.mapVTrans f)) (hctx : cfg'.ctxs = cfg.ctxs) (hinl : cfg'.inl = cfg.inl)
    (hw : cfg'.width = cfg.width) (ns : Nat → Option Nat) (iter : List Nat) :
    ∀ (s : Nat) (st : LState σ), scan cfg' ns s iter (StMap f st) = (scan cfg ns s iter st).mapV f := by
  induction iter with
  | nil =>
    intro s st
    rw [ScanPlain.scan_nil, ScanPlain.scan_nil, hdfa, st_mapVTrans, eoiSt_mapV f cfg cfg' hctx, hinl]
    have hfail : (if s = 0 then Outcome.fin (StMap f (ScanPlain.eoiSt cfg (cfg.dfa.st s) st))
          else failCode (DState.mapVTrans f (cfg.dfa.st s)) (StMap f (ScanPlain.eoiSt cfg (cfg.dfa.st s) st))) =
        Outcome.mapV f (if s = 0 then Outcome.fin (ScanPlain.eoiSt cfg (cfg.dfa.st s) st) else failCode (cfg.dfa.st s) (ScanPlain.eoiSt cfg (cfg.dfa.st s) st)) := by
      split
      · rfl
      · exact failCode_mapV f _ _
    show (match (cfg.dfa.st s).eoi.map (Trans.mapV f) with | some (.accept accs) => _ | some (.goto t) => _ | none => _) = _
    cases (cfg.dfa.st s).eoi with
    | none => exact hfail
    | some t =>
      cases t with
      | goto t => rfl
      | accept accs => exact testRightCtxs_mapV f cfg cfg' hctx accs _ _ _ hfail
  | cons c rest ih =>
    intro s st
    have hg : ∀ (st1 : LState σ) (t : Nat),
        ScanPlain.gotoK (scan cfg' ns) cfg' ns rest (StMap f st1) t = (ScanPlain.gotoK (scan cfg ns) cfg ns rest st1 t).mapV f := by
      intro st1 t
      unfold ScanPlain.gotoK
      rw [hinl]
      split
      · exact ih _ _
      · show (match ns (renumber cfg.inl t) with
            | some t' => scan cfg' ns t' rest (StMap f { st1 with state := renumber cfg.inl t })
            | none => Outcome.goto (StMap f { st1 with state := renumber cfg.inl t })) =
          Outcome.mapV f (match ns (renumber cfg.inl t) with
            | some t' => scan cfg ns t' rest { st1 with state := renumber cfg.inl t }
            | none => Outcome.goto { st1 with state := renumber cfg.inl t })
        cases ns (renumber cfg.inl t) with
        | none => rfl
        | some t' => exact ih _ _
    rw [ScanPlain.scan_cons, ScanPlain.scan_cons, hdfa, st_mapVTrans, stepSt_mapV f cfg cfg' hctx hw]
    generalize hst1 : ScanPlain.stepSt cfg (cfg.dfa.st s) c rest st = st1
    generalize cfg.dfa.st s = d
    have hfail := failCode_mapV f d st1
    have hdflt : (match (DState.mapVTrans f d).any with
          | some (.goto t) => ScanPlain.gotoK (scan cfg' ns) cfg' ns rest (StMap f st1) t
          | some (.accept accs) => testRightCtxs cfg' accs (StMap f st1) (fun _ => failCode (DState.mapVTrans f d) (StMap f st1))
          | none => failCode (DState.mapVTrans f d) (StMap f st1)) =
        Outcome.mapV f (match d.any with
          | some (.goto t) => ScanPlain.gotoK (scan cfg ns) cfg ns rest st1 t
          | some (.accept accs) => testRightCtxs cfg accs st1 (fun _ => failCode d st1)
          | none => failCode d st1) := by
      show (match d.any.map (Trans.mapV f) with | some (.goto t) => _ | some (.accept accs) => _ | none => _) = _
      cases d.any with
      | none => exact hfail
      | some t =>
        cases t with
        | goto t => exact hg _ _
        | accept accs => exact testRightCtxs_mapV f cfg cfg' hctx accs _ _ _ hfail
    have e1 : lookupChar (DState.mapVTrans f d).chars c = (lookupChar d.chars c).map (Trans.mapV f) := lookupChar_map _ _ _
    have e2 : RangeMap.lookup (DState.mapVTrans f d).ranges c = (RangeMap.lookup d.ranges c).map (Trans.mapV f) := rangeLookup_map _ _ _
    rw [e1, e2]
    cases lookupChar d.chars c with
    | some t =>
      cases t with
      | goto t => exact hg _ _
      | accept accs => exact testRightCtxs_mapV f cfg cfg' hctx accs _ _ _ hdflt
    | none =>
      cases RangeMap.lookup d.ranges c with
      | none => exact hdflt
      | some t =>
        cases t with
        | goto t => exact hg _ _
        | accept accs => exact testRightCtxs_mapV f cfg cfg' hctx accs _ _ _ hdflt
end scan

/-! ### the semantic-action call, the loop of `next()`, runs -/

/-- `acts'` after the renaming is `acts`: the action at `f k` does on a view what the action at `k` does; a view records (field `action`) the index
under which the action is called, so the two calls are made with views that differ there -/
def ActsAgree (f : Nat → Nat) (acts acts' : Nat → Action σ τ ε) : Prop :=
  ∀ (k : Nat) (v : View σ), (acts' (f k)).run { v with action := f k } = (acts k).run { v with action := k }

section next
variable (f : Nat → Nat) (cfg cfg' : Config σ τ ε)

theorem callAction_mapV (hent : cfg'.entries = cfg.entries) (hinl : cfg'.inl = cfg.inl) (hin : cfg'.input = cfg.input)
    (hrun : ActsAgree f cfg.actions cfg'.actions)
    (a : Nat) (st : LState σ) :
    callAction cfg' (f a) (StMap f st) = (callAction cfg a st).mapSt (StMap f) := by
  have hsw : ∀ r, switchNum cfg' r = switchNum cfg r := by
    intro r; unfold switchNum; rw [hent, hinl]
  have hv : (cfg'.actions (f a)).run (mkView cfg' (f a) (StMap f st)) = (cfg.actions a).run (mkView cfg a st) := by
    have := hrun a (mkView cfg a st)
    unfold mkView at this ⊢
    rw [hin]
    exact this
  unfold callAction
  rw [hv]
  simp only [hsw]
  generalize (cfg.actions a).run (mkView cfg a st) = eff
  rcases eff with ⟨user, reset, switchTo, res⟩
  cases reset <;> cases switchTo <;> cases res with
  | none => rfl
  | some r => cases r <;> rfl

theorem finish_mapV (hent : cfg'.entries = cfg.entries) (hinl : cfg'.inl = cfg.inl) (hin : cfg'.input = cfg.input)
    (hrun : ActsAgree f cfg.actions cfg'.actions)
    (o : Outcome σ) :
    finish cfg' (o.mapV f) = (finish cfg o).mapSt (StMap f) := by
  cases o with
  | act a st => exact callAction_mapV f cfg cfg' hent hinl hin hrun a st
  | err loc st => rfl
  | fin st => rfl
  | goto st => rfl

theorem nextLoop_mapV (hdfa : cfg'.dfa = cfg.dfa.map (DState.mapVTrans f)) (hctx : cfg'.ctxs = cfg.ctxs)
    (hent : cfg'.entries = cfg.entries) (hinl : cfg'.inl = cfg.inl) (hw : cfg'.width = cfg.width) (hin : cfg'.input = cfg.input)
    (hrun : ActsAgree f cfg.actions cfg'.actions)
    (fuel : Nat) : ∀ st : LState σ,
    nextLoop cfg' fuel (StMap f st) = (nextLoop cfg fuel st).map fun r => (r.1, StMap f r.2) := by
  induction fuel with
  | zero => intro st; rfl
  | succ fuel ih =>
    intro st
    unfold nextLoop
    have hdone : (StMap f st).done = st.done := rfl
    have hstate : (StMap f st).state = st.state := rfl
    have hiter : (StMap f st).iter = st.iter := rfl
    rw [hdone, hstate, hiter, hdfa, stateArms_mapV, hinl]
    cases st.done with
    | true => rfl
    | false =>
      simp only [Bool.false_eq_true, if_false]
      cases dispatch (stateArms cfg.dfa cfg.inl) st.state with
      | none => rfl
      | some s =>
        simp only []
        unfold execState
        rw [scan_mapV f cfg cfg' hdfa hctx hinl hw, finish_mapV f cfg cfg' hent hinl hin hrun]
        cases finish cfg (scan cfg (dispatch (stateArms cfg.dfa cfg.inl)) s st.iter st) with
        | ret item st' => rfl
        | cont st' => exact ih st'

theorem next_mapV_cfg (hdfa : cfg'.dfa = cfg.dfa.map (DState.mapVTrans f)) (hctx : cfg'.ctxs = cfg.ctxs)
    (hent : cfg'.entries = cfg.entries) (hinl : cfg'.inl = cfg.inl) (hw : cfg'.width = cfg.width) (hin : cfg'.input = cfg.input)
    (hrun : ActsAgree f cfg.actions cfg'.actions)
    (st : LState σ) :
    next cfg' (StMap f st) = (next cfg st).map fun r => (r.1, StMap f r.2) :=
  nextLoop_mapV f cfg cfg' hdfa hctx hent hinl hw hin hrun _ st

theorem runN_mapV_cfg (hdfa : cfg'.dfa = cfg.dfa.map (DState.mapVTrans f)) (hctx : cfg'.ctxs = cfg.ctxs)
    (hent : cfg'.entries = cfg.entries) (hinl : cfg'.inl = cfg.inl) (hw : cfg'.width = cfg.width) (hin : cfg'.input = cfg.input)
    (hrun : ActsAgree f cfg.actions cfg'.actions)
    (n : Nat) : ∀ st : LState σ,
    runN cfg' n (StMap f st) = ((runN cfg n st).1, StMap f (runN cfg n st).2) := by
  induction n with
  | zero => intro st; rfl
  | succ n ih =>
    intro st
    unfold runN
    rw [next_mapV_cfg f cfg cfg' hdfa hctx hent hinl hw hin hrun]
    cases next cfg st with
    | none => rfl
    | some r =>
      obtain ⟨item, st'⟩ := r
      simp only [Option.map_some, ih]
end next


/-! ## Thompson construction -/

def NState.mapV (f : Nat → Nat) (s : NState) : NState := { s with acc := s.acc.map (Acc.mapV f) }

/-- the NFA with every accept value renamed -/
def NFA.mapV (f : Nat → Nat) (n : NFA) : NFA := n.map (NState.mapV f)

theorem modify_map_comm {α β : Type} (g : α → β) (h : α → α) (h' : β → β) (hc : ∀ x, h' (g x) = g (h x)) (l : List α) (i : Nat) :
    (l.map g).modify i h' = (l.modify i h).map g := by
  apply List.ext_getElem?
  intro j
  simp only [List.getElem?_modify, List.getElem?_map]
  cases l[j]? with
  | none => rfl
  | some x =>
    simp only [Option.map_some, Option.map_eq_map]
    split
    · rw [hc]
    · rfl

section nfa
variable (f : Nat → Nat)

theorem NFA.length_mapV (n : NFA) : (NFA.mapV f n).length = n.length := by
  unfold NFA.mapV; exact List.length_map _

theorem NFA.st_mapV (n : NFA) (i : Nat) : (NFA.mapV f n).st i = NState.mapV f (n.st i) := by
  unfold NFA.st NFA.mapV
  exact getD_map_of_empty _ _ _ _ _ rfl

theorem NFA.modify_mapV (n : NFA) (s : Nat) (h : NState → NState) (hc : ∀ x, h (NState.mapV f x) = NState.mapV f (h x)) :
    (NFA.mapV f n).modify s h = NFA.mapV f (n.modify s h) :=
  modify_map_comm _ _ _ hc _ _

theorem NFA.newState_mapV (n : NFA) : (NFA.mapV f n).newState = (NFA.mapV f n.newState.1, n.newState.2) := by
  unfold NFA.newState
  simp only [NFA.length_mapV]
  unfold NFA.mapV
  simp only [List.map_append, List.map_cons, List.map_nil]
  rfl

theorem NFA.addCharTransition_mapV (n : NFA) (s c next : Nat) :
    (NFA.mapV f n).addCharTransition s c next = (n.addCharTransition s c next).map (NFA.mapV f) := by
  unfold NFA.addCharTransition
  simp only [NFA.st_mapV]
  have h1 : (NState.mapV f (n.st s)).chars = (n.st s).chars := rfl
  rw [h1]
  cases List.find? (fun e => decide (e.1 = c)) (n.st s).chars with
  | none =>
    simp only []
    exact congrArg Except.ok (NFA.modify_mapV f n s _ (fun x => rfl))
  | some p =>
    obtain ⟨k, tgts⟩ := p
    simp only []
    split
    · rfl
    · exact congrArg Except.ok (NFA.modify_mapV f n s _ (fun x => rfl))

theorem NFA.addRangeTransition_mapV (n : NFA) (s rs re next : Nat) :
    (NFA.mapV f n).addRangeTransition s rs re next = NFA.mapV f (n.addRangeTransition s rs re next) := by
  unfold NFA.addRangeTransition
  exact NFA.modify_mapV f n s _ (fun x => rfl)

theorem NFA.addRangeTransitions_mapV (n : NFA) (s : Nat) (ranges : RangeMap Unit) (next : Nat) :
    (NFA.mapV f n).addRangeTransitions s ranges next = NFA.mapV f (n.addRangeTransitions s ranges next) := by
  unfold NFA.addRangeTransitions
  exact NFA.modify_mapV f n s _ (fun x => rfl)

theorem NFA.addEmptyTransition_mapV (n : NFA) (s next : Nat) :
    (NFA.mapV f n).addEmptyTransition s next = (n.addEmptyTransition s next).map (NFA.mapV f) := by
  unfold NFA.addEmptyTransition
  simp only [NFA.st_mapV]
  have h1 : (NState.mapV f (n.st s)).eps = (n.st s).eps := rfl
  rw [h1]
  split
  · rfl
  · exact congrArg Except.ok (NFA.modify_mapV f n s _ (fun x => rfl))

theorem NFA.addAnyTransition_mapV (n : NFA) (s next : Nat) :
    (NFA.mapV f n).addAnyTransition s next = (n.addAnyTransition s next).map (NFA.mapV f) := by
  unfold NFA.addAnyTransition
  simp only [NFA.st_mapV]
  have h1 : (NState.mapV f (n.st s)).any = (n.st s).any := rfl
  rw [h1]
  split
  · rfl
  · exact congrArg Except.ok (NFA.modify_mapV f n s _ (fun x => rfl))

theorem NFA.addEoiTransition_mapV (n : NFA) (s next : Nat) :
    (NFA.mapV f n).addEoiTransition s next = (n.addEoiTransition s next).map (NFA.mapV f) := by
  unfold NFA.addEoiTransition
  simp only [NFA.st_mapV]
  have h1 : (NState.mapV f (n.st s)).eoi = (n.st s).eoi := rfl
  rw [h1]
  split
  · rfl
  · exact congrArg Except.ok (NFA.modify_mapV f n s _ (fun x => rfl))

theorem NFA.makeStateAccepting_mapV (n : NFA) (s : Nat) (a : Acc) :
    (NFA.mapV f n).makeStateAccepting s (Acc.mapV f a) = (n.makeStateAccepting s a).map (NFA.mapV f) := by
  unfold NFA.makeStateAccepting
  simp only [NFA.st_mapV]
  have h1 : (NState.mapV f (n.st s)).acc.isSome = (n.st s).acc.isSome := by
    show ((n.st s).acc.map _).isSome = _
    cases (n.st s).acc <;> rfl
  rw [h1]
  split
  · rfl
  · refine congrArg Except.ok ?_
    unfold NFA.mapV
    apply modify_map_comm
    intro x; rfl

/-- `Except.map` through a bind whose first step commutes -/
theorem except_bind_mapV {α α' β β' : Type} {e : Type} (g : α → α') (g' : β → β') (x : Except e α) (x' : Except e α')
    (k : α → Except e β) (k' : α' → Except e β')
    (hx : x' = x.map g) (hk : ∀ a, k' (g a) = (k a).map g') :
    (x' >>= k') = (x >>= k).map g' := by
  subst hx
  cases x with
  | error err => rfl
  | ok a => exact hk a

theorem NFA.addStr_mapV (cs : List Nat) : ∀ (cur cont : Nat) (n : NFA),
    NFA.addStr cs cur cont (NFA.mapV f n) = (NFA.addStr cs cur cont n).map (NFA.mapV f) := by
  induction cs with
  | nil => intro cur cont n; rfl
  | cons c rest ih =>
    intro cur cont n
    cases rest with
    | nil => exact NFA.addCharTransition_mapV f n cur c cont
    | cons c' cs =>
      simp only [NFA.addStr, NFA.newState_mapV]
      exact except_bind_mapV _ _ _ _ _ _ (NFA.addCharTransition_mapV f _ _ _ _) (fun a => ih _ _ a)

theorem NFA.addSet_mapV (items : List CharOrRange) : ∀ (seen : List Nat) (cur cont : Nat) (n : NFA),
    NFA.addSet items seen cur cont (NFA.mapV f n) = (NFA.addSet items seen cur cont n).map (NFA.mapV f) := by
  induction items with
  | nil => intro seen cur cont n; rfl
  | cons it rest ih =>
    intro seen cur cont n
    cases it with
    | chr c =>
      simp only [NFA.addSet]
      split
      · exact ih _ _ _ _
      · exact except_bind_mapV _ _ _ _ _ _ (NFA.addCharTransition_mapV f _ _ _ _) (fun a => ih _ _ _ a)
    | rng s e =>
      simp only [NFA.addSet, NFA.addRangeTransition_mapV]
      exact ih _ _ _ _
end nfa

section nfa2
variable (f : Nat → Nat)

theorem NFA.mapV_snoc (n : NFA) : NFA.mapV f n ++ [NState.empty] = NFA.mapV f (n ++ [NState.empty]) := by
  unfold NFA.mapV
  simp only [List.map_append, List.map_cons, List.map_nil]
  rfl

theorem NFA.addRe_mapV (re : Regex) : ∀ (cur cont : Nat) (n : NFA),
    NFA.addRe re cur cont (NFA.mapV f n) = (NFA.addRe re cur cont n).map (NFA.mapV f) := by
  induction re with
  | builtin name =>
    intro cur cont n
    simp only [NFA.addRe]
    cases builtinRanges name with
    | none => rfl
    | some rs => simp only [NFA.addRangeTransitions_mapV]; rfl
  | var name => intro cur cont n; rfl
  | chr c => intro cur cont n; exact NFA.addCharTransition_mapV f n cur c cont
  | str cs => intro cur cont n; exact NFA.addStr_mapV f cs cur cont n
  | set items => intro cur cont n; exact NFA.addSet_mapV f items [] cur cont n
  | star r ih =>
    intro cur cont n
    simp only [NFA.addRe, NFA.newState, NFA.length_mapV, NFA.mapV_snoc]
    refine except_bind_mapV _ _ _ _ _ _ (ih _ _ _) (fun a => ?_)
    refine except_bind_mapV _ _ _ _ _ _ (NFA.addEmptyTransition_mapV f _ _ _) (fun a => ?_)
    refine except_bind_mapV _ _ _ _ _ _ (NFA.addEmptyTransition_mapV f _ _ _) (fun a => ?_)
    refine except_bind_mapV _ _ _ _ _ _ (NFA.addEmptyTransition_mapV f _ _ _) (fun a => ?_)
    exact NFA.addEmptyTransition_mapV f _ _ _
  | plus r ih =>
    intro cur cont n
    simp only [NFA.addRe, NFA.newState, NFA.length_mapV, NFA.mapV_snoc]
    refine except_bind_mapV _ _ _ _ _ _ (ih _ _ _) (fun a => ?_)
    refine except_bind_mapV _ _ _ _ _ _ (NFA.addEmptyTransition_mapV f _ _ _) (fun a => ?_)
    refine except_bind_mapV _ _ _ _ _ _ (NFA.addEmptyTransition_mapV f _ _ _) (fun a => ?_)
    exact NFA.addEmptyTransition_mapV f _ _ _
  | opt r ih =>
    intro cur cont n
    simp only [NFA.addRe, NFA.newState, NFA.length_mapV, NFA.mapV_snoc]
    refine except_bind_mapV _ _ _ _ _ _ (ih _ _ _) (fun a => ?_)
    refine except_bind_mapV _ _ _ _ _ _ (NFA.addEmptyTransition_mapV f _ _ _) (fun a => ?_)
    exact NFA.addEmptyTransition_mapV f _ _ _
  | cat a b iha ihb =>
    intro cur cont n
    simp only [NFA.addRe, NFA.newState, NFA.length_mapV, NFA.mapV_snoc]
    refine except_bind_mapV _ _ _ _ _ _ (iha _ _ _) (fun a => ?_)
    exact ihb _ _ _
  | alt a b iha ihb =>
    intro cur cont n
    simp only [NFA.addRe, NFA.newState, NFA.length_mapV, NFA.mapV_snoc]
    refine except_bind_mapV _ _ _ _ _ _ (iha _ _ _) (fun a => ?_)
    refine except_bind_mapV _ _ _ _ _ _ (ihb _ _ _) (fun a => ?_)
    refine except_bind_mapV _ _ _ _ _ _ (NFA.addEmptyTransition_mapV f _ _ _) (fun a => ?_)
    exact NFA.addEmptyTransition_mapV f _ _ _
  | any => intro cur cont n; exact NFA.addAnyTransition_mapV f n cur cont
  | eoi => intro cur cont n; exact NFA.addEoiTransition_mapV f n cur cont
  | diff a b _ _ =>
    intro cur cont n
    simp only [NFA.addRe]
    cases regexToRangeMap (.diff a b) with
    | error e => rfl
    | ok m =>
      show Except.ok _ = Except.map _ (Except.ok _)
      rw [NFA.addRangeTransitions_mapV]
      rfl

theorem NFA.addRegex_mapV (n : NFA) (re : Regex) (ctx : Option Nat) (value : Nat) :
    (NFA.mapV f n).addRegex re ctx (f value) = (n.addRegex re ctx value).map (NFA.mapV f) := by
  simp only [NFA.addRegex, NFA.newState, NFA.length_mapV, NFA.mapV_snoc]
  refine except_bind_mapV _ _ _ _ _ _ (NFA.makeStateAccepting_mapV f _ _ { value := value, ctx := ctx }) (fun a => ?_)
  simp only [NFA.length_mapV, NFA.mapV_snoc]
  refine except_bind_mapV _ _ _ _ _ _ (NFA.addEmptyTransition_mapV f _ _ _) (fun a => ?_)
  exact NFA.addRe_mapV f _ _ _ _
end nfa2


/-! ## Subset construction -/

theorem foldl_hom {α β γ : Type} (G : α → γ) (step : α → β → α) (step' : γ → β → γ)
    (h : ∀ a e, step' (G a) e = G (step a e)) (l : List β) : ∀ init : α, l.foldl step' (G init) = G (l.foldl step init) := by
  induction l with
  | nil => intro init; rfl
  | cons x rest ih => intro init; simp only [List.foldl_cons, h, ih]

def Builder.mapV (f : Nat → Nat) (b : Builder) : Builder := { b with dfa := b.dfa.map (DState.mapVNat f) }

def Collected.mapV (f : Nat → Nat) (c : Collected) : Collected := { c with accs := c.accs.map (Acc.mapV f) }

section subset
variable (f : Nat → Nat)

theorem closureAux_mapV (n : NFA) (fuel : Nat) : ∀ wl cl, NFA.closureAux (NFA.mapV f n) fuel wl cl = NFA.closureAux n fuel wl cl := by
  induction fuel with
  | zero => intro wl cl; rfl
  | succ fuel ih =>
    intro wl cl
    cases wl with
    | nil => rfl
    | cons w wl =>
      simp only [NFA.closureAux, NFA.st_mapV]
      exact ih _ _

theorem closure_mapV (n : NFA) (states : List Nat) : NFA.closure (NFA.mapV f n) states = NFA.closure n states := by
  unfold NFA.closure
  rw [NFA.length_mapV, closureAux_mapV]

theorem collect_mapV (n : NFA) (states : List Nat) : collect (NFA.mapV f n) states = (collect n states).mapV f := by
  unfold collect
  refine foldl_hom (Collected.mapV f) _ _ ?_ states {}
  intro c s
  simp only [NFA.st_mapV]
  unfold Collected.mapV NState.mapV
  cases (n.st s).acc <;> simp

theorem stateOf_mapV (b : Builder) (set : List Nat) :
    (Builder.mapV f b).stateOf set = (Builder.mapV f (b.stateOf set).1, (b.stateOf set).2) := by
  unfold Builder.stateOf
  show (match b.stateMap.find? _ with | some (_, i) => _ | none => _) = _
  cases b.stateMap.find? (fun e => decide (e.1 = set)) with
  | some p => rfl
  | none =>
    simp only [Builder.mapV, List.length_map, List.map_append, List.map_cons, List.map_nil]
    rfl

theorem addPred_mapV (d : DFA Nat) (t p : Nat) :
    DFA.addPred (d.map (DState.mapVNat f)) t p = (DFA.addPred d t p).map (DState.mapVNat f) := by
  unfold DFA.addPred
  apply modify_map_comm
  intro x; rfl

theorem modify_mapVNat (d : DFA Nat) (i : Nat) (h : DState Nat → DState Nat) (hc : ∀ x, h (DState.mapVNat f x) = DState.mapVNat f (h x)) :
    (d.map (DState.mapVNat f)).modify i h = (d.modify i h).map (DState.mapVNat f) :=
  modify_map_comm _ _ _ hc _ _
end subset

/-! ### `expandState`, phase by phase -/

/-- the step of the char-transition loop of `expandState` -/
def exCharStep (nfa : NFA) (col : Collected) (d : Nat) (acc : Builder × List (List Nat)) (e : Nat × List Nat) :
    Builder × List (List Nat) :=
  let c := e.1
  let tgts := col.ranges.foldl (fun t r => if r.1 ≤ c ∧ c ≤ r.2.1 then setUnion t r.2.2 else t) e.2
  let tgts := setUnion tgts col.any
  let cl := nfa.closure tgts
  let dfa := (acc.1.stateOf cl).1.dfa.modify d fun st => { st with chars := st.chars ++ [(c, (acc.1.stateOf cl).2)] }
  ({ (acc.1.stateOf cl).1 with dfa := DFA.addPred dfa (acc.1.stateOf cl).2 d }, cl :: acc.2)

/-- the step of the range-transition loop -/
def exRangeStep (nfa : NFA) (col : Collected) (acc : Builder × List (List Nat) × RangeMap Nat) (r : Nat × Nat × List Nat) :
    Builder × List (List Nat) × RangeMap Nat :=
  let tgts := setUnion r.2.2 col.any
  let cl := nfa.closure tgts
  ((acc.1.stateOf cl).1, cl :: acc.2.1, acc.2.2 ++ [(r.1, r.2.1, (acc.1.stateOf cl).2)])

/-- `set_range_transitions` -/
def exSetRanges (d : Nat) (x : Builder × List (List Nat) × RangeMap Nat) : Builder × List (List Nat) :=
  let dfa := x.2.2.foldl (fun dfa r => DFA.addPred dfa r.2.2 d) x.1.dfa
  ({ x.1 with dfa := dfa.modify d fun st => { st with ranges := x.2.2 } }, x.2.1)

/-- the any / end-of-input transition -/
def exOpt (nfa : NFA) (d : Nat) (tgts : List Nat) (setter : Nat → DState Nat → DState Nat) (x : Builder × List (List Nat)) :
    Builder × List (List Nat) :=
  let cl := nfa.closure tgts
  if cl.isEmpty then x else
    let dfa := (x.1.stateOf cl).1.dfa.modify d (setter (x.1.stateOf cl).2)
    ({ (x.1.stateOf cl).1 with dfa := DFA.addPred dfa (x.1.stateOf cl).2 d }, cl :: x.2)

theorem expandState_eq (nfa : NFA) (b : Builder) (d : Nat) (cur : List Nat) :
    expandState nfa b d cur =
      exOpt nfa d (collect nfa cur).eoi (fun t st => { st with eoi := some t })
        (exOpt nfa d (collect nfa cur).any (fun t st => { st with any := some t })
          (exSetRanges d
            ((collect nfa cur).ranges.foldl (exRangeStep nfa (collect nfa cur))
              (((collect nfa cur).chars.foldl (exCharStep nfa (collect nfa cur) d)
                  ({ b with dfa := b.dfa.modify d fun st => { st with accepting := (collect nfa cur).accs } }, [])).1,
               ((collect nfa cur).chars.foldl (exCharStep nfa (collect nfa cur) d)
                  ({ b with dfa := b.dfa.modify d fun st => { st with accepting := (collect nfa cur).accs } }, [])).2,
               [])))) := by
  rfl

section subset2
variable (f : Nat → Nat)

theorem exCharStep_mapV (nfa : NFA) (col : Collected) (d : Nat) (acc : Builder × List (List Nat)) (e : Nat × List Nat) :
    exCharStep (NFA.mapV f nfa) (col.mapV f) d (acc.1.mapV f, acc.2) e =
      ((exCharStep nfa col d acc e).1.mapV f, (exCharStep nfa col d acc e).2) := by
  unfold exCharStep
  have h1 : (col.mapV f).ranges = col.ranges := rfl
  have h2 : (col.mapV f).any = col.any := rfl
  simp only [h1, h2, closure_mapV, stateOf_mapV]
  simp only [Builder.mapV]
  rw [modify_mapVNat f, addPred_mapV]
  intro x; rfl

theorem exRangeStep_mapV (nfa : NFA) (col : Collected) (acc : Builder × List (List Nat) × RangeMap Nat) (r : Nat × Nat × List Nat) :
    exRangeStep (NFA.mapV f nfa) (col.mapV f) (acc.1.mapV f, acc.2) r =
      ((exRangeStep nfa col acc r).1.mapV f, (exRangeStep nfa col acc r).2) := by
  unfold exRangeStep
  have h2 : (col.mapV f).any = col.any := rfl
  simp only [h2, closure_mapV, stateOf_mapV]

theorem addPredFold_mapV (d : Nat) (rng : RangeMap Nat) : ∀ D : DFA Nat,
    rng.foldl (fun dfa r => DFA.addPred dfa r.2.2 d) (D.map (DState.mapVNat f)) =
      (rng.foldl (fun dfa r => DFA.addPred dfa r.2.2 d) D).map (DState.mapVNat f) :=
  foldl_hom (List.map (DState.mapVNat f)) _ _ (fun a e => addPred_mapV f a e.2.2 d) rng

theorem exSetRanges_mapV (d : Nat) (b : Builder) (y : List (List Nat) × RangeMap Nat) :
    exSetRanges d (b.mapV f, y) = ((exSetRanges d (b, y)).1.mapV f, (exSetRanges d (b, y)).2) := by
  unfold exSetRanges
  simp only [Builder.mapV]
  rw [addPredFold_mapV, modify_mapVNat f]
  intro x; rfl

theorem exOpt_mapV (nfa : NFA) (d : Nat) (tgts : List Nat) (setter : Nat → DState Nat → DState Nat)
    (hs : ∀ t x, setter t (DState.mapVNat f x) = DState.mapVNat f (setter t x)) (b : Builder) (p : List (List Nat)) :
    exOpt (NFA.mapV f nfa) d tgts setter (b.mapV f, p) = ((exOpt nfa d tgts setter (b, p)).1.mapV f, (exOpt nfa d tgts setter (b, p)).2) := by
  unfold exOpt
  simp only [closure_mapV, stateOf_mapV]
  split
  · rfl
  · simp only [Builder.mapV]
    rw [modify_mapVNat f, addPred_mapV]
    exact hs _

theorem expandState_mapV (nfa : NFA) (b : Builder) (d : Nat) (cur : List Nat) :
    expandState (NFA.mapV f nfa) (b.mapV f) d cur = ((expandState nfa b d cur).1.mapV f, (expandState nfa b d cur).2) := by
  rw [expandState_eq, expandState_eq, collect_mapV]
  have h0 : ({ b.mapV f with dfa := (b.mapV f).dfa.modify d fun st => { st with accepting := ((collect nfa cur).mapV f).accs } } : Builder) =
      Builder.mapV f { b with dfa := b.dfa.modify d fun st => { st with accepting := (collect nfa cur).accs } } := by
    simp only [Builder.mapV]
    rw [modify_map_comm (DState.mapVNat f) (fun st => { st with accepting := (collect nfa cur).accs })]
    intro x; rfl
  have h1 : ∀ b0 p0, List.foldl (exCharStep (NFA.mapV f nfa) ((collect nfa cur).mapV f) d) (Builder.mapV f b0, p0) (collect nfa cur).chars =
      (Builder.mapV f (List.foldl (exCharStep nfa (collect nfa cur) d) (b0, p0) (collect nfa cur).chars).1,
        (List.foldl (exCharStep nfa (collect nfa cur) d) (b0, p0) (collect nfa cur).chars).2) := fun b0 p0 =>
    foldl_hom (fun x : Builder × List (List Nat) => (x.1.mapV f, x.2)) (exCharStep nfa (collect nfa cur) d)
      (exCharStep (NFA.mapV f nfa) ((collect nfa cur).mapV f) d) (fun a e => exCharStep_mapV f nfa _ d a e) (collect nfa cur).chars (b0, p0)
  have h2 : ∀ b0 y0, List.foldl (exRangeStep (NFA.mapV f nfa) ((collect nfa cur).mapV f)) (Builder.mapV f b0, y0) (collect nfa cur).ranges =
      (Builder.mapV f (List.foldl (exRangeStep nfa (collect nfa cur)) (b0, y0) (collect nfa cur).ranges).1,
        (List.foldl (exRangeStep nfa (collect nfa cur)) (b0, y0) (collect nfa cur).ranges).2) := fun b0 y0 =>
    foldl_hom (fun x : Builder × List (List Nat) × RangeMap Nat => (x.1.mapV f, x.2)) (exRangeStep nfa (collect nfa cur))
      (exRangeStep (NFA.mapV f nfa) ((collect nfa cur).mapV f)) (fun a e => exRangeStep_mapV f nfa _ a e) (collect nfa cur).ranges (b0, y0)
  have e1 : ((collect nfa cur).mapV f).chars = (collect nfa cur).chars := rfl
  have e2 : ((collect nfa cur).mapV f).ranges = (collect nfa cur).ranges := rfl
  have e3 : ((collect nfa cur).mapV f).any = (collect nfa cur).any := rfl
  have e4 : ((collect nfa cur).mapV f).eoi = (collect nfa cur).eoi := rfl
  have o1 := exOpt_mapV f nfa d (collect nfa cur).any (fun t st => { st with any := some t }) (fun t x => rfl)
  have o2 := exOpt_mapV f nfa d (collect nfa cur).eoi (fun t st => { st with eoi := some t }) (fun t x => rfl)
  rw [e1, e2, e3, e4, h0]
  simp only [h1, h2, exSetRanges_mapV, o1, o2]
end subset2

section subset3
variable (f : Nat → Nat)

theorem nfaToDfaLoop_mapV (nfa : NFA) (fuel : Nat) : ∀ (wl : List (List Nat)) (finished : List Nat) (b : Builder),
    nfaToDfaLoop (NFA.mapV f nfa) fuel wl finished (b.mapV f) = (nfaToDfaLoop nfa fuel wl finished b).map (Builder.mapV f) := by
  induction fuel with
  | zero => intro wl finished b; cases wl <;> rfl
  | succ fuel ih =>
    intro wl finished b
    cases wl with
    | nil => rfl
    | cons cur wl =>
      simp only [nfaToDfaLoop, stateOf_mapV]
      split
      · exact ih _ _ _
      · rw [expandState_mapV]
        exact ih _ _ _

theorem transBound_mapV (nfa : NFA) : transBound (NFA.mapV f nfa) = transBound nfa := by
  unfold transBound NFA.mapV
  rw [List.foldl_map]
  rfl

theorem nfaToDfa_mapV (nfa : NFA) : nfaToDfa (NFA.mapV f nfa) = (nfaToDfa nfa).map (List.map (DState.mapVNat f)) := by
  unfold nfaToDfa
  simp only [closure_mapV]
  have hfuel : nfaToDfaFuel (NFA.mapV f nfa) = nfaToDfaFuel nfa := by
    unfold nfaToDfaFuel; rw [NFA.length_mapV, transBound_mapV]
  rw [hfuel]
  generalize hb0 : ({ dfa := [{ (DState.empty : DState Nat) with initial := true }], stateMap := [(nfa.closure [0], 0)] } : Builder) = b0
  have hb : b0 = Builder.mapV f b0 := by subst hb0; rfl
  conv => lhs; rw [hb, nfaToDfaLoop_mapV]
  cases nfaToDfaLoop nfa (nfaToDfaFuel nfa) [nfa.closure [0]] [] b0 <;> rfl
end subset3


/-! ## Rules, rule sets, `add_dfa`, `update_backtracks`, `simplify` -/

theorem foldlM_hom {α β γ e : Type} (G : α → γ) (step : α → β → Except e α) (step' : γ → β → Except e γ)
    (h : ∀ a x, step' (G a) x = (step a x).map G) (l : List β) :
    ∀ init : α, l.foldlM step' (G init) = (l.foldlM step init).map G := by
  induction l with
  | nil => intro init; rfl
  | cons x rest ih =>
    intro init
    simp only [List.foldlM_cons]
    exact except_bind_mapV G G (step init x) (step' (G init) x) (fun a => rest.foldlM step a) (fun c => rest.foldlM step' c) (h init x) (fun a => ih a)

theorem mapM_hom {α β γ e : Type} (g : β → γ) (F : α → Except e β) (F' : α → Except e γ) (h : ∀ i, F' i = (F i).map g) (l : List α) :
    l.mapM F' = (l.mapM F).map (List.map g) := by
  induction l with
  | nil => rfl
  | cons x rest ih =>
    simp only [List.mapM_cons, h, ih]
    cases F x with
    | error err => rfl
    | ok b =>
      cases List.mapM F rest with
      | error err => rfl
      | ok bs => rfl

section stages
variable (f : Nat → Nat)

theorem compileTail_mapV (nfa : NFA) (r : SingleRule) (b : Bindings) (ctxs' : List (DFA Nat)) (ctx : Option Nat) :
    (do let re ← inlineVars b (b.length + 1) r.re
        let nfa ← (NFA.mapV f nfa).addRegex re ctx (f r.rhs)
        pure (nfa, ctxs') : Except CompileError (NFA × List (DFA Nat))) =
      Except.map (fun p => (NFA.mapV f p.1, p.2))
        (do let re ← inlineVars b (b.length + 1) r.re
            let nfa ← nfa.addRegex re ctx r.rhs
            pure (nfa, ctxs')) := by
  cases inlineVars b (b.length + 1) r.re with
  | error err => rfl
  | ok re =>
    show ((NFA.mapV f nfa).addRegex re ctx (f r.rhs) >>= fun nfa => _) = Except.map _ (nfa.addRegex re ctx r.rhs >>= fun nfa => _)
    rw [NFA.addRegex_mapV]
    cases nfa.addRegex re ctx r.rhs <;> rfl

theorem compileSingleRule_mapV (nfa : NFA) (r : SingleRule) (b : Bindings) (ctxs : List (DFA Nat)) :
    compileSingleRule (NFA.mapV f nfa) { r with rhs := f r.rhs } b ctxs =
      (compileSingleRule nfa r b ctxs).map fun p => (NFA.mapV f p.1, p.2) := by
  obtain ⟨re, ctx, rhs⟩ := r
  unfold compileSingleRule
  cases ctx with
  | none => exact compileTail_mapV f nfa ⟨re, none, rhs⟩ b ctxs none
  | some c =>
    simp only []
    cases newRightCtx ctxs b c with
    | error err => rfl
    | ok p => exact compileTail_mapV f nfa ⟨re, some c, rhs⟩ b p.1 (some p.2)
end stages

section stages2
variable (f : Nat → Nat)

/-- the step of the loop of `compile_rule_set` -/
def ruleSetStep (acc : NFA × Bindings × List (DFA Nat)) (item : RuleOrBinding) : Except CompileError (NFA × Bindings × List (DFA Nat)) :=
  match item with
  | .rule r => do
    let (nfa, ctxs) ← compileSingleRule acc.1 r acc.2.1 acc.2.2
    pure (nfa, acc.2.1, ctxs)
  | .binding name re =>
    if (acc.2.1.find? name).isSome then throw (.dupVar name)
    else pure (acc.1, acc.2.1 ++ [(name, re)], acc.2.2)

theorem compileRuleSet_eq (rules : List RuleOrBinding) (b : Bindings) (ctxs : List (DFA Nat)) :
    compileRuleSet rules b ctxs =
      (rules.foldlM ruleSetStep (NFA.new, b, ctxs) >>= fun x =>
        match nfaToDfa x.1 with
        | none => throw (.internal "nfa_to_dfa")
        | some d => pure (d, x.2.2)) := by
  rfl

theorem ruleSetStep_mapV (acc : NFA × Bindings × List (DFA Nat)) (item : RuleOrBinding) :
    ruleSetStep (NFA.mapV f acc.1, acc.2) (item.mapRhs f) = (ruleSetStep acc item).map fun x => (NFA.mapV f x.1, x.2) := by
  cases item with
  | binding name re =>
    simp only [RuleOrBinding.mapRhs, ruleSetStep]
    split <;> rfl
  | rule r =>
    simp only [RuleOrBinding.mapRhs, ruleSetStep, compileSingleRule_mapV]
    cases compileSingleRule acc.1 r acc.2.1 acc.2.2 <;> rfl

theorem compileRuleSet_mapV (rules : List RuleOrBinding) (b : Bindings) (ctxs : List (DFA Nat)) :
    compileRuleSet (rules.map (RuleOrBinding.mapRhs f)) b ctxs =
      (compileRuleSet rules b ctxs).map fun p => (p.1.map (DState.mapVNat f), p.2) := by
  rw [compileRuleSet_eq, compileRuleSet_eq, List.foldlM_map]
  have h := foldlM_hom (fun x : NFA × Bindings × List (DFA Nat) => (NFA.mapV f x.1, x.2)) ruleSetStep
    (fun x y => ruleSetStep x (RuleOrBinding.mapRhs f y)) (fun a x => ruleSetStep_mapV f a x) rules (NFA.new, b, ctxs)
  refine except_bind_mapV _ _ _ _ _ _ h (fun a => ?_)
  simp only [nfaToDfa_mapV]
  cases nfaToDfa a.1 <;> rfl

theorem addDfa_mapV (d other : DFA Nat) :
    addDfa (d.map (DState.mapVNat f)) (other.map (DState.mapVNat f)) =
      ((addDfa d other).1.map (DState.mapVNat f), (addDfa d other).2) := by
  unfold addDfa
  simp only [List.length_map, List.map_append, List.map_map]
  rfl

/-! ### `update_backtracks` -/

theorem succs_mapVNat (s : DState Nat) : DFA.succs (DState.mapVNat f s) = DFA.succs s := rfl

theorem isEmpty_map {α β : Type} (g : α → β) (l : List α) : (l.map g).isEmpty = l.isEmpty := by cases l <;> rfl

theorem accEmpty_mapVNat (s : DState Nat) : (DState.mapVNat f s).accepting.isEmpty = s.accepting.isEmpty :=
  isEmpty_map _ _

theorem backtrackLoop_mapV (d : DFA Nat) (fuel : Nat) : ∀ (wl : List (Nat × Bool)) (vis : List (Option Bool)),
    backtrackLoop (d.map (DState.mapVNat f)) fuel wl vis = backtrackLoop d fuel wl vis := by
  induction fuel with
  | zero => intro wl vis; cases wl <;> rfl
  | succ fuel ih =>
    intro wl vis
    cases wl with
    | nil => rfl
    | cons p wl =>
      obtain ⟨s, bt⟩ := p
      simp only [backtrackLoop, st_mapVNat, succs_mapVNat, accEmpty_mapVNat, ih]

theorem edgeCount_mapV (d : DFA Nat) : edgeCount (d.map (DState.mapVNat f)) = edgeCount d := by
  unfold edgeCount
  rw [List.foldl_map]
  rfl

theorem initialWork_mapV (d : DFA Nat) : initialWork (d.map (DState.mapVNat f)) = initialWork d := by
  unfold initialWork
  simp only [List.length_map, st_mapVNat]
  rfl

theorem updateBacktracks_mapV (d : DFA Nat) :
    updateBacktracks (d.map (DState.mapVNat f)) = (updateBacktracks d).map (List.map (DState.mapVNat f)) := by
  unfold updateBacktracks backtrackFuel
  rw [backtrackLoop_mapV, edgeCount_mapV, initialWork_mapV, List.length_map]
  cases backtrackLoop d (2 * edgeCount d + d.length + 1) (initialWork d).reverse (List.replicate d.length none) with
  | none => rfl
  | some vis =>
    simp only []
    split
    · simp only [Option.map_some, List.zipWith_map_left, List.map_zipWith]
      rfl
    · rfl
end stages2

section stages3
variable (f : Nat → Nat)

/-! ### `simplify` -/

theorem emptyStates_mapV (d : DFA Nat) : emptyStates (d.map (DState.mapVNat f)) = emptyStates d := by
  unfold emptyStates
  simp only [List.length_map, st_mapVNat]
  rfl

theorem mapTransition_mapV (d : DFA Nat) (empties : List Nat) (t : Nat) :
    mapTransition (d.map (DState.mapVNat f)) empties t = Trans.mapV f (mapTransition d empties t) := by
  unfold mapTransition
  split
  · rw [st_mapVNat]; rfl
  · rfl

/-- the renumbering of a predecessor in `simplifyState` -/
def predOf (d : DFA Nat) (empties : List Nat) (p : Nat) : Except CompileError Nat :=
  match mapTransition d empties p with
  | .goto p' => pure p'
  | .accept _ => throw (.internal "Predecessor of a state is removed in simplification")

theorem simplifyState_eq (d : DFA Nat) (empties : List Nat) (s : DState Nat) :
    simplifyState d empties s =
      (s.preds.mapM (predOf d empties) >>= fun preds =>
        pure { initial := s.initial
               chars := s.chars.map fun e => (e.1, mapTransition d empties e.2)
               ranges := RangeMap.mapVals (mapTransition d empties) s.ranges
               any := s.any.map (mapTransition d empties)
               eoi := s.eoi.map (mapTransition d empties)
               accepting := s.accepting
               preds := preds
               backtrack := s.backtrack }) := by
  rfl

theorem predOf_mapV (d : DFA Nat) (empties : List Nat) : predOf (d.map (DState.mapVNat f)) empties = predOf d empties := by
  funext p
  unfold predOf
  rw [mapTransition_mapV]
  cases mapTransition d empties p <;> rfl

theorem simplifyState_mapV (d : DFA Nat) (empties : List Nat) (s : DState Nat) :
    simplifyState (d.map (DState.mapVNat f)) empties (DState.mapVNat f s) =
      (simplifyState d empties s).map (DState.mapVTrans f) := by
  rw [simplifyState_eq, simplifyState_eq, predOf_mapV]
  have hpreds : (DState.mapVNat f s).preds = s.preds := rfl
  rw [hpreds]
  cases List.mapM (predOf d empties) s.preds with
  | error err => rfl
  | ok preds =>
    show Except.ok _ = Except.ok _
    congr 1
    have hm : mapTransition (d.map (DState.mapVNat f)) empties = fun t => Trans.mapV f (mapTransition d empties t) := by
      funext t; exact mapTransition_mapV f d empties t
    rw [hm]
    unfold DState.mapVTrans DState.mapVNat RangeMap.mapVals
    simp only [List.map_map, Option.map_map, Function.comp_def]

theorem simplify_mapV (d : DFA Nat) (entries : List (String × Nat)) :
    simplify (d.map (DState.mapVNat f)) entries =
      (simplify d entries).map fun p => (p.1.map (DState.mapVTrans f), p.2) := by
  unfold simplify
  simp only [emptyStates_mapV, List.length_map, st_mapVNat]
  have h := mapM_hom (DState.mapVTrans f) (fun i => simplifyState d (emptyStates d) (d.st i))
    (fun i => simplifyState (d.map (DState.mapVNat f)) (emptyStates d) (DState.mapVNat f (d.st i)))
    (fun i => simplifyState_mapV f d (emptyStates d) (d.st i))
    ((List.range d.length).filter fun i => !(emptyStates d).contains i)
  refine except_bind_mapV _ _ _ _ _ _ h (fun a => ?_)
  rfl
end stages3


/-! ## The glue (`lexer()`) -/

/-- the step of the loop over the items of the definition -/
def glueStep (g : GlueState) (item : TopItem) : Except CompileError GlueState := do
  match item with
  | .errorType =>
    if g.errorType then throw .dupErrorType else pure { g with errorType := true }
  | .rb (.binding name re) =>
    if (g.bindings.find? name).isSome then throw (.dupVar name)
    else pure { g with bindings := g.bindings ++ [(name, re)] }
  | .rb (.rule r) => do
    let (nfa, ctxs) ← compileSingleRule g.unnamed r g.bindings g.ctxs
    pure { g with unnamed := nfa, ctxs := ctxs }
  | .ruleSet name rules => do
    let (g, idx) ←
      if name = "Init" then do
        let (d, ctxs) ← compileRuleSet rules g.bindings g.ctxs
        pure ({ g with initDfa := some d, ctxs := ctxs }, 0)
      else
        match g.initDfa with
        | none => throw .firstNotInit
        | some d0 => do
          let (d, ctxs) ← compileRuleSet rules g.bindings g.ctxs
          let (d', idx) := addDfa d0 d
          pure ({ g with initDfa := some d', ctxs := ctxs }, idx)
    if (g.entries.find? (·.1 = name)).isSome then throw (.dupRuleSet name)
    else pure { g with entries := g.entries ++ [(name, idx)] }

/-- `simplify` and the result of `lexer()` -/
def glueTail2 (g : GlueState) (full : DFA Nat) : Except CompileError Compiled :=
  simplify full g.entries >>= fun p =>
    pure { full := full, entries0 := g.entries, dfa := p.1, entries := p.2, ctxs := g.ctxs }

/-- `update_backtracks`, then `glueTail2` -/
def glueTail (g : GlueState) (dfa : DFA Nat) : Except CompileError Compiled :=
  match updateBacktracks dfa with
  | some d => glueTail2 g d
  | none => throw (.internal "update_backtracks")

/-- what `lexer()` does after the loop -/
def glueFinish (g : GlueState) : Except CompileError Compiled :=
  match g.initDfa with
  | some d => glueTail g d
  | none => match nfaToDfa g.unnamed with
    | some d => glueTail g d
    | none => throw (.internal "nfa_to_dfa")

theorem compileLexer_eq (items : LexerDef) :
    compileLexer items = (do
      if mixedRules items then throw .mixedRules
      let g ← items.foldlM glueStep {}
      glueFinish g) := by
  rfl

def GlueState.mapV (f : Nat → Nat) (g : GlueState) : GlueState :=
  { g with initDfa := g.initDfa.map (List.map (DState.mapVNat f)), unnamed := NFA.mapV f g.unnamed }

section glue
variable (f : Nat → Nat)

theorem mixedRules_mapRhs (items : LexerDef) : mixedRules (mapRhs f items) = mixedRules items := by
  unfold mixedRules mapRhs
  simp only [List.any_map]
  congr 2
  · funext x
    cases x with
    | errorType => rfl
    | rb y => cases y <;> rfl
    | ruleSet n r => rfl
  · funext x
    cases x with
    | errorType => rfl
    | rb y => cases y <;> rfl
    | ruleSet n r => rfl

theorem glueStep_mapV (g : GlueState) (item : TopItem) :
    glueStep (g.mapV f) (item.mapRhs f) = (glueStep g item).map (GlueState.mapV f) := by
  cases item with
  | errorType =>
    simp only [TopItem.mapRhs, glueStep]
    show (if g.errorType = true then _ else _) = _
    split <;> rfl
  | rb y =>
    cases y with
    | binding name re =>
      simp only [TopItem.mapRhs, RuleOrBinding.mapRhs, glueStep]
      show (if (g.bindings.find? name).isSome = true then _ else _) = _
      split <;> rfl
    | rule r =>
      simp only [TopItem.mapRhs, RuleOrBinding.mapRhs, glueStep]
      show (compileSingleRule (NFA.mapV f g.unnamed) { r with rhs := f r.rhs } g.bindings g.ctxs >>= fun x => _) = _
      rw [compileSingleRule_mapV]
      cases compileSingleRule g.unnamed r g.bindings g.ctxs <;> rfl
  | ruleSet name rules =>
    simp only [TopItem.mapRhs, glueStep]
    have hfin : ∀ (g' : GlueState) (idx : Nat),
        (if (List.find? (fun x => decide (x.fst = name)) (GlueState.mapV f g').entries).isSome = true then
            (throw (CompileError.dupRuleSet name) : Except CompileError GlueState)
          else pure { GlueState.mapV f g' with entries := (GlueState.mapV f g').entries ++ [(name, idx)] }) =
        Except.map (GlueState.mapV f)
          (if (List.find? (fun x => decide (x.fst = name)) g'.entries).isSome = true then throw (CompileError.dupRuleSet name)
            else pure { g' with entries := g'.entries ++ [(name, idx)] }) := by
      intro g' idx
      have : (GlueState.mapV f g').entries = g'.entries := rfl
      rw [this]
      generalize (List.find? (fun x => decide (x.fst = name)) g'.entries).isSome = c
      cases c <;> rfl
    by_cases hn : name = "Init"
    · rw [if_pos hn, if_pos hn]
      show (compileRuleSet (rules.map (RuleOrBinding.mapRhs f)) g.bindings g.ctxs >>= fun x => _) = _
      rw [compileRuleSet_mapV]
      cases compileRuleSet rules g.bindings g.ctxs with
      | error err => rfl
      | ok p => exact hfin { g with initDfa := some p.1, ctxs := p.2 } 0
    · rw [if_neg hn, if_neg hn]
      show (match g.initDfa.map (List.map (DState.mapVNat f)) with | none => _ | some d0 => _) = _
      cases g.initDfa with
      | none => rfl
      | some d0 =>
        show (compileRuleSet (rules.map (RuleOrBinding.mapRhs f)) g.bindings g.ctxs >>= fun x => _) = _
        rw [compileRuleSet_mapV]
        cases compileRuleSet rules g.bindings g.ctxs with
        | error err => rfl
        | ok p =>
          have h := hfin { g with initDfa := some (addDfa d0 p.1).1, ctxs := p.2 } (addDfa d0 p.1).2
          have ha := addDfa_mapV f d0 p.1
          have hK := congrArg (fun q : DFA Nat × Nat =>
            (if (List.find? (fun x => decide (x.fst = name)) g.entries).isSome = true then
              (throw (CompileError.dupRuleSet name) : Except CompileError GlueState)
             else pure { GlueState.mapV f g with initDfa := some q.1, ctxs := p.2, entries := g.entries ++ [(name, q.2)] })) ha
          exact hK.trans h
end glue

section glue2
variable (f : Nat → Nat)

theorem glueTail2_mapV (g : GlueState) (full : DFA Nat) :
    glueTail2 (g.mapV f) (full.map (DState.mapVNat f)) = (glueTail2 g full).map (Compiled.mapV f) := by
  unfold glueTail2
  have h3 : simplify (full.map (DState.mapVNat f)) (g.mapV f).entries =
      Except.map (fun p => (p.1.map (DState.mapVTrans f), p.2)) (simplify full g.entries) := simplify_mapV f full g.entries
  refine except_bind_mapV _ _ _ _ _ _ h3 (fun p => ?_)
  rfl

theorem glueTail_mapV (g : GlueState) (dfa : DFA Nat) :
    glueTail (g.mapV f) (dfa.map (DState.mapVNat f)) = (glueTail g dfa).map (Compiled.mapV f) := by
  unfold glueTail
  rw [updateBacktracks_mapV]
  cases updateBacktracks dfa with
  | none => rfl
  | some d => exact glueTail2_mapV f g d

theorem glueFinish_mapV (g : GlueState) : glueFinish (g.mapV f) = (glueFinish g).map (Compiled.mapV f) := by
  unfold glueFinish
  show (match g.initDfa.map (List.map (DState.mapVNat f)) with
      | some d => glueTail (g.mapV f) d
      | none => match nfaToDfa (NFA.mapV f g.unnamed) with
        | some d => glueTail (g.mapV f) d
        | none => throw (CompileError.internal "nfa_to_dfa")) = _
  cases g.initDfa with
  | some d => exact glueTail_mapV f g d
  | none =>
    simp only [Option.map_none, nfaToDfa_mapV]
    cases nfaToDfa g.unnamed with
    | none => rfl
    | some d => exact glueTail_mapV f g d

/-- the pipeline is natural in the action indices -/
theorem compileLexer_mapV (items : LexerDef) :
    compileLexer (mapRhs f items) = (compileLexer items).map (Compiled.mapV f) := by
  rw [compileLexer_eq, compileLexer_eq, mixedRules_mapRhs]
  by_cases hm : mixedRules items = true
  · simp only [hm, if_true]; rfl
  · simp only [hm]
    have h := foldlM_hom (GlueState.mapV f) glueStep (fun x y => glueStep x (TopItem.mapRhs f y)) (fun a x => glueStep_mapV f a x) items {}
    show ((mapRhs f items).foldlM glueStep {} >>= glueFinish) = Except.map _ (items.foldlM glueStep {} >>= glueFinish)
    unfold mapRhs
    rw [List.foldlM_map]
    exact except_bind_mapV _ _ _ _ _ _ h (fun g => glueFinish_mapV f g)
end glue2


/-! ## The theorems -/

section main
variable (f : Nat → Nat)

theorem StMap_of_last_none (st : LState σ) (h : st.last = none) : StMap f st = st := by
  cases st
  simp only at h
  subst h
  rfl

theorem obs_StMap (st : LState σ) : (StMap f st).obs = st.obs := rfl

/-- The action does not look at the index under which it is called (the field `action` of its view). The handle a Rust semantic action receives
does not expose that index, so this holds of every action of an actual lexer; the model's `View` carries the index only as a label. -/
def Action.IndexBlind (a : Action σ τ ε) : Prop := ∀ (v : View σ) (i : Nat), a.run { v with action := i } = a.run v

theorem Action.indexBlind_skip : (Action.skip : Action σ τ ε).IndexBlind := fun _ _ => rfl
theorem Action.indexBlind_simple (t : τ) : (Action.simple t : Action σ τ ε).IndexBlind := fun _ _ => rfl

theorem actsAgree_of_eq (acts acts' : Nat → Action σ τ ε) (h : ∀ k, acts' (f k) = acts k) (hb : ∀ k, (acts k).IndexBlind) :
    ActsAgree f acts acts' := by
  intro k v
  rw [h k, hb k v (f k), hb k v k]

/-- **The generated `next()` uses an accept value only to pick the action**, general form: for ANY lexer state (a saved match holds an accept
value: it is renamed too), the renamed machine with a table `acts'` that agrees with `acts` after the renaming makes the same step. -/
theorem next_mapV_gen (c : Compiled) (acts acts' : Nat → Action σ τ ε) (h : ActsAgree f acts acts') (width : Nat → Nat)
    (input : Option (List Nat)) (st : LState σ) :
    next ((c.mapV f).config acts' width input) (StMap f st) =
      (next (c.config acts width input) st).map fun r => (r.1, StMap f r.2) :=
  next_mapV_cfg f (c.config acts width input) ((c.mapV f).config acts' width input) rfl rfl rfl (inlinedStates_mapV f c.dfa) rfl rfl h st

theorem runN_mapV_gen (c : Compiled) (acts acts' : Nat → Action σ τ ε) (h : ActsAgree f acts acts') (width : Nat → Nat)
    (input : Option (List Nat)) (n : Nat) (st : LState σ) :
    runN ((c.mapV f).config acts' width input) n (StMap f st) =
      ((runN (c.config acts width input) n st).1, StMap f (runN (c.config acts width input) n st).2) :=
  runN_mapV_cfg f (c.config acts width input) ((c.mapV f).config acts' width input) rfl rfl rfl (inlinedStates_mapV f c.dfa) rfl rfl h n st

/-- the generated `next()` uses an accept value only to pick the action -/
theorem next_mapV (c : Compiled) (acts : Nat → Action σ τ ε) (width : Nat → Nat) (input : Option (List Nat)) (st : LState σ)
    (hlast : st.last = none)
    (hidx : ∀ (k : Nat) (v : View σ), (acts (f k)).run { v with action := f k } = (acts (f k)).run { v with action := k }) :
    next ((c.mapV f).config acts width input) st =
      (next (c.config (fun k => acts (f k)) width input) st).map fun r =>
        (r.1, { r.2 with last := r.2.last.map fun s => { s with action := f s.action } }) := by
  have h := next_mapV_gen f c (fun k => acts (f k)) acts hidx width input st
  rw [StMap_of_last_none f st hlast] at h
  exact h

/-- `action_numbering_irrelevant` with the weakest hypothesis on the tables -/
theorem action_numbering_irrelevant_gen (items : LexerDef) (c : Compiled) (hc : compileLexer items = .ok c)
    (acts acts' : Nat → Action σ τ ε) (h : ActsAgree f acts acts')
    (width : Nat → Nat) (input : Option (List Nat)) (user : σ) (chars : List Nat) (n : Nat) :
    compileLexer (mapRhs f items) = .ok (c.mapV f) ∧
    (runN ((c.mapV f).config acts' width input) n (initState user chars)).1 = (runN (c.config acts width input) n (initState user chars)).1 ∧
    (runN ((c.mapV f).config acts' width input) n (initState user chars)).2.obs = (runN (c.config acts width input) n (initState user chars)).2.obs := by
  have hr := runN_mapV_gen f c acts acts' h width input n (initState user chars)
  rw [StMap_of_last_none f (initState user chars) rfl] at hr
  refine ⟨?_, ?_, ?_⟩
  · rw [compileLexer_mapV, hc]; rfl
  · rw [hr]
  · rw [hr]; rfl

/-- **The numbering of the semantic-action table is irrelevant.** If `acts'` after renaming is `acts` (`acts' (f k) = acts k` for every rule index `k`) —
e.g. `f` merges rules whose actions are equal, or permutes the table; `f` need not be injective — the lexer compiled from the renamed definition with
`acts'` returns the same items as the lexer compiled from the original definition with `acts`, after any number of calls, from a fresh lexer, and ends
in the same observable state. (`hblind`: the actions do not read the label `View.action`, which the model sets to the index under which an action is
called — without it the statement is false, see the `example`s below; `action_numbering_irrelevant_gen` has the weakest hypothesis.) -/
theorem action_numbering_irrelevant (items : LexerDef) (c : Compiled) (hc : compileLexer items = .ok c)
    (acts acts' : Nat → Action σ τ ε) (h : ∀ k, acts' (f k) = acts k) (hblind : ∀ k, (acts k).IndexBlind)
    (width : Nat → Nat) (input : Option (List Nat)) (user : σ) (chars : List Nat) (n : Nat) :
    compileLexer (mapRhs f items) = .ok (c.mapV f) ∧
    (runN ((c.mapV f).config acts' width input) n (initState user chars)).1 = (runN (c.config acts width input) n (initState user chars)).1 ∧
    (runN ((c.mapV f).config acts' width input) n (initState user chars)).2.obs = (runN (c.config acts width input) n (initState user chars)).2.obs :=
  action_numbering_irrelevant_gen f items c hc acts acts' (actsAgree_of_eq f acts acts' h hblind) width input user chars n
end main

/-! ## Why the extra hypothesis: the statements as first written are false -/

def cexC : Compiled :=
  { full := [{ initial := true, chars := [(97, 1)] }, { accepting := [{ value := 0, ctx := none }], preds := [0] }]
    entries0 := []
    dfa := [{ initial := true, chars := [(97, .accept [{ value := 0, ctx := none }])] }]
    entries := []
    ctxs := [] }

def cexItems : LexerDef := [.rb (.rule { re := .chr 97, ctx := none, rhs := 0 })]

/-- an action that stores the index under which it was called in the user state -/
def cexActs : Nat → Action Nat Unit Unit := fun _ => .infallible fun v => { user := v.action, res := some () }

theorem cex_compiles : compileLexer cexItems = .ok cexC := by
  have h : inlineVars [] 1 (.chr 97) = .ok (.chr 97) := by rw [inlineVars]
  have hs : compileSingleRule NFA.new { re := .chr 97, ctx := none, rhs := 0 } [] [] =
      (NFA.new.addRegex (.chr 97) none 0 >>= fun nfa => pure (nfa, [])) := by
    unfold compileSingleRule
    show (inlineVars [] 1 (.chr 97) >>= fun re => _) = _
    rw [h]
    rfl
  rw [compileLexer_eq]
  show (List.foldlM glueStep {} cexItems >>= glueFinish) = _
  unfold cexItems
  rw [List.foldlM_cons]
  unfold glueStep
  show ((compileSingleRule NFA.new { re := .chr 97, ctx := none, rhs := 0 } [] [] >>= fun x => _) >>= fun g => _) >>= glueFinish = _
  rw [hs]
  rfl

/-- `next_mapV` as first stated (without `hidx`) is false: the renamed machine calls the action with a view that carries the new index -/
example : ¬ ∀ (f : Nat → Nat) (c : Compiled) (acts : Nat → Action Nat Unit Unit) (width : Nat → Nat) (input : Option (List Nat))
    (st : LState Nat) (_ : st.last = none),
    next ((c.mapV f).config acts width input) st =
      (next (c.config (fun k => acts (f k)) width input) st).map fun r =>
        (r.1, { r.2 with last := r.2.last.map fun s => { s with action := f s.action } }) := by
  intro h
  have h1 := h (fun _ => 1) cexC cexActs (fun _ => 1) none (initState 7 [97]) rfl
  have h2 := congrArg (fun o => o.map (·.2.user)) h1
  simp only [Option.map_map] at h2
  revert h2
  decide

/-- `action_numbering_irrelevant` as first stated (without `hblind`) is false, for the same reason -/
example : ¬ ∀ (f : Nat → Nat) (items : LexerDef) (c : Compiled) (_ : compileLexer items = .ok c)
    (acts acts' : Nat → Action Nat Unit Unit) (_ : ∀ k, acts' (f k) = acts k)
    (width : Nat → Nat) (input : Option (List Nat)) (user : Nat) (chars : List Nat) (n : Nat),
    (runN ((c.mapV f).config acts' width input) n (initState user chars)).2.obs =
      (runN (c.config acts width input) n (initState user chars)).2.obs := by
  intro h
  have h1 := h (fun _ => 1) cexItems cexC cex_compiles cexActs cexActs (fun _ => rfl) (fun _ => 1) none 7 [97] 1
  revert h1
  decide

end Lexgen

/-
`#print axioms` (Lean 4.33.0, `lake build LexgenModel.Proofs.ActionNumbering`):

'Lexgen.compileLexer_mapV' depends on axioms: [propext, Classical.choice, Quot.sound]
'Lexgen.next_mapV' depends on axioms: [propext, Quot.sound]
'Lexgen.action_numbering_irrelevant' depends on axioms: [propext, Classical.choice, Quot.sound]

and for the general forms
'Lexgen.next_mapV_gen' depends on axioms: [propext, Quot.sound]
'Lexgen.action_numbering_irrelevant_gen' depends on axioms: [propext, Classical.choice, Quot.sound]
-/
