import LexgenModel.Spec.WellFormed
import LexgenModel.Proofs.Subset
import LexgenModel.Proofs.CompileLang
/-!
# Structural facts about the DFA the work-list subset construction builds (`BlockOK`)

The loop invariant `BInv` of `Proofs/Subset.lean` forgets the shape of the table of a finished state
(`Done`). Here it is strengthened (`BInv2`) with the table itself (`DTable` w.r.t. `collect nfa S` for
the key `S` of the state) and with the fact that only state 0 is flagged `initial`. From the tables
of all states of the final builder the six fields of `BlockOK` follow.
-/
set_option linter.unusedSimpArgs false
set_option linter.unusedVariables false
namespace Lexgen
namespace BlockShape
open Lexgen.Subset Lexgen.CompileLang

/-! ## only state 0 is `initial` -/

def IO (D : DFA Nat) : Prop := ∀ s, (D.st s).initial = true → s = 0

theorem io_modify {D : DFA Nat} (h : IO D) (d : Nat) (f : DState Nat → DState Nat)
    (hf : ∀ x, (f x).initial = x.initial) : IO (D.modify d f) := by
  intro s hs
  rw [dst_modify] at hs
  by_cases hc : d = s ∧ s < D.length
  · rw [if_pos hc, hf] at hs; exact h s hs
  · rw [if_neg hc] at hs; exact h s hs

theorem io_addPred {D : DFA Nat} (h : IO D) (t p : Nat) : IO (DFA.addPred D t p) :=
  io_modify h t _ (fun _ => rfl)

theorem io_predsFold (d : Nat) (rng : RangeMap Nat) :
    ∀ D : DFA Nat, IO D → IO (rng.foldl (fun dfa r => DFA.addPred dfa r.2.2 d) D) := by
  induction rng with
  | nil => exact fun D h => h
  | cons r rng ih =>
    intro D h
    rw [List.foldl_cons]
    exact ih _ (io_addPred h _ _)

theorem io_stateOf {b : Builder} (h : IO b.dfa) (k : List Nat) : IO (b.stateOf k).1.dfa := by
  intro s hs
  have e : (b.stateOf k).1.dfa.st s = b.dfa.st s := by
    unfold Builder.stateOf
    cases hf : b.stateMap.find? (fun e => e.1 = k) with
    | some e => obtain ⟨k', i⟩ := e; rfl
    | none => exact dst_append_empty _ _
  rw [e] at hs
  exact h s hs

theorem io_link {b : Builder} (h : IO b.dfa) (d : Nat) (k : List Nat) (upd : Nat → DState Nat → DState Nat)
    (hupd : ∀ t x, (upd t x).initial = x.initial) : IO (link b d k upd).dfa :=
  io_addPred (io_modify (io_stateOf h k) d _ (hupd _)) _ _

theorem io_charFold (nfa : NFA) (col : Collected) (d : Nat) (l : List (Nat × List Nat)) :
    ∀ acc : Builder × List (List Nat), IO acc.1.dfa → IO (l.foldl (charStep nfa col d) acc).1.dfa := by
  induction l with
  | nil => exact fun acc h => h
  | cons e l ih =>
    intro acc h
    rw [List.foldl_cons]
    apply ih
    exact io_link h d _ _ (fun t x => rfl)

theorem io_rangeFold (nfa : NFA) (col : Collected) (l : RangeMap (List Nat)) :
    ∀ acc : Builder × List (List Nat) × RangeMap Nat, IO acc.1.dfa →
      IO (l.foldl (rangeStep nfa col) acc).1.dfa := by
  induction l with
  | nil => exact fun acc h => h
  | cons r l ih =>
    intro acc h
    rw [List.foldl_cons]
    apply ih
    exact io_stateOf h _

theorem io_optStep (nfa : NFA) (d : Nat) (tg : List Nat) (upd : Nat → DState Nat → DState Nat)
    (hupd : ∀ t x, (upd t x).initial = x.initial) (acc : Builder × List (List Nat)) (h : IO acc.1.dfa) :
    IO (optStep nfa d tg upd acc).1.dfa := by
  unfold optStep
  by_cases hc : (nfa.closure tg).isEmpty = true
  · rw [if_pos hc]; exact h
  · rw [if_neg hc]; exact io_link h d _ _ hupd

theorem io_expand (nfa : NFA) (b : Builder) (d : Nat) (cur : List Nat) (h : IO b.dfa) :
    IO (expandState nfa b d cur).1.dfa := by
  rw [expandState_eqC]
  generalize collect nfa cur = col
  unfold expandC
  have h1 : IO (st1 b d col).dfa := io_modify h d _ (fun _ => rfl)
  have h2 : IO (st2 nfa col d (st1 b d col)).1.dfa := io_charFold nfa col d col.chars (_, []) h1
  have h3 : IO (st3 nfa col (st2 nfa col d (st1 b d col))).1.dfa :=
    io_rangeFold nfa col col.ranges (_, _, []) h2
  have h4 : IO (st4 d (st3 nfa col (st2 nfa col d (st1 b d col)))).dfa :=
    io_modify (io_predsFold d _ _ h3) d _ (fun _ => rfl)
  have h5 := io_optStep nfa d col.any (fun t st => { st with any := some t }) (fun _ _ => rfl)
    (st4 d (st3 nfa col (st2 nfa col d (st1 b d col))), (st3 nfa col (st2 nfa col d (st1 b d col))).2.1) h4
  exact io_optStep nfa d col.eoi (fun t st => { st with eoi := some t }) (fun _ _ => rfl) _ h5

/-! ## the strengthened loop invariant -/

theorem dtable_congr {nfa : NFA} {col : Collected} {sm sm' : List (List Nat × Nat)} {st st' : DState Nat}
    (h : DTable nfa col sm st) (ht : TEq st' st) (hs : ∀ e ∈ sm, e ∈ sm') : DTable nfa col sm' st' := by
  refine ⟨?_, ?_, ?_, ?_, ht.acc.trans h.acc⟩
  · rw [ht.chars]; exact h.chars.imp (fun a q _ hr => ⟨hr.1, hs _ hr.2⟩)
  · rw [ht.ranges]; exact h.ranges.imp (fun a q _ hr => ⟨hr.1, hr.2.1, hs _ hr.2.2⟩)
  · rw [ht.any]; exact h.any.mono hs
  · rw [ht.eoi]; exact h.eoi.mono hs

structure BInv2 (nfa : NFA) (b : Builder) (finished : List Nat) (wl : List (List Nat)) : Prop where
  base : BInv nfa b finished wl
  tab : ∀ S i, (S, i) ∈ b.stateMap → i ∈ finished →
    DTable nfa (collect nfa S) b.stateMap (b.dfa.st i)
  io : IO b.dfa

theorem binv2_stateOf {nfa : NFA} {b : Builder} {finished : List Nat} {cur : List Nat} {wl : List (List Nat)}
    (h : BInv2 nfa b finished (cur :: wl)) :
    BInv2 nfa (b.stateOf cur).1 finished (cur :: wl) ∧ (cur, (b.stateOf cur).2) ∈ (b.stateOf cur).1.stateMap := by
  obtain ⟨hb, hkey⟩ := binv_stateOf h.base
  obtain ⟨s1, s2, s3, s4, s5, s6⟩ := stateOf_spec b cur h.base.wf
  refine ⟨⟨hb, fun S i he hi => ?_, io_stateOf h.io cur⟩, hkey⟩
  have hold := old_entry h.base.wf s1 s2 (h.base.finlt i hi) he
  exact dtable_congr (h.tab S i hold hi) (TEq.of_eq (s5 i)) s2

theorem binv2_skip {nfa : NFA} {b : Builder} {finished : List Nat} {cur : List Nat} {wl : List (List Nat)}
    (h : BInv2 nfa b finished (cur :: wl)) {d : Nat} (hd : (cur, d) ∈ b.stateMap) (hfin : d ∈ finished) :
    BInv2 nfa b finished wl :=
  ⟨binv_skip h.base hd hfin, h.tab, h.io⟩

theorem binv2_expand {nfa : NFA} (hwf : NFAWF nfa) (hne : TargetsNonempty nfa) {b : Builder}
    {finished : List Nat} {cur : List Nat} {wl : List (List Nat)}
    (h : BInv2 nfa b finished (cur :: wl)) {d : Nat} (hd : (cur, d) ∈ b.stateMap) (hfin : d ∉ finished) :
    BInv2 nfa (expandState nfa b d cur).1 (d :: finished) ((expandState nfa b d cur).2 ++ wl) := by
  have hdl : d < b.dfa.length := wfb_idx_lt h.base.wf hd
  obtain ⟨hm, ht⟩ := expand_spec hwf hne b d cur h.base.wf hdl (h.base.unfin d hfin)
  refine ⟨binv_expand hwf hne h.base hd hfin, fun S i he hi => ?_, io_expand nfa b d cur h.io⟩
  rcases List.mem_cons.mp hi with h1 | h1
  · subst h1
    have : S = cur := wfb_idx_inj hm.wf he (hm.old _ hd)
    subst this
    exact ht
  · have hne' : i ≠ d := fun hid => hfin (hid ▸ h1)
    have hold := old_entry h.base.wf hm.wf hm.old (h.base.finlt i h1) he
    exact dtable_congr (h.tab S i hold h1) (hm.other i hne') hm.old

theorem loop_spec2 {nfa : NFA} (hwf : NFAWF nfa) (hne : TargetsNonempty nfa) :
    ∀ (fuel : Nat) (wl : List (List Nat)) (finished : List Nat) (b bf : Builder),
      nfaToDfaLoop nfa fuel wl finished b = some bf → BInv2 nfa b finished wl →
      ∃ fin', BInv2 nfa bf fin' [] := by
  intro fuel
  induction fuel with
  | zero =>
    intro wl finished b bf h hinv
    cases wl with
    | nil => simp only [nfaToDfaLoop] at h; cases h; exact ⟨finished, hinv⟩
    | cons cur wl => simp [nfaToDfaLoop] at h
  | succ fuel ih =>
    intro wl finished b bf h hinv
    cases wl with
    | nil => simp only [nfaToDfaLoop] at h; cases h; exact ⟨finished, hinv⟩
    | cons cur wl =>
      rw [loop_cons] at h
      obtain ⟨hinv1, hkey⟩ := binv2_stateOf hinv
      by_cases hc : (b.stateOf cur).2 ∈ finished
      · rw [if_pos (List.contains_iff_mem.mpr hc)] at h
        exact ih _ _ _ _ h (binv2_skip hinv1 hkey hc)
      · rw [if_neg (fun hh => hc (List.contains_iff_mem.mp hh))] at h
        exact ih _ _ _ _ h (binv2_expand hwf hne hinv1 hkey hc)

theorem binv2_init {nfa : NFA} (hwf : NFAWF nfa) :
    BInv2 nfa { dfa := [{ (DState.empty : DState Nat) with initial := true }],
                stateMap := [(nfa.closure [0], 0)] } [] [nfa.closure [0]] := by
  refine ⟨binv_init hwf, fun S i _ hi => (by cases hi), ?_⟩
  intro s hs
  cases s with
  | zero => rfl
  | succ k => simp [DFA.st, DState.empty] at hs

/-- what is known about the builder when the loop has ended: every state has its table -/
structure Final (nfa : NFA) (b : Builder) : Prop where
  wf : WFB b
  zero : (nfa.closure [0], 0) ∈ b.stateMap
  keys : ∀ e ∈ b.stateMap, KeyOK e.1
  tab : ∀ S i, (S, i) ∈ b.stateMap → DTable nfa (collect nfa S) b.stateMap (b.dfa.st i)
  io : IO b.dfa

theorem final_of_loop {nfa : NFA} (hwf : NFAWF nfa) (hne : TargetsNonempty nfa) {bf : Builder}
    (h : nfaToDfaLoop nfa (nfaToDfaFuel nfa) [nfa.closure [0]] []
      { dfa := [{ (DState.empty : DState Nat) with initial := true }],
        stateMap := [(nfa.closure [0], 0)] } = some bf) : Final nfa bf := by
  obtain ⟨fin', hinv⟩ := loop_spec2 hwf hne _ _ _ _ _ h (binv2_init hwf)
  have hallfin : ∀ S i, (S, i) ∈ bf.stateMap → i ∈ fin' := by
    intro S i he
    by_cases hi : i ∈ fin'
    · exact hi
    · cases hinv.base.pending S i he hi
  exact ⟨hinv.base.wf, hinv.base.zero, hinv.base.keys, fun S i he => hinv.tab S i he (hallfin S i he), hinv.io⟩

/-! ## keys of the successors of a state -/

/-- `t` is the target of some non-ε transition of the NFA -/
def IsTgt (n : NFA) (t : Nat) : Prop :=
  ∃ s, t ∈ (n.st s).any ∨ t ∈ (n.st s).eoi ∨ (∃ e ∈ (n.st s).chars, t ∈ e.2) ∨
    (∃ r ∈ (n.st s).ranges, t ∈ r.2.2)

theorem tgt_any {nfa : NFA} {S : List Nat} {col : Collected} (hcs : ColSpec nfa S col) {t : Nat}
    (h : t ∈ col.any) : IsTgt nfa t := by
  obtain ⟨s, _, hs⟩ := (hcs.any t).mp h
  exact ⟨s, Or.inl hs⟩

theorem tgt_eoi {nfa : NFA} {S : List Nat} {col : Collected} (hcs : ColSpec nfa S col) {t : Nat}
    (h : t ∈ col.eoi) : IsTgt nfa t := by
  obtain ⟨s, _, hs⟩ := (hcs.eoi t).mp h
  exact ⟨s, Or.inr (Or.inl hs)⟩

theorem tgt_chars {nfa : NFA} {S : List Nat} {col : Collected} (hcs : ColSpec nfa S col)
    {e : Nat × List Nat} (he : e ∈ col.chars) {t : Nat} (h : t ∈ e.2) : IsTgt nfa t := by
  have hl := lookupChar_of_mem hcs.cwf he
  obtain ⟨s, _, tg, h1, h2⟩ := (hcs.cmem e.1 t).mp ⟨e.2, hl, h⟩
  exact ⟨s, Or.inr (Or.inr (Or.inl ⟨_, h1, h2⟩))⟩

theorem tgt_cov {nfa : NFA} {S : List Nat} {col : Collected} (hcs : ColSpec nfa S col)
    {r : Nat × Nat × List Nat} (hr : r ∈ col.ranges) {t : Nat} (h : t ∈ r.2.2) : IsTgt nfa t := by
  have hle := (wf_le hcs.rwf r hr).2
  have hl := lookup_of_mem hcs.rwf hr (Nat.le_refl _) hle
  obtain ⟨s, _, r', h1, _, _, h2⟩ := (hcs.rmem r.1 t).mp ⟨r.2.2, hl, h⟩
  exact ⟨s, Or.inr (Or.inr (Or.inr ⟨r', h1, h2⟩))⟩

theorem tgt_ctg {nfa : NFA} {S : List Nat} {col : Collected} (hcs : ColSpec nfa S col)
    {e : Nat × List Nat} (he : e ∈ col.chars) {t : Nat} (h : t ∈ ctg col e) : IsTgt nfa t := by
  rcases (mem_ctg col e t).mp h with h1 | ⟨r, hr, _, _, h1⟩ | h1
  · exact tgt_chars hcs he h1
  · exact tgt_cov hcs hr h1
  · exact tgt_any hcs h1

theorem tgt_rng {nfa : NFA} {S : List Nat} {col : Collected} (hcs : ColSpec nfa S col)
    {r : Nat × Nat × List Nat} (hr : r ∈ col.ranges) {t : Nat} (h : t ∈ setUnion r.2.2 col.any) :
    IsTgt nfa t := by
  rcases mem_setUnion.mp h with h1 | h1
  · exact tgt_cov hcs hr h1
  · exact tgt_any hcs h1

/-- the key of a successor is the closure of a set of transition targets -/
theorem succ_key {nfa : NFA} {S : List Nat} {col : Collected} (hcs : ColSpec nfa S col)
    {sm : List (List Nat × Nat)} {st : DState Nat} (ht : DTable nfa col sm st) {t : Nat}
    (hmem : t ∈ DFA.succs st) : ∃ M : List Nat, (∀ m ∈ M, IsTgt nfa m) ∧ (nfa.closure M, t) ∈ sm := by
  unfold DFA.succs at hmem
  simp only [List.mem_append, List.mem_map] at hmem
  rcases hmem with ((⟨q, hq, rfl⟩ | ⟨q, hq, rfl⟩) | h) | h
  · obtain ⟨e, he, hr⟩ := ht.chars.mem_right hq
    exact ⟨_, fun m hm => tgt_ctg hcs he hm, hr.2⟩
  · obtain ⟨r, hr, hrr⟩ := ht.ranges.mem_right hq
    exact ⟨_, fun m hm => tgt_rng hcs hr hm, hrr.2.2⟩
  · rcases ht.any with ⟨_, h2⟩ | ⟨_, t', h2, h3⟩
    · rw [h2] at h; cases h
    · rw [h2] at h
      simp only [Option.toList, List.mem_singleton] at h
      subst h; exact ⟨_, fun m hm => tgt_any hcs hm, h3⟩
  · rcases ht.eoi with ⟨_, h2⟩ | ⟨_, t', h2, h3⟩
    · rw [h2] at h; cases h
    · rw [h2] at h
      simp only [Option.toList, List.mem_singleton] at h
      subst h; exact ⟨_, fun m hm => tgt_eoi hcs hm, h3⟩

/-! ## nothing leads back to state 0 -/

theorem noIncoming0_all {n : NFA} (h0 : NoIncoming0 n) (s : Nat) :
    0 ∉ (n.st s).eps ∧ 0 ∉ (n.st s).any ∧ 0 ∉ (n.st s).eoi ∧
    (∀ e ∈ (n.st s).chars, 0 ∉ e.2) ∧ (∀ r ∈ (n.st s).ranges, 0 ∉ r.2.2) := by
  by_cases hs : s < n.length
  · exact h0 s hs
  · rw [st_eq_empty_of_le (Nat.le_of_not_lt hs)]
    refine ⟨fun h => (by cases h), fun h => (by cases h), fun h => (by cases h),
      fun e he => (by cases he), fun r hr => (by cases hr)⟩

theorem not_tgt_zero {n : NFA} (h0 : NoIncoming0 n) : ¬ IsTgt n 0 := by
  rintro ⟨s, h | h | ⟨e, he, h⟩ | ⟨r, hr, h⟩⟩
  · exact (noIncoming0_all h0 s).2.1 h
  · exact (noIncoming0_all h0 s).2.2.1 h
  · exact (noIncoming0_all h0 s).2.2.2.1 e he h
  · exact (noIncoming0_all h0 s).2.2.2.2 r hr h

theorem epsReach_zero {n : NFA} (h0 : NoIncoming0 n) {m u : Nat} (h : EpsReach n m u) (hu : u = 0) :
    m = 0 := by
  induction h with
  | refl => exact hu
  | step he _ ih =>
    have := ih hu
    subst this
    exact absurd he (noIncoming0_all h0 _).1

theorem zero_not_in_closure {n : NFA} (hwf : NFAWF n) (h0 : NoIncoming0 n) {M : List Nat}
    (hM : ∀ m ∈ M, IsTgt n m) : 0 ∉ n.closure M := by
  intro h
  obtain ⟨m, hm, hr⟩ := (mem_closure hwf).mp h
  have := epsReach_zero h0 hr rfl
  subst this
  exact not_tgt_zero h0 (hM _ hm)

theorem final_noInto0 {nfa : NFA} (hwf : NFAWF nfa) (h0 : NoIncoming0 nfa) {b : Builder} (hf : Final nfa b)
    (s : Nat) (hs : s < b.dfa.length) : 0 ∉ DFA.succs (b.dfa.st s) := by
  intro hmem
  obtain ⟨S, hS⟩ := wfb_has_key hf.wf hs
  obtain ⟨M, hM, hk⟩ := succ_key (collect_spec hwf S) (hf.tab S s hS) hmem
  have heq : nfa.closure M = nfa.closure [0] := wfb_idx_inj hf.wf hk hf.zero
  have h00 : 0 ∈ nfa.closure [0] := (mem_closure hwf).mpr ⟨0, List.mem_singleton.mpr rfl, .refl 0⟩
  rw [← heq] at h00
  exact zero_not_in_closure hwf h0 hM h00

/-! ## states without transitions -/

/-- no member of `S` has a char / range / any / end-of-input transition -/
def Quiet (nfa : NFA) (S : List Nat) : Prop :=
  ∀ s ∈ S, (nfa.st s).chars = [] ∧ (nfa.st s).ranges = [] ∧ (nfa.st s).any = [] ∧ (nfa.st s).eoi = []

theorem Quiet.sub {nfa : NFA} {S T : List Nat} (h : Quiet nfa T) (hs : ∀ s ∈ S, s ∈ T) : Quiet nfa S :=
  fun s hsS => h s (hs s hsS)

theorem rel₂_nil_right {α β : Type} {R : α → β → Prop} {l : List α} (h : Rel₂ R l []) : l = [] := by
  cases h; rfl

theorem rel₂_nil_left {α β : Type} {R : α → β → Prop} {m : List β} (h : Rel₂ R [] m) : m = [] := by
  cases h; rfl

theorem quiet_col {nfa : NFA} {S : List Nat} {col : Collected} (hcs : ColSpec nfa S col)
    (hq : Quiet nfa S) : col.chars = [] ∧ col.ranges = [] ∧ col.any = [] ∧ col.eoi = [] := by
  refine ⟨?_, ?_, ?_, ?_⟩
  · cases hc : col.chars with
    | nil => rfl
    | cons e l =>
      have he : e ∈ col.chars := by rw [hc]; exact List.mem_cons_self
      have hl := lookupChar_of_mem hcs.cwf he
      have hsome : (lookupChar col.chars e.1).isSome = true := by rw [hl]; rfl
      obtain ⟨s, hs, e', he', _⟩ := (hcs.csome e.1).mp hsome
      rw [(hq s hs).1] at he'; cases he'
  · cases hc : col.ranges with
    | nil => rfl
    | cons r l =>
      have hr : r ∈ col.ranges := by rw [hc]; exact List.mem_cons_self
      have hle := (wf_le hcs.rwf r hr).2
      have hl := lookup_of_mem hcs.rwf hr (Nat.le_refl _) hle
      have hsome : (RangeMap.lookup col.ranges r.1).isSome = true := by rw [hl]; rfl
      obtain ⟨s, hs, r', hr', _⟩ := (hcs.rsome r.1).mp hsome
      rw [(hq s hs).2.1] at hr'; cases hr'
  · cases hc : col.any with
    | nil => rfl
    | cons t l =>
      have ht : t ∈ col.any := by rw [hc]; exact List.mem_cons_self
      obtain ⟨s, hs, h⟩ := (hcs.any t).mp ht
      rw [(hq s hs).2.2.1] at h; cases h
  · cases hc : col.eoi with
    | nil => rfl
    | cons t l =>
      have ht : t ∈ col.eoi := by rw [hc]; exact List.mem_cons_self
      obtain ⟨s, hs, h⟩ := (hcs.eoi t).mp ht
      rw [(hq s hs).2.2.2] at h; cases h

theorem optOK_nil {nfa : NFA} {sm : List (List Nat × Nat)} {o : Option Nat} (h : OptOK nfa sm [] o) :
    o = none := by
  rcases h with h | ⟨h1, _⟩
  · exact h.2
  · exact absurd (closure_nil nfa) h1

theorem hasNoTransitions_iff (st : DState Nat) :
    DFA.hasNoTransitions st = true ↔ st.chars = [] ∧ st.ranges = [] ∧ st.any = none ∧ st.eoi = none := by
  unfold DFA.hasNoTransitions
  simp only [Bool.and_eq_true, List.isEmpty_iff, Option.isNone_iff_eq_none, and_assoc]

/-- a state whose key is quiet has no transitions -/
theorem quiet_table {nfa : NFA} {S : List Nat} {col : Collected} (hcs : ColSpec nfa S col)
    (hq : Quiet nfa S) {sm : List (List Nat × Nat)} {st : DState Nat} (ht : DTable nfa col sm st) :
    DFA.hasNoTransitions st = true := by
  obtain ⟨c1, c2, c3, c4⟩ := quiet_col hcs hq
  rw [hasNoTransitions_iff]
  refine ⟨?_, ?_, ?_, ?_⟩
  · have := ht.chars; rw [c1] at this; exact rel₂_nil_left this
  · have := ht.ranges; rw [c2] at this; exact rel₂_nil_left this
  · have := ht.any; rw [c3] at this; exact optOK_nil this
  · have := ht.eoi; rw [c4] at this; exact optOK_nil this

theorem optOK_none {nfa : NFA} (hwf : NFAWF nfa) {sm : List (List Nat × Nat)} {tg : List Nat}
    (h : OptOK nfa sm tg none) : tg = [] := by
  rcases h with h | ⟨_, t, h2, _⟩
  · exact closure_eq_nil hwf h.1
  · cases h2

/-- a state without transitions has a quiet key -/
theorem table_quiet {nfa : NFA} (hwf : NFAWF nfa) {S : List Nat} {col : Collected} (hcs : ColSpec nfa S col)
    {sm : List (List Nat × Nat)} {st : DState Nat} (ht : DTable nfa col sm st)
    (hn : DFA.hasNoTransitions st = true) : Quiet nfa S := by
  obtain ⟨n1, n2, n3, n4⟩ := (hasNoTransitions_iff st).mp hn
  have c1 : col.chars = [] := by have := ht.chars; rw [n1] at this; exact rel₂_nil_right this
  have c2 : col.ranges = [] := by have := ht.ranges; rw [n2] at this; exact rel₂_nil_right this
  have c3 : col.any = [] := by have := ht.any; rw [n3] at this; exact optOK_none hwf this
  have c4 : col.eoi = [] := by have := ht.eoi; rw [n4] at this; exact optOK_none hwf this
  intro s hs
  refine ⟨?_, ?_, ?_, ?_⟩
  · apply List.eq_nil_iff_forall_not_mem.mpr
    intro e he
    have := (hcs.csome e.1).mpr ⟨s, hs, e, he, rfl⟩
    rw [c1] at this; cases this
  · apply List.eq_nil_iff_forall_not_mem.mpr
    intro r hr
    have hle := (wf_le (ranges_wf_all hwf s) r hr).2
    have := (hcs.rsome r.1).mpr ⟨s, hs, r, hr, Nat.le_refl _, hle⟩
    rw [c2] at this; cases this
  · apply List.eq_nil_iff_forall_not_mem.mpr
    intro t htm
    have := (hcs.any t).mpr ⟨s, hs, htm⟩
    rw [c3] at this; cases this
  · apply List.eq_nil_iff_forall_not_mem.mpr
    intro t htm
    have := (hcs.eoi t).mpr ⟨s, hs, htm⟩
    rw [c4] at this; cases this

/-! ## end-of-input targets -/

theorem epsReach_virgin {n : NFA} {m u : Nat} (hv : NFA.virgin n m) (h : EpsReach n m u) : u = m := by
  cases h with
  | refl => rfl
  | step he _ => rw [hv.2.2.1] at he; cases he

theorem eoi_virgin {n : NFA} (he : EoiInert n) {s t : Nat} (h : t ∈ (n.st s).eoi) : NFA.virgin n t := by
  by_cases hs : s < n.length
  · exact he s t hs h
  · rw [st_eq_empty_of_le (Nat.le_of_not_lt hs)] at h; cases h

theorem final_eoiInert {nfa : NFA} (hwf : NFAWF nfa) (he : EoiInert nfa) {b : Builder} (hf : Final nfa b)
    (s t : Nat) (hs : s < b.dfa.length) (h : (b.dfa.st s).eoi = some t) :
    DFA.hasNoTransitions (b.dfa.st t) = true := by
  obtain ⟨S, hS⟩ := wfb_has_key hf.wf hs
  have hcs := collect_spec hwf S
  have hk : (nfa.closure (collect nfa S).eoi, t) ∈ b.stateMap := by
    rcases (hf.tab S s hS).eoi with ⟨_, h2⟩ | ⟨_, t', h2, h3⟩
    · rw [h2] at h; cases h
    · rw [h2] at h; cases h; exact h3
  have hq : Quiet nfa (nfa.closure (collect nfa S).eoi) := by
    intro u hu
    obtain ⟨m, hm, hr⟩ := (mem_closure hwf).mp hu
    obtain ⟨s', _, hs'⟩ := (hcs.eoi m).mp hm
    have hv := eoi_virgin he hs'
    have := epsReach_virgin hv hr
    subst this
    exact ⟨hv.1, hv.2.1, hv.2.2.2.1, hv.2.2.2.2⟩
  exact quiet_table (collect_spec hwf _) hq (hf.tab _ t hk)

/-! ## sub-lists -/

theorem sublist_of_ascending : ∀ (B A : List Nat), Ascending A → Ascending B → (∀ x ∈ A, x ∈ B) →
    List.Sublist A B := by
  intro B
  induction B with
  | nil =>
    intro A _ _ h
    have : A = [] := List.eq_nil_iff_forall_not_mem.mpr (fun x hx => by cases h x hx)
    rw [this]; exact List.Sublist.slnil
  | cons b B ih =>
    intro A hA hB h
    cases A with
    | nil => exact List.nil_sublist _
    | cons a A =>
      obtain ⟨ha, hA'⟩ := ascending_cons.mp hA
      obtain ⟨hb, hB'⟩ := ascending_cons.mp hB
      by_cases hab : a = b
      · subst hab
        refine List.Sublist.cons_cons _ (ih A hA' hB' (fun x hx => ?_))
        rcases List.mem_cons.mp (h x (List.mem_cons_of_mem _ hx)) with h1 | h1
        · have := ha x hx; omega
        · exact h1
      · have haB : a ∈ B := by
          rcases List.mem_cons.mp (h a List.mem_cons_self) with h1 | h1
          · exact absurd h1 hab
          · exact h1
        have hba : b < a := hb a haB
        refine List.Sublist.cons _ (ih (a :: A) hA hB' (fun x hx => ?_))
        rcases List.mem_cons.mp (h x hx) with h1 | h1
        · rcases List.mem_cons.mp hx with h2 | h2
          · omega
          · have := ha x h2; omega
        · exact h1

theorem isSublist_of_sublist : ∀ (l2 l1 : List Acc), List.Sublist l1 l2 → isSublist l1 l2 = true := by
  intro l2
  induction l2 with
  | nil =>
    intro l1 h
    have : l1 = [] := List.sublist_nil.mp h
    rw [this]; rfl
  | cons b bs ih =>
    intro l1 h
    cases l1 with
    | nil => rfl
    | cons a as =>
      simp only [isSublist]
      by_cases hab : a = b
      · subst hab
        simp only [beq_self_eq_true, if_true]
        exact ih as (List.cons_sublist_cons.mp h)
      · have hne : (a == b) = false := by simpa using hab
        simp only [hne]
        rcases List.sublist_cons_iff.mp h with h1 | ⟨r, h1, _⟩
        · exact ih _ h1
        · cases h1; exact absurd rfl hab

/-! ## the `_` transition against char / range transitions -/

theorem final_anyClause {nfa : NFA} (hwf : NFAWF nfa) {b : Builder} (hf : Final nfa b)
    (s a : Nat) (hs : s < b.dfa.length) (ha : (b.dfa.st s).any = some a) (t : Nat)
    (ht : t ∈ (b.dfa.st s).chars.map (·.2) ∨ t ∈ (b.dfa.st s).ranges.map (·.2.2))
    (hn : DFA.hasNoTransitions (b.dfa.st t) = true) :
    DFA.hasNoTransitions (b.dfa.st a) = true ∧
      isSublist (b.dfa.st a).accepting (b.dfa.st t).accepting = true := by
  obtain ⟨S, hS⟩ := wfb_has_key hf.wf hs
  have hcs := collect_spec hwf S
  have htab := hf.tab S s hS
  generalize collect nfa S = col at hcs htab
  -- the key of the `_` target
  have hka : (nfa.closure col.any, a) ∈ b.stateMap := by
    rcases htab.any with ⟨_, h2⟩ | ⟨_, t', h2, h3⟩
    · rw [h2] at ha; cases ha
    · rw [h2] at ha; cases ha; exact h3
  -- the key of the char / range target contains the `_` targets
  have hkt : ∃ M : List Nat, (∀ m ∈ col.any, m ∈ M) ∧ (nfa.closure M, t) ∈ b.stateMap := by
    rcases ht with ht | ht
    · obtain ⟨q, hq, rfl⟩ := List.mem_map.mp ht
      obtain ⟨e, he, hr⟩ := htab.chars.mem_right hq
      exact ⟨_, fun m hm => (mem_ctg col e m).mpr (Or.inr (Or.inr hm)), hr.2⟩
    · obtain ⟨q, hq, rfl⟩ := List.mem_map.mp ht
      obtain ⟨r, hr, hrr⟩ := htab.ranges.mem_right hq
      exact ⟨_, fun m hm => mem_setUnion.mpr (Or.inr hm), hrr.2.2⟩
  obtain ⟨M, hM, hkt⟩ := hkt
  have hsub : ∀ u ∈ nfa.closure col.any, u ∈ nfa.closure M := by
    intro u hu
    obtain ⟨m, hm, hr⟩ := (mem_closure hwf).mp hu
    exact (mem_closure hwf).mpr ⟨m, hM m hm, hr⟩
  have hta := hf.tab _ a hka
  have htt := hf.tab _ t hkt
  have hqt : Quiet nfa (nfa.closure M) := table_quiet hwf (collect_spec hwf _) htt hn
  refine ⟨quiet_table (collect_spec hwf _) (hqt.sub hsub) hta, ?_⟩
  rw [hta.acc, htt.acc, (collect_spec hwf (nfa.closure col.any)).accs, (collect_spec hwf (nfa.closure M)).accs]
  apply isSublist_of_sublist
  exact (sublist_of_ascending _ _ (ascending_closure hwf _) (ascending_closure hwf _) hsub).filterMap _

end BlockShape

open Lexgen.Subset in
/-- structural facts about the DFA the work-list subset construction builds (beyond the language it accepts) -/
theorem blockOK_of_nfa (nfa : NFA) (hwf : NFAWF nfa) (hne : Subset.TargetsNonempty nfa)
    (h0 : NoIncoming0 nfa) (he : EoiInert nfa) (d : DFA Nat) (hd : nfaToDfa nfa = some d) : BlockOK d := by
  obtain ⟨htir, hinit⟩ := CompileLang.nfaToDfa_ok nfa d hd
  unfold nfaToDfa at hd
  simp only [Option.map_eq_some_iff] at hd
  obtain ⟨bf, hloop, rfl⟩ := hd
  have hf := BlockShape.final_of_loop hwf hne hloop
  exact ⟨htir, ⟨CompileLang.st_initial_lt hinit, hinit⟩, hf.io,
    BlockShape.final_noInto0 hwf h0 hf, BlockShape.final_eoiInert hwf he hf,
    BlockShape.final_anyClause hwf hf⟩

end Lexgen
