import LexgenModel.Spec.WellFormed
import LexgenModel.Proofs.CompileLang
/-!
# Machine-level matches are language-level matches

For a machine whose automaton realises the rules of a rule set from entry `e` (`RealisesRules`, what
`compileLexer_lang` establishes for the model of `lexer()`) and whose right-context functions decide
the context languages, the declarative reading of the machine (`Cand`) coincides with the reading of
the definition itself (`LangCand`: regex denotations, rule order, right contexts as languages).
-/
namespace Lexgen
variable {σ τ ε : Type}

theorem mem_matchingAccs {rules : List CoreRule} {w : List Sym} {a : Acc} (h : a ∈ matchingAccs rules w) :
    ∃ r ∈ rules, a = { value := r.value, ctx := r.ctx } := by
  unfold matchingAccs at h
  obtain ⟨r, hr, rfl⟩ := List.mem_map.mp h
  exact ⟨r, (List.mem_filter.mp hr).1, rfl⟩

/-- the generated `if ctx_i(..)` chain picks the same entry as the language-level reading when every
context function involved decides its context language -/
theorem firstOK_eq_firstLang (cfg : Config σ τ ε) (ctxAt : Nat → Regex) (rest : List Nat) :
    ∀ accs : List Acc,
      (∀ a ∈ accs, ∀ i, a.ctx = some i → (ctxOK cfg i rest = true ↔ CtxLang (ctxAt i) rest)) →
      firstOK (fun i => ctxOK cfg i rest) accs = firstLang ctxAt rest accs := by
  intro accs
  induction accs with
  | nil => intro _; rfl
  | cons a more ih =>
    intro h
    unfold firstOK firstLang
    cases hc : a.ctx with
    | none => rfl
    | some i =>
      have hi := h a List.mem_cons_self i hc
      have ih' := ih (fun b hb => h b (List.mem_cons_of_mem _ hb))
      by_cases hok : ctxOK cfg i rest = true
      · simp only [hok, if_true, hi.mp hok]
      · have hno : ¬ CtxLang (ctxAt i) rest := fun hl => hok (hi.mpr hl)
        simp only [hok, hno, if_false, Bool.false_eq_true]
        exact ih'

theorem firstLang_nil (ctxAt : Nat → Regex) (rest : List Nat) : firstLang ctxAt rest [] = none := rfl

/-- `Cand` (matches of the machine) = `LangCand` (matches of the definition). -/
theorem cand_iff_langCand (cfg : Config σ τ ε) (e : Nat) (rules : List CoreRule) (ctxAt : Nat → Regex)
    (hreal : RealisesRules cfg.dfa e rules)
    (hctx : ∀ r ∈ rules, ∀ i, r.ctx = some i → ∀ rest, (ctxOK cfg i rest = true ↔ CtxLang (ctxAt i) rest))
    (heoi : ∀ s t, (cfg.dfa.st s).eoi ≠ some (.goto t))
    (iter : List Nat) (k a : Nat) (viaEoi : Bool) :
    Cand cfg e iter k a viaEoi ↔ LangCand rules ctxAt iter k a viaEoi := by
  have hfirst : ∀ (w : List Sym) (rest : List Nat),
      firstOK (fun i => ctxOK cfg i rest) (matchingAccs rules w) = firstLang ctxAt rest (matchingAccs rules w) := by
    intro w rest
    apply firstOK_eq_firstLang
    intro a ha i hi
    obtain ⟨r, hr, rfl⟩ := mem_matchingAccs ha
    exact hctx r hr i hi rest
  unfold Cand LangCand
  cases viaEoi with
  | false =>
    simp only [Bool.false_eq_true, if_false]
    have hw := hreal (iter.take k)
    constructor
    · rintro ⟨hk, c, hc, hsel⟩
      refine ⟨hk, ?_⟩
      rw [hc] at hw
      unfold selAt at hsel
      rw [hw.1, hfirst] at hsel
      exact hsel
    · rintro ⟨hk, hsel⟩
      refine ⟨hk, ?_⟩
      cases hc : reach cfg.dfa (.st e) (iter.take k) with
      | none =>
        rw [hc] at hw
        rw [hw.1, firstLang_nil] at hsel
        cases hsel
      | some c =>
        rw [hc] at hw
        refine ⟨c, rfl, ?_⟩
        unfold selAt
        rw [hw.1, hfirst]
        exact hsel
  | true =>
    simp only [if_true]
    constructor
    · rintro ⟨hk, c, hc, hkl, t, accs, hct, he, hsel⟩
      refine ⟨hk, hkl, ?_⟩
      have hw := hreal iter
      have htake : iter.take k = iter := by rw [hkl]; exact List.take_length
      rw [htake] at hc
      rw [hc] at hw
      subst hct
      have heo : Auto.eoi cfg.dfa (Cfg.st t) = some (Cfg.term accs) := by
        show (cfg.dfa.st t).eoi.map Target.toCfg = _
        rw [he]; rfl
      have h2 := hw.2
      rw [heo] at h2
      have h3 : accs = matchingAccs rules (iter.map Sym.ch ++ [Sym.eoi]) := h2
      subst h3
      rw [hfirst] at hsel
      exact hsel
    · rintro ⟨hk, hkl, hsel⟩
      have hw := hreal iter
      have htake : iter.take k = iter := by rw [hkl]; exact List.take_length
      cases hc : reach cfg.dfa (.st e) iter with
      | none =>
        rw [hc] at hw
        rw [hw.2, firstLang_nil] at hsel
        cases hsel
      | some c =>
        rw [hc] at hw
        refine ⟨hk, c, by rw [htake]; exact hc, hkl, ?_⟩
        cases c with
        | term l =>
          have h2 := hw.2
          have : Auto.eoi cfg.dfa (Cfg.term l) = none := rfl
          rw [this] at h2
          rw [h2, firstLang_nil] at hsel
          cases hsel
        | st t =>
          have h2 := hw.2
          have hE : Auto.eoi cfg.dfa (Cfg.st t) = (cfg.dfa.st t).eoi.map Target.toCfg := rfl
          rw [hE] at h2
          cases hx : (cfg.dfa.st t).eoi with
          | none =>
            rw [hx] at h2
            have h2' : matchingAccs rules (iter.map Sym.ch ++ [Sym.eoi]) = [] := h2
            rw [h2', firstLang_nil] at hsel
            cases hsel
          | some tr =>
            cases tr with
            | goto t' => exact absurd hx (heoi t t')
            | accept accs =>
              rw [hx] at h2
              have h3 : accs = matchingAccs rules (iter.map Sym.ch ++ [Sym.eoi]) := h2
              refine ⟨t, accs, rfl, hx, ?_⟩
              rw [h3, hfirst]
              exact hsel

end Lexgen
