import LexgenModel.Proofs.ThompsonPaths
/-!
# Thompson construction, part 3: gadgets

`Gadget n n' cur cont L`: `n'` extends `n` by a sub-automaton hanging between the (previously
transition-less) states `cur` and `cont` that reads exactly the words of `L`.
-/

set_option linter.unusedSimpArgs false
set_option linter.unusedVariables false
namespace Lexgen
namespace Thompson

/-! ## Frames: what a construction step may touch -/

/-- `n'` extends `n`; among the states of `n` only `cur` changed; accept fields are untouched;
new edges only enter `cont` or fresh states -/
structure Frame (n n' : NFA) (cur cont : Nat) : Prop where
  len : n.length ≤ n'.length
  old : ∀ a, a < n.length → a ≠ cur → n'.st a = n.st a
  accs : ∀ a, (n'.st a).acc = (n.st a).acc
  wf : NFAWF n'
  tgt : ∀ a x b, Edge n' a x b → Edge n a x b ∨ b = cont ∨ n.length ≤ b
  tne : TargetsNonempty n → TargetsNonempty n'

theorem edge_newState (n : NFA) (a : Nat) (x : Option Sym) (b : Nat) :
    Edge n.newState.1 a x b ↔ Edge n a x b := by
  unfold Edge; rw [st_newState]

theorem wf_newState {n : NFA} (h : NFAWF n) : NFAWF n.newState.1 := by
  have hl := length_newState n
  apply wf_of_edges
  · omega
  · intro s _
    rw [st_newState]
    by_cases hs : s < n.length
    · exact h.rangesWF s hs
    · rw [st_ge n s (by omega)]; trivial
  · intro s _
    rw [st_newState]
    by_cases hs : s < n.length
    · exact h.charsNodup s hs
    · rw [st_ge n s (by omega)]; exact List.nodup_nil
  · intro a x b hab
    have := edge_target_lt h ((edge_newState n a x b).mp hab)
    omega

theorem tne_newState {n : NFA} (h : TargetsNonempty n) : TargetsNonempty n.newState.1 := by
  intro s _
  rw [st_newState]
  by_cases hs : s < n.length
  · exact h s hs
  · rw [st_ge n s (by omega)]
    refine ⟨?_, ?_⟩
    · intro e he; cases he
    · intro r hr; cases hr

theorem Frame.newState {n : NFA} (h : NFAWF n) (cur cont : Nat) : Frame n n.newState.1 cur cont := by
  refine ⟨by rw [length_newState]; omega, fun a _ _ => st_newState n a, fun a => by rw [st_newState],
    wf_newState h, fun a x b hab => Or.inl ((edge_newState n a x b).mp hab), tne_newState⟩

theorem Frame.ofStep {n n' : NFA} {s t : Nat} {X : Option Sym → Prop} (h : Step n n' s X t)
    (hwf : NFAWF n) (ht : t < n.length) : Frame n n' s t := by
  refine ⟨by rw [h.len]; omega, fun a _ ha => h.other a ha, h.accAll, h.wf hwf ht, ?_, h.tneAll⟩
  intro a x b hab
  rcases (h.edges a x b).mp hab with h1 | ⟨_, _, h1⟩
  · exact Or.inl h1
  · exact Or.inr (Or.inl h1)

theorem Frame.refl {n : NFA} (h : NFAWF n) (cur cont : Nat) : Frame n n cur cont :=
  ⟨Nat.le_refl _, fun _ _ _ => rfl, fun _ => rfl, h, fun _ _ _ h => Or.inl h, id⟩

theorem Frame.trans {n n1 n2 : NFA} {c1 k1 c2 k2 cur cont : Nat}
    (f1 : Frame n n1 c1 k1) (f2 : Frame n1 n2 c2 k2)
    (hc1 : c1 = cur ∨ n.length ≤ c1) (hc2 : c2 = cur ∨ n.length ≤ c2)
    (hk1 : k1 = cont ∨ n.length ≤ k1) (hk2 : k2 = cont ∨ n.length ≤ k2) :
    Frame n n2 cur cont := by
  have hl1 := f1.len
  have hl2 := f2.len
  refine ⟨by omega, ?_, fun a => by rw [f2.accs, f1.accs], f2.wf, ?_, fun h => f2.tne (f1.tne h)⟩
  · intro a ha hne
    rw [f2.old a (by omega) (by omega), f1.old a ha (by omega)]
  · intro a x b hab
    rcases f2.tgt a x b hab with h | h | h
    · rcases f1.tgt a x b h with h' | h' | h'
      · exact Or.inl h'
      · right; omega
      · right; omega
    · right; omega
    · right; omega

/-! ## Virgin (transition-less) states -/

theorem virgin_ge {n : NFA} {a : Nat} (h : n.length ≤ a) : NFA.virgin n a := by
  unfold NFA.virgin; rw [st_ge n a h]; exact ⟨rfl, rfl, rfl, rfl, rfl⟩

theorem virgin_of_st_eq {n n' : NFA} {a : Nat} (h : n'.st a = n.st a) (hv : NFA.virgin n a) : NFA.virgin n' a := by
  unfold NFA.virgin; rw [h]; exact hv

theorem Frame.virgin {n n' : NFA} {c k a : Nat} (f : Frame n n' c k) (ha : a < n.length) (hne : a ≠ c)
    (hv : NFA.virgin n a) : NFA.virgin n' a :=
  virgin_of_st_eq (f.old a ha hne) hv

theorem dead_of_virgin {n : NFA} {a : Nat} (hv : NFA.virgin n a) : Dead (Edge n) a :=
  fun x b => edge_virgin hv x b

/-- a path ends where it started or in a state of the automaton -/
theorem path_end {n : NFA} (hwf : NFAWF n) {p q : Nat} {w : List Sym} (h : Path (Edge n) p w q) :
    q = p ∨ q < n.length := by
  induction h with
  | refl s => exact Or.inl rfl
  | step h _ ih =>
    rcases ih with rfl | ih
    · exact Or.inr (edge_target_lt hwf h)
    · exact Or.inr ih

/-! ## Gadgets -/

/-- what `addRe` expects of its arguments -/
structure Pre (n : NFA) (cur cont : Nat) : Prop where
  wf : NFAWF n
  hcur : cur < n.length
  hcont : cont < n.length
  hne : cur ≠ cont
  vcur : NFA.virgin n cur
  vcont : NFA.virgin n cont

structure Gadget (n n' : NFA) (cur cont : Nat) (L : List Sym → Prop) : Prop where
  frame : Frame n n' cur cont
  paths : ∀ w q, q < n.length → (Path (Edge n') cur w q ↔ (w = [] ∧ q = cur) ∨ (q = cont ∧ L w))

theorem Gadget.congrL {n n' : NFA} {cur cont : Nat} {L L' : List Sym → Prop} (g : Gadget n n' cur cont L)
    (h : ∀ w, L w ↔ L' w) : Gadget n n' cur cont L' :=
  ⟨g.frame, fun w q hq => by rw [g.paths w q hq, h]⟩

/-- old edges survive -/
theorem Frame.mono {n n' : NFA} {cur cont : Nat} (f : Frame n n' cur cont) (hv : NFA.virgin n cur)
    (a : Nat) (x : Option Sym) (b : Nat) (h : Edge n a x b) : Edge n' a x b := by
  have ha := edge_lt h
  have hne : a ≠ cur := by rintro rfl; exact edge_virgin hv x b h
  unfold Edge; rw [f.old a ha hne]; exact h

/-- edges leaving an untouched old state are old -/
theorem Frame.edge_old {n n' : NFA} {cur cont : Nat} (f : Frame n n' cur cont) {a : Nat} (ha : a < n.length)
    (hne : a ≠ cur) (x : Option Sym) (b : Nat) : Edge n' a x b ↔ Edge n a x b := by
  unfold Edge; rw [f.old a ha hne]

/-- (d): paths between old states after the gadget was added -/
theorem Gadget.paths_old {n n' : NFA} {cur cont : Nat} {L : List Sym → Prop} (g : Gadget n n' cur cont L)
    (hp : Pre n cur cont) (p q : Nat) (w : List Sym) (hpl : p < n.length) (hq : q < n.length) :
    Path (Edge n') p w q ↔
      Path (Edge n) p w q ∨ (q = cont ∧ ∃ w0 u, w = w0 ++ u ∧ Path (Edge n) p w0 cur ∧ L u) := by
  constructor
  · intro h
    induction h with
    | refl s => exact Or.inl (Path.refl s)
    | @step a b c x w h hpath ih =>
      by_cases hac : a = cur
      · subst hac
        rcases (g.paths _ c hq).mp (Path.step h hpath) with ⟨h1, h2⟩ | ⟨h1, h2⟩
        · rw [h1, h2]; exact Or.inl (Path.refl _)
        · exact Or.inr ⟨h1, [], _, rfl, Path.refl _, h2⟩
      · have hold := (g.frame.edge_old hpl hac x b).mp h
        have hb := edge_target_lt hp.wf hold
        rcases ih hb hq with ih | ⟨h1, w0, u, rfl, h0, hu⟩
        · exact Or.inl (Path.step hold ih)
        · exact Or.inr ⟨h1, lbl x ++ w0, u, by simp only [List.append_assoc], Path.step hold h0, hu⟩
  · rintro (h | ⟨rfl, w0, u, rfl, h0, hu⟩)
    · exact Path.mono (g.frame.mono hp.vcur) h
    · exact Path.trans (Path.mono (g.frame.mono hp.vcur) h0)
        ((g.paths u _ hq).mpr (Or.inr ⟨rfl, hu⟩))

/-- nothing is added, the language is empty -/
theorem Gadget.empty {n : NFA} {cur cont : Nat} (hp : Pre n cur cont) (L : List Sym → Prop) (hL : ∀ w, ¬ L w) :
    Gadget n n cur cont L := by
  refine ⟨Frame.refl hp.wf _ _, fun w q _ => ?_⟩
  rw [path_dead_iff (dead_of_virgin hp.vcur)]
  constructor
  · exact Or.inl
  · rintro (h | ⟨_, h⟩)
    · exact h
    · exact absurd h (hL w)

/-- a family of labelled edges `cur —x→ cont` -/
theorem Step.gadget {n n' : NFA} {cur cont : Nat} {X : Option Sym → Prop} (hp : Pre n cur cont)
    (h : Step n n' cur X cont) (hX : ¬ X none) :
    Gadget n n' cur cont (fun w => ∃ y, w = [y] ∧ X (some y)) := by
  have f := Frame.ofStep h hp.wf hp.hcont
  refine ⟨f, fun w q _ => ?_⟩
  have hdc : Dead (Edge n') cont := dead_of_virgin (f.virgin hp.hcont (Ne.symm hp.hne) hp.vcont)
  constructor
  · intro hpath
    cases hpath with
    | refl => exact Or.inl ⟨rfl, rfl⟩
    | @step _ b _ x w' he hrest =>
      rcases (h.edges cur x b).mp he with h1 | ⟨_, hx, rfl⟩
      · exact absurd h1 (edge_virgin hp.vcur x b)
      · obtain ⟨rfl, rfl⟩ := path_dead hdc hrest
        cases x with
        | none => exact absurd hx hX
        | some y => exact Or.inr ⟨rfl, y, rfl, hx⟩
  · rintro (⟨rfl, rfl⟩ | ⟨rfl, y, rfl, hx⟩)
    · exact Path.refl _
    · exact Path.sym ((h.edges cur (some y) q).mpr (Or.inr ⟨rfl, hx, rfl⟩)) (Path.refl _)


/-! ## Frame and precondition bookkeeping -/

theorem Frame.addState {n m : NFA} {cur cont : Nat} (f : Frame n m cur cont) : Frame n m.newState.1 cur cont :=
  Frame.trans f (Frame.newState f.wf cur cont) (Or.inl rfl) (Or.inl rfl) (Or.inl rfl) (Or.inl rfl)

theorem Frame.addStep {n m m' : NFA} {cur cont s t : Nat} {X : Option Sym → Prop} (f : Frame n m cur cont)
    (h : Step m m' s X t) (ht : t < m.length) (hs : s = cur ∨ n.length ≤ s) (htt : t = cont ∨ n.length ≤ t) :
    Frame n m' cur cont :=
  Frame.trans f (Frame.ofStep h f.wf ht) (Or.inl rfl) hs (Or.inl rfl) htt

theorem Frame.addFrame {n m m' : NFA} {cur cont c k : Nat} (f : Frame n m cur cont)
    (g : Frame m m' c k) (hc : c = cur ∨ n.length ≤ c) (hk : k = cont ∨ n.length ≤ k) :
    Frame n m' cur cont :=
  Frame.trans f g (Or.inl rfl) hc (Or.inl rfl) hk

theorem virgin_newState {n : NFA} {a : Nat} (h : NFA.virgin n a) : NFA.virgin n.newState.1 a :=
  virgin_of_st_eq (st_newState n a) h

theorem dead_addEps {E : Rel} {a s t : Nat} (hd : Dead E a) (hne : a ≠ s) : Dead (addEps E s t) a := by
  intro x b h
  rcases h with h | ⟨h, _, _⟩
  · exact hd x b h
  · exact hne h

/-- one fresh state, used as continuation -/
theorem Pre.freshCont {n : NFA} {cur cont : Nat} (hp : Pre n cur cont) : Pre n.newState.1 cur n.length := by
  have hl := length_newState n
  have := hp.hcur
  exact ⟨wf_newState hp.wf, by omega, by omega, by omega, virgin_newState hp.vcur,
    virgin_newState (virgin_ge (Nat.le_refl _))⟩

/-- one fresh state, used as start -/
theorem Pre.freshCur {n : NFA} {cur cont : Nat} (hp : Pre n cur cont) : Pre n.newState.1 n.length cont := by
  have hl := length_newState n
  have := hp.hcont
  exact ⟨wf_newState hp.wf, by omega, by omega, by omega, virgin_newState (virgin_ge (Nat.le_refl _)),
    virgin_newState hp.vcont⟩

/-- two fresh states, the first used as start -/
theorem Pre.freshCur2 {n : NFA} {cur cont : Nat} (hp : Pre n cur cont) :
    Pre n.newState.1.newState.1 n.length cont := by
  have hl := length_newState n
  have hl2 := length_newState n.newState.1
  have := hp.hcont
  exact ⟨wf_newState (wf_newState hp.wf), by omega, by omega, by omega,
    virgin_newState (virgin_newState (virgin_ge (Nat.le_refl _))),
    virgin_newState (virgin_newState hp.vcont)⟩

/-- two fresh states, start and continuation -/
theorem Pre.fresh2 {n : NFA} {cur cont : Nat} (hp : Pre n cur cont) :
    Pre n.newState.1.newState.1 n.length (n.length + 1) := by
  have hl := length_newState n
  have hl2 := length_newState n.newState.1
  exact ⟨wf_newState (wf_newState hp.wf), by omega, by omega, by omega,
    virgin_newState (virgin_newState (virgin_ge (Nat.le_refl _))),
    virgin_newState (virgin_newState (virgin_ge (by omega)))⟩

/-- after a gadget, an untouched old state can start (or end) the next one -/
theorem Pre.after {n n' : NFA} {c k cur cont : Nat} {L : List Sym → Prop} (hp : Pre n c k)
    (g : Gadget n n' c k L) (hcur : cur < n.length) (hcont : cont < n.length) (hne : cur ≠ cont)
    (h1 : cur ≠ c) (h2 : cont ≠ c) (v1 : NFA.virgin n cur) (v2 : NFA.virgin n cont) : Pre n' cur cont := by
  have := g.frame.len
  exact ⟨g.frame.wf, by omega, by omega, hne, g.frame.virgin hcur h1 v1, g.frame.virgin hcont h2 v2⟩

/-! ## Concatenation -/

theorem pre_cat_b {n n1 : NFA} {cur cont : Nat} {La : List Sym → Prop} (hp : Pre n cur cont)
    (ga : Gadget n.newState.1 n1 cur n.length La) : Pre n1 n.length cont := by
  have hl := length_newState n
  have pa := hp.freshCont
  have h1 := hp.hcur
  have h2 := hp.hcont
  exact Pre.after pa ga (by omega) (by omega) (by omega) (by omega) (Ne.symm hp.hne) pa.vcont
    (virgin_newState hp.vcont)

theorem gadget_cat {n n1 n2 : NFA} {cur cont : Nat} {La Lb : List Sym → Prop} (hp : Pre n cur cont)
    (ga : Gadget n.newState.1 n1 cur n.length La) (gb : Gadget n1 n2 n.length cont Lb) :
    Gadget n n2 cur cont (fun w => ∃ u v, w = u ++ v ∧ La u ∧ Lb v) := by
  have hl0 := length_newState n
  have hl1 := ga.frame.len
  have hc := hp.hcur
  have pb := pre_cat_b hp ga
  have f : Frame n n2 cur cont :=
    (((Frame.refl hp.wf cur cont).addState).addFrame ga.frame (Or.inl rfl) (Or.inr (Nat.le_refl _))).addFrame
      gb.frame (Or.inr (Nat.le_refl _)) (Or.inl rfl)
  refine ⟨f, fun w q hq => ?_⟩
  rw [gb.paths_old pb cur q w (by omega) (by omega), ga.paths w q (by omega)]
  constructor
  · rintro ((h | ⟨h, _⟩) | ⟨hqc, w0, u, rfl, h0, hu⟩)
    · exact Or.inl h
    · omega
    · rcases (ga.paths w0 n.length (by omega)).mp h0 with ⟨_, h⟩ | ⟨_, h⟩
      · omega
      · exact Or.inr ⟨hqc, w0, u, rfl, h, hu⟩
  · rintro (h | ⟨hqc, u, v, rfl, hu, hv⟩)
    · exact Or.inl (Or.inl h)
    · exact Or.inr ⟨hqc, u, v, rfl, (ga.paths u n.length (by omega)).mpr (Or.inr ⟨rfl, hu⟩), hv⟩

/-! ## Two ε-edges out of a transition-less state -/

theorem path_fork2 (E : Rel) (cur a b : Nat) (w : List Sym) (q : Nat) (hd : Dead E cur)
    (ha : ∀ u, ¬ Path E a u cur) (hb : ∀ u, ¬ Path E b u cur) :
    Path (addEps (addEps E cur a) cur b) cur w q ↔ (w = [] ∧ q = cur) ∨ Path E a w q ∨ Path E b w q := by
  have h3 : ∀ w q, Path (addEps E cur a) cur w q ↔ (w = [] ∧ q = cur) ∨ Path E a w q :=
    fun w q => path_addEps_srcDead E cur a w q hd ha
  have h3b : ∀ w q, Path (addEps E cur a) b w q ↔ Path E b w q := by
    intro w q
    rw [path_addEps_noloop E cur a b w q ha]
    constructor
    · rintro (h | ⟨w0, w1, _, h0, _⟩)
      · exact h
      · exact absurd h0 (hb _)
    · exact Or.inl
  have hno4 : ∀ u, ¬ Path (addEps E cur a) b u cur := fun u h => hb u ((h3b u cur).mp h)
  rw [path_addEps_noloop _ cur b cur w q hno4]
  constructor
  · rintro (h | ⟨w0, w1, rfl, h0, h1⟩)
    · rcases (h3 w q).mp h with h | h
      · exact Or.inl h
      · exact Or.inr (Or.inl h)
    · rcases (h3 w0 cur).mp h0 with ⟨rfl, _⟩ | h
      · exact Or.inr (Or.inr ((h3b _ q).mp h1))
      · exact absurd h (ha _)
  · rintro (h | h | h)
    · exact Or.inl ((h3 w q).mpr (Or.inl h))
    · exact Or.inl ((h3 w q).mpr (Or.inr h))
    · exact Or.inr ⟨[], w, rfl, Path.refl _, (h3b w q).mpr h⟩


/-! ## Alternation -/

theorem pre_alt_b {n n1 : NFA} {cur cont : Nat} {La : List Sym → Prop} (hp : Pre n cur cont)
    (ga : Gadget n.newState.1.newState.1 n1 n.length cont La) : Pre n1 (n.length + 1) cont := by
  have hl := length_newState n
  have hl2 := length_newState n.newState.1
  have pa := hp.freshCur2
  have h2 := hp.hcont
  exact Pre.after pa ga (by omega) (by omega) (by omega) (by omega) (by omega)
    (virgin_newState (virgin_newState (virgin_ge (by omega)))) pa.vcont

theorem gadget_alt {n n1 n2 n3 n4 : NFA} {cur cont : Nat} {La Lb : List Sym → Prop} (hp : Pre n cur cont)
    (ga : Gadget n.newState.1.newState.1 n1 n.length cont La)
    (gb : Gadget n1 n2 (n.length + 1) cont Lb)
    (s3 : Step n2 n3 cur (fun x => x = none) n.length)
    (s4 : Step n3 n4 cur (fun x => x = none) (n.length + 1)) :
    Gadget n n4 cur cont (fun w => La w ∨ Lb w) := by
  have hl := length_newState n
  have hl2 := length_newState n.newState.1
  have hl1 := ga.frame.len
  have hl1' := gb.frame.len
  have hl3 := s3.len
  have hc := hp.hcur
  have hk := hp.hcont
  have hne := hp.hne
  have pa := hp.freshCur2
  have pb := pre_alt_b hp ga
  have f2 : Frame n n2 cur cont :=
    ((((Frame.refl hp.wf cur cont).addState).addState).addFrame ga.frame (Or.inr (Nat.le_refl _))
      (Or.inl rfl)).addFrame gb.frame (Or.inr (by omega)) (Or.inl rfl)
  have f3 : Frame n n3 cur cont := f2.addStep s3 (by omega) (Or.inl rfl) (Or.inr (Nat.le_refl _))
  have f4 : Frame n n4 cur cont := f3.addStep s4 (by omega) (Or.inl rfl) (Or.inr (by omega))
  refine ⟨f4, fun w q hq => ?_⟩
  have hE : ∀ a x b, Edge n4 a x b ↔ addEps (addEps (Edge n2) cur n.length) cur (n.length + 1) a x b := by
    intro a x b; rw [s4.edges, s3.edges]; rfl
  have vcur2 : NFA.virgin n2 cur :=
    gb.frame.virgin (by omega) (by omega) (ga.frame.virgin (by omega) (by omega)
      (virgin_newState (virgin_newState hp.vcur)))
  have A2 : ∀ w q, q < n.length → (Path (Edge n2) n.length w q ↔ q = cont ∧ La w) := by
    intro w q hq
    rw [gb.paths_old pb n.length q w (by omega) (by omega), ga.paths w q (by omega)]
    constructor
    · rintro ((⟨_, h⟩ | h) | ⟨hqc, w0, u, rfl, h0, hu⟩)
      · omega
      · exact h
      · rcases (ga.paths w0 (n.length + 1) (by omega)).mp h0 with ⟨_, h⟩ | ⟨h, _⟩ <;> omega
    · intro h; exact Or.inl (Or.inr h)
  have A3 : ∀ w q, q < n.length → (Path (Edge n2) (n.length + 1) w q ↔ q = cont ∧ Lb w) := by
    intro w q hq
    rw [gb.paths w q (by omega)]
    constructor
    · rintro (⟨_, h⟩ | h)
      · omega
      · exact h
    · exact Or.inr
  rw [Path.congr hE, path_fork2 _ _ _ _ _ _ (dead_of_virgin vcur2)
    (fun u h => hne ((A2 u cur hc).mp h).1) (fun u h => hne ((A3 u cur hc).mp h).1), A2 w q hq, A3 w q hq]
  constructor
  · rintro (h | ⟨h1, h2⟩ | ⟨h1, h2⟩)
    · exact Or.inl h
    · exact Or.inr ⟨h1, Or.inl h2⟩
    · exact Or.inr ⟨h1, Or.inr h2⟩
  · rintro (h | ⟨h1, h2 | h2⟩)
    · exact Or.inl h
    · exact Or.inr (Or.inl ⟨h1, h2⟩)
    · exact Or.inr (Or.inr ⟨h1, h2⟩)

/-! ## Option -/

theorem gadget_opt {n n1 n2 n3 : NFA} {cur cont : Nat} {L : List Sym → Prop} (hp : Pre n cur cont)
    (g : Gadget n.newState.1 n1 n.length cont L)
    (s2 : Step n1 n2 cur (fun x => x = none) cont)
    (s3 : Step n2 n3 cur (fun x => x = none) n.length) :
    Gadget n n3 cur cont (fun w => w = [] ∨ L w) := by
  have hl := length_newState n
  have hl1 := g.frame.len
  have hl2 := s2.len
  have hc := hp.hcur
  have hk := hp.hcont
  have hne := hp.hne
  have f1 : Frame n n1 cur cont :=
    ((Frame.refl hp.wf cur cont).addState).addFrame g.frame (Or.inr (Nat.le_refl _)) (Or.inl rfl)
  have f2 : Frame n n2 cur cont := f1.addStep s2 (by omega) (Or.inl rfl) (Or.inl rfl)
  have f3 : Frame n n3 cur cont := f2.addStep s3 (by omega) (Or.inl rfl) (Or.inr (Nat.le_refl _))
  refine ⟨f3, fun w q hq => ?_⟩
  have hE : ∀ a x b, Edge n3 a x b ↔ addEps (addEps (Edge n1) cur cont) cur n.length a x b := by
    intro a x b; rw [s3.edges, s2.edges]; rfl
  have dcur : Dead (Edge n1) cur :=
    dead_of_virgin (g.frame.virgin (by omega) (by omega) (virgin_newState hp.vcur))
  have dcont : Dead (Edge n1) cont :=
    dead_of_virgin (g.frame.virgin (by omega) (by omega) (virgin_newState hp.vcont))
  have hb : ∀ u, ¬ Path (Edge n1) n.length u cur := by
    intro u h
    rcases (g.paths u cur (by omega)).mp h with ⟨_, h⟩ | ⟨h, _⟩
    · omega
    · exact hne h
  rw [Path.congr hE, path_fork2 _ _ _ _ _ _ dcur (fun u h => hne (path_dead dcont h).2) hb,
    path_dead_iff dcont, g.paths w q (by omega)]
  constructor
  · rintro (h | ⟨h1, h2⟩ | ⟨_, h⟩ | ⟨h1, h2⟩)
    · exact Or.inl h
    · exact Or.inr ⟨h2, Or.inl h1⟩
    · omega
    · exact Or.inr ⟨h1, Or.inr h2⟩
  · rintro (h | ⟨h1, h2 | h2⟩)
    · exact Or.inl h
    · exact Or.inr (Or.inl ⟨h2, h1⟩)
    · exact Or.inr (Or.inr (Or.inr ⟨h1, h2⟩))

/-! ## Iteration -/

/-- the inner gadget `N → N+1` with the two back edges `N+1 → N`, `N+1 → cont` -/
theorem loop_core (E : Rel) (N cont : Nat) (L : List Sym → Prop) (hcont : cont < N) (hdc : Dead E cont)
    (hp : ∀ w q, q < N + 2 → (Path E N w q ↔ (w = [] ∧ q = N) ∨ (q = N + 1 ∧ L w)))
    (w : List Sym) (q : Nat) (hq : q < N) :
    Path (addEps (addEps E (N + 1) N) (N + 1) cont) N w q ↔
      q = cont ∧ ∃ v w1, w = v ++ w1 ∧ Star L v ∧ L w1 := by
  have hseg : ∀ u, Path E N u (N + 1) ↔ L u := by
    intro u; rw [hp u (N + 1) (by omega)]
    constructor
    · rintro (⟨_, h⟩ | ⟨_, h⟩)
      · omega
      · exact h
    · intro h; exact Or.inr ⟨rfl, h⟩
  have hd2 : Dead (addEps E (N + 1) N) cont := dead_addEps hdc (by omega)
  rw [path_addEps_tgtDead _ (N + 1) cont N w q hd2 (by omega), path_addEps_fromTgt, path_addEps_fromTgt]
  constructor
  · rintro (⟨v, w1, rfl, hs, h1⟩ | ⟨hqc, v, w1, rfl, hs, h1⟩)
    · rcases (hp w1 q (by omega)).mp h1 with ⟨_, h⟩ | ⟨h, _⟩ <;> omega
    · exact ⟨hqc, v, w1, rfl, (star_congr hseg v).mp hs, (hseg w1).mp h1⟩
  · rintro ⟨hqc, v, w1, rfl, hs, h1⟩
    exact Or.inr ⟨hqc, v, w1, rfl, (star_congr hseg v).mpr hs, (hseg w1).mpr h1⟩

theorem star_iff_snoc {L : List Sym → Prop} (w : List Sym) :
    Star L w ↔ w = [] ∨ ∃ v w1, w = v ++ w1 ∧ Star L v ∧ L w1 := by
  constructor
  · intro hs
    cases hs with
    | nil => exact Or.inl rfl
    | cons h hs' => exact Or.inr (star_unsnoc h hs')
  · rintro (rfl | ⟨v, w1, rfl, hs, h1⟩)
    · exact Star.nil
    · exact star_append hs (star_single h1)

theorem plus_iff_snoc {L : List Sym → Prop} (w : List Sym) :
    (∃ u v, w = u ++ v ∧ L u ∧ Star L v) ↔ ∃ v w1, w = v ++ w1 ∧ Star L v ∧ L w1 := by
  constructor
  · rintro ⟨u, v, rfl, h, hs⟩; exact star_unsnoc h hs
  · rintro ⟨v, w1, rfl, hs, h⟩
    obtain ⟨u, v', heq, hu, hv⟩ := star_snoc hs h
    exact ⟨u, v', heq, hu, hv⟩

theorem gadget_star {n n1 n2 n3 n4 n5 : NFA} {cur cont : Nat} {L : List Sym → Prop} (hp : Pre n cur cont)
    (g : Gadget n.newState.1.newState.1 n1 n.length (n.length + 1) L)
    (s2 : Step n1 n2 cur (fun x => x = none) cont)
    (s3 : Step n2 n3 cur (fun x => x = none) n.length)
    (s4 : Step n3 n4 (n.length + 1) (fun x => x = none) cont)
    (s5 : Step n4 n5 (n.length + 1) (fun x => x = none) n.length) :
    Gadget n n5 cur cont (Star L) := by
  have hl := length_newState n
  have hl0 := length_newState n.newState.1
  have hl1 := g.frame.len
  have hl2 := s2.len
  have hl3 := s3.len
  have hl4 := s4.len
  have hc := hp.hcur
  have hk := hp.hcont
  have hne := hp.hne
  have f1 : Frame n n1 cur cont :=
    (((Frame.refl hp.wf cur cont).addState).addState).addFrame g.frame (Or.inr (Nat.le_refl _))
      (Or.inr (by omega))
  have f2 : Frame n n2 cur cont := f1.addStep s2 (by omega) (Or.inl rfl) (Or.inl rfl)
  have f3 : Frame n n3 cur cont := f2.addStep s3 (by omega) (Or.inl rfl) (Or.inr (Nat.le_refl _))
  have f4 : Frame n n4 cur cont := f3.addStep s4 (by omega) (Or.inr (by omega)) (Or.inl rfl)
  have f5 : Frame n n5 cur cont := f4.addStep s5 (by omega) (Or.inr (by omega)) (Or.inr (Nat.le_refl _))
  refine ⟨f5, fun w q hq => ?_⟩
  have hE : ∀ a x b, Edge n5 a x b ↔
      addEps (addEps (addEps (addEps (Edge n1) (n.length + 1) n.length) (n.length + 1) cont) cur n.length)
        cur cont a x b := by
    intro a x b; rw [s5.edges, s4.edges, s3.edges, s2.edges]
    simp only [addEps]
    constructor
    · rintro ((((h | h) | h) | h) | h) <;> simp [h]
    · rintro ((((h | h) | h) | h) | h) <;> simp [h]
  have dcur : Dead (Edge n1) cur :=
    dead_of_virgin (g.frame.virgin (by omega) (by omega) (virgin_newState (virgin_newState hp.vcur)))
  have dcont : Dead (Edge n1) cont :=
    dead_of_virgin (g.frame.virgin (by omega) (by omega) (virgin_newState (virgin_newState hp.vcont)))
  have hloop := loop_core (Edge n1) n.length cont L hk dcont (fun w q hq => g.paths w q (by omega))
  have dcur3 : Dead (addEps (addEps (Edge n1) (n.length + 1) n.length) (n.length + 1) cont) cur :=
    dead_addEps (dead_addEps dcur (by omega)) (by omega)
  have dcont3 : Dead (addEps (addEps (Edge n1) (n.length + 1) n.length) (n.length + 1) cont) cont :=
    dead_addEps (dead_addEps dcont (by omega)) (by omega)
  rw [Path.congr hE, path_fork2 _ _ _ _ _ _ dcur3 (fun u h => hne ((hloop u cur hc).mp h).1)
    (fun u h => hne (path_dead dcont3 h).2), hloop w q hq, path_dead_iff dcont3, star_iff_snoc]
  constructor
  · rintro (h | ⟨h1, h2⟩ | ⟨h1, h2⟩)
    · exact Or.inl h
    · exact Or.inr ⟨h1, Or.inr h2⟩
    · exact Or.inr ⟨h2, Or.inl h1⟩
  · rintro (h | ⟨h1, h2 | h2⟩)
    · exact Or.inl h
    · exact Or.inr (Or.inr ⟨h2, h1⟩)
    · exact Or.inr (Or.inl ⟨h1, h2⟩)

theorem gadget_plus {n n1 n2 n3 n4 : NFA} {cur cont : Nat} {L : List Sym → Prop} (hp : Pre n cur cont)
    (g : Gadget n.newState.1.newState.1 n1 n.length (n.length + 1) L)
    (s2 : Step n1 n2 cur (fun x => x = none) n.length)
    (s3 : Step n2 n3 (n.length + 1) (fun x => x = none) cont)
    (s4 : Step n3 n4 (n.length + 1) (fun x => x = none) n.length) :
    Gadget n n4 cur cont (fun w => ∃ u v, w = u ++ v ∧ L u ∧ Star L v) := by
  have hl := length_newState n
  have hl0 := length_newState n.newState.1
  have hl1 := g.frame.len
  have hl2 := s2.len
  have hl3 := s3.len
  have hc := hp.hcur
  have hk := hp.hcont
  have hne := hp.hne
  have f1 : Frame n n1 cur cont :=
    (((Frame.refl hp.wf cur cont).addState).addState).addFrame g.frame (Or.inr (Nat.le_refl _))
      (Or.inr (by omega))
  have f2 : Frame n n2 cur cont := f1.addStep s2 (by omega) (Or.inl rfl) (Or.inr (Nat.le_refl _))
  have f3 : Frame n n3 cur cont := f2.addStep s3 (by omega) (Or.inr (by omega)) (Or.inl rfl)
  have f4 : Frame n n4 cur cont := f3.addStep s4 (by omega) (Or.inr (by omega)) (Or.inr (Nat.le_refl _))
  refine ⟨f4, fun w q hq => ?_⟩
  have hE : ∀ a x b, Edge n4 a x b ↔
      addEps (addEps (addEps (Edge n1) (n.length + 1) n.length) (n.length + 1) cont) cur n.length a x b := by
    intro a x b; rw [s4.edges, s3.edges, s2.edges]
    simp only [addEps]
    constructor
    · rintro (((h | h) | h) | h) <;> simp [h]
    · rintro (((h | h) | h) | h) <;> simp [h]
  have dcur : Dead (Edge n1) cur :=
    dead_of_virgin (g.frame.virgin (by omega) (by omega) (virgin_newState (virgin_newState hp.vcur)))
  have dcont : Dead (Edge n1) cont :=
    dead_of_virgin (g.frame.virgin (by omega) (by omega) (virgin_newState (virgin_newState hp.vcont)))
  have hloop := loop_core (Edge n1) n.length cont L hk dcont (fun w q hq => g.paths w q (by omega))
  have dcur3 : Dead (addEps (addEps (Edge n1) (n.length + 1) n.length) (n.length + 1) cont) cur :=
    dead_addEps (dead_addEps dcur (by omega)) (by omega)
  rw [Path.congr hE, path_addEps_srcDead _ _ _ _ _ dcur3 (fun u h => hne ((hloop u cur hc).mp h).1),
    hloop w q hq, plus_iff_snoc]

end Thompson
end Lexgen
