import LexgenModel.Spec.Total
import LexgenModel.Proofs.Subset
/-!
# Totality of the work-list subset construction `nfaToDfa`

`nfaToDfa_total`: on every well-formed NFA the loop of `nfaToDfa` ends within `nfaToDfaFuel`.

* at most `2 ^ nfa.length` keys (ascending lists of NFA states `< nfa.length`) ever enter the state map,
  so at most that many states are expanded;
* one expansion pushes at most `transBound nfa` closures: one per collected char key, one per piece
  of the collected range map (whose starts are among the `2 * Σ ranges.length` end points of the
  NFA's ranges), and at most two for `any` / end-of-input.
-/
set_option linter.unusedSimpArgs false
set_option linter.unusedVariables false
namespace Lexgen.SubsetTotal
open Lexgen Lexgen.Subset

/-! ## pigeonhole -/

theorem length_le_of_nodup_subset {α : Type} [DecidableEq α] :
    ∀ (L M : List α), L.Nodup → (∀ x ∈ L, x ∈ M) → L.length ≤ M.length := by
  intro L
  induction L with
  | nil => intro M _ _; simp
  | cons a L ih =>
    intro M hn hsub
    rw [List.nodup_cons] at hn
    have haM : a ∈ M := hsub a List.mem_cons_self
    have h1 := ih (M.erase a) hn.2 (fun x hx => by
      have hne : x ≠ a := fun h => hn.1 (h ▸ hx)
      exact (List.mem_erase_of_ne hne).mpr (hsub x (List.mem_cons_of_mem _ hx)))
    have h2 := List.length_erase_of_mem haM
    have h3 : 0 < M.length := List.length_pos_of_mem haM
    simp only [List.length_cons]
    omega

/-- all ascending lists over `[lo, lo + m)` -/
def powFrom : Nat → Nat → List (List Nat)
  | _, 0 => [[]]
  | lo, m + 1 => powFrom (lo + 1) m ++ (powFrom (lo + 1) m).map (lo :: ·)

theorem length_powFrom (lo m : Nat) : (powFrom lo m).length = 2 ^ m := by
  induction m generalizing lo with
  | zero => rfl
  | succ m ih =>
    simp only [powFrom, List.length_append, List.length_map, ih]
    rw [Nat.pow_succ]; omega

theorem nil_mem_powFrom (lo m : Nat) : [] ∈ powFrom lo m := by
  induction m generalizing lo with
  | zero => simp [powFrom]
  | succ m ih => simp only [powFrom]; exact List.mem_append_left _ (ih _)

theorem mem_powFrom (m : Nat) : ∀ (lo : Nat) (k : List Nat), Ascending k →
    (∀ x ∈ k, lo ≤ x ∧ x < lo + m) → k ∈ powFrom lo m := by
  induction m with
  | zero =>
    intro lo k _ hb
    cases k with
    | nil => simp [powFrom]
    | cons a l => have := hb a List.mem_cons_self; omega
  | succ m ih =>
    intro lo k ha hb
    cases k with
    | nil => exact nil_mem_powFrom _ _
    | cons a l =>
      obtain ⟨h1, h2⟩ := ascending_cons.mp ha
      have hab := hb a List.mem_cons_self
      simp only [powFrom]
      by_cases hal : a = lo
      · subst hal
        refine List.mem_append_right _ (List.mem_map.mpr ⟨l, ih _ l h2 (fun x hx => ?_), rfl⟩)
        have := h1 x hx
        have := hb x (List.mem_cons_of_mem _ hx)
        omega
      · refine List.mem_append_left _ (ih _ _ ha (fun x hx => ?_))
        have hbx := hb x hx
        rcases List.mem_cons.mp hx with rfl | hx'
        · omega
        · have := h1 x hx'; omega

/-- key of a DFA state: an ascending list of NFA states -/
def KeyB (n : Nat) (k : List Nat) : Prop := Ascending k ∧ ∀ x ∈ k, x < n

theorem keys_length_le (n : Nat) (L : List (List Nat)) (hn : L.Nodup) (hk : ∀ k ∈ L, KeyB n k) :
    L.length ≤ 2 ^ n := by
  rw [← length_powFrom 0 n]
  exact length_le_of_nodup_subset L _ hn (fun k hk' =>
    mem_powFrom n 0 k (hk k hk').1 (fun x hx => ⟨Nat.zero_le _, by have := (hk k hk').2 x hx; omega⟩))

/-! ## end points of the pieces `RangeMap.insert` produces -/

/-- the end points (start, end + 1) of a range list -/
def bnds {α : Type} (l : RangeMap α) : List Nat := l.flatMap (fun q => [q.1, q.2.1 + 1])

theorem length_bnds {α : Type} (l : RangeMap α) : (bnds l).length = 2 * l.length := by
  induction l with
  | nil => rfl
  | cons q l ih =>
    have : bnds (q :: l) = q.1 :: (q.2.1 + 1) :: bnds l := by simp [bnds]
    rw [this]; simp only [List.length_cons, ih]; omega

theorem bnds_cons {α : Type} (q : Nat × Nat × α) (l : RangeMap α) :
    bnds (q :: l) = q.1 :: (q.2.1 + 1) :: bnds l := by simp [bnds]

theorem mem_bnds {α : Type} {l : RangeMap α} {q : Nat × Nat × α} (h : q ∈ l) :
    q.1 ∈ bnds l ∧ q.2.1 + 1 ∈ bnds l := by
  unfold bnds
  simp only [List.mem_flatMap]
  exact ⟨⟨q, h, by simp⟩, ⟨q, h, by simp⟩⟩

local macro "ar" : tactic => `(tactic| first | omega | (simp only; omega) | (simp <;> omega))

def BPt (ns ne : Nat) (B : List Nat) (x : Nat) : Prop := x = ns ∨ x = ne + 1 ∨ x ∈ B

theorem bp_of4 {ns ne s e x : Nat} {B : List Nat} (h : x = ns ∨ x = ne + 1 ∨ x = s ∨ x = e + 1) :
    BPt ns ne (s :: (e + 1) :: B) x := by
  unfold BPt
  rcases h with h | h | h | h
  · exact Or.inl h
  · exact Or.inr (Or.inl h)
  · exact Or.inr (Or.inr (h ▸ List.mem_cons_self))
  · exact Or.inr (Or.inr (h ▸ List.mem_cons_of_mem _ List.mem_cons_self))

theorem bp_mem {ns ne s e x : Nat} {B : List Nat} (h : x ∈ B) : BPt ns ne (s :: (e + 1) :: B) x :=
  Or.inr (Or.inr (List.mem_cons_of_mem _ (List.mem_cons_of_mem _ h)))

theorem bp_mono {ns ns' ne s e x : Nat} {B : List Nat} (h : BPt ns' ne B x) (hn : ns' = ns ∨ ns' = e + 1) :
    BPt ns ne (s :: (e + 1) :: B) x := by
  rcases h with h | h | h
  · rcases hn with hn | hn
    · exact bp_of4 (Or.inl (h.trans hn))
    · exact bp_of4 (Or.inr (Or.inr (Or.inr (h.trans hn))))
  · exact bp_of4 (Or.inr (Or.inl h))
  · exact bp_mem h

theorem insertAux_bounds {α : Type} (merge : α → α → α) (ne : Nat) (v : α) (l : RangeMap α) :
    ∀ (lastEnd : Option Nat) (ns : Nat), ∀ r ∈ RangeMap.insertAux merge l lastEnd ns ne v,
      BPt ns ne (bnds l) r.1 ∧ BPt ns ne (bnds l) (r.2.1 + 1) := by
  induction l with
  | nil =>
    intro lastEnd ns r hr
    have hr' : r = (ns, ne, v) := by
      cases lastEnd with
      | none => simpa [RangeMap.insertAux] using hr
      | some le =>
        by_cases h : le < ns
        · simpa [RangeMap.insertAux, h] using hr
        · simp [RangeMap.insertAux, h] at hr
    subst hr'
    exact ⟨Or.inl rfl, Or.inr (Or.inl rfl)⟩
  | cons q rest ih =>
    obtain ⟨s, e, x⟩ := q
    intro lastEnd ns r hr
    rw [bnds_cons]
    simp only [RangeMap.insertAux] at hr
    by_cases hA : e < ns
    · simp only [hA, if_true, List.mem_cons] at hr
      rcases hr with rfl | hr
      · exact ⟨bp_of4 (by simp), bp_of4 (by simp)⟩
      · have := ih (some e) ns r hr
        exact ⟨bp_mono this.1 (Or.inl rfl), bp_mono this.2 (Or.inl rfl)⟩
    · simp only [hA, if_false] at hr
      by_cases hB : s > ne
      · simp only [hB, if_true, List.mem_cons] at hr
        rcases hr with rfl | rfl | hr
        · exact ⟨bp_of4 (by simp), bp_of4 (by simp)⟩
        · exact ⟨bp_of4 (by simp), bp_of4 (by simp)⟩
        · have := mem_bnds hr
          exact ⟨bp_mem this.1, bp_mem this.2⟩
      · simp only [hB, if_false] at hr
        have hns_s : ns ≤ e := Nat.le_of_not_lt hA
        have hs_ne : s ≤ ne := Nat.le_of_not_lt hB
        obtain ⟨os, hos, hos1, hos2, hos3⟩ : ∃ os, max ns s = os ∧ ns ≤ os ∧ s ≤ os ∧ (os = ns ∨ os = s) := by
          rcases Nat.le_total ns s with h | h
          · exact ⟨s, Nat.max_eq_right h, h, Nat.le_refl _, Or.inr rfl⟩
          · exact ⟨ns, Nat.max_eq_left h, Nat.le_refl _, h, Or.inl rfl⟩
        obtain ⟨oe, hoe, hoe1, hoe2, hoe3⟩ : ∃ oe, min ne e = oe ∧ oe ≤ ne ∧ oe ≤ e ∧ (oe = ne ∨ oe = e) := by
          rcases Nat.le_total ne e with h | h
          · exact ⟨ne, Nat.min_eq_left h, Nat.le_refl _, h, Or.inl rfl⟩
          · exact ⟨e, Nat.min_eq_right h, h, Nat.le_refl _, Or.inr rfl⟩
        simp only [hos, hoe] at hr
        have hpre : ∀ r ∈ (if ns < os then [(ns, os - 1, v)]
            else if s < os then [(s, os - 1, x)] else [] : RangeMap α),
            (r.1 = ns ∨ r.1 = s) ∧ (r.2.1 + 1 = ns ∨ r.2.1 + 1 = s) := by
          intro r hr
          by_cases p1 : ns < os
          · rw [if_pos p1, List.mem_singleton] at hr; subst hr
            ar
          · rw [if_neg p1] at hr
            by_cases p2 : s < os
            · rw [if_pos p2, List.mem_singleton] at hr; subst hr
              ar
            · rw [if_neg p2] at hr; cases hr
        by_cases hC : e > oe
        · simp only [hC, if_true, List.mem_append, List.mem_cons, List.mem_singleton, List.not_mem_nil, or_false] at hr
          have hoe' : oe = ne := by omega
          rcases hr with (hr | rfl) | rfl | hr
          · have := hpre r hr
            exact ⟨bp_of4 (by omega), bp_of4 (by omega)⟩
          · exact ⟨bp_of4 (by ar), bp_of4 (by ar)⟩
          · exact ⟨bp_of4 (by ar), bp_of4 (by ar)⟩
          · have := mem_bnds hr
            exact ⟨bp_mem this.1, bp_mem this.2⟩
        · simp only [hC, if_false] at hr
          have hoe' : oe = e := by omega
          by_cases hD : ne > oe
          · simp only [hD, if_true, List.mem_append, List.mem_cons, List.mem_singleton, List.not_mem_nil, or_false] at hr
            rcases hr with (hr | rfl) | hr
            · have := hpre r hr
              exact ⟨bp_of4 (by omega), bp_of4 (by omega)⟩
            · exact ⟨bp_of4 (by ar), bp_of4 (by ar)⟩
            · have := ih _ _ r hr
              exact ⟨bp_mono this.1 (Or.inr (by ar)), bp_mono this.2 (Or.inr (by ar))⟩
          · simp only [hD, if_false, List.mem_append, List.mem_cons, List.mem_singleton, List.not_mem_nil, or_false] at hr
            rcases hr with (hr | rfl) | hr
            · have := hpre r hr
              exact ⟨bp_of4 (by omega), bp_of4 (by omega)⟩
            · exact ⟨bp_of4 (by ar), bp_of4 (by ar)⟩
            · have := mem_bnds hr
              exact ⟨bp_mem this.1, bp_mem this.2⟩

/-! ## size of the collected tables -/

/-- end points of all ranges of the NFA -/
def rangeCands (nfa : NFA) : List Nat := nfa.flatMap (fun st => bnds st.ranges)

/-- all characters with a char transition in the NFA -/
def charCands (nfa : NFA) : List Nat := nfa.flatMap (fun st => st.chars.map (·.1))

theorem transBound_fold (nfa : NFA) (a : Nat) :
    nfa.foldl (fun acc st => acc + st.chars.length + 2 * st.ranges.length) a =
      a + (charCands nfa).length + (rangeCands nfa).length := by
  induction nfa generalizing a with
  | nil => rfl
  | cons st nfa ih =>
    rw [List.foldl_cons, ih]
    simp only [charCands, rangeCands, List.flatMap_cons, List.length_append, List.length_map, length_bnds]
    omega

theorem transBound_eq (nfa : NFA) :
    transBound nfa = (charCands nfa).length + (rangeCands nfa).length + 3 := by
  unfold transBound
  rw [transBound_fold]; omega

theorem st_mem_or_empty (nfa : NFA) (s : Nat) : nfa.st s ∈ nfa ∨ nfa.st s = NState.empty := by
  by_cases hs : s < nfa.length
  · left
    unfold NFA.st
    rw [List.getD_eq_getElem?_getD, List.getElem?_eq_getElem hs]
    exact List.getElem_mem hs
  · exact Or.inr (st_eq_empty_of_le (Nat.le_of_not_lt hs))

theorem st_bnds_cands (nfa : NFA) (s : Nat) : ∀ x ∈ bnds (nfa.st s).ranges, x ∈ rangeCands nfa := by
  intro x hx
  rcases st_mem_or_empty nfa s with h | h
  · exact List.mem_flatMap.mpr ⟨_, h, hx⟩
  · rw [h] at hx; cases hx

theorem st_chars_cands (nfa : NFA) (s : Nat) : ∀ e ∈ (nfa.st s).chars, e.1 ∈ charCands nfa := by
  intro e he
  rcases st_mem_or_empty nfa s with h | h
  · exact List.mem_flatMap.mpr ⟨_, h, List.mem_map_of_mem he⟩
  · rw [h] at he; cases he

/-- the end points of every piece are end points of NFA ranges -/
def RB (nfa : NFA) (m : RangeMap (List Nat)) : Prop :=
  ∀ r ∈ m, r.1 ∈ rangeCands nfa ∧ r.2.1 + 1 ∈ rangeCands nfa

theorem rb_bnds {nfa : NFA} {m : RangeMap (List Nat)} (h : RB nfa m) : ∀ x ∈ bnds m, x ∈ rangeCands nfa := by
  intro x hx
  unfold bnds at hx
  obtain ⟨q, hq, hx⟩ := List.mem_flatMap.mp hx
  simp only [List.mem_cons, List.not_mem_nil, or_false] at hx
  rcases hx with rfl | rfl
  · exact (h q hq).1
  · exact (h q hq).2

theorem rb_insert {nfa : NFA} {m : RangeMap (List Nat)} (h : RB nfa m) (ns ne : Nat) (v : List Nat)
    (h1 : ns ∈ rangeCands nfa) (h2 : ne + 1 ∈ rangeCands nfa) :
    RB nfa (RangeMap.insert setUnion m ns ne v) := by
  intro r hr
  obtain ⟨b1, b2⟩ := insertAux_bounds setUnion ne v m none ns r hr
  constructor
  · rcases b1 with b | b | b
    · rw [b]; exact h1
    · rw [b]; exact h2
    · exact rb_bnds h _ b
  · rcases b2 with b | b | b
    · rw [b]; exact h1
    · rw [b]; exact h2
    · exact rb_bnds h _ b

theorem rb_fold {nfa : NFA} (R : RangeMap (List Nat)) (hR : ∀ x ∈ bnds R, x ∈ rangeCands nfa) :
    ∀ m, RB nfa m → RB nfa (R.foldl (fun m r => RangeMap.insert setUnion m r.1 r.2.1 r.2.2) m) := by
  induction R with
  | nil => intro m h; exact h
  | cons r R ih =>
    intro m h
    rw [List.foldl_cons]
    rw [bnds_cons] at hR
    exact ih (fun x hx => hR x (List.mem_cons_of_mem _ (List.mem_cons_of_mem _ hx))) _
      (rb_insert h _ _ _ (hR _ List.mem_cons_self) (hR _ (List.mem_cons_of_mem _ List.mem_cons_self)))

theorem rb_collect (nfa : NFA) (S : List Nat) : RB nfa (collect nfa S).ranges := by
  rw [collect_eq]
  have key : ∀ (S : List Nat) (c : Collected), RB nfa c.ranges → RB nfa (S.foldl (collectStep nfa) c).ranges := by
    intro S
    induction S with
    | nil => intro c h; exact h
    | cons s S ih =>
      intro c h
      rw [List.foldl_cons]
      exact ih _ (rb_fold (nfa.st s).ranges (st_bnds_cands nfa s) c.ranges h)
  exact key S {} (fun r hr => by cases hr)

theorem wf_starts_nodup {α : Type} {lo : Nat} {l : RangeMap α} (h : RangeMap.WFFrom lo l) :
    (l.map (·.1)).Nodup := by
  induction l generalizing lo with
  | nil => simp
  | cons q rest ih =>
    obtain ⟨s, e, v⟩ := q
    rw [List.map_cons, List.nodup_cons]
    refine ⟨fun hmem => ?_, ih h.2.2⟩
    obtain ⟨r, hr, hrs⟩ := List.mem_map.mp hmem
    have h1 := (wf_le h.2.2 r hr).1
    have h2 := h.2.1
    simp only at hrs
    omega

theorem cm_le {lo : Nat} {m : List (Nat × List Nat)} (h : CMFrom lo m) : ∀ e ∈ m, lo ≤ e.1 := by
  induction m generalizing lo with
  | nil => intro e he; cases he
  | cons x rest ih =>
    obtain ⟨k, v⟩ := x
    intro e he
    rcases List.mem_cons.mp he with rfl | he
    · exact h.1
    · have := ih h.2 e he
      have := h.1
      omega

theorem cm_keys_nodup {lo : Nat} {m : List (Nat × List Nat)} (h : CMFrom lo m) : (m.map (·.1)).Nodup := by
  induction m generalizing lo with
  | nil => simp
  | cons x rest ih =>
    obtain ⟨k, v⟩ := x
    rw [List.map_cons, List.nodup_cons]
    refine ⟨fun hmem => ?_, ih h.2⟩
    obtain ⟨r, hr, hrs⟩ := List.mem_map.mp hmem
    have h1 := cm_le h.2 r hr
    simp only at hrs
    omega

theorem col_ranges_length {nfa : NFA} (hwf : NFAWF nfa) (S : List Nat) :
    (collect nfa S).ranges.length ≤ (rangeCands nfa).length := by
  have h1 := wf_starts_nodup (collect_spec hwf S).rwf
  have h2 := length_le_of_nodup_subset _ (rangeCands nfa) h1 (fun x hx => by
    obtain ⟨r, hr, rfl⟩ := List.mem_map.mp hx
    exact (rb_collect nfa S r hr).1)
  simpa using h2

theorem col_chars_length {nfa : NFA} (hwf : NFAWF nfa) (S : List Nat) :
    (collect nfa S).chars.length ≤ (charCands nfa).length := by
  have hcs := collect_spec hwf S
  have h1 := cm_keys_nodup hcs.cwf
  have h2 := length_le_of_nodup_subset _ (charCands nfa) h1 (fun x hx => by
    obtain ⟨e, he, rfl⟩ := List.mem_map.mp hx
    have hl := lookupChar_of_mem hcs.cwf he
    have hs : (lookupChar (collect nfa S).chars e.1).isSome = true := by rw [hl]; rfl
    obtain ⟨s, _, e', he', hk⟩ := (hcs.csome e.1).mp hs
    rw [← hk]
    exact st_chars_cands nfa s e' he')
  simpa using h2

/-! ## keys are ascending lists of NFA states -/

theorem tgt_lt {n : NFA} (hwf : NFAWF n) (s t : Nat)
    (h : t ∈ (n.st s).any ∨ t ∈ (n.st s).eoi ∨ (∃ e ∈ (n.st s).chars, t ∈ e.2) ∨
      (∃ r ∈ (n.st s).ranges, t ∈ r.2.2)) : t < n.length := by
  by_cases hs : s < n.length
  · exact hwf.targets s hs t (Or.inr h)
  · rw [st_eq_empty_of_le (Nat.le_of_not_lt hs)] at h
    simp [NState.empty] at h

theorem epsReach_lt {n : NFA} (hwf : NFAWF n) {s t : Nat} (h : EpsReach n s t) (hs : s < n.length) :
    t < n.length := by
  induction h with
  | refl => exact hs
  | step he _ ih => exact ih (eps_lt hwf he)

theorem keyB_closure {n : NFA} (hwf : NFAWF n) (S : List Nat) (hS : ∀ x ∈ S, x < n.length) :
    KeyB n.length (n.closure S) := by
  refine ⟨ascending_closure hwf S, fun x hx => ?_⟩
  obtain ⟨s, hs, hr⟩ := (mem_closure hwf).mp hx
  exact epsReach_lt hwf hr (hS s hs)

structure ColLt (n : Nat) (col : Collected) : Prop where
  any : ∀ t ∈ col.any, t < n
  eoi : ∀ t ∈ col.eoi, t < n
  chars : ∀ e ∈ col.chars, ∀ t ∈ e.2, t < n
  ranges : ∀ r ∈ col.ranges, ∀ t ∈ r.2.2, t < n

theorem colLt_of_spec {nfa : NFA} (hwf : NFAWF nfa) {S : List Nat} {col : Collected}
    (hcs : ColSpec nfa S col) : ColLt nfa.length col := by
  refine ⟨fun t ht => ?_, fun t ht => ?_, fun e he t ht => ?_, fun r hr t ht => ?_⟩
  · obtain ⟨s, _, h⟩ := (hcs.any t).mp ht
    exact tgt_lt hwf s t (Or.inl h)
  · obtain ⟨s, _, h⟩ := (hcs.eoi t).mp ht
    exact tgt_lt hwf s t (Or.inr (Or.inl h))
  · have hl := lookupChar_of_mem hcs.cwf he
    obtain ⟨s, _, tg, h1, h2⟩ := (hcs.cmem e.1 t).mp ⟨e.2, hl, ht⟩
    exact tgt_lt hwf s t (Or.inr (Or.inr (Or.inl ⟨_, h1, h2⟩)))
  · have hle := (wf_le hcs.rwf r hr).2
    have hl := lookup_of_mem hcs.rwf hr (Nat.le_refl _) hle
    obtain ⟨s, _, r', h1, _, _, h2⟩ := (hcs.rmem r.1 t).mp ⟨r.2.2, hl, ht⟩
    exact tgt_lt hwf s t (Or.inr (Or.inr (Or.inr ⟨_, h1, h2⟩)))

theorem ctg_lt {n : Nat} {col : Collected} (h : ColLt n col) {e : Nat × List Nat} (he : e ∈ col.chars) :
    ∀ t ∈ ctg col e, t < n := by
  intro t ht
  rcases (mem_ctg col e t).mp ht with h1 | ⟨r, hr, _, _, h1⟩ | h1
  · exact h.chars e he t h1
  · exact h.ranges r hr t h1
  · exact h.any t h1

theorem rtg_lt {n : Nat} {col : Collected} (h : ColLt n col) {r : Nat × Nat × List Nat} (hr : r ∈ col.ranges) :
    ∀ t ∈ setUnion r.2.2 col.any, t < n := by
  intro t ht
  rcases mem_setUnion.mp ht with h1 | h1
  · exact h.ranges r hr t h1
  · exact h.any t h1

/-! ## the invariant carried through one `expandState` (no assumption on the expanded state) -/

structure G (K : List Nat → Prop) (b0 b : Builder) (pushed : List (List Nat)) : Prop where
  wf : WFB b
  new : ∀ e ∈ b.stateMap, e ∈ b0.stateMap ∨ e.1 ∈ pushed
  len : b0.dfa.length ≤ b.dfa.length
  pk : ∀ k ∈ pushed, K k

theorem g_refl (K : List Nat → Prop) (b : Builder) (hb : WFB b) : G K b b [] :=
  ⟨hb, fun _ h => Or.inl h, Nat.le_refl _, fun _ h => by cases h⟩

theorem g_setdfa {K : List Nat → Prop} {b0 b : Builder} {pushed : List (List Nat)} (h : G K b0 b pushed)
    (D : DFA Nat) (hl : D.length = b.dfa.length) : G K b0 { b with dfa := D } pushed :=
  ⟨⟨h.wf.1, by show b.stateMap.map (·.2) = List.range D.length; rw [hl]; exact h.wf.2⟩, h.new,
    by show b0.dfa.length ≤ D.length; rw [hl]; exact h.len, h.pk⟩

theorem g_stateOf {K : List Nat → Prop} {b0 b : Builder} {pushed : List (List Nat)} (h : G K b0 b pushed)
    {k : List Nat} (hk : K k) : G K b0 (b.stateOf k).1 (k :: pushed) := by
  obtain ⟨s1, s2, s3, s4, s5, s6⟩ := stateOf_spec b k h.wf
  refine ⟨s1, fun e he => ?_, Nat.le_trans h.len s6, fun k' hk' => ?_⟩
  · rcases s3 e he with h1 | h1
    · rcases h.new e h1 with h2 | h2
      · exact Or.inl h2
      · exact Or.inr (List.mem_cons_of_mem _ h2)
    · exact Or.inr (h1 ▸ List.mem_cons_self)
  · rcases List.mem_cons.mp hk' with rfl | h1
    · exact hk
    · exact h.pk k' h1

theorem g_link {K : List Nat → Prop} {b0 b : Builder} {pushed : List (List Nat)} (h : G K b0 b pushed)
    (d : Nat) {k : List Nat} (hk : K k) (upd : Nat → DState Nat → DState Nat) :
    G K b0 (link b d k upd) (k :: pushed) := by
  refine g_setdfa (g_stateOf h hk) _ ?_
  rw [length_addPred, List.length_modify]

theorem charsStageG {nfa : NFA} {K : List Nat → Prop} (col : Collected) (d : Nat)
    (hK : ∀ e ∈ col.chars, K (nfa.closure (ctg col e))) {b0 : Builder} (b1 : Builder) (hg : G K b0 b1 []) :
    G K b0 (col.chars.foldl (charStep nfa col d) (b1, [])).1 (col.chars.foldl (charStep nfa col d) (b1, [])).2 ∧
    (col.chars.foldl (charStep nfa col d) (b1, [])).2.length = col.chars.length := by
  refine foldl_inv (charStep nfa col d)
    (fun acc L => G K b0 acc.1 acc.2 ∧ acc.2.length = L.length) col.chars (b1, []) ⟨hg, rfl⟩ ?_
  intro acc L e he ⟨ig, il⟩
  refine ⟨g_link ig d (hK e he) (fun t st => { st with chars := st.chars ++ [(e.1, t)] }), ?_⟩
  show (nfa.closure (ctg col e) :: acc.2).length = (L ++ [e]).length
  simp [il]

theorem rangesStageG {nfa : NFA} {K : List Nat → Prop} (col : Collected)
    (hK : ∀ r ∈ col.ranges, K (nfa.closure (setUnion r.2.2 col.any))) {b0 : Builder} (b2 : Builder)
    (p2 : List (List Nat)) (hg : G K b0 b2 p2) :
    G K b0 (col.ranges.foldl (rangeStep nfa col) (b2, p2, [])).1
      (col.ranges.foldl (rangeStep nfa col) (b2, p2, [])).2.1 ∧
    (col.ranges.foldl (rangeStep nfa col) (b2, p2, [])).2.1.length = p2.length + col.ranges.length := by
  refine foldl_inv (rangeStep nfa col)
    (fun acc L => G K b0 acc.1 acc.2.1 ∧ acc.2.1.length = p2.length + L.length) col.ranges (b2, p2, [])
    ⟨hg, rfl⟩ ?_
  intro acc L r hr ⟨ig, il⟩
  refine ⟨g_stateOf ig (hK r hr), ?_⟩
  show (nfa.closure (setUnion r.2.2 col.any) :: acc.2.1).length = p2.length + (L ++ [r]).length
  simp [il]; omega

theorem optStageG {nfa : NFA} {K : List Nat → Prop} {b0 : Builder} (d : Nat) (tg : List Nat)
    (hK : K (nfa.closure tg)) (upd : Nat → DState Nat → DState Nat) (acc : Builder × List (List Nat))
    (hg : G K b0 acc.1 acc.2) :
    G K b0 (optStep nfa d tg upd acc).1 (optStep nfa d tg upd acc).2 ∧
    (optStep nfa d tg upd acc).2.length ≤ acc.2.length + 1 := by
  unfold optStep
  by_cases he : (nfa.closure tg).isEmpty = true
  · rw [if_pos he]; exact ⟨hg, Nat.le_succ _⟩
  · rw [if_neg he]
    exact ⟨g_link hg d hK upd, Nat.le_refl _⟩

/-- what one expansion does to the builder, and how much it pushes -/
theorem expand_total_spec {nfa : NFA} (hwf : NFAWF nfa) (b : Builder) (d : Nat) (cur : List Nat) (hb : WFB b) :
    G (KeyB nfa.length) b (expandState nfa b d cur).1 (expandState nfa b d cur).2 ∧
    (expandState nfa b d cur).2.length + 1 ≤ transBound nfa := by
  have hcl := col_chars_length hwf cur
  have hrl := col_ranges_length hwf cur
  have hlt := colLt_of_spec hwf (collect_spec hwf cur)
  rw [expandState_eqC, transBound_eq]
  generalize collect nfa cur = col at hcl hrl hlt ⊢
  unfold expandC
  have hg1 : G (KeyB nfa.length) b (st1 b d col) [] :=
    g_setdfa (g_refl _ b hb) _ (List.length_modify _ _ _)
  generalize st1 b d col = b1 at hg1 ⊢
  obtain ⟨hg2, hl2⟩ := charsStageG (nfa := nfa) col d
    (fun e he => keyB_closure hwf _ (ctg_lt hlt he)) b1 hg1
  change G _ b (st2 nfa col d b1).1 (st2 nfa col d b1).2 at hg2
  change (st2 nfa col d b1).2.length = _ at hl2
  generalize st2 nfa col d b1 = a2 at hg2 hl2 ⊢
  obtain ⟨hg3, hl3⟩ := rangesStageG (nfa := nfa) col
    (fun r hr => keyB_closure hwf _ (rtg_lt hlt hr)) a2.1 a2.2 hg2
  change G _ b (st3 nfa col a2).1 (st3 nfa col a2).2.1 at hg3
  change (st3 nfa col a2).2.1.length = _ at hl3
  generalize st3 nfa col a2 = a3 at hg3 hl3 ⊢
  obtain ⟨hl4, _⟩ := predsFold_spec d a3.2.2 a3.1.dfa
  change (preds4 d a3).length = _ at hl4
  have hg4 : G (KeyB nfa.length) b (st4 d a3) a3.2.1 :=
    g_setdfa hg3 _ ((List.length_modify _ _ _).trans hl4)
  generalize st4 d a3 = b4 at hg4 ⊢
  obtain ⟨hg5, hl5⟩ := optStageG (nfa := nfa) d col.any (keyB_closure hwf _ hlt.any)
    (fun t st => { st with any := some t }) (b4, a3.2.1) hg4
  generalize optStep nfa d col.any (fun t st => { st with any := some t }) (b4, a3.2.1) = a5 at hg5 hl5 ⊢
  obtain ⟨hg6, hl6⟩ := optStageG (nfa := nfa) d col.eoi (keyB_closure hwf _ hlt.eoi)
    (fun t st => { st with eoi := some t }) a5 hg5
  refine ⟨hg6, ?_⟩
  simp only at hl5
  omega

/-! ## the work-list loop -/

structure TInv (nfa : NFA) (b : Builder) (finished : List Nat) (wl : List (List Nat)) : Prop where
  wf : WFB b
  keys : ∀ e ∈ b.stateMap, KeyB nfa.length e.1
  wlok : ∀ k ∈ wl, KeyB nfa.length k
  nodup : finished.Nodup
  finlt : ∀ i ∈ finished, i < b.dfa.length

theorem dfa_length_le {nfa : NFA} {b : Builder} (hwf : WFB b) (hk : ∀ e ∈ b.stateMap, KeyB nfa.length e.1) :
    b.dfa.length ≤ 2 ^ nfa.length := by
  have h1 : (b.stateMap.map (·.1)).length ≤ 2 ^ nfa.length :=
    keys_length_le nfa.length _ hwf.1 (fun k hk' => by
      obtain ⟨e, he, rfl⟩ := List.mem_map.mp hk'
      exact hk e he)
  have h2 : (b.stateMap.map (·.2)).length = b.dfa.length := by rw [hwf.2, List.length_range]
  simp only [List.length_map] at h1 h2
  omega

theorem finished_length_lt {finished : List Nat} {m d : Nat} (hn : finished.Nodup)
    (hlt : ∀ i ∈ finished, i < m) (hd : d ∉ finished) (hdm : d < m) : finished.length < m := by
  have h := length_le_of_nodup_subset (d :: finished) (List.range m) (List.nodup_cons.mpr ⟨hd, hn⟩)
    (fun x hx => by
      rcases List.mem_cons.mp hx with rfl | hx
      · exact List.mem_range.mpr hdm
      · exact List.mem_range.mpr (hlt x hx))
  simp only [List.length_cons, List.length_range] at h
  omega

theorem loop_total {nfa : NFA} (hwf : NFAWF nfa) :
    ∀ (fuel : Nat) (wl : List (List Nat)) (finished : List Nat) (b : Builder),
      TInv nfa b finished wl →
      wl.length + (2 ^ nfa.length - finished.length) * (transBound nfa + 1) ≤ fuel →
      ∃ bf, nfaToDfaLoop nfa fuel wl finished b = some bf := by
  intro fuel
  induction fuel with
  | zero =>
    intro wl finished b _ hp
    cases wl with
    | nil => exact ⟨b, rfl⟩
    | cons cur wl => simp only [List.length_cons] at hp; omega
  | succ fuel ih =>
    intro wl finished b hinv hp
    cases wl with
    | nil => exact ⟨b, rfl⟩
    | cons cur wl =>
      rw [loop_cons]
      obtain ⟨s1, s2, s3, s4, s5, s6⟩ := stateOf_spec b cur hinv.wf
      have hkeys1 : ∀ e ∈ (b.stateOf cur).1.stateMap, KeyB nfa.length e.1 := by
        intro e he
        rcases s3 e he with h1 | h1
        · exact hinv.keys e h1
        · rw [h1]; exact hinv.wlok cur List.mem_cons_self
      have hfinlt1 : ∀ i ∈ finished, i < (b.stateOf cur).1.dfa.length :=
        fun i hi => Nat.lt_of_lt_of_le (hinv.finlt i hi) s6
      have hwl : ∀ k ∈ wl, KeyB nfa.length k := fun k hk => hinv.wlok k (List.mem_cons_of_mem _ hk)
      simp only [List.length_cons] at hp
      by_cases hc : (b.stateOf cur).2 ∈ finished
      · rw [if_pos (List.contains_iff_mem.mpr hc)]
        exact ih _ _ _ ⟨s1, hkeys1, hwl, hinv.nodup, hfinlt1⟩ (by omega)
      · rw [if_neg (fun hh => hc (List.contains_iff_mem.mp hh))]
        have hd : (b.stateOf cur).2 < (b.stateOf cur).1.dfa.length := wfb_idx_lt s1 s4
        have hflt := finished_length_lt hinv.nodup hfinlt1 hc hd
        have hP := dfa_length_le s1 hkeys1
        obtain ⟨hg, hpl⟩ := expand_total_spec hwf (b.stateOf cur).1 (b.stateOf cur).2 cur s1
        generalize expandState nfa (b.stateOf cur).1 (b.stateOf cur).2 cur = r at hg hpl ⊢
        apply ih
        · refine ⟨hg.wf, fun e he => ?_, fun k hk => ?_, List.nodup_cons.mpr ⟨hc, hinv.nodup⟩, fun i hi => ?_⟩
          · rcases hg.new e he with h1 | h1
            · exact hkeys1 e h1
            · exact hg.pk _ h1
          · rcases List.mem_append.mp hk with h1 | h1
            · exact hg.pk _ h1
            · exact hwl k h1
          · rcases List.mem_cons.mp hi with h1 | h1
            · rw [h1]; exact Nat.lt_of_lt_of_le hd hg.len
            · exact Nat.lt_of_lt_of_le (hfinlt1 i h1) hg.len
        · simp only [List.length_append, List.length_cons]
          have hsplit : 2 ^ nfa.length - finished.length = (2 ^ nfa.length - (finished.length + 1)) + 1 := by omega
          rw [hsplit, Nat.add_mul, Nat.one_mul] at hp
          generalize (2 ^ nfa.length - (finished.length + 1)) * (transBound nfa + 1) = A at hp ⊢
          omega

theorem tinv_init {nfa : NFA} (hwf : NFAWF nfa) :
    TInv nfa { dfa := [{ (DState.empty : DState Nat) with initial := true }],
               stateMap := [(nfa.closure [0], 0)] } [] [nfa.closure [0]] := by
  have hk : KeyB nfa.length (nfa.closure [0]) := keyB_closure hwf [0] (fun x hx => by
    rw [List.mem_singleton] at hx; rw [hx]; exact hwf.nonempty)
  refine ⟨⟨by simp, rfl⟩, fun e he => ?_, fun k hk' => ?_, List.nodup_nil, fun i hi => (by cases hi)⟩
  · rw [List.mem_singleton] at he; rw [he]; exact hk
  · rw [List.mem_singleton] at hk'; rw [hk']; exact hk

end Lexgen.SubsetTotal

namespace Lexgen
open Lexgen.Subset Lexgen.SubsetTotal

/-- the work-list subset construction terminates within its fuel on every well-formed NFA (the model's `none` = the macro's loop would not end) -/
theorem nfaToDfa_total (nfa : NFA) (hwf : NFAWF nfa) : ∃ d, nfaToDfa nfa = some d := by
  unfold nfaToDfa
  obtain ⟨bf, hbf⟩ := loop_total hwf (nfaToDfaFuel nfa) [nfa.closure [0]] [] _ (tinv_init hwf) (by
    unfold nfaToDfaFuel
    simp only [List.length_cons, List.length_nil, Nat.sub_zero]
    omega)
  exact ⟨bf.dfa, by simp only [hbf, Option.map_some]⟩

end Lexgen
