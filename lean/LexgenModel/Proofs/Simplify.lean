import LexgenModel.Spec.Compile
/-!
# `DFA::add_dfa` and `simplify`: index arithmetic and behaviour preservation
-/
namespace Lexgen
namespace Simplify

/-! ## Lookups under a map of the targets -/

theorem lookupChar_map {α β : Type} (f : α → β) (l : List (Nat × α)) (c : Nat) :
    lookupChar (l.map fun e => (e.1, f e.2)) c = (lookupChar l c).map f := by
  induction l with
  | nil => rfl
  | cons e l ih =>
    obtain ⟨k, t⟩ := e
    simp only [List.map_cons, lookupChar]
    by_cases hk : k = c
    · simp [hk]
    · simp [hk, ih]

theorem rangeLookup_mapVals {α β : Type} (f : α → β) (l : RangeMap α) (c : Nat) :
    RangeMap.lookup (RangeMap.mapVals f l) c = (RangeMap.lookup l c).map f := by
  induction l with
  | nil => rfl
  | cons e l ih =>
    obtain ⟨s, e, v⟩ := e
    simp only [RangeMap.mapVals, List.map_cons, RangeMap.lookup]
    by_cases hk : s ≤ c ∧ c ≤ e
    · simp [hk]
    · simp only [RangeMap.mapVals] at ih
      simp [hk, ih]

theorem lookupTrans_map {α β : Type} (f : α → β) (s : DState α) (s' : DState β)
    (hc : s'.chars = s.chars.map fun e => (e.1, f e.2))
    (hr : s'.ranges = RangeMap.mapVals f s.ranges)
    (ha : s'.any = s.any.map f) (c : Nat) :
    lookupTrans s' c = (lookupTrans s c).map f := by
  unfold lookupTrans
  rw [hc, hr, ha, lookupChar_map, rangeLookup_mapVals]
  cases lookupChar s.chars c with
  | some t => rfl
  | none =>
    cases RangeMap.lookup s.ranges c with
    | some t => rfl
    | none => rfl

theorem lookupChar_mem {α : Type} (l : List (Nat × α)) (c : Nat) (t : α)
    (h : lookupChar l c = some t) : t ∈ l.map (·.2) := by
  induction l with
  | nil => simp [lookupChar] at h
  | cons e l ih =>
    obtain ⟨k, v⟩ := e
    simp only [lookupChar] at h
    by_cases hk : k = c
    · simp only [hk, if_true, Option.some.injEq] at h
      simp [h]
    · simp only [hk, if_false] at h
      simp [ih h]

theorem rangeLookup_mem {α : Type} (l : RangeMap α) (c : Nat) (t : α)
    (h : RangeMap.lookup l c = some t) : t ∈ l.map (·.2.2) := by
  induction l with
  | nil => simp [RangeMap.lookup] at h
  | cons e l ih =>
    obtain ⟨s, e, v⟩ := e
    simp only [RangeMap.lookup] at h
    by_cases hk : s ≤ c ∧ c ≤ e
    · simp only [hk, and_self, if_true, Option.some.injEq] at h
      simp [h]
    · simp only [hk, if_false] at h
      simp [ih h]

theorem lookupTrans_mem_succs {α : Type} (s : DState α) (c : Nat) (t : α)
    (h : lookupTrans s c = some t) : t ∈ DFA.succs s := by
  unfold lookupTrans at h
  unfold DFA.succs
  cases hc : lookupChar s.chars c with
  | some x =>
    simp only [hc, Option.some.injEq] at h
    have := lookupChar_mem _ _ _ hc
    subst h
    simp only [List.mem_append]
    exact Or.inl (Or.inl (Or.inl this))
  | none =>
    simp only [hc] at h
    cases hr : RangeMap.lookup s.ranges c with
    | some x =>
      simp only [hr, Option.some.injEq] at h
      have := rangeLookup_mem _ _ _ hr
      subst h
      simp only [List.mem_append]
      exact Or.inl (Or.inl (Or.inr this))
    | none =>
      simp only [hr] at h
      simp only [List.mem_append]
      exact Or.inl (Or.inr (by simp [h]))

theorem lookupTrans_none_of_hasNoTransitions {α : Type} (s : DState α)
    (h : DFA.hasNoTransitions s = true) (c : Nat) : lookupTrans s c = none := by
  unfold DFA.hasNoTransitions at h
  simp only [Bool.and_eq_true, List.isEmpty_iff, Option.isNone_iff_eq_none] at h
  obtain ⟨⟨⟨h1, h2⟩, h3⟩, _⟩ := h
  unfold lookupTrans
  rw [h1, h2, h3]
  rfl

/-! ## States of an appended automaton -/

theorem st_eq_of_getElem? {τ : Type} (d : DFA τ) (i : Nat) (x : DState τ) (h : d[i]? = some x) :
    d.st i = x := by
  unfold DFA.st
  rw [List.getD_eq_getElem?_getD, h]
  rfl

theorem getElem?_st {τ : Type} (d : DFA τ) (i : Nat) (h : i < d.length) : d[i]? = some (d.st i) := by
  unfold DFA.st
  rw [List.getD_eq_getElem?_getD, List.getElem?_eq_getElem h]
  rfl

theorem st_append_left {τ : Type} (d e : DFA τ) (s : Nat) (h : s < d.length) :
    DFA.st (d ++ e) s = d.st s := by
  apply st_eq_of_getElem?
  rw [List.getElem?_append_left h]
  exact getElem?_st d s h

theorem st_append_right {τ : Type} (d e : DFA τ) (s : Nat) :
    DFA.st (d ++ e) (d.length + s) = e.st s := by
  unfold DFA.st
  rw [List.getD_eq_getElem?_getD, List.getD_eq_getElem?_getD,
    List.getElem?_append_right (Nat.le_add_right _ _), Nat.add_sub_cancel_left]

theorem st_map {α β : Type} (f : DState α → DState β) (d : DFA α) (s : Nat) (h : s < d.length) :
    DFA.st (d.map f) s = f (d.st s) := by
  apply st_eq_of_getElem?
  rw [List.getElem?_map, getElem?_st d s h]
  rfl

theorem reachN_lt (d : DFA Nat) (hT : TargetsInRange d) (w : List Nat) :
    ∀ s, s < d.length → ∀ t, reachN d s w = some t → t < d.length := by
  induction w with
  | nil =>
    intro s hs t h
    simp only [reachN, Option.some.injEq] at h
    omega
  | cons x w ih =>
    intro s hs t h
    simp only [reachN] at h
    cases hl : lookupTrans (d.st s) x with
    | none => simp [hl] at h
    | some u =>
      simp only [hl] at h
      exact ih u (hT s hs u (lookupTrans_mem_succs _ _ _ hl)) t h

end Simplify

open Simplify

theorem addDfa_spec (d other : DFA Nat) :
    (addDfa d other).2 = d.length ∧ (addDfa d other).1.length = d.length + other.length ∧
    (∀ s, s < d.length → (addDfa d other).1.st s = d.st s) ∧
    (∀ s, s < other.length → (addDfa d other).1.st (d.length + s) = shiftState d.length (other.st s)) := by
  refine ⟨rfl, ?_, ?_, ?_⟩
  · simp [addDfa]
  · intro s hs
    exact st_append_left _ _ _ hs
  · intro s hs
    simp only [addDfa]
    rw [st_append_right, st_map _ _ _ hs]

namespace Simplify

theorem lookupTrans_shift (k : Nat) (s : DState Nat) (c : Nat) :
    lookupTrans (shiftState k s) c = (lookupTrans s c).map (· + k) :=
  lookupTrans_map (· + k) s (shiftState k s) rfl rfl rfl c

end Simplify

/-- the appended block behaves like the original automaton, shifted -/
theorem addDfa_reach_right (d other : DFA Nat) (hT : TargetsInRange other) (s : Nat) (hs : s < other.length) (w : List Nat) :
    reachN (addDfa d other).1 (d.length + s) w = (reachN other s w).map (· + d.length) ∧
    (∀ t, reachN other s w = some t →
      ((addDfa d other).1.st (d.length + t)).accepting = (other.st t).accepting ∧
      ((addDfa d other).1.st (d.length + t)).eoi = (other.st t).eoi.map (· + d.length)) := by
  obtain ⟨_, _, _, hR⟩ := addDfa_spec d other
  constructor
  · induction w generalizing s with
    | nil => simp [reachN, Nat.add_comm]
    | cons x w ih =>
      simp only [reachN]
      rw [hR s hs, lookupTrans_shift]
      cases hl : lookupTrans (other.st s) x with
      | none => rfl
      | some u =>
        have hu : u < other.length := hT s hs u (lookupTrans_mem_succs _ _ _ hl)
        simp only [Option.map_some]
        rw [Nat.add_comm u d.length]
        exact ih u hu
  · intro t ht
    have hlt := reachN_lt other hT w s hs t ht
    rw [hR t hlt]
    exact ⟨rfl, rfl⟩

/-- the existing block is untouched: no transition crosses blocks -/
theorem addDfa_reach_left (d other : DFA Nat) (hT : TargetsInRange d) (s : Nat) (hs : s < d.length) (w : List Nat) :
    reachN (addDfa d other).1 s w = reachN d s w := by
  obtain ⟨_, _, hL, _⟩ := addDfa_spec d other
  induction w generalizing s with
  | nil => rfl
  | cons x w ih =>
    simp only [reachN]
    rw [hL s hs]
    cases hl : lookupTrans (d.st s) x with
    | none => rfl
    | some u =>
      have hu : u < d.length := hT s hs u (lookupTrans_mem_succs _ _ _ hl)
      exact ih u hu

namespace Simplify

/-! ## Counting in filtered ranges -/

/-- number of `i < n` with `p i` -/
def cnt (p : Nat → Bool) (n : Nat) : Nat := ((List.range n).filter p).length

theorem cnt_succ (p : Nat → Bool) (n : Nat) :
    cnt p (n + 1) = cnt p n + (if p n = true then 1 else 0) := by
  unfold cnt
  rw [List.range_succ, List.filter_append, List.length_append]
  by_cases hp : p n = true
  · simp [List.filter, hp]
  · simp [List.filter, hp]

theorem cnt_add_cnt_not (p : Nat → Bool) (n : Nat) : cnt p n + cnt (fun i => !p i) n = n := by
  induction n with
  | zero => rfl
  | succ n ih =>
    rw [cnt_succ, cnt_succ]
    by_cases hp : p n = true
    · simp only [hp, if_true, Bool.not_true, Bool.false_eq_true, if_false]
      omega
    · have hp' : p n = false := by simpa using hp
      simp only [hp', Bool.false_eq_true, if_false, Bool.not_false, if_true]
      omega

/-- cutting a filtered range at `s ≤ n` gives the filtered shorter range -/
theorem filter_lt_filter_range (p : Nat → Bool) (n : Nat) :
    ∀ s, s ≤ n → ((List.range n).filter p).filter (fun i => decide (i < s)) = (List.range s).filter p := by
  induction n with
  | zero =>
    intro s hs
    have : s = 0 := by omega
    subst this
    rfl
  | succ n ih =>
    intro s hs
    by_cases hsn : s ≤ n
    · rw [List.range_succ, List.filter_append, List.filter_append, ih s hsn]
      have : List.filter (fun i => decide (i < s)) (List.filter p [n]) = [] := by
        rw [List.filter_eq_nil_iff]
        intro a ha
        rw [List.mem_filter, List.mem_singleton] at ha
        simp only [decide_eq_true_eq]
        omega
      rw [this, List.append_nil]
    · have : s = n + 1 := by omega
      subst this
      rw [List.filter_eq_self]
      intro a ha
      rw [List.mem_filter, List.mem_range] at ha
      simp only [decide_eq_true_eq]
      exact ha.1

/-- the `cnt p s`-th element of the filtered range is `s` -/
theorem getElem?_filter_range (p : Nat → Bool) (n : Nat) :
    ∀ s, s < n → p s = true → ((List.range n).filter p)[cnt p s]? = some s := by
  induction n with
  | zero => intro s hs; omega
  | succ n ih =>
    intro s hs hp
    rw [List.range_succ, List.filter_append]
    by_cases hsn : s < n
    · have h := ih s hsn hp
      obtain ⟨hlt, _⟩ := List.getElem?_eq_some_iff.mp h
      rw [List.getElem?_append_left hlt]
      exact h
    · have : s = n := by omega
      subst this
      have hlen : ((List.range s).filter p).length ≤ cnt p s := Nat.le_refl _
      rw [List.getElem?_append_right hlen]
      have : cnt p s - ((List.range s).filter p).length = 0 := by unfold cnt; omega
      rw [this]
      simp [List.filter, hp]

/-! ## `emptyStates`, `kept`, `newIdx` -/

/-- the removal predicate -/
def isEmpty (d : DFA Nat) (i : Nat) : Bool := DFA.hasNoTransitions (d.st i) && !(d.st i).initial

theorem emptyStates_eq (d : DFA Nat) : emptyStates d = (List.range d.length).filter (isEmpty d) := rfl

theorem contains_emptyStates (d : DFA Nat) (s : Nat) :
    (emptyStates d).contains s = (decide (s < d.length) && isEmpty d s) := by
  rw [List.contains_eq_mem, emptyStates_eq]
  by_cases h : s ∈ List.filter (isEmpty d) (List.range d.length)
  · have h' := h
    rw [List.mem_filter, List.mem_range] at h'
    simp [h, h'.1, h'.2]
  · have h' := h
    rw [List.mem_filter, List.mem_range] at h'
    simp only [h, decide_false]
    by_cases h1 : s < d.length
    · have : isEmpty d s = false := by
        cases he : isEmpty d s with
        | false => rfl
        | true => exact absurd ⟨h1, he⟩ h'
      simp [this]
    · simp [h1]

/-- the list of kept states, as in `simplify` -/
def kept (d : DFA Nat) : List Nat := (List.range d.length).filter fun i => !(emptyStates d).contains i

theorem kept_eq (d : DFA Nat) : kept d = (List.range d.length).filter (fun i => !isEmpty d i) := by
  unfold kept
  apply List.filter_congr
  intro x hx
  rw [List.mem_range] at hx
  rw [contains_emptyStates]
  simp [hx]

theorem removedBelow_eq (d : DFA Nat) (s : Nat) (hs : s ≤ d.length) :
    removedBelow (emptyStates d) s = cnt (isEmpty d) s := by
  unfold removedBelow cnt
  rw [emptyStates_eq]
  have := filter_lt_filter_range (isEmpty d) d.length s hs
  rw [← this]

theorem newIdx_eq (d : DFA Nat) (s : Nat) (hs : s ≤ d.length) :
    newIdx d s = cnt (fun i => !isEmpty d i) s := by
  unfold newIdx
  rw [removedBelow_eq d s hs]
  have := cnt_add_cnt_not (isEmpty d) s
  omega

theorem kept_length (d : DFA Nat) : (kept d).length = d.length - (emptyStates d).length := by
  rw [kept_eq, emptyStates_eq]
  have := cnt_add_cnt_not (isEmpty d) d.length
  unfold cnt at this
  omega

theorem kept_getElem? (d : DFA Nat) (s : Nat) (hs : s < d.length)
    (hk : (emptyStates d).contains s = false) : (kept d)[newIdx d s]? = some s := by
  rw [newIdx_eq d s (Nat.le_of_lt hs), kept_eq]
  apply getElem?_filter_range _ _ s hs
  rw [contains_emptyStates] at hk
  simp only [hs, decide_true, Bool.true_and] at hk
  simp [hk]

/-! ## `mapM` in `Except` -/

theorem mapM_ok {α β ε : Type} (f : α → Except ε β) :
    ∀ (l : List α) (r : List β), l.mapM f = .ok r →
      r.length = l.length ∧ ∀ (i : Nat) (x : α), l[i]? = some x → ∃ y, r[i]? = some y ∧ f x = .ok y := by
  intro l
  induction l with
  | nil =>
    intro r h
    rw [List.mapM_nil] at h
    cases h
    simp
  | cons a l ih =>
    intro r h
    rw [List.mapM_cons] at h
    cases hfa : f a with
    | error e =>
      rw [hfa] at h
      cases h
    | ok y =>
      rw [hfa] at h
      cases hl : List.mapM f l with
      | error e =>
        rw [hl] at h
        cases h
      | ok r' =>
        rw [hl] at h
        cases h
        obtain ⟨h1, h2⟩ := ih r' hl
        refine ⟨by simp [h1], ?_⟩
        intro i x hx
        cases i with
        | zero =>
          simp only [List.getElem?_cons_zero, Option.some.injEq] at hx
          subst hx
          exact ⟨y, by simp, hfa⟩
        | succ i =>
          simp only [List.getElem?_cons_succ] at hx
          obtain ⟨y', hy1, hy2⟩ := h2 i x hx
          exact ⟨y', by simpa using hy1, hy2⟩

/-! ## `simplifyState` and `simplify` -/

theorem simplifyState_ok (d : DFA Nat) (empties : List Nat) (s : DState Nat) (y : DState Trans)
    (h : simplifyState d empties s = .ok y) :
    y.initial = s.initial ∧
    y.chars = (s.chars.map fun e => (e.1, mapTransition d empties e.2)) ∧
    y.ranges = RangeMap.mapVals (mapTransition d empties) s.ranges ∧
    y.any = s.any.map (mapTransition d empties) ∧
    y.eoi = s.eoi.map (mapTransition d empties) ∧
    y.accepting = s.accepting ∧
    y.backtrack = s.backtrack := by
  unfold simplifyState at h
  simp only [bind, Except.bind] at h
  split at h
  · cases h
  · simp only [pure, Except.pure, Except.ok.injEq] at h
    subst h
    exact ⟨rfl, rfl, rfl, rfl, rfl, rfl, rfl⟩

theorem simplify_ok (d : DFA Nat) (entries : List (String × Nat)) (d' : DFA Trans) (entries' : List (String × Nat))
    (h : simplify d entries = .ok (d', entries')) :
    (kept d).mapM (fun i => simplifyState d (emptyStates d) (d.st i)) = .ok d' ∧
    entries' = entries.map (fun e => (e.1, newIdx d e.2)) := by
  unfold simplify at h
  simp only [bind, Except.bind] at h
  split at h
  · cases h
  · rename_i states hm
    simp only [pure, Except.pure, Except.ok.injEq, Prod.mk.injEq] at h
    obtain ⟨h1, h2⟩ := h
    subst h1
    exact ⟨hm, h2.symm⟩

theorem toCfg_mapTransition (d : DFA Nat) (t : Nat) :
    Target.toCfg (mapTransition d (emptyStates d) t) = cfgOf d t := by
  unfold mapTransition cfgOf newIdx
  by_cases h : (emptyStates d).contains t = true
  · simp only [h, if_true]
    rfl
  · simp only [h]
    rfl

/-- the state of the simplified automaton at the new index of a kept state -/
theorem simplify_state (d : DFA Nat) (entries : List (String × Nat)) (d' : DFA Trans) (entries' : List (String × Nat))
    (h : simplify d entries = .ok (d', entries'))
    (s : Nat) (hs : s < d.length) (hk : (emptyStates d).contains s = false) :
    newIdx d s < d'.length ∧
    simplifyState d (emptyStates d) (d.st s) = .ok (d'.st (newIdx d s)) := by
  obtain ⟨hm, _⟩ := simplify_ok d entries d' entries' h
  obtain ⟨hlen, hget⟩ := mapM_ok _ _ _ hm
  obtain ⟨y, hy1, hy2⟩ := hget (newIdx d s) s (kept_getElem? d s hs hk)
  obtain ⟨hlt, _⟩ := List.getElem?_eq_some_iff.mp hy1
  refine ⟨hlt, ?_⟩
  rw [st_eq_of_getElem? d' _ y hy1]
  exact hy2

end Simplify

theorem simplify_spec (d : DFA Nat) (entries : List (String × Nat)) (d' : DFA Trans) (entries' : List (String × Nat))
    (h : simplify d entries = .ok (d', entries')) (hT : TargetsInRange d) :
    entries' = entries.map (fun e => (e.1, newIdx d e.2)) ∧
    d'.length = d.length - (emptyStates d).length ∧
    (∀ s, s < d.length → (emptyStates d).contains s = false →
      newIdx d s < d'.length ∧
      (d'.st (newIdx d s)).accepting = (d.st s).accepting ∧
      (d'.st (newIdx d s)).initial = (d.st s).initial ∧
      (d'.st (newIdx d s)).backtrack = (d.st s).backtrack ∧
      (∀ c, (lookupTrans (d'.st (newIdx d s)) c).map Target.toCfg = (lookupTrans (d.st s) c).map (cfgOf d)) ∧
      (d'.st (newIdx d s)).eoi.map Target.toCfg = (d.st s).eoi.map (cfgOf d)) := by
  have _ := hT
  obtain ⟨hm, he⟩ := simplify_ok d entries d' entries' h
  refine ⟨he, ?_, ?_⟩
  · rw [(mapM_ok _ _ _ hm).1, kept_length]
  · intro s hs hk
    obtain ⟨hlt, hst⟩ := simplify_state d entries d' entries' h s hs hk
    obtain ⟨h1, h2, h3, h4, h5, h6, h7⟩ := simplifyState_ok _ _ _ _ hst
    refine ⟨hlt, h6, h1, h7, ?_, ?_⟩
    · intro c
      rw [lookupTrans_map (mapTransition d (emptyStates d)) (d.st s) _ h2 h3 h4 c, Option.map_map]
      congr 1
      funext t
      exact toCfg_mapTransition d t
    · rw [h5, Option.map_map]
      congr 1
      funext t
      exact toCfg_mapTransition d t

namespace Simplify

theorem reach_term (d' : DFA Trans) (accs : List Acc) (w : List Nat) :
    (reach d' (.term accs) w).map (Auto.acc d') = if w = [] then some accs else none := by
  cases w with
  | nil => rfl
  | cons x w => rfl

theorem reachN_removed (d : DFA Nat) (t : Nat) (ht : (emptyStates d).contains t = true) (w : List Nat) :
    (reachN d t w).map (fun u => (d.st u).accepting) = if w = [] then some (d.st t).accepting else none := by
  cases w with
  | nil => rfl
  | cons x w =>
    rw [contains_emptyStates] at ht
    simp only [Bool.and_eq_true, isEmpty] at ht
    simp only [reachN]
    rw [lookupTrans_none_of_hasNoTransitions _ ht.2.1]
    rfl

/-- accept lists along every word agree, from the configuration a state becomes -/
theorem simplify_reach_cfg (d : DFA Nat) (entries : List (String × Nat)) (d' : DFA Trans) (entries' : List (String × Nat))
    (h : simplify d entries = .ok (d', entries')) (hT : TargetsInRange d) (w : List Nat) :
    ∀ s, s < d.length →
      (reach d' (cfgOf d s) w).map (Auto.acc d') = (reachN d s w).map (fun t => (d.st t).accepting) := by
  obtain ⟨_, _, hS⟩ := simplify_spec d entries d' entries' h hT
  induction w with
  | nil =>
    intro s hs
    by_cases hk : (emptyStates d).contains s = true
    · simp only [cfgOf, hk, if_true]
      rfl
    · have hk' : (emptyStates d).contains s = false := by simpa using hk
      simp only [cfgOf, hk', Bool.false_eq_true, if_false, reach, reachN, Option.map_some, Auto.acc]
      rw [(hS s hs hk').2.1]
  | cons x w ih =>
    intro s hs
    by_cases hk : (emptyStates d).contains s = true
    · rw [reachN_removed d s hk]
      simp only [cfgOf, hk, if_true]
      rw [reach_term]
    · have hk' : (emptyStates d).contains s = false := by simpa using hk
      have hstep := (hS s hs hk').2.2.2.2.1 x
      simp only [cfgOf, hk', Bool.false_eq_true, if_false, reach, reachN]
      cases hl : lookupTrans (d.st s) x with
      | none =>
        rw [hl] at hstep
        cases hl' : lookupTrans (d'.st (newIdx d s)) x with
        | none => rfl
        | some t' => rw [hl'] at hstep; cases hstep
      | some t =>
        rw [hl] at hstep
        cases hl' : lookupTrans (d'.st (newIdx d s)) x with
        | none => rw [hl'] at hstep; cases hstep
        | some t' =>
          rw [hl'] at hstep
          simp only [Option.map_some, Option.some.injEq] at hstep
          simp only []
          rw [hstep]
          exact ih t (hT s hs t (lookupTrans_mem_succs _ _ _ hl))

end Simplify

/-- accept lists are preserved for every word, from every kept state -/
theorem simplify_reach (d : DFA Nat) (entries : List (String × Nat)) (d' : DFA Trans) (entries' : List (String × Nat))
    (h : simplify d entries = .ok (d', entries')) (hT : TargetsInRange d)
    (s : Nat) (hs : s < d.length) (hk : (emptyStates d).contains s = false) (w : List Nat) :
    (reach d' (.st (newIdx d s)) w).map (Auto.acc d') = (reachN d s w).map (fun t => (d.st t).accepting) := by
  have := simplify_reach_cfg d entries d' entries' h hT w s hs
  simp only [cfgOf, hk, Bool.false_eq_true, if_false] at this
  exact this

end Lexgen
