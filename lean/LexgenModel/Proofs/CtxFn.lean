import LexgenModel.Spec.Compile
/-!
# Right-context functions (`generate_right_ctx_fns`) and the `firstOK` chains

`ctxRun` (the generated lookahead function) decides `CtxAccepts`; `firstOK` (the
`if ctx_i(..) {..} else ..` chains) selects the first entry whose context is absent or holds.
-/
namespace Lexgen
namespace CtxFn

/-- `CtxAccepts` from an arbitrary start state -/
def AcceptsFrom (d : DFA Nat) (s : Nat) (rest : List Nat) : Prop :=
  (∃ j t, j ≤ rest.length ∧ reachN d s (rest.take j) = some t ∧ (d.st t).accepting ≠ []) ∨
  (∃ t n u, reachN d s rest = some t ∧ n ≤ d.length ∧ eoiChain d n t = some u ∧
    (d.st u).accepting ≠ [])

theorem not_isEmpty_iff (l : List Acc) : (!l.isEmpty) = true ↔ l ≠ [] := by
  cases l with
  | nil => simp
  | cons a l => simp

theorem not_isEmpty_of_nil {l : List Acc} (h : l = []) : (!l.isEmpty) = false := by
  subst h; rfl

theorem ctxEoi_succ_acc (d : DFA Nat) (fuel s : Nat) (h : (d.st s).accepting ≠ []) :
    ctxEoi d (fuel + 1) s = true := by
  have h' := (not_isEmpty_iff _).2 h
  simp only [ctxEoi, h', if_true]

theorem ctxEoi_succ_nacc (d : DFA Nat) (fuel s : Nat) (h : (d.st s).accepting = []) :
    ctxEoi d (fuel + 1) s =
      (match (d.st s).eoi with
        | some t => ctxEoi d fuel t
        | none => false) := by
  have h' := not_isEmpty_of_nil h
  simp only [ctxEoi, h']
  rfl

theorem ctxEoi_iff (d : DFA Nat) (fuel s : Nat) :
    ctxEoi d fuel s = true ↔
      ∃ n t, n < fuel ∧ eoiChain d n s = some t ∧ (d.st t).accepting ≠ [] := by
  induction fuel generalizing s with
  | zero =>
    constructor
    · intro h; simp [ctxEoi] at h
    · rintro ⟨n, t, hn, _⟩; omega
  | succ f ih =>
    by_cases hacc : (d.st s).accepting = []
    · rw [ctxEoi_succ_nacc d f s hacc]
      cases he : (d.st s).eoi with
      | none =>
        constructor
        · intro h; simp at h
        · rintro ⟨n, t, hn, hc, ha⟩
          cases n with
          | zero =>
            simp only [eoiChain, Option.some.injEq] at hc
            subst hc; exact absurd hacc ha
          | succ n => simp [eoiChain, he] at hc
      | some t' =>
        show ctxEoi d f t' = true ↔ _
        rw [ih t']
        constructor
        · rintro ⟨n, t, hn, hc, ha⟩
          refine ⟨n + 1, t, by omega, ?_, ha⟩
          simp only [eoiChain, he]; exact hc
        · rintro ⟨n, t, hn, hc, ha⟩
          cases n with
          | zero =>
            simp only [eoiChain, Option.some.injEq] at hc
            subst hc; exact absurd hacc ha
          | succ n =>
            simp only [eoiChain, he] at hc
            exact ⟨n, t, by omega, hc, ha⟩
    · rw [ctxEoi_succ_acc d f s hacc]
      constructor
      · intro _
        exact ⟨0, s, by omega, rfl, hacc⟩
      · intro _; rfl

theorem ctxRun_nil (d : DFA Nat) (s : Nat) : ctxRun d s [] = ctxEoi d (d.length + 1) s := by
  simp only [ctxRun]

theorem ctxRun_cons_acc (d : DFA Nat) (s c : Nat) (r : List Nat) (h : (d.st s).accepting ≠ []) :
    ctxRun d s (c :: r) = true := by
  have h' := (not_isEmpty_iff _).2 h
  simp only [ctxRun, h', if_true]

theorem ctxRun_cons_nacc (d : DFA Nat) (s c : Nat) (r : List Nat) (h : (d.st s).accepting = []) :
    ctxRun d s (c :: r) =
      (match lookupTrans (d.st s) c with
        | some t => ctxRun d t r
        | none => false) := by
  have h' := not_isEmpty_of_nil h
  simp only [ctxRun, h']
  rfl

theorem reachN_cons (d : DFA Nat) (s c : Nat) (r : List Nat) :
    reachN d s (c :: r) =
      (match lookupTrans (d.st s) c with
        | some t => reachN d t r
        | none => none) := by
  simp only [reachN]
  cases lookupTrans (d.st s) c <;> rfl

theorem ctxRun_iff_from (d : DFA Nat) (s : Nat) (rest : List Nat) :
    ctxRun d s rest = true ↔ AcceptsFrom d s rest := by
  induction rest generalizing s with
  | nil =>
    rw [ctxRun_nil, ctxEoi_iff]
    constructor
    · rintro ⟨n, t, hn, hc, ha⟩
      exact Or.inr ⟨s, n, t, rfl, by omega, hc, ha⟩
    · rintro (⟨j, t, hj, hr, ha⟩ | ⟨t, n, u, hr, hn, hc, ha⟩)
      · simp only [List.take_nil, reachN, Option.some.injEq] at hr
        subst hr
        exact ⟨0, s, by omega, rfl, ha⟩
      · simp only [reachN, Option.some.injEq] at hr
        subst hr
        exact ⟨n, u, by omega, hc, ha⟩
  | cons c r ih =>
    by_cases hacc : (d.st s).accepting = []
    · rw [ctxRun_cons_nacc d s c r hacc]
      cases hl : lookupTrans (d.st s) c with
      | none =>
        constructor
        · intro h; simp at h
        · rintro (⟨j, t, hj, hr, ha⟩ | ⟨t, n, u, hr, hn, hc, ha⟩)
          · cases j with
            | zero =>
              simp only [List.take_zero, reachN, Option.some.injEq] at hr
              subst hr; exact absurd hacc ha
            | succ j =>
              rw [List.take_succ_cons, reachN_cons, hl] at hr
              simp at hr
          · rw [reachN_cons, hl] at hr
            simp at hr
      | some t' =>
        show ctxRun d t' r = true ↔ _
        rw [ih t']
        constructor
        · rintro (⟨j, t, hj, hr, ha⟩ | ⟨t, n, u, hr, hn, hc, ha⟩)
          · refine Or.inl ⟨j + 1, t, by simp only [List.length_cons]; omega, ?_, ha⟩
            rw [List.take_succ_cons, reachN_cons, hl]; exact hr
          · refine Or.inr ⟨t, n, u, ?_, hn, hc, ha⟩
            rw [reachN_cons, hl]; exact hr
        · rintro (⟨j, t, hj, hr, ha⟩ | ⟨t, n, u, hr, hn, hc, ha⟩)
          · cases j with
            | zero =>
              simp only [List.take_zero, reachN, Option.some.injEq] at hr
              subst hr; exact absurd hacc ha
            | succ j =>
              rw [List.take_succ_cons, reachN_cons, hl] at hr
              simp only [List.length_cons] at hj
              exact Or.inl ⟨j, t, by omega, hr, ha⟩
          · rw [reachN_cons, hl] at hr
            exact Or.inr ⟨t, n, u, hr, hn, hc, ha⟩
    · rw [ctxRun_cons_acc d s c r hacc]
      constructor
      · intro _
        exact Or.inl ⟨0, s, by omega, rfl, hacc⟩
      · intro _; rfl

theorem acceptsFrom_zero (d : DFA Nat) (rest : List Nat) :
    AcceptsFrom d 0 rest ↔ CtxAccepts d rest := Iff.rfl

/-! ### `firstOK` -/

theorem firstOK_cons_none (ok : Nat → Bool) (x : Acc) (rest : List Acc) (h : x.ctx = none) :
    firstOK ok (x :: rest) = some x.value := by
  simp only [firstOK, h]

theorem firstOK_cons_ok (ok : Nat → Bool) (x : Acc) (rest : List Acc) (i : Nat)
    (h : x.ctx = some i) (hi : ok i = true) :
    firstOK ok (x :: rest) = some x.value := by
  simp only [firstOK, h, hi, if_true]

theorem firstOK_cons_fail (ok : Nat → Bool) (x : Acc) (rest : List Acc) (i : Nat)
    (h : x.ctx = some i) (hi : ok i = false) :
    firstOK ok (x :: rest) = firstOK ok rest := by
  simp only [firstOK, h, hi]
  rfl

/-- a failing prefix is skipped -/
theorem firstOK_append_fail (ok : Nat → Bool) (pre rest : List Acc)
    (h : ∀ y ∈ pre, ∃ i, y.ctx = some i ∧ ok i = false) :
    firstOK ok (pre ++ rest) = firstOK ok rest := by
  induction pre with
  | nil => rfl
  | cons y pre ih =>
    obtain ⟨i, hc, hi⟩ := h y (List.mem_cons_self ..)
    rw [List.cons_append, firstOK_cons_fail ok y _ i hc hi]
    exact ih (fun z hz => h z (List.mem_cons_of_mem _ hz))

/-- the head is selectable or failing -/
theorem head_cases (ok : Nat → Bool) (x : Acc) :
    (x.ctx = none ∨ ∃ i, x.ctx = some i ∧ ok i = true) ∨ (∃ i, x.ctx = some i ∧ ok i = false) := by
  cases hc : x.ctx with
  | none => exact Or.inl (Or.inl rfl)
  | some i =>
    cases hi : ok i with
    | true => exact Or.inl (Or.inr ⟨i, rfl, hi⟩)
    | false => exact Or.inr ⟨i, rfl, hi⟩

theorem firstOK_cons_sel (ok : Nat → Bool) (x : Acc) (rest : List Acc)
    (h : x.ctx = none ∨ ∃ i, x.ctx = some i ∧ ok i = true) :
    firstOK ok (x :: rest) = some x.value := by
  rcases h with h | ⟨i, hc, hi⟩
  · exact firstOK_cons_none ok x rest h
  · exact firstOK_cons_ok ok x rest i hc hi

end CtxFn

open CtxFn

/-- The generated context function returns `true` exactly when the context automaton accepts some
prefix of the remaining input (with end-of-input visible after it). -/
theorem ctxRun_iff (d : DFA Nat) (rest : List Nat) : ctxRun d 0 rest = true ↔ CtxAccepts d rest :=
  (ctxRun_iff_from d 0 rest).trans (acceptsFrom_zero d rest)

/-- no entry is selectable iff every entry has a failing context -/
theorem firstOK_none (ok : Nat → Bool) (accs : List Acc) :
    firstOK ok accs = none ↔ ∀ y ∈ accs, ∃ i, y.ctx = some i ∧ ok i = false := by
  induction accs with
  | nil =>
    constructor
    · intro _ y hy; cases hy
    · intro _; rfl
  | cons x rest ih =>
    rcases head_cases ok x with hsel | ⟨i, hc, hi⟩
    · rw [firstOK_cons_sel ok x rest hsel]
      constructor
      · intro h; cases h
      · intro h
        obtain ⟨i, hc, hi⟩ := h x (List.mem_cons_self ..)
        rcases hsel with hn | ⟨k, hk, hok⟩
        · rw [hn] at hc; cases hc
        · rw [hk] at hc
          cases hc
          rw [hok] at hi; cases hi
    · rw [firstOK_cons_fail ok x rest i hc hi, ih]
      constructor
      · intro h y hy
        rcases List.mem_cons.1 hy with rfl | hy
        · exact ⟨i, hc, hi⟩
        · exact h y hy
      · intro h y hy
        exact h y (List.mem_cons_of_mem _ hy)

/-- A right context gates a match: the action selected from an accepting list is that of the first
entry that has no context or whose context holds; entries whose context fails are skipped exactly
as if they were absent. -/
theorem firstOK_spec (ok : Nat → Bool) (accs : List Acc) (a : Nat) :
    firstOK ok accs = some a ↔
      ∃ pre x post, accs = pre ++ x :: post ∧ x.value = a ∧
        (x.ctx = none ∨ ∃ i, x.ctx = some i ∧ ok i = true) ∧
        ∀ y ∈ pre, ∃ i, y.ctx = some i ∧ ok i = false := by
  constructor
  · induction accs with
    | nil => intro h; cases h
    | cons x rest ih =>
      intro h
      rcases head_cases ok x with hsel | ⟨i, hc, hi⟩
      · rw [firstOK_cons_sel ok x rest hsel] at h
        refine ⟨[], x, rest, rfl, Option.some.inj h, hsel, ?_⟩
        intro y hy; cases hy
      · rw [firstOK_cons_fail ok x rest i hc hi] at h
        obtain ⟨pre, z, post, heq, hv, hz, hpre⟩ := ih h
        refine ⟨x :: pre, z, post, by rw [heq]; rfl, hv, hz, ?_⟩
        intro y hy
        rcases List.mem_cons.1 hy with rfl | hy
        · exact ⟨i, hc, hi⟩
        · exact hpre y hy
  · rintro ⟨pre, x, post, heq, hv, hx, hpre⟩
    rw [heq, firstOK_append_fail ok pre _ hpre, firstOK_cons_sel ok x post hx, hv]

end Lexgen
