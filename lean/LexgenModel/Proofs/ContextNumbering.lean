import LexgenModel.Proofs.ActionNumbering
/-!
# The numbering of right-context automata is irrelevant; equal contexts may share an automaton

An accept entry names its right context by the number of a context automaton. The generated code uses that number only to call the context
function (`ctxOK cfg i iter`). If the accept entries of a machine are renumbered by ANY `g` (not necessarily injective) and the automaton found
under the new number decides the same thing as the one found under the old number, `next()` behaves identically. In particular rules whose right
contexts are the same language may share one automaton. This licenses comparing the implementation's context numbers with the model's up to
renaming (`harness/corpus.py`, `canon_contexts`).
-/
namespace Lexgen
variable {σ τ ε : Type}

def Acc.mapC (g : Nat → Nat) (a : Acc) : Acc := { a with ctx := a.ctx.map g }

def Trans.mapC (g : Nat → Nat) : Trans → Trans
  | .goto s => .goto s
  | .accept accs => .accept (accs.map (Acc.mapC g))

def DState.mapCTrans (g : Nat → Nat) (s : DState Trans) : DState Trans :=
  { s with accepting := s.accepting.map (Acc.mapC g),
           chars := s.chars.map fun p => (p.1, p.2.mapC g),
           ranges := s.ranges.map fun r => (r.1, r.2.1, r.2.2.mapC g),
           any := s.any.map (Trans.mapC g),
           eoi := s.eoi.map (Trans.mapC g) }

/-- `cfg'` is `cfg` with the right-context numbers of all accept entries renamed by `g` (and any list of context automata) -/
structure CtxRenamed (g : Nat → Nat) (cfg cfg' : Config σ τ ε) : Prop where
  dfa : cfg'.dfa = cfg.dfa.map (DState.mapCTrans g)
  entries : cfg'.entries = cfg.entries
  inl : cfg'.inl = cfg.inl
  actions : cfg'.actions = cfg.actions
  width : cfg'.width = cfg.width
  input : cfg'.input = cfg.input
  /-- the automaton found under the new number decides what the automaton under the old number decided -/
  same : ∀ i iter, ctxOK cfg' (g i) iter = ctxOK cfg i iter

/-! ## helper lemmas -/

theorem firstOK_mapC (g : Nat → Nat) (ok ok' : Nat → Bool) (hok : ∀ i, ok' (g i) = ok i) (accs : List Acc) :
    firstOK ok' (accs.map (Acc.mapC g)) = firstOK ok accs := by
  induction accs with
  | nil => rfl
  | cons a rest ih =>
    obtain ⟨v, ctx⟩ := a
    cases ctx with
    | none => rfl
    | some i =>
      simp only [List.map_cons, firstOK, Acc.mapC, Option.map_some, hok]
      split
      · rfl
      · exact ih

theorem isEmpty_mapC (g : Nat → Nat) (accs : List Acc) : (accs.map (Acc.mapC g)).isEmpty = accs.isEmpty := by
  cases accs <;> rfl

theorem st_mapCTrans (g : Nat → Nat) (d : DFA Trans) (s : Nat) :
    DFA.st (d.map (DState.mapCTrans g)) s = DState.mapCTrans g (DFA.st d s) := by
  unfold DFA.st
  exact getD_map_of_empty _ _ _ _ _ rfl

/-! ### the numbering of the generated code ignores context numbers -/

theorem goesB_mapC (g s t) : goesB s (Trans.mapC g t) = goesB s t := by cases t <;> rfl
theorem isAccB_mapC (g t) : isAccB (Trans.mapC g t) = isAccB t := by cases t <;> rfl

theorem inlineSites_mapC (g : Nat → Nat) (p : DState Trans) (s : Nat) :
    inlineSites (DState.mapCTrans g p) s = inlineSites p s := by
  rw [inlineSites_eq, inlineSites_eq]
  unfold DState.mapCTrans
  simp only [List.any_map, List.filter_map, List.length_map, Function.comp_def, goesB_mapC, isAccB_mapC]
  cases p.any with
  | none => rfl
  | some t => simp only [Option.map_some, goesB_mapC]

theorem isInlined_mapC (g : Nat → Nat) (d : DFA Trans) (i : Nat) :
    isInlined (d.map (DState.mapCTrans g)) i = isInlined d i := by
  unfold isInlined
  simp only [st_mapCTrans, inlineSites_mapC]
  rfl

theorem stateArms_mapC (g : Nat → Nat) (d : DFA Trans) (inl : List Nat) :
    stateArms (d.map (DState.mapCTrans g)) inl = stateArms d inl := by
  unfold stateArms
  simp only [List.length_map]

/-! ### one pass through the state code -/

section scan
variable (g : Nat → Nat) (cfg cfg' : Config σ τ ε)

theorem setAccepting_mapC (hsame : ∀ i iter, ctxOK cfg' (g i) iter = ctxOK cfg i iter) (d : DState Trans) (st : LState σ) :
    setAccepting cfg' (DState.mapCTrans g d) st = setAccepting cfg d st := by
  unfold setAccepting
  show (match firstOK _ (d.accepting.map (Acc.mapC g)) with | some a => _ | none => _) = _
  rw [firstOK_mapC g (fun i => ctxOK cfg i st.iter) (fun i => ctxOK cfg' i st.iter) (fun i => hsame i st.iter)]
  cases firstOK (fun i => ctxOK cfg i st.iter) d.accepting <;> rfl

theorem failCode_mapC (d : DState Trans) (st : LState σ) :
    failCode (DState.mapCTrans g d) st = failCode d st := by
  unfold failCode
  have h1 : (DState.mapCTrans g d).backtrack = d.backtrack := rfl
  have h2 : (DState.mapCTrans g d).accepting.isEmpty = d.accepting.isEmpty := isEmpty_mapC g d.accepting
  rw [h1, h2]

theorem testRightCtxs_mapC (hsame : ∀ i iter, ctxOK cfg' (g i) iter = ctxOK cfg i iter) (accs : List Acc) (st : LState σ)
    (dflt dflt' : Unit → Outcome σ) (hd : dflt' () = dflt ()) :
    testRightCtxs cfg' (accs.map (Acc.mapC g)) st dflt' = testRightCtxs cfg accs st dflt := by
  unfold testRightCtxs
  rw [firstOK_mapC g (fun i => ctxOK cfg i st.iter) (fun i => ctxOK cfg' i st.iter) (fun i => hsame i st.iter), hd]

theorem stepSt_mapC (hsame : ∀ i iter, ctxOK cfg' (g i) iter = ctxOK cfg i iter) (hw : cfg'.width = cfg.width)
    (d : DState Trans) (c : Nat) (rest : List Nat) (st : LState σ) :
    ScanPlain.stepSt cfg' (DState.mapCTrans g d) c rest st = ScanPlain.stepSt cfg d c rest st := by
  unfold ScanPlain.stepSt
  rw [setAccepting_mapC g cfg cfg' hsame, hw]

theorem eoiSt_mapC (hsame : ∀ i iter, ctxOK cfg' (g i) iter = ctxOK cfg i iter) (d : DState Trans) (st : LState σ) :
    ScanPlain.eoiSt cfg' (DState.mapCTrans g d) st = ScanPlain.eoiSt cfg d st := by
  unfold ScanPlain.eoiSt
  rw [setAccepting_mapC g cfg cfg' hsame]

theorem scan_mapC (hdfa : cfg'.dfa = cfg.dfa.map (DState.mapCTrans g))
    (hsame : ∀ i iter, ctxOK cfg' (g i) iter = ctxOK cfg i iter) (hinl : cfg'.inl = cfg.inl)
    (hw : cfg'.width = cfg.width) (ns : Nat → Option Nat) (iter : List Nat) :
    ∀ (s : Nat) (st : LState σ), scan cfg' ns s iter st = scan cfg ns s iter st := by
  induction iter with
  | nil =>
    intro s st
    rw [ScanPlain.scan_nil, ScanPlain.scan_nil, hdfa, st_mapCTrans, eoiSt_mapC g cfg cfg' hsame, hinl]
    have hfail : (if s = 0 then Outcome.fin (ScanPlain.eoiSt cfg (cfg.dfa.st s) st)
          else failCode (DState.mapCTrans g (cfg.dfa.st s)) (ScanPlain.eoiSt cfg (cfg.dfa.st s) st)) =
        (if s = 0 then Outcome.fin (ScanPlain.eoiSt cfg (cfg.dfa.st s) st) else failCode (cfg.dfa.st s) (ScanPlain.eoiSt cfg (cfg.dfa.st s) st)) := by
      rw [failCode_mapC]
    show (match (cfg.dfa.st s).eoi.map (Trans.mapC g) with | some (.accept accs) => _ | some (.goto t) => _ | none => _) = _
    cases (cfg.dfa.st s).eoi with
    | none => exact hfail
    | some t =>
      cases t with
      | goto t => rfl
      | accept accs => exact testRightCtxs_mapC g cfg cfg' hsame accs _ _ _ hfail
  | cons c rest ih =>
    intro s st
    have hg : ∀ (st1 : LState σ) (t : Nat),
        ScanPlain.gotoK (scan cfg' ns) cfg' ns rest st1 t = ScanPlain.gotoK (scan cfg ns) cfg ns rest st1 t := by
      intro st1 t
      unfold ScanPlain.gotoK
      rw [hinl]
      split
      · exact ih _ _
      · show (match ns (renumber cfg.inl t) with
            | some t' => scan cfg' ns t' rest { st1 with state := renumber cfg.inl t }
            | none => Outcome.goto { st1 with state := renumber cfg.inl t }) =
          (match ns (renumber cfg.inl t) with
            | some t' => scan cfg ns t' rest { st1 with state := renumber cfg.inl t }
            | none => Outcome.goto { st1 with state := renumber cfg.inl t })
        cases ns (renumber cfg.inl t) with
        | none => rfl
        | some t' => exact ih _ _
    rw [ScanPlain.scan_cons, ScanPlain.scan_cons, hdfa, st_mapCTrans, stepSt_mapC g cfg cfg' hsame hw]
    generalize ScanPlain.stepSt cfg (cfg.dfa.st s) c rest st = st1
    generalize cfg.dfa.st s = d
    have hfail := failCode_mapC g d st1
    have hdflt : (match (DState.mapCTrans g d).any with
          | some (.goto t) => ScanPlain.gotoK (scan cfg' ns) cfg' ns rest st1 t
          | some (.accept accs) => testRightCtxs cfg' accs st1 (fun _ => failCode (DState.mapCTrans g d) st1)
          | none => failCode (DState.mapCTrans g d) st1) =
        (match d.any with
          | some (.goto t) => ScanPlain.gotoK (scan cfg ns) cfg ns rest st1 t
          | some (.accept accs) => testRightCtxs cfg accs st1 (fun _ => failCode d st1)
          | none => failCode d st1) := by
      show (match d.any.map (Trans.mapC g) with | some (.goto t) => _ | some (.accept accs) => _ | none => _) = _
      cases d.any with
      | none => exact hfail
      | some t =>
        cases t with
        | goto t => exact hg _ _
        | accept accs => exact testRightCtxs_mapC g cfg cfg' hsame accs _ _ _ hfail
    have e1 : lookupChar (DState.mapCTrans g d).chars c = (lookupChar d.chars c).map (Trans.mapC g) := lookupChar_map _ _ _
    have e2 : RangeMap.lookup (DState.mapCTrans g d).ranges c = (RangeMap.lookup d.ranges c).map (Trans.mapC g) := rangeLookup_map _ _ _
    rw [e1, e2]
    cases lookupChar d.chars c with
    | some t =>
      cases t with
      | goto t => exact hg _ _
      | accept accs => exact testRightCtxs_mapC g cfg cfg' hsame accs _ _ _ hdflt
    | none =>
      cases RangeMap.lookup d.ranges c with
      | none => exact hdflt
      | some t =>
        cases t with
        | goto t => exact hg _ _
        | accept accs => exact testRightCtxs_mapC g cfg cfg' hsame accs _ _ _ hdflt
end scan

/-! ### the semantic-action call, the loop of `next()`, runs -/

section next
variable (g : Nat → Nat) (cfg cfg' : Config σ τ ε)

theorem callAction_mapC (hent : cfg'.entries = cfg.entries) (hinl : cfg'.inl = cfg.inl) (hin : cfg'.input = cfg.input)
    (hact : cfg'.actions = cfg.actions) (a : Nat) (st : LState σ) :
    callAction cfg' a st = callAction cfg a st := by
  have hsw : ∀ r, switchNum cfg' r = switchNum cfg r := by
    intro r; unfold switchNum; rw [hent, hinl]
  have hv : mkView cfg' a st = mkView cfg a st := by
    unfold mkView; rw [hin]
  unfold callAction
  rw [hv, hact]
  simp only [hsw]

theorem finish_mapC (hent : cfg'.entries = cfg.entries) (hinl : cfg'.inl = cfg.inl) (hin : cfg'.input = cfg.input)
    (hact : cfg'.actions = cfg.actions) (o : Outcome σ) :
    finish cfg' o = finish cfg o := by
  cases o with
  | act a st => exact callAction_mapC cfg cfg' hent hinl hin hact a st
  | err loc st => rfl
  | fin st => rfl
  | goto st => rfl

theorem nextLoop_mapC (h : CtxRenamed g cfg cfg') (fuel : Nat) : ∀ st : LState σ,
    nextLoop cfg' fuel st = nextLoop cfg fuel st := by
  induction fuel with
  | zero => intro st; rfl
  | succ fuel ih =>
    intro st
    unfold nextLoop
    rw [h.dfa, stateArms_mapC, h.inl]
    cases st.done with
    | true => rfl
    | false =>
      simp only [Bool.false_eq_true, if_false]
      cases dispatch (stateArms cfg.dfa cfg.inl) st.state with
      | none => rfl
      | some s =>
        simp only []
        unfold execState
        rw [scan_mapC g cfg cfg' h.dfa h.same h.inl h.width, finish_mapC cfg cfg' h.entries h.inl h.input h.actions]
        cases finish cfg (scan cfg (dispatch (stateArms cfg.dfa cfg.inl)) s st.iter st) with
        | ret item st' => rfl
        | cont st' => exact ih st'
end next

theorem next_mapC (g : Nat → Nat) (cfg cfg' : Config σ τ ε) (h : CtxRenamed g cfg cfg') (st : LState σ) :
    next cfg' st = next cfg st :=
  nextLoop_mapC g cfg cfg' h _ st

theorem runN_mapC (g : Nat → Nat) (cfg cfg' : Config σ τ ε) (h : CtxRenamed g cfg cfg') (n : Nat) (st : LState σ) :
    runN cfg' n st = runN cfg n st := by
  induction n generalizing st with
  | zero => rfl
  | succ n ih =>
    unfold runN
    rw [next_mapC g cfg cfg' h]
    cases next cfg st with
    | none => rfl
    | some r =>
      obtain ⟨item, st'⟩ := r
      simp only [ih]

/-- the inlining policy of the pinned generator does not look at context numbers either -/
theorem inlinedStates_mapC (g : Nat → Nat) (d : DFA Trans) : inlinedStates (d.map (DState.mapCTrans g)) = inlinedStates d := by
  unfold inlinedStates
  simp only [isInlined_mapC, List.length_map]

/-! ## compiled definitions -/

/-- a compiled machine whose accept entries name their right contexts by other numbers `g i`, with ANY list of context automata such that the
automaton under `g i` decides what the automaton under `i` decided, gives a configuration that is `CtxRenamed` -/
theorem compiled_ctxRenamed (g : Nat → Nat) (c c' : Compiled)
    (hdfa : c'.dfa = c.dfa.map (DState.mapCTrans g)) (hent : c'.entries = c.entries)
    (hsame : ∀ i iter, ctxRun (c'.ctxs.getD (g i) []) 0 iter = ctxRun (c.ctxs.getD i []) 0 iter)
    (acts : Nat → Action σ τ ε) (width : Nat → Nat) (input : Option (List Nat)) :
    CtxRenamed g (c.config acts width input) (c'.config acts width input) where
  dfa := hdfa
  entries := hent
  inl := by
    show inlinedStates c'.dfa = inlinedStates c.dfa
    rw [hdfa, inlinedStates_mapC]
  actions := rfl
  width := rfl
  input := rfl
  same := hsame

/-- the numbering of the right-context automata of a compiled definition is irrelevant: same simplified automaton up to renaming of the context
numbers of its accept entries, same entry map, and under the new numbers automata deciding the same as under the old ones (in particular equal
contexts may share one automaton, `g` need not be injective) — the generated lexers (inlining policy of the pinned generator on either side) run
identically from every lexer state -/
theorem compiled_ctx_numbering_irrelevant (g : Nat → Nat) (c c' : Compiled)
    (hdfa : c'.dfa = c.dfa.map (DState.mapCTrans g)) (hent : c'.entries = c.entries)
    (hsame : ∀ i iter, ctxRun (c'.ctxs.getD (g i) []) 0 iter = ctxRun (c.ctxs.getD i []) 0 iter)
    (acts : Nat → Action σ τ ε) (width : Nat → Nat) (input : Option (List Nat)) (n : Nat) (st : LState σ) :
    runN (c'.config acts width input) n st = runN (c.config acts width input) n st :=
  runN_mapC g _ _ (compiled_ctxRenamed g c c' hdfa hent hsame acts width input) n st

end Lexgen

#print axioms Lexgen.next_mapC
#print axioms Lexgen.runN_mapC
#print axioms Lexgen.inlinedStates_mapC
#print axioms Lexgen.compiled_ctx_numbering_irrelevant

/-
'Lexgen.next_mapC' depends on axioms: [propext, Quot.sound]
'Lexgen.runN_mapC' depends on axioms: [propext, Quot.sound]
'Lexgen.inlinedStates_mapC' depends on axioms: [propext, Quot.sound]
'Lexgen.compiled_ctx_numbering_irrelevant' depends on axioms: [propext, Quot.sound]
-/
