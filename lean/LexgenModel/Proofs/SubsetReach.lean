import LexgenModel.Spec.Total
import LexgenModel.Proofs.Subset
import LexgenModel.Proofs.BlockShape
/-!
# Reachability and predecessor sets of the DFA the work-list subset construction builds

`nfaToDfa_reach_preds`: in the DFA `nfaToDfa` returns every state is reachable from state 0
(`AllReachable0`) and every recorded predecessor is a real predecessor (`PredsSound`).

The loop invariant `BInv` of `Proofs/Subset.lean` is extended (`RInv`) by
* `reg`: every key on the work list is registered in the state map (so the `stateOf` at the top of the loop
  never creates a state),
* `par`: every state but 0 has a finished parent with a smaller index,
* `ps`: a recorded predecessor `p` of `s` has `s` in its table.
One expansion is analysed stage by stage with `RMid`.
-/
set_option linter.unusedSimpArgs false
set_option linter.unusedVariables false
namespace Lexgen
namespace SubsetReach
open Lexgen.Subset

/-! ## basic facts -/

theorem mem_succs (st : DState Nat) (t : Nat) :
    t ∈ DFA.succs st ↔
      (∃ e ∈ st.chars, e.2 = t) ∨ (∃ r ∈ st.ranges, r.2.2 = t) ∨ st.any = some t ∨ st.eoi = some t := by
  unfold DFA.succs
  simp only [List.mem_append, List.mem_map, Option.mem_toList, or_assoc]

theorem succs_empty : DFA.succs (DState.empty : DState Nat) = [] := rfl

theorem dst_eq_empty_of_le (D : DFA Nat) {i : Nat} (h : D.length ≤ i) : D.st i = DState.empty := by
  unfold DFA.st
  rw [List.getD_eq_getElem?_getD, List.getElem?_eq_none h]
  rfl

theorem stateOf_basic (b : Builder) (k : List Nat) :
    (∀ i, (b.stateOf k).1.dfa.st i = b.dfa.st i) ∧ b.dfa.length ≤ (b.stateOf k).1.dfa.length ∧
    (∀ i, b.dfa.length ≤ i → i < (b.stateOf k).1.dfa.length → i = (b.stateOf k).2) ∧
    (∀ e ∈ b.stateMap, e ∈ (b.stateOf k).1.stateMap) ∧
    (k, (b.stateOf k).2) ∈ (b.stateOf k).1.stateMap := by
  unfold Builder.stateOf
  cases hf : b.stateMap.find? (fun e => e.1 = k) with
  | some e =>
    obtain ⟨k', i⟩ := e
    have hk : k' = k := by simpa using List.find?_some hf
    subst hk
    exact ⟨fun _ => rfl, Nat.le_refl _, fun i h1 h2 => absurd h2 (Nat.not_lt.mpr h1), fun e he => he,
      List.mem_of_find?_eq_some hf⟩
  | none =>
    refine ⟨fun i => dst_append_empty _ _, ?_, fun i h1 h2 => ?_, fun e he => List.mem_append_left _ he,
      List.mem_append_right _ (List.mem_singleton.mpr rfl)⟩
    · show b.dfa.length ≤ (b.dfa ++ [DState.empty]).length
      simp
    · have h2' : i < (b.dfa ++ [DState.empty]).length := h2
      simp at h2'
      show i = b.dfa.length
      omega

/-- a registered key is found: `stateOf` does not change the builder -/
theorem stateOf_same {b : Builder} {k : List Nat} (h : ∃ i, (k, i) ∈ b.stateMap) : (b.stateOf k).1 = b := by
  unfold Builder.stateOf
  cases hf : b.stateMap.find? (fun e => e.1 = k) with
  | some e => obtain ⟨k', i⟩ := e; rfl
  | none =>
    obtain ⟨i, hi⟩ := h
    have := List.find?_eq_none.mp hf _ hi
    simp at this

theorem preds_addPred (D : DFA Nat) (t q s p : Nat) (h : p ∈ ((DFA.addPred D t q).st s).preds) :
    p ∈ (D.st s).preds ∨ (p = q ∧ s = t) := by
  unfold DFA.addPred at h
  rw [dst_modify] at h
  by_cases hc : t = s ∧ s < D.length
  · rw [if_pos hc] at h
    rcases mem_setInsert.mp h with h1 | h1
    · exact Or.inr ⟨h1, hc.1.symm⟩
    · exact Or.inl h1
  · rw [if_neg hc] at h; exact Or.inl h

theorem preds_predsFold (d : Nat) (rng : RangeMap Nat) : ∀ (D : DFA Nat) (s p : Nat),
    p ∈ ((rng.foldl (fun dfa r => DFA.addPred dfa r.2.2 d) D).st s).preds →
    p ∈ (D.st s).preds ∨ (p = d ∧ s ∈ rng.map (·.2.2)) := by
  induction rng with
  | nil => intro D s p h; exact Or.inl h
  | cons r rng ih =>
    intro D s p h
    rw [List.foldl_cons] at h
    rcases ih _ s p h with h1 | ⟨h1, h2⟩
    · rcases preds_addPred _ _ _ _ _ h1 with h3 | ⟨h3, h4⟩
      · exact Or.inl h3
      · exact Or.inr ⟨h3, by rw [h4]; exact List.mem_cons_self⟩
    · exact Or.inr ⟨h1, List.mem_cons_of_mem _ h2⟩

theorem preds_modify (D : DFA Nat) (k : Nat) (f : DState Nat → DState Nat) (hf : ∀ x, (f x).preds = x.preds)
    (s : Nat) : (DFA.st (D.modify k f) s).preds = (D.st s).preds := by
  rw [dst_modify]
  by_cases hc : k = s ∧ s < D.length
  · rw [if_pos hc, hf]
  · rw [if_neg hc]

/-! ## the invariant carried through one `expandState` -/

/-- `b0` is the builder before the expansion of `d`, `extra` are the targets of the range table under
construction (not yet written into the table of `d`) -/
structure RMid (b0 : Builder) (d : Nat) (b : Builder) (pushed : List (List Nat)) (extra : List Nat) : Prop where
  len : b0.dfa.length ≤ b.dfa.length
  sm : ∀ e ∈ b0.stateMap, e ∈ b.stateMap
  reg : ∀ k ∈ pushed, ∃ i, (k, i) ∈ b.stateMap
  preds : ∀ s p, p ∈ (b.dfa.st s).preds →
    p ∈ (b0.dfa.st s).preds ∨ (p = d ∧ s ∈ DFA.succs (b.dfa.st d))
  new : ∀ i, b0.dfa.length ≤ i → i < b.dfa.length → i ∈ DFA.succs (b.dfa.st d) ∨ i ∈ extra

/-- the transition slots that are still untouched -/
def Bare (st : DState Nat) : Prop := st.ranges = [] ∧ st.any = none ∧ st.eoi = none

theorem link_st (b : Builder) (d : Nat) (k : List Nat) (upd : Nat → DState Nat → DState Nat)
    (hd : d < b.dfa.length) :
    TEq ((link b d k upd).dfa.st d) (upd (b.stateOf k).2 (b.dfa.st d)) := by
  obtain ⟨s1, s2, _, _, _⟩ := stateOf_basic b k
  show TEq ((DFA.addPred _ _ _).st d) _
  refine (teq_addPred _ _ _ _).trans ?_
  rw [dst_modify_eq _ _ (Nat.lt_of_lt_of_le hd s2), s1 d]
  exact TEq.rfl' _

theorem link_length (b : Builder) (d : Nat) (k : List Nat) (upd : Nat → DState Nat → DState Nat) :
    (link b d k upd).dfa.length = (b.stateOf k).1.dfa.length := by
  show (DFA.addPred _ _ _).length = _
  rw [length_addPred, List.length_modify]

theorem rmid_link {b0 b : Builder} {d : Nat} {pushed : List (List Nat)} (h : RMid b0 d b pushed [])
    (hd : d < b0.dfa.length) (k : List Nat) (upd : Nat → DState Nat → DState Nat)
    (hp : ∀ t x, (upd t x).preds = x.preds)
    (hs : ∀ t', (t' ∈ DFA.succs (b.dfa.st d) ∨ t' = (b.stateOf k).2) →
      t' ∈ DFA.succs (upd (b.stateOf k).2 (b.dfa.st d))) :
    RMid b0 d (link b d k upd) (k :: pushed) [] := by
  obtain ⟨s1, s2, s3, s4, s5⟩ := stateOf_basic b k
  have hdb : d < b.dfa.length := Nat.lt_of_lt_of_le hd h.len
  have hsucc := succs_congr (link_st b d k upd hdb)
  have hlen := link_length b d k upd
  have hsm : (link b d k upd).stateMap = (b.stateOf k).1.stateMap := rfl
  refine ⟨?_, ?_, ?_, ?_, ?_⟩
  · rw [hlen]; exact Nat.le_trans h.len s2
  · intro e he; rw [hsm]; exact s4 e (h.sm e he)
  · intro k' hk'
    rcases List.mem_cons.mp hk' with h1 | h1
    · subst h1; exact ⟨_, by rw [hsm]; exact s5⟩
    · obtain ⟨i, hi⟩ := h.reg k' h1
      exact ⟨i, by rw [hsm]; exact s4 _ hi⟩
  · intro s p hpm
    have hpm' : p ∈ ((DFA.addPred ((b.stateOf k).1.dfa.modify d (upd (b.stateOf k).2)) (b.stateOf k).2 d).st s).preds :=
      hpm
    rcases preds_addPred _ _ _ _ _ hpm' with h1 | ⟨e1, e2⟩
    · rw [preds_modify _ _ _ (hp _), s1 s] at h1
      rcases h.preds s p h1 with h2 | ⟨e1, e2⟩
      · exact Or.inl h2
      · exact Or.inr ⟨e1, by rw [hsucc]; exact hs _ (Or.inl e2)⟩
    · exact Or.inr ⟨e1, by rw [hsucc]; exact hs _ (Or.inr e2)⟩
  · intro i h1 h2
    rw [hlen] at h2
    by_cases hi : i < b.dfa.length
    · rcases h.new i h1 hi with h3 | h3
      · exact Or.inl (by rw [hsucc]; exact hs _ (Or.inl h3))
      · cases h3
    · exact Or.inl (by rw [hsucc]; exact hs _ (Or.inr (s3 i (Nat.le_of_not_lt hi) h2)))

/-! ### stage 1 -/

theorem rmid_st1 (b : Builder) (d : Nat) (col : Collected) (hemp : TEq (b.dfa.st d) DState.empty) :
    RMid b d (st1 b d col) [] [] ∧ Bare ((st1 b d col).dfa.st d) := by
  refine ⟨⟨?_, fun e he => he, fun k hk => (by cases hk), fun s p hpm => ?_, fun i h1 h2 => ?_⟩, ?_⟩
  · show b.dfa.length ≤ (b.dfa.modify d _).length
    rw [List.length_modify]; exact Nat.le_refl _
  · have hpm' : p ∈ (DFA.st (b.dfa.modify d fun st => { st with accepting := col.accs }) s).preds := hpm
    rw [preds_modify b.dfa d (fun st => { st with accepting := col.accs }) (fun _ => rfl) s] at hpm'
    exact Or.inl hpm'
  · have h2' : i < (b.dfa.modify d fun st => { st with accepting := col.accs }).length := h2
    rw [List.length_modify] at h2'
    omega
  · show Bare (DFA.st (b.dfa.modify d fun st => { st with accepting := col.accs }) d)
    rw [dst_modify]
    by_cases hc : d = d ∧ d < b.dfa.length
    · rw [if_pos hc]; exact ⟨hemp.ranges, hemp.any, hemp.eoi⟩
    · rw [if_neg hc]; exact ⟨hemp.ranges, hemp.any, hemp.eoi⟩

/-! ### char stage -/

theorem succs_chars_snoc (st : DState Nat) (c t t' : Nat) (h : t' ∈ DFA.succs st ∨ t' = t) :
    t' ∈ DFA.succs { st with chars := st.chars ++ [(c, t)] } := by
  rw [mem_succs] at *
  rcases h with (⟨e, he, h1⟩ | h1) | h1
  · exact Or.inl ⟨e, List.mem_append_left _ he, h1⟩
  · exact Or.inr h1
  · exact Or.inl ⟨(c, t), List.mem_append_right _ (List.mem_singleton.mpr rfl), h1.symm⟩

theorem rmid_charFold (nfa : NFA) (col : Collected) {b0 : Builder} {d : Nat} (hd : d < b0.dfa.length)
    (l : List (Nat × List Nat)) :
    ∀ acc : Builder × List (List Nat), RMid b0 d acc.1 acc.2 [] → Bare (acc.1.dfa.st d) →
      RMid b0 d (l.foldl (charStep nfa col d) acc).1 (l.foldl (charStep nfa col d) acc).2 [] ∧
      Bare ((l.foldl (charStep nfa col d) acc).1.dfa.st d) := by
  induction l with
  | nil => exact fun acc h hb => ⟨h, hb⟩
  | cons e l ih =>
    intro acc h hb
    rw [List.foldl_cons]
    have hdb : d < acc.1.dfa.length := Nat.lt_of_lt_of_le hd h.len
    apply ih
    · exact rmid_link h hd (nfa.closure (ctg col e)) (fun t st => { st with chars := st.chars ++ [(e.1, t)] })
        (fun _ _ => rfl) (fun t' ht' => succs_chars_snoc _ _ _ _ ht')
    · have ht := link_st acc.1 d (nfa.closure (ctg col e))
        (fun t st => { st with chars := st.chars ++ [(e.1, t)] }) hdb
      exact ⟨ht.ranges.trans hb.1, ht.any.trans hb.2.1, ht.eoi.trans hb.2.2⟩

/-! ### range stage -/

theorem rmid_rangeFold (nfa : NFA) (col : Collected) {b0 : Builder} {d : Nat} (l : RangeMap (List Nat)) :
    ∀ acc : Builder × List (List Nat) × RangeMap Nat, RMid b0 d acc.1 acc.2.1 (acc.2.2.map (·.2.2)) →
      RMid b0 d (l.foldl (rangeStep nfa col) acc).1 (l.foldl (rangeStep nfa col) acc).2.1
        ((l.foldl (rangeStep nfa col) acc).2.2.map (·.2.2)) ∧
      ∀ i, (l.foldl (rangeStep nfa col) acc).1.dfa.st i = acc.1.dfa.st i := by
  induction l with
  | nil => exact fun acc h => ⟨h, fun _ => rfl⟩
  | cons r l ih =>
    intro acc h
    rw [List.foldl_cons]
    obtain ⟨s1, s2, s3, s4, s5⟩ := stateOf_basic acc.1 (nfa.closure (setUnion r.2.2 col.any))
    have hstep : RMid b0 d (rangeStep nfa col acc r).1 (rangeStep nfa col acc r).2.1
        ((rangeStep nfa col acc r).2.2.map (·.2.2)) := by
      refine ⟨Nat.le_trans h.len s2, fun e he => s4 e (h.sm e he), fun k' hk' => ?_, fun s p hpm => ?_,
        fun i h1 h2 => ?_⟩
      · rcases List.mem_cons.mp hk' with h1 | h1
        · subst h1; exact ⟨_, s5⟩
        · obtain ⟨i, hi⟩ := h.reg k' h1
          exact ⟨i, s4 _ hi⟩
      · have hpm' : p ∈ ((acc.1.stateOf (nfa.closure (setUnion r.2.2 col.any))).1.dfa.st s).preds := hpm
        rw [s1 s] at hpm'
        show _ ∨ (p = d ∧ s ∈ DFA.succs ((acc.1.stateOf (nfa.closure (setUnion r.2.2 col.any))).1.dfa.st d))
        rw [s1 d]
        exact h.preds s p hpm'
      · have h2' : i < (acc.1.stateOf (nfa.closure (setUnion r.2.2 col.any))).1.dfa.length := h2
        show i ∈ DFA.succs ((acc.1.stateOf (nfa.closure (setUnion r.2.2 col.any))).1.dfa.st d) ∨
          i ∈ (acc.2.2 ++ [(r.1, r.2.1, (acc.1.stateOf (nfa.closure (setUnion r.2.2 col.any))).2)]).map (·.2.2)
        rw [s1 d, List.map_append]
        by_cases hi : i < acc.1.dfa.length
        · rcases h.new i h1 hi with h3 | h3
          · exact Or.inl h3
          · exact Or.inr (List.mem_append_left _ h3)
        · refine Or.inr (List.mem_append_right _ ?_)
          rw [s3 i (Nat.le_of_not_lt hi) h2']
          exact List.mem_singleton.mpr rfl
    obtain ⟨i1, i2⟩ := ih _ hstep
    exact ⟨i1, fun i => (i2 i).trans (s1 i)⟩

/-! ### `set_range_transitions` -/

theorem rmid_st4 {b0 : Builder} {d : Nat} (hd : d < b0.dfa.length)
    (a3 : Builder × List (List Nat) × RangeMap Nat)
    (h : RMid b0 d a3.1 a3.2.1 (a3.2.2.map (·.2.2))) (hr : (a3.1.dfa.st d).ranges = []) :
    RMid b0 d (st4 d a3) a3.2.1 [] ∧ ((st4 d a3).dfa.st d).any = (a3.1.dfa.st d).any ∧
      ((st4 d a3).dfa.st d).eoi = (a3.1.dfa.st d).eoi := by
  obtain ⟨hl4, ht4⟩ := predsFold_spec d a3.2.2 a3.1.dfa
  change (preds4 d a3).length = _ at hl4
  change ∀ i, TEq ((preds4 d a3).st i) _ at ht4
  have hd3 : d < a3.1.dfa.length := Nat.lt_of_lt_of_le hd h.len
  have hs4 : (st4 d a3).dfa.st d = { (preds4 d a3).st d with ranges := a3.2.2 } :=
    dst_modify_eq _ _ (by rw [hl4]; exact hd3)
  have hlen : (st4 d a3).dfa.length = a3.1.dfa.length := (List.length_modify _ _ _).trans hl4
  have ht4d := ht4 d
  -- the successors of `d` now contain the old ones and the range targets
  have hsucc : ∀ t', (t' ∈ DFA.succs (a3.1.dfa.st d) ∨ t' ∈ a3.2.2.map (·.2.2)) →
      t' ∈ DFA.succs ((st4 d a3).dfa.st d) := by
    intro t' ht'
    rw [hs4, mem_succs]
    rcases ht' with ht' | ht'
    · rw [mem_succs] at ht'
      rcases ht' with ⟨e, he, h1⟩ | ⟨r, hr', h1⟩ | h1 | h1
      · exact Or.inl ⟨e, by show e ∈ ((preds4 d a3).st d).chars; rw [ht4d.chars]; exact he, h1⟩
      · rw [hr] at hr'; cases hr'
      · exact Or.inr (Or.inr (Or.inl (by show ((preds4 d a3).st d).any = _; rw [ht4d.any]; exact h1)))
      · exact Or.inr (Or.inr (Or.inr (by show ((preds4 d a3).st d).eoi = _; rw [ht4d.eoi]; exact h1)))
    · obtain ⟨r, hr', h1⟩ := List.mem_map.mp ht'
      exact Or.inr (Or.inl ⟨r, hr', h1⟩)
  refine ⟨⟨?_, h.sm, h.reg, fun s p hpm => ?_, fun i h1 h2 => ?_⟩, ?_, ?_⟩
  · rw [hlen]; exact h.len
  · have hpm' : p ∈ (DFA.st ((preds4 d a3).modify d (fun st => { st with ranges := a3.2.2 })) s).preds := hpm
    rw [preds_modify (preds4 d a3) d (fun st => { st with ranges := a3.2.2 }) (fun _ => rfl) s] at hpm'
    rcases preds_predsFold d a3.2.2 a3.1.dfa s p hpm' with h1 | ⟨e1, e2⟩
    · rcases h.preds s p h1 with h2 | ⟨e1, e2⟩
      · exact Or.inl h2
      · exact Or.inr ⟨e1, hsucc _ (Or.inl e2)⟩
    · exact Or.inr ⟨e1, hsucc _ (Or.inr e2)⟩
  · rw [hlen] at h2
    exact Or.inl (hsucc _ (h.new i h1 h2))
  · rw [hs4]; exact ht4d.any
  · rw [hs4]; exact ht4d.eoi

/-! ### `any` / end-of-input stage -/

theorem rmid_optStep (nfa : NFA) {b0 : Builder} {d : Nat} (hd : d < b0.dfa.length) (tg : List Nat)
    (upd : Nat → DState Nat → DState Nat) (hp : ∀ t x, (upd t x).preds = x.preds)
    (acc : Builder × List (List Nat)) (h : RMid b0 d acc.1 acc.2 [])
    (hs : ∀ t t', (t' ∈ DFA.succs (acc.1.dfa.st d) ∨ t' = t) → t' ∈ DFA.succs (upd t (acc.1.dfa.st d))) :
    RMid b0 d (optStep nfa d tg upd acc).1 (optStep nfa d tg upd acc).2 [] ∧
    ((optStep nfa d tg upd acc).1.dfa.st d = acc.1.dfa.st d ∨
      ∃ t, TEq ((optStep nfa d tg upd acc).1.dfa.st d) (upd t (acc.1.dfa.st d))) := by
  unfold optStep
  by_cases hc : (nfa.closure tg).isEmpty = true
  · rw [if_pos hc]; exact ⟨h, Or.inl rfl⟩
  · rw [if_neg hc]
    exact ⟨rmid_link h hd _ _ hp (fun t' ht' => hs _ t' ht'),
      Or.inr ⟨_, link_st _ _ _ _ (Nat.lt_of_lt_of_le hd h.len)⟩⟩

theorem succs_set_any (st : DState Nat) (hn : st.any = none) (t t' : Nat) (h : t' ∈ DFA.succs st ∨ t' = t) :
    t' ∈ DFA.succs { st with any := some t } := by
  rw [mem_succs] at *
  rcases h with (h1 | h1 | h1 | h1) | h1
  · exact Or.inl h1
  · exact Or.inr (Or.inl h1)
  · rw [hn] at h1; cases h1
  · exact Or.inr (Or.inr (Or.inr h1))
  · exact Or.inr (Or.inr (Or.inl (by rw [h1])))

theorem succs_set_eoi (st : DState Nat) (hn : st.eoi = none) (t t' : Nat) (h : t' ∈ DFA.succs st ∨ t' = t) :
    t' ∈ DFA.succs { st with eoi := some t } := by
  rw [mem_succs] at *
  rcases h with (h1 | h1 | h1 | h1) | h1
  · exact Or.inl h1
  · exact Or.inr (Or.inl h1)
  · exact Or.inr (Or.inr (Or.inl h1))
  · rw [hn] at h1; cases h1
  · exact Or.inr (Or.inr (Or.inr (by rw [h1])))

/-! ### all stages -/

theorem rmid_expand (nfa : NFA) (b : Builder) (d : Nat) (cur : List Nat) (hd : d < b.dfa.length)
    (hemp : TEq (b.dfa.st d) DState.empty) :
    RMid b d (expandState nfa b d cur).1 (expandState nfa b d cur).2 [] := by
  rw [expandState_eqC]
  generalize collect nfa cur = col
  unfold expandC
  obtain ⟨h1, hb1⟩ := rmid_st1 b d col hemp
  have h2 : RMid b d (st2 nfa col d (st1 b d col)).1 (st2 nfa col d (st1 b d col)).2 [] ∧
      Bare ((st2 nfa col d (st1 b d col)).1.dfa.st d) :=
    rmid_charFold nfa col hd col.chars (st1 b d col, []) h1 hb1
  obtain ⟨h2, hb2⟩ := h2
  generalize st2 nfa col d (st1 b d col) = a2 at h2 hb2 ⊢
  have h3 : RMid b d (st3 nfa col a2).1 (st3 nfa col a2).2.1 ((st3 nfa col a2).2.2.map (·.2.2)) ∧
      ∀ i, (st3 nfa col a2).1.dfa.st i = a2.1.dfa.st i :=
    rmid_rangeFold nfa col col.ranges (a2.1, a2.2, []) h2
  obtain ⟨h3, hst3⟩ := h3
  generalize st3 nfa col a2 = a3 at h3 hst3 ⊢
  obtain ⟨h4, h4a, h4e⟩ := rmid_st4 hd a3 h3 (by rw [hst3 d]; exact hb2.1)
  rw [hst3 d, hb2.2.1] at h4a
  rw [hst3 d, hb2.2.2] at h4e
  generalize st4 d a3 = b4 at h4 h4a h4e ⊢
  obtain ⟨h5, ho5⟩ := rmid_optStep nfa hd col.any (fun t st => { st with any := some t }) (fun _ _ => rfl)
    (b4, a3.2.1) h4 (fun t t' ht' => succs_set_any _ h4a t t' ht')
  have h5e : ((optStep nfa d col.any (fun t st => { st with any := some t }) (b4, a3.2.1)).1.dfa.st d).eoi = none := by
    rcases ho5 with ho5 | ⟨t, ho5⟩
    · rw [ho5]; exact h4e
    · exact ho5.eoi.trans h4e
  generalize optStep nfa d col.any (fun t st => { st with any := some t }) (b4, a3.2.1) = a5 at h5 h5e ⊢
  exact (rmid_optStep nfa hd col.eoi (fun t st => { st with eoi := some t }) (fun _ _ => rfl) a5 h5
    (fun t t' ht' => succs_set_eoi _ h5e t t' ht')).1

/-! ## the strengthened loop invariant -/

structure RInv (nfa : NFA) (b : Builder) (finished : List Nat) (wl : List (List Nat)) : Prop where
  base : BInv nfa b finished wl
  reg : ∀ k ∈ wl, ∃ i, (k, i) ∈ b.stateMap
  par : ∀ i, i < b.dfa.length → i ≠ 0 → ∃ p ∈ finished, p < i ∧ i ∈ DFA.succs (b.dfa.st p)
  ps : ∀ s p, p ∈ (b.dfa.st s).preds → s ∈ DFA.succs (b.dfa.st p)

theorem rinv_skip {nfa : NFA} {b : Builder} {finished : List Nat} {cur : List Nat} {wl : List (List Nat)}
    (h : RInv nfa b finished (cur :: wl)) {d : Nat} (hd : (cur, d) ∈ b.stateMap) (hfin : d ∈ finished) :
    RInv nfa b finished wl :=
  ⟨binv_skip h.base hd hfin, fun k hk => h.reg k (List.mem_cons_of_mem _ hk), h.par, h.ps⟩

theorem rinv_expand {nfa : NFA} (hwf : NFAWF nfa) (hne : TargetsNonempty nfa) {b : Builder}
    {finished : List Nat} {cur : List Nat} {wl : List (List Nat)}
    (h : RInv nfa b finished (cur :: wl)) {d : Nat} (hd : (cur, d) ∈ b.stateMap) (hfin : d ∉ finished) :
    RInv nfa (expandState nfa b d cur).1 (d :: finished) ((expandState nfa b d cur).2 ++ wl) := by
  have hdl : d < b.dfa.length := wfb_idx_lt h.base.wf hd
  have hemp := h.base.unfin d hfin
  obtain ⟨hm, _⟩ := expand_spec hwf hne b d cur h.base.wf hdl hemp
  have hr := rmid_expand nfa b d cur hdl hemp
  have hd0 : DFA.succs (b.dfa.st d) = [] := by rw [succs_congr hemp]; rfl
  refine ⟨binv_expand hwf hne h.base hd hfin, fun k hk => ?_, fun i hi hi0 => ?_, fun s p hpm => ?_⟩
  · rcases List.mem_append.mp hk with h1 | h1
    · exact hr.reg k h1
    · obtain ⟨i, hi⟩ := h.reg k (List.mem_cons_of_mem _ h1)
      exact ⟨i, hm.old _ hi⟩
  · by_cases hib : i < b.dfa.length
    · obtain ⟨p, hp, hlt, hmem⟩ := h.par i hib hi0
      have hpd : p ≠ d := fun e => hfin (e ▸ hp)
      exact ⟨p, List.mem_cons_of_mem _ hp, hlt, by rw [succs_congr (hm.other p hpd)]; exact hmem⟩
    · have hle : b.dfa.length ≤ i := Nat.le_of_not_lt hib
      rcases hr.new i hle hi with h1 | h1
      · exact ⟨d, List.mem_cons_self, Nat.lt_of_lt_of_le hdl hle, h1⟩
      · cases h1
  · rcases hr.preds s p hpm with h1 | ⟨e1, e2⟩
    · have h2 := h.ps s p h1
      have hpd : p ≠ d := by
        intro e
        rw [e, hd0] at h2
        cases h2
      rw [succs_congr (hm.other p hpd)]; exact h2
    · rw [e1]; exact e2

theorem loop_specR {nfa : NFA} (hwf : NFAWF nfa) (hne : TargetsNonempty nfa) :
    ∀ (fuel : Nat) (wl : List (List Nat)) (finished : List Nat) (b bf : Builder),
      nfaToDfaLoop nfa fuel wl finished b = some bf → RInv nfa b finished wl →
      ∃ fin', RInv nfa bf fin' [] := by
  intro fuel
  induction fuel with
  | zero =>
    intro wl finished b bf h hinv
    cases wl with
    | nil => simp only [nfaToDfaLoop] at h; cases h; exact ⟨finished, hinv⟩
    | cons cur wl => simp [nfaToDfaLoop] at h
  | succ fuel ih =>
    intro wl finished b bf h hinv
    cases wl with
    | nil => simp only [nfaToDfaLoop] at h; cases h; exact ⟨finished, hinv⟩
    | cons cur wl =>
      rw [loop_cons] at h
      have hsame : (b.stateOf cur).1 = b := stateOf_same (hinv.reg cur List.mem_cons_self)
      obtain ⟨_, hkey⟩ := binv_stateOf hinv.base
      rw [hsame] at h hkey
      by_cases hc : (b.stateOf cur).2 ∈ finished
      · rw [if_pos (List.contains_iff_mem.mpr hc)] at h
        exact ih _ _ _ _ h (rinv_skip hinv hkey hc)
      · rw [if_neg (fun hh => hc (List.contains_iff_mem.mp hh))] at h
        exact ih _ _ _ _ h (rinv_expand hwf hne hinv hkey hc)

theorem rinv_init {nfa : NFA} (hwf : NFAWF nfa) :
    RInv nfa { dfa := [{ (DState.empty : DState Nat) with initial := true }],
               stateMap := [(nfa.closure [0], 0)] } [] [nfa.closure [0]] := by
  refine ⟨binv_init hwf, fun k hk => ?_, fun i hi hi0 => ?_, fun s p hpm => ?_⟩
  · rw [List.mem_singleton] at hk
    exact ⟨0, by rw [hk]; exact List.mem_singleton.mpr rfl⟩
  · simp at hi; exact absurd hi hi0
  · cases s with
    | zero => cases hpm
    | succ k => cases hpm

end SubsetReach

open Lexgen.Subset in
/-- in the DFA the subset construction builds, every state is reachable from state 0, and the recorded predecessor sets only contain real predecessors -/
theorem nfaToDfa_reach_preds (nfa : NFA) (hwf : NFAWF nfa) (hne : Subset.TargetsNonempty nfa) (d : DFA Nat)
    (hd : nfaToDfa nfa = some d) : AllReachable0 d ∧ PredsSound d := by
  unfold nfaToDfa at hd
  simp only [Option.map_eq_some_iff] at hd
  obtain ⟨bf, hloop, rfl⟩ := hd
  obtain ⟨fin', hinv⟩ := SubsetReach.loop_specR hwf hne _ _ _ _ _ hloop (SubsetReach.rinv_init hwf)
  constructor
  · intro s
    induction s using Nat.strongRecOn with
    | _ s ih =>
      intro hs
      by_cases h0 : s = 0
      · subst h0; exact .refl 0
      · obtain ⟨p, hp, hlt, hmem⟩ := hinv.par s hs h0
        exact .step (ih p hlt (Nat.lt_trans hlt hs)) hmem
  · intro s hs p hp
    have hmem := hinv.ps s p hp
    refine ⟨?_, hmem⟩
    apply Nat.lt_of_not_le
    intro hle
    rw [SubsetReach.dst_eq_empty_of_le _ hle] at hmem
    cases hmem

end Lexgen
