import LexgenModel.Model.Runtime
/-!
# Decidable well-formedness of a compiled machine

These are the hypotheses of the run-time refinement theorem, checked by evaluation on the
machine the macro actually produced (and provable for the model's own output).
-/
namespace Lexgen

def Trans.gotoTarget? : Trans → Option Nat
  | .goto t => some t
  | .accept _ => none

/-- `goto` successors of a simplified state. -/
def gotoSuccs (s : DState Trans) : List Nat := (DFA.succs s).filterMap Trans.gotoTarget?

/-- Ranges non-inverted, strictly increasing, disjoint. -/
def rangesWF {α : Type} : RangeMap α → Bool
  | [] => true
  | [(s, e, _)] => decide (s ≤ e)
  | (s1, e1, _) :: (s2, e2, v2) :: rest => decide (s1 ≤ e1) && decide (e1 < s2) && rangesWF ((s2, e2, v2) :: rest)

def keysDistinct {α : Type} : List (Nat × α) → Bool
  | [] => true
  | (k, _) :: rest => !(rest.any (·.1 == k)) && keysDistinct rest

/-- `l1` is a sub-list of `l2`. -/
def isSublist : List Acc → List Acc → Bool
  | [], _ => true
  | _ :: _, [] => false
  | a :: as, b :: bs => if a == b then isSublist as bs else isSublist (a :: as) bs

/-- Flags locally closed: along every `goto` edge `s → t`, if `s` backtracks or accepts then
`t` backtracks. -/
def flagsClosed (d : DFA Trans) : Bool :=
  d.all fun s => (s.backtrack || !s.accepting.isEmpty) → (gotoSuccs s).all fun t => (d.st t).backtrack

/-- If a char/range transition is `Accept accs` and the state has an any-transition, that one is
`Accept accs'` with `accs'` a sub-list of `accs`. -/
def acceptAnyClause (d : DFA Trans) : Bool :=
  d.all fun s =>
    match s.any with
    | none => true
    | some anyT =>
      (s.chars.map (·.2) ++ s.ranges.map (·.2.2)).all fun t =>
        match t with
        | .goto _ => true
        | .accept accs =>
          match anyT with
          | .accept accs' => isSublist accs' accs
          | .goto _ => false

structure WFReport where
  entriesOK : Bool
  targetsOK : Bool
  rangesOK : Bool
  charsOK : Bool
  eoiOK : Bool
  acceptAnyOK : Bool
  flagsOK : Bool
  ctxIdxOK : Bool
  state0OK : Bool
  inlOK : Bool
deriving Repr

def WFReport.all (r : WFReport) : Bool :=
  r.entriesOK && r.targetsOK && r.rangesOK && r.charsOK && r.eoiOK && r.acceptAnyOK && r.flagsOK &&
  r.ctxIdxOK && r.state0OK && r.inlOK

def allAccs (d : DFA Trans) : List Acc :=
  d.foldl (fun acc s => acc ++ s.accepting ++ (DFA.succs s).foldl (fun a t =>
    match t with | .accept l => a ++ l | .goto _ => a) []) []

/-- strictly ascending -/
def ascending : List Nat → Bool
  | [] => true
  | [_] => true
  | a :: b :: rest => decide (a < b) && ascending (b :: rest)

/-- The set of inlined states is usable by the generated code, whatever policy chose it: strictly
ascending, within range, no initial state. -/
def inlOK (d : DFA Trans) (inl : List Nat) : Bool :=
  ascending inl && inl.all fun i => decide (i < d.length) && !(d.st i).initial

def machineWF (d : DFA Trans) (entries : List (String × Nat)) (nCtx : Nat) (inl : List Nat) : WFReport :=
  { entriesOK := entries.all fun e =>
      e.2 < d.length && (d.st e.2).initial && (d.st e.2).preds.isEmpty && (d.st e.2).accepting.isEmpty
    targetsOK := d.all fun s => (gotoSuccs s).all fun t => t < d.length && !(d.st t).initial
    rangesOK := d.all fun s => rangesWF s.ranges
    charsOK := d.all fun s => keysDistinct s.chars
    eoiOK := d.all fun s => match s.eoi with | some (.goto _) => false | _ => true
    acceptAnyOK := acceptAnyClause d
    flagsOK := flagsClosed d
    ctxIdxOK := (allAccs d).all fun a => match a.ctx with | some i => i < nCtx | none => true
    -- state 0 is where failures return to and the only state whose end-of-input default is
    -- `return None`: it must be an initial state; when rule sets are named it must be `Init`'s
    state0OK := decide (0 < d.length) && (d.st 0).initial && (d.st 0).accepting.isEmpty &&
      (entries.isEmpty || entries.any fun e => e.1 == "Init" && e.2 == 0)
    inlOK := inlOK d inl }

/-- Right-context DFAs (not simplified): targets in range, tables well-formed, end-of-input
targets accepting and without end-of-input successors of their own. -/
def ctxWF (d : DFA Nat) : Bool :=
  d.all fun s =>
    (DFA.succs s).all (· < d.length) && rangesWF s.ranges && keysDistinct s.chars &&
    match s.eoi with
    | some t => !(d.st t).accepting.isEmpty
    | none => true

end Lexgen
