import LexgenModel.Spec.WellFormed
/-!
# Executable reference matcher and maximal-munch selector (Brzozowski derivatives)

Computable counterparts of the language-level specification (`den`, `classDen`, `matchingAccs`,
`CtxLang`, `firstLang`, `LangCand`, `Selects`). The equivalence proofs are in `Proofs/RefMatch.lean`.

`Regex` has no constructor for the empty language or the empty word: `emptyR = .str []` denotes the
empty language and `epsR = .star (.str [])` denotes exactly the empty word. Derivatives are built with
smart constructors (`mkCat`, `mkAlt`) that simplify with these two and keep alternations flattened and
duplicate-free, so that the set of iterated derivatives of a regex stays small.
-/
namespace Lexgen

/-! ## Character classes -/

/-- membership of a code point in a bracket-set item (`itemHas`, decided) -/
def itemHasB : CharOrRange → Nat → Bool
  | .chr c, x => x == c
  | .rng s e, x => decide (s ≤ x) && decide (x ≤ e)

/-- membership of a code point in a (variable-free) class expression -/
def classMem : Regex → Nat → Bool
  | .chr c, x => x == c
  | .set items, x => items.any fun it => itemHasB it x
  | .any, x => decide (x ≤ charMax)
  | .builtin n, x =>
    match builtinRanges n with
    | none => false
    | some rs => rs.any fun p => decide (p.1 ≤ x) && decide (x ≤ p.2)
  | .alt a b, x => classMem a x || classMem b x
  | .diff a b, x => classMem a x && !classMem b x
  | _, _ => false

/-! ## Nullability, smart constructors, derivative -/

/-- `[] ∈ den r` -/
def nullableR : Regex → Bool
  | .star _ => true
  | .opt _ => true
  | .plus r => nullableR r
  | .cat a b => nullableR a && nullableR b
  | .alt a b => nullableR a || nullableR b
  | _ => false

/-- the empty language -/
def emptyR : Regex := .str []

/-- the language `{[]}` -/
def epsR : Regex := .star (.str [])

/-- `{[]}` if `b`, else the empty language -/
def ofBoolR (b : Bool) : Regex := if b then epsR else emptyR

/-- concatenation, simplified with `emptyR` and `epsR` -/
def mkCat (a b : Regex) : Regex :=
  if a = emptyR then emptyR
  else if b = emptyR then emptyR
  else if a = epsR then b
  else if b = epsR then a
  else .cat a b

/-- the alternatives of a regex (alternations flattened) -/
def altsR : Regex → List Regex
  | .alt a b => altsR a ++ altsR b
  | r => [r]

/-- alternation of a list (right-nested; `emptyR` for the empty list) -/
def altOfList : List Regex → Regex
  | [] => emptyR
  | [r] => r
  | r :: rs => .alt r (altOfList rs)

/-- remove duplicates (keeps the last occurrence of each element) -/
def dedupR : List Regex → List Regex
  | [] => []
  | r :: rs => if rs.contains r then dedupR rs else r :: dedupR rs

/-- alternation modulo associativity, idempotence and the unit `emptyR` -/
def mkAlt (a b : Regex) : Regex :=
  altOfList (dedupR ((altsR a ++ altsR b).filter fun r => !(r == emptyR)))

/-- the one-symbol regexes: does the symbol belong to the class? -/
def oneSym : Regex → Sym → Bool
  | .builtin n, .ch c => classMem (.builtin n) c
  | .chr c, .ch x => x == c
  | .set items, .ch c => items.any fun it => itemHasB it c
  | .any, .ch _ => true
  | .eoi, .eoi => true
  | .diff a b, .ch c => classMem (.diff a b) c
  | _, _ => false

/-- Brzozowski derivative -/
def derivR : Regex → Sym → Regex
  | .builtin n, x => ofBoolR (oneSym (.builtin n) x)
  | .var _, _ => emptyR
  | .chr c, x => ofBoolR (oneSym (.chr c) x)
  | .str [], _ => emptyR
  | .str (c :: cs), x => if x = .ch c then (if cs = [] then epsR else .str cs) else emptyR
  | .set items, x => ofBoolR (oneSym (.set items) x)
  | .star r, x => mkCat (derivR r x) (.star r)
  | .plus r, x => mkCat (derivR r x) (.star r)
  | .opt r, x => derivR r x
  | .cat a b, x =>
    if nullableR a then mkAlt (mkCat (derivR a x) b) (derivR b x) else mkCat (derivR a x) b
  | .alt a b, x => mkAlt (derivR a x) (derivR b x)
  | .any, x => ofBoolR (oneSym .any x)
  | .eoi, x => ofBoolR (oneSym .eoi x)
  | .diff a b, x => ofBoolR (oneSym (.diff a b) x)

/-- iterated derivative -/
def derivsR (r : Regex) (w : List Sym) : Regex := w.foldl derivR r

/-- `w ∈ den r` -/
def matchesR (r : Regex) (w : List Sym) : Bool := nullableR (derivsR r w)

/-! ## Rule sets -/

/-- computable `matchingAccs` -/
def matchingAccsB (rules : List CoreRule) (w : List Sym) : List Acc :=
  (rules.filter fun r => matchesR r.re w).map fun r => { value := r.value, ctx := r.ctx }

/-- does `r` denote some prefix of `w`? -/
def anyPrefixB : Regex → List Sym → Bool
  | r, [] => nullableR r
  | r, x :: w => nullableR r || (!(r == emptyR) && anyPrefixB (derivR r x) w)

/-- computable `CtxLang` -/
def ctxLangB (c : Regex) (rest : List Nat) : Bool := anyPrefixB c (ext rest)

/-- computable `firstLang` -/
def firstLangB (ctxAt : Nat → Regex) (rest : List Nat) : List Acc → Option Nat
  | [] => none
  | a :: more =>
    match a.ctx with
    | none => some a.value
    | some i => if ctxLangB (ctxAt i) rest then some a.value else firstLangB ctxAt rest more

/-- computable `LangCand` -/
def langCandB (rules : List CoreRule) (ctxAt : Nat → Regex) (iter : List Nat) (n a : Nat) (viaEoi : Bool) : Bool :=
  decide (n ≤ iter.length) &&
    if viaEoi then
      decide (n = iter.length) &&
        (firstLangB ctxAt [] (matchingAccsB rules (iter.map Sym.ch ++ [Sym.eoi])) == some a)
    else firstLangB ctxAt (iter.drop n) (matchingAccsB rules ((iter.take n).map Sym.ch)) == some a

/-! ## Maximal munch: one left-to-right pass over the input -/

/-- all rules derived by one symbol (rules whose regex became `emptyR` can never match again and are
dropped; the order of the others is kept) -/
def derivRules (rules : List CoreRule) (x : Sym) : List CoreRule :=
  (rules.map fun r => { r with re := derivR r.re x }).filter fun r => !(r.re == emptyR)

/-- accept entries of the rules that match the empty word, in rule order -/
def nullAccs (rules : List CoreRule) : List Acc :=
  (rules.filter fun r => nullableR r.re).map fun r => { value := r.value, ctx := r.ctx }

/-- `rules` are the rules derived by the `k` characters read so far, `rest` is what remains, `best` is
the longest match found at a length `< k` -/
def scanRef (ctxAt : Nat → Regex) : List CoreRule → Nat → List Nat → Option (Nat × Nat × Bool) →
    Option (Nat × Nat × Bool)
  | rules, k, [], best =>
    match firstLangB ctxAt [] (nullAccs (derivRules rules .eoi)) with
    | some a => some (k, a, true)
    | none =>
      match firstLangB ctxAt [] (nullAccs rules) with
      | some a => some (k, a, false)
      | none => best
  | rules, k, c :: rest, best =>
    let best' :=
      match firstLangB ctxAt (c :: rest) (nullAccs rules) with
      | some a => some (k, a, false)
      | none => best
    match derivRules rules (.ch c) with
    | [] => best'
    | rules' => scanRef ctxAt rules' (k + 1) rest best'

/-- maximal munch with first-rule priority, executable: the `candLe`-greatest match -/
def selectRef (rules : List CoreRule) (ctxAt : Nat → Regex) (iter : List Nat) : Option (Nat × Nat × Bool) :=
  scanRef ctxAt rules 0 iter none

/-! ## Sanity checks

```
def rules : List CoreRule := [
  { re := .str [105, 102], ctx := none, value := 0 },                                        -- "if"
  { re := .cat (.set [.rng 97 122]) (.star (.set [.rng 97 122, .rng 48 57])), ctx := none, value := 1 },  -- [a-z][a-z0-9]*
  { re := .plus (.set [.rng 48 57]), ctx := some 0, value := 2 },                            -- [0-9]+ > (' ' | $)
  { re := .plus (.chr 32), ctx := none, value := 3 },                                        -- ' '+
  { re := .cat (.chr 120) .eoi, ctx := none, value := 4 }]                                   -- 'x' $
def ctxAt : Nat → Regex := fun _ => .alt (.chr 32) .eoi
#eval selectRef rules ctxAt [105, 102, 32, 120]   -- some (2, 0, false)   "if x": keyword before identifier
#eval selectRef rules ctxAt [105, 102, 120]       -- some (3, 1, false)   "ifx": longest match
#eval selectRef rules ctxAt [49, 50, 32]          -- some (2, 2, false)   "12 ": right context holds
#eval selectRef rules ctxAt [49, 50]              -- some (2, 2, false)   "12": right context `$`
#eval selectRef rules ctxAt [49, 50, 97]          -- none                 "12a": right context fails
#eval selectRef rules ctxAt [120]                 -- some (1, 4, true)    "x": the `$` match wins at full length
#eval selectRef rules ctxAt [120, 32]             -- some (1, 1, false)
#eval selectRef rules ctxAt []                    -- none
#eval classMem (.builtin "XID_Start") 97          -- true
```
The same checks are `example .. := by decide` at the end of `Proofs/RefMatch.lean`.
-/

example : matchesR (.star (.alt (.chr 97) (.str [97, 97]))) [.ch 97, .ch 97, .ch 97] = true := by decide
example : classMem (.diff .any (.set [.rng 48 57])) 48 = false := by decide
example : selectRef [{ re := .cat (.chr 120) .eoi, ctx := none, value := 4 }, { re := .chr 120, ctx := none, value := 1 }]
    (fun _ => .any) [120] = some (1, 4, true) := by decide

end Lexgen
