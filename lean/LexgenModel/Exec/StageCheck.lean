import LexgenModel.Exec.Bisim
import LexgenModel.Exec.MachineWF
import LexgenModel.Model.Compile
/-!
# The stage checks `lexmodel` runs on every machine the macro dumps, as one executable predicate

`stageOK c dfa entries ctxs inl` is what the driver (`Main.lean`, `stageChecks`) evaluates for the machine the real macro produced for a
definition (`dfa`: simplified automaton, `entries`: rule-set entry map, `ctxs`: right-context automata, `inl`: the states whose code it
inlined) against the machine `c` the MODEL of the macro compiles from the same definition:
the entry maps name the same rule sets, the product exploration `bisim` of the two simplified automata from every pair of entries succeeds,
the context automata are equally many and pairwise bisimilar, the dumped machine passes the well-formedness checker `machineWF`, and in
neither simplified automaton a `goto` leads to a state that cannot go on (`gotoLive`: what `simplify` establishes, and what `bisim` cannot see).
`Proofs/DumpedMachine.lean` proves what follows from it.
-/
namespace Lexgen

/-- pair the entry states of equally named rule sets (`none`: the two maps do not name the same rule sets) -/
def entryPairs (a b : List (String × Nat)) : Option (List (Nat × Nat)) :=
  if a.length ≠ b.length then none else
  a.mapM fun (name, i) => (b.find? (·.1 = name)).map fun e => (i, e.2)

def accEqExact (a b : List Acc) : Bool := a == b

/-- the state can go on: it has an end-of-input transition, a default transition, or a transition on some code point `≤ charMax` -/
def stateLive (s : DState Trans) : Bool :=
  s.eoi.isSome || s.any.isSome || s.chars.any (fun e => decide (e.1 ≤ charMax)) ||
  s.ranges.any (fun r => decide (r.1 ≤ charMax) && decide (r.1 ≤ r.2.1))

/-- no `goto` leads to a state that cannot go on: `simplify` replaces every transition to such a state by an `Accept` transition
(the scan stops one character earlier on an `Accept` than on a `goto` into a dead state, which `bisim` — accept lists and
readable words only — cannot tell apart) -/
def gotoLive (d : DFA Trans) : Bool :=
  d.all fun s => (gotoSuccs s).all fun t => stateLive (d.st t)

def stageOK (c : Compiled) (dfa : DFA Trans) (entries : List (String × Nat)) (ctxs : List (DFA Nat)) (inl : List Nat) : Bool :=
  (match entryPairs c.entries entries with
   | none => false
   | some pairs => (bisim c.dfa dfa accEqExact (if pairs.isEmpty then [(0, 0)] else pairs)).1.ok) &&
  decide (c.ctxs.length = ctxs.length) &&
  ((List.range c.ctxs.length).all fun i =>
    (bisim (c.ctxs.getD i []) (ctxs.getD i []) accEqExact [(0, 0)]).1.ok && ctxWF (ctxs.getD i [])) &&
  (machineWF dfa entries ctxs.length inl).all &&
  gotoLive c.dfa && gotoLive dfa

end Lexgen
