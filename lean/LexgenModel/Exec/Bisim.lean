import LexgenModel.Model.Runtime
/-!
# Complete per-program comparison of two automata (product exploration)

Both the pre-simplification DFA (`DFA Nat`) and the simplified one (`DFA Trans`) are read as
automata over configurations: a state, or the terminal configuration an `Accept` transition
stands for. Two configurations are compared on their accept lists, then on one representative of
every class of the partition of the code-point space induced by the keys and range end points of
both, and on the end-of-input symbol; the exploration is exhaustive, so equality is established
for every word, not for sampled words.
-/
namespace Lexgen

inductive Cfg where
  | st (s : Nat)
  | term (accs : List Acc)
deriving Repr, DecidableEq, Inhabited

class Target (τ : Type) where
  toCfg : τ → Cfg

instance : Target Nat := ⟨Cfg.st⟩
instance : Target Trans := ⟨fun | .goto s => .st s | .accept accs => .term accs⟩

namespace Auto

variable {τ : Type} [Target τ]

def acc (d : DFA τ) : Cfg → List Acc
  | .st s => (d.st s).accepting
  | .term accs => accs

def step (d : DFA τ) : Cfg → Nat → Option Cfg
  | .st s, c => (lookupTrans (d.st s) c).map Target.toCfg
  | .term _, _ => none

def eoi (d : DFA τ) : Cfg → Option Cfg
  | .st s => (d.st s).eoi.map Target.toCfg
  | .term _ => none

/-- Boundary points of the partition a configuration induces on code points. -/
def points (d : DFA τ) : Cfg → List Nat
  | .st s =>
    let st := d.st s
    st.chars.foldl (fun acc e => e.1 :: (e.1 + 1) :: acc) [] ++
    st.ranges.foldl (fun acc r => r.1 :: (r.2.1 + 1) :: acc) []
  | .term _ => []

end Auto

structure BisimResult where
  ok : Bool
  pairs : Nat
  /-- on failure: distinguishing word (code points, `1114112` stands for end-of-input) and what differs -/
  word : List Nat := []
  why : String := ""
  /-- on failure: the word extended to a shortest word accepted by the side that can go on
  (a candidate input on which the two machines produce different tokens) -/
  witness : List Nat := []
deriving Repr

def eoiSym : Nat := 0x110000

/-- Shortest word from `c` to a configuration with a non-empty accept list (breadth-first,
one representative per class; bounded). -/
def completion {τ : Type} [Target τ] (d : DFA τ) (c : Cfg) : List Nat :=
  let rec go : Nat → List (Cfg × List Nat) → List Cfg → List Nat
    | 0, _, _ => []
    | _ + 1, [], _ => []
    | fuel + 1, (x, w) :: queue, seen =>
      if !(Auto.acc d x).isEmpty then w.reverse
      else if seen.contains x then go fuel queue seen
      else
        let pts := ((0x7A :: Auto.points d x).filter (· ≤ charMax)).eraseDups
        let next := pts.filterMap fun p => (Auto.step d x p).map fun y => (y, p :: w)
        go fuel (queue ++ next) (x :: seen)
  go 4000 [(c, [])] []

def showAccs (l : List Acc) : String :=
  toString (l.map fun a => (a.value, a.ctx))

/-- Breadth-first product exploration. `fuel` bounds the number of processed pairs
(`|A|·|B|` + terminal configurations suffice; the driver passes a generous bound). -/
def bisimLoop {τ₁ τ₂ : Type} [Target τ₁] [Target τ₂] (a : DFA τ₁) (b : DFA τ₂)
    (accEq : List Acc → List Acc → Bool) :
    Nat → List (Cfg × Cfg × List Nat) → List (Cfg × Cfg) → BisimResult
  | 0, _, seen => { ok := false, pairs := seen.length, why := "fuel" }
  | _ + 1, [], seen => { ok := true, pairs := seen.length }
  | fuel + 1, (x, y, w) :: queue, seen =>
    if seen.contains (x, y) then bisimLoop a b accEq fuel queue seen
    else
      let seen := (x, y) :: seen
      if !accEq (Auto.acc a x) (Auto.acc b y) then
        { ok := false, pairs := seen.length, word := w.reverse,
          why := s!"accept lists differ: {showAccs (Auto.acc a x)} vs {showAccs (Auto.acc b y)}" }
      else
        let pts := (0 :: charMax :: (Auto.points a x ++ Auto.points b y)).filter (· ≤ charMax)
        let pts := pts.eraseDups
        -- compare on every representative
        let rec go : List Nat → List (Cfg × Cfg × List Nat) → Except (List Nat × String) (List (Cfg × Cfg × List Nat))
          | [], acc => .ok acc
          | c :: cs, acc =>
            match Auto.step a x c, Auto.step b y c with
            | none, none => go cs acc
            | some x', some y' =>
              -- enqueue each distinct target pair once
              if seen.contains (x', y') || acc.any (fun q => q.1 == x' && q.2.1 == y') then go cs acc
              else go cs ((x', y', c :: w) :: acc)
            | some x', none => .error ((c :: w).reverse ++ completion a x', "transition only on the left")
            | none, some y' => .error ((c :: w).reverse ++ completion b y', "transition only on the right")
        match go pts [] with
        | .error (word, why) => { ok := false, pairs := seen.length, word := word, why := why, witness := word }
        | .ok next =>
          match Auto.eoi a x, Auto.eoi b y with
          | none, none => bisimLoop a b accEq fuel (queue ++ next) seen
          | some x', some y' => bisimLoop a b accEq fuel (queue ++ (x', y', eoiSym :: w) :: next) seen
          | some _, none => { ok := false, pairs := seen.length, word := (eoiSym :: w).reverse, why := "end-of-input transition only on the left" }
          | none, some _ => { ok := false, pairs := seen.length, word := (eoiSym :: w).reverse, why := "end-of-input transition only on the right" }

def bisim {τ₁ τ₂ : Type} [Target τ₁] [Target τ₂] (a : DFA τ₁) (b : DFA τ₂)
    (accEq : List Acc → List Acc → Bool) (starts : List (Nat × Nat)) : BisimResult × Nat :=
  -- one exploration per start pair (so a failure names the entry it was found from); `seen` is not
  -- shared, which only costs time
  let fuel := 64 * (a.length + 2) * (b.length + 2) * (a.length + b.length + 4) + 1000
  let rec go : List (Nat × Nat) → Nat → Nat → BisimResult × Nat
    | [], _, pairs => ({ ok := true, pairs := pairs }, 0)
    | (x, y) :: rest, idx, pairs =>
      let r := bisimLoop a b accEq fuel [(Cfg.st x, Cfg.st y, [])] []
      if r.ok then go rest (idx + 1) (pairs + r.pairs) else (r, idx)
  go starts 0 0

end Lexgen
