import LexgenModel.Spec.RefLexer
import LexgenModel.Exec.RefMatch
/-!
# The reference lexer `RefNext`, executable

`specNext` runs one call of `next()` of the language-level reference lexer (`Spec/RefLexer.lean`) on a
DEFINITION: the active rule set is looked up by name, its rules and right contexts are read off the
definition after variable substitution (`coreRules`, `coreCtxs`), the match is chosen by the proved-correct
selector `selectRef` (Brzozowski derivatives, `Exec/RefMatch.lean`), and the semantic-action protocol is
`callAction`. No automaton is involved: the `Config` is only used for `callAction` (actions, width, input)
and for the numbers the generated `switch` stores for rule-set names (`switchTable`).

The one thing `RefNext` leaves open — how much input an `InvalidToken` consumes (`ErrResume` only says
"at least one character unless the input ended") — is fixed here by the rule of the Python reference
(`reflex.py`, `RefLexer.select`/`run`), see `errAdvance`.

The soundness statements are in `Proofs/SpecRun.lean`.
-/
namespace Lexgen
variable {σ τ ε : Type}

/-! ## The right contexts of the definition, by number (`CtxNumbering`) -/

/-- per rule set whose right contexts can be substituted: the number of its first right context and its
right contexts in source order -/
def specCtxTable (items : LexerDef) : List (Nat × List Regex) :=
  (allRuleSets items).filterMap fun e => (coreCtxs e.2.1 e.2.2.1).map fun cres => (e.2.2.2, cres)

/-- look a right-context number up: the `j`-th context of the block starting at `k` has number `k + j` -/
def ctxAtTable : List (Nat × List Regex) → Nat → Regex
  | [], _ => emptyR
  | (k, cres) :: rest, i =>
    if k ≤ i ∧ i < k + cres.length then cres.getD (i - k) emptyR else ctxAtTable rest i

/-- the regex of right context number `i` of the definition (`emptyR` for a number that is not used) -/
def specCtxAt (items : LexerDef) : Nat → Regex := ctxAtTable (specCtxTable items)

/-! ## The active rule set -/

/-- the rule set whose number (as stored by the generated `switch`) is `n`: for a definition with rule sets
the name is read back from `switchTable cfg.inl cfg.entries` and looked up in `allRuleSets`; a definition
without rule sets has the single unnamed rule set, number 0 -/
def activeSet (items : LexerDef) (cfg : Config σ τ ε) (n : Nat) :
    Option (String × List RuleOrBinding × Bindings × Nat) :=
  if hasRuleSets items then
    match (switchTable cfg.inl cfg.entries).find? (·.2 = n) with
    | none => none
    | some e => (allRuleSets items).find? (·.1 = e.1)
  else if n = 0 then (allRuleSets items).head? else none

/-- the name the traces print for the active rule set: `_` for a definition without rule sets, `?` when the
number names no rule set -/
def activeName (items : LexerDef) (cfg : Config σ τ ε) (n : Nat) : String :=
  if hasRuleSets items then
    match activeSet items cfg n with
    | some e => e.1
    | none => "?"
  else "_"

/-! ## How much an `InvalidToken` consumes

NOT covered by `RefNext`/`ErrResume` (which leave the amount unspecified beyond "at least one character
unless the input ended, `done` only at the end of the input"): the rule below is the one of the Python
reference lexer (`reflex.py`): the generated code stops where its automaton dies, i.e. after the longest
viable prefix, plus the one character on which it dies if the automaton was still reading. -/

/-- `has_word` of `reflex.py`: does the language contain a non-empty word over the extended alphabet?
Structural, for (derivatives of) regexes of definitions without empty classes and empty literals: every
class and `$` has a one-symbol word; `emptyR = .str []` and `epsR = .star (.str [])` have none. -/
def hasWordR : Regex → Bool
  | .str cs => !cs.isEmpty
  | .var _ => false
  | .star r => hasWordR r
  | .plus r => hasWordR r
  | .opt r => hasWordR r
  | .cat a b => hasWordR a || hasWordR b
  | .alt a b => hasWordR a || hasWordR b
  | _ => true

/-- "the language is not empty", syntactically on normalised derivatives (`is_empty_lang` of `lexast.py`:
exact for definitions without empty classes) -/
def aliveR (r : Regex) : Bool := !(r == emptyR)

/-- the longest prefix of the input after which at least one regex's derivative is still alive, with the
derivatives after that prefix -/
def viableRef : List Regex → List Nat → Nat × List Regex
  | cur, [] => (0, cur)
  | cur, c :: rest =>
    let nxt := cur.map fun r => derivR r (.ch c)
    if nxt.any aliveR then
      let p := viableRef nxt rest
      (p.1 + 1, p.2)
    else (0, cur)

/-- (number of characters consumed by the error, whether the end of input was seen):
`p = viable + (1 if reads_on and viable < n else 0)`, `done = reads_on and viable == n` -/
def errAdvance (res : List Regex) (iter : List Nat) : Nat × Bool :=
  let p := viableRef res iter
  let readsOn := p.1 == 0 || p.2.any fun r => aliveR r && hasWordR r
  (p.1 + (if readsOn && decide (p.1 < iter.length) then 1 else 0), readsOn && p.1 == iter.length)

/-- the state an `InvalidToken` leaves behind: `Init` active, empty match, nothing saved, user untouched -/
def errState (width : Nat → Nat) (res : List Regex) (st : LState σ) : LState σ :=
  let p := errAdvance res st.iter
  let st1 := advanceBy width st p.1
  { st1 with state := 0, initial := 0, last := none, done := p.2, curStart := st1.curEnd }

/-! ## One call of `next()` -/

/-- `RefNext`, constructor by constructor; `ctxAt` is passed in so that it is computed once per call -/
def specLoop (items : LexerDef) (cfg : Config σ τ ε) (ctxAt : Nat → Regex) (fuel : Nat) (st : LState σ) :
    Option (Option (Item τ ε) × LState σ) :=
  -- `RefNext.done`
  if st.done then some (none, st)
  else
    match fuel with
    | 0 => none
    | fuel + 1 =>
      match activeSet items cfg st.initial with
      | none => none
      | some e =>
        match coreRules e.2.1 e.2.2.1 e.2.2.2 with
        | none => none
        | some rules =>
          match selectRef rules ctxAt st.iter with
          | some (n, a, viaEoi) =>
            match callAction cfg a (matchState cfg.width st n viaEoi 0) with
            -- `RefNext.ret`
            | .ret item st' => some (item, st')
            -- `RefNext.cont`
            | .cont st2 => specLoop items cfg ctxAt fuel st2
          | none =>
            -- `RefNext.eof`
            if st.iter = [] ∧ st.state = 0 then some (none, { st with done := true })
            -- `RefNext.invalid`
            else some (some (.invalid st.curStart), errState cfg.width (rules.map (·.re)) st)

/-- One call of `next()` of the reference lexer of `items`. `none`: out of fuel (`st.iter.length + 2` rounds
suffice for rules that do not match the empty string), or the state names no rule set of the definition, or
a variable of the active rule set is unbound. -/
def specNext (items : LexerDef) (cfg : Config σ τ ε) (fuel : Nat) (st : LState σ) :
    Option (Option (Item τ ε) × LState σ) :=
  let tbl := specCtxTable items
  specLoop items cfg (ctxAtTable tbl) fuel st

/-- `specNext` with the fuel of `next` -/
def specNextFull (items : LexerDef) (cfg : Config σ τ ε) (st : LState σ) :
    Option (Option (Item τ ε) × LState σ) :=
  specNext items cfg (st.iter.length + 2) st

/-! ## Sanity checks (evaluated by the kernel) -/

-- `"abcde"` on `abcx..`: the automaton dies on `x` after the viable prefix `abc`: 4 characters consumed
example : errAdvance [.str [97, 98, 99, 100, 101]] [97, 98, 99, 120, 97] = (4, false) := by decide
-- `'a' $` on `a b`: viable prefix `a`, the automaton still reads on (`$` expected), dies on `b`
example : errAdvance [.cat (.chr 97) .eoi] [97, 98] = (2, false) := by decide
-- `"ab" > 'c'` (right context fails) on `abd`: after `ab` no surviving rule has a non-empty continuation,
-- the automaton does not read on: 2 characters consumed
example : errAdvance [.str [97, 98]] [97, 98, 100] = (2, false) := by decide
-- no rule starts with `x`: one character consumed
example : errAdvance [.str [97, 98]] [120, 97] = (1, false) := by decide
-- the input ends inside a lexeme: everything consumed, end of input seen
example : errAdvance [.str [97, 98, 99]] [97, 98] = (2, true) := by decide
-- error at the end of the input (rule set other than the first): nothing to consume, end of input seen
example : errAdvance [.str [97]] [] = (0, true) := by decide
/- ```
#eval specCtxAt [.ruleSet "Init" [.rule { re := .chr 97, ctx := some (.chr 98), rhs := 0 }],
    .ruleSet "B" [.binding "x" (.chr 99), .rule { re := .chr 97, ctx := none, rhs := 1 },
      .rule { re := .chr 97, ctx := some (.var "x"), rhs := 2 }]] 1    -- Lexgen.Regex.chr 99
``` -/

end Lexgen
